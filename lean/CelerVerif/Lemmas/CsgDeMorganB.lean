/-
C10 helper lemmas, part 8b (De Morgan): the id-map invariant and soundness of every step of the
second pass of `DeMorganSimplifier` (`build_negated_node`, node copy, `process_negated_joined_nodes`).
None of this depends on which nodes the first pass decided to keep.
-/
import CelerVerif.Lemmas.CsgDeMorganA

namespace CelerVerif.Csg

/-- documented precondition, as propositions -/
structure DMPre (t : Tree) : Prop where
  noAlias : ∀ i a, t.get i ≠ .aliased a
  noFls : ∀ i, t.get i ≠ .fls
  noDoubleNeg : ∀ i c, i < t.size → t.get i = .negated c → isNegated (t.get c) = false

theorem dealiased_eq {t : Tree} (h : DMPre t) (n : Nat) : dealiased t n = t.get n := by
  unfold dealiased dealias
  cases hg : t.get n with
  | aliased a => exact absurd hg (h.noAlias n a)
  | _ => simp [hg]

/-- the source node is `True` or a surface -/
def LeafSrc (n : Node) : Prop := isJoined n = false ∧ isNegated n = false

theorem leafSrc_isLeaf {t : Tree} (h : DMPre t) {i : Nat} (hl : LeafSrc (t.get i)) :
    IsLeaf (t.get i) := by
  cases hg : t.get i with
  | tru => trivial
  | surface k => trivial
  | fls => exact absurd hg (h.noFls i)
  | aliased a => exact absurd hg (h.noAlias i a)
  | negated c => rw [hg] at hl; simp [LeafSrc, isNegated] at hl
  | joined op ns => rw [hg] at hl; simp [LeafSrc, isJoined] at hl

/-- what a translation entry of original node `i` promises about the new tree `r` -/
structure TrOk (t r : Tree) (m : Matching) (i : Nat) : Prop where
  unmod : m.unmodified ≠ invalid → m.unmodified < r.size ∧
    (∀ σ, denote r σ m.unmodified = denote t σ i) ∧
    (LeafSrc (t.get i) → IsLeaf (r.get m.unmodified))
  simp : m.simplifiedTo ≠ invalid → m.simplifiedTo < r.size ∧
    ∀ σ, denote r σ m.simplifiedTo = denote t σ i
  opp : m.oppositeJoin ≠ invalid → m.oppositeJoin < r.size ∧
    ∀ σ, denote r σ m.oppositeJoin = !denote t σ i
  neg : m.newNegation ≠ invalid → m.newNegation < r.size ∧
    ∀ σ, denote r σ m.newNegation = !denote t σ i

/-- `r'` extends `r`: same old nodes, same old values -/
structure Extends (r r' : Tree) : Prop where
  size : r.size ≤ r'.size
  get : ∀ i, i < r.size → r'.get i = r.get i
  den : ∀ σ i, i < r.size → denote r' σ i = denote r σ i

theorem Extends.refl (r : Tree) : Extends r r := ⟨Nat.le_refl _, fun _ _ => rfl, fun _ _ _ => rfl⟩

theorem Extends.trans {a b c : Tree} (h1 : Extends a b) (h2 : Extends b c) : Extends a c :=
  ⟨Nat.le_trans h1.size h2.size,
    fun i hi => by rw [h2.get i (Nat.lt_of_lt_of_le hi h1.size), h1.get i hi],
    fun σ i hi => by rw [h2.den σ i (Nat.lt_of_lt_of_le hi h1.size), h1.den σ i hi]⟩

theorem extends_insert {r : Tree} (inv : TreeInv r) {n : Node}
    (hn : ∀ c ∈ n.children, c < r.size) (hsmall : r.size < invalid) : Extends r (insert r n).1 :=
  ⟨(insert_size_le r n).1, fun _ hi => insert_get_old r n hi, (insert_inv inv hn hsmall).2.1⟩

theorem TrOk.mono {t r r' : Tree} {m : Matching} {i : Nat} (h : TrOk t r m i) (e : Extends r r') :
    TrOk t r' m i where
  unmod := fun hv => by
    rcases h.unmod hv with ⟨h1, h2, h3⟩
    exact ⟨Nat.lt_of_lt_of_le h1 e.size, fun σ => by rw [e.den σ _ h1, h2 σ],
      fun hl => by rw [e.get _ h1]; exact h3 hl⟩
  simp := fun hv => by
    rcases h.simp hv with ⟨h1, h2⟩
    exact ⟨Nat.lt_of_lt_of_le h1 e.size, fun σ => by rw [e.den σ _ h1, h2 σ]⟩
  opp := fun hv => by
    rcases h.opp hv with ⟨h1, h2⟩
    exact ⟨Nat.lt_of_lt_of_le h1 e.size, fun σ => by rw [e.den σ _ h1, h2 σ]⟩
  neg := fun hv => by
    rcases h.neg hv with ⟨h1, h2⟩
    exact ⟨Nat.lt_of_lt_of_le h1 e.size, fun σ => by rw [e.den σ _ h1, h2 σ]⟩

theorem trOk_default (t r : Tree) (i : Nat) : TrOk t r {} i :=
  ⟨fun h => absurd rfl h, fun h => absurd rfl h, fun h => absurd rfl h, fun h => absurd rfl h⟩

/-- value of a node of the sorted original tree -/
theorem denote_get {t : Tree} (hso : Sorted t) (σ : Nat → Bool) {i : Nat} (hi : i < t.size) :
    denote t σ i = evalNode σ (denote t σ) (t.get i) := denote_models hso σ i hi

/-! ### build_negated_node -/

theorem negOperand_sound {t r : Tree} {tr : TrMap} (pre : DMPre t) (hso : Sorted t)
    (htr : ∀ i, TrOk t r (tr i) i) {n u : Nat} (hn : n < t.size)
    (h : negOperand t tr n = .ok u) : u < r.size ∧ ∀ σ, denote r σ u = !denote t σ n := by
  unfold negOperand at h
  rw [dealiased_eq pre] at h
  cases hg : t.get n with
  | negated c =>
    rw [hg] at h
    simp only at h
    split at h
    · cases h
    · rename_i hv
      cases h
      rcases (htr c).unmod hv with ⟨h1, h2, _⟩
      refine ⟨h1, fun σ => ?_⟩
      rw [h2 σ, denote_get hso σ hn, hg]; simp [evalNode]
  | tru | fls | aliased _ | surface _ | joined _ _ =>
    rw [hg] at h
    simp only at h
    by_cases hnn : (tr n).newNegation ≠ invalid
    · rw [if_pos hnn] at h
      rw [if_neg hnn] at h
      cases h
      exact (htr n).neg hnn
    · rw [if_neg hnn] at h
      by_cases hv : (tr n).oppositeJoin = invalid
      · rw [if_pos hv] at h; cases h
      · rw [if_neg hv] at h; cases h; exact (htr n).opp hv

theorem negOperands_sound {t r : Tree} {tr : TrMap} (pre : DMPre t) (hso : Sorted t)
    (htr : ∀ i, TrOk t r (tr i) i) : ∀ (ns us : List Nat), (∀ n ∈ ns, n < t.size) →
    negOperands t tr ns = .ok us →
    (∀ u ∈ us, u < r.size) ∧
    ∀ σ, us.all (denote r σ) = !(ns.any (denote t σ)) ∧ us.any (denote r σ) = !(ns.all (denote t σ)) := by
  intro ns
  induction ns with
  | nil => intro us _ h; simp [negOperands] at h; subst h; simp
  | cons n ns ih =>
    intro us hns h
    unfold negOperands at h
    cases h1 : negOperand t tr n with
    | error e => rw [h1] at h; cases h
    | ok u =>
      rw [h1] at h
      simp only at h
      cases h2 : negOperands t tr ns with
      | error e => rw [h2] at h; cases h
      | ok us' =>
        rw [h2] at h
        cases h
        have hu := negOperand_sound pre hso htr (hns n (by simp)) h1
        have hr := ih us' (fun x hx => hns x (List.mem_cons_of_mem _ hx)) h2
        refine ⟨?_, fun σ => ?_⟩
        · intro x hx
          rcases List.mem_cons.1 hx with rfl | hx
          · exact hu.1
          · exact hr.1 x hx
        · simp only [List.all_cons, List.any_cons, hu.2 σ, (hr.2 σ).1, (hr.2 σ).2]
          cases denote t σ n <;> simp

/-- ★ per-node lemma: the opposite join emitted for a join denotes the negation of that join -/
theorem buildNegatedNode_sound {t r : Tree} {tr : TrMap} (pre : DMPre t) (hso : Sorted t)
    (htr : ∀ i, TrOk t r (tr i) i) {op : Op} {ns : List Nat} {node : Node}
    (hns : ∀ n ∈ ns, n < t.size) (h : buildNegatedNode t tr op ns = .ok node) :
    (∀ c ∈ node.children, c < r.size) ∧ isNegated node = false ∧ isJoined node = true ∧
    ∀ σ, evalNode σ (denote r σ) node = !evalNode σ (denote t σ) (.joined op ns) := by
  unfold buildNegatedNode at h
  cases h1 : negOperands t tr ns with
  | error e => rw [h1] at h; cases h
  | ok us =>
    rw [h1] at h
    cases h
    have hs := negOperands_sound pre hso htr ns us hns h1
    refine ⟨by simpa [Node.children] using hs.1, rfl, rfl, fun σ => ?_⟩
    cases op with
    | and => simp only [flipOp, evalNode]; exact (hs.2 σ).2
    | or => simp only [flipOp, evalNode]; exact (hs.2 σ).1

/-! ### copy of a node with translated children -/

theorem equivalent_sound {t r : Tree} {m : Matching} {i : Nat} (h : TrOk t r m i)
    (hv : m.equivalent ≠ invalid) :
    m.equivalent < r.size ∧ ∀ σ, denote r σ m.equivalent = denote t σ i := by
  unfold Matching.equivalent at hv ⊢
  by_cases h1 : m.simplifiedTo ≠ invalid
  · rw [if_pos h1]; exact h.simp h1
  · rw [if_neg h1] at hv ⊢
    by_cases h2 : m.unmodified ≠ invalid
    · rw [if_pos h2]; exact ⟨(h.unmod h2).1, (h.unmod h2).2.1⟩
    · rw [if_neg h2] at hv; exact absurd rfl hv

/-- ★ per-node lemma: the translated copy of node `i` evaluates in the new tree like node `i` in
    the original tree -/
theorem translateNode_sound {t r : Tree} {tr : TrMap} (pre : DMPre t)
    (htr : ∀ i, TrOk t r (tr i) i) {i : Nat} {node : Node}
    (h : translateNode tr (t.get i) = .ok node) :
    (∀ c ∈ node.children, c < r.size) ∧
    (∀ σ, evalNode σ (denote r σ) node = evalNode σ (denote t σ) (t.get i)) ∧
    (isNegated (t.get i) = false → isNegated node = false) ∧
    (∀ c, t.get i = .negated c → node = .negated (tr c).unmodified ∧ (tr c).unmodified ≠ invalid) ∧
    (LeafSrc (t.get i) → node = t.get i) := by
  cases hg : t.get i with
  | aliased a => exact absurd hg (pre.noAlias i a)
  | tru => rw [hg] at h; cases h; simp [Node.children, isNegated, evalNode]
  | fls => rw [hg] at h; cases h; simp [Node.children, isNegated, evalNode]
  | surface k => rw [hg] at h; cases h; simp [Node.children, isNegated, evalNode]
  | negated c =>
    rw [hg] at h
    simp only [translateNode] at h
    split at h
    · cases h
    · rename_i hv
      cases h
      rcases (htr c).unmod hv with ⟨h1, h2, _⟩
      refine ⟨by simpa [Node.children] using h1, fun σ => by simp [evalNode, h2 σ],
        fun hh => absurd hh (by simp [isNegated]), fun c' hc' => ?_,
        fun hl => absurd hl.2 (by simp [isNegated])⟩
      cases hc'; exact ⟨rfl, hv⟩
  | joined op ns =>
    rw [hg] at h
    simp only [translateNode] at h
    split at h
    · cases h
    · rename_i hv
      cases h
      have hvalid : ∀ o ∈ ns, (tr o).equivalent ≠ invalid := by
        intro o ho he
        apply hv
        simp only [List.contains_eq_mem, List.mem_map, decide_eq_true_eq]
        exact ⟨o, ho, he⟩
      refine ⟨?_, fun σ => ?_, fun _ => rfl, fun c hc => Node.noConfusion hc,
        fun hl => absurd hl.1 (by simp [isJoined])⟩
      · intro c hc
        simp only [Node.children, List.mem_map] at hc
        rcases hc with ⟨o, ho, rfl⟩
        exact (equivalent_sound (htr o) (hvalid o ho)).1
      · cases op with
        | and =>
          simp only [evalNode, List.all_map]
          exact all_eq_of_mem fun o ho => (equivalent_sound (htr o) (hvalid o ho)).2 σ
        | or =>
          simp only [evalNode, List.any_map]
          exact any_eq_of_mem fun o ho => (equivalent_sound (htr o) (hvalid o ho)).2 σ

end CelerVerif.Csg
