/- Helper lemmas for C18: binary / linear searches (loop invariants by functional induction). -/
import CelerVerif.Model.Algo

namespace CelerVerif.Algo
variable {α β : Type} [Inhabited α]

/-- the bisection loop of `lower_bound_impl` on a range `[first, first+len)` that is
    partitioned with respect to `cmp · v` returns the partition point -/
theorem lowerBoundLoop_spec (cmp : α → β → Bool) (a : Array α) (v : β) (first len : Nat)
    (hpart : ∀ i j, first ≤ i → i ≤ j → j < first + len → cmp a[j]! v = true → cmp a[i]! v = true) :
    first ≤ lowerBoundLoop cmp a v first len ∧ lowerBoundLoop cmp a v first len ≤ first + len ∧
    (∀ i, first ≤ i → i < lowerBoundLoop cmp a v first len → cmp a[i]! v = true) ∧
    (∀ i, lowerBoundLoop cmp a v first len ≤ i → i < first + len → cmp a[i]! v = false) := by
  fun_induction lowerBoundLoop cmp a v first len with
  | case1 first =>
    exact ⟨Nat.le_refl _, Nat.le_refl _, fun i h1 h2 => by omega, fun i h1 h2 => by omega⟩
  | case2 first len hlen hc ih =>
    have ih' := ih (fun i j h1 h2 h3 h4 => hpart i j (by omega) h2 (by omega) h4)
    obtain ⟨h1, h2, h3, h4⟩ := ih'
    refine ⟨by omega, by omega, ?_, ?_⟩
    · intro i hi1 hi2
      by_cases hm : i ≤ first + len / 2
      · exact hpart i (first + len / 2) hi1 hm (by omega) hc
      · exact h3 i (by omega) hi2
    · intro i hi1 hi2
      exact h4 i hi1 (by omega)
  | case3 first len hlen hc ih =>
    have ih' := ih (fun i j h1 h2 h3 h4 => hpart i j h1 h2 (by omega) h4)
    obtain ⟨h1, h2, h3, h4⟩ := ih'
    refine ⟨h1, by omega, h3, ?_⟩
    intro i hi1 hi2
    by_cases hm : i < first + len / 2
    · exact h4 i hi1 hm
    · cases hci : cmp a[i]! v with
      | false => rfl
      | true =>
        have := hpart (first + len / 2) i (by omega) (by omega) hi2 hci
        simp [this] at hc

/-- same for `upper_bound_impl`: the range is partitioned with respect to `¬ cmp v ·` -/
theorem upperBoundLoop_spec (cmp : β → α → Bool) (a : Array α) (v : β) (first len : Nat)
    (hpart : ∀ i j, first ≤ i → i ≤ j → j < first + len → cmp v a[i]! = true → cmp v a[j]! = true) :
    first ≤ upperBoundLoop cmp a v first len ∧ upperBoundLoop cmp a v first len ≤ first + len ∧
    (∀ i, first ≤ i → i < upperBoundLoop cmp a v first len → cmp v a[i]! = false) ∧
    (∀ i, upperBoundLoop cmp a v first len ≤ i → i < first + len → cmp v a[i]! = true) := by
  fun_induction upperBoundLoop cmp a v first len with
  | case1 first =>
    exact ⟨Nat.le_refl _, Nat.le_refl _, fun i h1 h2 => by omega, fun i h1 h2 => by omega⟩
  | case2 first len hlen hc ih =>
    have ih' := ih (fun i j h1 h2 h3 h4 => hpart i j h1 h2 (by omega) h4)
    obtain ⟨h1, h2, h3, h4⟩ := ih'
    refine ⟨h1, by omega, h3, ?_⟩
    intro i hi1 hi2
    by_cases hm : i < first + len / 2
    · exact h4 i hi1 hm
    · exact hpart (first + len / 2) i (by omega) (by omega) hi2 hc
  | case3 first len hlen hc ih =>
    have ih' := ih (fun i j h1 h2 h3 h4 => hpart i j (by omega) h2 (by omega) h4)
    obtain ⟨h1, h2, h3, h4⟩ := ih'
    refine ⟨by omega, by omega, ?_, ?_⟩
    · intro i hi1 hi2
      by_cases hm : i ≤ first + len / 2
      · cases hci : cmp v a[i]! with
        | false => rfl
        | true =>
          have := hpart i (first + len / 2) hi1 hm (by omega) hci
          simp [this] at hc
      · exact h3 i (by omega) hi2
    · intro i hi1 hi2
      exact h4 i hi1 (by omega)

/-- the linear search returns the first index whose element is not ordered before `v`
    (no hypothesis on the input) -/
theorem lowerBoundLinearLoop_spec (cmp : α → β → Bool) (a : Array α) (v : β) (it last : Nat)
    (h : it ≤ last) :
    it ≤ lowerBoundLinearLoop cmp a v it last ∧ lowerBoundLinearLoop cmp a v it last ≤ last ∧
    (∀ i, it ≤ i → i < lowerBoundLinearLoop cmp a v it last → cmp a[i]! v = true) ∧
    (lowerBoundLinearLoop cmp a v it last < last →
      cmp a[lowerBoundLinearLoop cmp a v it last]! v = false) := by
  fun_induction lowerBoundLinearLoop cmp a v it last with
  | case1 it hlt hc =>
    refine ⟨Nat.le_refl _, by omega, fun i h1 h2 => by omega, fun _ => by simpa using hc⟩
  | case2 it hlt hc ih =>
    obtain ⟨h1, h2, h3, h4⟩ := ih (by omega)
    refine ⟨by omega, h2, ?_, h4⟩
    intro i hi1 hi2
    by_cases hm : i = it
    · subst hm; simpa using hc
    · exact h3 i (by omega) hi2
  | case3 it hge => exact ⟨h, Nat.le_refl _, fun i h1 h2 => by omega, fun h => by omega⟩

end CelerVerif.Algo
