/-
The `find_safety(max_step)` overload: what a caller that only compares the result against
`max_step` needs, and the tie of the hand-written per-class table to the generated one.
-/
import CelerVerif.Lemmas.SafetyRay
import CelerVerif.Generated.SafetySource

namespace CelerVerif.Safety
open CelerVerif CelerVerif.Surf

/-- "capped" agreement: `min(r, m) = min(f, m)` on `Option ℝ` (none = +∞) -/
def CapEq (r f : Option ℝ) (m : ℝ) : Prop := fminO r (some m) = fminO f (some m)

/-- if a result agrees with the full safety up to the cap `m`, then below the cap it IS
    conservative wherever the full safety is -/
theorem capped_conservative (r f : Option ℝ) (m d : ℝ) (hcap : CapEq r f m) (hf : OLe f d)
    (hd : d < m) : OLe r d := by
  obtain ⟨v, rfl, hv⟩ := hf
  unfold CapEq at hcap
  rw [fminO_some, min_eq_left (le_of_lt (lt_of_le_of_lt hv hd))] at hcap
  cases r with
  | none =>
    rw [fminO_none_left] at hcap
    simp only [Option.some.injEq] at hcap
    exact absurd hcap (ne_of_gt (lt_of_le_of_lt hv hd))
  | some u =>
    rw [fminO_some] at hcap
    simp only [Option.some.injEq] at hcap
    refine ⟨u, rfl, ?_⟩
    rcases le_total u m with h | h
    · rw [min_eq_left h] at hcap; rw [hcap]; exact hv
    · rw [min_eq_right h] at hcap
      exact absurd hcap (ne_of_gt (lt_of_le_of_lt hv hd))

/-- class name of the C++ surface class modelled by each constructor -/
def generatedSimple : Surface ℝ → Bool
  | .planeAligned .. => Generated.Safety.simplePlaneAligned
  | .plane .. => Generated.Safety.simplePlane
  | .cylCentered .. => Generated.Safety.simpleCylCentered
  | .cylAligned .. => Generated.Safety.simpleCylAligned
  | .sphereCentered .. => Generated.Safety.simpleSphereCentered
  | .sphere .. => Generated.Safety.simpleSphere
  | .coneAligned .. => Generated.Safety.simpleConeAligned
  | .simpleQuadric .. => Generated.Safety.simpleSimpleQuadric
  | .generalQuadric .. => Generated.Safety.simpleGeneralQuadric

end CelerVerif.Safety
