/-
C14 helper lemmas (1): the ℝ reading of Model/Calc.lean — literals, the linear interpolator,
table well-formedness, storage reads, the uniform-grid bracket.
-/
import CelerVerif.Num.Real
import CelerVerif.Model.Calc
import Mathlib.Tactic.Ring
import Mathlib.Tactic.Linarith
import Mathlib.Tactic.FieldSimp
import Mathlib.Tactic.Positivity
import Mathlib.Tactic.NormNum
import Mathlib.Algebra.Order.Floor.Semiring
import Mathlib.Analysis.SpecialFunctions.Log.Basic

namespace CelerVerif.Calc
open CelerVerif

/-- rewrite `Num ℝ` operations into ordinary real arithmetic -/
macro "calc_simp" loc:(Lean.Parser.Tactic.location)? : tactic => `(tactic|
  simp only [NumR.gt_real, NumR.ge_real, NumR.sq_real, NumR.le_real, NumR.lt_real, NumR.eq_real,
    NumR.hsub_real, NumR.hneg_real, NumR.hadd_real, NumR.hmul_real, NumR.hdiv_real,
    NumR.sqrt_real, NumR.abs_real, NumR.exp_real, NumR.log_real,
    NumR.lit0, NumR.lit1, NumR.lit2, NumR.lit3, NumR.lit4,
    NumR.fma_real, Num.ne, NumR.eq_real_false, NumR.ofNat_zero, NumR.ofNat_one, NumR.ofNat_real,
    Bool.not_eq_true', decide_eq_true_eq, decide_eq_false_iff_not,
    Bool.and_eq_true, Bool.or_eq_true, Bool.not_eq_true, Bool.not_eq_eq_eq_not, Bool.not_true,
    Bool.not_false]
    $[$loc]?)

/-! ### literals -/
theorem half_real : (@OfScientific.ofScientific ℝ Num.instOfScientific 5 true 1) = 1 / 2 := by
  show (OfScientific.ofScientific 5 true 1 : ℝ) = 1 / 2
  norm_num
/-- the constants regenerated from the current source are the ones the proofs below use
    (a changed constant in /repo breaks this `decide`, hence the build of Props/C14) -/
theorem generated_consts_pinned :
    Generated.CalcConsts.minStepM = 1 ∧ Generated.CalcConsts.minStepE = 7 ∧
    Generated.CalcConsts.dtrlM = 5 ∧ Generated.CalcConsts.dtrlE = 2 ∧
    Generated.CalcConsts.smallStepAlphaM = 0 ∧ Generated.CalcConsts.smallStepAlphaE = 0 ∧
    Generated.CalcConsts.sqrtTolM = 1 ∧ Generated.CalcConsts.sqrtTolE = 6 ∧
    Generated.CalcConsts.noScaling = 2 ^ 64 - 1 := by decide
theorem sqrtTol_real : (sqrtTol : ℝ) = 1e-6 := rfl
theorem mscMinStep_real : (mscMinStep : ℝ) = 1e-7 := rfl
theorem mscDtrl_real : (mscDtrl : ℝ) = 0.05 := rfl
theorem smallStepAlpha_real : (smallStepAlpha : ℝ) = 0 := by
  show (OfScientific.ofScientific 0 true 0 : ℝ) = 0
  norm_num
theorem mscMinStep_pos : (0 : ℝ) < mscMinStep := by rw [mscMinStep_real]; norm_num

/-! ### `static_cast<size_type>` at ℝ -/
/-- truncation towards zero of a non-negative real -/
noncomputable def floorIdx (x : ℝ) : ℕ := ⌊x⌋₊

/-! ### linear interpolator -/
theorem lerp_real (xl yl xr yr x : ℝ) :
    lerp xl yl xr yr x = yl + (yr - yl) / (xr - xl) * (x - xl) := by
  unfold lerp LinInterp.eval LinInterp.mk'
  calc_simp
  ring

theorem lerp_left (xl yl xr yr : ℝ) : lerp xl yl xr yr xl = yl := by
  rw [lerp_real]; ring

theorem lerp_right (xl yl xr yr : ℝ) (h : xl ≠ xr) : lerp xl yl xr yr xr = yr := by
  rw [lerp_real]
  have : xr - xl ≠ 0 := sub_ne_zero.mpr (Ne.symm h)
  field_simp
  ring

/-- convex-combination form -/
theorem lerp_convex (xl yl xr yr x : ℝ) (h : xl < xr) :
    lerp xl yl xr yr x = ((xr - x) * yl + (x - xl) * yr) / (xr - xl) := by
  rw [lerp_real]
  have : xr - xl ≠ 0 := ne_of_gt (sub_pos.mpr h)
  field_simp
  ring

theorem lerp_between (xl yl xr yr x : ℝ) (h : xl < xr) (h1 : xl ≤ x) (h2 : x ≤ xr) :
    min yl yr ≤ lerp xl yl xr yr x ∧ lerp xl yl xr yr x ≤ max yl yr := by
  rw [lerp_convex _ _ _ _ _ h]
  have hd : 0 < xr - xl := sub_pos.mpr h
  have ha : 0 ≤ xr - x := sub_nonneg.mpr h2
  have hb : 0 ≤ x - xl := sub_nonneg.mpr h1
  constructor
  · rw [le_div_iff₀ hd]
    have e1 := min_le_left yl yr
    have e2 := min_le_right yl yr
    nlinarith [mul_le_mul_of_nonneg_left e1 ha, mul_le_mul_of_nonneg_left e2 hb]
  · rw [div_le_iff₀ hd]
    have e1 := le_max_left yl yr
    have e2 := le_max_right yl yr
    nlinarith [mul_le_mul_of_nonneg_left e1 ha, mul_le_mul_of_nonneg_left e2 hb]

/-- increasing data: the interpolant stays in `[yl, yr)` on `[xl, xr)` and is monotone -/
theorem lerp_mem_Ico (xl yl xr yr x : ℝ) (h : xl < xr) (hy : yl < yr) (h1 : xl ≤ x) (h2 : x < xr) :
    yl ≤ lerp xl yl xr yr x ∧ lerp xl yl xr yr x < yr := by
  rw [lerp_real]
  have hd : 0 < xr - xl := sub_pos.mpr h
  have hs : 0 < (yr - yl) / (xr - xl) := div_pos (sub_pos.mpr hy) hd
  constructor
  · have : 0 ≤ (yr - yl) / (xr - xl) * (x - xl) :=
      mul_nonneg (le_of_lt hs) (sub_nonneg.mpr h1)
    linarith
  · have : (yr - yl) / (xr - xl) * (x - xl) < (yr - yl) / (xr - xl) * (xr - xl) :=
      mul_lt_mul_of_pos_left (by linarith) hs
    have e : (yr - yl) / (xr - xl) * (xr - xl) = yr - yl := by field_simp
    linarith

theorem lerp_mono (xl yl xr yr a b : ℝ) (h : xl < xr) (hy : yl ≤ yr) (hab : a ≤ b) :
    lerp xl yl xr yr a ≤ lerp xl yl xr yr b := by
  rw [lerp_real, lerp_real]
  have hd : 0 < xr - xl := sub_pos.mpr h
  have hs : 0 ≤ (yr - yl) / (xr - xl) := div_nonneg (sub_nonneg.mpr hy) (le_of_lt hd)
  have := mul_le_mul_of_nonneg_left (sub_le_sub_right hab xl) hs
  linarith

/-- interpolating the swapped table undoes the interpolation -/
theorem lerp_inverse (xl yl xr yr x : ℝ) (h : xl ≠ xr) (hy : yl ≠ yr) :
    lerp yl xl yr xr (lerp xl yl xr yr x) = x := by
  rw [lerp_real, lerp_real]
  have h1 : xr - xl ≠ 0 := sub_ne_zero.mpr (Ne.symm h)
  have h2 : yr - yl ≠ 0 := sub_ne_zero.mpr (Ne.symm hy)
  field_simp
  ring

/-! ### uniform grid -/

theorem UGrid.at_real (g : UGrid ℝ) (i : ℕ) : g.at i = g.front + g.delta * (i : ℝ) := by
  unfold UGrid.at; calc_simp

theorem UGrid.find_real (g : UGrid ℝ) (v : ℝ) :
    g.find floorIdx v
      = if ⌊(v - g.front) / g.delta⌋₊ + 1 ≥ g.size then g.size - 2
        else ⌊(v - g.front) / g.delta⌋₊ := by
  unfold UGrid.find floorIdx; calc_simp

/-- the clamp of `find`: the returned bin always has a right neighbour on the grid — for every
    number type (in particular the `Float` instance that is run against the C++), every input -/
theorem UGrid.find_lt {α : Type} [Num α] (toIdx : α → ℕ) (g : UGrid α) (v : α)
    (h : 2 ≤ g.size) : g.find toIdx v + 1 < g.size := by
  unfold UGrid.find
  simp only []
  split <;> omega

theorem UGrid.fromBounds_delta (front back : ℝ) (n : ℕ) :
    (UGrid.fromBounds front back n).delta = (back - front) / ((n - 1 : ℕ) : ℝ) := by
  unfold UGrid.fromBounds; calc_simp

/-- what `UniformGridData::operator bool` + `from_bounds` guarantee -/
structure UGrid.WF (g : UGrid ℝ) : Prop where
  size_ge : 2 ≤ g.size
  lt : g.front < g.back
  delta_eq : g.delta = (g.back - g.front) / ((g.size - 1 : ℕ) : ℝ)

theorem UGrid.fromBounds_WF (front back : ℝ) (n : ℕ) (hn : 2 ≤ n) (h : front < back) :
    (UGrid.fromBounds front back n).WF :=
  ⟨hn, h, UGrid.fromBounds_delta front back n⟩

namespace UGrid.WF
variable {g : UGrid ℝ} (w : g.WF)
include w

theorem cast_pos : (0 : ℝ) < ((g.size - 1 : ℕ) : ℝ) := by
  have := w.size_ge
  exact_mod_cast (by omega : 0 < g.size - 1)

theorem delta_pos : 0 < g.delta := by
  rw [w.delta_eq]; exact div_pos (sub_pos.mpr w.lt) w.cast_pos

omit w in
theorem at_zero : g.at 0 = g.front := by rw [UGrid.at_real]; simp

theorem at_last : g.at (g.size - 1) = g.back := by
  rw [UGrid.at_real, w.delta_eq]
  have := w.cast_pos
  field_simp
  ring

theorem at_strictMono {i j : ℕ} (h : i < j) : g.at i < g.at j := by
  rw [UGrid.at_real, UGrid.at_real]
  have : (i : ℝ) < (j : ℝ) := by exact_mod_cast h
  have := mul_lt_mul_of_pos_left this w.delta_pos
  linarith

theorem at_mono {i j : ℕ} (h : i ≤ j) : g.at i ≤ g.at j := by
  rcases Nat.lt_or_eq_of_le h with h | h
  · exact le_of_lt (w.at_strictMono h)
  · rw [h]

/-- ★ bracket: for `front ≤ v < back` the bin returned by `find` contains `v` and its
    right neighbour is a grid point -/
theorem floor_lt (v : ℝ) (h1 : g.front ≤ v) (h2 : v < g.back) :
    ⌊(v - g.front) / g.delta⌋₊ + 1 < g.size := by
  have hd := w.delta_pos
  have hq : 0 ≤ (v - g.front) / g.delta := div_nonneg (sub_nonneg.mpr h1) (le_of_lt hd)
  have hq2 : (v - g.front) / g.delta < ((g.size - 1 : ℕ) : ℝ) := by
    rw [div_lt_iff₀ hd]
    have : ((g.size - 1 : ℕ) : ℝ) * g.delta = g.back - g.front := by
      rw [w.delta_eq]; have := w.cast_pos; field_simp
    linarith
  have := (Nat.floor_lt hq).mpr hq2
  have := w.size_ge
  omega

/-- in range the clamp is inert at ℝ -/
theorem find_floor (v : ℝ) (h1 : g.front ≤ v) (h2 : v < g.back) :
    g.find floorIdx v = ⌊(v - g.front) / g.delta⌋₊ := by
  rw [UGrid.find_real, if_neg (by have := w.floor_lt v h1 h2; omega)]

theorem find_bracket (v : ℝ) (h1 : g.front ≤ v) (h2 : v < g.back) :
    g.at (g.find floorIdx v) ≤ v ∧ v < g.at (g.find floorIdx v + 1)
      ∧ g.find floorIdx v + 1 < g.size := by
  rw [w.find_floor v h1 h2, UGrid.at_real, UGrid.at_real]
  have hd := w.delta_pos
  have hq : 0 ≤ (v - g.front) / g.delta := div_nonneg (sub_nonneg.mpr h1) (le_of_lt hd)
  have hfl := Nat.floor_le hq
  have hlt := Nat.lt_floor_add_one ((v - g.front) / g.delta)
  refine ⟨?_, ?_, w.floor_lt v h1 h2⟩
  · have := mul_le_mul_of_nonneg_left hfl (le_of_lt hd)
    have e : g.delta * ((v - g.front) / g.delta) = v - g.front := by field_simp
    linarith
  · have := mul_lt_mul_of_pos_left hlt hd
    have e : g.delta * ((v - g.front) / g.delta) = v - g.front := by field_simp
    push_cast
    linarith

/-- at a grid point (other than the last) `find` returns that point's index -/
theorem find_at (i : ℕ) (hi : i + 1 < g.size) : g.find floorIdx (g.at i) = i := by
  rw [UGrid.find_real, UGrid.at_real]
  have hd := w.delta_pos
  have : (g.front + g.delta * (i : ℝ) - g.front) / g.delta = (i : ℝ) := by
    field_simp; ring
  rw [this, Nat.floor_natCast, if_neg (by omega)]

/-- the bin index is determined by the bracket -/
theorem find_unique (v : ℝ) (k : ℕ) (hk : k + 1 < g.size) (h1 : g.at k ≤ v)
    (h2 : v < g.at (k + 1)) : g.find floorIdx v = k := by
  rw [UGrid.find_real]
  rw [UGrid.at_real] at h1 h2
  have hd := w.delta_pos
  have : ⌊(v - g.front) / g.delta⌋₊ = k := by
    rw [Nat.floor_eq_iff]
    · constructor
      · rw [le_div_iff₀ hd]; linarith
      · rw [div_lt_iff₀ hd]; push_cast at h2; linarith
    · apply div_nonneg _ (le_of_lt hd)
      have : 0 ≤ g.delta * (k : ℝ) := mul_nonneg (le_of_lt hd) (Nat.cast_nonneg k)
      linarith
  rw [this, if_neg (by omega)]

theorem find_mono (a b : ℝ) (hab : a ≤ b) :
    g.find floorIdx a ≤ g.find floorIdx b := by
  rw [UGrid.find_real, UGrid.find_real]
  have hfl : ⌊(a - g.front) / g.delta⌋₊ ≤ ⌊(b - g.front) / g.delta⌋₊ := by
    apply Nat.floor_le_floor
    exact div_le_div_of_nonneg_right (by linarith) (le_of_lt w.delta_pos)
  have := w.size_ge
  split <;> split <;> omega

end UGrid.WF

end CelerVerif.Calc
