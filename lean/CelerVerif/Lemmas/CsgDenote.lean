/-
C10 helper lemmas, part 3: on a topologically sorted tree `denote` is the unique model;
`insert` extends every model, keeps the order, and returns an id that denotes the inserted node.
-/
import CelerVerif.Lemmas.CsgOps

namespace CelerVerif.Csg

/-! ### denote is the unique model of a sorted tree -/

theorem denoteFuel_stable {t : Tree} (hso : Sorted t) (σ : Nat → Bool) :
    ∀ n, n < t.size → ∀ f, n < f → denoteFuel t.nodes σ f n = denote t σ n := by
  intro n
  induction n using Nat.strongRecOn with
  | _ n ih =>
    intro hn f hf
    cases f with
    | zero => omega
    | succ f =>
      unfold denote
      show evalNode σ (fun c => denoteFuel t.nodes σ f c) (t.get n)
        = evalNode σ (fun c => denoteFuel t.nodes σ n c) (t.get n)
      apply evalNode_congr
      intro c hc
      have hcn : c < n := hso n hn c hc
      show denoteFuel t.nodes σ f c = denoteFuel t.nodes σ n c
      rw [ih c hcn (by omega) f (by omega), ih c hcn (by omega) n hcn]

theorem denote_models {t : Tree} (hso : Sorted t) (σ : Nat → Bool) : Models t σ (denote t σ) := by
  intro i hi
  show evalNode σ (fun c => denoteFuel t.nodes σ i c) (t.get i) = evalNode σ (denote t σ) (t.get i)
  apply evalNode_congr
  intro c hc
  have hci : c < i := hso i hi c hc
  exact denoteFuel_stable hso σ c (by omega) i hci

theorem models_unique {t : Tree} (hso : Sorted t) {σ v : Nat → Bool} (hm : Models t σ v) :
    ∀ i, i < t.size → v i = denote t σ i := by
  intro i
  induction i using Nat.strongRecOn with
  | _ i ih =>
    intro hi
    rw [hm i hi, denote_models hso σ i hi]
    apply evalNode_congr
    intro c hc
    have hci : c < i := hso i hi c hc
    exact ih c hci (by omega)

/-- the initial dedup map is sound for every model -/
theorem empty_good (σ : Nat → Bool) : Good Tree.empty σ (denote Tree.empty σ) where
  struct :=
    { base0 := rfl, base1 := rfl, size2 := by decide, small := by decide
      closed := by
        intro i hi c hc
        have : i = 0 ∨ i = 1 := by simp [Tree.empty, Tree.size] at hi; omega
        rcases this with rfl | rfl <;> simp [Tree.empty, Tree.get, Node.children] at hc
        subst hc; show 0 < 2; decide
      idsRange := by intro e he; simp [Tree.empty] at he; rcases he with rfl | rfl | rfl | rfl <;> decide
      keysClosed := by
        intro e he c hc
        simp [Tree.empty] at he
        rcases he with rfl | rfl | rfl | rfl <;> simp [Node.children] at hc <;> subst hc <;> decide }
  models := by
    apply denote_models
    intro i hi c hc
    have : i = 0 ∨ i = 1 := by simp [Tree.empty, Tree.size] at hi; omega
    rcases this with rfl | rfl <;> simp [Tree.empty, Tree.get, Node.children] at hc
    subst hc; decide
  map := by
    intro e he
    simp [Tree.empty] at he
    rcases he with rfl | rfl | rfl | rfl <;> rfl

/-! ### insert -/

@[simp] theorem size_push (t : Tree) (n : Node) : (t.push n).size = t.size + 1 := by
  simp [Tree.push, Tree.size]

theorem get_push_lt (t : Tree) (n : Node) {j : Nat} (hj : j < t.size) : (t.push n).get j = t.get j := by
  unfold Tree.get Tree.push
  simp only [List.getD_eq_getElem?_getD]
  rw [List.getElem?_append_left (by simpa [Tree.size] using hj)]

theorem get_push_size (t : Tree) (n : Node) : (t.push n).get t.size = n := by
  unfold Tree.get Tree.push Tree.size
  simp [List.getD_eq_getElem?_getD]

theorem sorted_push {t : Tree} (hso : Sorted t) {n : Node} (hn : ∀ c ∈ n.children, c < t.size) :
    Sorted (t.push n) := by
  intro i hi c hc
  rw [size_push] at hi
  by_cases h : i < t.size
  · rw [get_push_lt t n h] at hc; exact hso i h c hc
  · have : i = t.size := by omega
    subst this; rw [get_push_size] at hc; exact hn c hc

theorem good_push {t σ v} (g : Good t σ v) {n : Node} (hn : ∀ c ∈ n.children, c < t.size)
    (hsmall : t.size < invalid) :
    Good (t.push n) σ (fun i => if i = t.size then evalNode σ v n else v i) := by
  have hcongr : ∀ m : Node, (∀ c ∈ m.children, c < t.size) →
      evalNode σ (fun i => if i = t.size then evalNode σ v n else v i) m = evalNode σ v m := by
    intro m hm
    apply evalNode_congr
    intro c hc
    have := hm c hc
    show (if c = t.size then evalNode σ v n else v c) = v c
    rw [if_neg (by omega)]
  refine ⟨?_, ?_, ?_⟩
  · have s := g.struct
    exact
      { base0 := by rw [get_push_lt t n (by have := s.size2; omega)]; exact s.base0
        base1 := by rw [get_push_lt t n (by have := s.size2; omega)]; exact s.base1
        size2 := by rw [size_push]; have := s.size2; omega
        small := by rw [size_push]; omega
        closed := by
          intro i hi c hc
          rw [size_push] at hi ⊢
          by_cases h : i < t.size
          · rw [get_push_lt t n h] at hc; have := s.closed i h c hc; omega
          · have : i = t.size := by omega
            subst this; rw [get_push_size] at hc; have := hn c hc; omega
        idsRange := by
          intro e he
          rw [size_push]
          rcases List.mem_cons.1 he with rfl | he
          · simp
          · have := s.idsRange e he; omega
        keysClosed := by
          intro e he c hc
          rw [size_push]
          rcases List.mem_cons.1 he with rfl | he
          · have := hn c hc; omega
          · have := s.keysClosed e he c hc; omega }
  · intro i hi
    rw [size_push] at hi
    by_cases h : i < t.size
    · rw [get_push_lt t n h, hcongr _ (g.struct.closed i h)]
      simp only; rw [if_neg (by omega)]
      exact g.models i h
    · have : i = t.size := by omega
      subst this
      rw [get_push_size, hcongr _ hn]; simp
  · intro e he
    rcases List.mem_cons.1 he with rfl | he
    · simp only [if_true]; exact hcongr _ hn
    · rw [hcongr _ (g.struct.keysClosed e he)]
      have := g.struct.idsRange e he
      simp only; rw [if_neg (by omega)]
      exact g.map e he

/-- `insert`: some model `v'` of the new tree agrees with `v` on the old ids, and the returned
    id has the value of the inserted node -/
theorem insert_good {t σ v} (g : Good t σ v) {n : Node} (hn : ∀ c ∈ n.children, c < t.size)
    (hsmall : t.size < invalid) :
    ∃ v', (∀ i, i < t.size → v' i = v i) ∧ Good (insert t n).1 σ v' ∧
      v' (insert t n).2.1 = evalNode σ v n ∧ (insert t n).2.1 < (insert t n).1.size ∧
      t.size ≤ (insert t n).1.size ∧ (∀ i, i < t.size → (insert t n).1.get i = t.get i) ∧
      (insert t n).1.volumes = t.volumes := by
  have hval := simplified_sound g.models g.struct n hn
  have hch := simplified_children_lt g.struct n hn
  rcases insert_spec t n with ⟨a, ha, _, h⟩ | ⟨id, hid, h⟩ | ⟨_, h⟩ <;> rw [h]
  · refine ⟨v, fun _ _ => rfl, g, ?_, ?_, Nat.le_refl _, fun _ _ => rfl, rfl⟩
    · rw [← hval, ha]; rfl
    · rw [ha] at hch; simpa [Node.children] using hch
  · refine ⟨v, fun _ _ => rfl, g, ?_, ?_, Nat.le_refl _, fun _ _ => rfl, rfl⟩
    · show v id = evalNode σ v n
      rw [← g.map _ (lookup_some hid)]; exact hval
    · exact g.struct.idsRange _ (lookup_some hid)
  · refine ⟨_, ?_, good_push g hch hsmall, ?_, ?_, ?_, ?_, rfl⟩
    · intro i hi
      show (if i = t.size then _ else v i) = v i
      rw [if_neg (by omega)]
    · show (if t.size = t.size then evalNode σ v (simplified t n) else v t.size) = _
      rw [if_pos rfl]; exact hval
    · simp
    · simp
    · intro i hi; exact get_push_lt t _ hi

theorem insert_sorted {t : Tree} (s : Struct t) (hso : Sorted t) {n : Node}
    (hn : ∀ c ∈ n.children, c < t.size) : Sorted (insert t n).1 := by
  have hch := simplified_children_lt s n hn
  rcases insert_spec t n with ⟨a, _, _, h⟩ | ⟨id, _, h⟩ | ⟨_, h⟩ <;> rw [h]
  · exact hso
  · exact hso
  · exact sorted_push hso hch

end CelerVerif.Csg
