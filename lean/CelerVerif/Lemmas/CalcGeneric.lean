/-
C14 helper lemmas (8): GenericCalculator at ℝ on a strictly increasing x grid of any size —
knots, between-ness, constant extrapolation, and `from_inverse`/`make_inverse` ∘ calc = id on
strictly increasing values.
-/
import CelerVerif.Lemmas.CalcInverse

namespace CelerVerif.Calc
open CelerVerif

/-- i-th x grid point / i-th value -/
noncomputable def GenGrid.X (d : GenGrid ℝ) (i : ℕ) : ℝ := d.reals.getD (d.xoff + i) 0
noncomputable def GenGrid.Y (d : GenGrid ℝ) (i : ℕ) : ℝ := d.reals.getD (d.yoff + i) 0

/-- `GenericGridRecord::operator bool` + the collection builder + the sorted x grid -/
structure GenGrid.WF (d : GenGrid ℝ) : Prop where
  size_ge : 2 ≤ d.size
  xin : d.xoff + d.size ≤ d.reals.size
  yin : d.yoff + d.size ≤ d.reals.size
  xincr : ∀ i, i + 1 < d.size → d.X i < d.X (i + 1)

/-- strictly increasing values (precondition of `make_inverse` / `from_inverse`) -/
def GenGrid.YIncr (d : GenGrid ℝ) : Prop := ∀ i, i + 1 < d.size → d.Y i < d.Y (i + 1)

theorem strict_of_succ (f : ℕ → ℝ) (n : ℕ) (h : ∀ i, i + 1 < n → f i < f (i + 1)) {i j : ℕ}
    (hij : i < j) (hj : j < n) : f i < f j := by
  induction j with
  | zero => omega
  | succ j ih =>
    rcases Nat.lt_or_eq_of_le (Nat.lt_succ_iff.mp hij) with h' | h'
    · exact lt_trans (ih h' (by omega)) (h j hj)
    · subst h'; exact h i hj

theorem mono_of_succ (f : ℕ → ℝ) (n : ℕ) (h : ∀ i, i + 1 < n → f i < f (i + 1)) {i j : ℕ}
    (hij : i ≤ j) (hj : j < n) : f i ≤ f j := by
  rcases Nat.lt_or_eq_of_le hij with h' | h'
  · exact le_of_lt (strict_of_succ f n h h' hj)
  · rw [h']

theorem bin_unique_of_succ (f : ℕ → ℝ) (n : ℕ) (h : ∀ i, i + 1 < n → f i < f (i + 1)) {v : ℝ}
    {k j : ℕ} (hk : k + 1 < n) (hj : j + 1 < n) (k1 : f k ≤ v) (k2 : v < f (k + 1))
    (j1 : f j ≤ v) (j2 : v < f (j + 1)) : k = j := by
  by_contra hne
  rcases Nat.lt_or_gt_of_ne hne with h' | h'
  · have := mono_of_succ f n h (show k + 1 ≤ j by omega) (by omega); linarith
  · have := mono_of_succ f n h (show j + 1 ≤ k by omega) (by omega); linarith

namespace GenGrid.WF
variable {d : GenGrid ℝ} (w : d.WF)
include w

theorem x_eq {i : ℕ} (h : i < d.size) : d.x i = some (d.X i) := by
  unfold GenGrid.x GenGrid.X
  have : d.xoff + i < d.reals.size := by have := w.xin; omega
  simp [Array.getD, this]

theorem y_eq {i : ℕ} (h : i < d.size) : d.y i = some (d.Y i) := by
  unfold GenGrid.y GenGrid.Y
  have : d.yoff + i < d.reals.size := by have := w.yin; omega
  simp [Array.getD, this]

theorem calc_below {x : ℝ} (h : x ≤ d.X 0) : d.calc x = some (d.Y 0) := by
  have hs := w.size_ge
  unfold GenGrid.calc
  rw [w.x_eq (show 0 < d.size by omega), w.x_eq (show d.size - 1 < d.size by omega)]
  calc_simp
  rw [if_pos h, w.y_eq (by omega)]

theorem calc_above {x : ℝ} (h : d.X (d.size - 1) ≤ x) : d.calc x = some (d.Y (d.size - 1)) := by
  have hs := w.size_ge
  have hlt : d.X 0 < d.X (d.size - 1) :=
    strict_of_succ d.X d.size w.xincr (by omega) (by omega)
  unfold GenGrid.calc
  rw [w.x_eq (show 0 < d.size by omega), w.x_eq (show d.size - 1 < d.size by omega)]
  calc_simp
  rw [if_neg (by linarith), if_pos h, w.y_eq (by omega)]

theorem calc_bin {x : ℝ} (h1 : d.X 0 < x) (h2 : x < d.X (d.size - 1)) :
    ∃ k, k + 1 < d.size ∧ d.X k ≤ x ∧ x < d.X (k + 1) ∧
      d.calc x = some (lerp (d.X k) (d.Y k) (d.X (k + 1)) (d.Y (k + 1)) x) := by
  have hs := w.size_ge
  obtain ⟨k, hk, hk1, hb1, hb2⟩ := nonuniformFind_spec d.x d.X d.size
    (fun i hi => w.x_eq hi) (fun i j hij hj => strict_of_succ d.X d.size w.xincr hij hj) x
    (le_of_lt h1) h2
  refine ⟨k, hk1, hb1, hb2, ?_⟩
  unfold GenGrid.calc
  rw [w.x_eq (show 0 < d.size by omega), w.x_eq (show d.size - 1 < d.size by omega)]
  calc_simp
  rw [if_neg (not_le.mpr h1), if_neg (not_le.mpr h2), hk]
  simp only []
  rw [w.x_eq (show k < d.size by omega), w.y_eq (show k < d.size by omega), w.x_eq hk1,
    w.y_eq hk1]

/-- the table is reproduced at every grid point -/
theorem calc_knot {i : ℕ} (hi : i < d.size) : d.calc (d.X i) = some (d.Y i) := by
  have hs := w.size_ge
  by_cases h0 : i = 0
  · subst h0; exact w.calc_below (le_refl _)
  by_cases hl : i = d.size - 1
  · subst hl; exact w.calc_above (le_refl _)
  · have h1 : d.X 0 < d.X i := strict_of_succ d.X d.size w.xincr (by omega) hi
    have h2 : d.X i < d.X (d.size - 1) := strict_of_succ d.X d.size w.xincr (by omega) (by omega)
    obtain ⟨k, hk, hb1, hb2, hc⟩ := w.calc_bin h1 h2
    have hki : k = i := bin_unique_of_succ d.X d.size w.xincr hk (by omega) hb1 hb2 (le_refl _)
      (w.xincr i (by omega))
    subst hki
    rw [hc, lerp_left]

/-- the inverse calculator (x and y flipped) is well formed when the values increase -/
theorem inverse_WF (hy : d.YIncr) : d.inverse.WF :=
  ⟨w.size_ge, w.yin, w.xin, hy⟩

omit w in
theorem inverse_X (i : ℕ) : d.inverse.X i = d.Y i := rfl
omit w in
theorem inverse_Y (i : ℕ) : d.inverse.Y i = d.X i := rfl

/-- ★ `make_inverse()(calc(x)) = x` on the grid, for strictly increasing values -/
theorem inverse_calc (hy : d.YIncr) {x : ℝ} (h1 : d.X 0 ≤ x) (h2 : x ≤ d.X (d.size - 1)) :
    ∃ v, d.calc x = some v ∧ d.inverse.calc v = some x := by
  have hs := w.size_ge
  have wi := w.inverse_WF hy
  rcases eq_or_lt_of_le h1 with h0 | h0
  · refine ⟨_, w.calc_below (le_of_eq h0.symm), ?_⟩
    have := wi.calc_below (x := d.Y 0) (le_refl _)
    rw [this, inverse_Y, h0]
  rcases eq_or_lt_of_le h2 with hl | hl
  · refine ⟨_, w.calc_above (le_of_eq hl.symm), ?_⟩
    have := wi.calc_above (x := d.Y (d.size - 1)) (le_refl _)
    rw [this]
    show some (d.inverse.Y (d.size - 1)) = some x
    rw [inverse_Y, hl]
  · obtain ⟨k, hk, hb1, hb2, hc⟩ := w.calc_bin h0 hl
    refine ⟨_, hc, ?_⟩
    have hxk : d.X k < d.X (k + 1) := w.xincr k hk
    have hyk : d.Y k < d.Y (k + 1) := hy k hk
    have hm := lerp_mem_Ico (d.X k) (d.Y k) (d.X (k + 1)) (d.Y (k + 1)) x hxk hyk hb1 hb2
    set v := lerp (d.X k) (d.Y k) (d.X (k + 1)) (d.Y (k + 1)) x with hv
    -- v is strictly inside the value range
    have hv0 : d.Y 0 < v := by
      by_cases hk0 : k = 0
      · subst hk0
        exact lerp_gt_left _ _ _ _ _ hxk hyk h0
      · exact lt_of_lt_of_le (strict_of_succ d.Y d.size hy (show 0 < k by omega) (by omega)) hm.1
    have hvl : v < d.Y (d.size - 1) :=
      lt_of_lt_of_le hm.2 (mono_of_succ d.Y d.size hy (show k + 1 ≤ d.size - 1 by omega) (by omega))
    obtain ⟨k', hk', hb1', hb2', hc'⟩ := wi.calc_bin (x := v) hv0 hvl
    have : k' = k := bin_unique_of_succ d.Y d.size hy hk' hk hb1' hb2' hm.1 hm.2
    subst this
    rw [hc']
    simp only [inverse_X, inverse_Y]
    rw [hv, lerp_inverse _ _ _ _ _ (ne_of_lt hxk) (ne_of_lt hyk)]

end GenGrid.WF

end CelerVerif.Calc
