/-
`SurfaceTransformer` at ℝ: for every surface class the transformed surface's defining
expression at a point x' is the original's at `down x'` (pure algebra of the 4×4 congruence /
of the plane and sphere formulas), hence at `up x` it is the original's at x for an
orthonormal matrix — rotations and reflections alike.
-/
import CelerVerif.Lemmas.SurfTransform
import CelerVerif.Model.SurfXform
import Mathlib.Tactic.LinearCombination

namespace CelerVerif.Surf
open CelerVerif

macro "m4_simp" loc:(Lean.Parser.Tactic.location)? : tactic => `(tactic|
  simp only [transformGQ, transformSQ, trInv, quadricMatrix, gemm4, gemm4T, M4.ofFn, M4.get, M4.row,
    V4.get, Surface.quadric, Transformation.down, Transformation.rotDown, Transformation.up,
    Transformation.rotUp, gemv, gemvT, Mat3.row, Vec3.get, Vec3.sub, Vec3.add, Vec3.dot] $[$loc]?)

/-- the 4×4 congruence is substitution of `down x'` into the quadric (no orthogonality needed) -/
theorem transformGQ_quadric (t : Transformation ℝ) (a b c d e f g h i j : ℝ) (p : Vec3 ℝ) :
    (transformGQ t a b c d e f g h i j).quadric p
      = (Surface.generalQuadric a b c d e f g h i j).quadric (t.down p) := by
  m4_simp
  num_simp
  ring

/-- the documented precondition of `Plane`: unit normal (`CELER_EXPECT(is_soft_unit_vector)`) -/
def Surface.UnitNormal : Surface ℝ → Prop
  | .plane n _ => n.x * n.x + n.y * n.y + n.z * n.z = 1
  | _ => True

theorem transformPlane_quadric (t : Transformation ℝ) (hc : t.rot.orthoCols) (n : Vec3 ℝ) (d : ℝ)
    (hn : n.x * n.x + n.y * n.y + n.z * n.z = 1) (p : Vec3 ℝ) :
    (transformPlane t n d).quadric (t.up p) = (Surface.plane n d).quadric p := by
  obtain ⟨h1, h2, h3, h4, h5, h6⟩ := hc
  simp only [transformPlane]
  m4_simp
  num_simp
  linear_combination
    (n.x * p.x - d * n.x * n.x) * h1 + (n.y * p.y - d * n.y * n.y) * h2
    + (n.z * p.z - d * n.z * n.z) * h3
    + (n.x * p.y + n.y * p.x - 2 * d * n.x * n.y) * h4
    + (n.x * p.z + n.z * p.x - 2 * d * n.x * n.z) * h5
    + (n.y * p.z + n.z * p.y - 2 * d * n.y * n.z) * h6 - d * hn

theorem transformSphere_quadric (t : Transformation ℝ) (hc : t.rot.orthoCols) (o : Vec3 ℝ) (r2 : ℝ)
    (p : Vec3 ℝ) :
    (Surface.sphere (t.up o) r2).quadric (t.up p) = (Surface.sphere o r2).quadric p := by
  obtain ⟨h1, h2, h3, h4, h5, h6⟩ := hc
  m4_simp
  num_simp
  linear_combination
    (p.x - o.x) * (p.x - o.x) * h1 + (p.y - o.y) * (p.y - o.y) * h2 + (p.z - o.z) * (p.z - o.z) * h3
    + 2 * (p.x - o.x) * (p.y - o.y) * h4 + 2 * (p.x - o.x) * (p.z - o.z) * h5
    + 2 * (p.y - o.y) * (p.z - o.z) * h6

/-- promotions keep the defining expression -/
theorem sqOfCyl_quadric (ax : Axis) (ou ov r2 : ℝ) (p : Vec3 ℝ) :
    (Surface.generalQuadric (sqOfCyl ax ou ov r2).1.x (sqOfCyl ax ou ov r2).1.y
        (sqOfCyl ax ou ov r2).1.z 0 0 0 (sqOfCyl ax ou ov r2).2.1.x (sqOfCyl ax ou ov r2).2.1.y
        (sqOfCyl ax ou ov r2).2.1.z (sqOfCyl ax ou ov r2).2.2).quadric p
      = (Surface.cylAligned ax ou ov r2).quadric p := by
  cases ax <;> simp only [sqOfCyl, Surface.quadric] <;> vec_simp <;> num_simp <;> ring

theorem sqOfCone_quadric (ax : Axis) (o : Vec3 ℝ) (tsq : ℝ) (p : Vec3 ℝ) :
    (Surface.generalQuadric (sqOfCone ax o tsq).1.x (sqOfCone ax o tsq).1.y
        (sqOfCone ax o tsq).1.z 0 0 0 (sqOfCone ax o tsq).2.1.x (sqOfCone ax o tsq).2.1.y
        (sqOfCone ax o tsq).2.1.z (sqOfCone ax o tsq).2.2).quadric p
      = (Surface.coneAligned ax o tsq).quadric p := by
  cases ax <;> simp only [sqOfCone, Surface.quadric] <;> vec_simp <;> num_simp <;> ring

/-- ★ the transformed surface's defining expression at `R x + t` is the original's at `x`
    (factor exactly 1: `SurfaceTransformer` does not renormalise), for every surface class,
    any matrix with orthonormal columns (det = ±1) and any translation -/
theorem transform_quadric (t : Transformation ℝ) (hc : t.rot.orthoCols) (s : Surface ℝ)
    (hs : s.UnitNormal) (p : Vec3 ℝ) :
    (s.transform t).quadric (t.up p) = s.quadric p := by
  have hdu := transform_down_up t hc p
  cases s with
  | planeAligned ax pos =>
    cases ax <;>
      (simp only [Surface.transform]
       rw [transformPlane_quadric t hc _ _ (by simp only [Vec3.set, Axis.toNat]; num_simp; norm_num)]
       simp only [Surface.quadric]; vec_simp; num_simp; ring)
  | plane n d => exact transformPlane_quadric t hc n d hs p
  | sphereCentered r2 =>
    simp only [Surface.transform]
    rw [transformSphere_quadric t hc]
    simp only [Surface.quadric]; vec_simp; num_simp; ring
  | sphere o r2 => exact transformSphere_quadric t hc o r2 p
  | cylCentered ax r2 =>
    simp only [Surface.transform, transformSQ]
    rw [transformGQ_quadric, hdu]
    have := sqOfCyl_quadric ax 0 0 r2 p
    simp only [NumR.lit0] at this ⊢
    rw [this]
    cases ax <;> simp only [Surface.quadric] <;> vec_simp <;> num_simp <;> ring
  | cylAligned ax ou ov r2 =>
    simp only [Surface.transform, transformSQ]
    rw [transformGQ_quadric, hdu]
    have := sqOfCyl_quadric ax ou ov r2 p
    simp only [NumR.lit0] at this ⊢
    exact this
  | coneAligned ax o tsq =>
    simp only [Surface.transform, transformSQ]
    rw [transformGQ_quadric, hdu]
    have := sqOfCone_quadric ax o tsq p
    simp only [NumR.lit0] at this ⊢
    exact this
  | simpleQuadric a b c d e f g =>
    simp only [Surface.transform]
    rw [transformGQ_quadric, hdu]
    simp only [Surface.quadric]; num_simp; ring
  | generalQuadric a b c d e f g h i j =>
    simp only [Surface.transform]
    rw [transformGQ_quadric, hdu]

/-- composition of daughter-to-parent transforms acts on points as the composition -/
theorem compose_up (a x : Xform ℝ) (r : Vec3 ℝ) :
    (a.compose x).up r = a.up (x.up r) := by
  cases a with
  | none => rfl
  | tra u =>
    cases x with
    | none => rfl
    | tra v => simp only [Xform.compose, Xform.up]; apply vec3_ext <;> xf_simp <;> num_simp <;> ring
    | full b => simp only [Xform.compose, Xform.up]; apply vec3_ext <;> xf_simp <;> num_simp <;> ring
  | full a =>
    cases x with
    | none => rfl
    | tra v => simp only [Xform.compose, Xform.up]; apply vec3_ext <;> xf_simp <;> num_simp <;> ring
    | full b =>
      simp only [Xform.compose, Xform.up]
      apply vec3_ext <;> simp only [gemm3] <;> xf_simp <;> num_simp <;> ring

end CelerVerif.Surf
