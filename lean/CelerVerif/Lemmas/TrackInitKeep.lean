/- A Stepper call in which no interaction is carried out (all outcomes "alive, no secondaries")
   and nothing is queued changes nothing but the step counters (C16 livelock). -/
import CelerVerif.Lemmas.TrackInitDrain

namespace CelerVerif.TrackInit

/-- an outcome list in which nothing happens to any track -/
def KeepOracle (o : List Outcome) : Prop := ∀ x ∈ o, x = ⟨.alive, []⟩

theorem KeepOracle.ok {o : List Outcome} (h : KeepOracle o) : OracleOk o :=
  fun x hx => Or.inl (by rw [h x hx])

/-- a slot that is empty or holds a living track without secondaries -/
def Slot.kept (x : Slot) : Prop := x.status = .inactive ∨ (x.status = .alive ∧ x.secs = [])

theorem kept_keep_q (order : Order) (x : Slot) (h : x.kept) :
    keepOf order x = x.active ∧ qOf order x = 0 := by
  rcases h with h | ⟨h1, h2⟩
  · simp [keepOf, qOf, Slot.active, h]
  · simp [keepOf, qOf, Slot.active, h1, h2, countValid_nil, queuedCount]

theorem front_kept {s : State} (o : List Outcome) (hk : KeepOracle o)
    (hst : ∀ x ∈ s.slots, x.stepOk) :
    ∀ x ∈ (trackingCut (interact o (preStep s))).slots, x.kept := by
  simp only [trackingCut, interact, preStep]
  intro x hx
  obtain ⟨z, hz, rfl⟩ := List.mem_map.mp hx
  have := all_zipWith interactSlot (fun z => (cutSlot z).kept) (s.slots.map preStepSlot) _
    (by
      intro a ha b hb
      obtain ⟨a0, ha0, rfl⟩ := List.mem_map.mp ha
      have hb' : b = ⟨.alive, []⟩ := by
        rcases List.mem_append.mp hb with h | h
        · exact hk b h
        · rw [List.mem_replicate] at h; exact h.2
      subst hb'
      have h0 := hst a0 ha0
      unfold Slot.kept cutSlot interactSlot preStepSlot
      rcases h0 with h | h | h <;> simp [h]) z hz
  exact this

theorem initializeTracks_nothing_queued (s : State) (h : s.c.numInitializers = 0) :
    (initializeTracks s).slots = s.slots ∧ (initializeTracks s).c.numInitializers = 0 := by
  unfold initializeTracks
  simp [h]

/-- what a no-interaction step guarantees -/
structure KeepOk (cfg : Cfg) (s1 s' : State) : Prop where
  inv : Inv cfg s'
  queued : s'.c.numInitializers = 0
  same : (liveL s'.slots).length = (liveL s1.slots).length
  alive : s'.c.numAlive = (liveL s1.slots).length

theorem stepBody_keep {cfg : Cfg} {s1 : State} (hIT : ITSpec cfg) (hP : Pre cfg s1)
    (hpend : s1.pending = []) (hq : s1.c.numInitializers = 0)
    (o : List Outcome) (hk : KeepOracle o) :
    ∃ s', stepBody o s1 = .ok s' ∧ KeepOk cfg s1 s' := by
  have hsp := stepBody_spec hIT hP o hk.ok
  have hE1 := efp_spec hP.lens hP.core hP.evs hP.fit
  unfold stepBody at hsp ⊢
  generalize extendFromPrimaries s1 = s2 at hE1 hsp ⊢
  obtain ⟨p1, p2, p3, p4, p5, p6⟩ := hE1.same
  have hni : s2.c.numInitializers = 0 := by rw [hE1.ninit, hq, hpend]; rfl
  have hT := hIT s2 hE1.lens hE1.core (by rw [hni]; omega)
    (by rw [p2, p1]; exact hP.vac) (by rw [p3, p2]; exact hP.nvac)
    (by rw [p1]; exact hP.status) (by rw [p1, p3]; exact hP.occupied)
  obtain ⟨q1, q2⟩ := initializeTracks_nothing_queued s2 hni
  generalize initializeTracks s2 = s3 at hT hsp q1 q2 ⊢
  obtain ⟨hM, t1, t2, t3, t4⟩ := hT
  have hF := front_keeps hM.lens hM.core o hk.ok
  have hkept := front_kept (s := s3) o hk (by rw [q1, p1]; exact hP.status)
  generalize trackingCut (interact o (preStep s3)) = s4 at hF hkept hsp ⊢
  obtain ⟨f1, f2, f3, f4, f5, f6⟩ := hF
  have hE := efs_spec (cfg := cfg) f1 (by rw [f5]; exact f2) f3
  have hq0 : prefixQ cfg.order s4.slots cfg.slots = 0 :=
    prefixQ_zero _ _ (fun x hx => (kept_keep_q cfg.order x (hkept x hx)).2) _
  cases hres : extendFromSecondaries s4 with
  | error p =>
    obtain ⟨e, s'⟩ := p
    rw [hres] at hE
    have := hE.2.over
    rw [hq0, f5] at this
    have := hM.cap
    omega
  | ok s' =>
    rw [hres] at hE
    have hinv := (hsp.1 s' hres).inv
    have hvaceq : (List.range cfg.slots).filter (fun i => !(s'.slots.getD i Slot.empty).active)
        = (List.range cfg.slots).filter (fun i => !(s4.slots.getD i Slot.empty).active) := by
      apply List.filter_congr
      intro i hi
      have hi' : i < cfg.slots := by simpa using hi
      rw [hE.act i hi']
      have hi4 : i < s4.slots.length := by rw [f1.slots]; exact hi'
      rw [getD_getElem _ _ _ hi4]
      rw [(kept_keep_q cfg.order _ (hkept _ (List.getElem_mem hi4))).1]
    have h1 := filter_active_length s'.slots
    have h2 := filter_active_length s4.slots
    rw [hE.lens.slots, hvaceq] at h1
    rw [f1.slots] at h2
    have hsame : (liveL s'.slots).length = (liveL s1.slots).length := by
      rw [← p1, ← q1, ← f4]; omega
    refine ⟨s', rfl, hinv, ?_, hsame, ?_⟩
    · rw [hE.ninit, hq0, f5, q2]
    · have := hinv.occupied
      rw [hE.nalive]; omega

end CelerVerif.TrackInit
