/-
Field propagation at ℝ: `make_unit_vector`, provenance of the state momentum, and the
`ZHelixStepper::move` closed form (exact on axis; two witnesses where it is not).
-/
import CelerVerif.Lemmas.FieldPropTerm
import Mathlib.Analysis.SpecialFunctions.Trigonometric.Basic
import Mathlib.Tactic.Linarith
import Mathlib.Tactic.Ring
import Mathlib.Tactic.FieldSimp
import Mathlib.Tactic.NormNum

set_option linter.unusedSimpArgs false
set_option linter.unusedVariables false

namespace CelerVerif.FieldProp
open CelerVerif

/-- `make_unit_vector` returns a vector of norm 1 for a non-zero argument -/
theorem unit_vector_norm (v : Vec3 ℝ) (h : Vec3.dot v v ≠ 0) :
    Vec3.dot (makeUnitVector v) (makeUnitVector v) = 1 := by
  have hD : 0 ≤ Vec3.dot v v := by
    rw [Vec3R.dot_real]
    exact add_nonneg (add_nonneg (mul_self_nonneg _) (mul_self_nonneg _)) (mul_self_nonneg _)
  have hpos : 0 < Vec3.dot v v := lt_of_le_of_ne hD (Ne.symm h)
  have hs : Real.sqrt (Vec3.dot v v) * Real.sqrt (Vec3.dot v v) = Vec3.dot v v :=
    Real.mul_self_sqrt hD
  have hsne : Real.sqrt (Vec3.dot v v) ≠ 0 := ne_of_gt (Real.sqrt_pos.mpr hpos)
  unfold makeUnitVector Vec3.norm
  simp only [Vec3R.dot_real, NumR.sqrt_real, NumR.hmul_real, NumR.hdiv_real, NumR.lit1] at hs hsne ⊢
  set D := v.x * v.x + v.y * v.y + v.z * v.z with hDdef
  set q := Real.sqrt D with hq
  have : v.x * (1 / q) * (v.x * (1 / q)) + v.y * (1 / q) * (v.y * (1 / q))
      + v.z * (1 / q) * (v.z * (1 / q)) = D / (q * q) := by
    rw [hDdef]; field_simp
  rw [this, hs]
  exact div_self (ne_of_gt (by rw [Vec3R.dot_real] at hpos; exact hpos))

/-- the momentum of the loop state is the initial one or a copy of a driver answer's -/
theorem mom_provenance (c : Cfg ℝ) : ∀ (as : List (Answer ℝ)) (s : PState ℝ) its f left,
    loop c s as = some (its, f, left) →
    (f.state.mom = s.state.mom ∨ ∃ it ∈ its, f.state.mom = it.ans.sub.state.mom) := by
  intro as
  induction as with
  | nil => intro s its f left h; simp [loop] at h
  | cons a rest ih =>
    intro s its f left h
    simp only [loop] at h
    by_cases hcont : cont c (body c s a).1 = true
    · simp only [hcont, if_true] at h
      cases hl : loop c (body c s a).1 rest with
      | none => rw [hl] at h; simp at h
      | some v =>
        obtain ⟨its', f', left'⟩ := v
        rw [hl] at h
        simp only [Option.some.injEq, Prod.mk.injEq] at h
        obtain ⟨rfl, rfl, rfl⟩ := h
        rcases ih _ _ _ _ hl with h5 | ⟨it, hit, h5⟩
        · rcases mom_body c s a with hm | hm
          · left; rw [h5, hm]
          · right; exact ⟨⟨s, a, (body c s a).1⟩, List.mem_cons_self, by rw [h5, hm]⟩
        · right; exact ⟨it, List.mem_cons_of_mem _ hit, h5⟩
    · simp only [hcont, Bool.false_eq_true, if_false, Option.some.injEq, Prod.mk.injEq] at h
      obtain ⟨rfl, rfl, rfl⟩ := h
      rcases mom_body c s a with hm | hm
      · left; exact hm
      · right; exact ⟨⟨s, a, (body c s a).1⟩, List.mem_cons_self, hm⟩

/-! ### ZHelixStepper::move -/

theorem zhelixMove_on_axis (R a z sθ cθ ρ h pm : ℝ) (positive : Bool) (hρ : ρ ≠ 0)
    (hunit : sθ * sθ + cθ * cθ = 1) (hpm : 0 ≤ pm) :
    let sg : ℝ := if positive then 1 else -1
    let φ := sg * h / ρ
    let dir : Vec3 ℝ := ⟨-sg * sθ * Real.sin a, sg * sθ * Real.cos a, cθ⟩
    let beg : OdeState ℝ := ⟨⟨R * Real.cos a, R * Real.sin a, z⟩, ⟨dir.x * pm, dir.y * pm, dir.z * pm⟩⟩
    let rhs : OdeState ℝ := ⟨dir, ⟨0, 0, 0⟩⟩
    let e := zhelixMove h ρ positive beg rhs
    e.pos = ⟨R * Real.cos (a + φ), R * Real.sin (a + φ), z + φ * ρ * cθ⟩
    ∧ e.mom = ⟨-sg * sθ * Real.sin (a + φ) * pm, sg * sθ * Real.cos (a + φ) * pm, cθ * pm⟩
    ∧ Vec3.dot e.mom e.mom = Vec3.dot beg.mom beg.mom := by
  intro sg φ dir beg rhs e
  have hsg : sg * sg = 1 := by
    show (if positive then (1 : ℝ) else -1) * (if positive then (1 : ℝ) else -1) = 1
    cases positive <;> simp
  have hsc := Real.sin_sq_add_cos_sq a
  have hdelphi : (if positive then h / ρ else -h / ρ) = φ := by
    show _ = (if positive then (1 : ℝ) else -1) * h / ρ
    cases positive <;> simp
  -- |p| of the start state
  have hnorm : Vec3.norm beg.mom = pm := by
    simp only [Vec3.norm, Vec3R.dot_real, NumR.sqrt_real]
    have : dir.x * pm * (dir.x * pm) + dir.y * pm * (dir.y * pm) + dir.z * pm * (dir.z * pm)
        = pm * pm := by
      show (-sg * sθ * Real.sin a) * pm * ((-sg * sθ * Real.sin a) * pm)
          + (sg * sθ * Real.cos a) * pm * ((sg * sθ * Real.cos a) * pm) + cθ * pm * (cθ * pm) = pm * pm
      have e1 : (-sg * sθ * Real.sin a) * pm * ((-sg * sθ * Real.sin a) * pm)
          + (sg * sθ * Real.cos a) * pm * ((sg * sθ * Real.cos a) * pm) + cθ * pm * (cθ * pm)
          = pm * pm * ((sg * sg) * (sθ * sθ) * (Real.sin a ^ 2 + Real.cos a ^ 2) + cθ * cθ) := by ring
      rw [e1, hsg, hsc]; rw [one_mul, mul_one, hunit, mul_one]
    rw [this]; exact Real.sqrt_mul_self hpm
  have hpos : e.pos = ⟨R * Real.cos (a + φ), R * Real.sin (a + φ), z + φ * ρ * cθ⟩ := by
    show (zhelixMove h ρ positive beg rhs).pos = _
    unfold zhelixMove
    simp only [NumR.hdiv_real, NumR.hneg_real, NumR.sin_real, NumR.cos_real, NumR.hmul_real,
      NumR.hsub_real, NumR.hadd_real, hdelphi, Real.cos_add, Real.sin_add]
    congr 1 <;> ring
  have hmom : e.mom = ⟨-sg * sθ * Real.sin (a + φ) * pm, sg * sθ * Real.cos (a + φ) * pm, cθ * pm⟩ := by
    show (zhelixMove h ρ positive beg rhs).mom = _
    unfold zhelixMove
    simp only [NumR.hdiv_real, NumR.hneg_real, NumR.sin_real, NumR.cos_real, NumR.hmul_real,
      NumR.hsub_real, NumR.hadd_real, hdelphi, hnorm, Real.cos_add, Real.sin_add]
    congr 1 <;> ring
  refine ⟨hpos, hmom, ?_⟩
  rw [hmom]
  simp only [Vec3R.dot_real]
  have hsc' := Real.sin_sq_add_cos_sq (a + φ)
  show _ = (-sg * sθ * Real.sin a) * pm * ((-sg * sθ * Real.sin a) * pm)
          + (sg * sθ * Real.cos a) * pm * ((sg * sθ * Real.cos a) * pm) + cθ * pm * (cθ * pm)
  have e1 : ∀ t : ℝ, (-sg * sθ * Real.sin t) * pm * ((-sg * sθ * Real.sin t) * pm)
      + (sg * sθ * Real.cos t) * pm * ((sg * sθ * Real.cos t) * pm) + cθ * pm * (cθ * pm)
      = pm * pm * ((sg * sg) * (sθ * sθ) * (Real.sin t ^ 2 + Real.cos t ^ 2) + cθ * cθ) := by
    intro t; ring
  rw [e1 (a + φ), e1 a, hsc, hsc']

theorem zhelix_off_axis :
    (zhelixMove (Real.pi / 2) 1 true ⟨⟨2, 0, 0⟩, ⟨0, 1, 0⟩⟩ ⟨⟨0, 1, 0⟩, ⟨0, 0, 0⟩⟩).pos
      = (⟨0, 2, 0⟩ : Vec3 ℝ) := by
  unfold zhelixMove
  simp only [NumR.hdiv_real, NumR.hneg_real, NumR.sin_real, NumR.cos_real, NumR.hmul_real,
    NumR.hsub_real, NumR.hadd_real, if_true, div_one, Real.sin_pi_div_two, Real.cos_pi_div_two]
  congr 1 <;> ring

theorem zhelix_neg_z :
    (zhelixMove 1 (6 / 10) false ⟨⟨1, 0, 0⟩, ⟨0, -(6 / 10), 8 / 10⟩⟩
        ⟨⟨0, -(6 / 10), 8 / 10⟩, ⟨0, 0, 0⟩⟩).pos.z = -(8 / 10 : ℝ) := by
  unfold zhelixMove
  simp only [NumR.hdiv_real, NumR.hneg_real, NumR.hmul_real, NumR.hadd_real, Bool.false_eq_true,
    if_false]
  norm_num

end CelerVerif.FieldProp
