/-
C10 helper lemmas, part 7: the tree invariant in terms of `denote` (sorted trees) and the
transfer of the model-level results to statements about `denote`.
-/
import CelerVerif.Lemmas.CsgReplace

namespace CelerVerif.Csg

/-- the tree invariant: structure (node 0 = true, node 1 = ¬true, children in range, dedup ids in
    range), topological order (children < own id), dedup map sound for `denote` -/
structure TreeInv (t : Tree) : Prop where
  struct : Struct t
  sorted : Sorted t
  map : ∀ σ, MapSound t σ (denote t σ)

theorem TreeInv.good {t : Tree} (h : TreeInv t) (σ : Nat → Bool) : Good t σ (denote t σ) :=
  ⟨h.struct, denote_models h.sorted σ, h.map σ⟩

theorem mapSound_congr {t : Tree} (s : Struct t) {σ v v' : Nat → Bool}
    (h : ∀ i, i < t.size → v i = v' i) (hm : MapSound t σ v) : MapSound t σ v' := by
  intro e he
  rw [← h e.2 (s.idsRange e he), ← hm e he]
  apply evalNode_congr
  intro c hc
  exact (h c (s.keysClosed e he c hc)).symm

/-- a good tree that is sorted satisfies the invariant, and its model is `denote` -/
theorem treeInv_of_good {t : Tree} (hso : Sorted t) (h : ∀ σ, ∃ v, Good t σ v) : TreeInv t := by
  rcases h (fun _ => true) with ⟨_, g0⟩
  refine ⟨g0.struct, hso, fun σ => ?_⟩
  rcases h σ with ⟨v, g⟩
  exact mapSound_congr g.struct (models_unique hso g.models) g.map

theorem empty_inv : TreeInv Tree.empty :=
  treeInv_of_good (by
    intro i hi c hc
    have : i = 0 ∨ i = 1 := by simp [Tree.empty, Tree.size] at hi; omega
    rcases this with rfl | rfl <;> simp [Tree.empty, Tree.get, Node.children] at hc
    subst hc; decide) (fun σ => ⟨_, empty_good σ⟩)

/-- `CsgTree::insert` keeps the invariant, the meaning of every existing node, and returns an id
    that denotes the inserted node -/
theorem insert_inv {t : Tree} (inv : TreeInv t) {n : Node}
    (hn : ∀ c ∈ n.children, c < t.size) (hsmall : t.size < invalid) :
    TreeInv (insert t n).1 ∧
    (∀ σ i, i < t.size → denote (insert t n).1 σ i = denote t σ i) ∧
    (∀ σ, denote (insert t n).1 σ (insert t n).2.1 = evalNode σ (denote t σ) n) ∧
    (insert t n).2.1 < (insert t n).1.size := by
  have hso := insert_sorted inv.struct inv.sorted hn
  have hg := fun σ => insert_good (inv.good σ) hn hsmall
  have hinv : TreeInv (insert t n).1 :=
    treeInv_of_good hso (fun σ => by rcases hg σ with ⟨v', _, g, _⟩; exact ⟨v', g⟩)
  refine ⟨hinv, ?_, ?_, ?_⟩
  · intro σ i hi
    rcases hg σ with ⟨v', hv', g, _, _, hle, _⟩
    rw [← models_unique hso g.models i (by omega), hv' i hi]
  · intro σ
    rcases hg σ with ⟨v', _, g, hid, hlt, _⟩
    rw [← models_unique hso g.models _ hlt, hid]
  · rcases hg (fun _ => true) with ⟨_, _, _, _, hlt, _⟩; exact hlt

end CelerVerif.Csg
