/-
FieldDriver at ℝ over an arbitrary stepper: every step length the driver reports lies in
(0, requested].
-/
import CelerVerif.Lemmas.FieldPropBasic
import Mathlib.Analysis.SpecialFunctions.Log.Basic
import Mathlib.Tactic.Linarith
import Mathlib.Tactic.Positivity
import Mathlib.Tactic.NormNum

set_option linter.unusedSimpArgs false
set_option linter.unusedVariables false

namespace CelerVerif.FieldProp
open CelerVerif

/-- what validation guarantees, as real inequalities -/
structure OptOK (o : Options ℝ) : Prop where
  min_pos : 0 < o.minimumStep
  dchord_pos : 0 < o.deltaChord
  eps_step : 0 < o.epsilonStep
  pshrink_neg : o.pshrink < 0
  safety_pos : 0 < o.safety
  safety_lt : o.safety < 1
  dec_pos : 0 < o.maxSteppingDecrease
  dec_lt : o.maxSteppingDecrease < 1

theorem optOK_of_valid (o : Options ℝ) (hv : o.valid = true) : OptOK o := by
  unfold Options.valid at hv
  simp only [Bool.and_eq_true, NumR.gt_real, NumR.lt_real, NumR.lit0, NumR.lit1,
    decide_eq_true_eq] at hv
  obtain ⟨⟨⟨⟨⟨⟨⟨⟨⟨⟨⟨h1, h2⟩, h3⟩, h4, h4'⟩, h5⟩, h6⟩, h7⟩, h8, h8'⟩, h9⟩, h10, h10'⟩, h11⟩, h12⟩ := hv
  exact ⟨h1, h2, h4, h7, h8, h8', h10, h10'⟩

theorem half_lit : ((0.5 : ℝ)) = 1 / 2 := by norm_num
theorem minChordShrink_real : (minChordShrink : ℝ) = 1 / 2 := by
  show (OfScientific.ofScientific 5 true 1 : ℝ) = _; norm_num
theorem dchordTol_pos : (0 : ℝ) < dchordTol := by
  show (0 : ℝ) < Num.mul (OfScientific.ofScientific 1 true 5 : ℝ) (OfScientific.ofScientific 1 true 1 : ℝ)
  rw [NumR.mul_real]; norm_num
theorem initialStepTol_pos : (0 : ℝ) < initialStepTol := by
  show (0 : ℝ) < (OfScientific.ofScientific 1 true 6 : ℝ); norm_num

/-- shrinking scale: for an error above 1 the proposed scale is in (0, 1) -/
theorem newStepScale_shrink (o : Options ℝ) (h : OptOK o) (e : ℝ) (he : 1 < e) :
    0 < Driver.newStepScale o e ∧ Driver.newStepScale o e < 1 := by
  unfold Driver.newStepScale Driver.fastpow
  have hgt : Num.gt e (@OfNat.ofNat ℝ 1 (Num.instOfNat 1)) = true := by
    rw [NumR.gt_real, NumR.lit1]; exact he
  simp only [hgt, if_true, NumR.hmul_real, NumR.exp_real, NumR.log_real]
  have hhalf : (OfScientific.ofScientific 5 true 1 : ℝ) = 1 / 2 := by norm_num
  have hlog : 0 < Real.log e := Real.log_pos he
  have hx : (OfScientific.ofScientific 5 true 1 : ℝ) * o.pshrink * Real.log e < 0 := by
    rw [hhalf]
    have : 1 / 2 * o.pshrink < 0 := by have := h.pshrink_neg; linarith
    exact mul_neg_of_neg_of_pos this hlog
  have hexp1 : Real.exp ((OfScientific.ofScientific 5 true 1 : ℝ) * o.pshrink * Real.log e) < 1 :=
    by
      rw [← Real.exp_zero]; exact Real.exp_lt_exp.mpr hx
  have hexp0 := Real.exp_pos ((OfScientific.ofScientific 5 true 1 : ℝ) * o.pshrink * Real.log e)
  constructor
  · exact mul_pos h.safety_pos hexp0
  · have := h.safety_lt; have := h.safety_pos; nlinarith

/-- `find_next_chord`: the reported step is in (0, trial] -/
theorem chordLoop_range (o : Options ℝ) (h : OptOK o) (σ : Type) (stp : Driver.Stepper σ ℝ)
    (y : OdeState ℝ) : ∀ (n : ℕ) (step : ℝ) (s : σ), 0 < step →
      0 < (Driver.chordLoop o stp y n step s).1 ∧ (Driver.chordLoop o stp y n step s).1 ≤ step := by
  have key : ∀ (step dchord : ℝ), 0 < step → o.deltaChord + dchordTol < dchord →
      0 < step * fmax (Real.sqrt (o.deltaChord / dchord)) minChordShrink
      ∧ step * fmax (Real.sqrt (o.deltaChord / dchord)) minChordShrink ≤ step := by
    intro step dchord hs hd
    rw [fmax_real, minChordShrink_real]
    have hdpos : 0 < dchord := by have := h.dchord_pos; have := dchordTol_pos; linarith
    have hle : o.deltaChord / dchord ≤ 1 := by
      rw [div_le_one hdpos]; have := dchordTol_pos; linarith
    have hsq : Real.sqrt (o.deltaChord / dchord) ≤ 1 := by
      rw [show (1 : ℝ) = Real.sqrt 1 from Real.sqrt_one.symm]; exact Real.sqrt_le_sqrt hle
    have hf1 : max (Real.sqrt (o.deltaChord / dchord)) (1 / 2) ≤ 1 := max_le hsq (by norm_num)
    have hf0 : 0 < max (Real.sqrt (o.deltaChord / dchord)) (1 / 2) :=
      lt_of_lt_of_le (by norm_num) (le_max_right _ _)
    exact ⟨mul_pos hs hf0, by nlinarith⟩
  intro n
  induction n using Nat.strong_induction_on with
  | _ n ih =>
    intro step s hs
    rw [Driver.chordLoop]
    simp only [NumR.gt_real, NumR.hadd_real, NumR.hmul_real, NumR.hdiv_real, NumR.sqrt_real]
    split_ifs with hd
    · obtain ⟨k0, k1⟩ := key step _ hs hd
      match n with
      | 0 => exact ⟨k0, k1⟩
      | 1 => exact ⟨k0, k1⟩
      | n' + 2 =>
        simp only []
        obtain ⟨i0, i1⟩ := ih (n' + 1) (by omega) _ (stp s step y).2 k0
        exact ⟨i0, le_trans i1 k1⟩
    · exact ⟨hs, le_refl _⟩

end CelerVerif.FieldProp
