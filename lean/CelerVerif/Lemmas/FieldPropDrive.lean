/-
FieldDriver at ℝ over an arbitrary stepper: every step length the driver reports lies in
(0, requested].
-/
import CelerVerif.Lemmas.FieldPropBasic
import Mathlib.Analysis.SpecialFunctions.Log.Basic
import Mathlib.Tactic.Linarith
import Mathlib.Tactic.Positivity
import Mathlib.Tactic.NormNum

set_option linter.unusedSimpArgs false
set_option linter.unusedVariables false

namespace CelerVerif.FieldProp
open CelerVerif

/-- what validation guarantees, as real inequalities -/
structure OptOK (o : Options ℝ) : Prop where
  min_pos : 0 < o.minimumStep
  dchord_pos : 0 < o.deltaChord
  eps_step : 0 < o.epsilonStep
  pshrink_neg : o.pshrink < 0
  safety_pos : 0 < o.safety
  safety_lt : o.safety < 1
  dec_pos : 0 < o.maxSteppingDecrease
  dec_lt : o.maxSteppingDecrease < 1

theorem optOK_of_valid (o : Options ℝ) (hv : o.valid = true) : OptOK o := by
  unfold Options.valid at hv
  simp only [Bool.and_eq_true, NumR.gt_real, NumR.lt_real, NumR.lit0, NumR.lit1,
    decide_eq_true_eq] at hv
  obtain ⟨⟨⟨⟨⟨⟨⟨⟨⟨⟨⟨h1, h2⟩, h3⟩, h4, h4'⟩, h5⟩, h6⟩, h7⟩, h8, h8'⟩, h9⟩, h10, h10'⟩, h11⟩, h12⟩ := hv
  exact ⟨h1, h2, h4, h7, h8, h8', h10, h10'⟩

theorem half_lit : ((0.5 : ℝ)) = 1 / 2 := by norm_num
theorem minChordShrink_real : (minChordShrink : ℝ) = 1 / 2 := by
  show (OfScientific.ofScientific 5 true 1 : ℝ) = _; norm_num
theorem dchordTol_pos : (0 : ℝ) < dchordTol := by
  show (0 : ℝ) < Num.mul (OfScientific.ofScientific 1 true 5 : ℝ) (OfScientific.ofScientific 1 true 1 : ℝ)
  rw [NumR.mul_real]; norm_num
theorem initialStepTol_pos : (0 : ℝ) < initialStepTol := by
  show (0 : ℝ) < (OfScientific.ofScientific 1 true 6 : ℝ); norm_num

/-- shrinking scale: for an error above 1 the proposed scale is in (0, 1) -/
theorem newStepScale_shrink (o : Options ℝ) (h : OptOK o) (e : ℝ) (he : 1 < e) :
    0 < Driver.newStepScale o e ∧ Driver.newStepScale o e < 1 := by
  unfold Driver.newStepScale Driver.fastpow
  have hgt : Num.gt e (@OfNat.ofNat ℝ 1 (Num.instOfNat 1)) = true := by
    rw [NumR.gt_real, NumR.lit1]; exact he
  simp only [hgt, if_true, NumR.hmul_real, NumR.exp_real, NumR.log_real]
  have hhalf : (OfScientific.ofScientific 5 true 1 : ℝ) = 1 / 2 := by norm_num
  have hlog : 0 < Real.log e := Real.log_pos he
  have hx : (OfScientific.ofScientific 5 true 1 : ℝ) * o.pshrink * Real.log e < 0 := by
    rw [hhalf]
    have : 1 / 2 * o.pshrink < 0 := by have := h.pshrink_neg; linarith
    exact mul_neg_of_neg_of_pos this hlog
  have hexp1 : Real.exp ((OfScientific.ofScientific 5 true 1 : ℝ) * o.pshrink * Real.log e) < 1 :=
    by
      rw [← Real.exp_zero]; exact Real.exp_lt_exp.mpr hx
  have hexp0 := Real.exp_pos ((OfScientific.ofScientific 5 true 1 : ℝ) * o.pshrink * Real.log e)
  constructor
  · exact mul_pos h.safety_pos hexp0
  · have := h.safety_lt; have := h.safety_pos; nlinarith

/-- `find_next_chord`: the reported step is in (0, trial] -/
theorem chordLoop_range (o : Options ℝ) (h : OptOK o) (σ : Type) (stp : Driver.Stepper σ ℝ)
    (y : OdeState ℝ) : ∀ (n : ℕ) (step : ℝ) (s : σ), 0 < step →
      0 < (Driver.chordLoop o stp y n step s).1 ∧ (Driver.chordLoop o stp y n step s).1 ≤ step := by
  have key : ∀ (step dchord : ℝ), 0 < step → o.deltaChord + dchordTol < dchord →
      0 < step * fmax (Real.sqrt (o.deltaChord / dchord)) minChordShrink
      ∧ step * fmax (Real.sqrt (o.deltaChord / dchord)) minChordShrink ≤ step := by
    intro step dchord hs hd
    rw [fmax_real, minChordShrink_real]
    have hdpos : 0 < dchord := by have := h.dchord_pos; have := dchordTol_pos; linarith
    have hle : o.deltaChord / dchord ≤ 1 := by
      rw [div_le_one hdpos]; have := dchordTol_pos; linarith
    have hsq : Real.sqrt (o.deltaChord / dchord) ≤ 1 := by
      rw [show (1 : ℝ) = Real.sqrt 1 from Real.sqrt_one.symm]; exact Real.sqrt_le_sqrt hle
    have hf1 : max (Real.sqrt (o.deltaChord / dchord)) (1 / 2) ≤ 1 := max_le hsq (by norm_num)
    have hf0 : 0 < max (Real.sqrt (o.deltaChord / dchord)) (1 / 2) :=
      lt_of_lt_of_le (by norm_num) (le_max_right _ _)
    exact ⟨mul_pos hs hf0, by nlinarith⟩
  intro n
  induction n using Nat.strong_induction_on with
  | _ n ih =>
    intro step s hs
    rw [Driver.chordLoop]
    simp only [NumR.gt_real, NumR.hadd_real, NumR.hmul_real, NumR.hdiv_real, NumR.sqrt_real]
    split_ifs with hd
    · obtain ⟨k0, k1⟩ := key step _ hs hd
      match n with
      | 0 => exact ⟨k0, k1⟩
      | 1 => exact ⟨k0, k1⟩
      | n' + 2 =>
        simp only []
        obtain ⟨i0, i1⟩ := ih (n' + 1) (by omega) _ (stp s step y).2 k0
        exact ⟨i0, le_trans i1 k1⟩
    · exact ⟨hs, le_refl _⟩

/-- `one_good_step`: the reported step is in (0, trial] -/
theorem goodLoop_range (o : Options ℝ) (h : OptOK o) (σ : Type) (stp : Driver.Stepper σ ℝ)
    (y : OdeState ℝ) : ∀ (n : ℕ) (step : ℝ) (s : σ), 0 < step →
      0 < (Driver.goodLoop o stp y n step s).1 ∧ (Driver.goodLoop o stp y n step s).1 ≤ step := by
  have key : ∀ (step e : ℝ), 0 < step → 1 < e →
      0 < step * fmax (Driver.newStepScale o e) o.maxSteppingDecrease
      ∧ step * fmax (Driver.newStepScale o e) o.maxSteppingDecrease ≤ step := by
    intro step e hs he
    rw [fmax_real]
    obtain ⟨_, s1⟩ := newStepScale_shrink o h e he
    have hf1 : max (Driver.newStepScale o e) o.maxSteppingDecrease ≤ 1 :=
      max_le (le_of_lt s1) (le_of_lt h.dec_lt)
    have hf0 : 0 < max (Driver.newStepScale o e) o.maxSteppingDecrease :=
      lt_of_lt_of_le h.dec_pos (le_max_right _ _)
    exact ⟨mul_pos hs hf0, by nlinarith⟩
  intro n
  induction n using Nat.strong_induction_on with
  | _ n ih =>
    intro step s hs
    rw [Driver.goodLoop]
    simp only [NumR.gt_real, NumR.hmul_real, NumR.lit1]
    split_ifs with hd
    · obtain ⟨k0, k1⟩ := key step _ hs hd
      match n with
      | 0 => exact ⟨k0, k1⟩
      | 1 => exact ⟨k0, k1⟩
      | n' + 2 =>
        simp only []
        obtain ⟨i0, i1⟩ := ih (n' + 1) (by omega) _ (stp s step y).2 k0
        exact ⟨i0, le_trans i1 k1⟩
    · exact ⟨hs, le_refl _⟩

/-- `integrate_step`: the step taken is in (0, h] -/
theorem integrateStep_range (o : Options ℝ) (h : OptOK o) (σ : Type) (stp : Driver.Stepper σ ℝ)
    (hh : ℝ) (y : OdeState ℝ) (s : σ) (hpos : 0 < hh) :
    0 < (Driver.integrateStep o stp hh y s).1.fin.step
      ∧ (Driver.integrateStep o stp hh y s).1.fin.step ≤ hh := by
  unfold Driver.integrateStep
  split_ifs with hg
  · unfold Driver.oneGoodStep
    exact goodLoop_range o h σ stp y _ hh s hpos
  · exact ⟨hpos, le_refl _⟩

/-- `accurate_advance` loop: the accumulated curve length strictly grows -/
theorem accLoop_range (o : Options ℝ) (h : OptOK o) (σ : Type) (stp : Driver.Stepper σ ℝ)
    (endLen thr : ℝ) : ∀ (n : ℕ) (hh : ℝ) (y : OdeState ℝ) (curve : ℝ) (s : σ), 0 < hh →
      curve < (Driver.accLoop o stp endLen thr n hh y curve s).1 := by
  intro n
  induction n using Nat.strong_induction_on with
  | _ n ih =>
    intro hh y curve s hpos
    obtain ⟨i0, _⟩ := integrateStep_range o h σ stp hh y s hpos
    rw [Driver.accLoop]
    simp only [NumR.hadd_real, NumR.hsub_real, Bool.or_eq_true, NumR.lt_real, NumR.ge_real]
    split_ifs with hd
    · simp only []; linarith
    · match n with
      | 0 => simp only []; linarith
      | 1 => simp only []; linarith
      | n' + 2 =>
        simp only []
        simp only [not_or, not_lt, not_le] at hd
        have hh' : 0 < fmin (fmax (Driver.integrateStep o stp hh y s).1.proposed o.minimumStep)
            (endLen - (curve + (Driver.integrateStep o stp hh y s).1.fin.step)) := by
          rw [fmin_real, fmax_real]
          exact lt_min (lt_of_lt_of_le h.min_pos (le_max_right _ _)) (by linarith [hd.2])
        have := ih (n' + 1) (by omega) _ (Driver.integrateStep o stp hh y s).1.fin.state
          (curve + (Driver.integrateStep o stp hh y s).1.fin.step)
          (Driver.integrateStep o stp hh y s).2 hh'
        linarith

theorem accurateAdvance_range (o : Options ℝ) (h : OptOK o) (σ : Type) (stp : Driver.Stepper σ ℝ)
    (step : ℝ) (y : OdeState ℝ) (hinit : ℝ) (s : σ) (hs : 0 < step) :
    0 < (Driver.accurateAdvance o stp step y hinit s).1.step
      ∧ (Driver.accurateAdvance o stp step y hinit s).1.step ≤ step := by
  unfold Driver.accurateAdvance
  simp only [fmin_real, NumR.lit0]
  have hh : 0 < (if (Num.gt hinit (initialStepTol * step) && Num.lt hinit step) = true
      then hinit else step) := by
    split_ifs with hc
    · simp only [Bool.and_eq_true, NumR.gt_real, NumR.lt_real, NumR.hmul_real] at hc
      have := mul_pos initialStepTol_pos hs
      linarith [hc.1]
    · exact hs
  have := accLoop_range o h σ stp step (o.epsilonStep * step) o.maxNsteps.toNat _ y 0 s hh
  exact ⟨lt_min this hs, min_le_right _ _⟩

/-- the part of `advance` after the trial step has been chosen -/
theorem advance_tail (o : Options ℝ) (h : OptOK o) (σ : Type) (stp : Driver.Stepper σ ℝ)
    (maxChord : Option ℝ) (hmc : ∀ m, maxChord = some m → 0 < m)
    (step trial : ℝ) (ht : 0 < trial) (htl : trial ≤ step) (y : OdeState ℝ) (s : σ)
    (res : DriverResult ℝ × Option ℝ × σ)
    (hres : res =
      (let (out, s) := Driver.findNextChord o stp trial y s
       let maxChord' := if Num.lt out.fin.step step
         then some (out.fin.step * ((@OfNat.ofNat ℝ 1 (Num.instOfNat 1)) / minChordShrink)) else maxChord
       if Num.gt out.errSq (@OfNat.ofNat ℝ 1 (Num.instOfNat 1)) then
         let nextStep := step * Driver.newStepScale o out.errSq
         let (r, s) := Driver.accurateAdvance o stp out.fin.step y nextStep s
         (r, maxChord', s)
       else (out.fin, maxChord', s))) :
    0 < res.1.step ∧ res.1.step ≤ step ∧ (∀ m, res.2.1 = some m → 0 < m) := by
  obtain ⟨c0, c1⟩ := chordLoop_range o h σ stp y o.maxNsteps.toNat trial s ht
  subst hres
  unfold Driver.findNextChord
  simp only []
  have hmcq : ∀ (q : ℝ), 0 < q → ∀ m, (if Num.lt q step = true
        then some (q * ((@OfNat.ofNat ℝ 1 (Num.instOfNat 1)) / minChordShrink)) else maxChord) = some m
        → 0 < m := by
    intro q hq m hm
    split_ifs at hm with hlt
    · simp only [Option.some.injEq] at hm
      rw [← hm, NumR.hmul_real, NumR.hdiv_real, NumR.lit1, minChordShrink_real]
      have : (0 : ℝ) < 1 / (1 / 2) := by norm_num
      exact mul_pos hq this
    · exact hmc m hm
  by_cases he : Num.gt (Driver.errSqOf o (Driver.chordLoop o stp y o.maxNsteps.toNat trial s).2.1.err
      (Driver.chordLoop o stp y o.maxNsteps.toNat trial s).1 y.mom)
      (@OfNat.ofNat ℝ 1 (Num.instOfNat 1)) = true
  · simp only [he, if_true]
    exact ⟨(accurateAdvance_range o h σ stp _ y _ _ c0).1,
      le_trans (accurateAdvance_range o h σ stp _ y _ _ c0).2 (le_trans c1 htl), hmcq _ c0⟩
  · simp only [he, if_false, Bool.false_eq_true]
    exact ⟨c0, le_trans c1 htl, hmcq _ c0⟩

/-- `advance`: reported substep in (0, requested]; `max_chord_` stays positive -/
theorem advance_range (o : Options ℝ) (hv : o.valid = true) (σ : Type)
    (stp : Driver.Stepper σ ℝ) (maxChord : Option ℝ) (hmc : ∀ m, maxChord = some m → 0 < m)
    (step : ℝ) (hs : 0 < step) (y : OdeState ℝ) (s : σ) :
    0 < (Driver.advance o stp maxChord step y s).1.step
    ∧ (Driver.advance o stp maxChord step y s).1.step ≤ step
    ∧ (∀ m, (Driver.advance o stp maxChord step y s).2.1 = some m → 0 < m) := by
  have h := optOK_of_valid o hv
  by_cases hq : Num.le step o.minimumStep = true
  · unfold Driver.advance
    simp only [hq, if_true]
    exact ⟨hs, le_refl _, hmc⟩
  · cases hmcase : maxChord with
    | none =>
      apply advance_tail o h σ stp none (by intro m hm; simp at hm) step step hs (le_refl _) y s
      unfold Driver.advance
      simp only [hq, if_false, Bool.false_eq_true]
    | some m0 =>
      have hm0 : 0 < m0 := hmc m0 hmcase
      apply advance_tail o h σ stp (some m0) (by intro m hm; simp at hm; rw [← hm]; exact hm0)
        step (fmin step m0) (by rw [fmin_real]; exact lt_min hs hm0)
        (by rw [fmin_real]; exact min_le_left _ _) y s
      unfold Driver.advance
      simp only [hq, if_false, Bool.false_eq_true]

end CelerVerif.FieldProp
