/-
C19 helper lemmas, part 3: surfaces, volumes, units, rect arrays.
-/
import CelerVerif.Lemmas.OrangeIOLogic

set_option linter.unusedSimpArgs false

namespace CelerVerif.OrangeIO
open CelerVerif.Json

/-! ### surfaces -/

theorem surf_table : ∀ ty, ty < numSurfTypes →
    Generated.OrangeIO.surfaceNames.idxOf (surfName ty) = ty ∧
    surfSize ty < 18446744073709551616 := by
  decide

theorem surfTypeOfName_surfName (ty : Nat) (h : ty < numSurfTypes) :
    surfTypeOfName (surfName ty) = .ok ty := by
  simp [surfTypeOfName, (surf_table ty h).1, h]

theorem getU64_int_small (n : Nat) (h : n < 18446744073709551616) :
    (Json.int (Int.ofNat n)).getU64 = .ok (UInt64.ofNat n) := by
  simp only [Json.getU64]
  have : ((Int.ofNat n) % 18446744073709551616).toNat = n := by
    simp only [Int.ofNat_eq_natCast]; omega
  rw [this]

/-- a surface the reader can reconstruct: known type with a `visit_surface_type` case
    (not `inv`), data of that type's size, written doubles finite (text path) -/
def Surface.Valid (fin : F64 → Prop) (s : Surface) : Prop :=
  s.ty < numSurfTypes ∧ Generated.OrangeIO.surfaceReadable.getD s.ty false = true ∧
  s.data.length = surfSize s.ty ∧ ∀ b ∈ s.data, fin b

instance (fin : F64 → Prop) [DecidablePred fin] (s : Surface) : Decidable (s.Valid fin) := by
  unfold Surface.Valid; infer_instance

theorem importSurf_ok {fin : F64 → Prop} (ss : List Surface) (h : ∀ s ∈ ss, s.Valid fin) :
    ∀ rest, importSurf (ss.map fun s => surfName s.ty)
      (ss.map fun s => UInt64.ofNat (surfSize s.ty)) (ss.flatMap (·.data) ++ rest) = .ok ss := by
  induction ss with
  | nil => intro rest; rfl
  | cons s ss ih =>
    intro rest
    obtain ⟨h1, h2, h3, _⟩ := h s (by simp)
    have ih' := ih (fun x hx => h x (by simp [hx])) rest
    have hsz : (UInt64.ofNat (surfSize s.ty)).toNat = surfSize s.ty := by
      simp only [UInt64.toNat_ofNat']
      exact Nat.mod_eq_of_lt (surf_table s.ty h1).2
    simp only [List.map_cons, List.flatMap_cons, List.append_assoc, importSurf,
      surfTypeOfName_surfName s.ty h1, bindR_ok, h2, Bool.not_true, Bool.false_eq_true, if_false]
    have hlen : ¬ (s.data ++ (ss.flatMap (·.data) ++ rest)).length < surfSize s.ty := by
      simp only [List.length_append]; omega
    simp only [hlen, if_false, hsz]
    rw [← h3, List.drop_left, List.take_left, ih']
    rfl

theorem decodeSurfaces_encodeSurfaces {num : F64 → Json} {fin : F64 → Prop} (hn : NumOK num fin)
    (ss : List Surface) (h : ∀ s ∈ ss, s.Valid fin) :
    decodeSurfaces (encodeSurfaces num ss) = .ok ss := by
  have htypes : (Json.arr (ss.map fun s => Json.str (surfName s.ty))).getStrList
      = .ok (ss.map fun s => surfName s.ty) := by
    simp only [Json.getStrList, Json.getArr]
    exact mapE_map _ _ _ ss (fun s _ => rfl)
  have hdata : (Json.arr ((ss.flatMap (·.data)).map num)).getRealList
      = .ok (ss.flatMap (·.data)) := by
    apply getRealList_num
    intro b hb
    simp only [List.mem_flatMap] at hb
    obtain ⟨s, hs, hb⟩ := hb
    exact hn.eq b ((h s hs).2.2.2 b hb)
  have hsizes : (Json.arr (ss.map fun s => Json.int ((surfSize s.ty : Nat) : Int))).getU64List
      = .ok (ss.map fun s => UInt64.ofNat (surfSize s.ty)) := by
    simp only [Json.getU64List, Json.getArr]
    exact mapE_map _ _ _ ss (fun s hs => getU64_int_small _ (surf_table s.ty (h s hs).1).2)
  have himp := importSurf_ok ss h []
  simp only [List.append_nil] at himp
  simp [decodeSurfaces, encodeSurfaces, htypes, hdata, hsizes, himp]

/-! ### volumes -/

theorem zchar_size (z : UInt64) : (String.singleton (zorderToChar z)).utf8ByteSize = 1 := by
  unfold zorderToChar
  generalize z.toNat = n
  simp only [Generated.OrangeIO.zorderToChar, List.lookup]
  repeat' split
  all_goals decide

theorem zchar_utf8Size (z : UInt64) : (zorderToChar z).utf8Size = 1 := by
  have := zchar_size z
  simpa [String.utf8ByteSize_singleton] using this

/-- what a volume needs to survive (its label is handled by the enclosing unit):
    * the oriented bounding zone is default (it is never written),
    * the z-order is one `to_char`/`to_zorder` round-trip (the seven named values),
    * a background volume has exactly the logic/bbox the reader substitutes,
    * any other volume has non-empty, readable logic and a round-trippable bbox. -/
def Volume.Valid (v : Volume) : Prop :=
  v.label.Valid ∧ v.obz = OBZ.default ∧ zorderOfChar (zorderToChar v.zorder) = v.zorder ∧
  (if v.zorder = zBackground then v.logic = [ltrueW, lnotW] ∧ v.bbox = BBox.null
   else v.logic ≠ [] ∧ (∀ t ∈ v.logic, tokenOK t) ∧ v.bbox.RT)

instance (v : Volume) : Decidable v.Valid := by unfold Volume.Valid; infer_instance

theorem decodeZorder_encodeVolume (num : F64 → Json) (v : Volume)
    (hz : zorderOfChar (zorderToChar v.zorder) = v.zorder) :
    decodeZorder (encodeVolume num v) = .ok v.zorder := by
  simp only [decodeZorder, encodeVolume, find_obj, lookup_append, lookup_optKey, lookup_cons,
    lookup_nil]
  by_cases hm : v.zorder = zMedia
  · simp [hm]
  · simp [hm, zchar_utf8Size, hz]

theorem decodeFlags_encodeVolume (num : F64 → Json) (v : Volume) :
    decodeFlags (encodeVolume num v) = .ok v.flags := by
  simp only [decodeFlags, encodeVolume, find_obj, lookup_append, lookup_optKey, lookup_cons,
    lookup_nil]
  by_cases hf : v.flags = 0
  · simp [hf]
  · simp [hf, getU64_u64]

theorem decodeVolume_encodeVolume {num : F64 → Json} {fin : F64 → Prop} (hn : NumOK num fin)
    (v : Volume) (h : v.Valid) :
    decodeVolume (encodeVolume num v) = .ok { v with label := ⟨"", ""⟩ } := by
  obtain ⟨_, hobz, hz, hrest⟩ := h
  unfold decodeVolume
  rw [decodeFlags_encodeVolume, decodeZorder_encodeVolume num v hz]
  have hfaces : bindR ((encodeVolume num v).atKey "faces") Json.getU64List = .ok v.faces := by
    simp [encodeVolume, getU64List_u64]
  rw [hfaces]
  simp only [bindR_ok]
  obtain ⟨label, faces, logic, bbox, obz, flags, zorder⟩ := v
  simp only at hobz hz hrest ⊢
  by_cases hb : zorder = zBackground
  · simp only [hb, if_true] at hrest ⊢
    obtain ⟨hl, hbb⟩ := hrest
    simp [hl, hbb, hobz]
  · simp only [hb, if_false] at hrest ⊢
    obtain ⟨hl, htok, hbb⟩ := hrest
    have hlogic : bindR (bindR ((encodeVolume num
        ⟨label, faces, logic, bbox, obz, flags, zorder⟩).atKey "logic") Json.getStr) stringToLogic
        = .ok logic := by
      have : logic.isEmpty = false := by cases logic <;> simp_all
      simp [encodeVolume, this, lookup_append, Json.getStr, stringToLogic_logicToString logic htok]
    have hbox : getBBox (encodeVolume num ⟨label, faces, logic, bbox, obz, flags, zorder⟩)
        = .ok bbox := by
      simp only [getBBox, encodeVolume, find_obj, lookup_append, lookup_optKey, lookup_cons,
        lookup_nil]
      by_cases hi : bbox.isInfinite = true
      · have : bbox = BBox.infinite := by simpa [BBox.isInfinite] using hi
        have hi' : BBox.infinite.isInfinite = true := by decide
        simp [this, hi']
      · simp [hi, decodeBBox_encodeBBox hn bbox hbb]
    rw [hlogic, hbox]
    simp [hobz]

theorem assignLabels_strip (vs : List Volume) :
    assignLabels (vs.map fun v => { v with label := ⟨"", ""⟩ }) (vs.map (·.label)) = vs := by
  induction vs with
  | nil => rfl
  | cons v vs ih => simp [assignLabels, ih]

/-! ### units -/

theorem mapEmplace_append (k : UInt64) (d : Daughter) (m : List (UInt64 × Daughter))
    (h : ∀ e ∈ m, e.1 < k) : mapEmplace k d m = m ++ [(k, d)] := by
  induction m with
  | nil => rfl
  | cons e m ih =>
    obtain ⟨k', d'⟩ := e
    have hk : k' < k := h (k', d') (by simp)
    have hk' := UInt64.lt_iff_toNat_lt.mp hk
    have h1 : ¬ k < k' := fun h2 => by have := UInt64.lt_iff_toNat_lt.mp h2; omega
    have h2 : ¬ k = k' := fun h2 => by subst h2; omega
    simp [mapEmplace, h1, h2, ih (fun e he => h e (by simp [he]))]

theorem emplaceAll_sorted (ds : List (UInt64 × Daughter)) :
    ∀ m : List (UInt64 × Daughter), ds.Pairwise (fun a b => a.1 < b.1) →
      (∀ e ∈ m, ∀ d ∈ ds, e.1 < d.1) →
      emplaceAll (ds.map (·.1)) (ds.map (·.2.univ)) (ds.map (·.2.transform)) m = .ok (m ++ ds) := by
  induction ds with
  | nil => intro m _ _; simp [emplaceAll]
  | cons d ds ih =>
    intro m hp hm
    obtain ⟨k, du, dt⟩ := d
    rw [List.pairwise_cons] at hp
    simp only [List.map_cons, emplaceAll]
    rw [mapEmplace_append k ⟨du, dt⟩ m (fun e he => hm e he (k, ⟨du, dt⟩) (by simp))]
    rw [ih _ hp.2]
    · simp
    · intro e he x hx
      simp only [List.mem_append, List.mem_singleton] at he
      rcases he with he | he
      · exact hm e he x (by simp [hx])
      · subst he; exact hp.1 x hx

/-- what a unit needs to survive the round trip -/
def UnitInput.Valid (fin : F64 → Prop) (u : UnitInput) : Prop :=
  u.label.Valid ∧ (∀ s ∈ u.surfaces, s.Valid fin) ∧ (∀ v ∈ u.volumes, v.Valid) ∧
  (u.bbox.valid = true ∧ u.bbox.lo.noMax ∧ u.bbox.hi.noMax) ∧
  u.daughters.Pairwise (fun a b => a.1 < b.1) ∧ (∀ d ∈ u.daughters, d.2.transform.Fin fin) ∧
  (∀ l ∈ u.surfaceLabels, l.Valid) ∧
  (u.surfaceLabels.length = u.surfaces.length ∨ u.surfaceLabels = [])

instance (fin : F64 → Prop) [DecidablePred fin] (u : UnitInput) : Decidable (u.Valid fin) := by
  unfold UnitInput.Valid; infer_instance

theorem decodeUnit_encodeUnit {num : F64 → Json} {fin : F64 → Prop} (hn : NumOK num fin)
    (u : UnitInput) (h : u.Valid fin) : decodeUnit (encodeUnit num u) = .ok u := by
  obtain ⟨hlab, hsurf, hvol, hbox, hsorted, htr, hsl, hslen⟩ := h
  have h1 : bindR (bindR ((encodeUnit num u).atKey "md") (·.atKey "name")) decodeLabel
      = .ok u.label := by
    simp [encodeUnit, lookup_append, decodeLabel_encodeLabel u.label hlab]
  have h2 : bindR ((encodeUnit num u).atKey "surfaces") decodeSurfaces = .ok u.surfaces := by
    simp [encodeUnit, lookup_append, decodeSurfaces_encodeSurfaces hn u.surfaces hsurf]
  have h3 : decodeVolumesKey (encodeUnit num u)
      = .ok (u.volumes.map fun v => { v with label := ⟨"", ""⟩ }) := by
    have := mapE_map decodeVolume (encodeVolume num) (fun v => { v with label := ⟨"", ""⟩ })
      u.volumes (fun v hv => decodeVolume_encodeVolume hn v (hvol v hv))
    simp [decodeVolumesKey, encodeUnit, findFirst, lookup_append, Json.getArr, this]
  have h4 : decodeLabelsKey (encodeUnit num u) ["volume_labels", "cell_names"]
      = .ok (u.volumes.map (·.label)) := by
    have := decodeLabels_encode (u.volumes.map (·.label)) (by
      intro l hl
      simp only [List.mem_map] at hl
      obtain ⟨v, hv, rfl⟩ := hl
      exact (hvol v hv).1)
    simp only [List.map_map] at this
    simp [decodeLabelsKey, encodeUnit, findFirst, lookup_append]
    exact this
  have h5 : decodeLabelsKey (encodeUnit num u) ["surface_labels", "surface_names"]
      = .ok u.surfaceLabels := by
    simp [decodeLabelsKey, encodeUnit, findFirst, decodeLabels_encode u.surfaceLabels hsl]
  have h6 : getBBox (encodeUnit num u) = .ok u.bbox := by
    simp only [getBBox, encodeUnit, find_obj, lookup_append, lookup_optKey, lookup_cons, lookup_nil]
    by_cases hi : u.bbox.isInfinite = true
    · have : u.bbox = BBox.infinite := by simpa [BBox.isInfinite] using hi
      have hi' : BBox.infinite.isInfinite = true := by decide
      cases hd : u.daughters.isEmpty <;> simp [this, hi', hd]
    · cases hd : u.daughters.isEmpty <;>
        simp [hi, hd, hbox.1, decodeBBox_encodeBBox hn u.bbox (Or.inr hbox)]
  have h7 : ∀ m, decodeDaughtersKey (encodeUnit num u) "parent_volumes" m = .ok m := by
    intro m
    simp only [decodeDaughtersKey, encodeUnit, find_obj, lookup_append, lookup_optKey, lookup_cons,
      lookup_nil]
    cases u.daughters.isEmpty <;> simp
  have h8 : decodeDaughtersKey (encodeUnit num u) "parent_cells" [] = .ok u.daughters := by
    cases hd : u.daughters.isEmpty
    · have htrs : mapE importTransform
          (u.daughters.map fun d => exportTransform num d.2.transform)
          = .ok (u.daughters.map (·.2.transform)) :=
        mapE_map _ _ _ _ (fun d hd => importTransform_export hn d.2.transform (htr d hd))
      have hem := emplaceAll_sorted u.daughters [] hsorted (by simp)
      simp only [List.nil_append] at hem
      have hp : (Json.arr (u.daughters.map fun d => u64 d.1)).getU64List
          = .ok (u.daughters.map (·.1)) := by
        simp only [Json.getU64List, Json.getArr]
        exact mapE_map _ _ _ _ (fun d _ => getU64_u64 d.1)
      have hdd : (Json.arr (u.daughters.map fun d => u64 d.2.univ)).getU64List
          = .ok (u.daughters.map (·.2.univ)) := by
        simp only [Json.getU64List, Json.getArr]
        exact mapE_map _ _ _ _ (fun d _ => getU64_u64 d.2.univ)
      simp [decodeDaughtersKey, encodeUnit, lookup_append, hd, hp, hdd, readUnitTransforms,
        Json.iterValues, htrs, hem]
    · have : u.daughters = [] := by simpa using hd
      simp [decodeDaughtersKey, encodeUnit, lookup_append, hd, this]
  simp only [decodeUnit, h1, h2, h3, h4, h5, h6, h7, bindR_ok, h8]
  simp only [List.length_map, decide_true, Bool.true_or, validate_true, bindR_ok,
    assignLabels_strip]
  have hv : (decide (u.surfaceLabels.length = u.surfaces.length) || u.surfaceLabels.isEmpty)
      = true := by
    rcases hslen with h | h
    · simp [h]
    · simp [h]
  rw [hv]
  rfl

end CelerVerif.OrangeIO
