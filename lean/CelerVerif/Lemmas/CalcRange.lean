/-
C14 helper lemmas (3): RangeCalculator and InverseRangeCalculator at ℝ — closed forms per
region, the bracket search of NonuniformGrid::find on a strictly increasing table of any size.
-/
import CelerVerif.Lemmas.CalcXs

namespace CelerVerif.Calc
open CelerVerif

/-! ### strictly increasing tables of any size -/

theorem XsGrid.Incr.strict {d : XsGrid ℝ} (hi : d.Incr) {i j : ℕ} (hij : i < j) (hj : j < d.size) :
    d.y i < d.y j := by
  induction j with
  | zero => omega
  | succ j ih =>
    rcases Nat.lt_or_eq_of_le (Nat.lt_succ_iff.mp hij) with h | h
    · exact lt_trans (ih h (by omega)) (hi j hj)
    · subst h; exact hi i hj

theorem XsGrid.Incr.mono {d : XsGrid ℝ} (hi : d.Incr) {i j : ℕ} (hij : i ≤ j) (hj : j < d.size) :
    d.y i ≤ d.y j := by
  rcases Nat.lt_or_eq_of_le hij with h | h
  · exact le_of_lt (hi.strict h hj)
  · rw [h]

/-- a value lies in at most one bin -/
theorem XsGrid.Incr.bin_unique {d : XsGrid ℝ} (hi : d.Incr) {v : ℝ} {k j : ℕ}
    (hk : k + 1 < d.size) (hj : j + 1 < d.size)
    (k1 : d.y k ≤ v) (k2 : v < d.y (k + 1)) (j1 : d.y j ≤ v) (j2 : v < d.y (j + 1)) : k = j := by
  by_contra hne
  rcases Nat.lt_or_gt_of_ne hne with h | h
  · have := hi.mono (show k + 1 ≤ j by omega) (by omega)
    linarith
  · have := hi.mono (show j + 1 ≤ k by omega) (by omega)
    linarith

/-! ### the binary search -/

/-- `lower_bound` on a sorted prefix `[first, first+len)` of a readable range `[0, n)` -/
theorem lowerBoundLoop_spec (rd : ℕ → Option ℝ) (r : ℕ → ℝ) (n : ℕ)
    (hrd : ∀ i, i < n → rd i = some (r i))
    (hmono : ∀ i j, i ≤ j → j < n → r i ≤ r j) (v : ℝ) :
    ∀ len first, first + len ≤ n →
      ∃ p, lowerBoundLoop rd v first len = some p ∧ first ≤ p ∧ p ≤ first + len ∧
        (∀ i, first ≤ i → i < p → r i < v) ∧ (∀ i, p ≤ i → i < first + len → v ≤ r i) := by
  intro len
  induction len using Nat.strong_induction_on with
  | _ len ih =>
    intro first hle
    unfold lowerBoundLoop
    by_cases h0 : len = 0
    · subst h0
      exact ⟨first, by simp, le_refl _, by omega, fun i a b => by omega, fun i a b => by omega⟩
    · rw [if_neg h0]
      have hm : first + len / 2 < n := by
        have : len / 2 < len := Nat.div_lt_self (Nat.pos_of_ne_zero h0) (by norm_num)
        omega
      rw [hrd _ hm]
      simp only []
      by_cases hc : r (first + len / 2) < v
      · have hc' : Num.lt (r (first + len / 2)) v = true := by calc_simp; exact hc
        rw [if_pos hc']
        obtain ⟨p, hp, h1, h2, h3, h4⟩ := ih (len - (len / 2 + 1)) (by omega)
          (first + len / 2 + 1) (by omega)
        refine ⟨p, hp, by omega, by omega, ?_, ?_⟩
        · intro i hi1 hi2
          by_cases hle' : i ≤ first + len / 2
          · exact lt_of_le_of_lt (hmono i _ hle' hm) hc
          · exact h3 i (by omega) hi2
        · intro i hi1 hi2
          exact h4 i hi1 (by omega)
      · have hc' : ¬ (Num.lt (r (first + len / 2)) v = true) := by calc_simp; exact hc
        rw [if_neg hc']
        obtain ⟨p, hp, h1, h2, h3, h4⟩ := ih (len / 2)
          (Nat.div_lt_self (Nat.pos_of_ne_zero h0) (by norm_num)) first (by omega)
        refine ⟨p, hp, h1, by omega, h3, ?_⟩
        intro i hi1 hi2
        by_cases hlt : i < first + len / 2
        · exact h4 i hi1 hlt
        · exact le_trans (not_lt.mp hc) (hmono _ i (by omega) (by omega))

/-- `NonuniformGrid::find` on a strictly increasing table: the bin containing the value -/
theorem nonuniformFind_spec (rd : ℕ → Option ℝ) (r : ℕ → ℝ) (n : ℕ)
    (hrd : ∀ i, i < n → rd i = some (r i))
    (hstrict : ∀ i j, i < j → j < n → r i < r j) (v : ℝ)
    (h1 : r 0 ≤ v) (h2 : v < r (n - 1)) :
    ∃ k, nonuniformFind rd n v = some k ∧ k + 1 < n ∧ r k ≤ v ∧ v < r (k + 1) := by
  have hmono : ∀ i j, i ≤ j → j < n → r i ≤ r j := by
    intro i j hij hj
    rcases Nat.lt_or_eq_of_le hij with h | h
    · exact le_of_lt (hstrict i j h hj)
    · rw [h]
  have hn : 2 ≤ n := by
    by_contra hh
    have : n - 1 = 0 := by omega
    rw [this] at h2; linarith
  obtain ⟨p, hp, _, hpn, hlo, hhi⟩ := lowerBoundLoop_spec rd r n hrd hmono v n 0 (by omega)
  have hpn' : p < n := by
    by_contra hh
    have := hlo (n - 1) (by omega) (by omega)
    linarith
  have hvp : v ≤ r p := hhi p (le_refl _) (by omega)
  unfold nonuniformFind
  rw [hp]
  simp only []
  rw [hrd p hpn']
  simp only []
  by_cases heq : v = r p
  · have hne : ¬ (Num.ne v (r p) = true) := by calc_simp; simp [heq]
    rw [if_neg hne]
    have hp1 : p + 1 < n := by
      by_contra hh
      have : p = n - 1 := by omega
      rw [heq, this] at h2; linarith
    exact ⟨p, rfl, hp1, le_of_eq heq.symm, by rw [heq]; exact hstrict p (p + 1) (by omega) hp1⟩
  · have hne : Num.ne v (r p) = true := by calc_simp; simpa using heq
    rw [if_pos hne]
    have hp0 : 0 < p := by
      by_contra hh
      have : p = 0 := by omega
      subst this
      exact heq (le_antisymm hvp h1)
    refine ⟨p - 1, rfl, by omega, le_of_lt (hlo (p - 1) (by omega) (by omega)), ?_⟩
    have : p - 1 + 1 = p := by omega
    rw [this]
    exact lt_of_le_of_ne hvp heq

/-! ### RangeCalculator closed forms -/
namespace XsGrid.WF
variable {d : XsGrid ℝ} (w : d.WF)
include w

theorem range_below {e : ℝ} (h : Real.log e ≤ d.grid.front) :
    d.range floorIdx e = some (d.y 0 * Real.exp (1 / 2 * (Real.log e - d.grid.front))) := by
  unfold XsGrid.range
  have h0 : 0 < d.size := by have := w.size_ge; omega
  calc_simp
  rw [if_pos h, w.get_eq h0, half_real]
  simp only [Option.map_some]

theorem range_above {e : ℝ} (h : d.grid.back ≤ Real.log e) :
    d.range floorIdx e = some (d.y (d.size - 1)) := by
  unfold XsGrid.range
  have h0 : d.size - 1 < d.size := by have := w.size_ge; omega
  have hnot : ¬ Real.log e ≤ d.grid.front := by have := w.grid.lt; linarith
  calc_simp
  rw [if_neg hnot, if_pos h, w.gsize, w.get_eq h0]

theorem range_bin {e : ℝ} (h1 : d.grid.front < Real.log e) (h2 : Real.log e < d.grid.back) :
    d.range floorIdx e
      = some (lerp (d.en (d.grid.find floorIdx (Real.log e)))
          (d.y (d.grid.find floorIdx (Real.log e)))
          (d.en (d.grid.find floorIdx (Real.log e) + 1))
          (d.y (d.grid.find floorIdx (Real.log e) + 1)) e) := by
  unfold XsGrid.range XsGrid.en
  obtain ⟨_, _, hk⟩ := w.grid.find_bracket (Real.log e) (le_of_lt h1) h2
  rw [w.gsize] at hk
  calc_simp
  rw [if_neg (not_le.mpr h1), if_neg (not_le.mpr h2), w.get_eq hk, w.get_eq (by omega)]

/-! ### InverseRangeCalculator closed forms -/

theorem invRange_below {r : ℝ} (h : r < d.y 0) :
    d.invRange r = some (Real.exp d.grid.front * ((r / d.y 0) * (r / d.y 0))) := by
  unfold XsGrid.invRange
  have hs := w.size_ge
  rw [w.get_eq (show 0 < d.size by omega), w.get_eq (show d.size - 1 < d.size by omega)]
  calc_simp
  rw [if_pos h]

theorem invRange_above {r : ℝ} (hi : d.Incr) (h : d.y (d.size - 1) ≤ r) :
    d.invRange r = some (Real.exp d.grid.back) := by
  unfold XsGrid.invRange
  have hs := w.size_ge
  rw [w.get_eq (show 0 < d.size by omega), w.get_eq (show d.size - 1 < d.size by omega)]
  have : ¬ r < d.y 0 := by
    have := hi.mono (show 0 ≤ d.size - 1 by omega) (by omega)
    linarith
  calc_simp
  rw [if_neg this, if_pos h]

theorem invRange_bin {r : ℝ} (hi : d.Incr) (h1 : d.y 0 ≤ r) (h2 : r < d.y (d.size - 1)) :
    ∃ k, k + 1 < d.size ∧ d.y k ≤ r ∧ r < d.y (k + 1) ∧
      d.invRange r = some (lerp (d.y k) (d.en k) (d.y (k + 1)) (d.en (k + 1)) r) := by
  have hs := w.size_ge
  obtain ⟨k, hk, hk1, hb1, hb2⟩ := nonuniformFind_spec d.get d.y d.size
    (fun i hi' => w.get_eq hi') (fun i j hij hj => hi.strict hij hj) r h1 h2
  refine ⟨k, hk1, hb1, hb2, ?_⟩
  unfold XsGrid.invRange XsGrid.en
  rw [w.get_eq (show 0 < d.size by omega), w.get_eq (show d.size - 1 < d.size by omega)]
  calc_simp
  rw [if_neg (not_lt.mpr h1), if_neg (not_le.mpr h2), hk]
  simp only []
  rw [w.get_eq (show k < d.size by omega), w.get_eq hk1]

end XsGrid.WF

end CelerVerif.Calc
