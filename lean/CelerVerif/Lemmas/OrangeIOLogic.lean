/-
C19 helper lemmas, part 2: `string_to_logic (logic_to_string l) = l`.
-/
import CelerVerif.Lemmas.OrangeIOBasic

namespace CelerVerif.OrangeIO
open CelerVerif.Json

/-- postfix-logic tokens that `string_to_logic` can read back: face ids below `lbegin`, and the
    four operators `* | & ~` (not `(`, `)` nor `lend`) -/
def tokenOK (v : UInt64) : Prop :=
  v < lbeginW ∨ v ∈ Generated.OrangeIO.parsedTokens.map (fun p => UInt64.ofNat p.2)
instance (v : UInt64) : Decidable (tokenOK v) := by unfold tokenOK; infer_instance

theorem digit_facts : ∀ d, d < 10 →
    isDigitC (Char.ofNat (48 + d)) = true ∧ digitVal (Char.ofNat (48 + d)) = UInt64.ofNat d := by
  decide

theorem decDigits_lt (n : Nat) (h : n < 10) : decDigits n = [Char.ofNat (48 + n)] := by
  rw [decDigits]; simp [h]

theorem decDigits_ge (n : Nat) (h : ¬ n < 10) :
    decDigits n = decDigits (n / 10) ++ [Char.ofNat (48 + n % 10)] := by
  rw [decDigits]; simp [h]

theorem parse_digit_reading (d : Nat) (hd : d < 10) (rest : List Char) (s : UInt64) :
    parseLogic (Char.ofNat (48 + d) :: rest) s true = parseLogic rest (10 * s + UInt64.ofNat d) true := by
  obtain ⟨h1, h2⟩ := digit_facts d hd
  simp [parseLogic, h1, h2]

theorem parse_digit_start (d : Nat) (hd : d < 10) (rest : List Char) (s : UInt64) :
    parseLogic (Char.ofNat (48 + d) :: rest) s false = parseLogic rest (UInt64.ofNat d) true := by
  obtain ⟨h1, h2⟩ := digit_facts d hd
  simp [parseLogic, h1, h2]

theorem ofNat_digits (n : Nat) :
    10 * UInt64.ofNat (n / 10) + UInt64.ofNat (n % 10) = UInt64.ofNat n := by
  have h : (10 : UInt64) = UInt64.ofNat 10 := rfl
  rw [h, ← UInt64.ofNat_mul, ← UInt64.ofNat_add]
  congr 1
  omega

/-- a decimal number read from the non-reading state leaves (surf = n mod 2^64, reading) -/
theorem parse_decDigits (n : Nat) : ∀ (rest : List Char) (s : UInt64),
    parseLogic (decDigits n ++ rest) s false = parseLogic rest (UInt64.ofNat n) true := by
  induction n using Nat.strongRecOn with
  | _ n ih =>
    intro rest s
    by_cases h : n < 10
    · rw [decDigits_lt n h]
      exact parse_digit_start n h rest s
    · rw [decDigits_ge n h, List.append_assoc, ih (n / 10) (by omega)]
      simp only [List.singleton_append]
      rw [parse_digit_reading _ (by omega), ofNat_digits]

theorem parse_end_reading (v : UInt64) : parseLogic [] v true = .ok [v] := rfl

theorem space_facts : isDigitC ' ' = false ∧ tokenOfChar ' ' = none := by decide

theorem parse_space (more : List Char) (s : UInt64) (reading : Bool) :
    parseLogic (' ' :: more) s reading =
      bindR (parseLogic more s false) fun r => .ok ((if reading then [s] else []) ++ r) := by
  obtain ⟨h1, h2⟩ := space_facts
  simp [parseLogic, h1, h2]

/-- operator tokens print as one char that is read back as the same token -/
theorem op_facts : ∀ p ∈ Generated.OrangeIO.parsedTokens,
    tokenChars (UInt64.ofNat p.2) = [p.1] ∧ isDigitC p.1 = false ∧
    tokenOfChar p.1 = some (UInt64.ofNat p.2) := by decide

/-- surf register after reading token `t` -/
def nextSurf (t s : UInt64) : UInt64 := if t < lbeginW then t else s

theorem parse_token_then_space (t : UInt64) (ht : tokenOK t) (more : List Char) (s : UInt64) :
    parseLogic (tokenChars t ++ ' ' :: more) s false =
      bindR (parseLogic more (nextSurf t s) false) fun r => .ok (t :: r) := by
  rcases ht with h | h
  · have hnot : ¬ lbeginW ≤ t := by
      intro h'; exact absurd h (UInt64.not_lt.mpr h')
    simp only [tokenChars, hnot, if_false, nextSurf, h, if_true]
    rw [parse_decDigits, parse_space]
    simp
  · simp only [List.mem_map] at h
    obtain ⟨p, hp, rfl⟩ := h
    obtain ⟨h1, h2, h3⟩ := op_facts p hp
    have hge : ¬ UInt64.ofNat p.2 < lbeginW := by
      revert p; decide
    rw [h1]
    simp only [List.singleton_append, nextSurf, hge, if_false]
    rw [parseLogic]
    simp only [h2, h3, Bool.false_eq_true, if_false]
    rw [parse_space]
    cases parseLogic more s false <;> simp [bindR]

theorem parse_token_end (t : UInt64) (ht : tokenOK t) (s : UInt64) :
    parseLogic (tokenChars t) s false = .ok [t] := by
  rcases ht with h | h
  · have hnot : ¬ lbeginW ≤ t := by
      intro h'; exact absurd h (UInt64.not_lt.mpr h')
    simp only [tokenChars, hnot, if_false]
    have := parse_decDigits t.toNat [] s
    simp only [List.append_nil] at this
    rw [this]
    simp [parse_end_reading]
  · simp only [List.mem_map] at h
    obtain ⟨p, hp, rfl⟩ := h
    obtain ⟨h1, h2, h3⟩ := op_facts p hp
    rw [h1, parseLogic]
    simp [h2, h3, parseLogic]

theorem parseLogic_logicToChars (l : List UInt64) (h : ∀ t ∈ l, tokenOK t) :
    ∀ s, parseLogic (logicToChars l) s false = .ok l := by
  unfold logicToChars
  induction l with
  | nil => intro s; rfl
  | cons t ts ih =>
    intro s
    cases ts with
    | nil => simpa [joinSp] using parse_token_end t (h t (by simp)) s
    | cons t' ts' =>
      have ih' := ih (fun x hx => h x (by simp [hx]))
      simp only [List.map_cons, joinSp] at ih' ⊢
      rw [parse_token_then_space t (h t (by simp)), ih']
      simp

/-- C10.7: the logic token string round-trips for every readable token list -/
theorem stringToLogic_logicToString (l : List UInt64) (h : ∀ t ∈ l, tokenOK t) :
    stringToLogic (logicToString l) = .ok l := by
  simp [stringToLogic, logicToString, parseLogic_logicToChars l h 0]

end CelerVerif.OrangeIO
