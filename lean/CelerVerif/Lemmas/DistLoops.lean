/-
Loops of the samplers at ℝ: what a returned value satisfies, and where in the script the loop
stops ("first position whose acceptance predicate holds").
-/
import CelerVerif.Lemmas.DistSimple

namespace CelerVerif.Dist
open CelerVerif

/-! ### NormalDistribution -/
theorem normal_eval_spare (n : Normal ℝ) (sp : ℝ) (h : n.spare = some sp) (s : List ℝ) :
    n.sample s = some (sp * n.stddev + n.mean, { n with spare := none }, s) := by
  unfold Normal.sample; rw [h]; dist_simp

theorem normal_eval_fresh (n : Normal ℝ) (h : n.spare = none) (u1 u2 : ℝ) (rest : List ℝ) :
    n.sample (u1 :: u2 :: rest) =
      some (Real.sqrt (-2 * Real.log u2) * Real.sin (twopi * u1) * n.stddev + n.mean,
            { n with spare := some (Real.sqrt (-2 * Real.log u2) * Real.cos (twopi * u1)) },
            rest) := by
  unfold Normal.sample; rw [h]; dist_simp

theorem normal_fresh_short (n : Normal ℝ) (h : n.spare = none) (s : List ℝ) (hs : s.length < 2) :
    n.sample s = none := by
  unfold Normal.sample; rw [h]
  match s, hs with
  | [], _ => rfl
  | [_], _ => rfl

/-! ### Poisson, direct method -/
theorem direct_spec (s : List ℝ) : ∀ (k : ℕ) (p : ℝ) (n : ℕ) (rest : List ℝ),
    Poisson.direct k p s = some (n, rest) →
    ∃ pre, s = pre ++ rest ∧ pre.length = n - k + 1 ∧ k ≤ n ∧ p * pre.prod ≤ 1 ∧
      ∀ j, 0 < j → j < pre.length → 1 < p * (pre.take j).prod := by
  induction s with
  | nil => intro k p n rest h; simp [Poisson.direct] at h
  | cons u us ih =>
    intro k p n rest h
    simp only [Poisson.direct] at h
    dist_simp at h
    split_ifs at h with hc
    · obtain ⟨pre, hs, hl, hk, hp, hj⟩ := ih (k + 1) (p * u) n rest h
      refine ⟨u :: pre, by simp [hs], by simp [hl]; omega, by omega, ?_, ?_⟩
      · simp only [List.prod_cons]; linarith [hp, mul_assoc p u pre.prod]
      · intro j hj0 hjl
        cases j with
        | zero => omega
        | succ j =>
          simp only [List.take_succ_cons, List.prod_cons]
          by_cases hj1 : j = 0
          · subst hj1; simpa using hc
          · have := hj j (by omega) (by simpa using hjl)
            linarith [mul_assoc p u (pre.take j).prod]
    · simp only [Option.some.injEq, Prod.mk.injEq] at h
      obtain ⟨hn, hr⟩ := h
      subst hn; subst hr
      refine ⟨[u], by simp, by simp, le_refl _, by simpa using not_lt.mp hc, ?_⟩
      intro j hj0 hjl; simp at hjl; omega

/-- the direct loop stops as soon as the running product is ≤ 1 -/
theorem direct_terminates (s : List ℝ) : ∀ (k : ℕ) (p : ℝ),
    (∃ j, 0 < j ∧ j ≤ s.length ∧ p * (s.take j).prod ≤ 1) →
    ∃ n rest, Poisson.direct k p s = some (n, rest) := by
  induction s with
  | nil => intro k p ⟨j, h0, hl, _⟩; simp at hl; omega
  | cons u us ih =>
    intro k p ⟨j, h0, hl, hp⟩
    simp only [Poisson.direct]
    dist_simp
    split_ifs with hc
    · cases j with
      | zero => omega
      | succ j =>
        simp only [List.take_succ_cons, List.prod_cons] at hp
        apply ih
        refine ⟨j, ?_, by simpa using hl, by linarith [mul_assoc p u (us.take j).prod]⟩
        rcases Nat.eq_zero_or_pos j with hj | hj
        · subst hj; simp at hp; linarith
        · exact hj
    · exact ⟨k, us, rfl⟩

/-! ### TsaiUrban -/
/-- every complete triple of the list was rejected (`u > umax`) -/
def tsaiRejected (umax : ℝ) : List ℝ → Prop
  | [] => True
  | u1 :: u2 :: u3 :: t => umax < tsaiU u1 u2 u3 ∧ tsaiRejected umax t
  | _ => False

theorem tsai_spec (umax : ℝ) (s : List ℝ) : ∀ (x : ℝ) (rest : List ℝ),
    tsaiUrban umax s = some (x, rest) →
    ∃ pre u1 u2 u3, s = pre ++ u1 :: u2 :: u3 :: rest ∧ tsaiRejected umax pre ∧
      tsaiU u1 u2 u3 ≤ umax ∧
      x = 1 - 2 * ((tsaiU u1 u2 u3 / umax) * (tsaiU u1 u2 u3 / umax)) := by
  fun_induction tsaiUrban umax s with
  | case1 u1 u2 u3 rest u hgt ih =>
    intro x r h
    obtain ⟨pre, a, b, c, hs, hr, hle, hx⟩ := ih x r h
    refine ⟨u1 :: u2 :: u3 :: pre, a, b, c, by simp [hs], ⟨?_, hr⟩, hle, hx⟩
    dist_simp at hgt; exact hgt
  | case2 u1 u2 u3 rest u hgt =>
    intro x r h
    simp only [Option.some.injEq, Prod.mk.injEq] at h
    obtain ⟨hx, hr⟩ := h
    subst hr
    refine ⟨[], u1, u2, u3, rfl, trivial, ?_, ?_⟩
    · dist_simp at hgt; exact not_lt.mp hgt
    · rw [← hx]; dist_simp; rfl
  | case3 s hne => intro x r h; simp at h

/-! ### RejectionSampler loop -/
/-- every complete (proposal, test) pair of the list was rejected -/
def pairsRejected (f : ℝ → ℝ) (a b fmax : ℝ) : List ℝ → Prop
  | [] => True
  | u1 :: u2 :: t => f ((b - a) * u1 + a) < fmax * u2 ∧ pairsRejected f a b fmax t
  | _ => False

theorem rejectionLoop_spec (f : ℝ → ℝ) (a b fmax : ℝ) (s : List ℝ) : ∀ (x : ℝ) (rest : List ℝ),
    rejectionLoop f (UniformReal.mk' a b) fmax s = some (x, rest) →
    ∃ pre u1 u2, s = pre ++ u1 :: u2 :: rest ∧ pairsRejected f a b fmax pre ∧
      x = (b - a) * u1 + a ∧ fmax * u2 ≤ f x := by
  fun_induction rejectionLoop f (UniformReal.mk' a b) fmax s with
  | case1 u1 u2 rest x0 hlt ih =>
    intro x r h
    obtain ⟨pre, c, d, hs, hr, hx, hacc⟩ := ih x r h
    refine ⟨u1 :: u2 :: pre, c, d, by simp [hs], ⟨?_, hr⟩, hx, hacc⟩
    dist_simp at hlt; exact hlt
  | case2 u1 u2 rest x0 hlt =>
    intro x r h
    simp only [Option.some.injEq, Prod.mk.injEq] at h
    obtain ⟨hx, hr⟩ := h
    subst hr
    have hx0 : x0 = (b - a) * u1 + a := by
      show Num.fma (UniformReal.mk' a b).delta u1 (UniformReal.mk' a b).a = _
      simp only [UniformReal.mk']; dist_simp
    refine ⟨[], u1, u2, rfl, trivial, by rw [← hx, hx0], ?_⟩
    dist_simp at hlt
    rw [← hx]; exact not_lt.mp hlt
  | case3 s hne => intro x r h; simp at h

/-! ### Gamma -/
theorem gamma_inner_pos (c : ℝ) : ∀ (fuel : ℕ) (n : Normal ℝ) (s : List ℝ) (z v : ℝ)
    (n' : Normal ℝ) (s' : List ℝ),
    Gamma.inner c fuel n s = some (z, v, n', s') → 0 < v ∧ v = 1 + c * z := by
  intro fuel
  induction fuel with
  | zero => intro n s z v n' s' h; simp [Gamma.inner] at h
  | succ fuel ih =>
    intro n s z v n' s' h
    simp only [Gamma.inner] at h
    split at h
    · simp at h
    · next z0 n0 s0 heq =>
      dist_simp at h
      split_ifs at h with hc
      · exact ih _ _ _ _ _ _ h
      · simp only [Option.some.injEq, Prod.mk.injEq] at h
        obtain ⟨hz, hv, _, _⟩ := h
        subst hz; subst hv
        exact ⟨not_le.mp hc, rfl⟩

theorem gamma_outer_spec (g : Gamma ℝ) : ∀ (fuel : ℕ) (n : Normal ℝ) (s : List ℝ) (v3 : ℝ)
    (n' : Normal ℝ) (s' : List ℝ),
    Gamma.outer g fuel n s = some (v3, n', s') →
    ∃ z v u, 0 < v ∧ v = 1 + g.c * z ∧ v3 = v * v * v ∧ Gamma.accept g.d z v3 u = true := by
  intro fuel
  induction fuel with
  | zero => intro n s v3 n' s' h; simp [Gamma.outer] at h
  | succ fuel ih =>
    intro n s v3 n' s' h
    simp only [Gamma.outer] at h
    split at h
    · simp at h
    · next z v n0 s0 heq =>
      obtain ⟨hv, hvz⟩ := gamma_inner_pos _ _ _ _ _ _ _ _ heq
      split at h
      · simp at h
      · next u s1 =>
        split_ifs at h with hacc
        · simp only [Option.some.injEq, Prod.mk.injEq] at h
          obtain ⟨h3, _, _⟩ := h
          exact ⟨z, v, u, hv, hvz, by rw [← h3, ipow3_real], by rw [← h3]; exact hacc⟩
        · exact ih _ _ _ _ _ h

/-- reading of the acceptance test at ℝ -/
theorem gamma_accept_iff (d z v3 u : ℝ) :
    Gamma.accept d z v3 u = true ↔
      (u ≤ 1 - 331 / 10000 * ((z * z) * (z * z)) ∨
       Real.log u ≤ 1 / 2 * (z * z) + d * (1 - v3 + Real.log v3)) := by
  unfold Gamma.accept
  rw [ipow4_real, Bool.not_eq_true', Bool.and_eq_false_imp]
  simp only [Num.gt]
  dist_simp
  constructor
  · intro h
    by_cases h1 : 1 - 331 / 10000 * (z * z * (z * z)) < u
    · right; exact h h1
    · left; exact not_lt.mp h1
  · rintro (h | h) h1
    · linarith
    · exact h

/-! ### energy-loss Gaussian loop -/
theorem elossGaussLoop_spec (maxLoss : ℝ) : ∀ (fuel : ℕ) (n : Normal ℝ) (s : List ℝ) (x : ℝ)
    (rest : List ℝ), elossGaussLoop maxLoss fuel n s = some (x, rest) → 0 < x ∧ x ≤ maxLoss := by
  intro fuel
  induction fuel with
  | zero => intro n s x rest h; simp [elossGaussLoop] at h
  | succ fuel ih =>
    intro n s x rest h
    simp only [elossGaussLoop] at h
    split at h
    · simp at h
    · next x0 n0 s0 heq =>
      split_ifs at h with hc
      · exact ih _ _ _ _ h
      · simp only [Option.some.injEq, Prod.mk.injEq] at h
        obtain ⟨hx, _⟩ := h
        subst hx
        dist_simp at hc
        rw [not_or] at hc
        exact ⟨not_le.mp hc.1, not_lt.mp hc.2⟩

/-! ### Selector -/
theorem selectLoop_bounds (ws : List ℝ) : ∀ (acc : ℝ) (i : ℕ),
    i ≤ selectLoop acc i ws ∧ selectLoop acc i ws ≤ i + ws.length := by
  induction ws with
  | nil => intro acc i; simp [selectLoop]
  | cons w ws ih =>
    intro acc i
    simp only [selectLoop]
    split_ifs
    · simp
    · have := ih (acc + w) (i + 1)
      simp only [List.length_cons]
      constructor <;> omega

/-- the loop returns the first position whose running sum is positive (or the end) -/
theorem selectLoop_spec (ws : List ℝ) : ∀ (acc : ℝ) (i : ℕ),
    let r := selectLoop acc i ws - i
    (∀ m, m < r → acc + (ws.take (m + 1)).sum ≤ 0) ∧
    (r < ws.length → 0 < acc + (ws.take (r + 1)).sum) := by
  induction ws with
  | nil => intro acc i; simp [selectLoop]
  | cons w ws ih =>
    intro acc i
    simp only [selectLoop]
    dist_simp
    split_ifs with hc
    · simp only [Nat.sub_self, List.length_cons]
      refine ⟨fun m hm => by omega, fun _ => by simpa using hc⟩
    · obtain ⟨h1, h2⟩ := ih (acc + w) (i + 1)
      have hb := (selectLoop_bounds ws (acc + w) (i + 1)).1
      have e : selectLoop (acc + w) (i + 1) ws - i = (selectLoop (acc + w) (i + 1) ws - (i + 1)) + 1 := by
        omega
      simp only [e, List.length_cons]
      constructor
      · intro m hm
        cases m with
        | zero => simpa using not_lt.mp hc
        | succ m =>
          have := h1 m (by omega)
          simp only [List.take_succ_cons, List.sum_cons]
          linarith
      · intro hr
        have := h2 (by omega)
        simp only [List.take_succ_cons, List.sum_cons]
        linarith

end CelerVerif.Dist
