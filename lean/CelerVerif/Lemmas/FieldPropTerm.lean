/-
Field propagation at ℝ: induction over the loop — termination measure, invariant at exit,
geometry-move bookkeeping, accepted-substep count, provenance of the momentum.
-/
import CelerVerif.Lemmas.FieldPropLoop
import Mathlib.Tactic.Linarith
import Mathlib.Tactic.Ring
import Mathlib.Tactic.Positivity

set_option linter.unusedSimpArgs false
set_option linter.unusedVariables false

namespace CelerVerif.FieldProp
open CelerVerif

theorem cont_iff (c : Cfg ℝ) (s : PState ℝ) :
    cont c s = true ↔ c.minSub < s.remaining ∧ 0 < s.remSub := by
  unfold cont
  simp only [Bool.and_eq_true, NumR.gt_real, decide_eq_true_eq, gt_iff_lt]

/-! ### termination measure -/

/-- Under the contracts the loop executes at most `n·(A+K+1) + a + k + 1` further iterations
    from a state with `remSub = n+1`, `remaining ≤ a·(δ/κ)` and `remaining ≤ m·2^k`, where
    `step ≤ A·(δ/κ)` and `step ≤ m·2^K`. -/
theorem iters_bound (c : Cfg ℝ) (hc : CfgOK c) (κ : ℝ) (hκ : 1 ≤ κ) (A K : ℕ)
    (hA : c.step ≤ A * (c.deltaInt / κ)) (hK : c.step ≤ c.minSub * 2 ^ K) :
    ∀ (as : List (Answer ℝ)) (s : PState ℝ) (a' k' n : ℕ), Inv c s → s.remSub = (n : ℤ) + 1 →
      s.remaining ≤ a' * (c.deltaInt / κ) → s.remaining ≤ c.minSub * 2 ^ k' →
      (∀ it ∈ loopIters c s as, AnsOK c κ it.pre it.ans) →
      (loopIters c s as).length ≤ n * (A + K + 1) + a' + k' + 1 := by
  have hκ0 : 0 < κ := lt_of_lt_of_le one_pos hκ
  have hδκ : 0 < c.deltaInt / κ := div_pos hc.delta_pos hκ0
  have hm := hc.min_pos
  intro as
  induction as with
  | nil => intro s a' k' n _ _ _ _ _; simp [loopIters]
  | cons a rest ih =>
    intro s a' k' n hi hn ha hk hall
    have hr : 0 < s.remSub := by omega
    simp only [loopIters] at hall ⊢
    have hok : AnsOK c κ s a := hall _ (List.mem_cons_self)
    by_cases hcont : cont c (body c s a).1 = true
    · simp only [hcont, if_true, List.length_cons] at hall ⊢
      have hall' : ∀ it ∈ loopIters c (body c s a).1 rest, AnsOK c κ it.pre it.ans :=
        fun it hit => hall it (List.mem_cons_of_mem _ hit)
      have hinv := inv_body c hc κ hκ s a hi hr hok
      obtain ⟨hc1, hc2⟩ := (cont_iff c _).mp hcont
      rcases branchOf_cases c s a with ⟨hbr, hb⟩ | ⟨hbr, hb, hsb, hd⟩ | ⟨hbr, hb, hnb, hcc⟩
          | ⟨hbr, hb, hnb, hcc⟩
      · -- accept
        rw [body_accept c s a hbr] at hinv hc1 hc2 hall' ⊢
        simp only at hc1 hc2
        obtain ⟨n', rfl⟩ : ∃ n', n = n' + 1 := ⟨n - 1, by omega⟩
        have hrem : c.step - (s.distance + a.sub.step) ≤ c.step := by
          have := hi.dist_nonneg; have := hok.sub_pos; linarith
        have := ih _ A K n' hinv (by simp only; push_cast at hn ⊢; omega)
          (by simp only; linarith) (by simp only; linarith) hall'
        have e : (n' + 1) * (A + K + 1) = n' * (A + K + 1) + A + K + 1 := by ring
        omega
      · -- retry with half the substep
        rw [body_retry c s a hbr] at hinv hc1 hc2 hall' ⊢
        simp only at hc1 hc2
        have hsub := hok.sub_le
        have hk1 : 1 ≤ k' := by
          by_contra hk0
          have : k' = 0 := by omega
          subst this
          simp only [pow_zero, mul_one] at hk
          linarith
        obtain ⟨k'', rfl⟩ : ∃ k'', k' = k'' + 1 := ⟨k' - 1, by omega⟩
        have hk'' : a.sub.step / 2 ≤ c.minSub * 2 ^ k'' := by
          rw [pow_succ] at hk; linarith
        have := ih _ a' k'' n hinv (by simp only; exact hn) (by simp only; linarith)
          (by simp only; exact hk'') hall'
        omega
      · -- commit: remaining = 0, the loop cannot continue
        obtain ⟨b, _, hbody⟩ := body_commit c s a hbr
        rw [hbody] at hc1
        simp only at hc1
        linarith
      · -- shorten
        rw [body_shorten c s a hbr] at hinv hc1 hc2 hall' ⊢
        simp only at hc1 hc2
        have hdec := shorten_decrease c hc κ hκ s a hok hb hcc
        have hsub := hok.sub_le
        have ha1 : 1 ≤ a' := by
          by_contra ha0
          have : a' = 0 := by omega
          subst this
          simp only [Nat.cast_zero, zero_mul] at ha
          linarith
        obtain ⟨a'', rfl⟩ : ∃ a'', a' = a'' + 1 := ⟨a' - 1, by omega⟩
        have ha'' : updateLength s a ≤ a'' * (c.deltaInt / κ) := by
          push_cast at ha; linarith
        have := ih _ a'' k' n hinv (by simp only; exact hn) (by simp only; exact ha'')
          (by simp only; linarith) hall'
        omega
    · simp only [hcont, Bool.false_eq_true, if_false, List.length_cons, List.length_nil]
      omega

/-- when the recorded answers run out, all of them were consumed -/
theorem loop_none_length (c : Cfg ℝ) : ∀ (as : List (Answer ℝ)) (s : PState ℝ),
    loop c s as = none → (loopIters c s as).length = as.length := by
  intro as
  induction as with
  | nil => intro s _; simp [loopIters]
  | cons a rest ih =>
    intro s h
    simp only [loop, loopIters] at h ⊢
    by_cases hcont : cont c (body c s a).1 = true
    · simp only [hcont, if_true] at h ⊢
      cases hl : loop c (body c s a).1 rest with
      | none => simp [ih _ hl]
      | some v => rw [hl] at h; simp at h
    · simp only [hcont, Bool.false_eq_true, if_false] at h
      simp at h

/-- a finished loop executed exactly `loopIters` -/
theorem loop_some_iters (c : Cfg ℝ) : ∀ (as : List (Answer ℝ)) (s : PState ℝ) its f left,
    loop c s as = some (its, f, left) → its = loopIters c s as := by
  intro as
  induction as with
  | nil => intro s its f left h; simp [loop] at h
  | cons a rest ih =>
    intro s its f left h
    simp only [loop, loopIters] at h ⊢
    by_cases hcont : cont c (body c s a).1 = true
    · simp only [hcont, if_true] at h ⊢
      cases hl : loop c (body c s a).1 rest with
      | none => rw [hl] at h; simp at h
      | some v =>
        obtain ⟨its', f', left'⟩ := v
        rw [hl] at h
        simp only [Option.some.injEq, Prod.mk.injEq] at h
        obtain ⟨rfl, rfl, rfl⟩ := h
        rw [ih _ _ _ _ hl]
    · simp only [hcont, Bool.false_eq_true, if_false, Option.some.injEq, Prod.mk.injEq] at h ⊢
      obtain ⟨rfl, _, _⟩ := h
      rfl

/-! ### geometry moves -/

/-- the last position-changing geometry call: `some true` = move_to_boundary,
    `some false` = move_internal, start value if there is none -/
def lastMoveAux (m : Option Bool) (ops : List (GeoOp ℝ)) : Option Bool :=
  ops.foldl (fun acc op => match op with
    | .moveInternal _ => some false
    | .moveToBoundary _ => some true
    | _ => acc) m

def lastMove (ops : List (GeoOp ℝ)) : Option Bool := lastMoveAux none ops

theorem lastMoveAux_append (m : Option Bool) (x y : List (GeoOp ℝ)) :
    lastMoveAux m (x ++ y) = lastMoveAux (lastMoveAux m x) y := by
  unfold lastMoveAux; rw [List.foldl_append]

theorem lastMoveAux_preOps (c : Cfg ℝ) (s : PState ℝ) (sub : DriverResult ℝ) (m : Option Bool) :
    lastMoveAux m (preOps c s sub) = m := by
  unfold preOps lastMoveAux
  dsimp only
  split_ifs <;> simp

/-- the ghost track view's on-boundary flag after the calls is the kind of the last move -/
theorem ghost_onBoundary : ∀ (ops : List (GeoOp ℝ)) (g : Ghost ℝ) (m : Option Bool),
    (∀ b, m = some b → g.onBoundary = b) →
    ∀ b, lastMoveAux m ops = some b → (g.run ops).onBoundary = b := by
  intro ops
  induction ops with
  | nil => intro g m h b hb; simpa [lastMoveAux, Ghost.run] using h b hb
  | cons op rest ih =>
    intro g m h b hb
    unfold lastMoveAux at hb
    simp only [List.foldl_cons] at hb
    unfold Ghost.run
    simp only [List.foldl_cons]
    cases op with
    | setDir d => exact ih _ m (by simpa [Ghost.apply] using h) b hb
    | findNext x => exact ih _ m (by simpa [Ghost.apply] using h) b hb
    | moveInternal p =>
      exact ih _ (some false) (by intro b' hb'; simp [Ghost.apply] at hb' ⊢; exact hb') b hb
    | moveToBoundary p =>
      exact ih _ (some true) (by intro b' hb'; simp [Ghost.apply] at hb' ⊢; exact hb') b hb

/-- flag bookkeeping carried through the loop: if the flag is down and something has been
    travelled, the last move was a `move_internal` -/
def FlagInv (s : PState ℝ) (m : Option Bool) : Prop :=
  s.boundary = false → 0 < s.distance → m = some false

theorem flagInv_body (c : Cfg ℝ) (hc : CfgOK c) (κ : ℝ) (s : PState ℝ) (a : Answer ℝ)
    (m : Option Bool) (hi : Inv c s) (hok : AnsOK c κ s a) (hf : FlagInv s m) :
    FlagInv (body c s a).1 (lastMoveAux m (preOps c s a.sub ++ (body c s a).2)) := by
  rw [lastMoveAux_append, lastMoveAux_preOps]
  rcases branchOf_cases c s a with ⟨hbr, hb⟩ | ⟨hbr, hb, hsb, hd⟩ | ⟨hbr, hb, hnb, hcc⟩
      | ⟨hbr, hb, hnb, hcc⟩
  · rw [body_accept c s a hbr]; intro _ _; simp [lastMoveAux]
  · rw [body_retry c s a hbr]; simpa [lastMoveAux, FlagInv] using hf
  · obtain ⟨b, _, hbody⟩ := body_commit c s a hbr
    rw [hbody]
    intro hb0 _
    simp only at hb0
    subst hb0
    simp [lastMoveAux]
  · rw [body_shorten c s a hbr]; simpa [lastMoveAux, FlagInv] using hf

/-- number of accepted substeps among the iterations -/
noncomputable def accepted (c : Cfg ℝ) (its : List (Iter ℝ)) : ℕ :=
  (its.filter fun it => decide (branchOf c it.pre it.ans = .accept)).length

theorem remSub_body (c : Cfg ℝ) (s : PState ℝ) (a : Answer ℝ) :
    (body c s a).1.remSub = s.remSub - (if branchOf c s a = .accept then 1 else 0) := by
  rcases branchOf_cases c s a with ⟨hbr, hb⟩ | ⟨hbr, hb, hsb, hd⟩ | ⟨hbr, hb, hnb, hcc⟩
      | ⟨hbr, hb, hnb, hcc⟩
  · rw [body_accept c s a hbr, hbr]; simp
  · rw [body_retry c s a hbr, hbr]; simp
  · obtain ⟨b, _, hbody⟩ := body_commit c s a hbr
    rw [hbody, hbr]; simp
  · rw [body_shorten c s a hbr, hbr]; simp

/-- the momentum of the loop state is only ever copied from a driver answer -/
theorem mom_body (c : Cfg ℝ) (s : PState ℝ) (a : Answer ℝ) :
    (body c s a).1.state.mom = s.state.mom ∨ (body c s a).1.state.mom = a.sub.state.mom := by
  rcases branchOf_cases c s a with ⟨hbr, hb⟩ | ⟨hbr, hb, hsb, hd⟩ | ⟨hbr, hb, hnb, hcc⟩
      | ⟨hbr, hb, hnb, hcc⟩
  · rw [body_accept c s a hbr]; right; rfl
  · rw [body_retry c s a hbr]; left; rfl
  · obtain ⟨b, _, hbody⟩ := body_commit c s a hbr
    rw [hbody]; right; rfl
  · rw [body_shorten c s a hbr]; left; rfl

/-- everything the property theorems need about a finished loop -/
theorem loop_spec (c : Cfg ℝ) (hc : CfgOK c) (κ : ℝ) (hκ : 1 ≤ κ) :
    ∀ (as : List (Answer ℝ)) (s : PState ℝ) (m0 : Option Bool) its f left,
      Inv c s → 0 < s.remSub → FlagInv s m0 → loop c s as = some (its, f, left) →
      (∀ it ∈ its, AnsOK c κ it.pre it.ans) →
      Inv c f ∧ FlagInv f (lastMoveAux m0 (iterOps c its)) ∧ cont c f = false
        ∧ f.remSub = s.remSub - accepted c its
        ∧ (f.state.mom = s.state.mom ∨ ∃ it ∈ its, f.state.mom = it.ans.sub.state.mom)
        ∧ (f.remSub = 0 → f.boundary = false) := by
  intro as
  induction as with
  | nil => intro s m0 its f left _ _ _ h; simp [loop] at h
  | cons a rest ih =>
    intro s m0 its f left hi hr hf h hall
    simp only [loop] at h
    by_cases hcont : cont c (body c s a).1 = true
    · simp only [hcont, if_true] at h
      cases hl : loop c (body c s a).1 rest with
      | none => rw [hl] at h; simp at h
      | some v =>
        obtain ⟨its', f', left'⟩ := v
        rw [hl] at h
        simp only [Option.some.injEq, Prod.mk.injEq] at h
        obtain ⟨rfl, rfl, rfl⟩ := h
        have hok : AnsOK c κ s a := hall ⟨s, a, (body c s a).1⟩ (List.mem_cons_self)
        have hall' : ∀ it ∈ its', AnsOK c κ it.pre it.ans :=
          fun it hit => hall it (List.mem_cons_of_mem _ hit)
        have hinv := inv_body c hc κ hκ s a hi hr hok
        have hr' := ((cont_iff c _).mp hcont).2
        have hf' := flagInv_body c hc κ s a m0 hi hok hf
        obtain ⟨h1, h2, h3, h4, h5, h6⟩ := ih _ _ _ _ _ hinv hr' hf' hl hall'
        refine ⟨h1, ?_, h3, ?_, ?_, h6⟩
        · simpa [iterOps, lastMoveAux_append] using h2
        · rw [h4, remSub_body]
          unfold accepted
          simp only [List.filter_cons]
          by_cases hacc : branchOf c s a = .accept
          · simp [hacc]; ring
          · simp [hacc]
        · rcases h5 with h5 | ⟨it, hit, h5⟩
          · rcases mom_body c s a with hm | hm
            · left; rw [h5, hm]
            · right; exact ⟨⟨s, a, (body c s a).1⟩, List.mem_cons_self, by rw [h5, hm]⟩
          · right; exact ⟨it, List.mem_cons_of_mem _ hit, h5⟩
    · simp only [hcont, Bool.false_eq_true, if_false, Option.some.injEq, Prod.mk.injEq] at h
      obtain ⟨rfl, rfl, rfl⟩ := h
      have hok : AnsOK c κ s a := hall ⟨s, a, (body c s a).1⟩ (List.mem_cons_self)
      have hinv := inv_body c hc κ hκ s a hi hr hok
      have hf' := flagInv_body c hc κ s a m0 hi hok hf
      refine ⟨hinv, ?_, by simpa using hcont, ?_, ?_, ?_⟩
      · simpa [iterOps] using hf'
      · rw [remSub_body]
        unfold accepted
        simp only [List.filter_cons, List.filter_nil]
        by_cases hacc : branchOf c s a = .accept
        · simp [hacc]
        · simp [hacc]
      · rcases mom_body c s a with hm | hm
        · left; exact hm
        · right; exact ⟨⟨s, a, (body c s a).1⟩, List.mem_cons_self, hm⟩
      · -- remSub' = 0 only after an accepted substep
        intro h0
        rcases branchOf_cases c s a with ⟨hbr, hb⟩ | ⟨hbr, hb, hsb, hd⟩ | ⟨hbr, hb, hnb, hcc⟩
            | ⟨hbr, hb, hnb, hcc⟩
        · rw [body_accept c s a hbr]
        · rw [body_retry c s a hbr] at h0; simp only at h0; omega
        · obtain ⟨b, _, hbody⟩ := body_commit c s a hbr
          rw [hbody] at h0; simp only at h0; omega
        · rw [body_shorten c s a hbr] at h0; simp only at h0; omega

end CelerVerif.FieldProp
