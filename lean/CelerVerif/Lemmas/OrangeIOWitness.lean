/-
C19 helper definitions: concrete witnesses (non-vacuity and counterexamples), decidable outcome
tests, and the general fact that the reader never produces a non-default OBZ.
-/
import CelerVerif.Lemmas.OrangeIOInput

namespace CelerVerif.OrangeIO
open CelerVerif.Json

/-- "is finite" as a predicate on bit patterns: what survives `dump()`/`parse()` -/
abbrev Finite (b : F64) : Prop := isFinite b = true
/-- no restriction on doubles: the in-memory nlohmann object -/
abbrev AnyDouble (_ : F64) : Prop := True

/-- outcome tests usable with `decide` -/
def isOkEq {α : Type} [DecidableEq α] (r : R α) (x : α) : Bool :=
  match r with
  | .ok y => decide (y = x)
  | .error _ => false
def isErr {α : Type} (r : R α) (e : Err) : Bool :=
  match r with
  | .ok _ => false
  | .error e' => decide (e' = e)

theorem isOkEq_false_ne {α : Type} [DecidableEq α] {r : R α} {x : α} (h : isOkEq r x = false) :
    r ≠ .ok x := by
  intro h'; subst h'; simp [isOkEq] at h
theorem isOkEq_eq {α : Type} [DecidableEq α] {r : R α} {x : α} (h : isOkEq r x = true) :
    r = .ok x := by
  cases r with
  | ok y => simp [isOkEq] at h; rw [h]
  | error e => simp [isOkEq] at h
theorem isErr_eq {α : Type} {r : R α} {e : Err} (h : isErr r e = true) : r = .error e := by
  cases r with
  | ok y => simp [isErr] at h
  | error e' => simp [isErr] at h; rw [h]

/-- the reader never fills in `VolumeInput::obz`: whatever the JSON, a decoded volume has the
    default-constructed oriented bounding zone -/
theorem decodeVolume_obz (j : Json) (v : Volume) (h : decodeVolume j = .ok v) :
    v.obz = OBZ.default := by
  unfold decodeVolume at h
  cases h1 : bindR (j.atKey "faces") Json.getU64List with
  | error e => simp [h1] at h
  | ok faces =>
    cases h2 : decodeFlags j with
    | error e => simp [h1, h2] at h
    | ok flags =>
      cases h3 : decodeZorder j with
      | error e => simp [h1, h2, h3] at h
      | ok z =>
        simp only [h1, h2, h3, bindR_ok] at h
        split at h
        · cases h; rfl
        · cases h4 : bindR (bindR (j.atKey "logic") Json.getStr) stringToLogic with
          | error e => simp [h4] at h
          | ok lg =>
            cases h5 : getBBox j with
            | error e => simp [h4, h5] at h
            | ok bb => simp [h4, h5] at h; cases h; rfl

/-! ### `to_json` ignores the oriented bounding zones -/

/-- the input with every oriented bounding zone reset to the default-constructed one -/
def Volume.stripObz (v : Volume) : Volume := { v with obz := OBZ.default }
def UnitInput.stripObz (u : UnitInput) : UnitInput := { u with volumes := u.volumes.map Volume.stripObz }
def Universe.stripObz : Universe → Universe
  | .unit u => .unit u.stripObz
  | .rect r => .rect r
def OrangeInput.stripObz (x : OrangeInput) : OrangeInput :=
  { x with universes := x.universes.map Universe.stripObz }

theorem encodeVolume_stripObz (num : F64 → Json) (v : Volume) :
    encodeVolume num v.stripObz = encodeVolume num v := rfl

theorem encodeUnit_stripObz (num : F64 → Json) (u : UnitInput) :
    encodeUnit num u.stripObz = encodeUnit num u := by
  simp only [encodeUnit, UnitInput.stripObz, List.map_map, Function.comp_def,
    encodeVolume_stripObz]
  rfl

theorem encodeUniverse_stripObz (num : F64 → Json) (u : Universe) :
    encodeUniverse num u.stripObz = encodeUniverse num u := by
  cases u with
  | unit u => simp [Universe.stripObz, encodeUniverse, encodeUnit_stripObz]
  | rect r => rfl

theorem mapE_encode_stripObz (num : F64 → Json) (us : List Universe) :
    mapE (encodeUniverse num) (us.map Universe.stripObz) = mapE (encodeUniverse num) us := by
  induction us with
  | nil => rfl
  | cons u us ih => simp only [List.map_cons, mapE, encodeUniverse_stripObz, ih]

theorem encode_stripObz (num : F64 → Json) (x : OrangeInput) :
    encode num x.stripObz = encode num x := by
  simp [encode, OrangeInput.stripObz, mapE_encode_stripObz]

/-! ### witnesses -/

def d1 : F64 := 0x3FF0000000000000      -- 1.0
def d2 : F64 := 0x4000000000000000      -- 2.0
def dm1 : F64 := 0xBFF0000000000000     -- -1.0
def tolW : Tol := ⟨0x3EB0C6F7A0B5ED8D, 0x3EE4F8B588E368F1⟩   -- 1e-6, 1e-5 (non-default)

def landW : UInt64 := UInt64.ofNat Generated.OrangeIO.land

def wVol1 : Volume :=
  ⟨⟨"inner", "0x1"⟩, [0, 1], [0, 1, lnotW, landW], ⟨⟨dm1, dm1, dm1⟩, ⟨d1, posInf, d2⟩⟩,
   OBZ.default, 1, zMedia⟩
def wVolBg : Volume :=
  ⟨⟨"bg", ""⟩, [0], [ltrueW, lnotW], BBox.null, OBZ.default, 6, zBackground⟩
/-- a unit with three surface types, two volumes (one background), the three transform kinds,
    labels with and without extension (one name containing '@') -/
def wUnit : UnitInput :=
  ⟨⟨"global", ""⟩, [⟨0, [dm1]⟩, ⟨11, [0, 0, 0, d2]⟩, ⟨16, [d1, d1, d1, 0, 0, 0, 0, 0, 0, dm1]⟩],
   [wVol1, wVolBg], ⟨⟨dm1, dm1, dm1⟩, ⟨d2, d2, d2⟩⟩,
   [(0, ⟨1, .translation ⟨d1, 0, 0⟩⟩), (1, ⟨1, .none⟩),
    (7, ⟨2, .transformation ⟨0, d1, 0⟩ ⟨dm1, 0, 0⟩ ⟨0, 0, d1⟩ ⟨0, 0, d2⟩⟩)],
   [⟨"a", "x"⟩, ⟨"b@c", "y"⟩, ⟨"", ""⟩]⟩
def wRect : RectArray :=
  ⟨⟨"arr", ""⟩, [0, d1], [dm1, 0, d1], [0, d2], [⟨0, .none⟩, ⟨0, .translation ⟨0, d1, 0⟩⟩]⟩
def wInput : OrangeInput := ⟨[.unit wUnit, .rect wRect], tolW⟩

/-- a one-volume input; `f` edits the volume, `g` the unit -/
def mkInput (v : Volume) (g : UnitInput → UnitInput := id) : OrangeInput :=
  ⟨[.unit (g ⟨⟨"u", ""⟩, [], [v], BBox.infinite, [], []⟩)], tolW⟩
def vol0 : Volume := ⟨⟨"v", ""⟩, [], [ltrueW], BBox.infinite, OBZ.default, 0, zMedia⟩

/-- obz set (as UnitProto::build does) -/
def wObz : OrangeInput := mkInput { vol0 with obz := ⟨BBox.infinite, BBox.infinite, 0⟩ }
/-- a bbox with an upper coordinate equal to DBL_MAX -/
def boxMax : BBox := ⟨⟨0, 0, 0⟩, ⟨posMax, d1, d1⟩⟩
def wBoxMax : OrangeInput := mkInput { vol0 with bbox := boxMax }
/-- rect array with a Translation of exactly (0,0,0) -/
def wRectZero : OrangeInput :=
  ⟨[.rect ⟨⟨"arr", ""⟩, [0, d1], [0, d1], [0, d1], [⟨0, .translation ⟨0, 0, 0⟩⟩]⟩], tolW⟩
/-- rect array with a rotated daughter -/
def wRectRot : OrangeInput :=
  ⟨[.rect ⟨⟨"arr", ""⟩, [0, d1], [0, d1], [0, d1],
     [⟨0, .transformation ⟨0, d1, 0⟩ ⟨dm1, 0, 0⟩ ⟨0, 0, d1⟩ ⟨0, 0, 0⟩⟩]⟩], tolW⟩
/-- label whose name contains '@' and whose ext is empty -/
def wLabelAt : OrangeInput := mkInput { vol0 with label := ⟨"a@b", ""⟩ }
/-- unit with a null bounding box -/
def wUnitNull : OrangeInput := mkInput vol0 (fun u => { u with bbox := BBox.null })
/-- volume bbox that is null but not the canonical null box -/
def wNullBox : OrangeInput := mkInput { vol0 with bbox := ⟨⟨d2, 0, 0⟩, ⟨d1, d1, d1⟩⟩ }
/-- background volume carrying other logic than {true, not} -/
def wBackground : OrangeInput := mkInput { vol0 with zorder := zBackground }
/-- implicit volume with empty logic (valid per `VolumeInput::operator bool`) -/
def wEmptyLogic : OrangeInput := mkInput { vol0 with logic := [], flags := 2 }
/-- an involute surface -/
def wInvolute : OrangeInput :=
  mkInput vol0 (fun u => { u with surfaces := [⟨17, [0, 0, d1, 0, 0, d1]⟩] })
/-- an infinite plane position -/
def wInfSurface : OrangeInput :=
  mkInput vol0 (fun u => { u with surfaces := [⟨0, [posInf]⟩] })

end CelerVerif.OrangeIO
