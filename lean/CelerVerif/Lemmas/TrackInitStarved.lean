/- Secondary stack smaller than one interaction's request: every interaction fails (C16). -/
import CelerVerif.Model.TrackInitAlloc
import CelerVerif.Lemmas.Stack

namespace CelerVerif.TrackInit
open CelerVerif.Stack (W alloc)

/-- every request is a real interaction asking for more secondaries than the whole stack holds -/
def Starved (cap : Nat) (rs : List Request) : Prop :=
  ∀ r ∈ rs, (r.kind = .scatter ∨ r.kind = .absorb) ∧ cap < r.secs.length ∧
    cap + r.secs.length < W

theorem alloc_fail_eq (s : Stack.Stack) (n : Nat) (hinv : s.size ≤ s.cap) (hw : s.size + n < W)
    (hfull : s.size + n > s.cap) : alloc n s = (none, s) := by
  unfold alloc
  simp [Nat.mod_eq_of_lt hw, hfull, hinv]

theorem effOne_starved (x : Slot) (r : Request) (stk : Stack.Stack) (hs : stk.size ≤ stk.cap)
    (hk : r.kind = .scatter ∨ r.kind = .absorb) (hn : stk.cap < r.secs.length)
    (hw : stk.cap + r.secs.length < W) :
    (effOne x r stk).1 = ⟨.alive, []⟩ ∧ (effOne x r stk).2.2 = stk ∧
    ((effOne x r stk).2.1 = true ↔ ¬ (x.status = .inactive ∨ x.status = .errored)) := by
  unfold effOne
  by_cases hx : x.status = .inactive ∨ x.status = .errored
  · simp [hx]
  · have hne : r.secs.isEmpty = false := by
      cases h : r.secs with
      | nil => rw [h] at hn; simp at hn
      | cons a l => rfl
    have hal := alloc_fail_eq stk r.secs.length hs (by omega) (by omega)
    rcases hk with hk | hk <;> simp [hx, hk, hne, hal]

theorem effGo_starved (i : Nat) (xs : List Slot) (rs : List Request) (stk : Stack.Stack)
    (hs : stk.size ≤ stk.cap) (hst : Starved stk.cap rs) :
    (∀ o ∈ (effGo i xs rs stk).1, o = ⟨.alive, []⟩) ∧ (effGo i xs rs stk).2.2 = stk := by
  induction xs generalizing i rs with
  | nil => simp [effGo]
  | cons x xs ih =>
    cases rs with
    | nil => simp [effGo]
    | cons r rs =>
      obtain ⟨hk, hn, hw⟩ := hst r (by simp)
      obtain ⟨e1, e2, _⟩ := effOne_starved x r stk hs hk hn hw
      have := ih (i + 1) rs (fun r' hr' => hst r' (by simp [hr']))
      simp only [effGo, e2]
      refine ⟨?_, this.2⟩
      intro o ho
      simp only [List.mem_cons] at ho
      rcases ho with rfl | ho
      · exact e1
      · exact this.1 o ho

end CelerVerif.TrackInit
