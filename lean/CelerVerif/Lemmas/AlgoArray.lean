/- Helper lemmas for C18: reading `a[i]!` after `setIfInBounds` / `swapIfInBounds`, permutations. -/
import CelerVerif.Model.Algo

namespace CelerVerif.Algo
variable {α : Type} [Inhabited α]

theorem get_set (a : Array α) (i j : Nat) (v : α) :
    (a.setIfInBounds i v)[j]! = if i = j ∧ i < a.size then v else a[j]! := by
  grind

theorem get_set_ne (a : Array α) (i j : Nat) (v : α) (h : i ≠ j) :
    (a.setIfInBounds i v)[j]! = a[j]! := by
  rw [get_set]; simp [h]

theorem get_set_eq (a : Array α) (i : Nat) (v : α) (h : i < a.size) :
    (a.setIfInBounds i v)[i]! = v := by
  rw [get_set]; simp [h]

theorem get_swap (a : Array α) (i j k : Nat) (hi : i < a.size) (hj : j < a.size) :
    (a.swapIfInBounds i j)[k]! = if k = i then a[j]! else if k = j then a[i]! else a[k]! := by
  grind

omit [Inhabited α] in
theorem swap_perm (a : Array α) (i j : Nat) (hi : i < a.size) (hj : j < a.size) :
    (a.swapIfInBounds i j).Perm a := by
  simp only [Array.swapIfInBounds, hi, hj, ↓reduceDIte]
  exact Array.swap_perm hi hj

theorem getElem!_eq_toList (a : Array α) (i : Nat) (h : i < a.size) :
    a[i]! = a.toList[i]'(by simpa using h) := by
  simp [getElem!_pos, h]

omit [Inhabited α] in
/-- a list whose first `k` entries satisfy `p` and whose others do not has `countP p = k` -/
theorem countP_of_split (p : α → Bool) (l : List α) (k : Nat) (hk : k ≤ l.length)
    (h1 : ∀ i (h : i < l.length), i < k → p l[i] = true)
    (h2 : ∀ i (h : i < l.length), k ≤ i → p l[i] = false) : l.countP p = k := by
  induction l generalizing k with
  | nil => simp at hk; simp [hk]
  | cons x xs ih =>
    cases k with
    | zero =>
      have hx : p x = false := h2 0 (by simp) (Nat.le_refl _)
      have := ih 0 (Nat.zero_le _) (fun i _ hi => by omega)
        (fun i hi _ => h2 (i + 1) (by simpa using hi) (Nat.zero_le _))
      simp [hx, this]
    | succ k =>
      have hx : p x = true := h1 0 (by simp) (Nat.succ_pos _)
      have := ih k (by simpa using hk)
        (fun i hi hik => h1 (i + 1) (by simpa using hi) (by omega))
        (fun i hi hik => h2 (i + 1) (by simpa using hi) (by omega))
      simp [hx, this]

end CelerVerif.Algo
