/- kernel-checked inverse certificate: z^((2^160-1)/11) + 1 is a unit modulo P -/
import CelerVerif.Lemmas.XorwowPeriod

namespace CelerVerif.Xorwow

theorem orderCert_11 : orderCert 11 = true := by decide +kernel

end CelerVerif.Xorwow
