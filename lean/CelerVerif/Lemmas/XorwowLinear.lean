/-
GF(2)-linear algebra of the xorwow transition: polynomials over F2 are natural numbers
(bit m = coefficient of z^m); `ev g x = Σ_m g_m · next^m x`.
-/
import CelerVerif.Model.XorwowCore

namespace CelerVerif.Xorwow
open CelerVerif.Generated.Xorwow

local infixl:65 " ⊞ " => XS.xor

theorem bv_xor_left_comm {n : Nat} (a b c : BitVec n) : a ^^^ (b ^^^ c) = b ^^^ (a ^^^ c) := by
  rw [← BitVec.xor_assoc, BitVec.xor_comm a b, BitVec.xor_assoc]

namespace XS
@[simp] theorem xor_zero (a : XS) : a ⊞ zero = a := by cases a; simp [xor, zero]
@[simp] theorem zero_xor (a : XS) : zero ⊞ a = a := by cases a; simp [xor, zero]
@[simp] theorem xor_self (a : XS) : a ⊞ a = zero := by cases a; simp [xor, zero]
theorem xor_comm (a b : XS) : a ⊞ b = b ⊞ a := by
  cases a; cases b; simp [xor, BitVec.xor_comm]
theorem xor_assoc (a b c : XS) : (a ⊞ b) ⊞ c = a ⊞ (b ⊞ c) := by
  cases a; cases b; cases c; simp [xor, BitVec.xor_assoc]
instance : Std.Associative XS.xor := ⟨xor_assoc⟩
instance : Std.Commutative XS.xor := ⟨xor_comm⟩
@[simp] theorem xor_cancel_left (a b : XS) : a ⊞ (a ⊞ b) = b := by
  rw [← xor_assoc, xor_self, zero_xor]
theorem xor_eq_zero_iff (a b : XS) : a ⊞ b = zero ↔ a = b := by
  constructor
  · intro h
    have : a ⊞ (a ⊞ b) = a ⊞ zero := by rw [h]
    simpa using this.symm
  · rintro rfl; simp

@[simp] theorem next_zero : zero.next = zero := by simp [next, zero]
theorem next_xor (a b : XS) : (a ⊞ b).next = a.next ⊞ b.next := by
  cases a; cases b
  simp only [next, xor, XS.mk.injEq, true_and, BitVec.shiftLeft_xor_distrib,
    BitVec.ushiftRight_xor_distrib]
  simp only [BitVec.xor_assoc, BitVec.xor_comm, bv_xor_left_comm]
end XS

/-- iterate of `next` -/
def iter : Nat → XS → XS
  | 0, x => x
  | n + 1, x => iter n x.next

theorem iter_add (m n : Nat) (x : XS) : iter (m + n) x = iter n (iter m x) := by
  induction m generalizing x with
  | zero => simp [iter]
  | succ m ih => rw [Nat.succ_add]; simp [iter, ih]
theorem iter_succ' (n : Nat) (x : XS) : iter (n + 1) x = (iter n x).next := by
  rw [iter_add]; rfl
theorem iter_zero_state (n : Nat) : iter n XS.zero = XS.zero := by
  induction n with
  | zero => rfl
  | succ n ih => simp [iter, ih]
theorem iter_xor (n : Nat) (a b : XS) : iter n (a ⊞ b) = iter n a ⊞ iter n b := by
  induction n generalizing a b with
  | zero => rfl
  | succ n ih => simp [iter, XS.next_xor, ih]
/-- coefficient-0 term -/
def sel (b : Bool) (x : XS) : XS := if b then x else XS.zero

/-- `ev g x = Σ_m g_m next^m x` for the F2-polynomial `g` encoded as a natural number. -/
def ev (g : Nat) (x : XS) : XS :=
  if h : g = 0 then XS.zero else sel (g % 2 == 1) x ⊞ ev (g / 2) x.next
termination_by g
decreasing_by omega

theorem ev_zero (x : XS) : ev 0 x = XS.zero := by rw [ev]; simp
theorem ev_unfold (g : Nat) (x : XS) : ev g x = sel (g % 2 == 1) x ⊞ ev (g / 2) x.next := by
  rw [ev]; split
  · subst_vars; simp [sel, ev_zero]
  · rfl

theorem ev_state_zero (g : Nat) : ev g XS.zero = XS.zero := by
  induction g using Nat.strongRecOn with
  | _ g ih =>
    rw [ev]; split
    · rfl
    · rw [XS.next_zero, ih (g / 2) (by omega)]; cases h : (g % 2 == 1) <;> simp [sel]

theorem ev_state_xor (g : Nat) (x y : XS) : ev g (x ⊞ y) = ev g x ⊞ ev g y := by
  induction g using Nat.strongRecOn generalizing x y with
  | _ g ih =>
    by_cases hg : g = 0
    · subst hg; simp [ev_zero]
    · rw [ev_unfold g, ev_unfold g x, ev_unfold g y, XS.next_xor, ih (g / 2) (by omega)]
      cases h : (g % 2 == 1) <;> simp [sel] <;> ac_rfl

theorem ev_next (g : Nat) (x : XS) : ev g x.next = (ev g x).next := by
  induction g using Nat.strongRecOn generalizing x with
  | _ g ih =>
    by_cases hg : g = 0
    · subst hg; simp [ev_zero]
    · rw [ev_unfold g, ev_unfold g x, XS.next_xor, ih (g / 2) (by omega)]
      cases h : (g % 2 == 1) <;> simp [sel]

theorem ev_poly_xor (a b : Nat) (x : XS) : ev (a ^^^ b) x = ev a x ⊞ ev b x := by
  induction a using Nat.strongRecOn generalizing b x with
  | _ a ih =>
    by_cases ha : a = 0
    · subst ha; simp [ev_zero]
    · rw [ev_unfold (a ^^^ b), ev_unfold a, ev_unfold b, Nat.xor_div_two, ih (a / 2) (by omega)]
      have hm : ((a ^^^ b) % 2 == 1) = ((a % 2 == 1) != (b % 2 == 1)) := by
        have := @Nat.xor_mod_two_eq_one a b
        rcases Nat.mod_two_eq_zero_or_one a with h1 | h1 <;>
          rcases Nat.mod_two_eq_zero_or_one b with h2 | h2 <;>
          rcases Nat.mod_two_eq_zero_or_one (a ^^^ b) with h3 | h3 <;>
          simp_all
      rw [hm]
      cases (a % 2 == 1) <;> cases (b % 2 == 1) <;> simp only [sel, Bool.false_eq_true, if_false,
        if_true, bne_self_eq_false, Bool.bne_true, Bool.bne_false, Bool.not_false, Bool.not_true,
        XS.zero_xor, XS.xor_zero]
      · ac_rfl
      · ac_rfl
      · have : x ⊞ ev (a / 2) x.next ⊞ (x ⊞ ev (b / 2) x.next)
            = x ⊞ (x ⊞ (ev (a / 2) x.next ⊞ ev (b / 2) x.next)) := by ac_rfl
        rw [this, XS.xor_cancel_left]

theorem ev_one (x : XS) : ev 1 x = x := by
  rw [ev_unfold]; simp [sel, ev_zero]

theorem ev_double (g : Nat) (x : XS) : ev (2 * g) x = ev g x.next := by
  rw [ev_unfold]
  have h1 : 2 * g % 2 = 0 := by omega
  have h2 : 2 * g / 2 = g := by omega
  simp [h1, h2, sel]

theorem ev_shift (g k : Nat) (x : XS) : ev (g <<< k) x = ev g (iter k x) := by
  induction k generalizing x with
  | zero => simp [iter]
  | succ k ih =>
    rw [Nat.shiftLeft_succ, ev_double, ih]; rfl

theorem ev_pow_two (k : Nat) (x : XS) : ev (2 ^ k) x = iter k x := by
  have := ev_shift 1 k x
  rwa [Nat.one_shiftLeft, ev_one] at this

/-- Carry-less (F2[z]) product with explicit fuel (structural, so the kernel can run it). -/
def clmul : Nat → Nat → Nat → Nat
  | 0, _, _ => 0
  | f + 1, a, b => (if a % 2 = 1 then b else 0) ^^^ clmul f (a / 2) (2 * b)

theorem ev_clmul (f a b : Nat) (h : a < 2 ^ f) (x : XS) :
    ev (clmul f a b) x = ev a (ev b x) := by
  induction f generalizing a b x with
  | zero =>
    have : a = 0 := by simpa using h
    subst this; simp [clmul, ev_zero]
  | succ f ih =>
    have h2 : a / 2 < 2 ^ f := by
      rw [Nat.pow_succ] at h; omega
    rw [clmul, ev_poly_xor, ih _ _ h2, ev_double, ev_unfold a (ev b x), ev_next]
    by_cases ho : a % 2 = 1 <;> simp [ho, sel, ev_zero]

/-- A function that is XOR-additive and vanishes on the unit vectors vanishes everywhere
    below `2^n` (lifting a finite check to all inputs). -/
theorem two_pow_add_eq_xor {n r : Nat} (h : r < 2 ^ n) : 2 ^ n + r = 2 ^ n ^^^ r := by
  have := Nat.two_pow_add_eq_or_of_lt h 1
  rw [Nat.mul_one] at this; rw [this]
  apply Nat.eq_of_testBit_eq; intro i
  simp only [Nat.testBit_or, Nat.testBit_xor, Nat.testBit_two_pow]
  by_cases hi : n = i
  · subst hi; simp [Nat.testBit_lt_two_pow h]
  · simp [hi]

end CelerVerif.Xorwow
