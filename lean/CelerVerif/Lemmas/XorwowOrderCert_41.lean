/- kernel-checked inverse certificate: z^((2^160-1)/41) + 1 is a unit modulo P -/
import CelerVerif.Lemmas.XorwowPeriod

namespace CelerVerif.Xorwow

theorem orderCert_41 : orderCert 41 = true := by decide +kernel

end CelerVerif.Xorwow
