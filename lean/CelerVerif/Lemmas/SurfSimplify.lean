/-
`SurfaceSimplifier` / `RecursiveSimplifier` (model: `simplifyStep`, `simplify` in Model/Solids.lean)
at ℝ: what a simplification step preserves.

* exact part: whenever the quantities the code compares with the tolerance are exactly zero /
  exactly equal (`ExactForm`), the step multiplies the SIGNED surface function
  `sg sense * s.quadric p` by a positive constant — for every branch (snaps, axis-aligned planes,
  flips, GQ→SQ, SQ→plane / sphere / cylinder / cone);
* perturbation part: for the snapping branches the explicit difference of the surface functions
  and the bound the branch condition gives.
-/
import CelerVerif.Model.Solids
import CelerVerif.Lemmas.SurfTransform
import Mathlib.Tactic.NormNum
import Mathlib.Tactic.Positivity
import Mathlib.Tactic.LinearCombination

namespace CelerVerif.Solids
open CelerVerif CelerVerif.Surf

/-- sign attached to a sense: the literal (sense, s) holds at p iff `sg sense * s.quadric p < 0`
    (inside = negative surface function) -/
def sg : Sense → ℝ
  | .inside => 1
  | .outside => -1

theorem sg_flip (s : Sense) : sg s.flip = - sg s := by cases s <;> simp [sg, Sense.flip]

/-! ### `count_signs` at ℝ -/

/-- the code treats v as zero -/
def Zr (tol v : ℝ) : Prop := |v| < tol

noncomputable def posC (tol v : ℝ) : ℕ := if |v| < tol then 0 else if v < 0 then 0 else 1
noncomputable def negC (tol v : ℝ) : ℕ := if |v| < tol then 0 else if v < 0 then 1 else 0

theorem countSigns_pos (a b c tol : ℝ) :
    (countSigns a b c tol).1 = posC tol a + posC tol b + posC tol c := by
  unfold countSigns posC
  num_simp
  by_cases h1 : |a| < tol <;> by_cases h2 : a < 0 <;> by_cases h3 : |b| < tol <;>
    by_cases h4 : b < 0 <;> by_cases h5 : |c| < tol <;> by_cases h6 : c < 0 <;>
    simp [h1, h2, h3, h4, h5, h6]

theorem countSigns_neg (a b c tol : ℝ) :
    (countSigns a b c tol).2.1 = negC tol a + negC tol b + negC tol c := by
  unfold countSigns negC
  num_simp
  by_cases h1 : |a| < tol <;> by_cases h2 : a < 0 <;> by_cases h3 : |b| < tol <;>
    by_cases h4 : b < 0 <;> by_cases h5 : |c| < tol <;> by_cases h6 : c < 0 <;>
    simp [h1, h2, h3, h4, h5, h6]

theorem posC_le (tol v : ℝ) : posC tol v ≤ 1 := by unfold posC; split_ifs <;> simp
theorem negC_le (tol v : ℝ) : negC tol v ≤ 1 := by unfold negC; split_ifs <;> simp
theorem pos_neg_le (tol v : ℝ) : posC tol v + negC tol v ≤ 1 := by
  unfold posC negC; split_ifs <;> simp

theorem posC_eq_one {tol v : ℝ} (h : posC tol v = 1) : ¬ |v| < tol ∧ 0 ≤ v := by
  unfold posC at h; split_ifs at h with h1 h2
  exact ⟨h1, not_lt.mp h2⟩
theorem negC_eq_one {tol v : ℝ} (h : negC tol v = 1) : ¬ |v| < tol ∧ v < 0 := by
  unfold negC at h; split_ifs at h with h1 h2
  exact ⟨h1, h2⟩
theorem both_zero {tol v : ℝ} (hp : posC tol v = 0) (hn : negC tol v = 0) : |v| < tol := by
  unfold posC at hp; unfold negC at hn
  by_contra h
  by_cases h2 : v < 0
  · simp [h, h2] at hn
  · simp [h, h2] at hp

theorem signsAny_false {a b c tol : ℝ} (h : signsAny (countSigns a b c tol) = false) :
    |a| < tol ∧ |b| < tol ∧ |c| < tol := by
  unfold signsAny at h
  simp only [Bool.or_eq_false_iff, bne_eq_false_iff_eq] at h
  rw [countSigns_pos, countSigns_neg] at h
  obtain ⟨hp, hn⟩ := h
  have := posC_le tol a; have := posC_le tol b; have := posC_le tol c
  have := negC_le tol a; have := negC_le tol b; have := negC_le tol c
  exact ⟨both_zero (by omega) (by omega), both_zero (by omega) (by omega),
    both_zero (by omega) (by omega)⟩

/-! ### exact forms -/

/-- an exactly circular cylinder about axis t among the simple quadrics -/
def IsCyl (t : Axis) (sec fst : Vec3 ℝ) : Prop :=
  sec.ax t = 0 ∧ fst.ax t = 0 ∧ sec.ax t.U = sec.ax t.V

/-- an exactly circular cone about axis t among the simple quadrics (no leftover constant) -/
def IsCone (t : Axis) (sec fst : Vec3 ℝ) (g : ℝ) : Prop :=
  sec.ax t.U = sec.ax t.V ∧
    g = fst.ax t * fst.ax t / (4 * sec.ax t)
        + (fst.ax t.U * fst.ax t.U + fst.ax t.V * fst.ax t.V) / (4 * sec.ax t.U)

/-- `ExactForm tol s`: every quantity `SurfaceSimplifier` compares with the tolerance on s is
    exactly zero / exactly equal whenever the soft comparison succeeds (plus the preconditions
    the code only asserts: unit plane normal, non-zero first-order part of a planar quadric) -/
def ExactForm (tol : ℝ) : Surface ℝ → Prop
  | .planeAligned _ p => |p| < tol → p = 0
  | .cylAligned _ ou ov _ => ou * ou + ov * ov < tol * tol → ou = 0 ∧ ov = 0
  | .coneAligned _ o _ =>
    (|o.x| < tol → o.x = 0) ∧ (|o.y| < tol → o.y = 0) ∧ (|o.z| < tol → o.z = 0)
  | .plane n d =>
    (|n.x| < tol → n.x = 0) ∧ (|n.y| < tol → n.y = 0) ∧ (|n.z| < tol → n.z = 0)
      ∧ (|d| < tol → d = 0) ∧ n.x * n.x + n.y * n.y + n.z * n.z = 1
  | .sphere o _ => o.x * o.x + o.y * o.y + o.z * o.z < tol * tol → o.x = 0 ∧ o.y = 0 ∧ o.z = 0
  | .simpleQuadric a b c d e f g =>
    (|a| < tol → a = 0) ∧ (|b| < tol → b = 0) ∧ (|c| < tol → c = 0)
      ∧ (a = 0 → b = 0 → c = 0 → 0 < d * d + e * e + f * f)
      ∧ (∀ r, sqToSphere tol a b c d e f g = some r → a = b ∧ a = c)
      ∧ (∀ t r, sqToCyl tol t ⟨a, b, c⟩ ⟨d, e, f⟩ g = some r → IsCyl t ⟨a, b, c⟩ ⟨d, e, f⟩)
      ∧ (∀ t r, sqToCone tol t ⟨a, b, c⟩ ⟨d, e, f⟩ g = some r → IsCone t ⟨a, b, c⟩ ⟨d, e, f⟩ g)
  | .generalQuadric _ _ _ d e f _ _ _ _ =>
    (|d| < tol → d = 0) ∧ (|e| < tol → e = 0) ∧ (|f| < tol → f = 0)
  | _ => True

/-- the conclusion: the signed surface function is multiplied by a positive constant -/
def SameSigned (sense : Sense) (s : Surface ℝ) (sense' : Sense) (s' : Surface ℝ) : Prop :=
  ∃ lam : ℝ, 0 < lam ∧ ∀ p, sg sense' * s'.quadric p = lam * (sg sense * s.quadric p)

theorem SameSigned.refl (sense : Sense) (s : Surface ℝ) : SameSigned sense s sense s :=
  ⟨1, one_pos, fun p => by ring⟩

theorem SameSigned.trans {a : Sense} {s : Surface ℝ} {b : Sense} {t : Surface ℝ} {c : Sense}
    {u : Surface ℝ} (h1 : SameSigned a s b t) (h2 : SameSigned b t c u) : SameSigned a s c u := by
  obtain ⟨l1, p1, e1⟩ := h1
  obtain ⟨l2, p2, e2⟩ := h2
  exact ⟨l2 * l1, mul_pos p2 p1, fun p => by rw [e2, e1]; ring⟩

theorem half_lit : (@OfScientific.ofScientific ℝ Num.instOfScientific 5 true 1) = 1 / 2 := by
  show (OfScientific.ofScientific 5 true 1 : ℝ) = 1 / 2
  norm_num

theorem some_pair_inj {x : Sense} {y : Surface ℝ} {x' : Sense} {y' : Surface ℝ}
    (h : some (x, y) = some (x', y')) : x = x' ∧ y = y' := by
  simp only [Option.some.injEq, Prod.mk.injEq] at h; exact h

/-! #### flips (no condition) -/
theorem flip_plane (sense : Sense) (n : Vec3 ℝ) (d : ℝ) :
    SameSigned sense (.plane n d) sense.flip
      (.plane ⟨negate n.x, negate n.y, negate n.z⟩ (negate d)) :=
  ⟨1, one_pos, fun p => by
    rw [sg_flip]; simp only [Surface.quadric, negate]; vec_simp; num_simp; ring⟩

theorem flip_sq (sense : Sense) (a b c d e f g : ℝ) :
    SameSigned sense (.simpleQuadric a b c d e f g) sense.flip
      (.simpleQuadric (negate a) (negate b) (negate c) (negate d) (negate e) (negate f) (negate g)) :=
  ⟨1, one_pos, fun p => by
    rw [sg_flip]; simp only [Surface.quadric, negate]; num_simp; ring⟩

theorem flip_gq (sense : Sense) (a b c d e f g h i j : ℝ) :
    SameSigned sense (.generalQuadric a b c d e f g h i j) sense.flip
      (.generalQuadric (negate a) (negate b) (negate c) (negate d) (negate e) (negate f) (negate g)
        (negate h) (negate i) (negate j)) :=
  ⟨1, one_pos, fun p => by
    rw [sg_flip]; simp only [Surface.quadric, negate]; num_simp; ring⟩

/-! #### snapping branches are not taken / are the identity in exact form -/
theorem step_planeAligned (tol : ℝ) (sense : Sense) (t : Axis) (p0 : ℝ)
    (hE : ExactForm tol (.planeAligned t p0)) (sense' : Sense) (s' : Surface ℝ)
    (h : simplifyStep tol sense (.planeAligned t p0) = some (sense', s')) :
    SameSigned sense (.planeAligned t p0) sense' s' := by
  simp only [simplifyStep] at h
  split at h
  · next hc =>
    unfold softZero at hc
    num_simp at hc
    exact absurd (hE hc.2) hc.1
  · simp at h

theorem step_cylAligned (tol : ℝ) (sense : Sense) (t : Axis) (ou ov r2 : ℝ)
    (hE : ExactForm tol (.cylAligned t ou ov r2)) (sense' : Sense) (s' : Surface ℝ)
    (h : simplifyStep tol sense (.cylAligned t ou ov r2) = some (sense', s')) :
    SameSigned sense (.cylAligned t ou ov r2) sense' s' := by
  simp only [simplifyStep] at h
  split_ifs at h with hc
  · num_simp at hc
    obtain ⟨rfl, rfl⟩ := hE hc
    obtain ⟨rfl, rfl⟩ := some_pair_inj h
    refine ⟨1, one_pos, fun p => ?_⟩
    cases t <;> simp only [Surface.quadric] <;> vec_simp <;> num_simp <;> ring

theorem step_sphere (tol : ℝ) (sense : Sense) (o : Vec3 ℝ) (r2 : ℝ)
    (hE : ExactForm tol (.sphere o r2)) (sense' : Sense) (s' : Surface ℝ)
    (h : simplifyStep tol sense (.sphere o r2) = some (sense', s')) :
    SameSigned sense (.sphere o r2) sense' s' := by
  simp only [simplifyStep] at h
  split_ifs at h with hc
  · vec_simp at hc
    num_simp at hc
    obtain ⟨hx, hy, hz⟩ := hE (by linarith)
    obtain ⟨rfl, rfl⟩ := some_pair_inj h
    refine ⟨1, one_pos, fun p => ?_⟩
    simp only [Surface.quadric]; vec_simp; num_simp
    rw [hx, hy, hz]; ring

theorem step_coneAligned (tol : ℝ) (sense : Sense) (t : Axis) (o : Vec3 ℝ) (tsq : ℝ)
    (hE : ExactForm tol (.coneAligned t o tsq)) (sense' : Sense) (s' : Surface ℝ)
    (h : simplifyStep tol sense (.coneAligned t o tsq) = some (sense', s')) :
    SameSigned sense (.coneAligned t o tsq) sense' s' := by
  obtain ⟨h1, h2, h3⟩ := hE
  have key : ∀ v : ℝ, (|v| < tol → v = 0) →
      ¬ (Num.ne v (0 : ℝ) = true ∧ softZero tol v = true) := by
    intro v hv hc
    unfold softZero at hc
    num_simp at hc
    exact hc.1 (hv hc.2)
  have kx := key o.x h1
  have ky := key o.y h2
  have kz := key o.z h3
  simp [simplifyStep, kx, ky, kz] at h

/-! #### plane -/
theorem zeroSnap_exact {tol v : ℝ} (hv : |v| < tol → v = 0) : zeroSnap tol v = v := by
  unfold zeroSnap softZero
  split
  · next hc => num_simp at hc; rw [NumR.lit0]; exact (hv hc).symm
  · rfl

theorem ne_self (v : ℝ) : Num.ne v v = false := by
  unfold Num.ne
  rw [(NumR.eq_real v v).mpr rfl]; rfl

theorem posC_of_gt {tol v : ℝ} (h0 : 0 < tol) (h : tol < v) : posC tol v = 1 := by
  unfold posC
  have : ¬ |v| < tol := by rw [abs_of_pos (by linarith)]; linarith
  have : ¬ v < 0 := by linarith
  simp [*]

/-- a unit vector whose other two components are "zero for the code" and exactly representable -/
theorem unit_axis {tol a b c : ℝ} (hpb : posC tol b = 0) (hnb : negC tol b = 0)
    (hpc : posC tol c = 0) (hnc : negC tol c = 0) (eb : |b| < tol → b = 0) (ec : |c| < tol → c = 0)
    (ha : 0 ≤ a) (hn : a * a + b * b + c * c = 1) : a = 1 ∧ b = 0 ∧ c = 0 := by
  have hb := eb (both_zero hpb hnb)
  have hc := ec (both_zero hpc hnc)
  subst hb; subst hc
  refine ⟨?_, rfl, rfl⟩
  nlinarith

theorem step_plane (tol : ℝ) (h0 : 0 < tol) (h1 : tol < 1) (sense : Sense) (n : Vec3 ℝ) (d : ℝ)
    (hE : ExactForm tol (.plane n d)) (sense' : Sense) (s' : Surface ℝ)
    (h : simplifyStep tol sense (.plane n d) = some (sense', s')) :
    SameSigned sense (.plane n d) sense' s' := by
  obtain ⟨ex, ey, ez, ed, hn⟩ := hE
  obtain ⟨nx, ny, nz⟩ := n
  simp only at ex ey ez hn
  simp only [simplifyStep] at h
  split at h
  · obtain ⟨rfl, rfl⟩ := some_pair_inj h
    exact flip_plane sense _ d
  · split at h
    · next _ hc =>
      simp only [Bool.and_eq_true, beq_iff_eq] at hc
      rw [countSigns_pos, countSigns_neg] at hc
      obtain ⟨hp, hng⟩ := hc
      have lx := posC_le tol nx; have ly := posC_le tol ny; have lz := posC_le tol nz
      split at h
      · next hgx =>
        num_simp at hgx
        have px := posC_of_gt h0 hgx
        obtain ⟨rfl, rfl, rfl⟩ := unit_axis (a := nx) (b := ny) (c := nz) (by omega) (by omega)
          (by omega) (by omega) ey ez (by linarith) hn
        obtain ⟨rfl, rfl⟩ := some_pair_inj h
        refine ⟨1, one_pos, fun p => ?_⟩
        simp only [Surface.quadric]; vec_simp; num_simp; ring
      · next hgx =>
        num_simp at hgx
        have npx : posC tol nx ≠ 1 := by
          intro hpx
          obtain ⟨rfl, -, -⟩ := unit_axis (a := nx) (b := ny) (c := nz) (by omega) (by omega)
            (by omega) (by omega) ey ez (posC_eq_one hpx).2 hn
          linarith
        split at h
        · next hgy =>
          num_simp at hgy
          have py := posC_of_gt h0 hgy
          obtain ⟨rfl, rfl, rfl⟩ := unit_axis (a := ny) (b := nx) (c := nz) (by omega) (by omega)
            (by omega) (by omega) ex ez (by linarith) (by linarith)
          obtain ⟨rfl, rfl⟩ := some_pair_inj h
          refine ⟨1, one_pos, fun p => ?_⟩
          simp only [Surface.quadric]; vec_simp; num_simp; ring
        · next hgy =>
          num_simp at hgy
          have npy : posC tol ny ≠ 1 := by
            intro hpy
            obtain ⟨rfl, -, -⟩ := unit_axis (a := ny) (b := nx) (c := nz) (by omega) (by omega)
              (by omega) (by omega) ex ez (posC_eq_one hpy).2 (by linarith)
            linarith
          have pz : posC tol nz = 1 := by omega
          obtain ⟨rfl, rfl, rfl⟩ := unit_axis (a := nz) (b := nx) (c := ny) (by omega) (by omega)
            (by omega) (by omega) ex ey (posC_eq_one pz).2 (by linarith)
          obtain ⟨rfl, rfl⟩ := some_pair_inj h
          refine ⟨1, one_pos, fun p => ?_⟩
          simp only [Surface.quadric]; vec_simp; num_simp; ring
    · -- no normal component is snapped, the displacement is not snapped
      exfalso
      simp only [zeroSnap_exact ex, zeroSnap_exact ey, zeroSnap_exact ez, ne_self, Bool.or_self,
        Bool.false_eq_true, if_false] at h
      split at h
      · next hc =>
        unfold softZero at hc
        num_simp at hc
        exact hc.1 (ed hc.2)
      · simp at h

/-! #### general quadric -/
theorem step_gq (tol : ℝ) (sense : Sense) (a b c d e f g h' i j : ℝ)
    (hE : ExactForm tol (.generalQuadric a b c d e f g h' i j)) (sense' : Sense) (s' : Surface ℝ)
    (h : simplifyStep tol sense (.generalQuadric a b c d e f g h' i j) = some (sense', s')) :
    SameSigned sense (.generalQuadric a b c d e f g h' i j) sense' s' := by
  obtain ⟨ed, ee, ef⟩ := hE
  simp only [simplifyStep] at h
  split at h
  · next hc =>
    simp only [Bool.not_eq_true'] at hc
    obtain ⟨zd, ze, zf⟩ := signsAny_false hc
    obtain rfl := ed zd
    obtain rfl := ee ze
    obtain rfl := ef zf
    obtain ⟨rfl, rfl⟩ := some_pair_inj h
    refine ⟨1, one_pos, fun p => ?_⟩
    simp only [Surface.quadric]; num_simp; ring
  · split at h
    · obtain ⟨rfl, rfl⟩ := some_pair_inj h
      exact flip_gq sense a b c d e f g h' i j
    · simp at h

/-! #### simple quadric converters -/

theorem firstSome3 {β : Type} (f g h : Unit → Option β) (r : β)
    (hr : firstSome [f, g, h] = some r) : f () = some r ∨ g () = some r ∨ h () = some r := by
  simp only [firstSome] at hr
  cases hf : f () with
  | some b => rw [hf] at hr; simp only at hr; left; rw [← hr]
  | none =>
    rw [hf] at hr; simp only at hr
    cases hg : g () with
    | some b => rw [hg] at hr; simp only at hr; right; left; rw [← hr]
    | none =>
      rw [hg] at hr; simp only at hr
      cases hh : h () with
      | some b => rw [hh] at hr; simp only at hr; right; right; rw [← hr]
      | none => rw [hh] at hr; simp at hr

/-- QuadricPlaneConverter: a simple quadric without second-order terms is 1/‖(d,e,f)‖ times
    its plane -/
theorem sqToPlane_quadric (d e f g : ℝ) (_hn : 0 < d * d + e * e + f * f) (p : Vec3 ℝ) :
    (sqToPlane d e f g).quadric p
      = (1 / Real.sqrt (d * d + e * e + f * f))
        * (Surface.simpleQuadric 0 0 0 d e f g).quadric p := by
  have hD : f * f + (e * e + d * d) = d * d + e * e + f * f := by ring
  simp only [sqToPlane, Surface.quadric, Vec3.norm]
  vec_simp
  num_simp
  rw [hD]
  ring

/-- QuadricSphereConverter on a·(x²+y²+z²) + … : the sphere's function is 1/a times the quadric -/
theorem sqToSphere_quadric (tol a d e f g : ℝ) (ha : 0 < a) (r : Surface ℝ)
    (hr : sqToSphere tol a a a d e f g = some r) (p : Vec3 ℝ) :
    r.quadric p = (1 / a) * (Surface.simpleQuadric a a a d e f g).quadric p := by
  simp only [sqToSphere] at hr
  split at hr
  · simp at hr
  · split at hr
    · simp at hr
    · obtain rfl := Option.some.inj hr
      have hne : a ≠ 0 := ne_of_gt ha
      simp only [Surface.quadric, clearZero]
      vec_simp
      num_simp
      simp only [half_lit]
      field_simp
      ring

/-- QuadricCylConverter about axis t -/
theorem sqToCyl_quadric (tol : ℝ) (t : Axis) (sec fst : Vec3 ℝ) (g : ℝ) (hI : IsCyl t sec fst)
    (hU : 0 < sec.ax t.U) (r : Surface ℝ) (hr : sqToCyl tol t sec fst g = some r) (p : Vec3 ℝ) :
    r.quadric p
      = (1 / sec.ax t.U) * (Surface.simpleQuadric sec.x sec.y sec.z fst.x fst.y fst.z g).quadric p := by
  obtain ⟨sx, sy, sz⟩ := sec
  obtain ⟨fx, fy, fz⟩ := fst
  obtain ⟨h1, h2, h3⟩ := hI
  simp only [sqToCyl] at hr
  split at hr
  · simp at hr
  · split at hr
    · simp at hr
    · split at hr
      · simp at hr
      · split at hr
        · simp at hr
        · obtain rfl := Option.some.inj hr
          cases t <;> simp only [Axis.U, Axis.V, Vec3.ax, Vec3.get, Axis.toNat] at h1 h2 h3 hU <;>
            subst h1 <;> subst h2 <;> subst h3 <;>
            (have hne := ne_of_gt hU
             simp only [Surface.quadric, clearZero]
             vec_simp
             num_simp
             simp only [half_lit]
             field_simp
             ring)

/-- QuadricConeConverter about axis t -/
theorem sqToCone_quadric (tol : ℝ) (t : Axis) (sec fst : Vec3 ℝ) (g : ℝ) (hI : IsCone t sec fst g)
    (hU : 0 < sec.ax t.U) (r : Surface ℝ) (hr : sqToCone tol t sec fst g = some r) (p : Vec3 ℝ) :
    r.quadric p
      = (1 / sec.ax t.U) * (Surface.simpleQuadric sec.x sec.y sec.z fst.x fst.y fst.z g).quadric p := by
  obtain ⟨sx, sy, sz⟩ := sec
  obtain ⟨fx, fy, fz⟩ := fst
  obtain ⟨h1, h2⟩ := hI
  simp only [sqToCone] at hr
  split at hr
  · simp at hr
  · next hneg =>
    simp only [Bool.not_eq_true'] at hneg
    split at hr
    · simp at hr
    · split at hr
      · simp at hr
      · obtain rfl := Option.some.inj hr
        cases t <;> simp only [Axis.U, Axis.V, Vec3.ax, Vec3.get, Axis.toNat] at h1 h2 hU hneg <;>
          rw [NumR.lt_real_false, NumR.lit0, not_le] at hneg <;> subst h1 <;> subst h2 <;>
          (have hne := ne_of_gt hU
           have hne2 := ne_of_lt hneg
           simp only [Surface.quadric, clearZero]
           vec_simp
           num_simp
           field_simp
           ring)

/-! #### simple quadric -/
theorem pos_of_posC {tol v : ℝ} (h0 : 0 < tol) (h : posC tol v = 1) : 0 < v := by
  obtain ⟨h1, h2⟩ := posC_eq_one h
  rcases lt_or_eq_of_le h2 with h | h
  · exact h
  · exfalso; apply h1; rw [← h, abs_zero]; exact h0

theorem posC_of_neg {tol v : ℝ} (hv : v < 0) : posC tol v = 0 := by
  unfold posC; split_ifs <;> rfl

theorem posC_zero {tol : ℝ} (h0 : 0 < tol) : posC tol 0 = 0 := by
  unfold posC; simp [h0]

theorem count21 {tol x y z : ℝ} (h0 : 0 < tol)
    (hp : posC tol x + posC tol y + posC tol z = 2) (_hn : negC tol x + negC tol y + negC tol z = 1)
    (hx : x < 0) : 0 < y ∧ 0 < z := by
  have := pos_neg_le tol x; have := pos_neg_le tol y; have := pos_neg_le tol z
  have hpx := posC_of_neg (tol := tol) hx
  exact ⟨pos_of_posC h0 (by omega), pos_of_posC h0 (by omega)⟩

theorem count20 {tol y z : ℝ} (h0 : 0 < tol) (hp : posC tol 0 + posC tol y + posC tol z = 2) :
    0 < y ∧ 0 < z := by
  have := posC_le tol y; have := posC_le tol z
  have h00 := posC_zero h0
  exact ⟨pos_of_posC h0 (by omega), pos_of_posC h0 (by omega)⟩

theorem sqToCone_neg {tol : ℝ} {t : Axis} {sec fst : Vec3 ℝ} {g : ℝ} {r : Surface ℝ}
    (hr : sqToCone tol t sec fst g = some r) : sec.ax t < 0 := by
  simp only [sqToCone] at hr
  split at hr
  · simp at hr
  · next hneg =>
    simp only [Bool.not_eq_true'] at hneg
    rw [NumR.lt_real_false, NumR.lit0, not_le] at hneg
    exact hneg

theorem step_sq (tol : ℝ) (h0 : 0 < tol) (sense : Sense) (a b c d e f g : ℝ)
    (hE : ExactForm tol (.simpleQuadric a b c d e f g)) (sense' : Sense) (s' : Surface ℝ)
    (h : simplifyStep tol sense (.simpleQuadric a b c d e f g) = some (sense', s')) :
    SameSigned sense (.simpleQuadric a b c d e f g) sense' s' := by
  obtain ⟨ea, eb, ec, hfirst, hsph, hcyl, hcone⟩ := hE
  simp only [simplifyStep] at h
  split at h
  · next hc =>
    simp only [Bool.not_eq_true'] at hc
    obtain ⟨za, zb, zc⟩ := signsAny_false hc
    obtain rfl := ea za
    obtain rfl := eb zb
    obtain rfl := ec zc
    obtain ⟨rfl, rfl⟩ := some_pair_inj h
    have hn := hfirst rfl rfl rfl
    refine ⟨1 / Real.sqrt (d * d + e * e + f * f), one_div_pos.mpr (Real.sqrt_pos.mpr hn), fun p => ?_⟩
    rw [sqToPlane_quadric d e f g hn]; ring
  · split at h
    · obtain ⟨rfl, rfl⟩ := some_pair_inj h
      exact flip_sq sense a b c d e f g
    · split at h
      · next hc3 =>
        rw [beq_iff_eq, countSigns_pos] at hc3
        cases hq : sqToSphere tol a b c d e f g with
        | none => rw [hq] at h; simp at h
        | some r =>
          rw [hq] at h
          simp only [Option.map_some] at h
          obtain ⟨rfl, rfl⟩ := some_pair_inj h
          obtain ⟨hab, hac⟩ := hsph r hq
          subst hab; subst hac
          have := posC_le tol a
          have ha : 0 < a := pos_of_posC h0 (by omega)
          refine ⟨1 / a, one_div_pos.mpr ha, fun p => ?_⟩
          rw [sqToSphere_quadric tol a d e f g ha r hq]; ring
      · split at h
        · next hc21 =>
          simp only [Bool.and_eq_true, beq_iff_eq] at hc21
          rw [countSigns_pos, countSigns_neg] at hc21
          obtain ⟨hp, hn⟩ := hc21
          cases hq : firstSome [fun _ => sqToCone tol .x ⟨a, b, c⟩ ⟨d, e, f⟩ g,
              fun _ => sqToCone tol .y ⟨a, b, c⟩ ⟨d, e, f⟩ g,
              fun _ => sqToCone tol .z ⟨a, b, c⟩ ⟨d, e, f⟩ g] with
          | none => rw [hq] at h; simp at h
          | some r =>
            rw [hq] at h
            simp only [Option.map_some] at h
            obtain ⟨rfl, rfl⟩ := some_pair_inj h
            rcases firstSome3 _ _ _ r hq with h1 | h1 | h1
            · have hneg := sqToCone_neg h1
              simp only [Vec3.ax, Vec3.get, Axis.toNat] at hneg
              have hU : 0 < b := (count21 (x := a) (y := b) (z := c) h0 hp hn hneg).1
              refine ⟨1 / b, one_div_pos.mpr hU, fun p => ?_⟩
              have := sqToCone_quadric tol .x ⟨a, b, c⟩ ⟨d, e, f⟩ g (hcone .x r h1) hU r h1 p
              simp only [Axis.U, Vec3.ax, Vec3.get, Axis.toNat] at this
              rw [this]; ring
            · have hneg := sqToCone_neg h1
              simp only [Vec3.ax, Vec3.get, Axis.toNat] at hneg
              have hU : 0 < a := (count21 (x := b) (y := a) (z := c) h0 (by omega) (by omega) hneg).1
              refine ⟨1 / a, one_div_pos.mpr hU, fun p => ?_⟩
              have := sqToCone_quadric tol .y ⟨a, b, c⟩ ⟨d, e, f⟩ g (hcone .y r h1) hU r h1 p
              simp only [Axis.U, Vec3.ax, Vec3.get, Axis.toNat] at this
              rw [this]; ring
            · have hneg := sqToCone_neg h1
              simp only [Vec3.ax, Vec3.get, Axis.toNat] at hneg
              have hU : 0 < a := (count21 (x := c) (y := a) (z := b) h0 (by omega) (by omega) hneg).1
              refine ⟨1 / a, one_div_pos.mpr hU, fun p => ?_⟩
              have := sqToCone_quadric tol .z ⟨a, b, c⟩ ⟨d, e, f⟩ g (hcone .z r h1) hU r h1 p
              simp only [Axis.U, Vec3.ax, Vec3.get, Axis.toNat] at this
              rw [this]; ring
        · split at h
          · next hc20 =>
            simp only [Bool.and_eq_true, beq_iff_eq] at hc20
            rw [countSigns_pos, countSigns_neg] at hc20
            obtain ⟨hp, hn⟩ := hc20
            cases hq : firstSome [fun _ => sqToCyl tol .x ⟨a, b, c⟩ ⟨d, e, f⟩ g,
                fun _ => sqToCyl tol .y ⟨a, b, c⟩ ⟨d, e, f⟩ g,
                fun _ => sqToCyl tol .z ⟨a, b, c⟩ ⟨d, e, f⟩ g] with
            | none => rw [hq] at h; simp at h
            | some r =>
              rw [hq] at h
              simp only [Option.map_some] at h
              obtain ⟨rfl, rfl⟩ := some_pair_inj h
              rcases firstSome3 _ _ _ r hq with h1 | h1 | h1
              · have hI := hcyl .x r h1
                have hz : a = 0 := hI.1
                subst hz
                have hU : 0 < b := (count20 (y := b) (z := c) h0 hp).1
                refine ⟨1 / b, one_div_pos.mpr hU, fun p => ?_⟩
                have := sqToCyl_quadric tol .x ⟨0, b, c⟩ ⟨d, e, f⟩ g hI hU r h1 p
                simp only [Axis.U, Vec3.ax, Vec3.get, Axis.toNat] at this
                rw [this]; ring
              · have hI := hcyl .y r h1
                have hz : b = 0 := hI.1
                subst hz
                have hU : 0 < a := (count20 (y := a) (z := c) h0 (by omega)).1
                refine ⟨1 / a, one_div_pos.mpr hU, fun p => ?_⟩
                have := sqToCyl_quadric tol .y ⟨a, 0, c⟩ ⟨d, e, f⟩ g hI hU r h1 p
                simp only [Axis.U, Vec3.ax, Vec3.get, Axis.toNat] at this
                rw [this]; ring
              · have hI := hcyl .z r h1
                have hz : c = 0 := hI.1
                subst hz
                have hU : 0 < a := (count20 (y := a) (z := b) h0 (by omega)).1
                refine ⟨1 / a, one_div_pos.mpr hU, fun p => ?_⟩
                have := sqToCyl_quadric tol .z ⟨a, b, 0⟩ ⟨d, e, f⟩ g hI hU r h1 p
                simp only [Axis.U, Vec3.ax, Vec3.get, Axis.toNat] at this
                rw [this]; ring
          · simp at h

/-! ### the step theorem and its lift through the recursion -/

/-- ★ every branch of `SurfaceSimplifier`: in exact form the step multiplies the signed surface
    function by a positive constant (0 < tol < 1 is the invariant of `Tolerance<>`) -/
theorem simplifyStep_exact_core (tol : ℝ) (h0 : 0 < tol) (h1 : tol < 1) (sense : Sense)
    (s : Surface ℝ) (hE : ExactForm tol s) (sense' : Sense) (s' : Surface ℝ)
    (h : simplifyStep tol sense s = some (sense', s')) : SameSigned sense s sense' s' := by
  cases s with
  | planeAligned t p => exact step_planeAligned tol sense t p hE sense' s' h
  | plane n d => exact step_plane tol h0 h1 sense n d hE sense' s' h
  | cylCentered t r2 => simp [simplifyStep] at h
  | cylAligned t ou ov r2 => exact step_cylAligned tol sense t ou ov r2 hE sense' s' h
  | sphereCentered r2 => simp [simplifyStep] at h
  | sphere o r2 => exact step_sphere tol sense o r2 hE sense' s' h
  | coneAligned t o tsq => exact step_coneAligned tol sense t o tsq hE sense' s' h
  | simpleQuadric a b c d e f g => exact step_sq tol h0 sense a b c d e f g hE sense' s' h
  | generalQuadric a b c d e f g h' i j => exact step_gq tol sense a b c d e f g h' i j hE sense' s' h

/-- every intermediate surface of the recursion is in exact form -/
def ExactChain (tol : ℝ) : ℕ → Sense → Surface ℝ → Prop
  | 0, _, _ => True
  | n + 1, sense, s =>
    match simplifyStep tol sense s with
    | none => True
    | some q => ExactForm tol s ∧ ExactChain tol n q.1 q.2

theorem simplify_exact_core (tol : ℝ) (h0 : 0 < tol) (h1 : tol < 1) :
    ∀ (fuel : ℕ) (sense : Sense) (s : Surface ℝ) (fs : Sense) (fsurf : Surface ℝ),
      ExactChain tol fuel sense s → simplify tol fuel sense s = some (fs, fsurf) →
      SameSigned sense s fs fsurf := by
  intro fuel
  induction fuel with
  | zero => intro sense s fs fsurf _ h; simp [simplify] at h
  | succ n ih =>
    intro sense s fs fsurf hC h
    simp only [simplify] at h
    simp only [ExactChain] at hC
    cases hs : simplifyStep tol sense s with
    | none =>
      rw [hs] at h
      simp only at h
      obtain ⟨rfl, rfl⟩ := some_pair_inj h
      exact SameSigned.refl _ _
    | some q =>
      obtain ⟨se', s'⟩ := q
      rw [hs] at h hC
      simp only at h hC
      exact (simplifyStep_exact_core tol h0 h1 sense s hC.1 se' s' hs).trans (ih se' s' fs fsurf hC.2 h)

/-! ### perturbation of the snapping branches -/

/-- |2 e x − e²| ≤ tol (2|x| + tol) for |e| ≤ tol -/
theorem snap1 (e x tol : ℝ) (he : |e| ≤ tol) : |2 * e * x - e * e| ≤ tol * (2 * |x| + tol) := by
  have h0 : 0 ≤ tol := le_trans (abs_nonneg e) he
  have h1 : |2 * e * x| ≤ 2 * tol * |x| := by
    rw [abs_mul, abs_mul, abs_two]
    have := mul_le_mul_of_nonneg_right he (abs_nonneg x)
    nlinarith [abs_nonneg x]
  have h2 : |e * e| ≤ tol * tol := by
    rw [abs_mul]; exact mul_le_mul he he (abs_nonneg e) h0
  calc |2 * e * x - e * e| ≤ |2 * e * x| + |e * e| := abs_sub _ _
    _ ≤ 2 * tol * |x| + tol * tol := add_le_add h1 h2
    _ = tol * (2 * |x| + tol) := by ring

/-- Cauchy–Schwarz form used by the cylinder snap -/
theorem cs_bound2 (a b u v tol : ℝ) (h0 : 0 ≤ tol) (h : a * a + b * b < tol * tol) :
    |2 * a * u + 2 * b * v - (a * a + b * b)| ≤ tol * (2 * Real.sqrt (u * u + v * v) + tol) := by
  set S := Real.sqrt (u * u + v * v) with hS
  have hS0 : 0 ≤ S := Real.sqrt_nonneg _
  have hSS : S * S = u * u + v * v :=
    Real.mul_self_sqrt (add_nonneg (mul_self_nonneg _) (mul_self_nonneg _))
  have hx : (a * u + b * v) ^ 2 ≤ (tol * S) ^ 2 := by
    nlinarith [mul_self_nonneg (a * v - b * u), mul_nonneg (mul_self_nonneg S) (le_of_lt (sub_pos.mpr h)),
      mul_self_nonneg S]
  have hb := abs_le_of_sq_le_sq' hx (mul_nonneg h0 hS0)
  have hq : 0 ≤ a * a + b * b := add_nonneg (mul_self_nonneg _) (mul_self_nonneg _)
  rw [abs_le]
  constructor <;> nlinarith [hb.1, hb.2]

/-- … and by the sphere snap -/
theorem cs_bound3 (a b c u v w tol : ℝ) (h0 : 0 ≤ tol) (h : a * a + b * b + c * c < tol * tol) :
    |2 * a * u + 2 * b * v + 2 * c * w - (a * a + b * b + c * c)|
      ≤ tol * (2 * Real.sqrt (u * u + v * v + w * w) + tol) := by
  set S := Real.sqrt (u * u + v * v + w * w) with hS
  have hS0 : 0 ≤ S := Real.sqrt_nonneg _
  have hSS : S * S = u * u + v * v + w * w :=
    Real.mul_self_sqrt (add_nonneg (add_nonneg (mul_self_nonneg _) (mul_self_nonneg _)) (mul_self_nonneg _))
  have hx : (a * u + b * v + c * w) ^ 2 ≤ (tol * S) ^ 2 := by
    nlinarith [mul_self_nonneg (a * v - b * u), mul_self_nonneg (a * w - c * u),
      mul_self_nonneg (b * w - c * v), mul_nonneg (mul_self_nonneg S) (le_of_lt (sub_pos.mpr h)),
      mul_self_nonneg S]
  have hb := abs_le_of_sq_le_sq' hx (mul_nonneg h0 hS0)
  have hq : 0 ≤ a * a + b * b + c * c :=
    add_nonneg (add_nonneg (mul_self_nonneg _) (mul_self_nonneg _)) (mul_self_nonneg _)
  rw [abs_le]
  constructor <;> nlinarith [hb.1, hb.2]

/-- PlaneAligned snapped to the origin: the surface function changes by the old position,
    which the branch condition bounds by tol -/
theorem perturb_planeAligned (tol : ℝ) (sense : Sense) (t : Axis) (pos : ℝ) (sense' : Sense)
    (s' : Surface ℝ) (h : simplifyStep tol sense (.planeAligned t pos) = some (sense', s')) :
    sense' = sense ∧ |pos| < tol ∧
      ∀ p, s'.quadric p - (Surface.planeAligned t pos).quadric p = pos := by
  simp only [simplifyStep] at h
  split at h
  · next hc =>
    unfold softZero at hc
    num_simp at hc
    obtain ⟨rfl, rfl⟩ := some_pair_inj h
    refine ⟨rfl, hc.2, fun p => ?_⟩
    cases t <;> simp only [Surface.quadric] <;> vec_simp <;> num_simp <;> ring
  · simp at h

/-- CylAligned → CylCentered -/
theorem perturb_cylAligned (tol : ℝ) (h0 : 0 ≤ tol) (sense : Sense) (t : Axis) (ou ov r2 : ℝ)
    (sense' : Sense) (s' : Surface ℝ)
    (h : simplifyStep tol sense (.cylAligned t ou ov r2) = some (sense', s')) :
    sense' = sense ∧ ou * ou + ov * ov < tol * tol ∧
      ∀ p : Vec3 ℝ,
        s'.quadric p - (Surface.cylAligned t ou ov r2).quadric p
            = 2 * ou * p.ax t.U + 2 * ov * p.ax t.V - (ou * ou + ov * ov)
        ∧ |s'.quadric p - (Surface.cylAligned t ou ov r2).quadric p|
            ≤ tol * (2 * Real.sqrt (p.ax t.U * p.ax t.U + p.ax t.V * p.ax t.V) + tol) := by
  simp only [simplifyStep] at h
  split at h
  · next hc =>
    num_simp at hc
    obtain ⟨rfl, rfl⟩ := some_pair_inj h
    refine ⟨rfl, hc, fun p => ?_⟩
    have e : (Surface.cylCentered t r2).quadric p - (Surface.cylAligned t ou ov r2).quadric p
        = 2 * ou * p.ax t.U + 2 * ov * p.ax t.V - (ou * ou + ov * ov) := by
      cases t <;> simp only [Surface.quadric] <;> vec_simp <;> num_simp <;> ring
    exact ⟨e, by rw [e]; exact cs_bound2 ou ov _ _ tol h0 hc⟩
  · simp at h

/-- Sphere → SphereCentered -/
theorem perturb_sphere (tol : ℝ) (h0 : 0 ≤ tol) (sense : Sense) (o : Vec3 ℝ) (r2 : ℝ)
    (sense' : Sense) (s' : Surface ℝ)
    (h : simplifyStep tol sense (.sphere o r2) = some (sense', s')) :
    sense' = sense ∧ o.x * o.x + o.y * o.y + o.z * o.z < tol * tol ∧
      ∀ p : Vec3 ℝ,
        s'.quadric p - (Surface.sphere o r2).quadric p
            = 2 * o.x * p.x + 2 * o.y * p.y + 2 * o.z * p.z - (o.x * o.x + o.y * o.y + o.z * o.z)
        ∧ |s'.quadric p - (Surface.sphere o r2).quadric p|
            ≤ tol * (2 * Real.sqrt (p.x * p.x + p.y * p.y + p.z * p.z) + tol) := by
  simp only [simplifyStep] at h
  split at h
  · next hc =>
    vec_simp at hc
    num_simp at hc
    have hc' : o.x * o.x + o.y * o.y + o.z * o.z < tol * tol := by linarith
    obtain ⟨rfl, rfl⟩ := some_pair_inj h
    refine ⟨rfl, hc', fun p => ?_⟩
    have e : (Surface.sphereCentered r2).quadric p - (Surface.sphere o r2).quadric p
        = 2 * o.x * p.x + 2 * o.y * p.y + 2 * o.z * p.z - (o.x * o.x + o.y * o.y + o.z * o.z) := by
      simp only [Surface.quadric]; vec_simp; num_simp; ring
    exact ⟨e, by rw [e]; exact cs_bound3 o.x o.y o.z _ _ _ tol h0 hc'⟩
  · simp at h

/-- moving a cone's origin from o to o' = o − e changes the surface function by
    Σ cᵢ (2 eᵢ (pᵢ − o'ᵢ) − eᵢ²), cᵢ = −tan² on the axis and 1 across; each term is bounded by
    |cᵢ| tol (2 |pᵢ − o'ᵢ| + tol) when |eᵢ| ≤ tol -/
theorem perturb_cone_origin (t : Axis) (o o' : Vec3 ℝ) (tsq tol : ℝ) (p : Vec3 ℝ)
    (hx : |o.x - o'.x| ≤ tol) (hy : |o.y - o'.y| ≤ tol) (hz : |o.z - o'.z| ≤ tol) :
    (Surface.coneAligned t o' tsq).quadric p - (Surface.coneAligned t o tsq).quadric p
        = (-tsq) * (2 * (o.ax t - o'.ax t) * (p.ax t - o'.ax t) - (o.ax t - o'.ax t) * (o.ax t - o'.ax t))
          + (2 * (o.ax t.U - o'.ax t.U) * (p.ax t.U - o'.ax t.U)
              - (o.ax t.U - o'.ax t.U) * (o.ax t.U - o'.ax t.U))
          + (2 * (o.ax t.V - o'.ax t.V) * (p.ax t.V - o'.ax t.V)
              - (o.ax t.V - o'.ax t.V) * (o.ax t.V - o'.ax t.V))
    ∧ |(Surface.coneAligned t o' tsq).quadric p - (Surface.coneAligned t o tsq).quadric p|
        ≤ |tsq| * (tol * (2 * |p.ax t - o'.ax t| + tol))
          + tol * (2 * |p.ax t.U - o'.ax t.U| + tol) + tol * (2 * |p.ax t.V - o'.ax t.V| + tol) := by
  have key : ∀ (e1 x1 e2 x2 e3 x3 : ℝ), |e1| ≤ tol → |e2| ≤ tol → |e3| ≤ tol →
      |(-tsq) * (2 * e1 * x1 - e1 * e1) + (2 * e2 * x2 - e2 * e2) + (2 * e3 * x3 - e3 * e3)|
        ≤ |tsq| * (tol * (2 * |x1| + tol)) + tol * (2 * |x2| + tol) + tol * (2 * |x3| + tol) := by
    intro e1 x1 e2 x2 e3 x3 h1 h2 h3
    have b1 := snap1 e1 x1 tol h1
    have b2 := snap1 e2 x2 tol h2
    have b3 := snap1 e3 x3 tol h3
    have m1 : |(-tsq) * (2 * e1 * x1 - e1 * e1)| ≤ |tsq| * (tol * (2 * |x1| + tol)) := by
      rw [abs_mul, abs_neg]; exact mul_le_mul_of_nonneg_left b1 (abs_nonneg _)
    calc _ ≤ |(-tsq) * (2 * e1 * x1 - e1 * e1) + (2 * e2 * x2 - e2 * e2)| + |2 * e3 * x3 - e3 * e3| :=
          abs_add_le _ _
      _ ≤ (|(-tsq) * (2 * e1 * x1 - e1 * e1)| + |2 * e2 * x2 - e2 * e2|) + |2 * e3 * x3 - e3 * e3| := by
          gcongr; exact abs_add_le _ _
      _ ≤ _ := by linarith
  have e : (Surface.coneAligned t o' tsq).quadric p - (Surface.coneAligned t o tsq).quadric p
        = (-tsq) * (2 * (o.ax t - o'.ax t) * (p.ax t - o'.ax t) - (o.ax t - o'.ax t) * (o.ax t - o'.ax t))
          + (2 * (o.ax t.U - o'.ax t.U) * (p.ax t.U - o'.ax t.U)
              - (o.ax t.U - o'.ax t.U) * (o.ax t.U - o'.ax t.U))
          + (2 * (o.ax t.V - o'.ax t.V) * (p.ax t.V - o'.ax t.V)
              - (o.ax t.V - o'.ax t.V) * (o.ax t.V - o'.ax t.V)) := by
    cases t <;> simp only [Surface.quadric] <;> vec_simp <;> num_simp <;> ring
  refine ⟨e, ?_⟩
  rw [e]
  cases t <;> simp only [Axis.U, Axis.V, Vec3.ax, Vec3.get, Axis.toNat] <;>
    first
      | exact key _ _ _ _ _ _ hx hy hz
      | exact key _ _ _ _ _ _ hy hx hz
      | exact key _ _ _ _ _ _ hz hx hy

/-- the snapped origin the ConeAligned branch produces is componentwise within tol of the old one -/
theorem zeroSnap_close (tol v : ℝ) (h0 : 0 ≤ tol) : |v - zeroSnap tol v| ≤ tol := by
  unfold zeroSnap softZero
  split
  · next hc => num_simp at hc; rw [NumR.lit0, sub_zero]; exact le_of_lt hc
  · rw [sub_self, abs_zero]; exact h0

/-- plane displacement snapped to 0: the function changes by d (|d| < tol in that branch) -/
theorem perturb_plane_d (n : Vec3 ℝ) (d : ℝ) (p : Vec3 ℝ) :
    (Surface.plane n 0).quadric p - (Surface.plane n d).quadric p = d := by
  simp only [Surface.quadric]; vec_simp; num_simp; ring

/-- plane normal snapping + renormalisation: the result is nf > 0 times the original function
    perturbed by (m − n)·p, and |(m − n)·p| ≤ tol (|x| + |y| + |z|) for m = ZeroSnapper(n) -/
theorem perturb_plane_normal (tol : ℝ) (h0 : 0 ≤ tol) (n : Vec3 ℝ) (d nf : ℝ) (p : Vec3 ℝ) :
    (Surface.plane ⟨zeroSnap tol n.x * nf, zeroSnap tol n.y * nf, zeroSnap tol n.z * nf⟩ (d * nf)).quadric p
        = nf * ((Surface.plane n d).quadric p
            - ((n.x - zeroSnap tol n.x) * p.x + (n.y - zeroSnap tol n.y) * p.y
                + (n.z - zeroSnap tol n.z) * p.z))
    ∧ |(n.x - zeroSnap tol n.x) * p.x + (n.y - zeroSnap tol n.y) * p.y + (n.z - zeroSnap tol n.z) * p.z|
        ≤ tol * (|p.x| + |p.y| + |p.z|) := by
  constructor
  · simp only [Surface.quadric]; vec_simp; num_simp; ring
  · have bx := zeroSnap_close tol n.x h0
    have by' := zeroSnap_close tol n.y h0
    have bz := zeroSnap_close tol n.z h0
    have t1 : |(n.x - zeroSnap tol n.x) * p.x| ≤ tol * |p.x| := by
      rw [abs_mul]; exact mul_le_mul_of_nonneg_right bx (abs_nonneg _)
    have t2 : |(n.y - zeroSnap tol n.y) * p.y| ≤ tol * |p.y| := by
      rw [abs_mul]; exact mul_le_mul_of_nonneg_right by' (abs_nonneg _)
    have t3 : |(n.z - zeroSnap tol n.z) * p.z| ≤ tol * |p.z| := by
      rw [abs_mul]; exact mul_le_mul_of_nonneg_right bz (abs_nonneg _)
    calc _ ≤ |(n.x - zeroSnap tol n.x) * p.x + (n.y - zeroSnap tol n.y) * p.y|
              + |(n.z - zeroSnap tol n.z) * p.z| := abs_add_le _ _
      _ ≤ (|(n.x - zeroSnap tol n.x) * p.x| + |(n.y - zeroSnap tol n.y) * p.y|)
              + |(n.z - zeroSnap tol n.z) * p.z| := by gcongr; exact abs_add_le _ _
      _ ≤ _ := by nlinarith

theorem snap_close (c : Prop) [Decidable c] (v z0 tol : ℝ) (hz : z0 = 0) (h0 : 0 ≤ tol)
    (hc : c → |v| < tol) : |v - (if c then (z0, true) else (v, false)).1| ≤ tol := by
  split
  · next h => subst hz; rw [sub_zero]; exact le_of_lt (hc h)
  · rw [sub_self, abs_zero]; exact h0

theorem softZero_lt {tol v : ℝ} (h : softZero tol v = true) : |v| < tol := by
  unfold softZero at h; num_simp at h; exact h

/-- ConeAligned origin snap: the step returns the cone about an origin o' that is componentwise
    within tol of the old one, and the surface function moves by at most the stated bound -/
theorem perturb_coneAligned (tol : ℝ) (h0 : 0 ≤ tol) (sense : Sense) (t : Axis) (o : Vec3 ℝ)
    (tsq : ℝ) (sense' : Sense) (s' : Surface ℝ)
    (h : simplifyStep tol sense (.coneAligned t o tsq) = some (sense', s')) :
    sense' = sense ∧ ∃ o' : Vec3 ℝ, s' = .coneAligned t o' tsq
      ∧ |o.x - o'.x| ≤ tol ∧ |o.y - o'.y| ≤ tol ∧ |o.z - o'.z| ≤ tol
      ∧ ∀ p : Vec3 ℝ,
        |s'.quadric p - (Surface.coneAligned t o tsq).quadric p|
          ≤ |tsq| * (tol * (2 * |p.ax t - o'.ax t| + tol))
            + tol * (2 * |p.ax t.U - o'.ax t.U| + tol) + tol * (2 * |p.ax t.V - o'.ax t.V| + tol) := by
  simp [simplifyStep] at h
  obtain ⟨-, rfl, rfl⟩ := h
  have bx := snap_close (Num.ne o.x 0 = true ∧ softZero tol o.x = true) o.x 0 tol rfl h0
    (fun hc => softZero_lt hc.2)
  have by' := snap_close (Num.ne o.y 0 = true ∧ softZero tol o.y = true) o.y 0 tol rfl h0
    (fun hc => softZero_lt hc.2)
  have bz := snap_close (Num.ne o.z 0 = true ∧ softZero tol o.z = true) o.z 0 tol rfl h0
    (fun hc => softZero_lt hc.2)
  exact ⟨rfl, _, rfl, bx, by', bz, fun p => (perturb_cone_origin t o _ tsq tol p bx by' bz).2⟩

end CelerVerif.Solids
