/- InitializeTracks as a whole (TrackOrder::none) and one full Stepper step (C02). -/
import CelerVerif.Lemmas.TrackInitStep

namespace CelerVerif.TrackInit

/-- state between `InitializeTracksAction` and the end-of-step action -/
structure Mid (cfg : Cfg) (s : State) : Prop where
  lens : Lens cfg s
  core : Core s s.c.numInitializers
  cap : s.c.numInitializers ≤ cfg.capacity
  occupied : (liveL s.slots).length + s.c.numVacancies = cfg.slots
  active : s.c.numActive = cfg.slots - s.c.numVacancies
  status : ∀ x ∈ s.slots, x.stepOk ∨ x.status = .errored

theorem it_spec_none {cfg : Cfg} {s : State} (hord : cfg.order ≠ .initCharge) (hL : Lens cfg s)
    (hC : Core s s.c.numInitializers) (hcap : s.c.numInitializers ≤ cfg.capacity)
    (hvac : s.vacancies = (List.range cfg.slots).filter
      (fun i => !(s.slots.getD i Slot.empty).active))
    (hnvac : s.c.numVacancies = s.vacancies.length)
    (hst : ∀ x ∈ s.slots, x.stepOk)
    (hocc : (liveL s.slots).length + s.c.numVacancies = cfg.slots) :
    Mid cfg (initializeTracks s) ∧
    (initializeTracks s).c.numInitializers
      = s.c.numInitializers - min s.c.numVacancies s.c.numInitializers ∧
    (initializeTracks s).c.numVacancies
      = s.c.numVacancies - min s.c.numVacancies s.c.numInitializers ∧
    (initializeTracks s).pending = s.pending ∧
    (initializeTracks s).c.numGenerated = s.c.numGenerated := by
  have hso : ¬ s.cfg.order = .initCharge := by rw [hL.cfg_eq]; exact hord
  have hvnd : s.vacancies.Nodup := by rw [hvac]; exact List.Pairwise.sublist List.filter_sublist List.nodup_range
  have hvlt : ∀ v ∈ s.vacancies, v < cfg.slots := by
    intro v hv; rw [hvac] at hv; simpa using (List.mem_filter.mp hv).1
  have hvin : ∀ j, j < s.c.numVacancies - 0 →
      (s.slots.getD (s.vacancies.getD j 0) Slot.empty).active = false := by
    intro j hj
    have hj' : j < s.vacancies.length := by omega
    rw [getD_getElem _ _ _ hj']
    have hm : s.vacancies[j] ∈ (List.range cfg.slots).filter
        (fun i => !(s.slots.getD i Slot.empty).active) := by
      have h1 : s.vacancies[j] ∈ s.vacancies := List.getElem_mem hj'
      exact hvac ▸ h1
    simpa using (List.mem_filter.mp hm).2
  have h0 : ITInv cfg s 0 s :=
    ⟨hL, by simpa using hC, by simp, hvin, ⟨rfl, rfl, rfl, rfl, rfl, rfl, rfl, rfl, rfl⟩,
      fun x hx => Or.inl (hst x hx)⟩
  have hloop := it_loop_none (cfg := cfg) (s0 := s) hord
    (n := min s.c.numVacancies s.c.numInitializers) (Nat.min_le_left _ _) (Nat.min_le_right _ _)
    hcap (by omega) hvnd hvlt (min s.c.numVacancies s.c.numInitializers) (Nat.le_refl _) h0
  unfold initializeTracks
  simp only [hso, if_false]
  by_cases hn : min s.c.numVacancies s.c.numInitializers > 0
  · simp only [hn, if_true]
    generalize (List.range (min s.c.numVacancies s.c.numInitializers)).foldl
      (initTrack s.c (min s.c.numVacancies s.c.numInitializers)) s = s2 at hloop
    obtain ⟨e1, e2, e3, e4, e5, e6, e7, e8, e9⟩ := hloop.same
    refine ⟨⟨⟨hloop.lens.cfg_eq, hloop.lens.slots, hloop.lens.inits, hloop.lens.parents,
      hloop.lens.secCounts, hloop.lens.counters⟩, ?_, ?_, ?_, ?_, hloop.status⟩, ?_, ?_, e4, ?_⟩
    · simp only [e3]
      exact core_frame hloop.core rfl rfl rfl rfl rfl rfl hloop.core.hasId
    · simp only [e3]; omega
    · simp only [e3]
      have := hloop.live
      have hm := Nat.min_le_left s.c.numVacancies s.c.numInitializers
      omega
    · simp only [e3, hloop.lens.cfg_eq]
    · simp only [e3]
    · simp only [e3]
    · simp only [e3]
  · have hz : min s.c.numVacancies s.c.numInitializers = 0 := by omega
    simp only [hn, if_false]
    refine ⟨⟨⟨hL.cfg_eq, hL.slots, hL.inits, hL.parents, hL.secCounts, hL.counters⟩,
      core_frame hC rfl rfl rfl rfl rfl rfl hC.hasId, hcap, hocc, by simp [hL.cfg_eq],
      fun x hx => Or.inl (hst x hx)⟩,
      by simp [hz], by simp [hz], by trivial, by trivial⟩

end CelerVerif.TrackInit
