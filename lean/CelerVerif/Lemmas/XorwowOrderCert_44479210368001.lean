/- kernel-checked inverse certificate: z^((2^160-1)/44479210368001) + 1 is a unit modulo P -/
import CelerVerif.Lemmas.XorwowPeriod

namespace CelerVerif.Xorwow

theorem orderCert_44479210368001 : orderCert 44479210368001 = true := by decide +kernel

end CelerVerif.Xorwow
