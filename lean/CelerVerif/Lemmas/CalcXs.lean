/-
C14 helper lemmas (2): XsCalculator at ℝ — closed form per region, knots, between-ness.
-/
import CelerVerif.Lemmas.CalcBasic

namespace CelerVerif.Calc
open CelerVerif

/-! ### tables -/

/-- i-th table value (`reals[value[i]]`) -/
noncomputable def XsGrid.y (d : XsGrid ℝ) (i : ℕ) : ℝ := d.reals.getD (d.off + i) 0
/-- i-th grid energy `exp(loge_grid[i])` -/
noncomputable def XsGrid.en (d : XsGrid ℝ) (i : ℕ) : ℝ := Real.exp (d.grid.at i)
/-- the unscaled tabulated value `XsCalculator::operator[](i)` -/
noncomputable def XsGrid.knot (d : XsGrid ℝ) (i : ℕ) : ℝ :=
  if i ≥ d.prime then d.y i / d.en i else d.y i

/-- what `XsGridData::operator bool`, `from_bounds` and the collection builder guarantee -/
structure XsGrid.WF (d : XsGrid ℝ) : Prop where
  grid : d.grid.WF
  gsize : d.grid.size = d.size
  inb : d.off + d.size ≤ d.reals.size

/-- positive table -/
def XsGrid.Pos (d : XsGrid ℝ) : Prop := ∀ i, i < d.size → 0 < d.y i
/-- strictly increasing table (range tables) -/
def XsGrid.Incr (d : XsGrid ℝ) : Prop := ∀ i, i + 1 < d.size → d.y i < d.y (i + 1)

namespace XsGrid.WF
variable {d : XsGrid ℝ} (w : d.WF)
include w

theorem size_ge : 2 ≤ d.size := w.gsize ▸ w.grid.size_ge

theorem get_eq {i : ℕ} (h : i < d.size) : d.get i = some (d.y i) := by
  unfold XsGrid.get XsGrid.y
  have : d.off + i < d.reals.size := by have := w.inb; omega
  simp [Array.getD, this]

omit w in
theorem en_pos (i : ℕ) : 0 < d.en i := Real.exp_pos _

theorem en_strictMono {i j : ℕ} (h : i < j) : d.en i < d.en j :=
  Real.exp_lt_exp.mpr (w.grid.at_strictMono h)

theorem en_mono {i j : ℕ} (h : i ≤ j) : d.en i ≤ d.en j :=
  Real.exp_le_exp.mpr (w.grid.at_mono h)

omit w in
theorem log_en (i : ℕ) : Real.log (d.en i) = d.grid.at i := Real.log_exp _

omit w in
theorem knot_pos (hp : d.Pos) {i : ℕ} (h : i < d.size) : 0 < d.knot i := by
  unfold XsGrid.knot
  split
  · exact div_pos (hp i h) (en_pos i)
  · exact hp i h

omit w in
/-- energy bracket ⇔ log-energy bracket -/
theorem log_bracket {e : ℝ} (he : 0 < e) (k : ℕ) :
    (d.grid.at k ≤ Real.log e ↔ d.en k ≤ e) ∧ (Real.log e < d.grid.at k ↔ e < d.en k) := by
  unfold XsGrid.en
  constructor
  · rw [Real.le_log_iff_exp_le he]
  · rw [Real.log_lt_iff_lt_exp he]

/-! ### closed forms of `XsCalculator::operator()` -/

theorem calc_below {e : ℝ} (h : Real.log e ≤ d.grid.front) :
    d.calc floorIdx e = some (if 0 ≥ d.prime then d.y 0 / e else d.y 0) := by
  unfold XsGrid.calc XsGrid.calcExtrapolated
  have h0 : 0 < d.size := by have := w.size_ge; omega
  calc_simp
  rw [if_pos h, w.get_eq h0]
  simp only [Option.map_some]

theorem calc_above {e : ℝ} (h : d.grid.back ≤ Real.log e) :
    d.calc floorIdx e
      = some (if d.size - 1 ≥ d.prime then d.y (d.size - 1) / e else d.y (d.size - 1)) := by
  unfold XsGrid.calc XsGrid.calcExtrapolated
  have h0 : d.size - 1 < d.size := by have := w.size_ge; omega
  have hnot : ¬ Real.log e ≤ d.grid.front := by have := w.grid.lt; linarith
  calc_simp
  rw [if_neg hnot, if_pos h, w.gsize, w.get_eq h0]
  simp only [Option.map_some]

theorem calc_bin {e : ℝ} (h1 : d.grid.front < Real.log e) (h2 : Real.log e < d.grid.back) :
    d.calc floorIdx e
      = some (xsBin d.grid d.prime (d.grid.find floorIdx (Real.log e))
          (d.y (d.grid.find floorIdx (Real.log e)))
          (d.y (d.grid.find floorIdx (Real.log e) + 1)) e) := by
  unfold XsGrid.calc
  obtain ⟨_, _, hk⟩ := w.grid.find_bracket (Real.log e) (le_of_lt h1) h2
  rw [w.gsize] at hk
  calc_simp
  rw [if_neg (not_le.mpr h1), if_neg (not_le.mpr h2), w.get_eq hk, w.get_eq (by omega)]

omit w in
/-- the interpolation in bin `k`, at ℝ -/
theorem xsBin_real (k : ℕ) (yl yu e : ℝ) :
    xsBin d.grid d.prime k yl yu e
      = (if k ≥ d.prime then
          lerp (d.en k) yl (d.en (k + 1)) (if k + 1 = d.prime then yu / d.en (k + 1) else yu) e / e
         else lerp (d.en k) yl (d.en (k + 1)) (if k + 1 = d.prime then yu / d.en (k + 1) else yu) e)
    := by
  unfold xsBin XsGrid.en
  calc_simp

omit w in
/-- value in bin `k` in terms of the neighbouring *unscaled* knot values: below the prime
    index a plain interpolation, at/above it an interpolation of E·σ divided by E -/
theorem xsBin_knots (k : ℕ) (e : ℝ) :
    xsBin d.grid d.prime k (d.y k) (d.y (k + 1)) e
      = (if k ≥ d.prime then
           lerp (d.en k) (d.en k * d.knot k) (d.en (k + 1)) (d.en (k + 1) * d.knot (k + 1)) e / e
         else lerp (d.en k) (d.knot k) (d.en (k + 1)) (d.knot (k + 1)) e) := by
  rw [xsBin_real]
  have hk := (en_pos (d := d) k).ne'
  have hk1 := (en_pos (d := d) (k + 1)).ne'
  unfold XsGrid.knot
  by_cases hp : k ≥ d.prime
  · have hp1 : k + 1 ≥ d.prime := by omega
    have hne : ¬ k + 1 = d.prime := by omega
    simp only [if_pos hp, if_pos hp1, if_neg hne]
    congr 2 <;> field_simp
  · by_cases he : k + 1 = d.prime
    · have hp1 : k + 1 ≥ d.prime := by omega
      simp only [if_neg hp, if_pos he, if_pos hp1]
    · have hp1 : ¬ k + 1 ≥ d.prime := by omega
      simp only [if_neg hp, if_neg he, if_neg hp1]

end XsGrid.WF

/-- weighted mean of two values with non-negative weights lies between them -/
theorem wavg_between (a b wa wb : ℝ) (hwa : 0 ≤ wa) (hwb : 0 ≤ wb) (h : 0 < wa + wb) :
    min a b ≤ (wa * a + wb * b) / (wa + wb) ∧ (wa * a + wb * b) / (wa + wb) ≤ max a b := by
  constructor
  · rw [le_div_iff₀ h]
    nlinarith [mul_le_mul_of_nonneg_left (min_le_left a b) hwa,
      mul_le_mul_of_nonneg_left (min_le_right a b) hwb]
  · rw [div_le_iff₀ h]
    nlinarith [mul_le_mul_of_nonneg_left (le_max_left a b) hwa,
      mul_le_mul_of_nonneg_left (le_max_right a b) hwb]

/-- `lerp (xl, xl·a, xr, xr·b)(x) / x` is a weighted mean of `a` and `b` -/
theorem scaled_lerp_between (xl xr a b x : ℝ) (hxl : 0 < xl) (h : xl < xr) (h1 : xl ≤ x)
    (h2 : x ≤ xr) :
    min a b ≤ lerp xl (xl * a) xr (xr * b) x / x ∧ lerp xl (xl * a) xr (xr * b) x / x ≤ max a b := by
  have hx : 0 < x := lt_of_lt_of_le hxl h1
  have hd : 0 < xr - xl := sub_pos.mpr h
  have key : lerp xl (xl * a) xr (xr * b) x / x
      = (((xr - x) * xl) * a + ((x - xl) * xr) * b) / ((xr - x) * xl + (x - xl) * xr) := by
    rw [lerp_convex _ _ _ _ _ h]
    have e : (xr - x) * xl + (x - xl) * xr = x * (xr - xl) := by ring
    rw [e, div_div]
    congr 1 <;> ring
  rw [key]
  apply wavg_between
  · exact mul_nonneg (sub_nonneg.mpr h2) (le_of_lt hxl)
  · exact mul_nonneg (sub_nonneg.mpr h1) (le_of_lt (lt_trans hxl h))
  · have e : (xr - x) * xl + (x - xl) * xr = x * (xr - xl) := by ring
    rw [e]; exact mul_pos hx hd

end CelerVerif.Calc
