/- kernel-checked inverse certificate: z^((2^160-1)/61681) + 1 is a unit modulo P -/
import CelerVerif.Lemmas.XorwowPeriod

namespace CelerVerif.Xorwow

theorem orderCert_61681 : orderCert 61681 = true := by decide +kernel

end CelerVerif.Xorwow
