/-
Period of the xorshift part: `next` is invertible, `next^[2^160-1] = id`, and for every
prime q | 2^160-1, `next^[(2^160-1)/q]` fixes only the zero state (inverse certificates in
F2[z]/(P), kernel-checked).
-/
import CelerVerif.Lemmas.XorwowCert

namespace CelerVerif.Xorwow
open CelerVerif.Generated.Xorwow

local infixl:65 " ⊞ " => XS.xor

/-- N = 2^160 − 1 -/
def Nper : Nat := 2 ^ 160 - 1

/-- z is invertible modulo P because P has constant term 1: z · (P / 2) = P + 1 -/
theorem z_inverse : 2 * (P / 2) = P ^^^ 1 := by decide

theorem next_left_inverse (x : XS) : ev (P / 2) x.next = x := by
  rw [← ev_double, z_inverse, ev_poly_xor, cayley_hamilton, ev_one, XS.zero_xor]

theorem next_injective {x y : XS} (h : x.next = y.next) : x = y := by
  rw [← next_left_inverse x, ← next_left_inverse y, h]

theorem iter_injective (n : Nat) {x y : XS} (h : iter n x = iter n y) : x = y := by
  induction n generalizing x y with
  | zero => exact h
  | succ n ih => exact next_injective (ih h)

theorem iter_eq_zero (n : Nat) {x : XS} (h : iter n x = XS.zero) : x = XS.zero := by
  apply iter_injective n; rw [h, iter_zero_state]

theorem zpow_N : powZ 161 Nper = some 1 := by decide +kernel

/-- every state returns to itself after 2^160 − 1 steps -/
theorem iter_N (x : XS) : iter Nper x = x := by
  rw [← powZ_sound zpow_N x, ev_one]

/-- general polynomial division (quotient, remainder) by repeated XOR of the shifted divisor;
    only used to produce certificates -/
def pdivmod : Nat → Nat → Nat → Nat × Nat
  | 0, a, _ => (0, a)
  | f + 1, a, p =>
    if a.log2 < p.log2 ∨ a = 0 then (0, a)
    else
      let s := a.log2 - p.log2
      let qr := pdivmod f (a ^^^ (p <<< s)) p
      (qr.1 ^^^ (1 <<< s), qr.2)

/-- extended Euclid in F2[z]: returns s with s·w ≡ gcd(P, w); only used to produce the
    inverse certificate, nothing is proved about it -/
def pegcd : Nat → Nat → Nat → Nat → Nat → Nat
  | 0, _, _, s0, _ => s0
  | f + 1, r0, r1, s0, s1 =>
    if r1 = 0 then s0
    else
      let qr := pdivmod 400 r0 r1
      pegcd f r1 qr.2 s1 (s0 ^^^ clmul 200 qr.1 s1)

/-- certificate that `z^(N/q) + 1` is a unit modulo P -/
def orderCert (q : Nat) : Bool :=
  match powZ 161 (Nper / q) with
  | none => false
  | some r =>
    let w := r ^^^ 1
    let u := (pdivmod 400 (pegcd 400 P w 0 1) P).2
    mulCert u w == some 1

theorem orderCert_sound {q : Nat} (h : orderCert q = true) (x : XS)
    (hx : iter (Nper / q) x = x) : x = XS.zero := by
  unfold orderCert at h
  split at h
  · exact absurd h (by simp)
  · next r hr =>
    have hm := (mulCert_sound (eq_of_beq h)).2 x
    rw [ev_one, ev_poly_xor, powZ_sound hr, hx, ev_one, XS.xor_self, ev_state_zero] at hm
    exact hm

/-- the prime factors of 2^160 − 1 -/
def primeFactorsN : List Nat :=
  [3, 5, 11, 17, 31, 41, 257, 61681, 65537, 414721, 4278255361, 44479210368001]

theorem factorization_N :
    Nper = 3 * 5 ^ 2 * 11 * 17 * 31 * 41 * 257 * 61681 * 65537 * 414721 * 4278255361
      * 44479210368001 := by decide


end CelerVerif.Xorwow
