/-
The parent-pointer walk of `BIHTraverser` (Model/Nav.lean `bihNext` / `bihLoop`) on a
well-formed tree (Model/NavBih.lean): it is the depth-first traversal, it ends within three
loop iterations per node, and it offers every volume whose bounding box contains the point.
The walk lemmas are purely structural and hold for every number type; completeness is at ℝ.
-/
import CelerVerif.Model.NavBih
import CelerVerif.Lemmas.NavCore

namespace CelerVerif.Nav
open CelerVerif CelerVerif.Surf

section generic
variable {α : Type} [Num α]

/-- the tree is what the arrays store below its root id -/
def Repr (u : SimpleUnit α) : BTree α → Prop
  | .leaf id par vs =>
    ¬ id < u.inner.size ∧ par = (u.leafNode id).parent ∧ vs = (u.leafNode id).vols
  | .node id nd l r =>
    id < u.inner.size ∧ nd = u.innerNode id ∧ nd.lchild = some l.id ∧ nd.rchild = some r.id
      ∧ Repr u l ∧ Repr u r

theorem bihTree_repr (u : SimpleUnit α) (f n : Nat) (t : BTree α) (h : bihTree u f n = some t) :
    Repr u t ∧ t.id = n := by
  induction f generalizing n t with
  | zero => simp [bihTree] at h
  | succ f ih =>
    unfold bihTree at h
    by_cases hn : n < u.inner.size
    · simp only [hn, if_true] at h
      cases hl : (u.innerNode n).lchild with
      | none => simp [hl] at h
      | some l =>
        cases hr : (u.innerNode n).rchild with
        | none => simp [hl, hr] at h
        | some r =>
          simp only [hl, hr] at h
          cases htl : bihTree u f l with
          | none => simp [htl] at h
          | some tl =>
            cases htr : bihTree u f r with
            | none => simp [htl, htr] at h
            | some tr =>
              simp only [htl, htr, Option.some.injEq] at h
              subst h
              obtain ⟨rl, il⟩ := ih l tl htl
              obtain ⟨rr, ir⟩ := ih r tr htr
              exact ⟨⟨hn, rfl, by rw [hl, il], by rw [hr, ir], rl, rr⟩, rfl⟩
    · simp only [hn, if_false] at h
      by_cases hlf : n - u.inner.size < u.leaves.size
      · simp only [hlf, if_true, Option.some.injEq] at h
        subst h
        exact ⟨⟨hn, rfl, rfl⟩, rfl⟩
      · simp [hlf] at h

/-- what the loop does after leaving a subtree towards its parent `P` -/
def contAt (u : SimpleUnit α) (p : Vec3 α) (f : Nat) (P : Option Nat) (id : Nat) : List Nat :=
  match P with
  | none => []
  | some q => bihLoop u p f q (some id)

theorem contAt_some (u : SimpleUnit α) (p : Vec3 α) (f q id : Nat) :
    contAt u p f (some q) id = bihLoop u p f q (some id) := rfl

theorem bihLoop_inner (u : SimpleUnit α) (p : Vec3 α) (k id : Nat) (prev : Option Nat)
    (hid : id < u.inner.size) :
    bihLoop u p (k + 1) id prev =
      match bihNext u id prev p with
      | none => []
      | some nxt => bihLoop u p k nxt (some id) := by
  simp only [bihLoop, hid, if_true, List.nil_append]
  cases bihNext u id prev p <;> rfl

theorem steps_le (p : Vec3 α) (t : BTree α) : t.steps p ≤ 3 * t.size := by
  induction t with
  | leaf _ _ _ => simp [BTree.steps, BTree.size]
  | node id nd l r ihl ihr =>
    simp only [BTree.steps, BTree.size]
    split
    · split <;> omega
    · omega

/-- ★ the parent-pointer walk started on entering a subtree from its parent: after exactly
    `steps` iterations it has produced the depth-first candidates of the subtree and stands
    on the parent again, coming from the subtree's root (or has ended, at the root) -/
theorem walk_subtree (u : SimpleUnit α) (p : Vec3 α) (t : BTree α) :
    ∀ (P : Option Nat) (f : Nat), Repr u t → linksOK t P = true →
      bihLoop u p (t.steps p + f) t.id P = t.cands u p ++ contAt u p f P t.id := by
  induction t with
  | leaf id par vs =>
    intro P f hr _
    obtain ⟨hid, _, hvs⟩ := hr
    have hnext : bihNext u id P p = P := by simp [bihNext, hid]
    show bihLoop u p (1 + f) id P = _
    rw [Nat.add_comm]
    simp only [bihLoop, hid, if_false, hnext, BTree.cands, BTree.id, hvs, contAt]
    cases P <;> simp
  | node id nd l r ihl ihr =>
    intro P f hr hl
    obtain ⟨hid, hnd, hlc, hrc, hrl, hrr⟩ := hr
    simp only [linksOK, Bool.and_eq_true, bne_iff_ne, ne_eq, beq_iff_eq] at hl
    obtain ⟨⟨⟨⟨⟨hpar, hne⟩, hlP⟩, hrP⟩, hll⟩, hlr⟩ := hl
    -- the three arrivals at this node
    have v1 : bihNext u id P p
        = if Num.lt (p.get nd.axis) nd.lpos then some l.id else some r.id := by
      simp only [bihNext, hid, if_true, ← hnd, hpar, beq_self_eq_true, hlc, hrc]
    have v2 : bihNext u id (some l.id) p
        = if Num.lt nd.rpos (p.get nd.axis) then some r.id else P := by
      have h1 : (some l.id == P) = false := beq_false_of_ne hlP
      simp only [bihNext, hid, if_true, ← hnd, hpar, h1, Bool.false_eq_true, if_false, hlc,
        beq_self_eq_true, hrc]
    have v3 : bihNext u id (some r.id) p = P := by
      have h1 : (some r.id == P) = false := beq_false_of_ne hrP
      have h2 : (some r.id == some l.id) = false :=
        beq_false_of_ne (fun h => hne (Option.some.inj h).symm)
      simp only [bihNext, hid, if_true, ← hnd, hpar, hlc, h1, h2, Bool.false_eq_true, if_false]
    have fin : ∀ (k : Nat) (prev : Option Nat), bihNext u id prev p = P →
        bihLoop u p (k + 1) id prev = contAt u p k P id := by
      intro k prev hnx
      rw [bihLoop_inner u p k id prev hid, hnx]
      cases P <;> rfl
    show bihLoop u p (BTree.steps p (.node id nd l r) + f) id P = _
    simp only [BTree.steps, BTree.cands, BTree.id]
    by_cases hL : Num.lt (p.get nd.axis) nd.lpos = true
    · simp only [hL, if_true] at v1 ⊢
      by_cases hR : Num.lt nd.rpos (p.get nd.axis) = true
      · simp only [hR, if_true] at v2 ⊢
        have e : 1 + l.steps p + 1 + (r.steps p + 1) + f
            = (l.steps p + ((r.steps p + (f + 1)) + 1)) + 1 := by omega
        rw [e, bihLoop_inner u p _ id P hid, v1]
        simp only []
        rw [ihl (some id) _ hrl hll]
        rw [contAt_some]
        rw [bihLoop_inner u p _ id (some l.id) hid, v2]
        simp only []
        rw [ihr (some id) _ hrr hlr]
        rw [contAt_some]
        rw [fin f (some r.id) v3, List.append_assoc]
      · simp only [hR, Bool.false_eq_true, if_false] at v2 ⊢
        have e : 1 + l.steps p + 1 + 0 + f = (l.steps p + (f + 1)) + 1 := by omega
        rw [e, bihLoop_inner u p _ id P hid, v1]
        simp only []
        rw [ihl (some id) _ hrl hll]
        rw [contAt_some]
        rw [fin f (some l.id) v2, List.append_nil]
    · simp only [hL, Bool.false_eq_true, if_false] at v1 ⊢
      have e : 1 + r.steps p + 1 + f = (r.steps p + (f + 1)) + 1 := by omega
      rw [e, bihLoop_inner u p _ id P hid, v1]
      simp only []
      rw [ihr (some id) _ hrr hlr]
      rw [contAt_some]
      rw [fin f (some r.id) v3]

/-- the tree of a well-formed BIH -/
theorem wellFormed_tree (u : SimpleUnit α) (h : bihWellFormed u = true) :
    ∃ t, bihTree u (u.numNodes + 1) 0 = some t ∧ Repr u t ∧ t.id = 0 ∧ linksOK t none = true
      ∧ coverOK u t = true ∧ t.size = u.numNodes ∧ allVolsPlaced u t = true := by
  unfold bihWellFormed at h
  cases ht : bihTree u (u.numNodes + 1) 0 with
  | none => simp [ht] at h
  | some t =>
    simp only [ht, Bool.and_eq_true, beq_iff_eq] at h
    obtain ⟨⟨⟨h1, h2⟩, h3⟩, h4⟩ := h
    obtain ⟨hr, hid⟩ := bihTree_repr u _ 0 t ht
    exact ⟨t, rfl, hr, hid, h1, h2, h3, h4⟩

/-- the walk from the root with any fuel beyond `steps` gives the depth-first candidates -/
theorem walk_root (u : SimpleUnit α) (p : Vec3 α) (t : BTree α) (hr : Repr u t) (hid : t.id = 0)
    (hl : linksOK t none = true) (f : Nat) :
    bihLoop u p (t.steps p + f) 0 none = t.cands u p := by
  have := walk_subtree u p t none f hr hl
  rw [hid] at this
  simpa [contAt] using this

theorem bihCandidates_eq (u : SimpleUnit α) (h : bihWellFormed u = true) (p : Vec3 α) :
    ∃ t, bihTree u (u.numNodes + 1) 0 = some t ∧
      bihCandidates u p = t.cands u p ++ u.infVols := by
  obtain ⟨t, ht, hr, hid, hl, _, hsz, _⟩ := wellFormed_tree u h
  refine ⟨t, ht, ?_⟩
  unfold bihCandidates
  have hle := steps_le p t
  have hN : u.inner.size + u.leaves.size = u.numNodes := rfl
  have e : 3 * (u.inner.size + u.leaves.size) + 3
      = t.steps p + (3 * u.numNodes + 3 - t.steps p) := by
    rw [hN]; rw [hsz] at hle; omega
  rw [e, walk_root u p t hr hid hl]

end generic

/-! ### completeness at ℝ -/

/-- the walk reaches the leaf of `v`: at every inner node above it the descent rule lets the
    traversal into the child that holds `v` -/
def Clear (p : Vec3 ℝ) (v : ℕ) : BTree ℝ → Prop
  | .leaf _ _ _ => True
  | .node _ nd l r =>
    (v ∈ l.vols → p.get nd.axis < nd.lpos) ∧
    (v ∈ r.vols → p.get nd.axis < nd.lpos → nd.rpos < p.get nd.axis) ∧
    Clear p v l ∧ Clear p v r

theorem cands_of_clear (u : SimpleUnit ℝ) (p : Vec3 ℝ) (v : ℕ) (t : BTree ℝ)
    (hv : v ∈ t.vols) (hin : inBBox (u.vol v) p = true) (hc : Clear p v t) : v ∈ t.cands u p := by
  induction t with
  | leaf id par vs =>
    simp only [BTree.cands, List.mem_filter]
    exact ⟨hv, hin⟩
  | node id nd l r ihl ihr =>
    obtain ⟨c1, c2, cl, cr⟩ := hc
    simp only [BTree.vols, List.mem_append] at hv
    simp only [BTree.cands]
    rcases hv with hv | hv
    · have : Num.lt (p.get nd.axis) nd.lpos = true := by rw [NumR.lt_real]; exact c1 hv
      rw [if_pos this]
      exact List.mem_append_left _ (ihl hv cl)
    · by_cases hL : Num.lt (p.get nd.axis) nd.lpos = true
      · rw [if_pos hL]
        have hlt : p.get nd.axis < nd.lpos := by rwa [NumR.lt_real] at hL
        have : Num.lt nd.rpos (p.get nd.axis) = true := by rw [NumR.lt_real]; exact c2 hv hlt
        rw [if_pos this]
        exact List.mem_append_right _ (ihr hv cr)
      · rw [if_neg hL]
        exact ihr hv cr

/-- strictly inside the bounding box -/
def StrictIn (vol : Volume ℝ) (p : Vec3 ℝ) : Prop :=
  ∀ ax, vol.bbLo.get ax < p.get ax ∧ p.get ax < vol.bbHi.get ax

theorem strictIn_inBBox (vol : Volume ℝ) (p : Vec3 ℝ) (h : StrictIn vol p) :
    inBBox vol p = true := by
  have h0 := h 0
  have h1 := h 1
  have h2 := h 2
  simp only [Vec3.get] at h0 h1 h2
  simp only [inBBox, Bool.and_eq_true, NumR.le_real]
  exact ⟨⟨⟨⟨⟨le_of_lt h0.1, le_of_lt h0.2⟩, le_of_lt h1.1⟩, le_of_lt h1.2⟩, le_of_lt h2.1⟩,
    le_of_lt h2.2⟩

theorem all_true_mem {l : List ℕ} {q : ℕ → Bool} (h : l.all q = true) {v : ℕ} (hv : v ∈ l) :
    q v = true := List.all_eq_true.1 h v hv

theorem clear_of_strict (u : SimpleUnit ℝ) (p : Vec3 ℝ) (v : ℕ) (t : BTree ℝ)
    (hc : coverOK u t = true) (hs : StrictIn (u.vol v) p) : Clear p v t := by
  induction t with
  | leaf _ _ _ => trivial
  | node id nd l r ihl ihr =>
    simp only [coverOK, Bool.and_eq_true] at hc
    obtain ⟨⟨⟨⟨_, hcl⟩, hcr⟩, hl⟩, hr⟩ := hc
    refine ⟨?_, ?_, ihl hl, ihr hr⟩
    · intro hv
      have := all_true_mem hcl hv
      rw [NumR.le_real] at this
      exact lt_of_lt_of_le (hs nd.axis).2 this
    · intro hv _
      have := all_true_mem hcr hv
      rw [NumR.le_real] at this
      exact lt_of_le_of_lt this (hs nd.axis).1

/-- the point is on none of the bounding planes of the tree -/
def OffPlanes (p : Vec3 ℝ) : BTree ℝ → Prop
  | .leaf _ _ _ => True
  | .node _ nd l r =>
    p.get nd.axis ≠ nd.lpos ∧ p.get nd.axis ≠ nd.rpos ∧ OffPlanes p l ∧ OffPlanes p r

theorem inBBox_get (vol : Volume ℝ) (p : Vec3 ℝ) (h : inBBox vol p = true) (ax : ℕ) :
    vol.bbLo.get ax ≤ p.get ax ∧ p.get ax ≤ vol.bbHi.get ax := by
  simp only [inBBox, Bool.and_eq_true, NumR.le_real] at h
  obtain ⟨⟨⟨⟨⟨a, b⟩, c⟩, d⟩, e⟩, f⟩ := h
  match ax with
  | 0 => exact ⟨a, b⟩
  | 1 => exact ⟨c, d⟩
  | (n + 2) => exact ⟨e, f⟩

theorem clear_of_offPlanes (u : SimpleUnit ℝ) (p : Vec3 ℝ) (v : ℕ) (t : BTree ℝ)
    (hc : coverOK u t = true) (hin : inBBox (u.vol v) p = true) (ho : OffPlanes p t) :
    Clear p v t := by
  induction t with
  | leaf _ _ _ => trivial
  | node id nd l r ihl ihr =>
    simp only [coverOK, Bool.and_eq_true] at hc
    obtain ⟨⟨⟨⟨_, hcl⟩, hcr⟩, hl⟩, hr⟩ := hc
    obtain ⟨o1, o2, ol, or'⟩ := ho
    have hb := inBBox_get (u.vol v) p hin nd.axis
    refine ⟨?_, ?_, ihl hl ol, ihr hr or'⟩
    · intro hv
      have := all_true_mem hcl hv
      rw [NumR.le_real] at this
      exact lt_of_le_of_ne (le_trans hb.2 this) o1
    · intro hv _
      have := all_true_mem hcr hv
      rw [NumR.le_real] at this
      exact lt_of_le_of_ne (le_trans this hb.1) (Ne.symm o2)

theorem placed_cases (u : SimpleUnit ℝ) (t : BTree ℝ) (h : allVolsPlaced u t = true) (v : ℕ)
    (hv : v < u.volumes.size) :
    v ∈ u.infVols ∨ v ∈ t.vols ∨ bboxNull (u.vol v) = true := by
  have := List.all_eq_true.1 h v (List.mem_range.2 hv)
  simp only [Bool.or_eq_true, List.contains_iff_mem] at this
  tauto

theorem not_null_of_inBBox (vol : Volume ℝ) (p : Vec3 ℝ) (h : inBBox vol p = true) :
    bboxNull vol = false := by
  have h0 := inBBox_get vol p h 0
  have h1 := inBBox_get vol p h 1
  have h2 := inBBox_get vol p h 2
  simp only [Vec3.get] at h0 h1 h2
  simp only [bboxNull, Bool.not_eq_false', Bool.and_eq_true, NumR.le_real]
  exact ⟨⟨le_trans h0.1 h0.2, le_trans h1.1 h1.2⟩, le_trans h2.1 h2.2⟩

/-! ### what BIHBuilder stores covers the boxes, whatever the partitioner chooses -/

theorem le_maxHi (u : SimpleUnit ℝ) (ax : ℕ) (l : List ℕ) (v : ℕ) (hv : v ∈ l) :
    (u.vol v).bbHi.get ax ≤ maxHi u ax l := by
  induction l with
  | nil => simp at hv
  | cons a t ih =>
    cases t with
    | nil => simp at hv; subst hv; exact le_refl _
    | cons b t' =>
      simp only [maxHi]
      rw [NumR.max_real]
      rcases List.mem_cons.1 hv with rfl | hv
      · exact le_max_left _ _
      · exact le_trans (ih hv) (le_max_right _ _)

theorem minLo_le (u : SimpleUnit ℝ) (ax : ℕ) (l : List ℕ) (v : ℕ) (hv : v ∈ l) :
    minLo u ax l ≤ (u.vol v).bbLo.get ax := by
  induction l with
  | nil => simp at hv
  | cons a t ih =>
    cases t with
    | nil => simp at hv; subst hv; exact le_refl _
    | cons b t' =>
      simp only [minLo]
      rw [NumR.min_real]
      rcases List.mem_cons.1 hv with rfl | hv
      · exact min_le_left _ _
      · exact le_trans (min_le_right _ _) (ih hv)

/-- the partitioner only redistributes the indices it is given -/
def PartSplits (part : List ℕ → Option (ℕ × List ℕ × List ℕ)) : Prop :=
  ∀ idx ax li ri, part idx = some (ax, li, ri) →
    ax < 3 ∧ ∀ v, v ∈ idx ↔ (v ∈ li ∨ v ∈ ri)

theorem buildTree_vols (u : SimpleUnit ℝ) (part : List ℕ → Option (ℕ × List ℕ × List ℕ))
    (hp : PartSplits part) (f : ℕ) (idx : List ℕ) (v : ℕ) :
    v ∈ (buildTree u part f idx).vols ↔ v ∈ idx := by
  induction f generalizing idx with
  | zero => simp [buildTree, BTree.vols]
  | succ f ih =>
    unfold buildTree
    cases hpi : part idx with
    | none => simp [BTree.vols]
    | some r =>
      obtain ⟨ax, li, ri⟩ := r
      simp only [BTree.vols, List.mem_append, ih]
      exact ((hp idx ax li ri hpi).2 v).symm

theorem buildTree_cover (u : SimpleUnit ℝ) (part : List ℕ → Option (ℕ × List ℕ × List ℕ))
    (hp : PartSplits part) (f : ℕ) (idx : List ℕ) :
    coverOK u (buildTree u part f idx) = true := by
  induction f generalizing idx with
  | zero => simp [buildTree, coverOK]
  | succ f ih =>
    unfold buildTree
    cases hpi : part idx with
    | none => simp [coverOK]
    | some r =>
      obtain ⟨ax, li, ri⟩ := r
      simp only [coverOK, Bool.and_eq_true, List.all_eq_true, decide_eq_true_eq]
      refine ⟨⟨⟨⟨(hp idx ax li ri hpi).1, ?_⟩, ?_⟩, ih li⟩, ih ri⟩
      · intro v hv
        rw [NumR.le_real]
        exact le_maxHi u ax li v ((buildTree_vols u part hp f li v).1 hv)
      · intro v hv
        rw [NumR.le_real]
        exact minLo_le u ax ri v ((buildTree_vols u part hp f ri v).1 hv)

end CelerVerif.Nav
