/- Helper lemmas for C18: strict weak orders given as Boolean comparators, sortedness. -/
import CelerVerif.Model.Algo

namespace CelerVerif.Algo
variable {α : Type}

/-- `lt` is a strict weak order (the C++ `Compare` requirement): irreflexive, transitive, and
    incomparability (`¬ a<b ∧ ¬ b<a`) is transitive. -/
structure StrictWeakOrder (lt : α → α → Bool) : Prop where
  irrefl : ∀ a, lt a a = false
  trans : ∀ a b c, lt a b = true → lt b c = true → lt a c = true
  incomp_trans : ∀ a b c, lt a b = false → lt b a = false → lt b c = false → lt c b = false →
    lt a c = false ∧ lt c a = false

namespace StrictWeakOrder
variable {lt : α → α → Bool} (h : StrictWeakOrder lt)
include h

theorem asymm {a b : α} (hab : lt a b = true) : lt b a = false := by
  cases hba : lt b a with
  | false => rfl
  | true => have := h.trans a b a hab hba; simp [h.irrefl] at this

/-- negative transitivity: `a < c → a < b ∨ b < c` -/
theorem neg_trans {a c : α} (b : α) (hac : lt a c = true) : lt a b = true ∨ lt b c = true := by
  cases hab : lt a b with
  | true => exact Or.inl rfl
  | false =>
    cases hbc : lt b c with
    | true => exact Or.inr rfl
    | false =>
      exfalso
      have hba : lt b a = false := by
        cases hba : lt b a with
        | false => rfl
        | true => have := h.trans b a c hba hac; simp [hbc] at this
      have hcb : lt c b = false := by
        cases hcb : lt c b with
        | false => rfl
        | true => have := h.trans a c b hac hcb; simp [hab] at this
      have := (h.incomp_trans a b c hab hba hbc hcb).1
      simp [hac] at this

/-- `¬ b<a → ¬ c<b → ¬ c<a`  (the induced `≤` is transitive) -/
theorem le_trans {a b c : α} (hab : lt b a = false) (hbc : lt c b = false) : lt c a = false := by
  cases hca : lt c a with
  | false => rfl
  | true =>
    rcases h.neg_trans b hca with h1 | h1
    · simp [hbc] at h1
    · simp [hab] at h1

/-- `a ≤ b → b < c → a < c` -/
theorem lt_of_le_of_lt {a b c : α} (hab : lt b a = false) (hbc : lt b c = true) :
    lt a c = true := by
  rcases h.neg_trans a hbc with h1 | h1
  · simp [hab] at h1
  · exact h1

/-- `a < b → b ≤ c → a < c` -/
theorem lt_of_lt_of_le {a b c : α} (hab : lt a b = true) (hbc : lt c b = false) :
    lt a c = true := by
  rcases h.neg_trans c hab with h1 | h1
  · exact h1
  · simp [hbc] at h1

theorem le_total (a b : α) : lt a b = false ∨ lt b a = false := by
  cases hab : lt a b with
  | false => exact Or.inl rfl
  | true => exact Or.inr (h.asymm hab)

theorem le_refl (a : α) : lt a a = false := h.irrefl a

theorem le_of_lt {a b : α} (hab : lt a b = true) : lt b a = false := h.asymm hab

end StrictWeakOrder

/-- `std::is_sorted` with comparator `lt`: no later element is ordered before an earlier one -/
def SortedBy [Inhabited α] (lt : α → α → Bool) (a : Array α) : Prop :=
  ∀ i j, i < j → j < a.size → lt a[j]! a[i]! = false

/-- the equivalence induced by a strict weak order -/
def Equiv (lt : α → α → Bool) (x y : α) : Prop := lt x y = false ∧ lt y x = false

/-- `<` on `Int` / `Nat` as Boolean comparators are strict weak orders -/
theorem swo_int_lt : StrictWeakOrder (fun (a b : Int) => decide (a < b)) :=
  ⟨by simp, by simp; omega, by simp; omega⟩

theorem swo_nat_lt : StrictWeakOrder (fun (a b : Nat) => decide (a < b)) :=
  ⟨by simp, by simp; omega, by simp; omega⟩

theorem swo_int_gt : StrictWeakOrder (fun (a b : Int) => decide (a > b)) :=
  ⟨by simp, by simp; omega, by simp; omega⟩

/-- the indirect comparator of `SimpleUnitTracker` (`key[a] < key[b]`) is a strict weak order
    whenever the key comparison is -/
theorem swo_comap {β : Type} {lt : β → β → Bool} (h : StrictWeakOrder lt) (f : α → β) :
    StrictWeakOrder (fun a b => lt (f a) (f b)) :=
  ⟨fun _ => h.irrefl _, fun _ _ _ => h.trans _ _ _, fun _ _ _ => h.incomp_trans _ _ _⟩

end CelerVerif.Algo
