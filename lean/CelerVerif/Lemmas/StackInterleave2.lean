/- Interleaving semantics: steps that do not change a thread's attributes (C16). -/
import CelerVerif.Lemmas.StackInterleave

namespace CelerVerif.Stack

/-- the sums after thread `i` was replaced -/
theorem sums_set (cap : Nat) (l : List Thread) (i : Nat) (hi : i < l.length) (t' : Thread) :
    sumF (l.set i t') + fOf l[i] = sumF l + fOf t' ∧
    sumG cap (l.set i t') + gOf cap l[i] = sumG cap l + gOf cap t' ∧
    sumO cap (l.set i t') + oOf cap l[i] = sumO cap l + oOf cap t' ∧
    total (l.set i t') + (l[i]).n = total l + t'.n :=
  ⟨sum_map_set fOf l i hi t', sum_map_set (gOf cap) l i hi t', sum_map_set (oOf cap) l i hi t',
   sum_map_set (·.n) l i hi t'⟩

/-- a step that keeps every attribute of the thread (the `check` step, and steps of finished
    threads) keeps the invariant -/
theorem iinv_same {base cap tot : Nat} {s : Sys} (hI : IInv base cap tot s) (i : Nat)
    (hi : i < s.threads.length) (t' : Thread)
    (hn : t'.n = (s.threads[i]).n) (hf : fOf t' = fOf s.threads[i])
    (hc : committedB cap t' = committedB cap s.threads[i])
    (ho : overB cap t' = overB cap s.threads[i])
    (hs : committedB cap t' = true ∨ overB cap t' = true → startOf t' = startOf s.threads[i])
    (hfe : ∀ a, t'.pc = .fetched a → (s.threads[i]).pc = .fetched a) :
    IInv base cap tot { s with threads := s.threads.set i t' } := by
  obtain ⟨e1, e2, e3, e4⟩ := sums_set cap s.threads i hi t'
  have hg : gOf cap t' = gOf cap s.threads[i] := by unfold gOf; rw [hc, hn]
  have hoo : oOf cap t' = oOf cap s.threads[i] := by unfold oOf; rw [ho]
  have eF : sumF (s.threads.set i t') = sumF s.threads := by omega
  have eG : sumG cap (s.threads.set i t') = sumG cap s.threads := by omega
  have eO : sumO cap (s.threads.set i t') = sumO cap s.threads := by omega
  have eT : total (s.threads.set i t') = total s.threads := by omega
  have hmem : s.threads[i] ∈ s.threads := List.getElem_mem hi
  refine ⟨hI.cap_eq, ?_, ?_, ?_, ?_, ?_, ?_, ?_, ?_⟩
  · show total (s.threads.set i t') = tot
    rw [eT]; exact hI.tot_eq
  · show s.size ≤ base + sumF (s.threads.set i t')
    rw [eF]; exact hI.size_le
  · intro t ht a hpc
    show a + t.n ≤ base + sumF (s.threads.set i t')
    rw [eF]
    rcases List.mem_or_eq_of_mem_set ht with h | h
    · exact hI.fetched_le t h a hpc
    · subst h
      rw [hn]
      exact hI.fetched_le _ hmem a (hfe a hpc)
  · intro t ht hct
    show base ≤ startOf t ∧ startOf t + t.n ≤ base + sumG cap (s.threads.set i t')
    rw [eG]
    rcases List.mem_or_eq_of_mem_set ht with h | h
    · exact hI.range t h hct
    · subst h
      rw [hs (Or.inl hct), hn]
      exact hI.range _ hmem (by rw [← hc]; exact hct)
  · intro a b ta tb hab ha hb hca hcb
    rcases getElem?_set_cases _ _ _ _ _ hi ha with ⟨rfl, rfl⟩ | ⟨hai, ha'⟩ <;>
      rcases getElem?_set_cases _ _ _ _ _ hi hb with ⟨rfl, rfl⟩ | ⟨hbi, hb'⟩
    · exact absurd rfl hab
    · rw [hs (Or.inl hca), hn]
      exact hI.disj _ b _ tb hab (List.getElem?_eq_getElem hi) hb' (by rw [← hc]; exact hca) hcb
    · rw [hs (Or.inl hcb), hn]
      exact hI.disj a _ ta _ hab ha' (List.getElem?_eq_getElem hi) hca (by rw [← hc]; exact hcb)
    · exact hI.disj a b ta tb hab ha' hb' hca hcb
  · show base + sumG cap (s.threads.set i t') ≤ cap
    rw [eG]; exact hI.l_le
  · intro t ht hot
    show startOf t = base + sumG cap (s.threads.set i t')
    rw [eG]
    rcases List.mem_or_eq_of_mem_set ht with h | h
    · exact hI.over_start t h hot
    · subst h
      rw [hs (Or.inr hot)]
      exact hI.over_start _ hmem (by rw [← ho]; exact hot)
  · show (s.size = base + sumG cap (s.threads.set i t') ∧ sumO cap (s.threads.set i t') = 0) ∨
      (cap < s.size ∧ sumO cap (s.threads.set i t') = 1)
    rw [eG, eO]; exact hI.mode

end CelerVerif.Stack
