/- kernel-checked inverse certificate: z^((2^160-1)/3) + 1 is a unit modulo P -/
import CelerVerif.Lemmas.XorwowPeriod

namespace CelerVerif.Xorwow

theorem orderCert_3 : orderCert 3 = true := by decide +kernel

end CelerVerif.Xorwow
