/- One Stepper step preserves the invariant (C02). -/
import CelerVerif.Lemmas.TrackInitIT

namespace CelerVerif.TrackInit

/-- the invariant that holds between Stepper steps -/
structure Inv (cfg : Cfg) (s : State) : Prop where
  lens : Lens cfg s
  core : Core s s.c.numInitializers
  cap : s.c.numInitializers ≤ cfg.capacity
  vac : s.vacancies = (List.range cfg.slots).filter
    (fun i => !(s.slots.getD i Slot.empty).active)
  nvac : s.c.numVacancies = s.vacancies.length
  status : ∀ x ∈ s.slots, x.stepOk
  pending : s.pending = []
  occupied : (liveL s.slots).length + s.c.numVacancies = cfg.slots

theorem filter_split_length (l : List Slot) :
    (l.filter Slot.active).length + (l.filter (fun x => !x.active)).length = l.length := by
  induction l with
  | nil => rfl
  | cons a l ih =>
    simp only [List.filter_cons]
    by_cases h : a.active = true <;> simp [h] <;> omega

theorem filter_active_length (l : List Slot) :
    (liveL l).length + ((List.range l.length).filter
      (fun i => !(l.getD i Slot.empty).active)).length = l.length := by
  have h1 : (l.filter (fun x => !x.active)).length
      = ((List.range l.length).filter (fun i => !(l.getD i Slot.empty).active)).length := by
    have h2 : (List.range l.length).map (fun i => l.getD i Slot.empty) = l := by
      have := map_range_getD' l Slot.empty id
      simpa using this
    have h3 : (l.filter (fun x => !x.active)).length
        = (((List.range l.length).map (fun i => l.getD i Slot.empty)).filter
            (fun x => !x.active)).length := by rw [h2]
    rw [h3, List.filter_map, List.length_map]
    rfl
  rw [← h1]
  unfold liveL
  rw [List.length_map]
  exact filter_split_length l

theorem liveL_zipWith_mem {β} (f : Slot → β → Slot) (l : List Slot) (o : List β)
    (hlen : l.length ≤ o.length)
    (h : ∀ x ∈ l, ∀ b ∈ o, (f x b).active = x.active ∧ (f x b).ident = x.ident) :
    liveL (List.zipWith f l o) = liveL l := by
  induction l generalizing o with
  | nil => simp [liveL_nil]
  | cons a l ih =>
    cases o with
    | nil => simp at hlen
    | cons b o =>
      have ha := h a (by simp) b (by simp)
      simp only [List.zipWith_cons_cons, liveL_cons, ha.1, ha.2]
      simp at hlen
      rw [ih o hlen (fun x hx b' hb' => h x (by simp [hx]) b' (by simp [hb']))]

theorem all_zipWith {α β γ} (f : α → β → γ) (P : γ → Prop) (l : List α) (o : List β)
    (h : ∀ a ∈ l, ∀ b ∈ o, P (f a b)) : ∀ x ∈ List.zipWith f l o, P x := by
  induction l generalizing o with
  | nil => simp
  | cons a l ih =>
    cases o with
    | nil => simp
    | cons b o =>
      intro x hx
      simp only [List.zipWith_cons_cons, List.mem_cons] at hx
      rcases hx with rfl | hx
      · exact h a (by simp) b (by simp)
      · exact ih o (fun a' ha' b' hb' => h a' (by simp [ha']) b' (by simp [hb'])) x hx

/-- pre-step, physics oracle and tracking cut keep the accounting and produce end-of-step
    statuses -/
theorem front_keeps {cfg : Cfg} {s : State} {ni : Nat} (hL : Lens cfg s) (hC : Core s ni)
    (o : List Outcome) (ho : OracleOk o) :
    Lens cfg (trackingCut (interact o (preStep s))) ∧
    Core (trackingCut (interact o (preStep s))) ni ∧
    (∀ x ∈ (trackingCut (interact o (preStep s))).slots, x.endOk) ∧
    liveL (trackingCut (interact o (preStep s))).slots = liveL s.slots ∧
    (trackingCut (interact o (preStep s))).c = s.c ∧
    (trackingCut (interact o (preStep s))).pending = s.pending := by
  have hpadlen : (s.slots.map preStepSlot).length ≤
      (o ++ List.replicate ((s.slots.map preStepSlot).length - o.length)
        (⟨.alive, []⟩ : Outcome)).length := by
    simp; omega
  have hpad : ∀ b ∈ o ++ List.replicate ((s.slots.map preStepSlot).length - o.length)
      (⟨.alive, []⟩ : Outcome), b.status = .alive ∨ b.status = .killed ∨ b.status = .errored := by
    intro b hb
    rcases List.mem_append.mp hb with h | h
    · exact ho b h
    · rw [List.mem_replicate] at h; left; rw [h.2]
  have hlive : liveL (trackingCut (interact o (preStep s))).slots = liveL s.slots := by
    simp only [trackingCut, interact, preStep]
    rw [liveL_map cutSlot _ (fun x _ => ⟨(cutSlot_keeps x).1, (cutSlot_keeps x).2.1⟩)]
    have hall : ∀ x ∈ s.slots.map preStepSlot, ∀ b ∈ o ++ List.replicate
        ((s.slots.map preStepSlot).length - o.length) (⟨.alive, []⟩ : Outcome),
        (interactSlot x b).active = x.active ∧ (interactSlot x b).ident = x.ident := by
      intro x _ b hb
      exact ⟨(interactSlot_keeps x b (hpad b hb)).1, (interactSlot_keeps x b (hpad b hb)).2.1⟩
    have := liveL_zipWith_mem interactSlot (s.slots.map preStepSlot) _ hpadlen hall
    rw [this]
    exact liveL_map preStepSlot _ (fun x _ => ⟨(preStepSlot_keeps x).1, (preStepSlot_keeps x).2.1⟩)
  have hend : ∀ x ∈ (trackingCut (interact o (preStep s))).slots, x.endOk := by
    simp only [trackingCut, interact, preStep]
    intro x hx
    obtain ⟨z, hz, rfl⟩ := List.mem_map.mp hx
    have := all_zipWith interactSlot (fun z => (cutSlot z).endOk) (s.slots.map preStepSlot) _
      (by
        intro a ha b hb
        obtain ⟨a0, _, rfl⟩ := List.mem_map.mp ha
        have hb' := hpad b hb
        unfold Slot.endOk cutSlot interactSlot preStepSlot
        cases h : a0.status <;> rcases hb' with h2 | h2 | h2 <;> simp [h, h2]) z hz
    exact this
  have hid : ∀ x ∈ (trackingCut (interact o (preStep s))).slots,
      x.active = true → x.tid.isSome = true := by
    simp only [trackingCut, interact, preStep]
    intro x hx hxa
    obtain ⟨z, hz, rfl⟩ := List.mem_map.mp hx
    have := all_zipWith interactSlot
      (fun z => (cutSlot z).active = true → (cutSlot z).tid.isSome = true)
      (s.slots.map preStepSlot) _
      (by
        intro a ha b hb
        obtain ⟨a0, ha0, rfl⟩ := List.mem_map.mp ha
        have k1 := cutSlot_keeps (interactSlot (preStepSlot a0) b)
        have k2 := interactSlot_keeps (preStepSlot a0) b (hpad b hb)
        have k3 := preStepSlot_keeps a0
        rw [k1.1, k1.2.2, k2.1, k2.2.2, k3.1, k3.2.2]
        exact hC.hasId a0 ha0) z hz
    exact this hxa
  refine ⟨⟨hL.cfg_eq, ?_, hL.inits, hL.parents, hL.secCounts, hL.counters⟩, ?_, hend, hlive,
    rfl, rfl⟩
  · simp only [trackingCut, interact, preStep, List.length_map, List.length_zipWith]
    rw [List.length_map] at hpadlen
    have := hL.slots; omega
  · exact core_frame hC rfl rfl rfl rfl rfl hlive hid

end CelerVerif.TrackInit
