/-
C10 helper lemmas, part 2: `CsgTree::insert`, `exchange`, `simplify(NodeId)` keep the structural
invariant, keep every model of the tree a model (so node values are preserved) and keep the
dedup map sound; ordering (`Sorted`) is kept by `insert`, and by `exchange` when the
swap-with-higher-duplicate branch is ordered (`SwapSafe`).
-/
import CelerVerif.Lemmas.CsgBasic

namespace CelerVerif.Csg

/-! ### basic tree accessors -/

@[simp] theorem size_setNode (t : Tree) (i : Nat) (n : Node) : (t.setNode i n).size = t.size := by
  simp [Tree.setNode, Tree.size]

@[simp] theorem ids_setNode (t : Tree) (i : Nat) (n : Node) : (t.setNode i n).ids = t.ids := rfl

@[simp] theorem size_setId (t : Tree) (k : Node) (v : Nat) : (t.setId k v).size = t.size := rfl
@[simp] theorem get_setId (t : Tree) (k : Node) (v : Nat) (j : Nat) : (t.setId k v).get j = t.get j := rfl
@[simp] theorem size_addId (t : Tree) (k : Node) (v : Nat) : (t.addId k v).size = t.size := rfl
@[simp] theorem get_addId (t : Tree) (k : Node) (v : Nat) (j : Nat) : (t.addId k v).get j = t.get j := rfl
@[simp] theorem ids_addId (t : Tree) (k : Node) (v : Nat) : (t.addId k v).ids = (k, v) :: t.ids := rfl

theorem get_setNode (t : Tree) (i : Nat) (n : Node) (j : Nat) (hi : i < t.size) :
    (t.setNode i n).get j = if j = i then n else t.get j := by
  unfold Tree.get Tree.setNode
  simp only [List.getD_eq_getElem?_getD, List.getElem?_set]
  by_cases h : i = j
  · subst h; simp [Tree.size] at hi; simp [hi]
  · have h' : ¬ j = i := fun e => h e.symm
    simp [h, h']

theorem lookup_some {t : Tree} {k : Node} {id : Nat} (h : t.lookup k = some id) :
    (k, id) ∈ t.ids := by
  unfold Tree.lookup at h
  split at h
  · rename_i e he
    have hm := List.mem_of_find?_eq_some he
    have hk := List.find?_some he
    simp at hk h
    subst h
    rcases e with ⟨a, b⟩
    simp at hk; subst hk; exact hm
  · cases h

theorem lookup_none {t : Tree} {k : Node} (h : t.lookup k = none) : ∀ e ∈ t.ids, e.1 ≠ k := by
  unfold Tree.lookup at h
  split at h
  · cases h
  · rename_i he
    intro e hm hk
    have := List.find?_eq_none.1 he e hm
    simp [hk] at this

/-! ### children of the simplified node -/

theorem simplified_children {t : Tree} (s : Struct t) (n : Node) (P : Nat → Prop)
    (h0 : P 0) (h1 : P 1) (hsz : ∀ c ∈ n.children, c < t.size)
    (hP : ∀ c ∈ n.children, P c ∧ ∀ c' ∈ (t.get c).children, P c') :
    ∀ c ∈ (simplified t n).children, P c := by
  unfold simplified
  simp only
  split
  · rename_i hne
    cases n with
    | tru => exact absurd rfl hne
    | fls => exact absurd rfl hne
    | surface k => exact absurd rfl hne
    | aliased a =>
      simp only [simplifyNode, aliasTarget]
      have := (hP a (by simp [Node.children])).2
      cases hg : t.get a with
      | aliased b =>
        rw [hg] at this
        simpa [Node.children] using this
      | _ => simp [simplifyNode, aliasTarget, hg, noSimp] at hne
    | negated m =>
      simp only [simplifyNode, simplifyNegated]
      have := (hP m (by simp [Node.children])).2
      cases hg : t.get m with
      | tru => simp [Node.children]
      | fls => simp [Node.children]
      | aliased a => rw [hg] at this; simpa [Node.children] using this
      | negated k => rw [hg] at this; simpa [Node.children] using this
      | surface k => simp [simplifyNode, simplifyNegated, hg] at hne
      | joined op ns => simp [simplifyNode, simplifyNegated, hg] at hne
    | joined op ns =>
      have hns : ∀ c ∈ ns, c < t.size := fun c hc => hsz c (by simpa [Node.children] using hc)
      have hmem := mem_cleanOperands s op ns hns
      have hrepl : ∀ x ∈ ns.map (replAlias t), P x := by
        intro x hx
        rcases List.mem_map.1 hx with ⟨c, hc, rfl⟩
        have hc' := hP c (by simpa [Node.children] using hc)
        unfold replAlias aliasTarget
        cases hg : t.get c with
        | aliased a =>
          simp only
          split
          · exact hc'.2 a (by simp [hg, Node.children])
          · exact hc'.1
        | _ => simpa using hc'.1
      simp only [simplifyNode, simplifyJoined]
      split
      · cases op <;> simpa [Node.children, constantId]
      · generalize cleanOperands t op ns = res at hmem
        split
        · cases op <;> simpa [Node.children, ignoreId]
        · rename_i x
          have : x ∈ [x] := by simp
          simpa [Node.children] using hrepl x ((hmem x).1 this).1
        · intro c hc
          exact hrepl c ((hmem c).1 (by simpa [Node.children] using hc)).1
  · intro c hc; exact (hP c hc).1

/-! ### elementary updates -/

theorem models_setNode {t σ v} (h : Models t σ v) {i : Nat} {m : Node} (hi : i < t.size)
    (hv : v i = evalNode σ v m) : Models (t.setNode i m) σ v := by
  intro j hj
  rw [size_setNode] at hj
  rw [get_setNode t i m j hi]
  split
  · rename_i e; subst e; exact hv
  · exact h j hj

theorem struct_setNode {t} (s : Struct t) {i : Nat} {m : Node} (h2 : 2 ≤ i) (hi : i < t.size)
    (hm : ∀ c ∈ m.children, c < t.size) : Struct (t.setNode i m) where
  base0 := by rw [get_setNode t i m 0 hi, if_neg (by omega)]; exact s.base0
  base1 := by rw [get_setNode t i m 1 hi, if_neg (by omega)]; exact s.base1
  size2 := by rw [size_setNode]; exact s.size2
  small := by rw [size_setNode]; exact s.small
  closed := by
    intro j hj c hc
    rw [size_setNode] at hj ⊢
    rw [get_setNode t i m j hi] at hc
    split at hc
    · exact hm c hc
    · exact s.closed j hj c hc
  idsRange := by intro e he; rw [size_setNode]; exact s.idsRange e he
  keysClosed := by intro e he c hc; rw [size_setNode]; exact s.keysClosed e he c hc

theorem sorted_setNode {t} (h : Sorted t) {i : Nat} {m : Node} (hi : i < t.size)
    (hm : ∀ c ∈ m.children, c < i) : Sorted (t.setNode i m) := by
  intro j hj c hc
  rw [size_setNode] at hj
  rw [get_setNode t i m j hi] at hc
  split at hc
  · rename_i e; subst e; exact hm c hc
  · exact h j hj c hc

theorem struct_addId {t} (s : Struct t) {k : Node} {id : Nat} (hid : id < t.size)
    (hk : ∀ c ∈ k.children, c < t.size) : Struct (t.addId k id) where
  base0 := s.base0
  base1 := s.base1
  size2 := s.size2
  small := s.small
  closed := s.closed
  idsRange := by
    intro e he
    rcases List.mem_cons.1 he with rfl | he
    · exact hid
    · exact s.idsRange e he
  keysClosed := by
    intro e he
    rcases List.mem_cons.1 he with rfl | he
    · exact hk
    · exact s.keysClosed e he

theorem struct_setId {t} (s : Struct t) {k : Node} {id : Nat} (hid : id < t.size) :
    Struct (t.setId k id) where
  base0 := s.base0
  base1 := s.base1
  size2 := s.size2
  small := s.small
  closed := s.closed
  idsRange := by
    intro e he
    simp only [Tree.setId, List.mem_map] at he
    rcases he with ⟨e0, he0, rfl⟩
    split
    · exact hid
    · exact s.idsRange e0 he0
  keysClosed := by
    intro e he
    simp only [Tree.setId, List.mem_map] at he
    rcases he with ⟨e0, he0, rfl⟩
    split
    · exact s.keysClosed e0 he0
    · exact s.keysClosed e0 he0

theorem mapSound_addId {t σ v} (h : MapSound t σ v) {k : Node} {id : Nat}
    (hk : evalNode σ v k = v id) : MapSound (t.addId k id) σ v := by
  intro e he
  rcases List.mem_cons.1 he with rfl | he
  · exact hk
  · exact h e he

theorem mapSound_setId {t σ v} (h : MapSound t σ v) {k : Node} {id : Nat}
    (hk : evalNode σ v k = v id) : MapSound (t.setId k id) σ v := by
  intro e he
  simp only [Tree.setId, List.mem_map] at he
  rcases he with ⟨e0, he0, rfl⟩
  split
  · rename_i e1; simp only; rw [e1]; exact hk
  · exact h e0 he0

/-! ### exchange -/

/-- the five branches of `CsgTree::exchange` -/
theorem exchange_spec (t : Tree) (nodeId : Nat) (n : Node) :
    (∃ a, simplified t n = .aliased a ∧ (exchange t nodeId n).1 = t.setNode nodeId (.aliased a)) ∨
    (t.lookup (simplified t n) = none ∧
      (exchange t nodeId n).1 = (t.addId (simplified t n) nodeId).setNode nodeId (simplified t n)) ∨
    (t.lookup (simplified t n) = some nodeId ∧ (exchange t nodeId n).1 = t) ∨
    (∃ other, t.lookup (simplified t n) = some other ∧ nodeId < other ∧
      (exchange t nodeId n).1 =
        ((((t.setNode other (t.get nodeId)).setNode nodeId (t.get other)).setId
          (simplified t n) nodeId).setNode other (.aliased nodeId))) ∨
    (∃ other, t.lookup (simplified t n) = some other ∧ other < nodeId ∧
      (exchange t nodeId n).1 = t.setNode nodeId (.aliased other)) := by
  unfold exchange
  simp only
  generalize simplified t n = n'
  cases n' with
  | aliased a => left; exact ⟨a, rfl, rfl⟩
  | tru | fls | negated _ | surface _ | joined _ _ =>
    right
    simp only
    cases hl : t.lookup _ with
    | none => left; exact ⟨rfl, rfl⟩
    | some other =>
      right
      simp only
      by_cases h1 : other = nodeId
      · left; subst h1; simp
      · right
        rw [if_neg h1]
        by_cases h2 : other > nodeId
        · left; rw [if_pos h2]; exact ⟨other, rfl, h2, rfl⟩
        · right; rw [if_neg h2]; exact ⟨other, rfl, by omega, rfl⟩

theorem exchange_size (t : Tree) (nodeId : Nat) (n : Node) :
    (exchange t nodeId n).1.size = t.size := by
  rcases exchange_spec t nodeId n with ⟨a, _, h⟩ | ⟨_, h⟩ | ⟨_, h⟩ | ⟨o, _, _, h⟩ | ⟨o, _, _, h⟩ <;>
    rw [h] <;> simp

theorem exchange_volumes (t : Tree) (nodeId : Nat) (n : Node) :
    (exchange t nodeId n).1.volumes = t.volumes := by
  rcases exchange_spec t nodeId n with ⟨a, _, h⟩ | ⟨_, h⟩ | ⟨_, h⟩ | ⟨o, _, _, h⟩ | ⟨o, _, _, h⟩ <;>
    rw [h] <;> rfl

theorem simplified_children_lt {t : Tree} (s : Struct t) (n : Node)
    (hn : ∀ c ∈ n.children, c < t.size) : ∀ c ∈ (simplified t n).children, c < t.size := by
  have h2 := s.size2
  apply simplified_children s n (· < t.size) (by omega) (by omega) hn
  intro c hc
  exact ⟨hn c hc, s.closed c (hn c hc)⟩

/-- `exchange` keeps the structural invariant -/
theorem exchange_struct {t : Tree} (s : Struct t) {nodeId : Nat} {n : Node} (h2 : 2 ≤ nodeId)
    (hi : nodeId < t.size) (hn : ∀ c ∈ n.children, c < t.size) :
    Struct (exchange t nodeId n).1 := by
  have hch := simplified_children_lt s n hn
  rcases exchange_spec t nodeId n with ⟨a, ha, h⟩ | ⟨_, h⟩ | ⟨_, h⟩ | ⟨o, ho, hlt, h⟩ | ⟨o, ho, hlt, h⟩ <;>
    rw [h]
  · apply struct_setNode s h2 hi
    rw [ha] at hch; simpa [Node.children] using hch
  · apply struct_setNode (struct_addId s hi hch) h2 (by simpa using hi)
    simpa using hch
  · exact s
  · have hoR : o < t.size := s.idsRange _ (lookup_some ho)
    have s1 := struct_setNode s (i := o) (m := t.get nodeId) (by omega) hoR (s.closed nodeId hi)
    have s2 := struct_setNode s1 (i := nodeId) (m := t.get o) h2 (by simpa using hi)
      (by simpa using s.closed o hoR)
    have s3 := struct_setId s2 (k := simplified t n) (id := nodeId) (by simpa using hi)
    apply struct_setNode s3 (by omega) (by simpa using hoR)
    simpa [Node.children] using hi
  · have hoR : o < t.size := s.idsRange _ (lookup_some ho)
    apply struct_setNode s h2 hi
    simpa [Node.children] using hoR

/-- `exchange` with a node of equal value keeps every model and the soundness of the map -/
theorem exchange_models {t : Tree} {σ v : Nat → Bool} (s : Struct t) (hm : Models t σ v)
    (hs : MapSound t σ v) {nodeId : Nat} {n : Node} (hi : nodeId < t.size)
    (hn : ∀ c ∈ n.children, c < t.size) (heq : evalNode σ v n = v nodeId) :
    Models (exchange t nodeId n).1 σ v ∧ MapSound (exchange t nodeId n).1 σ v := by
  have hval : evalNode σ v (simplified t n) = v nodeId := by rw [simplified_sound hm s n hn, heq]
  rcases exchange_spec t nodeId n with ⟨a, ha, h⟩ | ⟨_, h⟩ | ⟨_, h⟩ | ⟨o, ho, hlt, h⟩ | ⟨o, ho, hlt, h⟩ <;>
    rw [h]
  · refine ⟨models_setNode hm hi ?_, hs⟩
    rw [← hval, ha]
  · refine ⟨models_setNode (t := t.addId _ _) hm (by simpa using hi) hval.symm, ?_⟩
    exact mapSound_addId hs hval
  · exact ⟨hm, hs⟩
  · have hoR : o < t.size := s.idsRange _ (lookup_some ho)
    have hvo : v o = v nodeId := by rw [← hs _ (lookup_some ho)]; exact hval
    have m1 : Models (t.setNode o (t.get nodeId)) σ v :=
      models_setNode hm hoR (by rw [hvo]; exact hm nodeId hi)
    have m2 : Models ((t.setNode o (t.get nodeId)).setNode nodeId (t.get o)) σ v :=
      models_setNode m1 (by simpa using hi) (by rw [← hvo]; exact hm o hoR)
    have m3 : Models (((t.setNode o (t.get nodeId)).setNode nodeId (t.get o)).setId
        (simplified t n) nodeId) σ v := m2
    refine ⟨models_setNode m3 (by simpa using hoR) (by simpa [evalNode] using hvo), ?_⟩
    exact mapSound_setId (t := (t.setNode o (t.get nodeId)).setNode nodeId (t.get o)) hs hval
  · have hvo : v o = v nodeId := by rw [← hs _ (lookup_some ho)]; exact hval
    exact ⟨models_setNode hm hi (by simpa [evalNode] using hvo.symm), hs⟩

/-- the swap branch of `exchange` is order-preserving: the definition taken over from the higher
    duplicate only mentions nodes below `nodeId` -/
def SwapSafe (t : Tree) (nodeId : Nat) (n : Node) : Prop :=
  ∀ other, t.lookup (simplified t n) = some other → nodeId < other →
    ∀ c ∈ (t.get other).children, c < nodeId

/-- `exchange` keeps the topological order when the new node only mentions lower ids and the
    swap branch is ordered -/
theorem exchange_sorted {t : Tree} (s : Struct t) (hso : Sorted t) {nodeId : Nat} {n : Node}
    (h2 : 2 ≤ nodeId) (hi : nodeId < t.size) (hn : ∀ c ∈ n.children, c < nodeId)
    (hsafe : SwapSafe t nodeId n) : Sorted (exchange t nodeId n).1 := by
  have hch : ∀ c ∈ (simplified t n).children, c < nodeId := by
    apply simplified_children s n (· < nodeId) (by omega) (by omega)
      (fun c hc => Nat.lt_trans (hn c hc) hi)
    intro c hc
    have hc1 := hn c hc
    exact ⟨hc1, fun c' hc' => Nat.lt_trans (hso c (Nat.lt_trans hc1 hi) c' hc') hc1⟩
  rcases exchange_spec t nodeId n with ⟨a, ha, h⟩ | ⟨_, h⟩ | ⟨_, h⟩ | ⟨o, ho, hlt, h⟩ | ⟨o, ho, hlt, h⟩ <;>
    rw [h]
  · apply sorted_setNode hso hi
    rw [ha] at hch; simpa [Node.children] using hch
  · exact sorted_setNode (t := t.addId _ _) hso (by simpa using hi) hch
  · exact hso
  · have hoR : o < t.size := s.idsRange _ (lookup_some ho)
    have s1 : Sorted (t.setNode o (t.get nodeId)) :=
      sorted_setNode hso hoR (fun c hc => Nat.lt_trans (hso nodeId hi c hc) hlt)
    have s2 : Sorted ((t.setNode o (t.get nodeId)).setNode nodeId (t.get o)) :=
      sorted_setNode s1 (by simpa using hi) (hsafe o ho hlt)
    have s3 : Sorted (((t.setNode o (t.get nodeId)).setNode nodeId (t.get o)).setId
        (simplified t n) nodeId) := s2
    apply sorted_setNode s3 (by simpa using hoR)
    simpa [Node.children] using hlt
  · apply sorted_setNode hso hi
    simpa [Node.children] using hlt

/-! ### simplify(NodeId) -/

theorem simplifyAt_fst (t : Tree) (nodeId : Nat) :
    (simplifyAt t nodeId).1 = (exchange t nodeId (t.get nodeId)).1 := by
  unfold simplifyAt
  simp only
  split <;> rfl

theorem simplifyAt_size (t : Tree) (nodeId : Nat) : (simplifyAt t nodeId).1.size = t.size := by
  rw [simplifyAt_fst, exchange_size]

theorem simplifyAt_struct {t : Tree} (s : Struct t) {nodeId : Nat} (h2 : 2 ≤ nodeId)
    (hi : nodeId < t.size) : Struct (simplifyAt t nodeId).1 := by
  rw [simplifyAt_fst]; exact exchange_struct s h2 hi (s.closed nodeId hi)

theorem simplifyAt_models {t : Tree} {σ v : Nat → Bool} (s : Struct t) (hm : Models t σ v)
    (hs : MapSound t σ v) {nodeId : Nat} (hi : nodeId < t.size) :
    Models (simplifyAt t nodeId).1 σ v ∧ MapSound (simplifyAt t nodeId).1 σ v := by
  rw [simplifyAt_fst]
  exact exchange_models s hm hs hi (s.closed nodeId hi) (hm nodeId hi).symm

/-! ### sweeps: simplify_up, simplify -/

/-- everything a rewriting step must keep, for one sense assignment `σ` and one model `v` -/
structure Good (t : Tree) (σ v : Nat → Bool) : Prop where
  struct : Struct t
  models : Models t σ v
  map : MapSound t σ v

theorem simplifyAt_good {t σ v} (g : Good t σ v) {nodeId : Nat} (h2 : 2 ≤ nodeId)
    (hi : nodeId < t.size) : Good (simplifyAt t nodeId).1 σ v :=
  ⟨simplifyAt_struct g.struct h2 hi, (simplifyAt_models g.struct g.models g.map hi).1,
    (simplifyAt_models g.struct g.models g.map hi).2⟩

theorem simplifyAt_volumes (t : Tree) (nodeId : Nat) : (simplifyAt t nodeId).1.volumes = t.volumes := by
  rw [simplifyAt_fst, exchange_volumes]

theorem simplifyUpLoop_good {σ v} : ∀ (cnt : Nat) (t : Tree) (node result : Nat),
    Good t σ v → 2 ≤ node → node + cnt ≤ t.size →
    Good (simplifyUpLoop t cnt node result).1 σ v ∧
      (simplifyUpLoop t cnt node result).1.size = t.size ∧
      (simplifyUpLoop t cnt node result).1.volumes = t.volumes := by
  intro cnt
  induction cnt with
  | zero => intro t node result g _ _; exact ⟨g, rfl, rfl⟩
  | succ k ih =>
    intro t node result g h2 hle
    unfold simplifyUpLoop
    have hi : node < t.size := by omega
    have g' := simplifyAt_good g h2 hi
    have hsz := simplifyAt_size t node
    have hv := simplifyAt_volumes t node
    generalize simplifyAt t node = r at g' hsz hv
    rcases r with ⟨t', sres⟩
    simp only at g' hsz hv ⊢
    have := ih t' (node + 1) (if sres.isSome = true ∧ result = invalid then node else result) g'
      (by omega) (by omega)
    rw [hsz, hv] at this
    exact this

theorem simplifyUp_good {t σ v} (g : Good t σ v) {start : Nat} (h2 : 2 ≤ start) :
    Good (simplifyUp t start).1 σ v ∧ (simplifyUp t start).1.size = t.size ∧
      (simplifyUp t start).1.volumes = t.volumes := by
  unfold simplifyUp
  by_cases h : start ≤ t.size
  · exact simplifyUpLoop_good _ t start invalid g h2 (by omega)
  · have : t.size - start = 0 := by omega
    rw [this]; exact ⟨g, rfl, rfl⟩

/-- `simplify_up` reports either "nothing simplified" or a node id `≥ start` -/
theorem simplifyUpLoop_result : ∀ (cnt : Nat) (t : Tree) (node result : Nat),
    (result = invalid ∨ 2 ≤ result) → 2 ≤ node →
    ((simplifyUpLoop t cnt node result).2 = invalid ∨ 2 ≤ (simplifyUpLoop t cnt node result).2) := by
  intro cnt
  induction cnt with
  | zero => intro t node result h _; exact h
  | succ k ih =>
    intro t node result h h2
    unfold simplifyUpLoop
    generalize simplifyAt t node = r
    rcases r with ⟨t', sres⟩
    simp only
    apply ih
    · split
      · right; exact h2
      · exact h
    · omega

theorem simplifyAllFuel_good {σ v} : ∀ (f : Nat) (t : Tree) (start : Nat) (t' : Tree),
    Good t σ v → (start = invalid ∨ 2 ≤ start) → simplifyAllFuel f t start = some t' →
    Good t' σ v ∧ t'.size = t.size ∧ t'.volumes = t.volumes := by
  intro f
  induction f with
  | zero => intro t start t' _ _ h; simp [simplifyAllFuel] at h
  | succ k ih =>
    intro t start t' g hs h
    unfold simplifyAllFuel at h
    split at h
    · simp at h; subst h; exact ⟨g, rfl, rfl⟩
    · rename_i hne
      have h2 : 2 ≤ start := by rcases hs with h | h; exact absurd h hne; exact h
      have gu := simplifyUp_good g h2
      have hr : (simplifyUp t start).2 = invalid ∨ 2 ≤ (simplifyUp t start).2 := by
        unfold simplifyUp; exact simplifyUpLoop_result _ _ _ _ (Or.inl rfl) h2
      generalize simplifyUp t start = r at gu hr h
      rcases r with ⟨t1, next⟩
      simp only at gu hr h
      have := ih t1 next t' gu.1 hr h
      rw [gu.2.1, gu.2.2] at this
      exact this

/-! ### insert -/

/-- the tree after appending a new node and registering it in the dedup map -/
def Tree.push (t : Tree) (n : Node) : Tree :=
  { nodes := t.nodes ++ [n], ids := (n, t.size) :: t.ids, volumes := t.volumes }

theorem insert_spec (t : Tree) (n : Node) :
    (∃ a, simplified t n = .aliased a ∧ simplifyNode t n ≠ noSimp ∧ insert t n = (t, a, false)) ∨
    (∃ id, t.lookup (simplified t n) = some id ∧ insert t n = (t, id, false)) ∨
    (t.lookup (simplified t n) = none ∧
      insert t n = (t.push (simplified t n), t.size, true)) := by
  unfold insert simplified
  simp only
  by_cases hne : simplifyNode t n ≠ noSimp
  · simp only [if_pos hne]
    cases hr : simplifyNode t n with
    | aliased a => left; exact ⟨a, rfl, by rw [hr] at hne; exact hne, rfl⟩
    | tru | fls | negated _ | surface _ | joined _ _ =>
      right
      simp only
      cases hl : t.lookup _ with
      | none => right; exact ⟨rfl, rfl⟩
      | some id => left; exact ⟨id, rfl, rfl⟩
  · simp only [if_neg hne]
    right
    cases hl : t.lookup n with
    | none => right; exact ⟨rfl, rfl⟩
    | some id => left; exact ⟨id, rfl, rfl⟩

end CelerVerif.Csg
