/-
Cerenkov generator at ℝ: the members computed by the constructor and the vector relations
of a generated photon.
-/
import CelerVerif.Lemmas.OpticalGen

namespace CelerVerif.Optical
open CelerVerif

/-- displacement of the step -/
def stepDelta (d : Dist ℝ) : Vec3 ℝ :=
  ⟨d.postPos.x - d.prePos.x, d.postPos.y - d.prePos.y, d.postPos.z - d.prePos.z⟩

theorem sub_real (a b : Vec3 ℝ) : Vec3.sub a b = ⟨a.x - b.x, a.y - b.y, a.z - b.z⟩ := by
  simp only [Vec3.sub]

theorem mk'_dir (K : Consts ℝ) (m : CerMat ℝ) (d : Dist ℝ) :
    (CerGen.mk' K m d).dir = makeUnitVector (stepDelta d) := by
  show makeUnitVector (Vec3.sub d.postPos d.prePos) = _
  rw [sub_real]; rfl

theorem mk'_dist (K : Consts ℝ) (m : CerMat ℝ) (d : Dist ℝ) : (CerGen.mk' K m d).dist = d := rfl
theorem mk'_mat (K : Consts ℝ) (m : CerMat ℝ) (d : Dist ℝ) : (CerGen.mk' K m d).mat = m := rfl

theorem mk'_invBeta (K : Consts ℝ) (m : CerMat ℝ) (d : Dist ℝ) :
    (CerGen.mk' K m d).invBeta = 2 / (d.preSpeed + d.postSpeed) := by
  show (@OfNat.ofNat ℝ 2 (Num.instOfNat 2)) / (d.preSpeed + d.postSpeed) = _
  opt_simp

theorem mk'_sampleEnergy (K : Consts ℝ) (m : CerMat ℝ) (d : Dist ℝ) (u : ℝ) :
    (CerGen.mk' K m d).sampleEnergy.eval u = (m.ri.back - m.ri.front) * u + m.ri.front := by
  show (Uniform.mk' m.ri.front m.ri.back).eval u = _
  rw [uniform_eval_real]

theorem mk'_dir_unit (K : Consts ℝ) (m : CerMat ℝ) (d : Dist ℝ)
    (hmove : 0 < vdot (stepDelta d) (stepDelta d)) : isUnit (CerGen.mk' K m d).dir := by
  rw [mk'_dir]; exact makeUnit_unit _ hmove

theorem propose_eq (g : CerGen ℝ) (u : ℝ) :
    g.propose u = (g.sampleEnergy.eval u, g.invBeta / g.mat.ri.eval (g.sampleEnergy.eval u)) := by
  simp only [CerGen.propose]

/-- direction, polarisation and polar angle of a Cerenkov photon for cos θ ∈ [0,1] and a unit
    step direction -/
theorem cer_vectors (g : CerGen ℝ) (c phi : ℝ) (hr : isUnit g.dir) (h0 : 0 ≤ c) (h1 : c ≤ 1) :
    isUnit (g.direction c phi) ∧ isUnit (g.polarization (1 - c * c) phi) ∧
    vdot (g.direction c phi) (g.polarization (1 - c * c) phi) = 0 ∧
    vdot (g.direction c phi) (poleImage g.dir) = c := by
  have hd : isUnit (fromSpherical c phi) := fromSpherical_unit c phi (by linarith) h1
  obtain ⟨r1, r2⟩ := cer_polcos_range c h0 h1
  have hp : isUnit (fromSpherical (-(Real.sqrt (1 - c * c))) phi) := fromSpherical_unit _ phi r1 r2
  have hdir : g.direction c phi = rotateRaw (fromSpherical c phi) g.dir := by
    simp only [CerGen.direction]; exact rotate_eq_raw _ _ hr hd
  have hpol : g.polarization (1 - c * c) phi
      = rotateRaw (fromSpherical (-(Real.sqrt (1 - c * c))) phi) g.dir := by
    simp only [CerGen.polarization]; opt_simp; exact rotate_eq_raw _ _ hr hp
  rw [hdir, hpol]
  refine ⟨?_, ?_, ?_, ?_⟩
  · unfold isUnit; rw [rotateRaw_vdot _ _ _ hr]; exact hd
  · unfold isUnit; rw [rotateRaw_vdot _ _ _ hr]; exact hp
  · rw [rotateRaw_vdot _ _ _ hr]; exact cer_frame_perp c phi h0 h1
  · rw [rotateRaw_vdot_pole _ _ hr, fromSpherical_z]

/-- cos θ of an accepted proposal lies in (0, 1] when speeds and refractive index are positive -/
theorem cer_cos_range (K : Consts ℝ) (m : CerMat ℝ) (d : Dist ℝ) (ue : ℝ)
    (hv0 : 0 < d.preSpeed) (hv1 : 0 < d.postSpeed) (hn : ∀ e, 0 < m.ri.eval e)
    (hacc : ¬ 1 < ((CerGen.mk' K m d).propose ue).2) :
    0 < ((CerGen.mk' K m d).propose ue).2 ∧ ((CerGen.mk' K m d).propose ue).2 ≤ 1 := by
  refine ⟨?_, not_lt.mp hacc⟩
  rw [propose_eq]; simp only []
  rw [mk'_invBeta, mk'_mat]
  exact div_pos (div_pos (by norm_num) (by linarith)) (hn _)

end CelerVerif.Optical
