/- ExtendFromSecondaries: the per-slot loop of ProcessSecondariesExecutor (C02). -/
import CelerVerif.Lemmas.TrackInitCore

namespace CelerVerif.TrackInit

/-- number of secondaries of one slot that are pushed on the initializer stack; `allowed` =
    in-place initialisation possible (parent not alive, order ≠ init_charge) -/
def queuedCount (allowed : Bool) : Bool → List Sec → Nat
  | _, [] => 0
  | ini, sec :: rest =>
    if !sec.valid then queuedCount allowed ini rest
    else if !ini && allowed then queuedCount allowed true rest
    else 1 + queuedCount allowed ini rest

theorem queuedCount_true (allowed : Bool) (secs : List Sec) :
    queuedCount allowed true secs = countValid secs := by
  induction secs with
  | nil => rfl
  | cons a l ih =>
    unfold queuedCount
    by_cases h : a.valid = true
    · simp [h, ih, countValid, List.filter_cons]; omega
    · simp [h, ih, countValid, List.filter_cons]

theorem queuedCount_false (allowed : Bool) (secs : List Sec) :
    queuedCount allowed false secs
      = if allowed = true ∧ countValid secs > 0 then countValid secs - 1 else countValid secs := by
  induction secs with
  | nil => simp [queuedCount, countValid]
  | cons a l ih =>
    unfold queuedCount
    by_cases h : a.valid = true
    · by_cases ha : allowed = true
      · simp [h, ha, queuedCount_true, countValid, List.filter_cons]
      · simp [h, ha, ih, countValid, List.filter_cons]; omega
    · simp only [h, Bool.not_false, if_true] at *
      simp [ih, countValid, List.filter_cons, h]

/-- loop invariant of the inner loop of `processSlot` for slot `tid` (original occupant `x0`,
    state `s0` at loop entry) -/
structure PSInv (c : Counters) (tid : Nat) (x0 : Slot) (pid : Option Nat) (s0 : State)
    (l : PSLoop) : Prop where
  core : Core l.s (c.numInitializers - l.offset)
  off_le : l.offset ≤ c.numInitializers
  cap : c.numInitializers ≤ l.s.initializers.length
  cfg : l.s.cfg = s0.cfg
  len : l.s.slots.length = s0.slots.length
  ilen : l.s.initializers.length = s0.initializers.length
  tlen : l.s.trackCounters.length = s0.trackCounters.length
  plen : l.s.parents.length = s0.parents.length
  others : ∀ j, j ≠ tid → l.s.slots[j]? = s0.slots[j]?
  cur : ∃ y, l.s.slots[tid]? = some y ∧ y.active = true ∧ y.ev = x0.ev ∧ y.pos = x0.pos ∧
    (l.initialized = false → y = x0) ∧ (l.initialized = true → y.status = .initializing)
  par : ParentOk l.s x0.ev pid
  frame : l.s.vacancies = s0.vacancies ∧ l.s.secCounts = s0.secCounts ∧ l.s.c = s0.c ∧
    l.s.pending = s0.pending ∧ l.s.indices = s0.indices
  evok : x0.ev < l.s.trackCounters.length

def allowedOf (order : Order) (x0 : Slot) : Bool :=
  decide (x0.status ≠ .alive) && decide (order ≠ .initCharge)

theorem getD_of_getElem? {α} {l : List α} {i : Nat} {y d : α} (h : l[i]? = some y) :
    l.getD i d = y := by
  simp [List.getD_eq_getElem?_getD, h]

theorem processSecondary_inv {c : Counters} {tid : Nat} {x0 : Slot} {pid : Option Nat}
    {s0 : State} {l : PSLoop} (sec : Sec) (hI : PSInv c tid x0 pid s0 l)
    (hroom : queuedCount (allowedOf s0.cfg.order x0) l.initialized [sec] ≤ l.offset) :
    let l' := processSecondary c tid pid l sec
    PSInv c tid x0 pid s0 l' ∧
    l'.offset = l.offset - queuedCount (allowedOf s0.cfg.order x0) l.initialized [sec] ∧
    l'.initialized = (l.initialized || (allowedOf s0.cfg.order x0 && sec.valid)) := by
  obtain ⟨y, hy, hyact, hyev, hypos, hy0, hy1⟩ := hI.cur
  have htid : tid < l.s.slots.length := by
    rcases Nat.lt_or_ge tid l.s.slots.length with h | h
    · exact h
    · rw [List.getElem?_eq_none h] at hy; cases hy
  have hyget : l.s.slots[tid] = y := by
    rw [List.getElem?_eq_getElem htid] at hy; exact Option.some.inj hy
  by_cases hv : sec.valid = true
  case neg =>
    simp only [processSecondary, hv, queuedCount]
    simp
    exact hI
  case pos =>
    have hgetD : l.s.slots.getD tid Slot.empty = y := getD_of_getElem? hy
    by_cases hin : l.initialized = false ∧ allowedOf s0.cfg.order x0 = true
    case pos =>
      -- in-place initialisation
      obtain ⟨hin1, hin2⟩ := hin
      have hyx : y = x0 := hy0 hin1
      have hcond : ¬ l.initialized = true ∧ y.status ≠ .alive ∧ l.s.cfg.order ≠ .initCharge := by
        rw [hI.cfg, hyx]
        simp [allowedOf] at hin2
        simp [hin1, hin2]
      simp only [processSecondary, hv, hgetD, makeTrackId]
      simp only [not_true_eq_false, if_false, hcond, and_self, if_true]
      have hq : queuedCount (allowedOf s0.cfg.order x0) l.initialized [sec] = 0 := by
        simp [queuedCount, hv, hin1, hin2]
      rw [hq]
      refine ⟨?_, by simp, by simp [hin1, hin2, hv]⟩
      have hyid : y.tid.isSome = true := hI.core.hasId y (List.mem_of_getElem? hy) hyact
      obtain ⟨told, htold⟩ := Option.isSome_iff_exists.mp hyid
      have hident : y.ident = ⟨y.ev, told, y.parent⟩ := by simp [Slot.ident, htold]
      have hevy : y.ev < l.s.trackCounters.length := by rw [hyev]; exact hI.evok
      constructor
      · -- core
        simp only [Nat.sub_zero]
        have := core_inplace (s := l.s) (ni := c.numInitializers - l.offset) hI.core htid
          (y := { y with status := .initializing, tid := some (l.s.trackCounters.getD y.ev 0),
                         parent := pid, steps := 0, particle := sec.particle })
          (parent := pid) (by rw [hyget]; exact hyact) (by rw [hyget]; exact hevy)
          (by rw [hyget, hyev]; exact hI.par) (by simp [Slot.active])
          (by rw [hyget]; simp [Slot.ident, ctr]) (by simp)
          (s' := _) (by rw [hyget]; rfl) (by rw [hyget]; rfl) rfl (by rw [hyget]; rfl)
          (by rw [hyget, hident, htold]) (by rfl)
        exact this
      · exact hI.off_le
      · exact hI.cap
      · exact hI.cfg
      · simp; exact hI.len
      · exact hI.ilen
      · simp; exact hI.tlen
      · exact hI.plen
      · intro j hj
        simp only
        rw [List.getElem?_set_ne (by omega)]
        exact hI.others j hj
      · refine ⟨_, by simp [List.getElem?_set_self htid], by simp [Slot.active], by simp [hyev],
          by simp [hypos], by simp, by simp⟩
      · intro p hp
        obtain ⟨q, hq1, hq2⟩ := hI.par p hp
        exact ⟨q, by simp [hq1], hq2⟩
      · exact hI.frame
      · simp; exact hI.evok
    case neg =>
      -- push on the initializer stack
      have hcond : ¬ (¬ l.initialized = true ∧ y.status ≠ .alive ∧ l.s.cfg.order ≠ .initCharge) := by
        intro ⟨h1, h2, h3⟩
        apply hin
        have h1' : l.initialized = false := by simpa using h1
        refine ⟨h1', ?_⟩
        rw [hI.cfg] at h3
        rw [hy0 h1'] at h2
        simp [allowedOf, h2, h3]
      have hq : queuedCount (allowedOf s0.cfg.order x0) l.initialized [sec] = 1 := by
        simp only [queuedCount, hv]
        by_cases h1 : l.initialized = true
        · simp [h1]
        · have h1' : l.initialized = false := by simpa using h1
          have : allowedOf s0.cfg.order x0 = false := by
            by_contra h2
            exact hin ⟨h1', by simpa using h2⟩
          simp [h1', this]
      rw [hq] at hroom ⊢
      have hevy : y.ev < l.s.trackCounters.length := by rw [hyev]; exact hI.evok
      have hlt : c.numInitializers - l.offset < l.s.initializers.length := by
        have := hI.off_le; have := hI.cap; omega
      have hcore : ∀ s' : State, s'.trackCounters = l.s.trackCounters.set y.ev (ctr l.s y.ev + 1) →
          s'.created = l.s.created ++ [⟨y.ev, ctr l.s y.ev, pid⟩] →
          s'.initializers = l.s.initializers.set (c.numInitializers - l.offset)
            ⟨ctr l.s y.ev, pid, y.ev, sec.particle, y.pos⟩ →
          s'.started = l.s.started → s'.finished = l.s.finished → s'.slots = l.s.slots →
          Core s' (c.numInitializers - (l.offset - 1)) := by
        intro s' e1 e2 e3 e4 e5 e6
        have := core_push (s := l.s) (s' := s') hI.core hlt hevy (by rw [hyev]; exact hI.par)
          e1 e2 e3 e4 e5 e6
        have he : c.numInitializers - l.offset + 1 = c.numInitializers - (l.offset - 1) := by
          have := hI.off_le; omega
        rw [he] at this; exact this
      have hini : (l.initialized || (allowedOf s0.cfg.order x0 && sec.valid)) = l.initialized := by
        by_cases h1 : l.initialized = true
        · simp [h1]
        · have h1' : l.initialized = false := by simpa using h1
          have : allowedOf s0.cfg.order x0 = false := by
            by_contra h2
            exact hin ⟨h1', by simpa using h2⟩
          simp [h1', this]
      simp only [processSecondary, hv, hgetD, makeTrackId]
      simp only [not_true_eq_false, if_false, hcond]
      rw [hini]
      split
      · -- parent slot recorded
        refine ⟨?_, rfl, rfl⟩
        constructor
        · exact hcore _ rfl rfl rfl rfl rfl rfl
        · have := hI.off_le; simp only; omega
        · simp; exact hI.cap
        · exact hI.cfg
        · exact hI.len
        · simp; exact hI.ilen
        · simp; exact hI.tlen
        · simp; exact hI.plen
        · exact hI.others
        · exact ⟨y, hy, hyact, hyev, hypos, hy0, hy1⟩
        · exact hI.par
        · exact hI.frame
        · simp; exact hI.evok
      · refine ⟨?_, rfl, rfl⟩
        constructor
        · exact hcore _ rfl rfl rfl rfl rfl rfl
        · have := hI.off_le; simp only; omega
        · simp; exact hI.cap
        · exact hI.cfg
        · exact hI.len
        · simp; exact hI.ilen
        · simp; exact hI.tlen
        · exact hI.plen
        · exact hI.others
        · exact ⟨y, hy, hyact, hyev, hypos, hy0, hy1⟩
        · exact hI.par
        · exact hI.frame
        · simp; exact hI.evok

end CelerVerif.TrackInit
