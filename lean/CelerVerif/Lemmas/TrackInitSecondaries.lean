/- ExtendFromSecondaries: the per-slot loop of ProcessSecondariesExecutor (C02). -/
import CelerVerif.Lemmas.TrackInitCore

namespace CelerVerif.TrackInit

/-- number of secondaries of one slot that are pushed on the initializer stack; `allowed` =
    in-place initialisation possible (parent not alive, order ≠ init_charge) -/
def queuedCount (allowed : Bool) : Bool → List Sec → Nat
  | _, [] => 0
  | ini, sec :: rest =>
    if !sec.valid then queuedCount allowed ini rest
    else if !ini && allowed then queuedCount allowed true rest
    else 1 + queuedCount allowed ini rest

theorem countValid_cons (a : Sec) (l : List Sec) :
    countValid (a :: l) = (if a.valid = true then 1 else 0) + countValid l := by
  unfold countValid
  by_cases h : a.valid = true <;> simp [h]; omega

theorem countValid_nil : countValid [] = 0 := rfl

theorem queuedCount_true (allowed : Bool) (secs : List Sec) :
    queuedCount allowed true secs = countValid secs := by
  induction secs with
  | nil => rfl
  | cons a l ih =>
    unfold queuedCount
    rw [countValid_cons]
    by_cases h : a.valid = true <;> simp [h, ih]

theorem queuedCount_false (allowed : Bool) (secs : List Sec) :
    queuedCount allowed false secs
      = if allowed = true ∧ countValid secs > 0 then countValid secs - 1 else countValid secs := by
  induction secs with
  | nil => simp [queuedCount, countValid_nil]
  | cons a l ih =>
    unfold queuedCount
    rw [countValid_cons]
    by_cases h : a.valid = true
    · cases allowed
      · simp [h, ih]
      · simp [h, queuedCount_true]
    · simp [h, ih]

/-- loop invariant of the inner loop of `processSlot` for slot `tid` (original occupant `x0`,
    state `s0` at loop entry) -/
structure PSInv (c : Counters) (tid : Nat) (x0 : Slot) (pid : Option Nat) (s0 : State)
    (l : PSLoop) : Prop where
  core : Core l.s (c.numInitializers - l.offset)
  off_le : l.offset ≤ c.numInitializers
  cap : c.numInitializers ≤ l.s.initializers.length
  cfg : l.s.cfg = s0.cfg
  len : l.s.slots.length = s0.slots.length
  ilen : l.s.initializers.length = s0.initializers.length
  tlen : l.s.trackCounters.length = s0.trackCounters.length
  plen : l.s.parents.length = s0.parents.length
  others : ∀ j, j ≠ tid → l.s.slots[j]? = s0.slots[j]?
  cur : ∃ y, l.s.slots[tid]? = some y ∧ y.active = true ∧ y.ev = x0.ev ∧ y.pos = x0.pos ∧
    (l.initialized = false → y = x0) ∧ (l.initialized = true → y.status = .initializing)
  par : ParentOk l.s x0.ev pid
  frame : l.s.vacancies = s0.vacancies ∧ l.s.secCounts = s0.secCounts ∧ l.s.c = s0.c ∧
    l.s.pending = s0.pending ∧ l.s.indices = s0.indices
  evok : x0.ev < l.s.trackCounters.length

def allowedOf (order : Order) (x0 : Slot) : Bool :=
  decide (x0.status ≠ .alive) && decide (order ≠ .initCharge)

theorem getD_of_getElem? {α} {l : List α} {i : Nat} {y d : α} (h : l[i]? = some y) :
    l.getD i d = y := by
  simp [List.getD_eq_getElem?_getD, h]

theorem ps_invalid (c : Counters) (tid : Nat) (pid : Option Nat) (l : PSLoop) (sec : Sec)
    (hv : sec.valid = false) : processSecondary c tid pid l sec = l := by
  simp [processSecondary, hv]

theorem ps_inplace (c : Counters) (tid : Nat) (pid : Option Nat) (l : PSLoop) (sec : Sec)
    (hv : sec.valid = true)
    (hc : l.initialized = false ∧ (l.s.slots.getD tid Slot.empty).status ≠ .alive ∧
      l.s.cfg.order ≠ .initCharge) :
    processSecondary c tid pid l sec
      = ⟨psInplace l.s tid (l.s.slots.getD tid Slot.empty) pid sec, l.offset, true⟩ := by
  have : (¬ l.initialized = true ∧ (l.s.slots.getD tid Slot.empty).status ≠ .alive ∧
      l.s.cfg.order ≠ .initCharge) := ⟨by simp [hc.1], hc.2⟩
  simp only [processSecondary, hv, not_true_eq_false, if_false, if_pos this]

theorem ps_push (c : Counters) (tid : Nat) (pid : Option Nat) (l : PSLoop) (sec : Sec)
    (hv : sec.valid = true)
    (hc : ¬ (l.initialized = false ∧ (l.s.slots.getD tid Slot.empty).status ≠ .alive ∧
      l.s.cfg.order ≠ .initCharge)) :
    processSecondary c tid pid l sec
      = ⟨psPush c l.s tid (l.s.slots.getD tid Slot.empty) pid sec l.offset, l.offset - 1,
         l.initialized⟩ := by
  unfold processSecondary
  have : ¬ (¬ l.initialized = true ∧ (l.s.slots.getD tid Slot.empty).status ≠ .alive ∧
      l.s.cfg.order ≠ .initCharge) := by
    intro ⟨h1, h2⟩
    exact hc ⟨by simpa using h1, h2⟩
  simp only [hv, not_true_eq_false, if_false, this]

theorem processSecondary_inv {c : Counters} {tid : Nat} {x0 : Slot} {pid : Option Nat}
    {s0 : State} {l : PSLoop} (sec : Sec) (hI : PSInv c tid x0 pid s0 l)
    (hroom : queuedCount (allowedOf s0.cfg.order x0) l.initialized [sec] ≤ l.offset) :
    PSInv c tid x0 pid s0 (processSecondary c tid pid l sec) ∧
    (processSecondary c tid pid l sec).offset
      = l.offset - queuedCount (allowedOf s0.cfg.order x0) l.initialized [sec] ∧
    (processSecondary c tid pid l sec).initialized
      = (l.initialized || (allowedOf s0.cfg.order x0 && sec.valid)) := by
  obtain ⟨y, hy, hyact, hyev, hypos, hy0, hy1⟩ := hI.cur
  have htid : tid < l.s.slots.length := by
    rcases Nat.lt_or_ge tid l.s.slots.length with h | h
    · exact h
    · rw [List.getElem?_eq_none h] at hy; cases hy
  have hyget : l.s.slots[tid] = y := by
    rw [List.getElem?_eq_getElem htid] at hy; exact Option.some.inj hy
  have hgetD : l.s.slots.getD tid Slot.empty = y := getD_of_getElem? hy
  have hevy : y.ev < l.s.trackCounters.length := by rw [hyev]; exact hI.evok
  by_cases hv : sec.valid = true
  case neg =>
    have hv' : sec.valid = false := by simpa using hv
    rw [ps_invalid c tid pid l sec hv']
    simp [queuedCount, hv']
    exact hI
  case pos =>
    by_cases hin : l.initialized = false ∧ allowedOf s0.cfg.order x0 = true
    case pos =>
      -- in-place initialisation
      obtain ⟨hin1, hin2⟩ := hin
      have hyx : y = x0 := hy0 hin1
      have hcond : l.initialized = false ∧ (l.s.slots.getD tid Slot.empty).status ≠ .alive ∧
          l.s.cfg.order ≠ .initCharge := by
        rw [hgetD, hI.cfg, hyx]
        simp [allowedOf] at hin2
        exact ⟨hin1, hin2.1, hin2.2⟩
      rw [ps_inplace c tid pid l sec hv hcond, hgetD]
      have hq : queuedCount (allowedOf s0.cfg.order x0) l.initialized [sec] = 0 := by
        simp [queuedCount, hv, hin1, hin2]
      rw [hq]
      refine ⟨?_, by simp, by simp [hin1, hin2, hv]⟩
      have hyid : y.tid.isSome = true := hI.core.hasId y (List.mem_of_getElem? hy) hyact
      obtain ⟨told, htold⟩ := Option.isSome_iff_exists.mp hyid
      have hident : y.ident = ⟨y.ev, told, y.parent⟩ := by simp [Slot.ident, htold]
      constructor
      · -- core
        have := core_inplace (s := l.s) (s' := psInplace l.s tid y pid sec)
          (ni := c.numInitializers - l.offset) hI.core htid
          (y := { y with status := .initializing, tid := some (l.s.trackCounters.getD y.ev 0),
                         parent := pid, steps := 0, particle := sec.particle })
          (parent := pid) (by rw [hyget]; exact hyact) (by rw [hyget]; exact hevy)
          (by rw [hyget, hyev]; exact hI.par) (by simp [Slot.active])
          (by rw [hyget]; simp [Slot.ident, ctr]) (by simp)
          (by rw [hyget]; rfl) (by rw [hyget]; rfl) rfl (by rw [hyget]; rfl)
          (by rw [hyget, hident]; simp [psInplace, mintSec, makeTrackId, finOf, htold]) (by rfl)
        exact this
      · exact hI.off_le
      · exact hI.cap
      · exact hI.cfg
      · simp [psInplace, mintSec, makeTrackId]; exact hI.len
      · exact hI.ilen
      · simp [psInplace, mintSec, makeTrackId]; exact hI.tlen
      · exact hI.plen
      · intro j hj
        simp only [psInplace, mintSec, makeTrackId]
        rw [List.getElem?_set_ne (by omega)]
        exact hI.others j hj
      · refine ⟨{ y with status := .initializing, tid := some (l.s.trackCounters.getD y.ev 0),
                         parent := pid, steps := 0, particle := sec.particle }, ?_,
          by simp [Slot.active], by simp [hyev], by simp [hypos], by simp, by simp⟩
        simp only [psInplace, mintSec, makeTrackId]
        rw [List.getElem?_set_self htid]
      · intro p hp
        obtain ⟨q, hq1, hq2⟩ := hI.par p hp
        exact ⟨q, by simp [psInplace, mintSec, makeTrackId, hq1], hq2⟩
      · exact hI.frame
      · simp [psInplace, mintSec, makeTrackId]; exact hI.evok
    case neg =>
      -- push on the initializer stack
      have hcond : ¬ (l.initialized = false ∧ (l.s.slots.getD tid Slot.empty).status ≠ .alive ∧
          l.s.cfg.order ≠ .initCharge) := by
        intro ⟨h1, h2, h3⟩
        apply hin
        refine ⟨h1, ?_⟩
        rw [hI.cfg] at h3
        rw [hgetD, hy0 h1] at h2
        simp [allowedOf, h2, h3]
      have hnot : l.initialized = true ∨ allowedOf s0.cfg.order x0 = false := by
        by_cases h1 : l.initialized = true
        · exact Or.inl h1
        · right
          have h1' : l.initialized = false := by simpa using h1
          cases h2 : allowedOf s0.cfg.order x0
          · rfl
          · exact absurd ⟨h1', h2⟩ hin
      have hq : queuedCount (allowedOf s0.cfg.order x0) l.initialized [sec] = 1 := by
        rcases hnot with h1 | h1 <;> simp [queuedCount, hv, h1]
      rw [hq] at hroom
      rw [hq]
      have hlt : c.numInitializers - l.offset < l.s.initializers.length := by
        have := hI.off_le; have := hI.cap; omega
      have hini : (l.initialized || (allowedOf s0.cfg.order x0 && sec.valid)) = l.initialized := by
        rcases hnot with h1 | h1 <;> simp [h1]
      rw [ps_push c tid pid l sec hv hcond, hgetD, hini]
      refine ⟨?_, rfl, rfl⟩
      have hcore : ∀ s' : State, s'.trackCounters = l.s.trackCounters.set y.ev (ctr l.s y.ev + 1) →
          s'.created = l.s.created ++ [⟨y.ev, ctr l.s y.ev, pid⟩] →
          s'.initializers = l.s.initializers.set (c.numInitializers - l.offset)
            ⟨ctr l.s y.ev, pid, y.ev, sec.particle, y.pos⟩ →
          s'.started = l.s.started → s'.finished = l.s.finished → s'.slots = l.s.slots →
          Core s' (c.numInitializers - (l.offset - 1)) := by
        intro s' e1 e2 e3 e4 e5 e6
        have := core_push (s := l.s) (s' := s') hI.core hlt hevy (by rw [hyev]; exact hI.par)
          e1 e2 e3 e4 e5 e6
        have he : c.numInitializers - l.offset + 1 = c.numInitializers - (l.offset - 1) := by
          have := hI.off_le; omega
        rw [he] at this; exact this
      have hoff : l.offset - 1 ≤ c.numInitializers := by have := hI.off_le; omega
      unfold psPush
      simp only
      split
      · constructor
        · exact hcore _ rfl rfl rfl rfl rfl rfl
        · exact hoff
        · simp [mintSec, makeTrackId]; exact hI.cap
        · exact hI.cfg
        · exact hI.len
        · simp [mintSec, makeTrackId]; exact hI.ilen
        · simp [mintSec, makeTrackId]; exact hI.tlen
        · simp [mintSec, makeTrackId]; exact hI.plen
        · exact hI.others
        · exact ⟨y, hy, hyact, hyev, hypos, hy0, hy1⟩
        · exact hI.par
        · exact hI.frame
        · simp [mintSec, makeTrackId]; exact hI.evok
      · constructor
        · exact hcore _ rfl rfl rfl rfl rfl rfl
        · exact hoff
        · simp [mintSec, makeTrackId]; exact hI.cap
        · exact hI.cfg
        · exact hI.len
        · simp [mintSec, makeTrackId]; exact hI.ilen
        · simp [mintSec, makeTrackId]; exact hI.tlen
        · exact hI.plen
        · exact hI.others
        · exact ⟨y, hy, hyact, hyev, hypos, hy0, hy1⟩
        · exact hI.par
        · exact hI.frame
        · simp [mintSec, makeTrackId]; exact hI.evok

theorem queuedCount_cons (allowed ini : Bool) (sec : Sec) (rest : List Sec) :
    queuedCount allowed ini (sec :: rest)
      = queuedCount allowed ini [sec] + queuedCount allowed (ini || (allowed && sec.valid)) rest := by
  cases ini <;> cases allowed <;> by_cases h : sec.valid = true <;> simp [queuedCount, h]

/-- the whole inner loop over one slot's secondaries -/
theorem psFold_inv {c : Counters} {tid : Nat} {x0 : Slot} {pid : Option Nat} {s0 : State}
    (secs : List Sec) {l : PSLoop} (hI : PSInv c tid x0 pid s0 l)
    (hroom : queuedCount (allowedOf s0.cfg.order x0) l.initialized secs ≤ l.offset) :
    PSInv c tid x0 pid s0 (secs.foldl (processSecondary c tid pid) l) ∧
    (secs.foldl (processSecondary c tid pid) l).offset
      = l.offset - queuedCount (allowedOf s0.cfg.order x0) l.initialized secs ∧
    (secs.foldl (processSecondary c tid pid) l).initialized
      = (l.initialized || (allowedOf s0.cfg.order x0 && decide (countValid secs > 0))) := by
  induction secs generalizing l with
  | nil => simp [queuedCount, countValid_nil]; exact hI
  | cons sec rest ih =>
    rw [queuedCount_cons _ _ sec rest] at hroom
    obtain ⟨h1, h2, h3⟩ := processSecondary_inv sec hI (by omega)
    have := ih (l := processSecondary c tid pid l sec) h1 (by rw [h2, h3]; omega)
    obtain ⟨i1, i2, i3⟩ := this
    simp only [List.foldl_cons]
    refine ⟨i1, ?_, ?_⟩
    · rw [i2, h2, h3, queuedCount_cons _ _ sec rest]; omega
    · rw [i3, h3, countValid_cons]
      cases l.initialized <;> cases allowedOf s0.cfg.order x0 <;>
        by_cases hv : sec.valid = true <;> simp [hv]
      omega

end CelerVerif.TrackInit
