/- kernel-checked inverse certificate: z^((2^160-1)/257) + 1 is a unit modulo P -/
import CelerVerif.Lemmas.XorwowPeriod

namespace CelerVerif.Xorwow

theorem orderCert_257 : orderCert 257 = true := by decide +kernel

end CelerVerif.Xorwow
