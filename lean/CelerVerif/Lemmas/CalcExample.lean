/-
C14: a concrete well-formed table used by the non-vacuity examples of Props/C14.lean:
log grid front = 0, back = 2, three points (0, 1, 2), values 1, 2, 4 (positive, increasing).
-/
import CelerVerif.Lemmas.CalcLoss
import CelerVerif.Lemmas.CalcGeneric
import Mathlib.Tactic.IntervalCases

namespace CelerVerif.Calc
open CelerVerif

noncomputable def exGrid (prime : ℕ) : XsGrid ℝ :=
  ⟨UGrid.fromBounds 0 2 3, prime, 0, 3, #[1, 2, 4]⟩

theorem exGrid_WF (p : ℕ) : (exGrid p).WF :=
  ⟨UGrid.fromBounds_WF 0 2 3 (by norm_num) (by norm_num), rfl, by simp [exGrid]⟩

theorem exGrid_y (p : ℕ) : (exGrid p).y 0 = 1 ∧ (exGrid p).y 1 = 2 ∧ (exGrid p).y 2 = 4 := by
  simp [XsGrid.y, exGrid]

theorem exGrid_Pos (p : ℕ) : (exGrid p).Pos := by
  intro i hi
  have h3 : i < 3 := hi
  obtain ⟨h0, h1, h2⟩ := exGrid_y p
  interval_cases i
  · rw [h0]; norm_num
  · rw [h1]; norm_num
  · rw [h2]; norm_num

theorem exGrid_Incr (p : ℕ) : (exGrid p).Incr := by
  intro i hi
  have h3 : i < 2 := by have : i + 1 < 3 := hi; omega
  obtain ⟨h0, h1, h2⟩ := exGrid_y p
  interval_cases i
  · rw [h0, h1]; norm_num
  · rw [h1, h2]; norm_num

/-- constant table `c, c, c` on the same grid, no 1/E scaling -/
noncomputable def exConst (c : ℝ) : XsGrid ℝ :=
  ⟨UGrid.fromBounds 0 2 3, noScaling, 0, 3, #[c, c, c]⟩

theorem exConst_WF (c : ℝ) : (exConst c).WF :=
  ⟨UGrid.fromBounds_WF 0 2 3 (by norm_num) (by norm_num), rfl, by simp [exConst]⟩

theorem exConst_Pos (c : ℝ) (hc : 0 < c) : (exConst c).Pos := by
  intro i hi
  have h3 : i < 3 := hi
  interval_cases i <;> simp [XsGrid.y, exConst, hc]

/-- the loss rate of the constant table at E = 1 (the first knot) -/
theorem exConst_calc_one (c : ℝ) : (exConst c).calc floorIdx 1 = some c := by
  rw [(exConst_WF c).calc_below (by rw [Real.log_one]; simp [exConst, UGrid.fromBounds])]
  simp [exConst, noScaling, XsGrid.y]

/-- the range table 1, 2, 4 at E = 1: range = 1 -/
theorem exGrid_range_one : (exGrid noScaling).range floorIdx 1 = some 1 := by
  rw [(exGrid_WF noScaling).range_below (by rw [Real.log_one]; simp [exGrid, UGrid.fromBounds])]
  have h0 := (exGrid_y noScaling).1
  rw [h0, Real.log_one]
  simp [exGrid, UGrid.fromBounds]

/-- inverse range below the first table value: `E₀ (r/r₀)²` with `E₀ = exp 0 = 1`, `r₀ = 1` -/
theorem exGrid_invRange_below (r : ℝ) (h : r < 1) : (exGrid noScaling).invRange r = some (r * r) := by
  have h0 := (exGrid_y noScaling).1
  rw [(exGrid_WF noScaling).invRange_below (by rw [h0]; exact h), h0]
  simp [exGrid, UGrid.fromBounds]

/-- generic grid x = 1, 2, 4, y = 10, 20, 40 stored one after the other -/
noncomputable def exGen : GenGrid ℝ := ⟨0, 3, 3, #[1, 2, 4, 10, 20, 40]⟩

theorem exGen_WF : exGen.WF := by
  refine ⟨by simp [exGen], by simp [exGen], by simp [exGen], ?_⟩
  intro i hi
  have h2 : i < 2 := by have : i + 1 < 3 := hi; omega
  interval_cases i <;> simp [GenGrid.X, exGen] <;> norm_num

theorem exGen_YIncr : exGen.YIncr := by
  intro i hi
  have h2 : i < 2 := by have : i + 1 < 3 := hi; omega
  interval_cases i <;> simp [GenGrid.Y, exGen] <;> norm_num

end CelerVerif.Calc
