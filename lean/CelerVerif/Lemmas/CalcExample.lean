/-
C14: a concrete well-formed table used by the non-vacuity examples of Props/C14.lean:
log grid front = 0, back = 2, three points (0, 1, 2), values 1, 2, 4 (positive, increasing).
-/
import CelerVerif.Lemmas.CalcLoss
import Mathlib.Tactic.IntervalCases

namespace CelerVerif.Calc
open CelerVerif

noncomputable def exGrid (prime : ℕ) : XsGrid ℝ :=
  ⟨UGrid.fromBounds 0 2 3, prime, 0, 3, #[1, 2, 4]⟩

theorem exGrid_WF (p : ℕ) : (exGrid p).WF :=
  ⟨UGrid.fromBounds_WF 0 2 3 (by norm_num) (by norm_num), rfl, by simp [exGrid]⟩

theorem exGrid_y (p : ℕ) : (exGrid p).y 0 = 1 ∧ (exGrid p).y 1 = 2 ∧ (exGrid p).y 2 = 4 := by
  simp [XsGrid.y, exGrid]

theorem exGrid_Pos (p : ℕ) : (exGrid p).Pos := by
  intro i hi
  have h3 : i < 3 := hi
  obtain ⟨h0, h1, h2⟩ := exGrid_y p
  interval_cases i
  · rw [h0]; norm_num
  · rw [h1]; norm_num
  · rw [h2]; norm_num

theorem exGrid_Incr (p : ℕ) : (exGrid p).Incr := by
  intro i hi
  have h3 : i < 2 := by have : i + 1 < 3 := hi; omega
  obtain ⟨h0, h1, h2⟩ := exGrid_y p
  interval_cases i
  · rw [h0, h1]; norm_num
  · rw [h1, h2]; norm_num

end CelerVerif.Calc
