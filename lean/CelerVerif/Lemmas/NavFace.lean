/-
One face along a ray: from the C12 surface theorems (reported distances are exactly the positive
roots of the ray polynomial; the sense is its sign; the sign flips across every simple root) to
the parity contract used by the ray-trace theorem of C03.
-/
import CelerVerif.Props.C12
import CelerVerif.Lemmas.NavTrack
import CelerVerif.Lemmas.NavParity

namespace CelerVerif.Surf
open CelerVerif

theorem planeIsect_snd (nd : ℝ) (on : Bool) (num : Unit → ℝ) : (planeIsect nd on num).2 = none := by
  unfold planeIsect
  simp only []
  split
  · split <;> rfl
  · rfl

theorem solveGeneral_sorted (a hb c t0 t1 : ℝ)
    (h : solveGeneral a hb c false = (some t0, some t1)) : t0 < t1 := by
  unfold solveGeneral at h
  simp only [Bool.false_eq_true, if_false, Bool.not_false, if_true] at h
  split_ifs at h with h1
  · exact solve_sorted _ _ _ _ h
  · unfold solveAlongSurface at h
    split_ifs at h <;> simp at h
    all_goals (split_ifs at h <;> simp at h)

/-- when a surface reports two distances the first is the nearer one -/
theorem slots_sorted (s : Surface ℝ) (pos dir : Vec3 ℝ) (a b : ℝ)
    (h : s.calcIntersections pos dir false = (some a, some b)) : a < b := by
  cases s with
  | planeAligned ax p =>
    have := planeIsect_snd (dir.ax ax) false (fun _ => p - pos.ax ax)
    simp only [Surface.calcIntersections] at h
    rw [h] at this; simp at this
  | plane n d =>
    have := planeIsect_snd (Vec3.dot n dir) false (fun _ => d - Vec3.dot n pos)
    simp only [Surface.calcIntersections] at h
    rw [h] at this; simp at this
  | cylCentered ax r2 =>
    simp only [Surface.calcIntersections, Bool.false_eq_true, if_false] at h
    split_ifs at h
    · simp at h
    · exact solve_sorted _ _ _ _ h
  | cylAligned ax ou ov r2 =>
    simp only [Surface.calcIntersections, Bool.false_eq_true, if_false] at h
    split_ifs at h
    · simp at h
    · exact solve_sorted _ _ _ _ h
  | sphereCentered r2 =>
    simp only [Surface.calcIntersections, Bool.not_false, if_true] at h
    exact solve_sorted _ _ _ _ h
  | sphere o r2 =>
    simp only [Surface.calcIntersections, Bool.not_false, if_true] at h
    exact solve_sorted _ _ _ _ h
  | coneAligned ax o tsq =>
    simp only [Surface.calcIntersections] at h
    exact solveGeneral_sorted _ _ _ _ _ h
  | simpleQuadric a' b' c d e f g =>
    simp only [Surface.calcIntersections] at h
    exact solveGeneral_sorted _ _ _ _ _ h
  | generalQuadric a' b' c d e f g h' i j =>
    simp only [Surface.calcIntersections] at h
    exact solveGeneral_sorted _ _ _ _ _ h

theorem plane_snd_none (s : Surface ℝ) (hp : s.isPlane = true) (pos dir : Vec3 ℝ) :
    (s.calcIntersections pos dir false).2 = none := by
  cases s <;> simp [Surface.isPlane] at hp <;> simp only [Surface.calcIntersections] <;>
    exact planeIsect_snd _ _ _

theorem plane_lead_zero (s : Surface ℝ) (hp : s.isPlane = true) (pos dir : Vec3 ℝ) :
    (s.rayCoeffs pos dir).1 = 0 := by
  cases s <;> simp [Surface.isPlane] at hp <;> rfl

theorem rayCoeffs_const (s : Surface ℝ) (pos dir : Vec3 ℝ) :
    (s.rayCoeffs pos dir).2.2 = s.quadric pos := by
  cases s <;> rfl

theorem along_zero (pos dir : Vec3 ℝ) : along pos dir 0 = pos := by
  simp [along]

end CelerVerif.Surf

namespace CelerVerif.Nav
open CelerVerif CelerVerif.Surf
noncomputable section

theorem numIntersections_eq_one (s : Surface ℝ) : (numIntersections s == 1) = s.isPlane := by
  cases s <;> rfl

/-- the distances a face reports from a point off the surface -/
def faceRoots (s : Surface ℝ) (pos dir : Vec3 ℝ) : List ℝ :=
  (isectSlots s pos dir false).filterMap id

theorem mem_faceRoots (s : Surface ℝ) (pos dir : Vec3 ℝ) (x : ℝ) :
    x ∈ faceRoots s pos dir ↔ Isect2.mem x (s.calcIntersections pos dir false) := by
  unfold faceRoots isectSlots Isect2.mem
  simp only []
  rw [numIntersections_eq_one]
  by_cases hp : s.isPlane = true
  · have h2 := plane_snd_none s hp pos dir
    simp [hp, h2, eq_comm]
  · have hp' : s.isPlane = false := by simpa using hp
    simp [hp', eq_comm]

theorem faceRoots_nodup (s : Surface ℝ) (pos dir : Vec3 ℝ) : (faceRoots s pos dir).Nodup := by
  unfold faceRoots isectSlots
  simp only []
  split
  · cases (s.calcIntersections pos dir false).1 <;> simp
  · cases h1 : (s.calcIntersections pos dir false).1 with
    | none => cases (s.calcIntersections pos dir false).2 <;> simp
    | some a =>
      cases h2 : (s.calcIntersections pos dir false).2 with
      | none => simp
      | some b =>
        have : a < b := slots_sorted s pos dir a b (by rw [← h1, ← h2])
        simp [ne_of_lt this]

/-- general position of a ray w.r.t. one face -/
structure FaceGP (s : Surface ℝ) (pos dir : Vec3 ℝ) : Prop where
  /-- the start point is not on the surface -/
  off : s.quadric pos ≠ 0
  /-- leading coefficient outside the tolerance band of `solve_general`, or a plane crossed
      transversally, or the surface function is constant along the ray -/
  lead : minA ≤ |(s.rayCoeffs pos dir).1| ∨ (s.isPlane = true ∧ (s.rayCoeffs pos dir).2.1 ≠ 0)
          ∨ ((s.rayCoeffs pos dir).1 = 0 ∧ (s.rayCoeffs pos dir).2.1 = 0)
  /-- every crossing is simple (no tangent point) -/
  simple : ∀ t, 0 < t → s.quadric (along pos dir t) = 0 →
            2 * (s.rayCoeffs pos dir).1 * t + 2 * (s.rayCoeffs pos dir).2.1 ≠ 0
  /-- crossings are at representable distances (`IsFinite`) -/
  finite : ∀ t, 0 < t → s.quadric (along pos dir t) = 0 → t < (maxFinite : ℝ)

theorem faceRoots_root (s : Surface ℝ) (pos dir : Vec3 ℝ) (hu : unitDir dir) (gp : FaceGP s pos dir)
    (r : ℝ) (hr : r ∈ faceRoots s pos dir) : 0 < r ∧ s.quadric (along pos dir r) = 0 := by
  have hA : leadOK (s.rayCoeffs pos dir).1 := by
    rcases gp.lead with h | ⟨hp, _⟩ | ⟨h, _⟩
    · exact Or.inl h
    · exact Or.inr (plane_lead_zero s hp pos dir)
    · exact Or.inr h
  obtain ⟨_, h2, h3⟩ := isect_on_surface s pos dir hu hA r ((mem_faceRoots s pos dir r).1 hr)
  exact ⟨h2 gp.off, h3⟩

theorem faceRoots_complete (s : Surface ℝ) (pos dir : Vec3 ℝ) (hu : unitDir dir)
    (gp : FaceGP s pos dir) (t : ℝ) (ht : 0 < t) (hz : s.quadric (along pos dir t) = 0) :
    t ∈ faceRoots s pos dir := by
  rw [mem_faceRoots]
  rcases gp.lead with h | h | ⟨hA, hB⟩
  · exact isect_complete s pos dir hu (Or.inl h) t ht hz
  · exact isect_complete s pos dir hu (Or.inr h) t ht hz
  · exfalso
    rw [quadric_along, hA, hB, rayCoeffs_const] at hz
    apply gp.off
    linarith

/-- ★ the parity contract for one face, derived from C12: off the reported distances the sign
    of the surface function at parameter `t` is the sign at the start point flipped once per
    reported distance below `t` -/
theorem face_parity (s : Surface ℝ) (pos dir : Vec3 ℝ) (hu : unitDir dir) (gp : FaceGP s pos dir)
    (t : ℝ) (ht : 0 < t) (hnr : t ∉ faceRoots s pos dir) :
    decide (0 < s.quadric (along pos dir t)) =
      (decide (0 < s.quadric pos)
        ^^ Nat.bodd ((faceRoots s pos dir).countP fun r => decide (r < t))) := by
  have hcont : Continuous fun t => s.quadric (along pos dir t) := by
    have : (fun t => s.quadric (along pos dir t)) = fun t =>
        (s.rayCoeffs pos dir).1 * t * t + 2 * (s.rayCoeffs pos dir).2.1 * t
          + (s.rayCoeffs pos dir).2.2 := by
      funext t; exact quadric_along s pos dir t
    rw [this]; fun_prop
  have h := Parity.parity_of_roots (fun t => s.quadric (along pos dir t)) hcont
    (faceRoots s pos dir) (faceRoots_nodup s pos dir)
    (by simpa [along_zero] using gp.off)
    (fun r hr => faceRoots_root s pos dir hu gp r hr)
    (fun t ht hz => faceRoots_complete s pos dir hu gp t ht hz)
    (fun r hr => by
      obtain ⟨hr0, hrz⟩ := faceRoots_root s pos dir hu gp r hr
      obtain ⟨δ, hδ, hfl⟩ := sense_flips_across_crossing s pos dir r hrz (gp.simple r hr0 hrz)
      exact ⟨δ, hδ, hfl⟩)
    _ t ht hnr rfl
  simpa [along_zero] using h

end
end CelerVerif.Nav
