/-
C14 helper lemmas (11): what is true of the interpolation formula in floating point.
(1) Kernel-checked binary64 witnesses (bit-level model `B64`, Model/CalcBits.lean) that the
    formula AS WRITTEN can leave the interval of its two knot values although the real-number
    interpolant cannot.
(2) The rounding-error bound of the formula in the standard model of floating-point arithmetic.
-/
import CelerVerif.Model.Calc
import CelerVerif.Model.CalcBits
import CelerVerif.Lemmas.CalcBasic

namespace CelerVerif.Calc
open CelerVerif

/-- the corpus case corpus/C14/interp_cancellation_generic.ops: points (12, 628092.7617127217)
    and (230.76688636152653, 1.1760807423485406e-06), x one ulp below the upper point -/
def witXl : B64 := ⟨0x4028000000000000⟩
def witYl : B64 := ⟨0x41232af985ff35b9⟩
def witXr : B64 := ⟨0x406cd88a55445028⟩
def witYr : B64 := ⟨0x3eb3bb3a738ff9df⟩
def witX : B64 := ⟨0x406cd88a55445027⟩

/-- the binary64 evaluation of `LinearInterpolator` on the witness is exactly the value the real
    code returns (3eb3bb35ea3bb9be = 1.1760766164787489e-06) … -/
theorem lerp_float_witness_value : (lerp witXl witYl witXr witYr witX).bits = 0x3eb3bb35ea3bb9be := by
  decide +kernel

/-- … which is strictly BELOW the smaller knot value although `xl < x < xr` -/
theorem lerp_float_undershoots :
    Num.lt witXl witX = true ∧ Num.lt witX witXr = true ∧ Num.lt witYr witYl = true ∧
      Num.lt (lerp witXl witYl witXr witYr witX) witYr = true := by
  decide +kernel

/-- the corpus case corpus/C14/interp_negative_xs.ops at the interpolator level: bin 1 of the
    grid `from_bounds(log 1e-3, log 1e2, 6)` has end points (0.010000000000000004, 1e-20) and
    (0.10000000000000006, 1); `XsCalculator` puts E = 0.010000000000000002 (2 ulp below the
    knot) into this bin because `log(E)` rounds onto the grid point -/
def negXl : B64 := ⟨0x3f847ae147ae147d⟩
def negYl : B64 := ⟨0x3bc79ca10c924223⟩
def negXr : B64 := ⟨0x3fb999999999999e⟩
def negYr : B64 := ⟨0x3ff0000000000000⟩
def negX : B64 := ⟨0x3f847ae147ae147b⟩

/-- … and the interpolator then returns bc863769c4281a67 = −3.85e-17: a NEGATIVE value from
    two positive knot values -/
theorem lerp_float_negative :
    Num.lt (Num.ofNat 0) negYl = true ∧ Num.lt negYl negYr = true ∧
      (lerp negXl negYl negXr negYr negX).bits = 0xbc863769c4281a67 ∧
      Num.lt (lerp negXl negYl negXr negYr negX) (Num.ofNat 0) = true := by
  decide +kernel

/-! ### standard model -/

/-- product of three relative perturbations over one: `(1+δ₁)(1+δ₃)(1+δ₄)/(1+δ₂) = 1 + θ`,
    `|θ| ≤ 5u` for `u ≤ 1/16` -/
theorem theta_bound (u d1 d2 d3 d4 : ℝ) (hu0 : 0 ≤ u) (hu : u ≤ 1 / 16) (h1 : |d1| ≤ u)
    (h2 : |d2| ≤ u) (h3 : |d3| ≤ u) (h4 : |d4| ≤ u) :
    |(1 + d1) * (1 + d3) * (1 + d4) / (1 + d2) - 1| ≤ 5 * u := by
  have b1 := abs_le.mp h1
  have b2 := abs_le.mp h2
  have b3 := abs_le.mp h3
  have b4 := abs_le.mp h4
  have q0 : 0 < 1 + d2 := by linarith
  have p1 : 0 ≤ 1 + d1 := by linarith
  have p3 : 0 ≤ 1 + d3 := by linarith
  have p4 : 0 ≤ 1 + d4 := by linarith
  have hup : (1 + d1) * (1 + d3) * (1 + d4) ≤ (1 + u) * (1 + u) * (1 + u) := by
    apply mul_le_mul (mul_le_mul (by linarith) (by linarith) p3 (by linarith)) (by linarith) p4
    positivity
  have hlo : (1 - u) * (1 - u) * (1 - u) ≤ (1 + d1) * (1 + d3) * (1 + d4) := by
    have hu' : 0 ≤ 1 - u := by linarith
    apply mul_le_mul (mul_le_mul (by linarith) (by linarith) hu' p1) (by linarith) hu'
    exact mul_nonneg p1 p3
  rw [abs_le]
  constructor
  · rw [le_sub_iff_add_le, le_div_iff₀ q0]
    have : (-(5 * u) + 1) * (1 + d2) ≤ (1 - 5 * u) * (1 + u) := by
      have h5 : 0 ≤ 1 - 5 * u := by linarith
      nlinarith
    have : (1 - 5 * u) * (1 + u) ≤ (1 - u) * (1 - u) * (1 - u) := by nlinarith [mul_nonneg hu0 hu0]
    linarith
  · rw [sub_le_iff_le_add, div_le_iff₀ q0]
    have : (1 + u) * (1 + u) * (1 + u) ≤ (1 + 5 * u) * (1 - u) := by
      nlinarith [mul_nonneg hu0 hu0, mul_nonneg (mul_nonneg hu0 hu0) hu0]
    have : (1 + 5 * u) * (1 - u) ≤ (5 * u + 1) * (1 + d2) := by
      have h5 : 0 ≤ 1 + 5 * u := by linarith
      nlinarith
    linarith

/-- ★ rounding-error bound of `LinearInterpolator` AS WRITTEN in the standard model
    (`fl(a ∘ b) = (a ∘ b)(1 + δ)`, `|δ| ≤ u`, one rounding for `std::fma`; for binary64
    `u = 2⁻⁵³`, no underflow/overflow):
      a = fl(yr − yl), b = fl(xr − xl), s = fl(a / b), d = fl(x − xl), r = fl(s·d + yl).
    For a point inside the bin and knot values in `[0, M]` the computed value is within `8 u M`
    (= 4 ulp-units of the LARGER knot) of the exact interpolant — hence it can leave
    `[min(yl,yr), max(yl,yr)]` by that much and no more. -/
theorem interp_error_bound (xl yl xr yr x M u d1 d2 d3 d4 d5 : ℝ) (hu0 : 0 ≤ u) (hu : u ≤ 1 / 16)
    (h1 : |d1| ≤ u) (h2 : |d2| ≤ u) (h3 : |d3| ≤ u) (h4 : |d4| ≤ u) (h5 : |d5| ≤ u)
    (hlt : xl < xr) (hx1 : xl ≤ x) (hx2 : x ≤ xr) (hyl0 : 0 ≤ yl) (hyl : yl ≤ M) (hyr0 : 0 ≤ yr)
    (hyr : yr ≤ M) :
    |((yr - yl) * (1 + d1) / ((xr - xl) * (1 + d2)) * (1 + d3) * ((x - xl) * (1 + d4)) + yl)
        * (1 + d5) - lerp xl yl xr yr x| ≤ 8 * u * M := by
  rw [lerp_real]
  have hM : 0 ≤ M := le_trans hyl0 hyl
  have hdx : 0 < xr - xl := sub_pos.mpr hlt
  have b2 := abs_le.mp h2
  have q0 : (1 + d2) ≠ 0 := by linarith
  set T := (yr - yl) / (xr - xl) * (x - xl) with hT
  set th := (1 + d1) * (1 + d3) * (1 + d4) / (1 + d2) - 1 with hth
  have hthb := theta_bound u d1 d2 d3 d4 hu0 hu h1 h2 h3 h4
  rw [← hth] at hthb
  -- |T| ≤ M, |yl + T| ≤ M
  have hfrac0 : 0 ≤ (x - xl) / (xr - xl) := div_nonneg (sub_nonneg.mpr hx1) (le_of_lt hdx)
  have hfrac1 : (x - xl) / (xr - xl) ≤ 1 := by rw [div_le_one hdx]; linarith
  have hTeq : T = (yr - yl) * ((x - xl) / (xr - xl)) := by rw [hT]; field_simp
  have hTabs : |T| ≤ M := by
    rw [hTeq, abs_mul, abs_of_nonneg hfrac0]
    have : |yr - yl| ≤ M := by rw [abs_le]; constructor <;> linarith
    calc |yr - yl| * ((x - xl) / (xr - xl)) ≤ M * 1 :=
          mul_le_mul this hfrac1 hfrac0 hM
      _ = M := mul_one M
  have hRabs : |yl + T| ≤ M := by
    rw [hTeq, abs_le]
    constructor
    · have : 0 ≤ yl + (yr - yl) * ((x - xl) / (xr - xl)) := by nlinarith
      linarith
    · nlinarith
  -- the computed value is (yl + T (1 + θ)) (1 + δ₅)
  have hcomp : (yr - yl) * (1 + d1) / ((xr - xl) * (1 + d2)) * (1 + d3) * ((x - xl) * (1 + d4))
      = T * (1 + th) := by
    rw [hT, hth]; field_simp; ring
  rw [hcomp]
  have hdiff : (T * (1 + th) + yl) * (1 + d5) - (yl + T) = T * th * (1 + d5) + (yl + T) * d5 := by
    ring
  rw [hdiff]
  have b5 := abs_le.mp h5
  have e1 : |T * th * (1 + d5)| ≤ M * (5 * u) * (1 + u) := by
    rw [abs_mul, abs_mul]
    have : |1 + d5| ≤ 1 + u := by rw [abs_le]; constructor <;> linarith
    exact mul_le_mul (mul_le_mul hTabs hthb (abs_nonneg _) hM) this (abs_nonneg _)
      (by positivity)
  have e2 : |(yl + T) * d5| ≤ M * u := by
    rw [abs_mul]; exact mul_le_mul hRabs h5 (abs_nonneg _) hM
  calc |T * th * (1 + d5) + (yl + T) * d5| ≤ |T * th * (1 + d5)| + |(yl + T) * d5| := abs_add_le _ _
    _ ≤ M * (5 * u) * (1 + u) + M * u := add_le_add e1 e2
    _ ≤ 8 * u * M := by nlinarith [mul_nonneg hM hu0, mul_nonneg (mul_nonneg hM hu0) hu0]

end CelerVerif.Calc
