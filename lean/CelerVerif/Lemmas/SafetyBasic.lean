/-
Safety model at ℝ, basics: NaN tests vanish, `fminO` / `minElement2` are the minimum on
`Option ℝ` (none = +∞), the sense is the sign of the surface function, Euclidean norm and its
Cauchy–Schwarz / triangle inequalities on `Vec3 ℝ`.
-/
import CelerVerif.Model.Safety
import CelerVerif.Lemmas.SurfRay
import Mathlib.Tactic.NormNum

namespace CelerVerif.Safety
open CelerVerif CelerVerif.Surf

/-! ### `Option ℝ` as distances with `none = +∞` -/

/-- `o ≤ b` for a finite bound `b` (in particular `o` is finite) -/
def OLe (o : Option ℝ) (b : ℝ) : Prop := ∃ v, o = some v ∧ v ≤ b

/-- every finite value of `o` is non-negative (`+∞` is non-negative) -/
def ONonneg (o : Option ℝ) : Prop := ∀ v, o = some v → 0 ≤ v

/-- `b ≤ o` (true for `o = +∞`) -/
def OGe (o : Option ℝ) (b : ℝ) : Prop := ∀ v, o = some v → b ≤ v

theorem isNaN_real (x : ℝ) : isNaN x = false := by
  unfold isNaN; simp

theorem fminO_none_left (o : Option ℝ) : fminO none o = o := by
  cases o <;> simp [fminO, isNaN_real]

theorem fminO_none_right (o : Option ℝ) : fminO o none = o := by
  cases o <;> simp [fminO, isNaN_real]

theorem fminO_some (a b : ℝ) : fminO (some a) (some b) = some (min a b) := by
  simp only [fminO, isNaN_real, Bool.false_eq_true, if_false]
  by_cases h : b < a
  · have : Num.lt b a = true := by num_simp; exact h
    simp [this, min_eq_right (le_of_lt h)]
  · have : Num.lt b a = false := by
      rw [Bool.eq_false_iff]; intro h'; num_simp at h'; exact h h'
    simp [this, min_eq_left (not_lt.mp h)]

theorem OLe.mono {o : Option ℝ} {b c : ℝ} (h : OLe o b) (hbc : b ≤ c) : OLe o c := by
  obtain ⟨v, hv, hle⟩ := h; exact ⟨v, hv, le_trans hle hbc⟩

theorem fminO_le_left {a : Option ℝ} {b : ℝ} (c : Option ℝ) (h : OLe a b) : OLe (fminO a c) b := by
  obtain ⟨v, rfl, hle⟩ := h
  cases c with
  | none => rw [fminO_none_right]; exact ⟨v, rfl, hle⟩
  | some w => rw [fminO_some]; exact ⟨_, rfl, le_trans (min_le_left _ _) hle⟩

theorem fminO_le_right {c : Option ℝ} {b : ℝ} (a : Option ℝ) (h : OLe c b) : OLe (fminO a c) b := by
  obtain ⟨v, rfl, hle⟩ := h
  cases a with
  | none => rw [fminO_none_left]; exact ⟨v, rfl, hle⟩
  | some w => rw [fminO_some]; exact ⟨_, rfl, le_trans (min_le_right _ _) hle⟩

theorem fminO_nonneg {a c : Option ℝ} (ha : ONonneg a) (hc : ONonneg c) : ONonneg (fminO a c) := by
  cases a with
  | none => rw [fminO_none_left]; exact hc
  | some v =>
    cases c with
    | none => rw [fminO_none_right]; exact ha
    | some w =>
      rw [fminO_some]; intro u hu
      simp only [Option.some.injEq] at hu; subst hu
      exact le_min (ha v rfl) (hc w rfl)

theorem fminO_ge {a c : Option ℝ} {b : ℝ} (ha : OGe a b) (hc : OGe c b) : OGe (fminO a c) b := by
  cases a with
  | none => rw [fminO_none_left]; exact hc
  | some v =>
    cases c with
    | none => rw [fminO_none_right]; exact ha
    | some w =>
      rw [fminO_some]; intro u hu
      simp only [Option.some.injEq] at hu; subst hu
      exact le_min (ha v rfl) (hc w rfl)

/-- the fold used by `SimpleUnitTracker::safety` and `find_safety` only decreases -/
theorem foldl_fminO_le_acc {β : Type} (f : β → Option ℝ) (l : List β) {acc : Option ℝ} {b : ℝ}
    (h : OLe acc b) : OLe (l.foldl (fun a s => fminO a (f s)) acc) b := by
  induction l generalizing acc with
  | nil => exact h
  | cons s t ih => exact ih (fminO_le_left _ h)

theorem foldl_fminO_le_mem {β : Type} (f : β → Option ℝ) (l : List β) (acc : Option ℝ) {b : ℝ}
    {s : β} (hs : s ∈ l) (h : OLe (f s) b) : OLe (l.foldl (fun a s => fminO a (f s)) acc) b := by
  induction l generalizing acc with
  | nil => cases hs
  | cons u t ih =>
    rcases List.mem_cons.mp hs with rfl | hs'
    · exact foldl_fminO_le_acc f t (fminO_le_right _ h)
    · exact ih _ hs'

theorem foldl_fminO_nonneg {β : Type} (f : β → Option ℝ) (l : List β) {acc : Option ℝ}
    (hacc : ONonneg acc) (h : ∀ s ∈ l, ONonneg (f s)) :
    ONonneg (l.foldl (fun a s => fminO a (f s)) acc) := by
  induction l generalizing acc with
  | nil => exact hacc
  | cons u t ih =>
    exact ih (fminO_nonneg hacc (h u (List.mem_cons_self ..)))
      (fun s hs => h s (List.mem_cons_of_mem _ hs))

theorem foldl_fminO_ge {β : Type} (f : β → Option ℝ) (l : List β) {acc : Option ℝ} {b : ℝ}
    (hacc : OGe acc b) (h : ∀ s ∈ l, OGe (f s) b) :
    OGe (l.foldl (fun a s => fminO a (f s)) acc) b := by
  induction l generalizing acc with
  | nil => exact hacc
  | cons u t ih =>
    exact ih (fminO_ge hacc (h u (List.mem_cons_self ..)))
      (fun s hs => h s (List.mem_cons_of_mem _ hs))

/-! ### sense = sign of the surface function -/

theorem calcSense_neg {s : Surface ℝ} {x : Vec3 ℝ} (h : s.quadric x < 0) :
    s.calcSense x = .inside := by
  unfold Surface.calcSense realToSense
  have h1 : Num.le (s.quadric x) (@OfNat.ofNat ℝ 0 (Num.instOfNat 0)) = true := by
    num_simp; exact le_of_lt h
  have h2 : Num.lt (s.quadric x) (@OfNat.ofNat ℝ 0 (Num.instOfNat 0)) = true := by
    num_simp; exact h
  simp only [h1, h2, Bool.not_true]

theorem calcSense_zero {s : Surface ℝ} {x : Vec3 ℝ} (h : s.quadric x = 0) :
    s.calcSense x = .on := by
  unfold Surface.calcSense realToSense
  have h1 : Num.le (s.quadric x) (@OfNat.ofNat ℝ 0 (Num.instOfNat 0)) = true := by
    num_simp; exact le_of_eq h
  have h2 : Num.lt (s.quadric x) (@OfNat.ofNat ℝ 0 (Num.instOfNat 0)) = false := by
    rw [Bool.eq_false_iff]; intro h'; num_simp at h'; linarith
  simp only [h1, h2, Bool.not_true]

theorem calcSense_pos {s : Surface ℝ} {x : Vec3 ℝ} (h : 0 < s.quadric x) :
    s.calcSense x = .outside := by
  unfold Surface.calcSense realToSense
  have h1 : Num.le (s.quadric x) (@OfNat.ofNat ℝ 0 (Num.instOfNat 0)) = false := by
    rw [Bool.eq_false_iff]; intro h'; num_simp at h'; linarith
  have h2 : Num.lt (s.quadric x) (@OfNat.ofNat ℝ 0 (Num.instOfNat 0)) = false := by
    rw [Bool.eq_false_iff]; intro h'; num_simp at h'; linarith
  simp only [h1, h2, Bool.not_false]

theorem calcSense_on_iff {s : Surface ℝ} {x : Vec3 ℝ} : s.calcSense x = .on ↔ s.quadric x = 0 := by
  rcases lt_trichotomy (s.quadric x) 0 with h | h | h
  · rw [calcSense_neg h]; simp [ne_of_lt h]
  · rw [calcSense_zero h]; simp [h]
  · rw [calcSense_pos h]; simp [ne_of_gt h]

theorem calcSense_inside_iff {s : Surface ℝ} {x : Vec3 ℝ} :
    s.calcSense x = .inside ↔ s.quadric x < 0 := by
  rcases lt_trichotomy (s.quadric x) 0 with h | h | h
  · rw [calcSense_neg h]; simp [h]
  · rw [calcSense_zero h]; simp [h]
  · rw [calcSense_pos h]; simp [not_lt.mpr (le_of_lt h)]

theorem calcSense_outside_iff {s : Surface ℝ} {x : Vec3 ℝ} :
    s.calcSense x = .outside ↔ 0 < s.quadric x := by
  rcases lt_trichotomy (s.quadric x) 0 with h | h | h
  · rw [calcSense_neg h]; simp [not_lt.mpr (le_of_lt h)]
  · rw [calcSense_zero h]; simp [h]
  · rw [calcSense_pos h]; simp [h]

/-- body of `CalcSafetyDistance` at ℝ: the NaN test never fires, the sense is the sign -/
theorem calcSafetyCore_real (s : Surface ℝ) (x : Vec3 ℝ) :
    calcSafetyCore s x =
      if s.quadric x = 0 then some 0
      else if 0 < s.quadric x then
        minElement2 (s.calcIntersections x (flipDir (s.calcNormal x)) false)
      else minElement2 (s.calcIntersections x (s.calcNormal x) false) := by
  unfold calcSafetyCore
  simp only [isNaN_real, Bool.false_eq_true, if_false]
  rcases lt_trichotomy (s.quadric x) 0 with h | h | h
  · rw [calcSense_neg h]; simp [ne_of_lt h, not_lt.mpr (le_of_lt h)]
  · rw [calcSense_zero h]; simp [h]
  · rw [calcSense_pos h]; simp [ne_of_gt h, h]

theorem flipDir_real (d : Vec3 ℝ) : flipDir d = ⟨-d.x, -d.y, -d.z⟩ := by
  unfold flipDir; num_simp; simp

/-! ### Euclidean norm on `Vec3 ℝ` -/

/-- squared length -/
def nsq (v : Vec3 ℝ) : ℝ := v.x * v.x + v.y * v.y + v.z * v.z
/-- length -/
noncomputable def nrm (v : Vec3 ℝ) : ℝ := Real.sqrt (nsq v)
/-- difference vector -/
def vsub (a b : Vec3 ℝ) : Vec3 ℝ := ⟨a.x - b.x, a.y - b.y, a.z - b.z⟩
/-- Euclidean distance -/
noncomputable def dist3 (a b : Vec3 ℝ) : ℝ := nrm (vsub a b)
/-- real dot product -/
def rdot (a b : Vec3 ℝ) : ℝ := a.x * b.x + a.y * b.y + a.z * b.z

theorem nsq_nonneg (v : Vec3 ℝ) : 0 ≤ nsq v := by
  unfold nsq; nlinarith [mul_self_nonneg v.x, mul_self_nonneg v.y, mul_self_nonneg v.z]

theorem nrm_nonneg (v : Vec3 ℝ) : 0 ≤ nrm v := Real.sqrt_nonneg _

theorem nrm_sq (v : Vec3 ℝ) : nrm v * nrm v = nsq v := Real.mul_self_sqrt (nsq_nonneg v)

theorem dist3_nonneg (a b : Vec3 ℝ) : 0 ≤ dist3 a b := nrm_nonneg _

theorem dist3_comm (a b : Vec3 ℝ) : dist3 a b = dist3 b a := by
  unfold dist3 nrm; congr 1; unfold nsq vsub; ring

/-- Cauchy–Schwarz (Lagrange's identity) -/
theorem rdot_sq_le (a b : Vec3 ℝ) : rdot a b * rdot a b ≤ nsq a * nsq b := by
  unfold rdot nsq
  nlinarith [mul_self_nonneg (a.x * b.y - a.y * b.x), mul_self_nonneg (a.x * b.z - a.z * b.x),
    mul_self_nonneg (a.y * b.z - a.z * b.y)]

theorem abs_rdot_le (a b : Vec3 ℝ) : |rdot a b| ≤ nrm a * nrm b := by
  have h := rdot_sq_le a b
  unfold nrm
  rw [← Real.sqrt_mul (nsq_nonneg a)]
  exact Real.abs_le_sqrt (by rw [sq]; exact h)

/-- triangle inequality `|a + b| ≤ |a| + |b|`, stated for differences -/
theorem dist3_triangle (a b c : Vec3 ℝ) : dist3 a c ≤ dist3 a b + dist3 b c := by
  unfold dist3
  have hcs := abs_rdot_le (vsub a b) (vsub b c)
  have hsum : 0 ≤ nrm (vsub a b) + nrm (vsub b c) := add_nonneg (nrm_nonneg _) (nrm_nonneg _)
  have hexp : nsq (vsub a c) = nsq (vsub a b) + nsq (vsub b c) + 2 * rdot (vsub a b) (vsub b c) := by
    unfold nsq vsub rdot; ring
  have hle : nsq (vsub a c) ≤ (nrm (vsub a b) + nrm (vsub b c)) * (nrm (vsub a b) + nrm (vsub b c)) := by
    have h1 := nrm_sq (vsub a b)
    have h2 := nrm_sq (vsub b c)
    have h3 := le_trans (le_abs_self _) hcs
    nlinarith
  unfold nrm at hsum hle ⊢
  exact Real.sqrt_le_iff.mpr ⟨hsum, by rw [sq]; exact hle⟩

end CelerVerif.Safety
