/-
Field propagation at ℝ: the loop body case by case, the callee contracts, the loop invariant,
and the termination measure.
-/
import CelerVerif.Lemmas.FieldPropBasic
import Mathlib.Tactic.Linarith
import Mathlib.Tactic.Ring
import Mathlib.Tactic.Positivity
import Mathlib.Tactic.FieldSimp
import Mathlib.Algebra.Order.Field.Basic

set_option linter.unusedSimpArgs false
set_option linter.unusedVariables false

namespace CelerVerif.FieldProp
open CelerVerif

/-- chord length of an iteration -/
noncomputable def chordLen (s : PState ℝ) (a : Answer ℝ) : ℝ :=
  (makeChord s.state.pos a.sub.state.pos).length

/-- the disjunction tested by the third branch -/
def CommitCond (c : Cfg ℝ) (s : PState ℝ) (a : Answer ℝ) : Prop :=
  updateLength s a ≤ c.minSub
    ∨ isInterceptClose s.state.pos (makeChord s.state.pos a.sub.state.pos).dir a.lin.distance
        a.sub.state.pos c.deltaInt = true
    ∨ chordLen s a = 0

/-- `result.boundary` computed by the third branch -/
def CommitBoundary (c : Cfg ℝ) (s : PState ℝ) (a : Answer ℝ) : Prop :=
  a.lin.distance ≤ chordLen s a ∨ s.distance + updateLength s a ≤ c.step ∨ chordLen s a = 0

theorem branchOf_cases (c : Cfg ℝ) (s : PState ℝ) (a : Answer ℝ) :
    (branchOf c s a = .accept ∧ a.lin.boundary = false)
    ∨ (branchOf c s a = .retryHalf ∧ a.lin.boundary = true ∧ s.boundary = true
        ∧ a.lin.distance < c.bump)
    ∨ (branchOf c s a = .commit ∧ a.lin.boundary = true
        ∧ ¬(s.boundary = true ∧ a.lin.distance < c.bump) ∧ CommitCond c s a)
    ∨ (branchOf c s a = .shorten ∧ a.lin.boundary = true
        ∧ ¬(s.boundary = true ∧ a.lin.distance < c.bump) ∧ ¬CommitCond c s a) := by
  unfold branchOf CommitCond chordLen
  by_cases hb : a.lin.boundary = true
  · simp only [hb, Bool.not_true, Bool.false_eq_true, if_false]
    by_cases h2 : s.boundary = true ∧ a.lin.distance < c.bump
    · right; left
      have : (s.boundary && Num.lt a.lin.distance c.bump) = true := by
        simp only [Bool.and_eq_true, NumR.lt_real]; exact h2
      simp only [this, if_true]
      exact ⟨trivial, trivial, h2.1, h2.2⟩
    · have : ¬ ((s.boundary && Num.lt a.lin.distance c.bump) = true) := by
        simp only [Bool.and_eq_true, NumR.lt_real]; exact h2
      simp only [this, if_false]
      by_cases h3 : (Num.le (updateLength s a) c.minSub
          || isInterceptClose s.state.pos (makeChord s.state.pos a.sub.state.pos).dir a.lin.distance
              a.sub.state.pos c.deltaInt
          || Num.eq (makeChord s.state.pos a.sub.state.pos).length (@OfNat.ofNat ℝ 0 (Num.instOfNat 0))) = true
      · right; right; left
        refine ⟨by simp only [h3, if_true, Bool.false_eq_true, if_false], trivial, h2, ?_⟩
        simp only [Bool.or_eq_true, NumR.le_real, NumR.eq_real, NumR.lit0] at h3
        rcases h3 with (h | h) | h
        · left; exact h
        · right; left; exact h
        · right; right; exact h
      · right; right; right
        refine ⟨by simp only [h3, if_true, Bool.false_eq_true, if_false], trivial, h2, ?_⟩
        intro hc
        apply h3
        simp only [Bool.or_eq_true, NumR.le_real, NumR.eq_real, NumR.lit0]
        rcases hc with h | h | h
        · left; left; exact h
        · left; right; exact h
        · right; exact h
  · have hb' : a.lin.boundary = false := by simpa using hb
    left
    simp [hb']

/-! explicit post states -/

theorem body_accept (c : Cfg ℝ) (s : PState ℝ) (a : Answer ℝ) (h : branchOf c s a = .accept) :
    body c s a = (⟨a.sub.state, false, s.distance + a.sub.step,
      c.step - (s.distance + a.sub.step), s.remSub - 1⟩, [GeoOp.moveInternal a.sub.state.pos]) := by
  unfold body; rw [h]

theorem body_retry (c : Cfg ℝ) (s : PState ℝ) (a : Answer ℝ) (h : branchOf c s a = .retryHalf) :
    body c s a = ({ s with remaining := a.sub.step / 2 }, []) := by
  unfold body; rw [h]

theorem body_shorten (c : Cfg ℝ) (s : PState ℝ) (a : Answer ℝ) (h : branchOf c s a = .shorten) :
    body c s a = ({ s with remaining := updateLength s a }, []) := by
  unfold body; rw [h]

theorem body_commit (c : Cfg ℝ) (s : PState ℝ) (a : Answer ℝ) (h : branchOf c s a = .commit) :
    ∃ b : Bool, (b = true ↔ CommitBoundary c s a) ∧
      body c s a = (⟨⟨if b then s.state.pos else a.sub.state.pos, a.sub.state.mom⟩, b,
        s.distance + min (updateLength s a) a.sub.step, 0, s.remSub⟩,
        if b then [] else [GeoOp.moveInternal a.sub.state.pos]) := by
  refine ⟨Num.le a.lin.distance (makeChord s.state.pos a.sub.state.pos).length
      || Num.le (s.distance + updateLength s a) c.step
      || Num.eq (makeChord s.state.pos a.sub.state.pos).length (@OfNat.ofNat ℝ 0 (Num.instOfNat 0)), ?_, ?_⟩
  · unfold CommitBoundary chordLen
    simp only [Bool.or_eq_true, NumR.le_real, NumR.eq_real, NumR.lit0, NumR.hadd_real]
    tauto
  · unfold body; rw [h]
    simp only [NumR.hadd_real, fmin_real, NumR.lit0]

/-! ### contracts and configuration -/

/-- what the theorems assume of one pair of callee answers, relative to the loop state in which
    the calls were made.  `κ ≥ 1` is the slack allowed between chord and curved length
    (`κ = 1` for an exact integrator). -/
structure AnsOK (c : Cfg ℝ) (κ : ℝ) (s : PState ℝ) (a : Answer ℝ) : Prop where
  /-- driver: `0 < substep.step` -/
  sub_pos : 0 < a.sub.step
  /-- driver: `substep.step ≤ remaining` (the step it was asked for) -/
  sub_le : a.sub.step ≤ s.remaining
  /-- driver: the chord is not longer than κ times the curved substep -/
  chord_le : chordLen s a ≤ κ * a.sub.step
  /-- geometry: a reported boundary is at a non-negative distance … -/
  dist_nonneg : a.lin.boundary = true → 0 ≤ a.lin.distance
  /-- … not beyond the search length `chord.length + delta_intersection` -/
  dist_le : a.lin.boundary = true → a.lin.distance ≤ chordLen s a + c.deltaInt

/-- configuration read by the loop: `step > 0` is the (release-unchecked) `CELER_EXPECT`; the
    rest is `FieldDriverOptions` validation -/
structure CfgOK (c : Cfg ℝ) : Prop where
  step_pos : 0 < c.step
  min_pos : 0 < c.minSub
  delta_gt : c.minSub < c.deltaInt
  maxSub_pos : 0 < c.maxSub

theorem CfgOK.delta_pos {c : Cfg ℝ} (h : CfgOK c) : 0 < c.deltaInt := lt_trans h.min_pos h.delta_gt

theorem CfgOK.bump_pos {c : Cfg ℝ} (h : CfgOK c) : 0 < c.bump := by
  rw [bump_real]; have := h.delta_pos; positivity

/-- loop invariant -/
structure Inv (c : Cfg ℝ) (s : PState ℝ) : Prop where
  dist_nonneg : 0 ≤ s.distance
  rem_nonneg : 0 ≤ s.remaining
  sum_le : s.distance + s.remaining ≤ c.step
  sub_le : s.remSub ≤ c.maxSub
  /-- once a substep has been accepted the distance is positive … -/
  acc_pos : s.remSub < c.maxSub → 0 < s.distance
  /-- … and the flag set on entry has been cleared -/
  acc_flag : s.remSub < c.maxSub → s.remaining ≠ 0 → s.boundary = false
  /-- the entry flag survives only while nothing has been travelled -/
  flag_zero : s.boundary = true → s.remaining ≠ 0 → s.distance = 0

theorem inv_init (c : Cfg ℝ) (hc : CfgOK c) (p : ℝ) (gp gd : Vec3 ℝ) (onb : Bool) :
    Inv c (PState.init c p gp gd onb) := by
  refine ⟨?_, ?_, ?_, ?_, ?_, ?_, ?_⟩ <;> simp only [PState.init, NumR.lit0]
  · exact le_refl _
  · exact le_of_lt hc.step_pos
  · linarith
  · exact le_refl _
  · intro h; exact absurd h (lt_irrefl _)
  · intro h; exact absurd h (lt_irrefl _)
  · intros; trivial

theorem updateLength_nonneg (c : Cfg ℝ) (κ : ℝ) (s : PState ℝ) (a : Answer ℝ)
    (h : AnsOK c κ s a) (hb : a.lin.boundary = true) : 0 ≤ updateLength s a := by
  rw [updateLength_real]
  exact div_nonneg (mul_nonneg (le_of_lt h.sub_pos) (h.dist_nonneg hb)) (chord_length_nonneg _ _)

/-- in the fourth branch the curved length shrinks by at least `δ/κ` -/
theorem shorten_decrease (c : Cfg ℝ) (hc : CfgOK c) (κ : ℝ) (hκ : 1 ≤ κ) (s : PState ℝ)
    (a : Answer ℝ) (h : AnsOK c κ s a) (hb : a.lin.boundary = true) (hn : ¬CommitCond c s a) :
    updateLength s a ≤ a.sub.step - c.deltaInt / κ := by
  have hδ := hc.delta_pos
  have hκ0 : 0 < κ := lt_of_lt_of_le one_pos hκ
  unfold CommitCond at hn
  simp only [not_or] at hn
  obtain ⟨_, hclose, hL0⟩ := hn
  have hLnn : 0 ≤ chordLen s a := chord_length_nonneg _ _
  have hLpos : 0 < chordLen s a := lt_of_le_of_ne hLnn (Ne.symm hL0)
  have hclose' : ¬ ((a.lin.distance - chordLen s a) * (a.lin.distance - chordLen s a)
      ≤ c.deltaInt * c.deltaInt) := by
    intro hh; apply hclose
    exact (interceptClose_iff _ _ _ _ hL0).mpr hh
  rw [sq_le_sq_iff_abs _ _ (le_of_lt hδ)] at hclose'
  have habs : c.deltaInt < |a.lin.distance - chordLen s a| := not_le.mp hclose'
  have hup := h.dist_le hb
  have hlt : a.lin.distance < chordLen s a - c.deltaInt := by
    rcases lt_abs.mp habs with h1 | h1
    · exfalso; linarith
    · linarith
  rw [updateLength_real]
  show a.sub.step * a.lin.distance / chordLen s a ≤ _
  rw [div_le_iff₀ hLpos]
  have hs := h.sub_pos
  have hch := h.chord_le
  -- sub*d ≤ sub*(L - δ) ;  (sub - δ/κ) * L = sub*L - δ*L/κ ≥ sub*L - δ*sub
  have h1 : a.sub.step * a.lin.distance ≤ a.sub.step * (chordLen s a - c.deltaInt) :=
    mul_le_mul_of_nonneg_left (le_of_lt hlt) (le_of_lt hs)
  have h2 : c.deltaInt / κ * chordLen s a ≤ c.deltaInt * a.sub.step := by
    rw [div_mul_eq_mul_div, div_le_iff₀ hκ0]
    nlinarith
  nlinarith

/-- the invariant is preserved by the loop body under the contracts -/
theorem inv_body (c : Cfg ℝ) (hc : CfgOK c) (κ : ℝ) (hκ : 1 ≤ κ) (s : PState ℝ) (a : Answer ℝ)
    (hi : Inv c s) (hr : 0 < s.remSub) (h : AnsOK c κ s a) : Inv c (body c s a).1 := by
  have hδ := hc.delta_pos
  have hκ0 : 0 < κ := lt_of_lt_of_le one_pos hκ
  rcases branchOf_cases c s a with ⟨hbr, hb⟩ | ⟨hbr, hb, hsb, hd⟩ | ⟨hbr, hb, hnb, hcc⟩ | ⟨hbr, hb, hnb, hcc⟩
  · rw [body_accept c s a hbr]
    have := h.sub_pos; have := h.sub_le; have := hi.sum_le; have := hi.dist_nonneg
    refine ⟨?_, ?_, ?_, ?_, ?_, ?_, ?_⟩ <;> simp only
    · linarith
    · linarith
    · linarith
    · have := hi.sub_le; omega
    · intro _; linarith
    · intros; trivial
    · intro hf; exact absurd hf (by simp)
  · rw [body_retry c s a hbr]
    have := h.sub_pos; have := h.sub_le; have := hi.sum_le
    refine ⟨hi.dist_nonneg, ?_, ?_, hi.sub_le, hi.acc_pos, ?_, ?_⟩ <;> simp only
    · linarith
    · linarith
    · intro hlt _
      have hrem : s.remaining ≠ 0 := by intro h0; linarith [h.sub_pos, h.sub_le]
      have := hi.acc_flag hlt hrem
      rw [this] at hsb; exact absurd hsb (by simp)
    · intro hsb' _
      have hrem : s.remaining ≠ 0 := by intro h0; linarith [h.sub_pos, h.sub_le]
      exact hi.flag_zero hsb' hrem
  · obtain ⟨b, hbiff, hbody⟩ := body_commit c s a hbr
    rw [hbody]
    have hu := updateLength_nonneg c κ s a h hb
    have := h.sub_pos; have := h.sub_le; have := hi.sum_le; have := hi.dist_nonneg
    have hm0 : 0 ≤ min (updateLength s a) a.sub.step := le_min hu (le_of_lt h.sub_pos)
    have hm1 : min (updateLength s a) a.sub.step ≤ a.sub.step := min_le_right _ _
    refine ⟨?_, ?_, ?_, hi.sub_le, ?_, ?_, ?_⟩ <;> simp only
    · linarith
    · exact le_refl _
    · linarith
    · intro hlt; have := hi.acc_pos hlt; linarith
    · intro _ h0; exact absurd rfl h0
    · intro _ h0; exact absurd rfl h0
  · rw [body_shorten c s a hbr]
    have hu := updateLength_nonneg c κ s a h hb
    have hdec := shorten_decrease c hc κ hκ s a h hb hcc
    have hpos : 0 < c.deltaInt / κ := div_pos hδ hκ0
    have := h.sub_le; have := hi.sum_le
    have hrem : s.remaining ≠ 0 := by intro h0; linarith [h.sub_pos, h.sub_le]
    refine ⟨hi.dist_nonneg, hu, ?_, hi.sub_le, hi.acc_pos, ?_, ?_⟩ <;> simp only
    · linarith
    · intro hlt _; exact hi.acc_flag hlt hrem
    · intro hsb' _; exact hi.flag_zero hsb' hrem

end CelerVerif.FieldProp
