/-
QuadraticSolver at ℝ: every returned value is a positive root, roots are sorted, and no
positive root is omitted.
-/
import CelerVerif.Num.Real
import CelerVerif.Model.Surf
import Mathlib.Tactic.Ring
import Mathlib.Tactic.Linarith
import Mathlib.Tactic.FieldSimp
import Mathlib.Tactic.Positivity

namespace CelerVerif.Surf
open CelerVerif

/-- rewrite `Num ℝ` operations into ordinary real arithmetic -/
macro "num_simp" loc:(Lean.Parser.Tactic.location)? : tactic => `(tactic|
  simp only [NumR.gt_real, NumR.ge_real, NumR.sq_real, NumR.le_real, NumR.lt_real, NumR.eq_real,
    NumR.hsub_real, NumR.hneg_real, NumR.hadd_real, NumR.hmul_real, NumR.hdiv_real,
    NumR.sqrt_real, NumR.abs_real, NumR.lit0, NumR.lit1, NumR.lit2, NumR.lit3, NumR.lit4,
    NumR.fma_real, Num.ne, NumR.eq_real_false, NumR.ofNat_zero, NumR.ofNat_one, add_zero,
    Bool.not_eq_true', decide_eq_true_eq, decide_eq_false_iff_not,
    Bool.and_eq_true, Bool.not_eq_true, Bool.not_eq_eq_eq_not, Bool.not_true, Bool.not_false]
    $[$loc]?)

/-- membership in a two-slot result -/
def Isect2.mem (t : ℝ) (r : Isect2 ℝ) : Prop := r.1 = some t ∨ r.2 = some t

theorem sqrt_sq_id {D : ℝ} (h : 0 ≤ D) : Real.sqrt D * Real.sqrt D = D := Real.mul_self_sqrt h

/-- `operator()(c)`: everything returned is a positive root of t² + 2·hba·t + c·aInv -/
theorem solve_sound (s : QSolver ℝ) (c t : ℝ) (h : Isect2.mem t (s.solve c)) :
    0 < t ∧ t * t + 2 * s.hba * t + c * s.aInv = 0 := by
  unfold Isect2.mem QSolver.solve at h
  num_simp at h
  split_ifs at h with h1 h2 h3 h4 h5
  · simp at h
  · simp only [reduceCtorEq, Option.some.injEq, false_or] at h
    subst h
    have hD : 0 ≤ s.hba * s.hba - c * s.aInv := by linarith
    have := sqrt_sq_id hD
    constructor
    · linarith
    · nlinarith
  · simp only [Option.some.injEq] at h
    have hD : 0 ≤ s.hba * s.hba - c * s.aInv := by linarith
    have := sqrt_sq_id hD
    rcases h with h | h <;> subst h <;> constructor <;> first | linarith | nlinarith
  · simp at h
  · simp only [Option.some.injEq, reduceCtorEq, or_false] at h
    subst h
    constructor
    · linarith
    · nlinarith
  · simp at h

/-- completeness: a positive root is returned -/
theorem solve_complete (s : QSolver ℝ) (c t : ℝ) (ht : 0 < t)
    (hr : t * t + 2 * s.hba * t + c * s.aInv = 0) : Isect2.mem t (s.solve c) := by
  unfold Isect2.mem QSolver.solve
  num_simp
  have hD : s.hba * s.hba - c * s.aInv = (t + s.hba) * (t + s.hba) := by linarith [hr]
  have hD0 : 0 ≤ s.hba * s.hba - c * s.aInv := by rw [hD]; exact mul_self_nonneg _
  have hs := sqrt_sq_id hD0
  have hsn := Real.sqrt_nonneg (s.hba * s.hba - c * s.aInv)
  -- t + hba = ± sqrt D
  have hcase : t + s.hba = Real.sqrt (s.hba * s.hba - c * s.aInv)
      ∨ t + s.hba = -Real.sqrt (s.hba * s.hba - c * s.aInv) := by
    have : (t + s.hba - Real.sqrt (s.hba * s.hba - c * s.aInv))
        * (t + s.hba + Real.sqrt (s.hba * s.hba - c * s.aInv)) = 0 := by nlinarith
    rcases mul_eq_zero.mp this with h | h
    · left; linarith
    · right; linarith
  split_ifs with h1 h2 h3 h4 h5
  · exfalso; rcases hcase with h | h <;> linarith
  · rcases hcase with h | h
    · right; simp; linarith
    · exfalso; linarith
  · rcases hcase with h | h
    · right; simp; linarith
    · left; simp; linarith
  · exfalso
    have : Real.sqrt (s.hba * s.hba - c * s.aInv) = 0 := by
      rw [h4]; simp
    rcases hcase with h | h <;> linarith
  · left
    have : Real.sqrt (s.hba * s.hba - c * s.aInv) = 0 := by
      rw [h4]; simp
    simp; rcases hcase with h | h <;> linarith
  · exfalso
    have hlt : s.hba * s.hba - c * s.aInv < 0 := by
      rcases lt_or_gt_of_ne h4 with h | h
      · linarith
      · exact absurd h h1
    linarith

/-- when both slots are filled the first is the nearer one -/
theorem solve_sorted (s : QSolver ℝ) (c t0 t1 : ℝ) (h : s.solve c = (some t0, some t1)) :
    t0 < t1 := by
  unfold QSolver.solve at h
  num_simp at h
  split_ifs at h with h1 h2 h3 h4 h5 <;> simp only [Prod.mk.injEq, reduceCtorEq, and_false,
    false_and, Option.some.injEq] at h
  obtain ⟨rfl, rfl⟩ := h
  have : 0 < Real.sqrt (s.hba * s.hba - c * s.aInv) := Real.sqrt_pos.mpr (by linarith)
  linarith

/-- `operator()()` (on surface, c = 0): the non-zero root -2·hba if positive -/
theorem solveOn_sound (s : QSolver ℝ) (t : ℝ) (h : Isect2.mem t s.solveOn) :
    0 < t ∧ t * t + 2 * s.hba * t = 0 := by
  unfold Isect2.mem QSolver.solveOn at h
  num_simp at h
  split_ifs at h with h1
  · simp at h
  · simp only [Option.some.injEq, reduceCtorEq, or_false] at h
    subst h
    constructor
    · linarith
    · ring

theorem solveOn_complete (s : QSolver ℝ) (t : ℝ) (ht : 0 < t) (hr : t * t + 2 * s.hba * t = 0) :
    Isect2.mem t s.solveOn := by
  unfold Isect2.mem QSolver.solveOn
  num_simp
  have : t = -2 * s.hba := by
    have h : t * (t + 2 * s.hba) = 0 := by linarith
    rcases mul_eq_zero.mp h with h | h <;> linarith
  split_ifs with h1
  · exfalso; linarith
  · left; simp; linarith

/-- constructor scaling: with a ≠ 0, t² + 2·hba·t + c·aInv = (a t² + 2 hb t + c)/a -/
theorem mk'_scaled (a hb c t : ℝ) (ha : a ≠ 0) :
    t * t + 2 * (QSolver.mk' a hb).hba * t + c * (QSolver.mk' a hb).aInv
      = (a * t * t + 2 * hb * t + c) / a := by
  simp only [QSolver.mk']
  num_simp
  field_simp

end CelerVerif.Surf
