/-
C14 helper lemmas (7): an exact statement about the `Num`-generic `UniformGrid::find` that does
not depend on real arithmetic — monotonicity in the value, from monotonicity of the three
operations `find` uses.
-/
import CelerVerif.Lemmas.CalcBasic

namespace CelerVerif.Calc
open CelerVerif

/-- order facts about a number type (with `Num.le` as its order) and the index cast that make
    `UniformGrid::find` monotone.

    IEEE binary64 (`α := Float`, `toIdx := Float.toUInt64 ∘ toNat`) satisfies them for
    non-NaN arguments whose difference does not overflow to `inf − inf`:
    * `sub_mono`: `a ≤ b → a ⊖ c ≤ b ⊖ c` — the exact difference is monotone and
      round-to-nearest-even is a monotone function of the exact result;
    * `div_mono`: `0 < d → a ≤ b → a ⊘ d ≤ b ⊘ d` — same argument for the exact quotient;
    * `toIdx_mono`: truncation towards zero followed by saturation to `[0, 2^64)` is monotone
      (negative values and NaN map to 0 in Lean; the code only casts non-negative quotients).
    (`Num.le a b = true` already excludes NaN operands.)  These are the facts a bit-level proof
    at `Float` would have to supply; here they are hypotheses. -/
structure MonoNum (α : Type) [Num α] (toIdx : α → ℕ) : Prop where
  sub_mono : ∀ a b c : α, Num.le a b = true → Num.le (Num.sub a c) (Num.sub b c) = true
  div_mono : ∀ a b d : α, Num.lt (Num.ofNat 0) d = true → Num.le a b = true →
    Num.le (Num.div a d) (Num.div b d) = true
  toIdx_mono : ∀ a b : α, Num.le a b = true → toIdx a ≤ toIdx b

/-- `UniformGrid::find` (with its clamp) is monotone in the value, for every number type whose
    subtraction, division by a positive number and index cast are monotone -/
theorem UGrid.find_mono_of {α : Type} [Num α] {toIdx : α → ℕ} (M : MonoNum α toIdx)
    (g : UGrid α) (hd : Num.lt (Num.ofNat 0) g.delta = true) (a b : α)
    (hab : Num.le a b = true) : g.find toIdx a ≤ g.find toIdx b := by
  have h := M.toIdx_mono _ _ (M.div_mono _ _ g.delta hd (M.sub_mono a b g.front hab))
  unfold UGrid.find
  simp only []
  have h' : toIdx ((a - g.front) / g.delta) ≤ toIdx ((b - g.front) / g.delta) := h
  split <;> split <;> omega

/-- the real numbers with truncation satisfy the three facts -/
theorem monoNum_real : MonoNum ℝ floorIdx where
  sub_mono a b c h := by
    simp only [NumR.sub_real, NumR.le_real] at h ⊢
    linarith
  div_mono a b d hd h := by
    simp only [NumR.div_real, NumR.le_real, NumR.lt_real, NumR.ofNat_zero] at hd h ⊢
    exact div_le_div_of_nonneg_right h (le_of_lt hd)
  toIdx_mono a b h := by
    simp only [NumR.le_real] at h
    exact Nat.floor_le_floor h

end CelerVerif.Calc
