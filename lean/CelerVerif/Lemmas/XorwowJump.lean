/-
The code's accumulate-and-advance loop `jump(JumpPoly const&)` evaluates the packed polynomial
in the transition map: `applyPoly g x = ev g.pack x`.
-/
import CelerVerif.Lemmas.XorwowLinear

namespace CelerVerif.Xorwow
open CelerVerif.Generated.Xorwow

local infixl:65 " ⊞ " => XS.xor

/-- list-of-coefficients evaluation -/
def evL : List Bool → XS → XS
  | [], _ => XS.zero
  | b :: bs, x => sel b x ⊞ evL bs x.next

theorem foldl_polyStep (bs : List Bool) (acc x : XS) :
    bs.foldl polyStep (acc, x) = (acc ⊞ evL bs x, iter bs.length x) := by
  induction bs generalizing acc x with
  | nil => simp [evL, iter]
  | cons b bs ih =>
    simp only [List.foldl_cons, polyStep, ih, evL, List.length_cons, iter]
    cases b <;> simp [sel, XS.xor_assoc]

/-- the coefficient list in the order the double loop visits it -/
def Poly.bits (g : Poly) : List Bool :=
  (List.range 5).flatMap fun i => (List.range 32).map fun j => g.bit i j

theorem applyPoly_eq_evL (g : Poly) (x : XS) : applyPoly g x = evL g.bits x := by
  unfold applyPoly Poly.bits
  have : ∀ (p : XS × XS),
      (List.range 5).foldl
        (fun p i => (List.range 32).foldl (fun p j => polyStep p (g.bit i j)) p) p
      = ((List.range 5).flatMap fun i => (List.range 32).map fun j => g.bit i j).foldl polyStep p := by
    intro p
    simp only [List.foldl_flatMap, List.foldl_map]
  rw [this, foldl_polyStep]; simp

theorem bit_test (w : BitVec 32) (j : Nat) (hj : j < 32) :
    ((w &&& ((1 : BitVec 32) <<< j)) != 0) = w.getLsbD j := by
  by_cases h : w.getLsbD j
  · simp only [h, bne_iff_ne, ne_eq]
    intro h0
    have := congrArg (fun v => v.getLsbD j) h0
    simp [hj] at this
    rw [BitVec.getLsbD_eq_getElem hj] at h
    simp [h] at this
  · simp only [h, bne_eq_false_iff_eq]
    apply BitVec.eq_of_getLsbD_eq
    intro i hi
    simp only [BitVec.getLsbD_and, BitVec.getLsbD_shiftLeft]
    by_cases hij : i = j
    · subst hij; simp [h]
    · by_cases hlt : i < j
      · simp [hlt]
      · have : i - j ≠ 0 := by omega
        simp [BitVec.getLsbD_one, this]

/-- the polynomial as one number: bit (32 i + j) = bit j of word i -/
def Poly.pack (g : Poly) : Nat :=
  2 ^ 32 * (2 ^ 32 * (2 ^ 32 * (2 ^ 32 * g.w4.toNat + g.w3.toNat) + g.w2.toNat) + g.w1.toNat)
    + g.w0.toNat

theorem Poly.pack_lt (g : Poly) : g.pack < 2 ^ 160 := by
  have h0 := g.w0.isLt; have h1 := g.w1.isLt; have h2 := g.w2.isLt
  have h3 := g.w3.isLt; have h4 := g.w4.isLt
  unfold Poly.pack; omega

theorem Poly.pack_testBit (g : Poly) (i j : Nat) (hi : i < 5) (hj : j < 32) :
    g.pack.testBit (32 * i + j) = g.bit i j := by
  unfold Poly.bit
  rw [bit_test _ _ hj]
  unfold Poly.pack
  have hi' : i = 0 ∨ i = 1 ∨ i = 2 ∨ i = 3 ∨ i = 4 := by omega
  rcases hi' with rfl | rfl | rfl | rfl | rfl <;>
    simp only [Poly.word, Nat.testBit_two_pow_mul_add _ (BitVec.isLt _)] <;>
    simp [hj, BitVec.getLsbD, show ¬ (32 + j < 32) by omega, show ¬ (64 + j < 32) by omega,
      show ¬ (96 + j < 32) by omega, show ¬ (128 + j < 32) by omega,
      show 64 + j - 32 = 32 + j by omega, show 96 + j - 32 = 64 + j by omega,
      show 128 + j - 32 = 96 + j by omega, show 32 + j - 32 = j by omega]

theorem range160 :
    List.range 160 = (List.range 5).flatMap fun i => (List.range 32).map fun j => 32 * i + j := by
  decide

theorem flatMap_congr' {α β : Type} (l : List α) (f g : α → List β)
    (h : ∀ a ∈ l, f a = g a) : l.flatMap f = l.flatMap g := by
  induction l with
  | nil => rfl
  | cons a l ih =>
    simp only [List.flatMap_cons]
    rw [h a (by simp), ih (fun b hb => h b (by simp [hb]))]

theorem Poly.bits_eq (g : Poly) : g.bits = (List.range 160).map g.pack.testBit := by
  rw [range160, List.map_flatMap]
  unfold Poly.bits
  apply flatMap_congr'
  intro i hi
  rw [List.map_map]
  apply List.map_congr_left
  intro j hj
  simp only [List.mem_range] at hi hj
  simp [Function.comp, Poly.pack_testBit g i j hi hj]

theorem evL_testBit (n G : Nat) (h : G < 2 ^ n) (x : XS) :
    evL ((List.range n).map G.testBit) x = ev G x := by
  induction n generalizing G x with
  | zero =>
    have : G = 0 := by simpa using h
    subst this; simp [evL, ev_zero]
  | succ n ih =>
    rw [List.range_succ_eq_map, List.map_cons, List.map_map, evL, ev_unfold G]
    have h2 : G / 2 < 2 ^ n := by rw [Nat.pow_succ] at h; omega
    have : (G.testBit ∘ Nat.succ) = (G / 2).testBit := by
      funext k; simp [Function.comp, Nat.testBit_succ]
    rw [this, ih _ h2]
    congr 2
    simp only [Nat.testBit_zero]
    by_cases hh : G % 2 = 1 <;> simp [hh]

/-- **The jump loop is polynomial evaluation.** -/
theorem applyPoly_eq_ev (g : Poly) (x : XS) : applyPoly g x = ev g.pack x := by
  rw [applyPoly_eq_evL, Poly.bits_eq, evL_testBit _ _ g.pack_lt]

end CelerVerif.Xorwow
