/-
Along a ray `pos + t·dir` every quadric's defining expression is the quadratic polynomial
`A t² + 2 B t + C` whose coefficients are exactly what `calc_intersections` hands to the
solver (for unit directions where the code assumes them).
-/
import CelerVerif.Lemmas.SurfSolver

namespace CelerVerif.Surf
open CelerVerif

macro "vec_simp" loc:(Lean.Parser.Tactic.location)? : tactic => `(tactic|
  simp only [Vec3.ax, Vec3.get, Vec3.set, Axis.toNat, Axis.U, Axis.V, Vec3.dot, Vec3.add,
    Vec3.sub, Vec3.scale, Vec3.axpy, Vec3.norm] $[$loc]?)

/-- unfold vector helpers and `Num ℝ` operations, then `ring` -/
macro "surf_ring" : tactic => `(tactic| (
  (try vec_simp); (try num_simp); ring))

/-- point on the ray -/
def along (pos dir : Vec3 ℝ) (t : ℝ) : Vec3 ℝ := ⟨pos.x + t * dir.x, pos.y + t * dir.y, pos.z + t * dir.z⟩

/-- true ray-polynomial coefficients (A, B, C) of `quadric (along pos dir t) = A t² + 2 B t + C` -/
noncomputable def Surface.rayCoeffs (s : Surface ℝ) (pos dir : Vec3 ℝ) : ℝ × ℝ × ℝ :=
  match s with
  | .planeAligned t _ => (0, dir.ax t / 2, s.quadric pos)
  | .plane n _ => (0, (n.x * dir.x + n.y * dir.y + n.z * dir.z) / 2, s.quadric pos)
  | .cylCentered t _ =>
    (dir.ax t.U * dir.ax t.U + dir.ax t.V * dir.ax t.V,
     dir.ax t.U * pos.ax t.U + dir.ax t.V * pos.ax t.V, s.quadric pos)
  | .cylAligned t ou ov _ =>
    (dir.ax t.U * dir.ax t.U + dir.ax t.V * dir.ax t.V,
     dir.ax t.U * (pos.ax t.U - ou) + dir.ax t.V * (pos.ax t.V - ov), s.quadric pos)
  | .sphereCentered _ =>
    (dir.x * dir.x + dir.y * dir.y + dir.z * dir.z,
     pos.x * dir.x + pos.y * dir.y + pos.z * dir.z, s.quadric pos)
  | .sphere o _ =>
    (dir.x * dir.x + dir.y * dir.y + dir.z * dir.z,
     (pos.x - o.x) * dir.x + (pos.y - o.y) * dir.y + (pos.z - o.z) * dir.z, s.quadric pos)
  | .coneAligned t o tsq =>
    (-tsq * (dir.ax t * dir.ax t) + dir.ax t.U * dir.ax t.U + dir.ax t.V * dir.ax t.V,
     -tsq * (pos.ax t - o.ax t) * dir.ax t + (pos.ax t.U - o.ax t.U) * dir.ax t.U
       + (pos.ax t.V - o.ax t.V) * dir.ax t.V, s.quadric pos)
  | .simpleQuadric a b c d e f _ =>
    (a * dir.x * dir.x + b * dir.y * dir.y + c * dir.z * dir.z,
     ((2 * a * pos.x + d) * dir.x + (2 * b * pos.y + e) * dir.y + (2 * c * pos.z + f) * dir.z) / 2,
     s.quadric pos)
  | .generalQuadric a b c d e f g h i _ =>
    ((a * dir.x + d * dir.y) * dir.x + (b * dir.y + e * dir.z) * dir.y
       + (c * dir.z + f * dir.x) * dir.z,
     ((2 * a * pos.x + d * pos.y + f * pos.z + g) * dir.x
       + (2 * b * pos.y + d * pos.x + e * pos.z + h) * dir.y
       + (2 * c * pos.z + e * pos.y + f * pos.x + i) * dir.z) / 2,
     s.quadric pos)

/-- **ray polynomial**: the quadric expression along the ray is `A t² + 2 B t + C` -/
theorem quadric_along (s : Surface ℝ) (pos dir : Vec3 ℝ) (t : ℝ) :
    s.quadric (along pos dir t)
      = (s.rayCoeffs pos dir).1 * t * t + 2 * (s.rayCoeffs pos dir).2.1 * t
        + (s.rayCoeffs pos dir).2.2 := by
  cases s with
  | planeAligned ax p => cases ax <;> simp only [Surface.quadric, Surface.rayCoeffs, along] <;> surf_ring
  | plane n d => simp only [Surface.quadric, Surface.rayCoeffs, along]; surf_ring
  | cylCentered ax r2 => cases ax <;> simp only [Surface.quadric, Surface.rayCoeffs, along] <;> surf_ring
  | cylAligned ax ou ov r2 => cases ax <;> simp only [Surface.quadric, Surface.rayCoeffs, along] <;> surf_ring
  | sphereCentered r2 => simp only [Surface.quadric, Surface.rayCoeffs, along]; surf_ring
  | sphere o r2 => simp only [Surface.quadric, Surface.rayCoeffs, along]; surf_ring
  | coneAligned ax o tsq => cases ax <;> simp only [Surface.quadric, Surface.rayCoeffs, along] <;> surf_ring
  | simpleQuadric a b c d e f g => simp only [Surface.quadric, Surface.rayCoeffs, along]; surf_ring
  | generalQuadric a b c d e f g h i j => simp only [Surface.quadric, Surface.rayCoeffs, along]; surf_ring

end CelerVerif.Surf
