/-
Vector algebra at ℝ for the optical model: `make_unit_vector`, `from_spherical`, `rotate`
(all three branches).
-/
import CelerVerif.Num.Real
import CelerVerif.Model.Optical
import Mathlib.Tactic.Ring
import Mathlib.Tactic.Linarith
import Mathlib.Tactic.LinearCombination
import Mathlib.Tactic.FieldSimp
import Mathlib.Tactic.Positivity
import Mathlib.Tactic.NormNum

namespace CelerVerif.Optical
open CelerVerif

/-- rewrite `Num ℝ` operations into ordinary real arithmetic -/
macro "opt_simp" loc:(Lean.Parser.Tactic.location)? : tactic => `(tactic|
  simp only [NumR.gt_real, NumR.ge_real, NumR.sq_real, NumR.le_real, NumR.lt_real, NumR.eq_real,
    NumR.hsub_real, NumR.hneg_real, NumR.hadd_real, NumR.hmul_real, NumR.hdiv_real,
    NumR.sqrt_real, NumR.abs_real, NumR.lit0, NumR.lit1, NumR.lit2, NumR.lit3, NumR.lit4,
    NumR.sin_real, NumR.cos_real, NumR.log_real, NumR.exp_real,
    NumR.fma_real, Num.ne, NumR.eq_real_false, NumR.ofNat_zero, NumR.ofNat_one, add_zero,
    NumR.lt_real_false, NumR.le_real_false,
    Bool.not_eq_true', decide_eq_true_eq, decide_eq_false_iff_not,
    Bool.and_eq_true, Bool.not_eq_true, Bool.not_eq_eq_eq_not, Bool.not_true, Bool.not_false]
    $[$loc]?)

/-- plain dot product at ℝ -/
def vdot (a b : Vec3 ℝ) : ℝ := a.x * b.x + a.y * b.y + a.z * b.z

theorem dot_eq_vdot (a b : Vec3 ℝ) : Vec3.dot a b = vdot a b := by
  simp [vdot]

theorem vdot_comm (a b : Vec3 ℝ) : vdot a b = vdot b a := by
  simp only [vdot]; ring

theorem vdot_self_nonneg (a : Vec3 ℝ) : 0 ≤ vdot a a := by
  simp only [vdot]; nlinarith [mul_self_nonneg a.x, mul_self_nonneg a.y, mul_self_nonneg a.z]

theorem vec3_ext {a b : Vec3 ℝ} (hx : a.x = b.x) (hy : a.y = b.y) (hz : a.z = b.z) : a = b := by
  cases a; cases b; simp_all

/-! ### make_unit_vector -/

theorem makeUnit_eq (v : Vec3 ℝ) :
    makeUnitVector v = ⟨v.x * (1 / Real.sqrt (vdot v v)), v.y * (1 / Real.sqrt (vdot v v)),
                        v.z * (1 / Real.sqrt (vdot v v))⟩ := by
  simp only [makeUnitVector, Vec3.norm, dot_eq_vdot]
  opt_simp

theorem vdot_makeUnit_left (v w : Vec3 ℝ) :
    vdot (makeUnitVector v) w = vdot v w * (1 / Real.sqrt (vdot v v)) := by
  rw [makeUnit_eq]; simp only [vdot]; ring

theorem vdot_makeUnit_right (v w : Vec3 ℝ) :
    vdot w (makeUnitVector v) = vdot w v * (1 / Real.sqrt (vdot v v)) := by
  rw [vdot_comm, vdot_makeUnit_left, vdot_comm]

/-- a non-zero vector is normalised to a unit vector -/
theorem makeUnit_unit (v : Vec3 ℝ) (h : 0 < vdot v v) :
    vdot (makeUnitVector v) (makeUnitVector v) = 1 := by
  rw [vdot_makeUnit_left, vdot_makeUnit_right]
  have hs : 0 < Real.sqrt (vdot v v) := Real.sqrt_pos.mpr h
  have h2 : Real.sqrt (vdot v v) * Real.sqrt (vdot v v) = vdot v v :=
    Real.mul_self_sqrt (le_of_lt h)
  field_simp
  nlinarith

/-- a unit vector is left unchanged -/
theorem makeUnit_of_unit (v : Vec3 ℝ) (h : vdot v v = 1) : makeUnitVector v = v := by
  rw [makeUnit_eq, h, Real.sqrt_one]
  apply vec3_ext <;> simp

/-! ### from_spherical -/

theorem fromSpherical_eq (c p : ℝ) :
    fromSpherical c p = ⟨Real.sqrt (1 - c * c) * Real.cos p, Real.sqrt (1 - c * c) * Real.sin p, c⟩ := by
  simp only [fromSpherical]; opt_simp

theorem sqrt_one_sub_sq (c : ℝ) (h1 : -1 ≤ c) (h2 : c ≤ 1) :
    Real.sqrt (1 - c * c) * Real.sqrt (1 - c * c) = 1 - c * c :=
  Real.mul_self_sqrt (by nlinarith)

/-- `from_spherical(cosθ, φ)` is a unit vector for cosθ ∈ [−1, 1] (the `CELER_EXPECT`) -/
theorem fromSpherical_unit (c p : ℝ) (h1 : -1 ≤ c) (h2 : c ≤ 1) :
    vdot (fromSpherical c p) (fromSpherical c p) = 1 := by
  rw [fromSpherical_eq]; simp only [vdot]
  have hs := sqrt_one_sub_sq c h1 h2
  have ht := Real.cos_sq_add_sin_sq p
  have : Real.cos p * Real.cos p + Real.sin p * Real.sin p = 1 := by nlinarith [ht]
  linear_combination (Real.cos p * Real.cos p + Real.sin p * Real.sin p) * hs + (1 - c * c) * this

/-- dot product of two `from_spherical` vectors with the same azimuth -/
theorem fromSpherical_vdot (c c' p : ℝ) :
    vdot (fromSpherical c p) (fromSpherical c' p)
      = Real.sqrt (1 - c * c) * Real.sqrt (1 - c' * c') + c * c' := by
  rw [fromSpherical_eq, fromSpherical_eq]; simp only [vdot]
  have : Real.cos p * Real.cos p + Real.sin p * Real.sin p = 1 := by
    nlinarith [Real.cos_sq_add_sin_sq p]
  linear_combination (Real.sqrt (1 - c * c) * Real.sqrt (1 - c' * c')) * this

/-- third component -/
theorem fromSpherical_z (c p : ℝ) : (fromSpherical c p).z = c := by
  rw [fromSpherical_eq]

/-! ### rotate -/

/-- `rot` is a unit vector -/
def isUnit (v : Vec3 ℝ) : Prop := vdot v v = 1

theorem isUnit_z_le (r : Vec3 ℝ) (h : isUnit r) : r.z * r.z ≤ 1 := by
  unfold isUnit vdot at h; nlinarith [mul_self_nonneg r.x, mul_self_nonneg r.y]

theorem minAcc_real : (minAccurateSintheta : ℝ) = 5 / 1000 := by
  unfold minAccurateSintheta
  show (OfScientific.ofScientific 5 true 3 : ℝ) = 5 / 1000
  norm_num

/-- `rotAngles` at ℝ in plain arithmetic -/
theorem rotAngles_real (r : Vec3 ℝ) :
    rotAngles r =
      if (5 / 1000 : ℝ) ≤ Real.sqrt (1 - r.z * r.z) then
        (Real.sqrt (1 - r.z * r.z), r.x * (1 / Real.sqrt (1 - r.z * r.z)),
         r.y * (1 / Real.sqrt (1 - r.z * r.z)))
      else if 0 < Real.sqrt (1 - r.z * r.z) then
        (if 0 < Real.sqrt (r.x * r.x + r.y * r.y) then
          (Real.sqrt (1 - r.z * r.z), r.x / Real.sqrt (r.x * r.x + r.y * r.y),
           Real.sqrt (1 - r.x / Real.sqrt (r.x * r.x + r.y * r.y)
                          * (r.x / Real.sqrt (r.x * r.x + r.y * r.y))))
         else (0, 1, 0))
      else (Real.sqrt (1 - r.z * r.z), 1, 0) := by
  unfold rotAngles
  opt_simp
  rw [minAcc_real]

/-- the angles `rotate` extracts from a unit `rot` always describe an orthogonal frame:
    sin²θ + rot_z² = 1 and cos²φ + sin²φ = 1, in every one of the three branches -/
theorem rotAngles_spec (r : Vec3 ℝ) (h : isUnit r) :
    (rotAngles r).1 * (rotAngles r).1 + r.z * r.z = 1 ∧
    (rotAngles r).2.1 * (rotAngles r).2.1 + (rotAngles r).2.2 * (rotAngles r).2.2 = 1 ∧
    0 ≤ (rotAngles r).1 := by
  have hz := isUnit_z_le r h
  have hst : Real.sqrt (1 - r.z * r.z) * Real.sqrt (1 - r.z * r.z) = 1 - r.z * r.z :=
    Real.mul_self_sqrt (by linarith)
  have hst0 : 0 ≤ Real.sqrt (1 - r.z * r.z) := Real.sqrt_nonneg _
  have hxy : r.x * r.x + r.y * r.y = 1 - r.z * r.z := by
    unfold isUnit vdot at h; linarith
  rw [rotAngles_real]
  generalize Real.sqrt (1 - r.z * r.z) = s at hst hst0
  split_ifs with hb1 hb2 hrho
  · -- far from the axis
    refine ⟨by simp only []; linarith, ?_, hst0⟩
    simp only []
    have hpos : 0 < s := lt_of_lt_of_le (by norm_num) hb1
    have hi : 1 / s * s = 1 := one_div_mul_cancel (ne_of_gt hpos)
    linear_combination (1 / s * (1 / s)) * hxy - (1 / s * (1 / s)) * hst + (1 / s * s + 1) * hi
  · -- near the axis, rho > 0: cosφ = x/rho, sinφ := +sqrt(1 − cos²φ)
    refine ⟨by simp only []; linarith, ?_, hst0⟩
    simp only []
    have hq : 0 < r.x * r.x + r.y * r.y := Real.sqrt_pos.mp hrho
    have hsq : Real.sqrt (r.x * r.x + r.y * r.y) * Real.sqrt (r.x * r.x + r.y * r.y)
        = r.x * r.x + r.y * r.y := Real.mul_self_sqrt (le_of_lt hq)
    set c := r.x / Real.sqrt (r.x * r.x + r.y * r.y) with hc
    have hc1 : c * c ≤ 1 := by
      have : c * c = r.x * r.x / (r.x * r.x + r.y * r.y) := by
        rw [hc, div_mul_div_comm, hsq]
      rw [this, div_le_one hq]
      nlinarith [mul_self_nonneg r.y]
    have := Real.mul_self_sqrt (show (0:ℝ) ≤ 1 - c * c by linarith)
    linarith
  · -- near the axis with rho = 0: treated as exactly on the axis (sinθ := 0); for a unit rot
    -- rho = 0 forces rot_z² = 1
    have hq0 : r.x * r.x + r.y * r.y = 0 := by
      have hle : Real.sqrt (r.x * r.x + r.y * r.y) ≤ 0 := not_lt.mp hrho
      have h0 := Real.sqrt_eq_zero'.mp (le_antisymm hle (Real.sqrt_nonneg _))
      nlinarith [mul_self_nonneg r.x, mul_self_nonneg r.y]
    refine ⟨by simp only []; linarith, by simp, le_refl _⟩
  · -- on the axis
    refine ⟨by simp only []; linarith, by simp, hst0⟩

/-- the rotation applied by `rotate` before normalisation is an isometry for unit `rot` -/
theorem rotateRaw_vdot (a b r : Vec3 ℝ) (h : isUnit r) :
    vdot (rotateRaw a r) (rotateRaw b r) = vdot a b := by
  obtain ⟨h1, h2, _⟩ := rotAngles_spec r h
  unfold rotateRaw
  generalize rotAngles r = t at h1 h2
  obtain ⟨st, cp, sp⟩ := t
  simp only [] at h1 h2 ⊢
  opt_simp
  simp only [vdot]
  linear_combination (a.x * b.x + a.z * b.z) * h1
    + ((r.z * a.x + st * a.z) * (r.z * b.x + st * b.z) + a.y * b.y) * h2

/-- `rotate` of a unit vector: the final `make_unit_vector` is the identity -/
theorem rotate_eq_raw (a r : Vec3 ℝ) (hr : isUnit r) (ha : isUnit a) :
    rotate a r = rotateRaw a r := by
  unfold rotate
  apply makeUnit_of_unit
  rw [rotateRaw_vdot a a r hr]; exact ha

/-- image of the z axis under the rotation (the "pole"): what `rotate((0,0,1), rot)` returns -/
noncomputable def poleImage (r : Vec3 ℝ) : Vec3 ℝ :=
  ⟨(rotAngles r).1 * (rotAngles r).2.1, (rotAngles r).1 * (rotAngles r).2.2, r.z⟩

/-- polar angle w.r.t. the pole image is preserved: (R d)·(R e_z) = d_z -/
theorem rotateRaw_vdot_pole (d r : Vec3 ℝ) (h : isUnit r) :
    vdot (rotateRaw d r) (poleImage r) = d.z := by
  obtain ⟨h1, h2, _⟩ := rotAngles_spec r h
  unfold rotateRaw poleImage
  generalize rotAngles r = t at h1 h2
  obtain ⟨st, cp, sp⟩ := t
  simp only [] at h1 h2 ⊢
  opt_simp
  simp only [vdot]
  linear_combination (d.z) * h1 + (st * (r.z * d.x + st * d.z)) * h2

/-- which branch of `rotate` is the near-axis one: 0 < sinθ < min_accurate_sintheta -/
def nearAxis (r : Vec3 ℝ) : Prop :=
  0 < Real.sqrt (1 - r.z * r.z) ∧ Real.sqrt (1 - r.z * r.z) < (5 / 1000 : ℝ)

attribute [local instance] Classical.propDecidable in
/-- the pole image is `rot` itself in the far-from-axis and on-axis branches; in the near-axis
    branch it is (rot_x, |rot_y|, rot_z): the sign of rot_y is lost -/
theorem poleImage_eq (r : Vec3 ℝ) (h : isUnit r) :
    poleImage r = ⟨r.x, if nearAxis r then |r.y| else r.y, r.z⟩ := by
  have hz := isUnit_z_le r h
  have hst : Real.sqrt (1 - r.z * r.z) * Real.sqrt (1 - r.z * r.z) = 1 - r.z * r.z :=
    Real.mul_self_sqrt (by linarith)
  have hst0 : 0 ≤ Real.sqrt (1 - r.z * r.z) := Real.sqrt_nonneg _
  have hxy : r.x * r.x + r.y * r.y = 1 - r.z * r.z := by
    unfold isUnit vdot at h; linarith
  unfold poleImage nearAxis
  rw [rotAngles_real]
  by_cases hb1 : (5 / 1000 : ℝ) ≤ Real.sqrt (1 - r.z * r.z)
  · -- far from the axis
    rw [if_pos hb1, if_neg (fun hn => absurd hn.2 (not_lt.mpr hb1))]
    have hpos : 0 < Real.sqrt (1 - r.z * r.z) := lt_of_lt_of_le (by norm_num) hb1
    have hne : Real.sqrt (1 - r.z * r.z) ≠ 0 := ne_of_gt hpos
    apply vec3_ext <;> simp only []
    · rw [mul_comm r.x, ← mul_assoc, mul_one_div_cancel hne, one_mul]
    · rw [mul_comm r.y, ← mul_assoc, mul_one_div_cancel hne, one_mul]
  · rw [if_neg hb1]
    by_cases hb2 : 0 < Real.sqrt (1 - r.z * r.z)
    · -- near the axis: rho = sinθ > 0
      have hna : 0 < Real.sqrt (1 - r.z * r.z) ∧ Real.sqrt (1 - r.z * r.z) < 5 / 1000 :=
        ⟨hb2, not_le.mp hb1⟩
      rw [hxy]
      simp only [if_pos hb2, if_pos hna]
      have h1z : 0 < 1 - r.z * r.z := by rw [← hst]; exact mul_pos hb2 hb2
      have hne : Real.sqrt (1 - r.z * r.z) ≠ 0 := ne_of_gt hb2
      apply vec3_ext <;> simp only []
      · exact mul_div_cancel₀ r.x hne
      · have hc : r.x / Real.sqrt (1 - r.z * r.z) * (r.x / Real.sqrt (1 - r.z * r.z))
            = r.x * r.x / (1 - r.z * r.z) := by rw [div_mul_div_comm, hst]
        have hyy : 1 - r.x * r.x / (1 - r.z * r.z) = r.y * r.y / (1 - r.z * r.z) := by
          rw [eq_div_iff (ne_of_gt h1z), sub_mul, div_mul_cancel₀ _ (ne_of_gt h1z)]
          linarith
        rw [hc, hyy, Real.sqrt_div' _ (le_of_lt h1z), Real.sqrt_mul_self_eq_abs]
        exact mul_div_cancel₀ |r.y| hne
    · -- on the axis: sinθ = 0, hence rot_x = rot_y = 0
      rw [if_neg hb2, if_neg (fun hn => hb2 hn.1)]
      have hs0 : Real.sqrt (1 - r.z * r.z) = 0 := le_antisymm (not_lt.mp hb2) hst0
      have hq : r.x * r.x + r.y * r.y = 0 := by rw [hxy, ← hst, hs0]; ring
      have hx : r.x = 0 := by nlinarith [mul_self_nonneg r.x, mul_self_nonneg r.y]
      have hy : r.y = 0 := by nlinarith [mul_self_nonneg r.x, mul_self_nonneg r.y]
      apply vec3_ext <;> simp [hs0, hx, hy]

end CelerVerif.Optical
