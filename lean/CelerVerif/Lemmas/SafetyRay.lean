/-
Every intersection distance reported by `calc_intersections` along a unit direction is at
least the safety distance (connection to C12's soundness of the intersections).
-/
import CelerVerif.Lemmas.SafetyLevels

namespace CelerVerif.Safety
open CelerVerif CelerVerif.Surf

/-- `solve_general` never returns a negative distance (no hypothesis on the tolerance band) -/
theorem solveGeneral_nonneg (a hb c t : ℝ) (h : Isect2.mem t (solveGeneral a hb c false)) :
    0 ≤ t := by
  unfold solveGeneral at h
  simp only [Bool.false_eq_true, if_false, Bool.not_false, if_true] at h
  num_simp at h
  split_ifs at h with h1
  · exact le_of_lt (solve_sound _ _ _ h).1
  · unfold Isect2.mem solveAlongSurface at h
    num_simp at h
    split_ifs at h with h3 h4
    · simp at h
    · simp only [Option.some.injEq, or_false] at h
      rw [← h]; exact not_lt.mp h4
    · simp at h

theorem isect_nonneg (s : Surface ℝ) (x d : Vec3 ℝ) (t : ℝ)
    (h : Isect2.mem t (s.calcIntersections x d false)) : 0 ≤ t := by
  cases s with
  | planeAligned ax p => exact le_of_lt (isect_pos_simple _ rfl x d t h)
  | plane n dd => exact le_of_lt (isect_pos_simple _ rfl x d t h)
  | cylCentered ax r2 => exact le_of_lt (isect_pos_simple _ rfl x d t h)
  | cylAligned ax ou ov r2 =>
    simp only [Surface.calcIntersections, Bool.false_eq_true, if_false] at h
    split_ifs at h with h0
    · simp [Isect2.mem] at h
    · exact le_of_lt (solve_sound _ _ _ h).1
  | sphereCentered r2 => exact le_of_lt (isect_pos_simple _ rfl x d t h)
  | sphere o r2 => exact le_of_lt (isect_pos_simple _ rfl x d t h)
  | coneAligned ax o tsq =>
    simp only [Surface.calcIntersections] at h; exact solveGeneral_nonneg _ _ _ t h
  | simpleQuadric a b c dd e f g =>
    simp only [Surface.calcIntersections] at h; exact solveGeneral_nonneg _ _ _ t h
  | generalQuadric a b c dd e f g h' i j =>
    simp only [Surface.calcIntersections] at h; exact solveGeneral_nonneg _ _ _ t h

theorem dist3_along_unit (x d : Vec3 ℝ) (t : ℝ) (hu : unitDir d) (ht : 0 ≤ t) :
    dist3 x (along x d t) = t := by
  unfold unitDir at hu
  unfold dist3 nrm
  have : nsq (vsub x (along x d t)) = t * t := by
    unfold nsq vsub along
    linear_combination t * t * hu
  rw [this, Real.sqrt_mul_self ht]

/-- the point at a reported distance lies on the surface (simple-safety classes; C12 lemmas) -/
theorem isect_on_surface_simple (s : Surface ℝ) (hs : simpleSafety s = true) (x d : Vec3 ℝ)
    (hu : unitDir d) (t : ℝ) (h : Isect2.mem t (s.calcIntersections x d false)) :
    s.quadric (along x d t) = 0 := by
  rw [quadric_along]
  cases s with
  | planeAligned ax p => exact (snd_planeAligned ax p x d t h).2
  | plane n dd => exact (snd_plane n dd x d t h).2
  | cylCentered ax r2 => exact (snd_cylCentered ax r2 x d hu t h).2
  | cylAligned ax ou ov r2 => simp [simpleSafety] at hs
  | sphereCentered r2 => exact (snd_sphereCentered r2 x d hu t h).2
  | sphere o r2 => exact (snd_sphere o r2 x d hu t h).2
  | coneAligned ax o tsq => simp [simpleSafety] at hs
  | simpleQuadric a b c dd e f g => simp [simpleSafety] at hs
  | generalQuadric a b c dd e f g h' i j => simp [simpleSafety] at hs

/-- ★ a ray from `x` travels at least the per-surface safety before this surface reports a hit -/
theorem isect_ge_safety (s : Surface ℝ) (hw : WellFormed s) (x : Vec3 ℝ) (hc : ¬ AtCentre s x)
    (d : Vec3 ℝ) (hu : unitDir d) (t : ℝ) (h : Isect2.mem t (s.calcIntersections x d false)) :
    OLe (calcSafety s x) t := by
  have ht := isect_nonneg s x d t h
  by_cases hs : simpleSafety s = true
  · have hy := isect_on_surface_simple s hs x d hu t h
    have := safety_le_dist_surface s hw x hc _ hy
    rwa [dist3_along_unit x d t hu ht] at this
  · have : simpleSafety s = false := by simpa using hs
    exact ⟨0, by simp [calcSafety, this], ht⟩

/-- setting bit 2 (`simple_safety = 0x4`) makes it readable again -/
theorem or4_and4 (f : Nat) : (f ||| 4) &&& 4 = 4 := by
  apply Nat.eq_of_testBit_eq; intro i
  simp only [Nat.testBit_and, Nat.testBit_or]
  cases h : Nat.testBit 4 i <;> simp

end CelerVerif.Safety
