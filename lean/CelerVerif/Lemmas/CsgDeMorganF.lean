/-
C10 helper lemmas, part 8f (De Morgan): DEFINEDNESS of the second pass and of
`transform_negated_joins`: under the documented precondition (no aliases, no `False`, no double
negation, volumes in range) none of the modelled `CELER_ASSERT`s of `DeMorganSimplifier` can fire,
`should_insert_join` stays within its recursion budget, and `std::get<Joined>` is only applied to
joins.
-/
import CelerVerif.Lemmas.CsgDeMorganE

namespace CelerVerif.Csg

/-! ### `should_insert_join`: the recursion budget is large enough -/

theorem sij_succ (t : Tree) (fl : DMFlags) (f x : Nat) :
    shouldInsertJoin t fl (f + 1) x =
      if fl.parent x 0 || !fl.parent x 1 then true
      else (List.range fl.size).any fun p =>
        decide (2 ≤ p) && fl.parent x p &&
          (let d := dealiased t p
           (isJoined d && shouldInsertJoin t fl f p)
             || (isNegated d && hasNegatedJoinParent fl p)) := by
  rw [shouldInsertJoin]

/-- parents have larger ids, so a chain of `should_insert_join` calls starting at `x` has at most
    `size - x` links: more budget does not change the answer -/
theorem sij_fuel {t : Tree} {fl : DMFlags} (spec : FlagsSpec t fl) : ∀ (f x : Nat), x < t.size →
    t.size - x ≤ f → shouldInsertJoin t fl (f + 1) x = shouldInsertJoin t fl f x := by
  intro f
  induction f with
  | zero => intro x hx h; omega
  | succ f ih =>
    intro x hx h
    rw [sij_succ t fl (f + 1), sij_succ t fl f]
    by_cases hc : (fl.parent x 0 || !fl.parent x 1) = true
    · rw [if_pos hc, if_pos hc]
    · rw [if_neg hc, if_neg hc]
      apply any_eq_of_mem
      intro p hp
      have hp' : p < t.size := by rw [← spec.inv.wf.size]; exact List.mem_range.1 hp
      by_cases h2 : 2 ≤ p
      · cases hpar : fl.parent x p with
        | false => simp
        | true =>
          have hxp := spec.inv.upper x p hx hp' h2 hpar
          rw [ih p hp' (by omega)]
      · simp [h2]

/-- an operand of a kept join is kept -/
theorem sij_of_parent {t : Tree} {fl : DMFlags} (pre : DMPre t) (spec : FlagsSpec t fl)
    {o j : Nat} (hj : j < t.size) (h2 : 2 ≤ j) (hpar : fl.parent o j = true)
    (hjoin : isJoined (t.get j) = true) (hs : shouldInsertJoin t fl (t.size + 1) j = true) :
    shouldInsertJoin t fl (t.size + 1) o = true := by
  rw [sij_succ]
  by_cases hc : (fl.parent o 0 || !fl.parent o 1) = true
  · rw [if_pos hc]
  · rw [if_neg hc, List.any_eq_true]
    refine ⟨j, List.mem_range.2 (by rw [spec.inv.wf.size]; exact hj), ?_⟩
    rw [sij_fuel spec t.size j hj (by omega)] at hs
    simp [h2, hpar, dealiased_eq pre, hjoin, hs]

/-- a join below a negation that is an operand of a negated join is kept (second disjunct of
    `should_insert_join`) -/
theorem sij_of_negated {t : Tree} {fl : DMFlags} (pre : DMPre t) (s : Struct t)
    (spec : FlagsSpec t fl) {c o k : Nat} (hk : k < t.size) (hok : o < k)
    (hgo : t.get o = .negated c) (hjc : isJoined (t.get c) = true)
    (hpc : fl.parent c o = true) (hpo : fl.parent o k = true) (hnj : fl.negJoin k = true) :
    shouldInsertJoin t fl (t.size + 1) c = true := by
  have h2o : 2 ≤ o := by
    by_cases h0 : o = 0
    · subst h0; rw [s.base0] at hgo; cases hgo
    · by_cases h1 : o = 1
      · subst h1; rw [s.base1] at hgo; cases hgo
        rw [s.base0] at hjc; cases hjc
      · omega
  rw [sij_succ]
  by_cases hc : (fl.parent c 0 || !fl.parent c 1) = true
  · rw [if_pos hc]
  · rw [if_neg hc, List.any_eq_true]
    refine ⟨o, List.mem_range.2 (by rw [spec.inv.wf.size]; omega), ?_⟩
    have hh : hasNegatedJoinParent fl o = true := by
      unfold hasNegatedJoinParent
      rw [List.any_eq_true]
      refine ⟨k, List.mem_range.2 (by rw [spec.inv.wf.size]; exact hk), ?_⟩
      have : 2 ≤ k := by omega
      simp [this, hpo, hnj]
    simp [h2o, hpc, dealiased_eq pre, hgo, isNegated, isJoined, hh]

/-! ### what has been established for the processed nodes -/

/-- the `return` value of `process_negated_joined_nodes` for a negation of a leaf -/
def keepNeg (t : Tree) (fl : DMFlags) (i : Nat) : Bool :=
  if fl.parent i 0 || !fl.parent i 1 then true
  else (List.range fl.size).any fun p =>
    decide (2 ≤ p) && fl.parent i p && isJoined (dealiased t p)
      && shouldInsertJoin t fl (fl.size + 1) p

/-- translation entry `m` of the processed original node `i` holds every id that a later node
    may ask for -/
structure DoneAt (t : Tree) (fl : DMFlags) (m : Matching) (i : Nat) : Prop where
  leaf : LeafSrc (t.get i) →
    m.unmodified ≠ invalid ∧ (fl.newNeg i = true → m.newNegation ≠ invalid)
  negJ : ∀ c, t.get i = .negated c → isJoined (t.get c) = true → m.simplifiedTo ≠ invalid
  negL : ∀ c, t.get i = .negated c → isJoined (t.get c) = false → keepNeg t fl i = true →
    m.unmodified ≠ invalid
  join : isJoined (t.get i) = true →
    (fl.negJoin i = true → m.oppositeJoin ≠ invalid) ∧
    (shouldInsertJoin t fl (t.size + 1) i = true → m.unmodified ≠ invalid)

theorem equivalent_of_simp {m : Matching} (h : m.simplifiedTo ≠ invalid) :
    m.equivalent ≠ invalid := by
  unfold Matching.equivalent; rw [if_pos h]; exact h

theorem equivalent_of_unmod {m : Matching} (h : m.unmodified ≠ invalid) :
    m.equivalent ≠ invalid := by
  unfold Matching.equivalent
  by_cases h1 : m.simplifiedTo ≠ invalid
  · rw [if_pos h1]; exact h1
  · rw [if_neg h1, if_pos h]; exact h

theorem ge2_of_join {t : Tree} (s : Struct t) {k : Nat} (hj : isJoined (t.get k) = true) :
    2 ≤ k := by
  by_cases h0 : k = 0
  · subst h0; rw [s.base0] at hj; cases hj
  · by_cases h1 : k = 1
    · subst h1; rw [s.base1] at hj; cases hj
    · omega

/-! ### `build_negated_node` is defined -/

theorem negOperand_ok {t : Tree} {fl : DMFlags} {tr : TrMap} (pre : DMPre t) (hso : Sorted t)
    (s : Struct t) (spec : FlagsSpec t fl) {k : Nat} (hk : k < t.size)
    (hdone : ∀ i, i < k → DoneAt t fl (tr i) i) {op : Op} {ns : List Nat}
    (hg : t.get k = .joined op ns) (hnj : fl.negJoin k = true) {o : Nat} (ho : o ∈ ns) :
    ∃ u, negOperand t tr o = .ok u := by
  have hok : o < k := hso k hk o (by simp [hg, Node.children, ho])
  have hmark : Marked t fl o := spec.inv.closed k hnj op ns hg o ho
  have hv : isNegated (t.get o) = false →
      (if (tr o).newNegation ≠ invalid then (tr o).newNegation else (tr o).oppositeJoin)
        ≠ invalid := by
    intro hn
    by_cases hnn : (tr o).newNegation ≠ invalid
    · rw [if_pos hnn]; exact hnn
    · rw [if_neg hnn]
      cases hjo : isJoined (t.get o) with
      | true => exact ((hdone o hok).join hjo).1 (hmark.1 hjo)
      | false =>
        exact absurd (((hdone o hok).leaf ⟨hjo, hn⟩).2 (hmark.2 hjo hn)) hnn
  unfold negOperand
  rw [dealiased_eq pre]
  cases hgo : t.get o with
  | negated c =>
    simp only
    have hco : c < o := hso o (by omega) c (by simp [hgo, Node.children])
    have hnc : isNegated (t.get c) = false := pre.noDoubleNeg o c (by omega) hgo
    have hpar := spec.inv.par o (by omega) c (by simp [hgo, Node.children])
    have hpark := spec.inv.par k hk o (by simp [hg, Node.children, ho])
    have hu : (tr c).unmodified ≠ invalid := by
      cases hjc : isJoined (t.get c) with
      | false => exact ((hdone c (by omega)).leaf ⟨hjc, hnc⟩).1
      | true =>
        exact ((hdone c (by omega)).join hjc).2
          (sij_of_negated pre s spec hk hok hgo hjc hpar.1 hpark.1 hnj)
    rw [if_neg hu]
    exact ⟨_, rfl⟩
  | tru | fls | aliased _ | surface _ | joined _ _ =>
    simp only
    have := hv (by rw [hgo]; rfl)
    rw [if_neg this]
    exact ⟨_, rfl⟩

theorem negOperands_ok {t : Tree} {tr : TrMap} :
    ∀ (l : List Nat), (∀ o ∈ l, ∃ u, negOperand t tr o = .ok u) →
    ∃ us, negOperands t tr l = .ok us := by
  intro l
  induction l with
  | nil => intro _; exact ⟨[], rfl⟩
  | cons o os ih =>
    intro h
    rcases h o (by simp) with ⟨u, hu⟩
    rcases ih (fun x hx => h x (List.mem_cons_of_mem _ hx)) with ⟨us, hus⟩
    unfold negOperands
    rw [hu]
    simp only
    rw [hus]
    exact ⟨_, rfl⟩

theorem translateNode_ok {tr : TrMap} {n : Node}
    (h1 : ∀ c, n = .negated c → (tr c).unmodified ≠ invalid)
    (h2 : ∀ op ns, n = .joined op ns → ∀ o ∈ ns, (tr o).equivalent ≠ invalid) :
    ∃ n', translateNode tr n = .ok n' := by
  cases n with
  | negated c =>
    simp only [translateNode]
    rw [if_neg (h1 c rfl)]
    exact ⟨_, rfl⟩
  | joined op ns =>
    simp only [translateNode]
    have hc : ¬ ((ns.map fun o => (tr o).equivalent).contains invalid = true) := by
      intro hcon
      simp only [List.contains_eq_mem, List.mem_map, decide_eq_true_eq] at hcon
      rcases hcon with ⟨o, ho, he⟩
      exact h2 op ns rfl o ho he
    rw [if_neg hc]
    exact ⟨_, rfl⟩
  | tru | fls | aliased _ | surface _ => exact ⟨_, rfl⟩

/-! ### `process_negated_joined_nodes` is defined -/

theorem insert_id_ne_invalid {r : Tree} (inv : TreeInv r) {n : Node}
    (hn : ∀ c ∈ n.children, c < r.size) (hsmall : r.size < invalid) :
    (insert r n).2.1 ≠ invalid := by
  have h1 := (insert_inv inv hn hsmall).2.2.2
  have h2 := (insert_size_le r n).2
  omega

theorem pnj_ok {t : Tree} {fl : DMFlags} {r : Tree} {tr : TrMap} (pre : DMPre t)
    (inv : TreeInv t) (spec : FlagsSpec t fl) (h : DMInv t r tr) {k : Nat} (hk : k < t.size)
    (hsmall : r.size < invalid) (hdone : ∀ i, i < k → DoneAt t fl (tr i) i) :
    ∃ keep r' tr', processNegatedJoined t fl k r tr = .ok (keep, r', tr') ∧
      (∀ j, j ≠ k → tr' j = tr j) ∧
      (∀ c, t.get k = .negated c → isJoined (t.get c) = true →
        keep = false ∧ (tr' k).simplifiedTo ≠ invalid) ∧
      (∀ c, t.get k = .negated c → isJoined (t.get c) = false → keep = keepNeg t fl k) ∧
      (isJoined (t.get k) = true → keep = shouldInsertJoin t fl (t.size + 1) k ∧
        (fl.negJoin k = true → (tr' k).oppositeJoin ≠ invalid)) ∧
      (LeafSrc (t.get k) → keep = true) := by
  have hso := inv.sorted
  have s := inv.struct
  unfold processNegatedJoined
  rw [dealiased_eq pre]
  cases hg : t.get k with
  | negated c =>
    simp only [dealiased_eq pre]
    have hck : c < k := hso k hk c (by simp [hg, Node.children])
    by_cases hj : isJoined (t.get c) = true
    · rw [if_pos hj]
      refine ⟨_, _, _, rfl, fun j hjk => (by simp [updTr, hjk]), fun c' hc' _ => ?_,
        fun c' hc' hj' => ?_, fun hjk => (by cases hjk), fun hl => by cases hl.2⟩
      · cases hc'
        refine ⟨rfl, ?_⟩
        simp only [updTr, if_true]
        have hpar := spec.inv.par k hk c (by simp [hg, Node.children])
        exact ((hdone c hck).join hj).1 (spec.inv.negJoin k c hk hg hj)
      · cases hc'; rw [hj] at hj'; cases hj'
    · rw [if_neg hj]
      have hkn : ∀ b r0, (if (fl.parent k 0 || !fl.parent k 1) = true
            then (.ok (true, r0, tr) : Except String (Bool × Tree × TrMap))
            else .ok (b, r0, tr)) =
          .ok ((if (fl.parent k 0 || !fl.parent k 1) = true then true else b), r0, tr) := by
        intro b r0; split <;> rfl
      rw [hkn]
      refine ⟨_, _, _, rfl, fun j _ => rfl, fun c' hc' hj' => ?_,
        fun c' hc' _ => ?_, fun hjk => (by cases hjk), fun hl => by cases hl.2⟩
      · cases hc'; exact absurd hj' hj
      · unfold keepNeg
        simp only [dealiased_eq pre]
  | joined op ns =>
    simp only
    rw [spec.inv.wf.size]
    by_cases hnj : fl.negJoin k = true
    · rw [if_pos hnj]
      rcases negOperands_ok (t := t) (tr := tr) ns
        (fun o ho => negOperand_ok pre hso s spec hk hdone hg hnj ho) with ⟨us, hus⟩
      have hb : buildNegatedNode t tr op ns = .ok (.joined (flipOp op) us) := by
        unfold buildNegatedNode; rw [hus]
      rw [hb]
      simp only
      have hns : ∀ n ∈ ns, n < t.size := fun n hn =>
        s.closed k hk n (by simp [hg, Node.children, hn])
      rcases buildNegatedNode_sound pre hso h.tr hns hb with ⟨hch, _, _, _⟩
      refine ⟨_, _, _, rfl, fun j hjk => (by simp [updTr, hjk]), fun c hc => (by cases hc),
        fun c hc => (by cases hc), fun _ => ⟨rfl, fun _ => ?_⟩, fun hl => by cases hl.1⟩
      simp only [updTr, if_true]
      exact insert_id_ne_invalid h.built.inv hch hsmall
    · rw [if_neg hnj]
      exact ⟨_, _, _, rfl, fun j _ => rfl, fun c hc => (by cases hc), fun c hc => (by cases hc),
        fun _ => ⟨rfl, fun hh => absurd hh hnj⟩, fun hl => by cases hl.1⟩
  | aliased a => exact absurd hg (pre.noAlias k a)
  | tru | fls | surface _ =>
    simp only
    exact ⟨_, _, _, rfl, fun j _ => rfl, fun c hc => (by cases hc), fun c hc => (by cases hc),
      fun hjk => (by cases hjk), fun _ => rfl⟩

/-! ### one iteration of `build_simplified_tree` is defined -/

theorem dmStep_ok {t : Tree} {fl : DMFlags} {st : DMState} (pre : DMPre t) (inv : TreeInv t)
    (spec : FlagsSpec t fl) (h : DMInv t st.result st.tr) {k : Nat} (hk : k < t.size)
    (hsmall : st.result.size + 3 ≤ invalid) (hdone : ∀ i, i < k → DoneAt t fl (st.tr i) i) :
    ∃ st', dmStep t fl st k = .ok st' ∧ (∀ j, j ≠ k → st'.tr j = st.tr j) ∧
      DoneAt t fl (st'.tr k) k := by
  have hso := inv.sorted
  have s := inv.struct
  rcases pnj_ok pre inv spec h hk (by omega) hdone with
    ⟨keep, r1, tr1, hp, hother, hnegJ, hnegL, hjoin, hleaf⟩
  rcases processNegatedJoined_inv pre hso s h fl hk (by omega) hp with ⟨h1, _, hsz1, _⟩
  unfold dmStep
  rw [hp]
  simp only
  by_cases hkeep : keep = false
  · rw [if_pos hkeep]
    refine ⟨_, rfl, hother, ⟨fun hl => ?_, fun c hc hj => (hnegJ c hc hj).2, fun c hc hj hkn => ?_,
      fun hj => ⟨(hjoin hj).2, fun hs => ?_⟩⟩⟩
    · rw [hleaf hl] at hkeep; cases hkeep
    · rw [hnegL c hc hj, hkn] at hkeep; cases hkeep
    · rw [(hjoin hj).1, hs] at hkeep; cases hkeep
  · rw [if_neg hkeep]
    have hkt : keep = true := by simpa using hkeep
    rw [dealiased_eq pre]
    -- the children of a kept node have been translated
    have htn : ∃ n', translateNode tr1 (t.get k) = .ok n' := by
      apply translateNode_ok
      · intro c hc
        have hck : c < k := hso k hk c (by simp [hc, Node.children])
        rw [hother c (by omega)]
        have hjc : isJoined (t.get c) = false := by
          cases hjc : isJoined (t.get c) with
          | false => rfl
          | true => rw [(hnegJ c hc hjc).1] at hkt; cases hkt
        exact ((hdone c hck).leaf ⟨hjc, pre.noDoubleNeg k c hk hc⟩).1
      · intro op ns hg o ho
        have hok : o < k := hso k hk o (by simp [hg, Node.children, ho])
        have hjk : isJoined (t.get k) = true := by rw [hg]; rfl
        have hsk : shouldInsertJoin t fl (t.size + 1) k = true := by
          rw [← (hjoin hjk).1]; exact hkt
        have hpar := spec.inv.par k hk o (by simp [hg, Node.children, ho])
        have h2k := ge2_of_join s hjk
        rw [hother o (by omega)]
        cases hgo : t.get o with
        | aliased a => exact absurd hgo (pre.noAlias o a)
        | negated c =>
          cases hjc : isJoined (t.get c) with
          | true => exact equivalent_of_simp ((hdone o hok).negJ c hgo hjc)
          | false =>
            apply equivalent_of_unmod
            apply (hdone o hok).negL c hgo hjc
            unfold keepNeg
            by_cases hc : (fl.parent o 0 || !fl.parent o 1) = true
            · rw [if_pos hc]
            · rw [if_neg hc, List.any_eq_true]
              refine ⟨k, List.mem_range.2 (by rw [spec.inv.wf.size]; exact hk), ?_⟩
              rw [spec.inv.wf.size]
              simp [h2k, hpar.1, dealiased_eq pre, hjk, hsk]
        | joined op' ns' =>
          apply equivalent_of_unmod
          have hjo : isJoined (t.get o) = true := by rw [hgo]; rfl
          exact ((hdone o hok).join hjo).2 (sij_of_parent pre spec hk h2k hpar.1 hjk hsk)
        | tru | fls | surface _ =>
          apply equivalent_of_unmod
          exact ((hdone o hok).leaf (by rw [hgo]; exact ⟨rfl, rfl⟩)).1
    rcases htn with ⟨newNode, htn⟩
    rw [htn]
    simp only
    rcases translateNode_sound pre h1.tr htn with ⟨hch, _, _, _, _⟩
    have hins := insert_inv h1.built.inv hch (by omega)
    have hid : (insert r1 newNode).2.1 ≠ invalid :=
      insert_id_ne_invalid h1.built.inv hch (by omega)
    have hsz2 := (insert_size_le r1 newNode).2
    have hnegJ' : ∀ c, t.get k = .negated c → isJoined (t.get c) = true → False := by
      intro c hc hj; rw [(hnegJ c hc hj).1] at hkt; cases hkt
    by_cases hnf : fl.newNeg k = true
    · rw [if_pos hnf]
      have hid3 : (insert (insert r1 newNode).1 (.negated (insert r1 newNode).2.1)).2.1 ≠ invalid :=
        insert_id_ne_invalid hins.1 (by simpa [Node.children] using hins.2.2.2) (by omega)
      refine ⟨_, rfl, fun j hjk => (by simp [updTr, hjk, hother j hjk]), ?_⟩
      refine ⟨fun _ => ?_, fun c hc hj => (hnegJ' c hc hj).elim, fun c hc hj _ => ?_,
        fun hj => ⟨fun hn => ?_, fun _ => ?_⟩⟩
      · simp only [updTr, if_true]; exact ⟨hid, fun _ => hid3⟩
      · simp only [updTr, if_true]; exact hid
      · simp only [updTr, if_true]; exact (hjoin hj).2 hn
      · simp only [updTr, if_true]; exact hid
    · rw [if_neg hnf]
      refine ⟨_, rfl, fun j hjk => (by simp [updTr, hjk, hother j hjk]), ?_⟩
      refine ⟨fun _ => ?_, fun c hc hj => (hnegJ' c hc hj).elim, fun c hc hj _ => ?_,
        fun hj => ⟨fun hn => ?_, fun _ => ?_⟩⟩
      · simp only [updTr, if_true]; exact ⟨hid, fun hh => absurd hh hnf⟩
      · simp only [updTr, if_true]; exact hid
      · simp only [updTr, if_true]; exact (hjoin hj).2 hn
      · simp only [updTr, if_true]; exact hid

/-! ### the loops -/

/-- invariant of the main loop of `build_simplified_tree` after nodes `0 … k-1` -/
structure SPInv (t : Tree) (fl : DMFlags) (k : Nat) (st : DMState) : Prop where
  inv : DMInv t st.result st.tr
  small : st.result.size + 3 * (t.size - k) ≤ invalid
  done : ∀ i, i < k → DoneAt t fl (st.tr i) i

theorem dmVolumes_ok (tr : TrMap) : ∀ (vs : List Nat) (r : Tree),
    (∀ v ∈ vs, (tr v).equivalent ≠ invalid) → ∃ r', dmVolumes tr vs r = .ok r' := by
  intro vs
  induction vs with
  | nil => intro r _; exact ⟨r, rfl⟩
  | cons v vs ih =>
    intro r h
    unfold dmVolumes
    rw [if_neg (h v (by simp))]
    exact ih _ (fun x hx => h x (List.mem_cons_of_mem _ hx))

/-- a processed node that a volume points at has an equivalent node in the new tree -/
theorem equivalent_of_volume {t : Tree} {fl : DMFlags} {m : Matching} (pre : DMPre t) {v : Nat}
    (hd : DoneAt t fl m v) (hpar : fl.parent v 0 = true) : m.equivalent ≠ invalid := by
  cases hg : t.get v with
  | aliased a => exact absurd hg (pre.noAlias v a)
  | negated c =>
    cases hjc : isJoined (t.get c) with
    | true => exact equivalent_of_simp (hd.negJ c hg hjc)
    | false =>
      apply equivalent_of_unmod
      apply hd.negL c hg hjc
      unfold keepNeg
      rw [if_pos (by simp [hpar])]
  | joined op ns =>
    apply equivalent_of_unmod
    apply (hd.join (by rw [hg]; rfl)).2
    rw [sij_succ, if_pos (by simp [hpar])]
  | tru | fls | surface _ =>
    exact equivalent_of_unmod (hd.leaf (by rw [hg]; exact ⟨rfl, rfl⟩)).1

/-- ★ DEFINEDNESS of `transform_negated_joins`: for a tree satisfying the tree invariant and the
    documented precondition of `DeMorganSimplifier` (no alias nodes, no `False` node, no double
    negation), whose volumes are node ids of the tree (`CELER_EXPECT` of `insert_volume`), none of
    the `CELER_ASSERT`s guarding a null `NodeId` can fire, `std::get<Joined>` is only applied to
    joins, and both recursions stay within their budgets. -/
theorem transformNegatedJoins_defined {t : Tree} (pre : DMPre t) (inv : TreeInv t)
    (hvol : ∀ v ∈ t.volumes, v < t.size) (hsmall : 3 * t.size + 2 ≤ invalid) :
    ∃ t', transformNegatedJoins t = .ok t' := by
  rcases findJoinNegations_ok pre inv hvol with ⟨fl, hfj, spec⟩
  have hfl := findJoinNegations_flagsOk pre hfj
  unfold transformNegatedJoins
  rw [hfj]
  simp only
  unfold buildSimplifiedTree
  have h0 : SPInv t fl 0 ⟨Tree.empty, fun _ => {}⟩ :=
    ⟨⟨empty_built, fun i => trOk_default t Tree.empty i, rfl⟩,
      by show 2 + 3 * (t.size - 0) ≤ invalid; omega, fun i hi => by omega⟩
  rcases foldE_range_ok (dmStep t fl) (SPInv t fl) t.size _ (fun k st hk hp => by
      rcases dmStep_ok pre inv spec hp.inv hk (by have := hp.small; omega) hp.done with
        ⟨st', hs, hother, hdk⟩
      have hi := dmStep_inv pre inv.sorted inv.struct hp.inv hfl hk
        (by have := hp.small; omega) hs
      refine ⟨st', hs, hi.1, by have := hp.small; have := hi.2; omega, fun i hik => ?_⟩
      by_cases hik' : i = k
      · subst hik'; exact hdk
      · rw [hother i hik']; exact hp.done i (by omega)) h0 with ⟨st, hl, hst⟩
  rw [hl]
  simp only
  apply dmVolumes_ok
  intro v hv
  exact equivalent_of_volume pre (hst.done v (hvol v hv)) (spec.vol v hv)

end CelerVerif.Csg
