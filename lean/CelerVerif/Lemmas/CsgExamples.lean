/-
C10: concrete trees used by the non-vacuity examples and the counter-example theorems of
Props/C10.lean.  All are built with the model's public operations only.
-/
import CelerVerif.Lemmas.CsgInv
import CelerVerif.Lemmas.CsgFlag
import CelerVerif.Lemmas.CsgDeMorganAlias

namespace CelerVerif.Csg

instance (t : Tree) : Decidable (Sorted t) := by unfold Sorted; infer_instance

def ins (t : Tree) (n : Node) : Tree := (insert t n).1

/-- nodes 2,3 = surfaces 0,1; node 4 = S0 ∧ S1 -/
def ex1 : Tree := ins (ins (ins Tree.empty (.surface 0)) (.surface 1)) (.joined .and [2, 3])

/-- `ex1` plus node 5 = ¬S1, node 6 = S0 ∨ ¬S1, node 7 = (S0 ∧ S1) ∧ (S0 ∨ ¬S1), volume 7 -/
def ex2 : Tree :=
  (ins (ins (ins ex1 (.negated 3)) (.joined .or [2, 5])) (.joined .and [4, 6])).insertVolume 7

/-- the tree just before the out-of-order `simplify 7` (all steps are public `CsgTree` calls:
    nine inserts, `exchange(5, False)`, `simplify(6)`, `exchange(4, True)`, `simplify(10)`) -/
def orderWitness : Tree :=
  let w := ins (ins (ins (ins Tree.empty (.surface 0)) (.surface 1)) (.surface 2)) (.surface 3)
  let w := ins w (.joined .or [4, 5])
  let w := ins w (.joined .and [2, 3, 6])
  let w := ins w (.negated 2)
  let w := ins w (.joined .and [2, 3])
  let w := ins w (.joined .and [2, 3, 4])
  let w := (exchange w 5 .fls).1
  let w := (simplifyAt w 6).1
  let w := (exchange w 4 .tru).1
  (simplifyAt w 10).1

/-- `Negated(Aliased(Joined and))` reached through public calls: nodes 2,3,5 = surfaces 0,1,2;
    4 = S0 ∧ S1; 6 = S0 ∧ S1 ∧ S2; 7 = ¬6 (volume); then `exchange(5, True)` and `simplify(6)`
    turn node 6 into an alias of node 4 while node 7 still negates node 6 -/
def negAliasWitness : Tree :=
  let w := ins (ins (ins Tree.empty (.surface 0)) (.surface 1)) (.joined .and [2, 3])
  let w := ins w (.surface 2)
  let w := ins w (.joined .and [2, 3, 5])
  let w := (ins w (.negated 6)).insertVolume 7
  let w := (exchange w 5 .tru).1
  (simplifyAt w 6).1

/-- tree before the second of two `exchange` calls with logically EQUIVALENT nodes:
    2 = S2, 3 = S1, 4 = S2 ∧ S1, 5 = S1 ∨ (S2 ∧ S1) (≡ S1), 6 = ¬5, 7 = ¬3, then
    `exchange(7, Negated{5})` (≡ ¬3): the dedup map knows `Negated{5}` as node 6, so node 7
    becomes an alias of 6 while the stale key `Negated{3} ↦ 7` stays in the map -/
def cycleWitness : Tree :=
  let w := ins (ins Tree.empty (.surface 2)) (.surface 1)
  let w := ins w (.joined .and [3, 2, 3])
  let w := ins w (.joined .or [4, 4, 4, 3, 1])
  let w := ins w (.negated 5)
  let w := ins w (.negated 3)
  (exchange w 7 (.negated 5)).1

/-- `ex1` plus node 5 = ¬(S0 ∧ S1) as a volume: the smallest tree with a negated join -/
def ex3 : Tree := (ins ex1 (.negated 4)).insertVolume 5

/-- a tree built by fourteen `insert`s (production API): surfaces 0..5 = nodes 2..7,
    8 = S0 ∨ S1, 9 = S0 ∨ S1 ∨ S4, 10 = S2 ∧ S3 ∧ S5 ∧ 9, 11 = S2 ∧ S3, 12 = S2 ∧ S3 ∧ 8,
    13 = ¬8, 14 = ¬S5, 15 = S4 ∨ 14 -/
def replaceOrderWitness : Tree :=
  let w := ins (ins (ins (ins (ins (ins Tree.empty (.surface 0)) (.surface 1)) (.surface 2))
    (.surface 3)) (.surface 4)) (.surface 5)
  let w := ins w (.joined .or [2, 3])
  let w := ins w (.joined .or [2, 3, 6])
  let w := ins w (.joined .and [9, 4, 5, 7])
  let w := ins w (.joined .and [4, 5])
  let w := ins w (.joined .and [8, 4, 5])
  let w := ins w (.negated 8)
  let w := ins w (.negated 7)
  ins w (.joined .or [6, 14])

def ReplResult.tree : ReplResult → Tree
  | .ok t _ => t
  | .contradiction t => t
  | .outOfFuel t => t

def ReplResult.isOk : ReplResult → Bool
  | .ok _ _ => true
  | _ => false

/-- `replace_and_simplify(tree, 13, False)` then `replace_and_simplify(tree, 15, False)` -/
def replaceOrderStep1 : ReplResult := replaceAndSimplify replaceOrderWitness 13 false
def replaceOrderStep2 : ReplResult := replaceAndSimplify replaceOrderStep1.tree 15 false

/-- the error message of a failed transformation (`none` when it returned a tree) -/
def dmError : Except String Tree → Option String
  | .error e => some e
  | .ok _ => none

theorem dmError_some {r : Except String Tree} {e : String} (h : dmError r = some e) :
    r = .error e := by
  cases r with
  | error e' => simp [dmError] at h; rw [h]
  | ok t => simp [dmError] at h

/-- decidable form of `Struct` for concrete trees -/
def StructP (t : Tree) : Prop :=
  t.get 0 = .tru ∧ t.get 1 = .negated 0 ∧ 2 ≤ t.size ∧ t.size ≤ invalid ∧
  (∀ i, i < t.size → ∀ c ∈ (t.get i).children, c < t.size) ∧
  (∀ e ∈ t.ids, e.2 < t.size) ∧ (∀ e ∈ t.ids, ∀ c ∈ e.1.children, c < t.size)

instance (t : Tree) : Decidable (StructP t) := by unfold StructP; infer_instance

theorem struct_of_P {t : Tree} (h : StructP t) : Struct t :=
  ⟨h.1, h.2.1, h.2.2.1, h.2.2.2.1, h.2.2.2.2.1, h.2.2.2.2.2.1, h.2.2.2.2.2.2⟩

/-- decidable form of `DMPreA` for concrete trees -/
def DMPreAP (t : Tree) : Prop :=
  (∀ n ∈ t.nodes, n ≠ Node.fls) ∧
  (∀ i, i < t.size → ∀ c, c < t.size → dealiased t i = .negated c →
    isNegated (dealiased t c) = false)

instance (t : Tree) : Decidable (DMPreAP t) := by unfold DMPreAP; infer_instance

theorem dmPreA_of_P {t : Tree} (s : Struct t) (hso : Sorted t) (h : DMPreAP t) : DMPreA t where
  noFls := by
    intro i hg
    by_cases hi : i < t.size
    · have hm : t.get i ∈ t.nodes := by
        unfold Tree.get
        rw [List.getD_eq_getElem?_getD, List.getElem?_eq_getElem (by simpa [Tree.size] using hi)]
        exact List.getElem_mem _
      exact h.1 _ hm hg
    · have : t.get i = .tru := by
        unfold Tree.get
        rw [List.getD_eq_getElem?_getD, List.getElem?_eq_none (by simpa [Tree.size] using hi)]
        rfl
      rw [this] at hg; cases hg
  noDoubleNeg := by
    intro i c hi hg
    have hc : c < t.size :=
      Nat.lt_trans (dealiased_children_lt s hso hi c (by simp [hg, Node.children])) hi
    exact h.2 i hi c hc hg

/-- the tree of corpus/C10/demorgan-alias-chain.ops just before `transform_negated_joins`:
    alias chain 8 → 7 → 6 (depth 2) referenced by volume 0; 6 = S0 ∧ S1 -/
def aliasChainWitness : Tree :=
  let w := ins (ins (ins (ins Tree.empty (.surface 0)) (.surface 1)) (.surface 2)) (.surface 3)
  let w := ins w (.joined .and [2, 3])
  let w := ins w (.joined .and [2, 3, 4])
  let w := ins w (.joined .and [2, 3, 4, 5])
  let w := ins w (.joined .or [4, 5])
  let w := (ins w (.negated 9)).insertVolume 8
  let w := w.insertVolume 10
  let w := (exchange w 5 .tru).1
  let w := (simplifyAt w 8).1
  let w := (exchange w 4 .tru).1
  (simplifyAt w 7).1

/-- `Negated → Aliased → Negated(True)`: surface 0 = node 2, node 3 = ¬2 (volume), then
    `exchange(2, False)` makes node 2 an alias of node 1 = ¬True -/
def negAliasNegWitness : Tree :=
  (exchange ((ins (ins Tree.empty (.surface 0)) (.negated 2)).insertVolume 3) 2 .fls).1

end CelerVerif.Csg
