/- InitializeTracks (C02). -/
import CelerVerif.Lemmas.TrackInitEFP

namespace CelerVerif.TrackInit

/-- a pending initializer (the last of the first `m+1`) is started in an empty slot -/
theorem core_start {s s' : State} {m i : Nat} (hC : Core s (m + 1)) (hm : m < s.initializers.length)
    (hi : i < s.slots.length) (hin : (s.slots[i]).active = false) {y : Slot}
    (hy : y.active = true) (hyid : y.ident = (s.initializers[m]).ident)
    (hytid : y.tid.isSome = true)
    (hc : s'.trackCounters = s.trackCounters) (hcr : s'.created = s.created)
    (hini : s'.initializers = s.initializers)
    (hst : s'.started = s.started ++ [(s.initializers[m]).ident])
    (hfi : s'.finished = s.finished) (hsl : s'.slots = s.slots.set i y) : Core s' m := by
  have hp : pendL s.initializers (m + 1) = pendL s.initializers m ++ [(s.initializers[m]).ident] := by
    simp only [pendL, List.take_succ_eq_append_getElem hm, List.map_append, List.map_cons,
      List.map_nil]
  refine ⟨?_, ?_, ?_, ?_, ?_, ?_, ?_⟩
  · rw [hini]; omega
  · intro r hr; rw [hcr] at hr
    have := hC.below r hr
    unfold ctr at *; rw [hc]; exact this
  · rw [hcr]; exact hC.nodup
  · intro r
    rw [hcr, hst, hini]
    have := hC.once r
    rw [hp] at this
    simp only [List.count_append] at this ⊢
    omega
  · intro r
    rw [hst, hfi, hsl]
    have h1 := hC.slots r
    have h2 := liveL_set_count s.slots i hi y r
    simp only [liveL_single, hin, hy, if_true, hyid] at h2
    simp only [List.count_append]
    simp at h2
    omega
  · intro r hr p hpar; rw [hcr] at hr
    obtain ⟨h1, q, hq, h2⟩ := hC.parent r hr p hpar
    exact ⟨h1, q, by rw [hst]; simp [hq], h2⟩
  · rw [hsl]
    intro x hx hxa
    rcases List.mem_or_eq_of_mem_set hx with h | h
    · exact hC.hasId x h hxa
    · subst h; exact hytid

theorem newTrackSlot_props (ini : Init) (old : Slot) (pp : Option Nat) :
    (newTrackSlot ini old pp).active = true ∧ (newTrackSlot ini old pp).ident = ini.ident ∧
    (newTrackSlot ini old pp).tid.isSome = true ∧
    ((newTrackSlot ini old pp).stepOk ∨ (newTrackSlot ini old pp).status = .errored) := by
  unfold newTrackSlot
  cases pp with
  | some p => simp [Slot.active, Slot.ident, Init.ident, Slot.stepOk]
  | none =>
    simp only
    split <;> simp [Slot.active, Slot.ident, Init.ident, Slot.stepOk]

/-- loop invariant of the initialisation loop, `TrackOrder::none` -/
structure ITInv (cfg : Cfg) (s0 : State) (k : Nat) (s : State) : Prop where
  lens : Lens cfg s
  core : Core s (s0.c.numInitializers - k)
  live : (liveL s.slots).length = (liveL s0.slots).length + k
  vacs : ∀ j, j < s0.c.numVacancies - k →
    (s.slots.getD (s0.vacancies.getD j 0) Slot.empty).active = false
  same : s.vacancies = s0.vacancies ∧ s.initializers = s0.initializers ∧ s.c = s0.c ∧
    s.pending = s0.pending ∧ s.parents = s0.parents ∧ s.trackCounters = s0.trackCounters ∧
    s.created = s0.created ∧ s.finished = s0.finished ∧ s.secCounts = s0.secCounts
  status : ∀ x ∈ s.slots, x.stepOk ∨ x.status = .errored

theorem getD_getElem {α} (l : List α) (i : Nat) (d : α) (h : i < l.length) : l.getD i d = l[i] := by
  simp [List.getD_eq_getElem?_getD, List.getElem?_eq_getElem h]

theorem it_loop_none {cfg : Cfg} {s0 : State} (hord : cfg.order ≠ .initCharge) {n : Nat}
    (hn1 : n ≤ s0.c.numVacancies) (hn2 : n ≤ s0.c.numInitializers)
    (hni : s0.c.numInitializers ≤ cfg.capacity)
    (hvlen : s0.c.numVacancies ≤ s0.vacancies.length)
    (hvnd : s0.vacancies.Nodup) (hvlt : ∀ v ∈ s0.vacancies, v < cfg.slots)
    (k : Nat) (hk : k ≤ n) {s : State} (h0 : ITInv cfg s0 0 s) :
    ITInv cfg s0 k ((List.range k).foldl (initTrack s0.c n) s) := by
  induction k with
  | zero => simpa using h0
  | succ k ih =>
    have hI := ih (by omega)
    rw [foldl_range_succ]
    generalize (List.range k).foldl (initTrack s0.c n) s = sk at hI
    obtain ⟨e1, e2, e3, e4, e5, e6, e7, e8, e9⟩ := hI.same
    have hso : ¬ sk.cfg.order = .initCharge := by rw [hI.lens.cfg_eq]; exact hord
    -- the slot and initializer taken by thread k
    have hvi : s0.c.numVacancies - k - 1 < s0.vacancies.length := by omega
    have hslot : s0.vacancies.getD (s0.c.numVacancies - k - 1) 0
        = s0.vacancies[s0.c.numVacancies - k - 1] := getD_getElem _ _ _ hvi
    have hv : s0.vacancies[s0.c.numVacancies - k - 1] < sk.slots.length := by
      rw [hI.lens.slots]; exact hvlt _ (List.getElem_mem hvi)
    have hm : s0.c.numInitializers - k - 1 < sk.initializers.length := by
      rw [hI.lens.inits]; omega
    have hinact := hI.vacs (s0.c.numVacancies - k - 1) (by omega)
    rw [hslot, getD_getElem _ _ _ hv] at hinact
    have hcoreIn : Core sk (s0.c.numInitializers - k - 1 + 1) := by
      have := hI.core
      have he : s0.c.numInitializers - k = s0.c.numInitializers - k - 1 + 1 := by omega
      rw [he] at this; exact this
    -- unfold the executor for order none
    have hstep : ∃ y : Slot, y.active = true ∧
        y.ident = (sk.initializers[s0.c.numInitializers - k - 1]).ident ∧ y.tid.isSome = true ∧
        (y.stepOk ∨ y.status = .errored) ∧
        initTrack s0.c n sk k =
          { sk with slots := sk.slots.set (s0.vacancies[s0.c.numVacancies - k - 1]) y,
                    started := sk.started ++
                      [(sk.initializers[s0.c.numInitializers - k - 1]).ident] } := by
      have hgi : initGetIdx sk n k s0.c.numInitializers = s0.c.numInitializers - k - 1 := by
        simp [initGetIdx, hso, indexBefore]
      have hvx : ∀ ini, initVacIdx sk s0.c n k ini = s0.c.numVacancies - k - 1 := by
        intro ini; simp [initVacIdx, hso, indexBefore]
      unfold initTrack
      simp only [hgi, hvx, e1, hslot, getD_getElem _ _ _ hm]
      obtain ⟨q1, q2, q3, q4⟩ := newTrackSlot_props (sk.initializers[s0.c.numInitializers - k - 1])
        (sk.slots.getD (s0.vacancies[s0.c.numVacancies - k - 1]) Slot.empty)
        (Option.map (fun p => (sk.slots.getD p Slot.empty).pos)
          (if ¬ k < s0.c.numSecondaries then none
           else sk.parents.getD (initGetIdx sk n k sk.parents.length) none))
      exact ⟨_, q1, q2, q3, q4, rfl⟩
    obtain ⟨y, hy1, hy2, hy3, hy4, hyeq⟩ := hstep
    rw [hyeq]
    have hcore := core_start (s := sk) (s' := { sk with
        slots := sk.slots.set (s0.vacancies[s0.c.numVacancies - k - 1]) y,
        started := sk.started ++ [(sk.initializers[s0.c.numInitializers - k - 1]).ident] })
      hcoreIn hm hv hinact hy1 hy2 hy3 rfl rfl rfl rfl rfl rfl
    refine ⟨⟨hI.lens.cfg_eq, by simp; exact hI.lens.slots, hI.lens.inits, hI.lens.parents,
      hI.lens.secCounts, hI.lens.counters⟩, ?_, ?_, ?_, ⟨e1, e2, e3, e4, e5, e6, e7, e8, e9⟩, ?_⟩
    · have he : s0.c.numInitializers - (k + 1) = s0.c.numInitializers - k - 1 := by omega
      rw [he]; exact hcore
    · have := liveL_set_length sk.slots _ hv y
      simp only [liveL_single, hinact, hy1] at this
      simp at this
      simp only
      rw [this, hI.live]; omega
    · intro j hj
      simp only
      have hj' : j < s0.vacancies.length := by omega
      rw [getD_getElem _ _ _ hj', getD_set_eq]
      have hne : s0.vacancies[s0.c.numVacancies - k - 1] ≠ s0.vacancies[j] := by
        intro heq
        have := (List.getElem_inj hvnd).mp heq
        omega
      simp only [hne, false_and, if_false]
      have := hI.vacs j (by omega)
      rw [getD_getElem _ _ _ hj'] at this
      exact this
    · intro x hx
      simp only at hx
      rcases List.mem_or_eq_of_mem_set hx with h | h
      · exact hI.status x h
      · subst h; exact hy4

end CelerVerif.TrackInit
