/- Interleaving semantics: check and restore steps, every schedule keeps the invariant (C16). -/
import CelerVerif.Lemmas.StackInterleave4

namespace CelerVerif.Stack

theorem iinv_check {base cap tot : Nat} {s : Sys} (hI : IInv base cap tot s)
    (hW : base + tot < W) (i : Nat) (hi : i < s.threads.length) (a : Nat)
    (hpc : (s.threads[i]).pc = .fetched a) :
    IInv base cap tot ⟨s.cap, (stepThread s.cap s.size s.threads[i]).1,
      s.threads.set i (stepThread s.cap s.size s.threads[i]).2⟩ := by
  have hmem : s.threads[i] ∈ s.threads := List.getElem_mem hi
  have hle := hI.fetched_le _ hmem a hpc
  have hFT := sumF_le_total s.threads
  have htot := hI.tot_eq
  have hmod : (a + (s.threads[i]).n) % W = a + (s.threads[i]).n := by
    apply Nat.mod_eq_of_lt; omega
  have hcap := hI.cap_eq
  subst hcap
  unfold stepThread
  rw [hpc]
  simp only [hmod]
  by_cases h1 : a + (s.threads[i]).n > s.cap
  · by_cases h2 : a ≤ s.cap
    · simp only [h1, h2, if_true]
      have := iinv_same hI i hi ⟨(s.threads[i]).n, .restoring a⟩ rfl
        (by simp [fOf, hpc]) (by simp [committedB, hpc]; omega)
        (by simp [overB, hpc]; omega) (by intro _; simp [startOf, hpc])
        (by intro b hb; cases hb)
      exact this
    · simp only [h1, h2, if_true, if_false]
      have := iinv_same hI i hi ⟨(s.threads[i]).n, .failed⟩ rfl
        (by simp [fOf, hpc]) (by simp [committedB, hpc]; omega)
        (by simp [overB, hpc]; omega)
        (by intro h; simp [committedB, overB] at h)
        (by intro b hb; cases hb)
      exact this
  · simp only [h1, if_false]
    have := iinv_same hI i hi ⟨(s.threads[i]).n, .ok a⟩ rfl
      (by simp [fOf, hpc]) (by simp [committedB, hpc]; omega)
      (by simp [overB, hpc]; omega) (by intro _; simp [startOf, hpc])
      (by intro b hb; cases hb)
    exact this

theorem iinv_restore {base cap tot : Nat} {s : Sys} (hI : IInv base cap tot s)
    (i : Nat) (hi : i < s.threads.length) (a : Nat)
    (hpc : (s.threads[i]).pc = .restoring a) :
    IInv base cap tot ⟨s.cap, a, s.threads.set i ⟨(s.threads[i]).n, .failed⟩⟩ := by
  obtain ⟨e1, e2, e3, e4⟩ := sums_set cap s.threads i hi ⟨(s.threads[i]).n, .failed⟩
  have hmem : s.threads[i] ∈ s.threads := List.getElem_mem hi
  have hov : overB cap s.threads[i] = true := by simp [overB, hpc]
  have ho1 : oOf cap s.threads[i] = 1 := by simp [oOf, hov]
  have hf : fOf s.threads[i] = (s.threads[i]).n := by simp [fOf, hpc]
  have hg : gOf cap s.threads[i] = 0 := by simp [gOf, committedB, hpc]
  have hf' : fOf ⟨(s.threads[i]).n, .failed⟩ = (s.threads[i]).n := by simp [fOf]
  have hg' : gOf cap ⟨(s.threads[i]).n, .failed⟩ = 0 := by simp [gOf, committedB]
  have ho' : oOf cap ⟨(s.threads[i]).n, .failed⟩ = 0 := by simp [oOf, overB]
  have hc' : committedB cap ⟨(s.threads[i]).n, .failed⟩ = false := by simp [committedB]
  have hov' : overB cap ⟨(s.threads[i]).n, .failed⟩ = false := by simp [overB]
  have hstart : a = base + sumG cap s.threads := by
    have := hI.over_start _ hmem hov
    simpa [startOf, hpc] using this
  have hO : sumO cap s.threads = 1 := by
    have h1 := le_sum_map_of_mem (oOf cap) s.threads hmem
    rcases hI.mode with ⟨_, h⟩ | ⟨_, h⟩
    · unfold sumO at h; omega
    · exact h
  have hGF := sumG_le_sumF cap s.threads
  have hll := hI.l_le
  apply iinv_replace hI i hi ⟨(s.threads[i]).n, .failed⟩ a rfl (by omega) (by omega) (by omega)
  · intro b hb; cases hb
  · intro h; rw [hc'] at h; cases h
  · intro h; rw [hc'] at h; cases h
  · omega
  · intro t ht hot
    rcases List.mem_or_eq_of_mem_set ht with h | h
    · have := hI.over_start t h hot; omega
    · subst h; rw [hov'] at hot; cases hot
  · left; constructor <;> omega

theorem set_getElem_self {α} (l : List α) (i : Nat) (h : i < l.length) : l.set i l[i] = l := by
  apply List.ext_getElem
  · simp
  · intro j h1 h2
    rw [List.getElem_set]
    split
    · subst_vars; rfl
    · rfl

/-- one scheduled step keeps the invariant -/
theorem sched_inv {base cap tot : Nat} {s : Sys} (hI : IInv base cap tot s)
    (hW : base + tot < W) (i : Nat) : IInv base cap tot (sched s i) := by
  unfold sched
  cases h : s.threads[i]? with
  | none => exact hI
  | some t =>
    have hi : i < s.threads.length := by
      rcases Nat.lt_or_ge i s.threads.length with h1 | h1
      · exact h1
      · rw [List.getElem?_eq_none h1] at h; cases h
    have ht : t = s.threads[i] := by
      rw [List.getElem?_eq_getElem hi] at h; exact (Option.some.inj h).symm
    subst ht
    simp only
    cases hpc : (s.threads[i]).pc with
    | init =>
      have := iinv_fetch hI hW i hi hpc
      simp only [stepThread, hpc]
      exact this
    | fetched a => exact iinv_check hI hW i hi a hpc
    | restoring a =>
      have := iinv_restore hI i hi a hpc
      simp only [stepThread, hpc]
      exact this
    | ok a =>
      simp only [stepThread, hpc]
      rw [set_getElem_self _ _ hi]
      exact hI
    | failed =>
      simp only [stepThread, hpc]
      rw [set_getElem_self _ _ hi]
      exact hI

/-- every schedule keeps the invariant -/
theorem run_inv {base cap tot : Nat} (sch : List Nat) {s : Sys} (hI : IInv base cap tot s)
    (hW : base + tot < W) : IInv base cap tot (run s sch) := by
  unfold run
  induction sch generalizing s with
  | nil => exact hI
  | cons i rest ih => exact ih (sched_inv hI hW i)

end CelerVerif.Stack
