/-
Ionisation (IoniFinalStateHelper, Møller–Bhabha, muon Bethe–Bloch), bremsstrahlung final state
(Tsai–Urban + BremFinalStateHelper), Bethe–Heitler energy split, Coulomb / Rayleigh / Livermore
bookkeeping — at ℝ.
-/
import CelerVerif.Lemmas.InteractGG

namespace CelerVerif.Interact
open CelerVerif

/-! ### uniform / inverse-square ranges -/

theorem uniformReal_real (a b u : ℝ) : uniformReal a b u = (b - a) * u + a := by
  unfold uniformReal; inum

theorem uniformReal_range (a b u : ℝ) (hab : a ≤ b) (h0 : 0 ≤ u) (h1 : u ≤ 1) :
    a ≤ uniformReal a b u ∧ uniformReal a b u ≤ b := by
  rw [uniformReal_real]
  constructor
  · nlinarith [mul_nonneg (sub_nonneg.mpr hab) h0]
  · nlinarith [mul_le_mul_of_nonneg_left h1 (sub_nonneg.mpr hab)]

/-- `1 / U(1/hi, 1/lo)` lies in [lo, hi] -/
theorem inv_uniform_range (lo hi u : ℝ) (hlo : 0 < lo) (hh : lo ≤ hi) (h0 : 0 ≤ u) (h1 : u ≤ 1) :
    lo ≤ 1 / uniformReal (1 / hi) (1 / lo) u ∧ 1 / uniformReal (1 / hi) (1 / lo) u ≤ hi := by
  have hhi : 0 < hi := lt_of_lt_of_le hlo hh
  have hinv : 1 / hi ≤ 1 / lo := one_div_le_one_div_of_le hlo hh
  obtain ⟨ha, hb⟩ := uniformReal_range (1 / hi) (1 / lo) u hinv h0 h1
  have hp : 0 < uniformReal (1 / hi) (1 / lo) u := lt_of_lt_of_le (by positivity) ha
  constructor
  · rw [le_div_iff₀ hp]
    have := mul_le_mul_of_nonneg_left hb (le_of_lt hlo)
    have e : lo * (1 / lo) = 1 := by field_simp
    linarith
  · rw [div_le_iff₀ hp]
    have := mul_le_mul_of_nonneg_left ha (le_of_lt hhi)
    have e : hi * (1 / hi) = 1 := by field_simp
    linarith

/-- `InverseSquareDistribution(a, b)` stays in [a, b] -/
theorem inverseSquare_range (a b u : ℝ) (ha : 0 < a) (hab : a ≤ b) (h0 : 0 ≤ u) (h1 : u ≤ 1) :
    a ≤ inverseSquare a b u ∧ inverseSquare a b u ≤ b := by
  unfold inverseSquare
  inum
  obtain ⟨hl, hu⟩ := uniformReal_range a b u hab h0 h1
  have hp : 0 < uniformReal a b u := lt_of_lt_of_le ha hl
  have hb : 0 < b := lt_of_lt_of_le ha hab
  constructor
  · rw [le_div_iff₀ hp]; nlinarith
  · rw [div_le_iff₀ hp]; nlinarith

/-! ### IoniFinalStateHelper -/

theorem ioniFinal_energy (m' E : ℝ) (d : Vec3 ℝ) (p M Te m u : ℝ) :
    let i := ioniFinal E d p M Te m u
    i.energy + secondaryEnergy m' i.secondaries + i.deposit = E := by
  intro i
  show (ioniFinal E d p M Te m u).energy + secondaryEnergy m' (ioniFinal E d p M Te m u).secondaries
    + (ioniFinal E d p M Te m u).deposit = E
  unfold ioniFinal
  inum
  simp only [secondaryEnergy_cons, secondaryEnergy_nil]
  simp [pidPositron, pidElectron]

theorem maxSecondaryEnergy_real (E M m : ℝ) :
    maxSecondaryEnergy E M m
      = 2 * m * (E / M) * (E / M + 2) / (1 + 2 * (E / M + 1) * (m / M) + m / M * (m / M)) := by
  unfold maxSecondaryEnergy; inum

/-- in closed form `T_max = 2 m p² / (M² + 2 (T + M) m + m²)` -/
theorem maxSecondaryEnergy_closed (E M m : ℝ) (hM : 0 < M) (hm : 0 < m) (hE : 0 ≤ E) :
    maxSecondaryEnergy E M m
      = 2 * m * (E * E + 2 * M * E) / (M * M + 2 * (E + M) * m + m * m) := by
  rw [maxSecondaryEnergy_real]
  have h1 : M ≠ 0 := ne_of_gt hM
  have h2 : 0 < M * M + 2 * (E + M) * m + m * m := by positivity
  have h3 : 0 < 1 + 2 * (E / M + 1) * (m / M) + m / M * (m / M) := by positivity
  rw [div_eq_div_iff (ne_of_gt h3) (ne_of_gt h2)]
  field_simp

/-- for equal masses (Møller/Bhabha) the kinematic limit is the whole kinetic energy -/
theorem maxSecondaryEnergy_same (E m : ℝ) (hm : 0 < m) (hE : 0 ≤ E) :
    maxSecondaryEnergy E m m = E := by
  rw [maxSecondaryEnergy_closed E m m hm hm hE]
  have h2 : 0 < m * m + 2 * (E + m) * m + m * m := by positivity
  rw [div_eq_iff (ne_of_gt h2)]
  ring

/-- `cos θ ≤ 1` in `IoniFinalStateHelper` exactly up to the kinematic limit `T_max` -/
theorem ioni_costheta_range (E M Te m : ℝ) (hE : 0 < E) (hM : 0 < M) (hm : 0 < m) (hT : 0 < Te)
    (hmax : Te ≤ maxSecondaryEnergy E M m) :
    let mom := Real.sqrt (Te * (Te + 2 * m))
    let p := Real.sqrt (E * E + 2 * M * E)
    let c := Te * (E + M + m) / (mom * p)
    0 < c ∧ c ≤ 1 := by
  intro mom p c
  have hq1 : 0 < Te * (Te + 2 * m) := by positivity
  have hq2 : 0 < E * E + 2 * M * E := by positivity
  have hm1 := Real.mul_self_sqrt (le_of_lt hq1)
  have hp1 := Real.mul_self_sqrt (le_of_lt hq2)
  have hmp : 0 < Real.sqrt (Te * (Te + 2 * m)) := Real.sqrt_pos.mpr hq1
  have hpp : 0 < Real.sqrt (E * E + 2 * M * E) := Real.sqrt_pos.mpr hq2
  have hden : 0 < Real.sqrt (Te * (Te + 2 * m)) * Real.sqrt (E * E + 2 * M * E) := mul_pos hmp hpp
  rw [maxSecondaryEnergy_closed E M m hM hm (le_of_lt hE)] at hmax
  have hD : 0 < M * M + 2 * (E + M) * m + m * m := by positivity
  rw [le_div_iff₀ hD] at hmax
  constructor
  · show 0 < Te * (E + M + m) / (Real.sqrt (Te * (Te + 2 * m)) * Real.sqrt (E * E + 2 * M * E))
    positivity
  · show Te * (E + M + m) / (Real.sqrt (Te * (Te + 2 * m)) * Real.sqrt (E * E + 2 * M * E)) ≤ 1
    rw [div_le_one hden]
    -- compare squares
    have hsq : (Te * (E + M + m)) * (Te * (E + M + m))
        ≤ (Real.sqrt (Te * (Te + 2 * m)) * Real.sqrt (E * E + 2 * M * E))
          * (Real.sqrt (Te * (Te + 2 * m)) * Real.sqrt (E * E + 2 * M * E)) := by
      have e : (Real.sqrt (Te * (Te + 2 * m)) * Real.sqrt (E * E + 2 * M * E))
          * (Real.sqrt (Te * (Te + 2 * m)) * Real.sqrt (E * E + 2 * M * E))
          = (Te * (Te + 2 * m)) * (E * E + 2 * M * E) := by
        calc _ = (Real.sqrt (Te * (Te + 2 * m)) * Real.sqrt (Te * (Te + 2 * m)))
              * (Real.sqrt (E * E + 2 * M * E) * Real.sqrt (E * E + 2 * M * E)) := by ring
          _ = _ := by rw [hm1, hp1]
      rw [e]
      -- Te (E+M+m)² ≤ (Te + 2m) p²  ⇐  Te (M² + 2(E+M)m + m²) ≤ 2 m p²
      have key : Te * ((E + M + m) * (E + M + m)) ≤ (Te + 2 * m) * (E * E + 2 * M * E) := by
        nlinarith
      nlinarith [mul_le_mul_of_nonneg_left key (le_of_lt hT)]
    by_contra hc
    rw [not_le] at hc
    have hnn : 0 ≤ Te * (E + M + m) := by positivity
    nlinarith

/-- recoil identity: `|p d − p_e d_e|² = (T − T_e)(T − T_e + 2M)` when `d_e · d = cos θ` of
    `IoniFinalStateHelper` -/
theorem ioni_recoil_sq (E M Te m : ℝ) (hE : 0 < E) (hM : 0 < M) (hm : 0 < m) (hT : 0 < Te) :
    let mom := Real.sqrt (Te * (Te + 2 * m))
    let p := Real.sqrt (E * E + 2 * M * E)
    let c := Te * (E + M + m) / (mom * p)
    p * p + mom * mom - 2 * p * mom * c = (E - Te) * ((E - Te) + 2 * M) := by
  intro mom p c
  have hq1 : 0 < Te * (Te + 2 * m) := by positivity
  have hq2 : 0 < E * E + 2 * M * E := by positivity
  have hm1 := Real.mul_self_sqrt (le_of_lt hq1)
  have hp1 := Real.mul_self_sqrt (le_of_lt hq2)
  have hmp : Real.sqrt (Te * (Te + 2 * m)) ≠ 0 := ne_of_gt (Real.sqrt_pos.mpr hq1)
  have hpp : Real.sqrt (E * E + 2 * M * E) ≠ 0 := ne_of_gt (Real.sqrt_pos.mpr hq2)
  show Real.sqrt (E * E + 2 * M * E) * Real.sqrt (E * E + 2 * M * E)
      + Real.sqrt (Te * (Te + 2 * m)) * Real.sqrt (Te * (Te + 2 * m))
      - 2 * Real.sqrt (E * E + 2 * M * E) * Real.sqrt (Te * (Te + 2 * m))
        * (Te * (E + M + m) / (Real.sqrt (Te * (Te + 2 * m)) * Real.sqrt (E * E + 2 * M * E)))
      = (E - Te) * ((E - Te) + 2 * M)
  have e : 2 * Real.sqrt (E * E + 2 * M * E) * Real.sqrt (Te * (Te + 2 * m))
        * (Te * (E + M + m) / (Real.sqrt (Te * (Te + 2 * m)) * Real.sqrt (E * E + 2 * M * E)))
      = 2 * (Te * (E + M + m)) := by
    field_simp
  rw [e, hm1, hp1]
  ring

/-! ### loops of the energy distributions -/

theorem mbLoop_spec (g : ℝ → ℝ) (gD invMax invMin : ℝ) : ∀ (fuel : ℕ) (script : Script ℝ)
    (eps : ℝ) (rest : Script ℝ), mbLoop g gD invMax invMin fuel script = some (eps, rest) →
    ∃ u1, u1 ∈ script ∧ eps = 1 / uniformReal invMax invMin u1 ∧ (∀ u ∈ rest, u ∈ script) := by
  intro fuel
  induction fuel with
  | zero => intro script eps rest h; simp [mbLoop] at h
  | succ n ih =>
    intro script eps rest h
    match script, h with
    | u1 :: u2 :: tl, h =>
      simp only [mbLoop] at h
      split_ifs at h with hr
      · obtain ⟨a, ha, he, hrest⟩ := ih tl eps rest h
        exact ⟨a, by simp [ha], he, fun u hu => by simp [hrest u hu]⟩
      · simp only [Option.some.injEq, Prod.mk.injEq] at h
        obtain ⟨h1, h3⟩ := h
        refine ⟨u1, by simp, ?_, fun u hu => by rw [← h3] at hu; simp [hu]⟩
        rw [← h1]; inum
    | [], h => simp [mbLoop] at h
    | [_], h => simp [mbLoop] at h

theorem bbLoop_spec (b2 minE maxE : ℝ) : ∀ (fuel : ℕ) (script : Script ℝ)
    (e : ℝ) (rest : Script ℝ), bbLoop b2 minE maxE fuel script = some (e, rest) →
    ∃ u1, u1 ∈ script ∧ e = inverseSquare minE maxE u1 ∧ (∀ u ∈ rest, u ∈ script) := by
  intro fuel
  induction fuel with
  | zero => intro script e rest h; simp [bbLoop] at h
  | succ n ih =>
    intro script e rest h
    match script, h with
    | u1 :: u2 :: tl, h =>
      simp only [bbLoop] at h
      split_ifs at h with hr
      · obtain ⟨a, ha, he, hrest⟩ := ih tl e rest h
        exact ⟨a, by simp [ha], he, fun u hu => by simp [hrest u hu]⟩
      · simp only [Option.some.injEq, Prod.mk.injEq] at h
        obtain ⟨h1, h3⟩ := h
        exact ⟨u1, by simp, h1.symm, fun u hu => by rw [← h3] at hu; simp [hu]⟩
    | [], h => simp [bbLoop] at h
    | [_], h => simp [bbLoop] at h

/-- decomposition of `MollerBhabhaInteractor::operator()` -/
theorem mb_done {cap size : ℕ} {isE : Bool} {E m cut : ℝ} {d : Vec3 ℝ} {script : Script ℝ}
    {i : Interaction ℝ} {sz : ℕ} {rest : Script ℝ}
    (h : mollerBhabha cap size isE E m cut d script = .done i sz rest) :
    size + 1 ≤ cap ∧ sz = size + 1 ∧ ∃ eps u u1, u1 ∈ script ∧
      eps = 1 / uniformReal (1 / (if isE then (1 / 2 : ℝ) else 1)) (1 / (cut / E)) u1
      ∧ i = ioniFinal E d (momentum E m) m (E * eps) m u := by
  unfold mollerBhabha at h
  cases ha : alloc cap size 1 with
  | none => rw [ha] at h; simp at h
  | some s' =>
    rw [ha] at h
    obtain ⟨h1, h2⟩ := alloc_some ha
    simp only [] at h
    split at h
    · simp at h
    · rename_i eps rst hl
      cases rst with
      | nil => simp at h
      | cons u tl =>
        simp only [Outcome.done.injEq] at h
        obtain ⟨hi, hs, hr⟩ := h
        obtain ⟨u1, hu1, he, _⟩ := mbLoop_spec _ _ _ _ _ _ _ _ hl
        refine ⟨h1, by omega, eps, u, u1, hu1, ?_, ?_⟩
        · rw [he]
          inum
          cases isE <;> simp [half_real]
        · rw [← hi]

/-- decomposition of `MuHadIonizationInteractor<BetheBloch>::operator()` -/
theorem muhad_done {cap size : ℕ} {E M m cut : ℝ} {d : Vec3 ℝ} {script : Script ℝ}
    {i : Interaction ℝ} {sz : ℕ} {rest : Script ℝ}
    (h : muHadBetheBloch cap size E M m cut d script = .done i sz rest) :
    (maxSecondaryEnergy E M m ≤ cut ∧ i.action = .unchanged ∧ sz = size ∧ rest = script) ∨
    (cut < maxSecondaryEnergy E M m ∧ size + 1 ≤ cap ∧ sz = size + 1 ∧ ∃ e u u1, u1 ∈ script ∧
      e = inverseSquare cut (maxSecondaryEnergy E M m) u1
      ∧ i = ioniFinal E d (momentum E M) M e m u) := by
  unfold muHadBetheBloch at h
  simp only [] at h
  split_ifs at h with hc
  · left
    simp only [Outcome.done.injEq] at h
    obtain ⟨hi, hs, hr⟩ := h
    rw [NumR.ge_real] at hc
    exact ⟨hc, by rw [← hi], hs.symm, hr.symm⟩
  · right
    rw [NumR.ge_real, not_le] at hc
    refine ⟨hc, ?_⟩
    cases ha : alloc cap size 1 with
    | none => rw [ha] at h; simp at h
    | some s' =>
      rw [ha] at h
      obtain ⟨h1, h2⟩ := alloc_some ha
      simp only [] at h
      split at h
      · simp at h
      · rename_i e rst hl
        cases rst with
        | nil => simp at h
        | cons u tl =>
          simp only [Outcome.done.injEq] at h
          obtain ⟨hi, hs, hr⟩ := h
          obtain ⟨u1, hu1, he, _⟩ := bbLoop_spec _ _ _ _ _ _ _ hl
          exact ⟨h1, by omega, e, u, u1, hu1, he, hi.symm⟩

/-! ### bremsstrahlung -/

theorem bremFinal_energy (m' E : ℝ) (d : Vec3 ℝ) (p Eg c u : ℝ) :
    let i := bremFinal E d p Eg c u
    i.energy + secondaryEnergy m' i.secondaries + i.deposit = E := by
  intro i
  show (bremFinal E d p Eg c u).energy + secondaryEnergy m' (bremFinal E d p Eg c u).secondaries
    + (bremFinal E d p Eg c u).deposit = E
  unfold bremFinal
  inum
  simp only [secondaryEnergy_cons, secondaryEnergy_nil]
  simp [pidPositron, pidGamma]

/-- every value returned by `TsaiUrbanDistribution` is a cosine -/
theorem tsaiUrbanLoop_range (umax : ℝ) (hu : 0 < umax) : ∀ (fuel : ℕ) (script : Script ℝ)
    (c : ℝ) (rest : Script ℝ), canonical script →
    tsaiUrbanLoop umax fuel script = some (c, rest) →
    -1 ≤ c ∧ c ≤ 1 ∧ (∀ u ∈ rest, u ∈ script) := by
  intro fuel
  induction fuel with
  | zero => intro script c rest _ h; simp [tsaiUrbanLoop] at h
  | succ n ih =>
    intro script c rest hcan h
    match script, h with
    | u1 :: u2 :: u3 :: tl, h =>
      simp only [tsaiUrbanLoop] at h
      split_ifs at h with hb hr hr
      · have hcan' : canonical tl := fun u hu => hcan u (by simp [hu])
        obtain ⟨a, b, hrest⟩ := ih tl c rest hcan' h
        exact ⟨a, b, fun u hu => by simp [hrest u hu]⟩
      · simp only [Option.some.injEq, Prod.mk.injEq] at h
        obtain ⟨h1, h3⟩ := h
        have hu1 := hcan u1 (by simp)
        have hu2 := hcan u2 (by simp)
        inum at hr h1
        rw [onesix_real] at hr h1
        have hlog : Real.log (u1 * u2) ≤ 0 :=
          Real.log_nonpos (mul_nonneg hu1.1 hu2.1) (by nlinarith [hu1.1, hu1.2, hu2.1, hu2.2])
        have hv0 : 0 ≤ -Real.log (u1 * u2) * (8 / 5) := by nlinarith
        have hr' : -Real.log (u1 * u2) * (8 / 5) ≤ umax := not_lt.mp hr
        have hq0 : 0 ≤ -Real.log (u1 * u2) * (8 / 5) / umax := div_nonneg hv0 (le_of_lt hu)
        have hq1 : -Real.log (u1 * u2) * (8 / 5) / umax ≤ 1 := by rw [div_le_one hu]; exact hr'
        refine ⟨?_, ?_, fun u hu => by rw [← h3] at hu; simp [hu]⟩
        · rw [← h1]; nlinarith [mul_le_one₀ hq1 hq0 hq1]
        · rw [← h1]; nlinarith [mul_nonneg hq0 hq0]
      · have hcan' : canonical tl := fun u hu => hcan u (by simp [hu])
        obtain ⟨a, b, hrest⟩ := ih tl c rest hcan' h
        exact ⟨a, b, fun u hu => by simp [hrest u hu]⟩
      · simp only [Option.some.injEq, Prod.mk.injEq] at h
        obtain ⟨h1, h3⟩ := h
        have hu1 := hcan u1 (by simp)
        have hu2 := hcan u2 (by simp)
        inum at hr h1
        rw [onesix_real] at hr h1
        have hlog : Real.log (u1 * u2) ≤ 0 :=
          Real.log_nonpos (mul_nonneg hu1.1 hu2.1) (by nlinarith [hu1.1, hu1.2, hu2.1, hu2.2])
        have hv0 : 0 ≤ -Real.log (u1 * u2) * (8 / 5 / 3) := by nlinarith
        have hr' : -Real.log (u1 * u2) * (8 / 5 / 3) ≤ umax := not_lt.mp hr
        have hq0 : 0 ≤ -Real.log (u1 * u2) * (8 / 5 / 3) / umax := div_nonneg hv0 (le_of_lt hu)
        have hq1 : -Real.log (u1 * u2) * (8 / 5 / 3) / umax ≤ 1 := by
          rw [div_le_one hu]; exact hr'
        refine ⟨?_, ?_, fun u hu => by rw [← h3] at hu; simp [hu]⟩
        · rw [← h1]; nlinarith [mul_le_one₀ hq1 hq0 hq1]
        · rw [← h1]; nlinarith [mul_nonneg hq0 hq0]
    | [], h => simp [tsaiUrbanLoop] at h
    | [_], h => simp [tsaiUrbanLoop] at h
    | [_, _], h => simp [tsaiUrbanLoop] at h

/-! ### Bethe–Heitler -/

theorem bhSplit_sum (E m eps : ℝ) :
    (bhSplit E m eps).1 + (bhSplit E m eps).2 + 2 * m = E := by
  unfold bhSplit; inum; ring

theorem bhSplit_nonneg (E m eps : ℝ) (hE : 0 < E) (h0 : m / E ≤ eps) (h1 : eps ≤ 1 / 2)
    (hm : 2 * m ≤ E) : 0 ≤ (bhSplit E m eps).1 ∧ 0 ≤ (bhSplit E m eps).2 := by
  unfold bhSplit; inum
  rw [div_le_iff₀ hE] at h0
  constructor
  · show 0 ≤ (1 - eps) * E - m
    nlinarith
  · show 0 ≤ eps * E - m
    linarith

theorem secondaryEnergy_pair (m e0 e1 : ℝ) (d0 d1 : Vec3 ℝ) :
    secondaryEnergy m [⟨some pidElectron, e0, d0⟩, ⟨some pidPositron, e1, d1⟩]
      = e0 + e1 + 2 * m := by
  simp [secondaryEnergy_cons, pidElectron, pidPositron]; ring

/-! ### Coulomb -/

theorem coulombRecoil_real (E m Mt c : ℝ) :
    coulombRecoil E m Mt c = (E * E + 2 * m * E) * (1 - c) / (Mt + (m + E) * (1 - c)) := by
  unfold coulombRecoil momentumSq; inum

end CelerVerif.Interact
