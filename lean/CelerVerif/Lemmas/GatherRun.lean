/- Slot-level case analyses, fan-out, runs and counting lemmas for Props/C17. -/
import CelerVerif.Lemmas.GatherBasic

namespace CelerVerif.Gather
variable {α : Type} [DepVal α]

/-- the declared filters, evaluated on what the track looked like at the two step points:
    with detectors in use the track must have been active at the pre point in a volume mapped to
    a detector, and (if every callback asked for it) have deposited energy -/
def passes (p : Params) (pre : Option (PointRead α)) (q : PostRead α) : Prop :=
  p.detector.isSome = true →
    ∃ r, pre = some r ∧ (detOf p r.volRaw).isSome = true ∧
      ¬ (p.nz = true ∧ DepVal.isZero q.edep = true)

theorem writePost_trackId (sel : Selection) (q : PostRead α) (s : SlotData α) :
    (writePost sel q s).trackId = s.trackId := rfl
theorem writePost_detector (sel : Selection) (q : PostRead α) (s : SlotData α) :
    (writePost sel q s).detector = s.detector := rfl
theorem writePost_pre (sel : Selection) (q : PostRead α) (s : SlotData α) :
    (writePost sel q s).pre = s.pre := rfl

theorem delivered_iff_slot_aux (p : Params) (pre : Option (PointRead α))
    (post : Option (PostRead α)) (s : SlotData α)
    (hid : ∀ q, post = some q → q.trackId.isSome = true) :
    delivered p (stepSlot p pre post s) = true ↔ ∃ q, post = some q ∧ passes p pre q := by
  cases post with
  | none => simp [stepSlot, gatherPostSlot, delivered]
  | some q =>
    have hq := hid q rfl
    by_cases hdet : p.detector.isSome = true
    · have hnone : p.detector.isNone = false := by
        cases hd : p.detector <;> simp_all
      cases pre with
      | none =>
        simp [stepSlot, hasPre_of_det hdet, gatherPreSlot, gatherPostSlot, delivered, hdet, passes,
          hnone]
      | some r =>
        cases hdo : detOf p r.volRaw with
        | none =>
          simp [stepSlot, hasPre_of_det hdet, gatherPreSlot, gatherPostSlot, delivered, hdet,
            passes, hdo, hnone]
        | some d =>
          by_cases hz : (p.nz && DepVal.isZero q.edep) = true
          · have : p.nz = true ∧ DepVal.isZero q.edep = true := by simpa using hz
            simp [stepSlot, hasPre_of_det hdet, gatherPreSlot, gatherPostSlot, delivered, hdet,
              passes, hdo, hz, hnone, this]
          · have : ¬ (p.nz = true ∧ DepVal.isZero q.edep = true) := by simpa using hz
            simp [stepSlot, hasPre_of_det hdet, gatherPreSlot, gatherPostSlot, delivered, hdet,
              passes, hdo, hz, hnone, writePost_trackId, writePost_detector, hq]
            intro hnz
            cases hz2 : DepVal.isZero q.edep <;> simp_all
    · have hnone : p.detector.isNone = true := by
        cases hd : p.detector <;> simp_all
      have hdet' : p.detector.isSome = false := by simpa using hdet
      simp [stepSlot, gatherPostSlot, delivered, hdet', passes, hnone, writePost_trackId, hq]

theorem fields_equal_state_aux (p : Params) (r : PointRead α) (q : PostRead α) (s : SlotData α)
    (hpass : passes p (some r) q) :
    let s' := stepSlot p (some r) (some q) s
    s'.trackId = q.trackId ∧
    (p.sel.eventId = true → s'.eventId = q.eventId) ∧
    (p.sel.parentId = true → s'.parentId = q.parentId) ∧
    (p.sel.trackStepCount = true → s'.stepCount = q.numSteps) ∧
    (p.sel.actionId = true → s'.actionId = q.action) ∧
    (p.sel.stepLength = true → s'.stepLength = q.stepLength) ∧
    (p.sel.particle = true → s'.particle = q.particle) ∧
    (p.sel.edep = true → s'.edep = q.edep) ∧
    (p.sel.post.time = true → s'.post.time = q.pt.time) ∧
    (p.sel.post.pos = true → s'.post.pos = q.pt.pos) ∧
    (p.sel.post.dir = true → s'.post.dir = q.pt.dir) ∧
    (p.sel.post.volume = true → s'.post.volume = (if q.pt.outside then none else q.pt.volRaw)) ∧
    (p.sel.post.energy = true → s'.post.energy = q.pt.energy) ∧
    (p.sel.pre.time = true → s'.pre.time = r.time) ∧
    (p.sel.pre.pos = true → s'.pre.pos = r.pos) ∧
    (p.sel.pre.dir = true → s'.pre.dir = r.dir) ∧
    (p.sel.pre.volume = true → s'.pre.volume = (if r.outside then none else r.volRaw)) ∧
    (p.sel.pre.energy = true → s'.pre.energy = r.energy) ∧
    (p.detector.isSome = true → s'.detector = detOf p r.volRaw) := by
  intro s'
  by_cases hdet : p.detector.isSome = true
  · obtain ⟨r', hr', hdo, hz⟩ := hpass hdet
    cases hr'
    obtain ⟨d, hd⟩ := Option.isSome_iff_exists.mp hdo
    have hz' : (p.nz && DepVal.isZero q.edep) = false := by
      cases h1 : p.nz <;> cases h2 : DepVal.isZero q.edep <;> simp_all
    have hs' : s' = writePost p.sel q
        { s with detector := some d, pre := writePoint p.sel.pre r s.pre, trackId := q.trackId } := by
      simp [s', stepSlot, hasPre_of_det hdet, gatherPreSlot, gatherPostSlot, hdet, hd, hz']
    rw [hs']
    simp only [writePost, writePoint, hd]
    refine ⟨?_, ?_, ?_, ?_, ?_, ?_, ?_, ?_, ?_, ?_, ?_, ?_, ?_, ?_, ?_, ?_, ?_, ?_, ?_⟩ <;>
      first | trivial | rfl | (intro h; simp [h])
  · have hdet' : p.detector.isSome = false := by simpa using hdet
    by_cases hpre : hasPreAction p = true
    · have hs' : s' = writePost p.sel q
          { s with pre := writePoint p.sel.pre r s.pre, trackId := q.trackId } := by
        simp [s', stepSlot, hpre, gatherPreSlot, gatherPostSlot, hdet']
      rw [hs']
      simp only [writePost, writePoint]
      refine ⟨?_, ?_, ?_, ?_, ?_, ?_, ?_, ?_, ?_, ?_, ?_, ?_, ?_, ?_, ?_, ?_, ?_, ?_, ?_⟩ <;>
        first | trivial | rfl | (intro h; simp_all)
    · have hpre' : hasPreAction p = false := by simpa using hpre
      have hany : p.sel.pre.any = false := by
        simp [hasPreAction] at hpre'; exact hpre'.1
      have hs' : s' = writePost p.sel q { s with trackId := q.trackId } := by
        simp [s', stepSlot, hpre', gatherPostSlot, hdet']
      rw [hs']
      simp only [writePost, writePoint]
      simp only [PointSel.any, Bool.or_eq_false_iff] at hany
      refine ⟨?_, ?_, ?_, ?_, ?_, ?_, ?_, ?_, ?_, ?_, ?_, ?_, ?_, ?_, ?_, ?_, ?_, ?_, ?_⟩ <;>
        first | trivial | rfl | (intro h; simp_all)

/-! ### fan-out -/

/-- what a callback of a given kind must be handed for the gathered state `st` -/
def viewOf (_sel : Selection) (st : StepState α) : CbKind → View α → Prop
  | .raw, .raw st' => st' = st
  | .det, .det _ => True
  | .calo _, .calo _ => True
  | _, _ => False

theorem fanOut_forall₂ (sel : Selection) (st : StepState α) (cbs : List CbKind)
    (tallies : List (List α)) :
    List.Forall₂ (viewOf sel st) cbs (fanOut sel st cbs tallies).1 := by
  induction cbs generalizing tallies with
  | nil => simp [fanOut]
  | cons c cbs ih =>
    cases c with
    | raw => simp only [fanOut]; exact List.Forall₂.cons rfl (ih tallies)
    | det => simp only [fanOut]; exact List.Forall₂.cons trivial (ih tallies)
    | calo n => simp only [fanOut]; exact List.Forall₂.cons trivial (ih tallies.tail)

/-! ### runs -/

/-- calorimeter tally of one stream over a run (one gathered state per step) -/
def runCalo (steps : List (StepState α)) (calo : List α) : List α :=
  steps.foldl (fun c st => caloAccum st c) calo

theorem runCalo_getElem? (steps : List (StepState α)) (calo : List α) (d : Nat) :
    (runCalo steps calo)[d]? = (calo[d]?).map (depositFold d (steps.flatMap validSlots)) := by
  unfold runCalo
  induction steps generalizing calo with
  | nil =>
    have : depositFold d ([] : List (SlotData α)) = id := by funext c; simp [depositFold]
    simp [this]
  | cons st steps ih =>
    rw [List.foldl_cons, ih, caloAccum_getElem?, List.flatMap_cons]
    cases calo[d]? with
    | none => simp
    | some c => simp [depositFold_append]

/-! ### counting -/

theorem countP_eq_of_pointwise {β γ : Type} (P : β → Bool) (Q : γ → Bool) :
    ∀ (l₁ : List β) (l₂ : List γ), l₁.length = l₂.length →
      (∀ (i : Nat) b c, l₁[i]? = some b → l₂[i]? = some c → P b = Q c) →
      l₁.countP P = l₂.countP Q := by
  intro l₁
  induction l₁ with
  | nil => intro l₂ h _; cases l₂ <;> simp_all
  | cons b l₁ ih =>
    intro l₂ hlen h
    cases l₂ with
    | nil => simp at hlen
    | cons c l₂ =>
      rw [List.countP_cons, List.countP_cons, h 0 b c (by simp) (by simp),
        ih l₂ (by simpa using hlen) (fun i b' c' hb hc => h (i + 1) b' c' (by simpa using hb)
          (by simpa using hc))]

/-! ### permutation independence -/

theorem launch_perm_invariant {ρ σ : Type} (f : ρ → σ → σ) (reads : Nat → ρ) (slots : List Nat)
    (st : List σ) (hperm : slots.Perm (List.range st.length)) :
    launch f reads slots st = mapSlots f reads st := by
  have hnd : slots.Nodup := (List.Perm.nodup_iff hperm).mpr List.nodup_range
  rw [launch_eq_mapIdx f reads slots hnd st]
  unfold mapSlots
  apply List.ext_getElem?
  intro i
  simp only [List.getElem?_mapIdx]
  cases h : st[i]? with
  | none => rfl
  | some s =>
    have hi : i < st.length := (List.getElem?_eq_some_iff.mp h).1
    have : i ∈ slots := (List.Perm.mem_iff hperm).mpr (List.mem_range.mpr hi)
    simp [this]

end CelerVerif.Gather
