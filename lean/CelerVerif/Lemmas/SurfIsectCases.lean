/- Per-class soundness / completeness of `calc_intersections` in terms of the ray polynomial. -/
import CelerVerif.Lemmas.SurfIsect

namespace CelerVerif.Surf
open CelerVerif

/-- the ray polynomial `A t² + 2 B t + C` of a surface -/
noncomputable def Surface.rayPoly (s : Surface ℝ) (pos dir : Vec3 ℝ) (t : ℝ) : ℝ :=
  (s.rayCoeffs pos dir).1 * t * t + 2 * (s.rayCoeffs pos dir).2.1 * t + (s.rayCoeffs pos dir).2.2

def unitDir (dir : Vec3 ℝ) : Prop := dir.x * dir.x + dir.y * dir.y + dir.z * dir.z = 1

theorem snd_planeAligned (ax : Axis) (p : ℝ) (pos dir : Vec3 ℝ) (t : ℝ)
    (h : Isect2.mem t ((Surface.planeAligned ax p).calcIntersections pos dir false)) :
    0 < t ∧ (Surface.planeAligned ax p).rayPoly pos dir t = 0 := by
  simp only [Surface.calcIntersections] at h
  obtain ⟨h1, h2⟩ := planeIsect_sound _ _ _ h
  refine ⟨h1, ?_⟩
  cases ax <;> simp only [Surface.rayPoly, Surface.rayCoeffs, Surface.quadric] <;>
    vec_simp at h2 ⊢ <;> num_simp <;> linear_combination h2

theorem snd_plane (n : Vec3 ℝ) (d : ℝ) (pos dir : Vec3 ℝ) (t : ℝ)
    (h : Isect2.mem t ((Surface.plane n d).calcIntersections pos dir false)) :
    0 < t ∧ (Surface.plane n d).rayPoly pos dir t = 0 := by
  simp only [Surface.calcIntersections] at h
  obtain ⟨h1, h2⟩ := planeIsect_sound _ _ _ h
  refine ⟨h1, ?_⟩
  simp only [Surface.rayPoly, Surface.rayCoeffs, Surface.quadric]
  vec_simp at h2 ⊢; num_simp at h2 ⊢; linear_combination h2

theorem snd_cylCentered (ax : Axis) (r2 : ℝ) (pos dir : Vec3 ℝ) (hu : unitDir dir)
    (t : ℝ) (h : Isect2.mem t ((Surface.cylCentered ax r2).calcIntersections pos dir false)) :
    0 < t ∧ (Surface.cylCentered ax r2).rayPoly pos dir t = 0 := by
  unfold unitDir at hu
  simp only [Surface.calcIntersections, Bool.false_eq_true, if_false] at h
  rw [sqTol_real] at h
  split_ifs at h with h0
  · simp [Isect2.mem] at h
  · num_simp at h0
    have ha : (1 : ℝ) - dir.ax ax * dir.ax ax ≠ 0 := by
      intro hz; apply h0; rw [hz]; norm_num
    num_simp at h
    obtain ⟨k1, k2⟩ := solver_sound_scaled _ _ _ t ha h
    refine ⟨k1, ?_⟩
    cases ax <;> simp only [Surface.rayPoly, Surface.rayCoeffs, Surface.quadric] <;>
      vec_simp at k2 ⊢ <;> num_simp <;> linear_combination k2 + t * t * hu

theorem snd_cylAligned (ax : Axis) (ou ov r2 : ℝ) (pos dir : Vec3 ℝ) (hu : unitDir dir)
    (t : ℝ) (h : Isect2.mem t ((Surface.cylAligned ax ou ov r2).calcIntersections pos dir false)) :
    0 < t ∧ (Surface.cylAligned ax ou ov r2).rayPoly pos dir t = 0 := by
  unfold unitDir at hu
  simp only [Surface.calcIntersections, Bool.false_eq_true, if_false] at h
  rw [sqTol_real] at h
  split_ifs at h with h0
  · simp [Isect2.mem] at h
  · num_simp at h0
    have ha : (1 : ℝ) - dir.ax ax * dir.ax ax ≠ 0 := by
      intro hz; apply h0; rw [hz]; norm_num
    num_simp at h
    obtain ⟨k1, k2⟩ := solver_sound_scaled _ _ _ t ha h
    refine ⟨k1, ?_⟩
    cases ax <;> simp only [Surface.rayPoly, Surface.rayCoeffs, Surface.quadric] <;>
      vec_simp at k2 ⊢ <;> num_simp <;> linear_combination k2 + t * t * hu

theorem snd_sphereCentered (r2 : ℝ) (pos dir : Vec3 ℝ) (hu : unitDir dir)
    (t : ℝ) (h : Isect2.mem t ((Surface.sphereCentered r2).calcIntersections pos dir false)) :
    0 < t ∧ (Surface.sphereCentered r2).rayPoly pos dir t = 0 := by
  unfold unitDir at hu
  simp only [Surface.calcIntersections, Bool.not_false, if_true] at h
  num_simp at h
  obtain ⟨k1, k2⟩ := solver_sound_scaled _ _ _ t one_ne_zero h
  refine ⟨k1, ?_⟩
  simp only [Surface.rayPoly, Surface.rayCoeffs, Surface.quadric]
  vec_simp at k2 ⊢; num_simp at k2 ⊢; linear_combination k2 + t * t * hu

theorem snd_sphere (o : Vec3 ℝ) (r2 : ℝ) (pos dir : Vec3 ℝ) (hu : unitDir dir)
    (t : ℝ) (h : Isect2.mem t ((Surface.sphere o r2).calcIntersections pos dir false)) :
    0 < t ∧ (Surface.sphere o r2).rayPoly pos dir t = 0 := by
  unfold unitDir at hu
  simp only [Surface.calcIntersections, Bool.not_false, if_true] at h
  num_simp at h
  obtain ⟨k1, k2⟩ := solver_sound_scaled _ _ _ t one_ne_zero h
  refine ⟨k1, ?_⟩
  simp only [Surface.rayPoly, Surface.rayCoeffs, Surface.quadric]
  vec_simp at k2 ⊢; num_simp at k2 ⊢; linear_combination k2 + t * t * hu

/-- tolerance-band hypothesis on the leading coefficient used by `solve_general` -/
def leadOK (a : ℝ) : Prop := minA ≤ |a| ∨ a = 0

theorem snd_coneAligned (ax : Axis) (o : Vec3 ℝ) (tsq : ℝ) (pos dir : Vec3 ℝ)
    (hA : leadOK ((Surface.coneAligned ax o tsq).rayCoeffs pos dir).1)
    (t : ℝ) (h : Isect2.mem t ((Surface.coneAligned ax o tsq).calcIntersections pos dir false)) :
    0 ≤ t ∧ ((Surface.coneAligned ax o tsq).quadric pos ≠ 0 → 0 < t)
      ∧ (Surface.coneAligned ax o tsq).rayPoly pos dir t = 0 := by
  simp only [Surface.calcIntersections] at h
  unfold leadOK at hA
  cases ax <;> simp only [Surface.rayPoly, Surface.rayCoeffs, Surface.quadric] at hA ⊢ <;>
    vec_simp at h hA ⊢ <;> num_simp at h hA ⊢ <;>
    (obtain ⟨k0, k1, k2⟩ := solveGeneral_sound _ _ _ t hA h
     exact ⟨k0, k1, by linear_combination k2⟩)

theorem snd_simpleQuadric (a b c d e f g : ℝ) (pos dir : Vec3 ℝ)
    (hA : leadOK ((Surface.simpleQuadric a b c d e f g).rayCoeffs pos dir).1)
    (t : ℝ)
    (h : Isect2.mem t ((Surface.simpleQuadric a b c d e f g).calcIntersections pos dir false)) :
    0 ≤ t ∧ ((Surface.simpleQuadric a b c d e f g).quadric pos ≠ 0 → 0 < t)
      ∧ (Surface.simpleQuadric a b c d e f g).rayPoly pos dir t = 0 := by
  simp only [Surface.calcIntersections] at h
  unfold leadOK at hA
  simp only [Surface.rayPoly, Surface.rayCoeffs, Surface.quadric] at hA ⊢
  num_simp at h hA ⊢
  have hA' : minA ≤ |a * dir.x * dir.x + b * dir.y * dir.y + c * dir.z * dir.z|
      ∨ a * dir.x * dir.x + b * dir.y * dir.y + c * dir.z * dir.z = 0 := hA
  obtain ⟨k0, k1, k2⟩ := solveGeneral_sound _ _ _ t hA' h
  refine ⟨k0, fun hc => k1 (by intro hz; apply hc; linear_combination hz), by linear_combination k2⟩

theorem snd_generalQuadric (a b c d e f g h' i j : ℝ) (pos dir : Vec3 ℝ)
    (hA : leadOK ((Surface.generalQuadric a b c d e f g h' i j).rayCoeffs pos dir).1)
    (t : ℝ)
    (h : Isect2.mem t ((Surface.generalQuadric a b c d e f g h' i j).calcIntersections pos dir false)) :
    0 ≤ t ∧ ((Surface.generalQuadric a b c d e f g h' i j).quadric pos ≠ 0 → 0 < t)
      ∧ (Surface.generalQuadric a b c d e f g h' i j).rayPoly pos dir t = 0 := by
  simp only [Surface.calcIntersections] at h
  unfold leadOK at hA
  simp only [Surface.rayPoly, Surface.rayCoeffs, Surface.quadric] at hA ⊢
  num_simp at h hA ⊢
  obtain ⟨k0, k1, k2⟩ := solveGeneral_sound _ _ _ t hA h
  refine ⟨k0, fun hc => k1 (by intro hz; apply hc; linear_combination hz), by linear_combination k2⟩

end CelerVerif.Surf
