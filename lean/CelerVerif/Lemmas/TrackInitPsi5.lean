/- Conditional liveness with an explicit bound: every track dies within K of its own steps and at
   most S secondaries are ever emitted ⇒ queued = alive = 0 after K·(slots + queued + S) calls
   (C02). -/
import CelerVerif.Lemmas.TrackInitPsi4
import CelerVerif.Lemmas.TrackInitKeep

namespace CelerVerif.TrackInit

/-- valid secondaries in an outcome list -/
def secsOf (o : List Outcome) : Nat := (o.map (fun b => countValid b.secs)).sum
def secsTotal (os : List (List Outcome)) : Nat := (os.map secsOf).sum

theorem secsStep_le (mid : List Slot) (o : List Outcome) : secsStep mid o ≤ secsOf o := by
  unfold secsStep secsOf
  induction mid generalizing o with
  | nil => simp
  | cons a l ih =>
    cases o with
    | nil => simp
    | cons b o =>
      have := ih o
      simp only [List.zipWith_cons_cons, List.sum_cons, List.map_cons, secsA]
      split <;> omega

theorem secsStep_inactive (mid : List Slot) (o : List Outcome)
    (h : ∀ x ∈ mid, x.active = false) : secsStep mid o = 0 := by
  unfold secsStep
  induction mid generalizing o with
  | nil => simp
  | cons a l ih =>
    cases o with
    | nil => simp
    | cons b o =>
      simp only [List.zipWith_cons_cons, List.sum_cons, secsA, h a (by simp)]
      simp [ih o (fun x hx => h x (by simp [hx]))]

theorem inactive_of_liveL_nil (l : List Slot) (h : liveL l = []) : ∀ x ∈ l, x.active = false := by
  induction l with
  | nil => simp
  | cons a l ih =>
    rw [liveL_cons] at h
    by_cases ha : a.active = true
    · simp [ha] at h
    · have ha' : a.active = false := by simpa using ha
      simp only [ha', Bool.false_eq_true, if_false] at h
      intro x hx
      simp only [List.mem_cons] at hx
      rcases hx with rfl | hx
      · exact ha'
      · exact ih h x hx

theorem stepMid_eq (s : State) (hp : s.pending = []) :
    stepMid s = initializeTracks (extendFromPrimaries
      { s with pending := ([] : List Primary), c := { s.c with numGenerated := 0 } }) := by
  have hs : { s with pending := ([] : List Primary), c := { s.c with numGenerated := 0 } }
      = { s with c := { s.c with numGenerated := 0 } } := by
    cases s; simp_all
  rw [hs]; rfl

theorem Psi_zero_iff {K : Nat} (hK : 1 ≤ K) (s : State) :
    Psi K s = 0 ↔ liveL s.slots = [] ∧ s.c.numInitializers = 0 := by
  have hb := psiSlots_bounds hK s.slots
  unfold Psi
  constructor
  · intro h
    have h1 : psiSlots K s.slots = 0 := by omega
    have h2 : K * s.c.numInitializers = 0 := by omega
    refine ⟨List.eq_nil_of_length_eq_zero (by omega), ?_⟩
    rcases Nat.mul_eq_zero.mp h2 with h3 | h3
    · omega
    · exact h3
  · intro ⟨h1, h2⟩
    rw [h1] at hb
    simp at hb
    rw [h2]; omega

/-- one Stepper call without primaries: the potential drops by the number of tracks in flight,
    up to `K` per emitted secondary; and something is in flight unless the loop is drained -/
theorem step_potential {cfg : Cfg} (hslots : 1 ≤ cfg.slots) {K : Nat} (hK : 1 ≤ K) {s s' : State}
    (hI : Inv cfg s) (o : List Outcome) (hlen : cfg.slots ≤ o.length) (ho : OracleOk o)
    (hage : AgeOkL K (stepMid s).slots o) (hstep : stepAny [] o s = .ok s') :
    Inv cfg s' ∧ s'.c.numAlive = (liveL s'.slots).length ∧
    (Psi K s = 0 → Psi K s' = 0) ∧
    Psi K s' + (if Psi K s = 0 then 0 else 1) ≤ Psi K s + K * secsOf o := by
  have hpre := pre_of_inv hI [] (by intro p hp; cases hp) (by simp; exact hI.cap)
  have hk := (stepAny_spec (itSpec_all cfg) hI [] (by intro p hp; cases hp) o ho).1 s' hstep
  have hgoal : stepAny [] o s = step o s := rfl
  rw [hgoal, step_nil_eq o s hI.pending] at hstep
  rw [stepMid_eq s hI.pending] at hage
  generalize hs1 : ({ s with pending := ([] : List Primary), c := { s.c with numGenerated := 0 } } : State) = s1 at hpre hk hstep hage
  have e_sl : s1.slots = s.slots := by rw [← hs1]
  have e_q : s1.c.numInitializers = s.c.numInitializers := by rw [← hs1]
  have e_v : s1.c.numVacancies = s.c.numVacancies := by rw [← hs1]
  have e_p : s1.pending = [] := by rw [← hs1]
  have hpot := stepBody_potential hK hpre o hlen ho hage hstep
  have hact := hk.active
  have hstart := hk.started
  rw [e_p, e_sl, e_q] at hpot
  rw [e_p, e_sl, e_q, e_v] at hstart
  simp only [List.length_nil, Nat.add_zero] at hpot hstart
  have hPsi : psiSlots K s.slots + K * s.c.numInitializers = Psi K s := rfl
  have hsec := secsStep_le (initializeTracks (extendFromPrimaries s1)).slots o
  have hsecK := Nat.mul_le_mul_left K hsec
  refine ⟨hk.inv, hk.alive, ?_, ?_⟩
  · intro h0
    obtain ⟨z1, z2⟩ := (Psi_zero_iff hK s).mp h0
    -- nothing queued, nothing alive: nothing is started, nobody emits
    have hE1 := efp_spec hpre.lens hpre.core hpre.evs hpre.fit
    have hni2 : (extendFromPrimaries s1).c.numInitializers = 0 := by
      rw [hE1.ninit, e_q, e_p, z2]; rfl
    obtain ⟨q1, _⟩ := initializeTracks_nothing_queued _ hni2
    have hmid : (initializeTracks (extendFromPrimaries s1)).slots = s.slots := by
      rw [q1, hE1.same.1, e_sl]
    rw [hmid] at hpot
    have := secsStep_inactive s.slots o (inactive_of_liveL_nil _ z1)
    rw [this, z1] at hpot
    simp at hpot
    rw [hPsi, h0] at hpot
    omega
  · by_cases h0 : Psi K s = 0
    · simp only [h0, if_true]
      omega
    · simp only [h0, if_false]
      -- something is in flight
      have hne : ¬ (liveL s.slots = [] ∧ s.c.numInitializers = 0) :=
        fun h => h0 ((Psi_zero_iff hK s).mpr h)
      have hflight : 1 ≤ (liveL (initializeTracks (extendFromPrimaries s1)).slots).length := by
        rw [← hact, hstart]
        by_cases hl : (liveL s.slots).length = 0
        · have hnil : liveL s.slots = [] := List.eq_nil_of_length_eq_zero hl
          have hq : s.c.numInitializers ≠ 0 := fun hq => hne ⟨hnil, hq⟩
          have hocc := hI.occupied
          rw [hl] at hocc
          have hv : s.c.numVacancies = cfg.slots := by omega
          rw [hv]
          have : 1 ≤ min cfg.slots s.c.numInitializers := by
            rw [Nat.le_min]; exact ⟨hslots, by omega⟩
          omega
        · omega
      omega

end CelerVerif.TrackInit
