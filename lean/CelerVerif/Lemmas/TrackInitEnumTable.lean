/- The model's enums as (C++ enumerator name, value) tables, to be compared with the tables
   regenerated from celeritas/Types.hh (C02). -/
import CelerVerif.Model.TrackInit
import CelerVerif.Generated.TrackInitEnums

namespace CelerVerif.TrackInit

/-- C++ enumerator modelled by each constructor of `Status`, with its value = constructor index -/
def Status.entry : Status → String × Nat
  | .inactive => ("inactive", 0)
  | .initializing => ("initializing", 1)
  | .alive => ("alive", 2)
  | .errored => ("errored", 3)
  | .killed => ("killed", 4)

/-- `.reindex` stands for the whole range `[begin_reindex_, end_reindex_)` -/
def Order.entry : Order → String × Nat
  | .none => ("none", 0)
  | .initCharge => ("init_charge", 1)
  | .reindex => ("begin_reindex_", 2)

def allStatus : List Status := [.inactive, .initializing, .alive, .errored, .killed]
def allOrder : List Order := [.none, .initCharge, .reindex]

/-- enumerators of `TrackStatus` that are range sentinels, not statuses -/
def isSentinel (p : String × Nat) : Bool := p.1 == "begin_dying_" || p.1 == "size_"

/-- enumerators of `TrackOrder` that are range sentinels -/
def isOrderSentinel (p : String × Nat) : Bool :=
  p.1 == "begin_layout_" || p.1 == "end_layout_" || p.1 == "begin_reindex_" ||
  p.1 == "begin_reindex_action_" || p.1 == "end_reindex_action_" || p.1 == "end_reindex_" ||
  p.1 == "size_"

/-- value of a named enumerator in a regenerated table -/
def valueOf (t : List (String × Nat)) (name : String) : Option Nat :=
  (t.find? (fun p => p.1 == name)).map (·.2)

end CelerVerif.TrackInit
