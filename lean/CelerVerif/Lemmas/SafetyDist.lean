/-
The per-surface safety never exceeds the distance to any point of the surface, is never
negative, and a sign change of the surface function between two points puts a surface point on
the segment between them (intermediate value theorem on the ray polynomial).
-/
import CelerVerif.Lemmas.SafetyForms
import CelerVerif.Lemmas.SurfIsectCases
import Mathlib.Topology.Order.IntermediateValue
import Mathlib.Topology.Algebra.Ring.Real

namespace CelerVerif.Safety
open CelerVerif CelerVerif.Surf

/-- documented constructor preconditions (`CELER_EXPECT`, compiled out in release builds) -/
def WellFormed : Surface ℝ → Prop
  | .plane n _ => nsq n = 1
  | .cylCentered _ r2 => 0 ≤ r2
  | .sphereCentered r2 => 0 ≤ r2
  | .sphere _ r2 => 0 ≤ r2
  | _ => True

/-- the point is where the gradient of a simple-safety surface vanishes (sphere centre, axis of
    a centred cylinder).  There `calc_normal` divides by zero and the code returns +∞. -/
def AtCentre : Surface ℝ → Vec3 ℝ → Prop
  | .cylCentered t _, x => rho2 t x = 0
  | .sphereCentered _, x => nsq x = 0
  | .sphere o _, x => nsq (vsub x o) = 0
  | _, _ => False

/-! ### norm facts -/

def vzero : Vec3 ℝ := ⟨0, 0, 0⟩

theorem nrm_eq_dist_zero (a : Vec3 ℝ) : nrm a = dist3 a vzero := by
  unfold dist3 nrm nsq vsub vzero; simp

theorem vsub_dist (a b : Vec3 ℝ) : nrm (vsub a b) = dist3 a b := rfl

/-- reverse triangle inequality around a centre `o` -/
theorem radial_le (x y o : Vec3 ℝ) : |dist3 x o - dist3 y o| ≤ dist3 x y := by
  have h1 := dist3_triangle x y o
  have h2 := dist3_triangle y x o
  rw [dist3_comm y x] at h2
  exact abs_le.mpr ⟨by linarith, by linarith⟩

/-- one component is at most the length -/
theorem abs_comp_le (a b : Vec3 ℝ) (t : Axis) : |a.ax t - b.ax t| ≤ dist3 a b := by
  unfold dist3 nrm
  apply Real.abs_le_sqrt
  unfold nsq vsub
  cases t <;> vec_simp <;> nlinarith [mul_self_nonneg (a.x - b.x), mul_self_nonneg (a.y - b.y),
    mul_self_nonneg (a.z - b.z)]

/-- projection perpendicular to axis `t` -/
def proj (t : Axis) (a : Vec3 ℝ) : Vec3 ℝ :=
  match t with
  | .x => ⟨0, a.y, a.z⟩
  | .y => ⟨a.x, 0, a.z⟩
  | .z => ⟨a.x, a.y, 0⟩

theorem rho2_eq (t : Axis) (a : Vec3 ℝ) : rho2 t a = nsq (proj t a) := by
  cases t <;> unfold rho2 nsq proj <;> vec_simp <;> ring

theorem dist3_proj_le (t : Axis) (a b : Vec3 ℝ) : dist3 (proj t a) (proj t b) ≤ dist3 a b := by
  unfold dist3 nrm
  apply Real.sqrt_le_sqrt
  cases t <;> unfold nsq vsub proj <;> simp only [] <;>
    nlinarith [mul_self_nonneg (a.x - b.x), mul_self_nonneg (a.y - b.y),
      mul_self_nonneg (a.z - b.z)]

/-! ### ★ the safety is at most the distance to any point of the surface -/

theorem safety_le_dist_surface (s : Surface ℝ) (hw : WellFormed s) (x : Vec3 ℝ)
    (hc : ¬ AtCentre s x) (y : Vec3 ℝ) (hy : s.quadric y = 0) :
    OLe (calcSafety s x) (dist3 x y) := by
  cases s with
  | planeAligned t p =>
    refine ⟨_, safety_planeAligned_form t p x, ?_⟩
    have : y.ax t = p := by
      simp only [Surface.quadric] at hy; num_simp at hy; linarith
    rw [← this]; exact abs_comp_le x y t
  | plane n d =>
    have hn : nsq n = 1 := hw
    refine ⟨_, safety_plane_form n d x hn, ?_⟩
    have hd : rdot n y = d := by
      simp only [Surface.quadric, Vec3R.dot_real] at hy; num_simp at hy; unfold rdot; linarith
    have e : rdot n x - d = rdot n (vsub x y) := by rw [← hd]; unfold rdot vsub; ring
    rw [e]
    have := abs_rdot_le n (vsub x y)
    have hn1 : nrm n = 1 := by unfold nrm; rw [hn]; exact Real.sqrt_one
    rw [hn1, one_mul] at this
    exact this
  | cylCentered t r2 =>
    have hr : 0 ≤ r2 := hw
    have hx : rho2 t x ≠ 0 := hc
    refine ⟨_, safety_cylCentered_form t r2 x hr hx, ?_⟩
    have hyr : rho2 t y = r2 := by
      simp only [Surface.quadric] at hy; num_simp at hy; unfold rho2; linarith
    rw [← hyr, rho2_eq, rho2_eq]
    have := radial_le (proj t x) (proj t y) vzero
    rw [← nrm_eq_dist_zero, ← nrm_eq_dist_zero] at this
    exact le_trans this (dist3_proj_le t x y)
  | cylAligned t ou ov r2 =>
    exact ⟨0, by simp [calcSafety, simpleSafety], dist3_nonneg x y⟩
  | sphereCentered r2 =>
    have hr : 0 ≤ r2 := hw
    have hx : nsq x ≠ 0 := hc
    refine ⟨_, safety_sphereCentered_form r2 x hr hx, ?_⟩
    have hyr : nsq y = r2 := by
      simp only [Surface.quadric, Vec3R.dot_real] at hy; num_simp at hy; unfold nsq; linarith
    have := radial_le x y vzero
    rw [← nrm_eq_dist_zero, ← nrm_eq_dist_zero] at this
    rw [← hyr]; exact this
  | sphere o r2 =>
    have hr : 0 ≤ r2 := hw
    have hx : nsq (vsub x o) ≠ 0 := hc
    refine ⟨_, safety_sphere_form o r2 x hr hx, ?_⟩
    have hyr : nsq (vsub y o) = r2 := by
      simp only [Surface.quadric, Vec3R.dot_real] at hy; num_simp at hy; unfold nsq vsub; linarith
    have := radial_le x y o
    rw [← hyr]; exact this
  | coneAligned t o tsq => exact ⟨0, by simp [calcSafety, simpleSafety], dist3_nonneg x y⟩
  | simpleQuadric a b c d e f g =>
    exact ⟨0, by simp [calcSafety, simpleSafety], dist3_nonneg x y⟩
  | generalQuadric a b c d e f g h i j =>
    exact ⟨0, by simp [calcSafety, simpleSafety], dist3_nonneg x y⟩

/-! ### ★ non-negativity (unconditional: every value is 0 or a reported intersection distance) -/

theorem minElement2_mem {r : Isect2 ℝ} {v : ℝ} (h : minElement2 r = some v) : Isect2.mem v r := by
  obtain ⟨a, b⟩ := r
  unfold Isect2.mem
  cases a <;> cases b <;> simp only [minElement2, isNaN_real, Bool.false_eq_true, if_false] at h
  · cases h
  · right; exact h
  · left; exact h
  · split_ifs at h
    · right; exact h
    · left; exact h

theorem isect_pos_simple (s : Surface ℝ) (hs : simpleSafety s = true) (x d : Vec3 ℝ) (t : ℝ)
    (h : Isect2.mem t (s.calcIntersections x d false)) : 0 < t := by
  cases s with
  | planeAligned ax p => exact (snd_planeAligned ax p x d t h).1
  | plane n dd => exact (snd_plane n dd x d t h).1
  | cylCentered ax r2 =>
    simp only [Surface.calcIntersections, Bool.false_eq_true, if_false] at h
    split_ifs at h with h0
    · simp [Isect2.mem] at h
    · exact (solve_sound _ _ _ h).1
  | cylAligned ax ou ov r2 => simp [simpleSafety] at hs
  | sphereCentered r2 =>
    simp only [Surface.calcIntersections, Bool.not_false, if_true] at h
    exact (solve_sound _ _ _ h).1
  | sphere o r2 =>
    simp only [Surface.calcIntersections, Bool.not_false, if_true] at h
    exact (solve_sound _ _ _ h).1
  | coneAligned ax o tsq => simp [simpleSafety] at hs
  | simpleQuadric a b c d e f g => simp [simpleSafety] at hs
  | generalQuadric a b c d e f g h' i j => simp [simpleSafety] at hs

theorem calcSafety_nonneg (s : Surface ℝ) (x : Vec3 ℝ) : ONonneg (calcSafety s x) := by
  intro v hv
  unfold calcSafety at hv
  by_cases hs : simpleSafety s = true
  · simp only [hs, Bool.not_true, Bool.false_eq_true, if_false] at hv
    rw [calcSafetyCore_real] at hv
    split_ifs at hv with h1 h2
    · simp only [Option.some.injEq] at hv; rw [← hv]
    · exact le_of_lt (isect_pos_simple s hs _ _ v (minElement2_mem hv))
    · exact le_of_lt (isect_pos_simple s hs _ _ v (minElement2_mem hv))
  · have : simpleSafety s = false := by simpa using hs
    simp only [this, Bool.not_false, if_true, Option.some.injEq] at hv
    rw [← hv]; simp

/-! ### a sign change along a segment gives a surface point on it -/

/-- `x + t (y − x)` -/
theorem along_one (x y : Vec3 ℝ) : along x (vsub y x) 1 = y := by
  unfold along vsub; cases y; simp

theorem along_zero (x d : Vec3 ℝ) : along x d 0 = x := by
  unfold along; cases x; simp

theorem dist3_along (x y : Vec3 ℝ) (t : ℝ) (ht : 0 ≤ t) :
    dist3 x (along x (vsub y x) t) = t * dist3 x y := by
  unfold dist3 nrm
  have : nsq (vsub x (along x (vsub y x) t)) = t * t * nsq (vsub x y) := by
    unfold nsq vsub along; ring
  rw [this, Real.sqrt_mul (mul_self_nonneg t), Real.sqrt_mul_self ht]

theorem dist3_self (x : Vec3 ℝ) : dist3 x x = 0 := by
  unfold dist3 nrm
  have : nsq (vsub x x) = 0 := by unfold nsq vsub; ring
  rw [this, Real.sqrt_zero]

theorem exists_surface_point (s : Surface ℝ) (x y : Vec3 ℝ)
    (h : s.quadric x * s.quadric y < 0) :
    ∃ z, s.quadric z = 0 ∧ dist3 x z ≤ dist3 x y := by
  set f : ℝ → ℝ := fun t => s.quadric (along x (vsub y x) t) with hf
  have hcont : Continuous f := by
    have : f = fun t => (s.rayCoeffs x (vsub y x)).1 * t * t
        + 2 * (s.rayCoeffs x (vsub y x)).2.1 * t + (s.rayCoeffs x (vsub y x)).2.2 := by
      funext t; exact quadric_along s x (vsub y x) t
    rw [this]; fun_prop
  have f0 : f 0 = s.quadric x := by simp only [hf, along_zero]
  have f1 : f 1 = s.quadric y := by simp only [hf, along_one]
  have key : ∃ t ∈ Set.Icc (0 : ℝ) 1, f t = 0 := by
    rcases lt_or_gt_of_ne (show s.quadric x ≠ 0 by intro h0; rw [h0, zero_mul] at h; exact lt_irrefl _ h)
      with hx | hx
    · have hy : 0 < s.quadric y := by
        by_contra hh
        nlinarith [mul_nonneg_of_nonpos_of_nonpos (le_of_lt hx) (not_lt.mp hh)]
      have := intermediate_value_Icc (zero_le_one' ℝ) hcont.continuousOn
      exact this ⟨by rw [f0]; exact le_of_lt hx, by rw [f1]; exact le_of_lt hy⟩
    · have hy : s.quadric y < 0 := by
        by_contra hh
        nlinarith [mul_nonneg (le_of_lt hx) (not_lt.mp hh)]
      have := intermediate_value_Icc' (zero_le_one' ℝ) hcont.continuousOn
      exact this ⟨by rw [f1]; exact le_of_lt hy, by rw [f0]; exact le_of_lt hx⟩
  obtain ⟨t, ⟨ht0, ht1⟩, hft⟩ := key
  refine ⟨along x (vsub y x) t, hft, ?_⟩
  rw [dist3_along x y t ht0]
  calc t * dist3 x y ≤ 1 * dist3 x y := mul_le_mul_of_nonneg_right ht1 (dist3_nonneg x y)
    _ = dist3 x y := one_mul _

/-- ★ per-surface conservativeness: if the sense differs between `x` and `y`, the safety at `x`
    is at most `|x − y|` -/
theorem safety_le_of_sense_change (s : Surface ℝ) (hw : WellFormed s) (x y : Vec3 ℝ)
    (hc : ¬ AtCentre s x) (h : s.calcSense x ≠ s.calcSense y) :
    OLe (calcSafety s x) (dist3 x y) := by
  by_cases hy0 : s.quadric y = 0
  · exact safety_le_dist_surface s hw x hc y hy0
  by_cases hx0 : s.quadric x = 0
  · have := safety_le_dist_surface s hw x hc x hx0
    rw [dist3_self] at this
    exact this.mono (dist3_nonneg x y)
  have hprod : s.quadric x * s.quadric y < 0 := by
    rcases lt_or_gt_of_ne hx0 with hx | hx <;> rcases lt_or_gt_of_ne hy0 with hy | hy
    · exact absurd (by rw [calcSense_neg hx, calcSense_neg hy]) h
    · exact mul_neg_of_neg_of_pos hx hy
    · exact mul_neg_of_pos_of_neg hx hy
    · exact absurd (by rw [calcSense_pos hx, calcSense_pos hy]) h
  obtain ⟨z, hz, hd⟩ := exists_surface_point s x y hprod
  exact (safety_le_dist_surface s hw x hc z hz).mono hd

end CelerVerif.Safety
