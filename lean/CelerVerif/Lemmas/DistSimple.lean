/-
Non-rejection samplers at ℝ: closed forms, supports, inverse-CDF identities, draw counts.
-/
import CelerVerif.Lemmas.DistReal
import Mathlib.Analysis.SpecialFunctions.Log.Basic
import Mathlib.Analysis.SpecialFunctions.Trigonometric.Basic

namespace CelerVerif.Dist
open CelerVerif

/-! ### closed forms of one sampling step -/
theorem uniform_eval (a b u : ℝ) (us : List ℝ) :
    (UniformReal.mk' a b).sample (u :: us) = some ((b - a) * u + a, us) := by
  simp only [UniformReal.sample, UniformReal.mk']; dist_simp

theorem exponential_eval (lam u : ℝ) (us : List ℝ) :
    exponential lam (u :: us) = some (Real.log u * (-1 / lam), us) := by
  simp only [exponential]; dist_simp

theorem reciprocal_eval (a b u : ℝ) (us : List ℝ) :
    reciprocal a b (u :: us) = some (a * Real.exp (Real.log (1 / a * b) * u), us) := by
  simp only [reciprocal]; dist_simp

theorem inverseSquare_eval (a b u : ℝ) (us : List ℝ) :
    inverseSquare a b (u :: us) = some (a * b / ((b - a) * u + a), us) := by
  simp only [inverseSquare, uniform_eval]

theorem radial_eval (r u : ℝ) (us : List ℝ) :
    radial r (u :: us) = some (u ^ ((1 : ℝ) / 3) * r, us) := by
  simp only [radial]; dist_simp

theorem isotropic_eval (u1 u2 : ℝ) (us : List ℝ) :
    isotropic (u1 :: u2 :: us) =
      some (⟨Real.sqrt (1 - (2 * u1 - 1) * (2 * u1 - 1)) * Real.cos (twopi * u2),
             Real.sqrt (1 - (2 * u1 - 1) * (2 * u1 - 1)) * Real.sin (twopi * u2),
             2 * u1 - 1⟩, us) := by
  simp only [isotropic, fromSpherical]; dist_simp
  have h1 : ((1 : ℝ) - -1) * u1 + -1 = 2 * u1 - 1 := by ring
  have h2 : ((twopi : ℝ) - 0) * u2 + 0 = twopi * u2 := by ring
  rw [h1, h2]

theorem uniformBox_eval (lo hi : Vec3 ℝ) (u1 u2 u3 : ℝ) (us : List ℝ) :
    uniformBox lo hi (u1 :: u2 :: u3 :: us) =
      some (⟨(hi.x - lo.x) * u1 + lo.x, (hi.y - lo.y) * u2 + lo.y, (hi.z - lo.z) * u3 + lo.z⟩, us) := by
  simp only [uniformBox]; dist_simp

theorem bernoulli_eval (p u : ℝ) (us : List ℝ) :
    bernoulli p (u :: us) = some (decide (u < p), us) := by
  simp only [bernoulli]; rfl

theorem rejectionSampler_eval (f fmax u : ℝ) (us : List ℝ) :
    rejectionSampler f fmax (u :: us) = some (decide (f < fmax * u), us) := by
  simp only [rejectionSampler]; rfl

/-! ### draw counts -/
theorem drawsExactly_one {β : Type} (f : Rng ℝ β) (g : ℝ → β)
    (h0 : f [] = none) (h1 : ∀ u us, f (u :: us) = some (g u, us)) : DrawsExactly f 1 := by
  intro s
  cases s with
  | nil => exact ⟨fun _ => h0, fun h => absurd h (by simp)⟩
  | cons u us => exact ⟨fun h => absurd h (by simp), fun _ => ⟨g u, by simp [h1]⟩⟩

/-! ### interval facts -/
theorem affine_mem {a b u : ℝ} (hab : a ≤ b) (hu : Canon u) :
    a ≤ (b - a) * u + a ∧ (b - a) * u + a ≤ b ∧ (a < b → (b - a) * u + a < b) := by
  obtain ⟨h0, h1⟩ := hu
  have hd : 0 ≤ b - a := by linarith
  refine ⟨by nlinarith, by nlinarith, fun hlt => ?_⟩
  have : 0 < b - a := by linarith
  nlinarith

theorem rpow_third_cube {u : ℝ} (hu : 0 ≤ u) : (u ^ ((1 : ℝ) / 3)) ^ 3 = u := by
  rw [← Real.rpow_natCast, ← Real.rpow_mul hu]; norm_num

end CelerVerif.Dist
