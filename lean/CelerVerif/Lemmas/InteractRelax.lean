/-
AtomicRelaxation at ℝ: the loop invariant (sum_energy equals the energy of what was written;
every Auger electron is at or above the ELECTRON cut, every fluorescence photon at or above the
GAMMA cut; three uniforms per emitted secondary).
-/
import CelerVerif.Lemmas.InteractIoni

namespace CelerVerif.Interact
open CelerVerif

theorem secondaryEnergy_append (m : ℝ) (a b : List (Secondary ℝ)) :
    secondaryEnergy m (a ++ b) = secondaryEnergy m a + secondaryEnergy m b := by
  induction a with
  | nil => simp
  | cons s r ih => simp only [List.cons_append, secondaryEnergy_cons, ih]; ring

theorem secondaryEnergy_relax (m : ℝ) (pid : ℕ) (hp : pid ≠ pidPositron) (e u1 u2 : ℝ) :
    secondaryEnergy m [relaxSecondary pid e u1 u2] = e := by
  simp only [secondaryEnergy_cons, secondaryEnergy_nil, relaxSecondary]
  have : (some pid : Option ℕ) ≠ some pidPositron := by simpa using hp
  simp [this]

/-- what every relaxation secondary satisfies -/
def relaxOK (ecut gcut : ℝ) (s : Secondary ℝ) : Prop :=
  (s.pid = some pidElectron ∧ ecut ≤ s.energy) ∨ (s.pid = some pidGamma ∧ gcut ≤ s.energy)

/-- loop invariant carried from any intermediate state to the result -/
theorem relaxLoop_inv (m : ℝ) (shells : List (List (Transition ℝ))) (ecut gcut : ℝ) :
    ∀ (fuel : ℕ) (stack : List ℕ) (secs : List (Secondary ℝ)) (sum : ℝ) (s : Script ℝ)
      (secs' : List (Secondary ℝ)) (sum' : ℝ) (rest : Script ℝ),
      relaxLoop shells ecut gcut fuel stack secs sum s = some (secs', sum', rest) →
      secondaryEnergy m secs = sum → (∀ x ∈ secs, relaxOK ecut gcut x) →
      secondaryEnergy m secs' = sum' ∧ (∀ x ∈ secs', relaxOK ecut gcut x)
        ∧ 3 * secs'.length + rest.length ≤ 3 * secs.length + s.length := by
  intro fuel
  induction fuel with
  | zero => intro stack secs sum s secs' sum' rest h; simp [relaxLoop] at h
  | succ n ih =>
    intro stack secs sum s secs' sum' rest h hsum hok
    cases stack with
    | nil =>
      simp only [relaxLoop, Option.some.injEq, Prod.mk.injEq] at h
      obtain ⟨h1, h2, h3⟩ := h
      subst h1 h2 h3
      exact ⟨hsum, hok, le_refl _⟩
    | cons v stack =>
      simp only [relaxLoop] at h
      split at h
      · exact ih _ _ _ _ _ _ _ h hsum hok
      · rename_i ts _
        cases s with
        | nil => simp at h
        | cons u s =>
          simp only [] at h
          split at h
          · obtain ⟨a, b, c⟩ := ih _ _ _ _ _ _ _ h hsum hok
            exact ⟨a, b, by simp only [List.length_cons]; omega⟩
          · rename_i t _
            split at h
            · -- non-radiative
              rename_i a _
              split_ifs at h with hc
              · match s, h with
                | u1 :: u2 :: s, h =>
                  have hc' : ecut ≤ t.energy := by rw [NumR.ge_real] at hc; exact hc
                  have hsum' : secondaryEnergy m (secs ++ [relaxSecondary pidElectron t.energy u1 u2])
                      = sum + t.energy := by
                    rw [secondaryEnergy_append, secondaryEnergy_relax m _ (by decide), hsum]
                  have hok' : ∀ x ∈ secs ++ [relaxSecondary pidElectron t.energy u1 u2],
                      relaxOK ecut gcut x := by
                    intro x hx
                    rcases List.mem_append.mp hx with hx | hx
                    · exact hok x hx
                    · simp only [List.mem_singleton] at hx
                      rw [hx]; left; exact ⟨rfl, hc'⟩
                  have h' : relaxLoop shells ecut gcut n (a :: t.initial :: stack)
                      (secs ++ [relaxSecondary pidElectron t.energy u1 u2]) (sum + t.energy) s
                      = some (secs', sum', rest) := h
                  obtain ⟨r1, r2, r3⟩ := ih _ _ _ _ _ _ _ h' hsum' hok'
                  refine ⟨r1, r2, ?_⟩
                  simp only [List.length_append, List.length_cons, List.length_nil] at r3 ⊢
                  omega
                | [], h => simp at h
                | [_], h => simp at h
              · obtain ⟨r1, r2, r3⟩ := ih _ _ _ _ _ _ _ h hsum hok
                exact ⟨r1, r2, by simp only [List.length_cons]; omega⟩
            · -- radiative
              split_ifs at h with hc
              · match s, h with
                | u1 :: u2 :: s, h =>
                  have hc' : gcut ≤ t.energy := by rw [NumR.ge_real] at hc; exact hc
                  have hsum' : secondaryEnergy m (secs ++ [relaxSecondary pidGamma t.energy u1 u2])
                      = sum + t.energy := by
                    rw [secondaryEnergy_append, secondaryEnergy_relax m _ (by decide), hsum]
                  have hok' : ∀ x ∈ secs ++ [relaxSecondary pidGamma t.energy u1 u2],
                      relaxOK ecut gcut x := by
                    intro x hx
                    rcases List.mem_append.mp hx with hx | hx
                    · exact hok x hx
                    · simp only [List.mem_singleton] at hx
                      rw [hx]; right; exact ⟨rfl, hc'⟩
                  have h' : relaxLoop shells ecut gcut n (t.initial :: stack)
                      (secs ++ [relaxSecondary pidGamma t.energy u1 u2]) (sum + t.energy) s
                      = some (secs', sum', rest) := h
                  obtain ⟨a, b, c⟩ := ih _ _ _ _ _ _ _ h' hsum' hok'
                  refine ⟨a, b, ?_⟩
                  simp only [List.length_append, List.length_cons, List.length_nil] at c ⊢
                  omega
                | [], h => simp at h
                | [_], h => simp at h
              · obtain ⟨a, b, c⟩ := ih _ _ _ _ _ _ _ h hsum hok
                exact ⟨a, b, by simp only [List.length_cons]; omega⟩

end CelerVerif.Interact
