/- The action a failed interaction is handed to: `failure_action()` as coded vs. the action
   registered under the label `physics-failure` (facts regenerated from PhysicsData.hh /
   PhysicsParams.cc) (C16). -/
import CelerVerif.Model.Stack
import CelerVerif.Generated.PhysicsActions

namespace CelerVerif.Stack
open CelerVerif.Generated.PhysicsActions

/-- the id `PhysicsParamsScalars::failure_action()` computes -/
def failureActionAsCoded (modelToAction numModels : Nat) : Nat :=
  modelToAction + numModels + failureExprAdd - failureExprSub

/-- what the PhysicsParams constructor registers right after the models -/
def afterModels : List String := (registrationOrder.dropWhile (· != "<models>")).drop 1

/-- labels of the action registry: `before` = everything registered before the first model
    (so `model_to_action = before.length`), the models, what PhysicsParams registers after
    them, and whatever is registered later -/
def registryLabels (before models later : List String) : List String :=
  before ++ models ++ afterModels ++ later

theorem afterModels_eq : afterModels = ["physics-failure"] := by decide

/-- the id computed by `failure_action()` is the id registered under `physics-failure`, for
    every number of actions before the models and every number of models -/
theorem failure_action_label (before models later : List String) :
    (registryLabels before models later)[failureActionAsCoded before.length models.length]?
      = some "physics-failure" := by
  have hid : failureActionAsCoded before.length models.length
      = (before ++ models).length + 0 := by
    simp [failureActionAsCoded, failureExprAdd, failureExprSub]
  unfold registryLabels
  rw [afterModels_eq, hid, List.append_assoc (before ++ models),
    List.getElem?_append_right (by omega)]
  simp

/-- ... and it is not the id of any model (in particular not of the last one) -/
theorem failure_action_not_a_model (m2a n : Nat) :
    ¬ (m2a ≤ failureActionAsCoded m2a n ∧ failureActionAsCoded m2a n < m2a + n) := by
  simp [failureActionAsCoded, failureExprAdd, failureExprSub]

end CelerVerif.Stack
