/-
The state written by `operator=(Initializer)` from the seed is never the all-zero xorshift
state (for which the generator would be stuck): SplitMix64's output function is injective
(xorshift steps and multiplications by odd constants), so two consecutive outputs cannot
both be zero.
-/
import CelerVerif.Model.Xorwow

namespace CelerVerif.Xorwow
open CelerVerif.Generated.Xorwow

theorem bv_xor_eq_zero {n : Nat} {a b : BitVec n} (h : a ^^^ b = 0) : a = b := by
  have : a ^^^ b ^^^ b = 0 ^^^ b := by rw [h]
  simpa [BitVec.xor_assoc] using this

theorem xorshift_zero (z : BitVec 64) (k : Nat) (hk : 0 < k) (h : z ^^^ (z >>> k) = 0) : z = 0 := by
  have e := bv_xor_eq_zero h
  have hn : z.toNat = z.toNat / 2 ^ k := by
    have := congrArg BitVec.toNat e
    simpa [BitVec.toNat_ushiftRight, Nat.shiftRight_eq_div_pow] using this
  apply BitVec.eq_of_toNat_eq
  show z.toNat = 0
  rcases Nat.eq_zero_or_pos z.toNat with h0 | hpos
  · exact h0
  exfalso
  have h2 : 2 ≤ 2 ^ k := by
    have := Nat.pow_le_pow_right (show 0 < 2 by decide) hk
    simpa using this
  have : z.toNat / 2 ^ k < z.toNat := Nat.div_lt_self hpos h2
  omega

theorem mul_zero_of_inv (z m minv : BitVec 64) (hm : m * minv = 1) (h : z * m = 0) : z = 0 := by
  have : z * m * minv = 0 := by rw [h]; simp
  rw [BitVec.mul_assoc, hm] at this
  simpa using this

theorem mul1_inv : BitVec.ofNat 64 smMul1 * BitVec.ofNat 64 0x96de1b173f119089 = 1 := by decide
theorem mul2_inv : BitVec.ofNat 64 smMul2 * BitVec.ofNat 64 0x319642b2d24d8ec3 = 1 := by decide

/-- SplitMix64 output function maps only (state + increment) = 0 to 0 -/
theorem splitMix_out_zero (st : BitVec 64) (h : (splitMix st).1 = 0) :
    st + BitVec.ofNat 64 smInc = 0 := by
  unfold splitMix at h
  simp only at h
  have h3 := xorshift_zero _ smShift3 (by decide) h
  have h2' := mul_zero_of_inv _ _ _ mul2_inv h3
  have h2 := xorshift_zero _ smShift2 (by decide) h2'
  have h1' := mul_zero_of_inv _ _ _ mul1_inv h2
  exact xorshift_zero _ smShift1 (by decide) h1'

theorem splitMix_state (st : BitVec 64) : (splitMix st).2 = st + BitVec.ofNat 64 smInc := rfl

theorem lo_hi_zero (a : BitVec 64) (h1 : lo32 a = 0) (h2 : hi32 a = 0) : a = 0 := by
  unfold lo32 at h1; unfold hi32 at h2
  have e1 := congrArg BitVec.toNat h1
  have e2 := congrArg BitVec.toNat h2
  simp only [BitVec.toNat_setWidth, BitVec.toNat_ushiftRight, BitVec.toNat_zero,
    Nat.shiftRight_eq_div_pow] at e1 e2
  apply BitVec.eq_of_toNat_eq
  have := a.isLt
  show a.toNat = 0
  simp at e1 e2
  omega

/-- **the seeded xorshift state is never zero**, for every seed -/
theorem seedState_nonzero (seed : Nat) : (seedState seed).xs ≠ XS.zero := by
  intro h
  unfold seedState at h
  simp only [XS.zero, XS.mk.injEq] at h
  obtain ⟨a1, a2, b1, b2, -⟩ := h
  have ha := lo_hi_zero _ a1 a2
  have hb := lo_hi_zero _ b1 b2
  have za := splitMix_out_zero _ ha
  have zb := splitMix_out_zero _ hb
  rw [splitMix_state] at zb
  rw [za] at zb
  simp at zb
  exact absurd zb (by decide)

end CelerVerif.Xorwow
