/-
Further helper lemmas for Props/C15.lean: the unsigned cast, gamma constructor facts, lengths of
rejected prefixes, selector prefix sums.
-/
import CelerVerif.Lemmas.DistLoops
import Mathlib.Algebra.Order.Floor.Ring

namespace CelerVerif.Dist
open CelerVerif

/-! ### `static_cast<unsigned>` -/
theorem castU32_of_range (y : ℝ) (h1 : -1 < y) (h2 : y < 2 ^ 32) : castU32 y = ⌊y⌋.toNat := by
  unfold castU32
  rw [R.trunc_real]
  have hlo : ¬ (y < -(2 : ℝ) ^ 63 ∨ (2 : ℝ) ^ 63 ≤ y) := by
    rintro (h | h)
    · have : (-(2 : ℝ) ^ 63) < -1 := by norm_num
      linarith
    · have : (2 : ℝ) ^ 32 < 2 ^ 63 := by norm_num
      linarith
  rw [if_neg hlo]
  by_cases h0 : 0 ≤ y
  · rw [if_pos h0]
    have hf0 : 0 ≤ ⌊y⌋ := Int.floor_nonneg.mpr h0
    have hf1 : ⌊y⌋ < 2 ^ 32 := by
      have : (⌊y⌋ : ℝ) ≤ y := Int.floor_le y
      have h3 : (⌊y⌋ : ℝ) < ((2 ^ 32 : ℤ) : ℝ) := by push_cast; linarith
      exact_mod_cast h3
    rw [Int.emod_eq_of_lt hf0 hf1]
  · rw [if_neg h0]
    have hy : y < 0 := not_le.mp h0
    have hc : ⌈y⌉ = 0 := by
      rw [Int.ceil_eq_iff]; constructor <;> simp <;> linarith
    have hf : ⌊y⌋ = -1 := by
      rw [Int.floor_eq_iff]; constructor <;> simp <;> linarith
    rw [hc, hf]; rfl

/-- a sample at or below −1 wraps to a huge unsigned value -/
theorem castU32_wrap (y : ℝ) (h1 : -(2 : ℝ) ^ 31 ≤ y) (h2 : y ≤ -1) : 2 ^ 31 ≤ castU32 y := by
  unfold castU32
  rw [R.trunc_real]
  have hlo : ¬ (y < -(2 : ℝ) ^ 63 ∨ (2 : ℝ) ^ 63 ≤ y) := by
    rintro (h | h)
    · have : (-(2 : ℝ) ^ 63) < -(2 : ℝ) ^ 31 := by norm_num
      linarith
    · have : (0 : ℝ) < 2 ^ 63 := by norm_num
      linarith
  rw [if_neg hlo, if_neg (by linarith : ¬ (0 ≤ y))]
  have hc1 : ⌈y⌉ ≤ -1 := by
    rw [Int.ceil_le]; push_cast; linarith
  have hc2 : -(2 ^ 31 : ℤ) ≤ ⌈y⌉ := by
    have h3 := Int.le_ceil y
    have : ((-(2 ^ 31 : ℤ) : ℤ) : ℝ) ≤ (⌈y⌉ : ℝ) := by push_cast; linarith
    exact_mod_cast this
  have hm : ⌈y⌉ % (2 ^ 32 : ℤ) = ⌈y⌉ + 2 ^ 32 := by
    rw [← Int.add_emod_right, Int.emod_eq_of_lt (by omega) (by omega)]
  rw [hm]
  omega

/-! ### gamma constructor -/
theorem gamma_mk_fields (alpha beta : ℝ) :
    (Gamma.mk' alpha beta).alpha = alpha ∧ (Gamma.mk' alpha beta).beta = beta ∧
    (Gamma.mk' alpha beta).alphaP = (if alpha < 1 then alpha + 1 else alpha) ∧
    (Gamma.mk' alpha beta).d = (if alpha < 1 then alpha + 1 else alpha) - 1 / 3 := by
  unfold Gamma.mk'
  dist_simp
  exact ⟨trivial, trivial, trivial, trivial⟩

theorem gamma_mk_d_pos (alpha beta : ℝ) (ha : 0 < alpha) : 0 < (Gamma.mk' alpha beta).d := by
  rw [(gamma_mk_fields alpha beta).2.2.2]
  split_ifs with h <;> linarith

/-! ### rejected prefixes have the right length -/
theorem pairsRejected_even (f : ℝ → ℝ) (a b fmax : ℝ) :
    ∀ l : List ℝ, pairsRejected f a b fmax l → l.length % 2 = 0
  | [], _ => rfl
  | [_], h => absurd h (by simp [pairsRejected])
  | _ :: _ :: t, h => by
    have := pairsRejected_even f a b fmax t h.2
    simp only [List.length_cons]; omega

theorem tsaiRejected_len (umax : ℝ) : ∀ l : List ℝ, tsaiRejected umax l → l.length % 3 = 0
  | [], _ => rfl
  | [_], h => absurd h (by simp [tsaiRejected])
  | [_, _], h => absurd h (by simp [tsaiRejected])
  | _ :: _ :: _ :: t, h => by
    have := tsaiRejected_len umax t h.2
    simp only [List.length_cons]; omega

/-! ### selector -/
theorem take_dropLast_sum (w : List ℝ) (k : ℕ) (hk : k + 1 ≤ w.length) :
    (w.dropLast.take k).sum = (w.take k).sum := by
  rw [List.dropLast_eq_take, List.take_take]
  congr 2
  omega

end CelerVerif.Dist
