/-
Per-primitive emission soundness at ℝ: the signed surfaces emitted by each `build` cut out
exactly the solid (for points on none of the surfaces).
-/
import CelerVerif.Lemmas.Solids

namespace CelerVerif.Solids
open CelerVerif CelerVerif.Surf

theorem holds_append (l1 l2 : List (Sense × Surface ℝ)) (p : Vec3 ℝ) :
    Holds (l1 ++ l2) p ↔ Holds l1 p ∧ Holds l2 p := by
  unfold Holds
  simp only [List.mem_append]
  constructor
  · intro h; exact ⟨fun q hq => h q (Or.inl hq), fun q hq => h q (Or.inr hq)⟩
  · rintro ⟨h1, h2⟩ q (hq | hq)
    · exact h1 q hq
    · exact h2 q hq

/-- unfold a concrete emission list into the conjunction of its literals -/
macro "emit_unfold" defs:ident* " at " h:ident : tactic => `(tactic| (
  unfold OffSurfaces at $h:ident
  unfold Holds
  simp only [$[$defs:ident],*, List.forall_mem_cons, List.not_mem_nil, false_imp_iff, implies_true,
    and_true, Surface.quadric, reduceCtorEq, iff_false, iff_true] at $h:ident ⊢
  vec_simp at $h:ident ⊢
  num_simp at $h:ident ⊢))

/-! ### box -/
theorem emitBox_sound (hw p : Vec3 ℝ) (hoff : OffSurfaces (emitBox hw) p) :
    inBox hw p = true ↔ Holds (emitBox hw) p := by
  unfold inBox
  emit_unfold emitBox at hoff
  simp only [abs_le, not_lt]
  obtain ⟨h1, h2, h3, h4, h5, h6⟩ := hoff
  constructor
  · rintro ⟨⟨⟨a1, a2⟩, ⟨b1, b2⟩⟩, ⟨c1, c2⟩⟩
    exact ⟨by linarith, lt_of_le_of_ne (by linarith) h2, by linarith,
      lt_of_le_of_ne (by linarith) h4, by linarith, lt_of_le_of_ne (by linarith) h6⟩
  · rintro ⟨a1, a2, b1, b2, c1, c2⟩
    exact ⟨⟨⟨by linarith, by linarith⟩, ⟨by linarith, by linarith⟩⟩, ⟨by linarith, by linarith⟩⟩

/-! ### sphere -/
theorem emitSphere_sound (r : ℝ) (p : Vec3 ℝ) (hoff : OffSurfaces (emitSphere r) p) :
    inSphere r p = true ↔ Holds (emitSphere r) p := by
  unfold inSphere
  emit_unfold emitSphere at hoff
  constructor
  · intro h; exact lt_of_le_of_ne (by linarith) hoff
  · intro h; linarith

/-! ### cylinder -/
theorem emitCyl_sound (r hh : ℝ) (p : Vec3 ℝ) (hoff : OffSurfaces (emitCyl r hh) p) :
    inCyl r hh p = true ↔ Holds (emitCyl r hh) p := by
  unfold inCyl
  emit_unfold emitCyl at hoff
  simp only [abs_le, not_lt]
  obtain ⟨h1, h2, h3⟩ := hoff
  constructor
  · rintro ⟨⟨a1, a2⟩, b⟩
    exact ⟨by linarith, lt_of_le_of_ne (by linarith) h2, lt_of_le_of_ne (by linarith) h3⟩
  · rintro ⟨a1, a2, b⟩
    exact ⟨⟨by linarith, by linarith⟩, by linarith⟩

/-! ### cone -/
/-- the cone surface's opening: tan²·(z − vanish)² is the squared radius of the documented
    linear profile R(z) = lo + (hi − lo)(z + hh)/(2 hh) -/
theorem cone_key (lo hi hh z : ℝ) (hhh : 0 < hh) (hne : lo ≠ hi) :
    coneTangent lo hi hh * coneTangent lo hi hh
        * ((z - coneVanishZ lo hi hh) * (z - coneVanishZ lo hi hh))
      = coneRadiusAt lo hi hh z * coneRadiusAt lo hi hh z := by
  unfold coneVanishZ coneTangent coneRadiusAt
  num_simp
  have h2 : (2 : ℝ) * hh ≠ 0 := by positivity
  rcases lt_or_gt_of_ne hne with h | h
  · have habs : |lo - hi| = hi - lo := by rw [abs_of_neg (by linarith)]; ring
    have hnot : ¬ (hi < lo) := not_lt.mpr (le_of_lt h)
    have hd : hi - lo ≠ 0 := by intro h0; apply hne; linarith
    rw [if_neg hnot, habs]
    field_simp
    ring
  · have habs : |lo - hi| = lo - hi := abs_of_pos (by linarith)
    have hd : lo - hi ≠ 0 := by intro h0; apply hne; linarith
    rw [if_pos h, habs]
    field_simp
    ring

theorem emitConeProper_sound (lo hi hh : ℝ) (hhh : 0 < hh) (hne : lo ≠ hi) (p : Vec3 ℝ)
    (hoff : OffSurfaces (emitConeProper lo hi hh) p) :
    inCone lo hi hh p = true ↔ Holds (emitConeProper lo hi hh) p := by
  have key := cone_key lo hi hh p.z hhh hne
  unfold inCone
  emit_unfold emitConeProper coneSurface at hoff
  simp only [abs_le, not_lt, sub_zero] at hoff ⊢
  obtain ⟨h1, h2, h3⟩ := hoff
  constructor
  · rintro ⟨⟨a1, a2⟩, b⟩
    refine ⟨by linarith, lt_of_le_of_ne (by linarith) h2, lt_of_le_of_ne ?_ h3⟩
    linarith
  · rintro ⟨a1, a2, b⟩
    exact ⟨⟨by linarith, by linarith⟩, by linarith⟩

/-- degenerate branch: when the two radii are soft-equal the code builds the cylinder of the
    mean radius -/
theorem emitCone_degenerate (tol : Tol ℝ) (lo hi hh : ℝ) (h : coneDegenerate tol lo hi = true) :
    emitCone tol lo hi hh = emitCyl ((Num.ofSci 5 true 1 : ℝ) * (lo + hi)) hh := by
  unfold emitCone; rw [if_pos h]; rfl

/-! ### ellipsoid -/
theorem ellipsoid_quadric (r p : Vec3 ℝ) (hx : 0 < r.x) (hy : 0 < r.y) (hz : 0 < r.z) :
    (ellipsoidSurface r).quadric p
      = (r.x * r.x) * (r.y * r.y) * (r.z * r.z) * (ellipsoidForm r p - 1) := by
  unfold ellipsoidSurface ellipsoidCoeffs ellipsoidForm
  simp only [Surface.quadric]
  num_simp
  have := ne_of_gt hx; have := ne_of_gt hy; have := ne_of_gt hz
  field_simp
  ring

theorem emitEllipsoid_sound (r p : Vec3 ℝ) (hx : 0 < r.x) (hy : 0 < r.y) (hz : 0 < r.z)
    (hoff : OffSurfaces (emitEllipsoid r) p) :
    inEllipsoid r p = true ↔ Holds (emitEllipsoid r) p := by
  have key := ellipsoid_quadric r p hx hy hz
  have hP : 0 < (r.x * r.x) * (r.y * r.y) * (r.z * r.z) := by positivity
  unfold inEllipsoid
  unfold OffSurfaces at hoff
  unfold Holds
  simp only [emitEllipsoid, List.forall_mem_cons, List.not_mem_nil, false_imp_iff, implies_true,
    and_true, iff_true] at hoff ⊢
  rw [key] at hoff ⊢
  num_simp
  constructor
  · intro h
    have hne : ellipsoidForm r p - 1 ≠ 0 := fun h0 => hoff (by rw [h0, mul_zero])
    have : ellipsoidForm r p - 1 < 0 := lt_of_le_of_ne (by linarith) hne
    exact mul_neg_of_pos_of_neg hP this
  · intro h
    by_contra hc
    have : 0 ≤ (r.x * r.x) * (r.y * r.y) * (r.z * r.z) * (ellipsoidForm r p - 1) :=
      mul_nonneg hP.le (by linarith [not_le.mp hc])
    linarith

/-! ### prism -/
theorem prismSide_quadric (n : ℕ) (a o : ℝ) (k : ℕ) (p : Vec3 ℝ) :
    (prismSide n a o k).2.quadric p
      = p.x * Real.cos (prismTheta n o k) + p.y * Real.sin (prismTheta n o k) - a := by
  simp only [prismSide, Surface.quadric]
  vec_simp
  num_simp
  simp only [NumR.cos_real, NumR.sin_real]
  ring

theorem emitPrism_sound (n : ℕ) (a hh o : ℝ) (p : Vec3 ℝ)
    (hoff : OffSurfaces (emitPrism n a hh o) p) :
    inPrism n a hh o p = true ↔ Holds (emitPrism n a hh o) p := by
  have hoff' := hoff
  unfold OffSurfaces at hoff
  have ho1 := hoff (Sense.outside, Surface.planeAligned Axis.z (-hh)) (by simp [emitPrism])
  have ho2 := hoff (Sense.inside, Surface.planeAligned Axis.z hh) (by simp [emitPrism])
  have hok : ∀ k < n, (prismSide n a o k).2.quadric p ≠ 0 := fun k hk =>
    hoff _ (by simp only [emitPrism, List.mem_append, List.mem_map, List.mem_range]
               exact Or.inr ⟨k, hk, rfl⟩)
  simp only [Surface.quadric] at ho1 ho2
  vec_simp at ho1 ho2
  num_simp at ho1 ho2
  unfold inPrism emitPrism
  rw [holds_append, Bool.and_eq_true, List.all_eq_true]
  have hz : Num.le (Num.abs p.z) hh = true ↔
      Holds [(Sense.outside, Surface.planeAligned Axis.z (-hh)),
             (Sense.inside, Surface.planeAligned Axis.z hh)] p := by
    unfold Holds
    simp only [List.forall_mem_cons, List.not_mem_nil, false_imp_iff, implies_true, and_true,
      Surface.quadric, reduceCtorEq, iff_false, iff_true]
    vec_simp
    num_simp
    simp only [abs_le, not_lt]
    constructor
    · rintro ⟨a1, a2⟩; exact ⟨by linarith, lt_of_le_of_ne (by linarith) ho2⟩
    · rintro ⟨a1, a2⟩; exact ⟨by linarith, by linarith⟩
  rw [hz]
  apply and_congr_right
  intro _
  unfold Holds
  constructor
  · intro h q hq
    obtain ⟨k, hk, rfl⟩ := List.mem_map.mp hq
    have hk' := List.mem_range.mp hk
    have hle := h k hk
    num_simp at hle
    simp only [NumR.cos_real, NumR.sin_real] at hle
    have hne := hok k hk'
    rw [prismSide_quadric] at hne ⊢
    simp only [prismSide, iff_true]
    exact lt_of_le_of_ne (by linarith) hne
  · intro h k hk
    have := h (prismSide n a o k) (List.mem_map.mpr ⟨k, hk, rfl⟩)
    rw [prismSide_quadric] at this
    simp only [prismSide, iff_true] at this
    num_simp
    simp only [NumR.cos_real, NumR.sin_real]
    linarith

/-! ### infinite wedge -/
theorem emitWedge_sound (ss cs se ce : ℝ) (p : Vec3 ℝ) (hoff : OffSurfaces (emitWedge ss cs se ce) p) :
    inWedge ss cs se ce p = true ↔ Holds (emitWedge ss cs se ce) p := by
  unfold inWedge
  emit_unfold emitWedge at hoff
  simp only [not_lt, zero_mul, zero_add, sub_zero] at hoff ⊢
  obtain ⟨h1, h2⟩ := hoff
  constructor
  · rintro ⟨a, b⟩
    exact ⟨lt_of_le_of_ne (by linarith) h1, by linarith⟩
  · rintro ⟨a, b⟩
    exact ⟨by linarith, by linarith⟩

/-- the half-plane form of the wedge SPEC contains every point whose azimuth lies between the
    start angle σ and σ + ι (interior angle ι ≤ half a turn) -/
theorem wedge_polar (σ ι φ ρ z : ℝ) (hρ : 0 ≤ ρ) (h1 : σ ≤ φ) (h2 : φ ≤ σ + ι) (hι : ι ≤ Real.pi) :
    inWedge (Real.sin σ) (Real.cos σ) (Real.sin (σ + ι)) (Real.cos (σ + ι))
      ⟨ρ * Real.cos φ, ρ * Real.sin φ, z⟩ = true := by
  unfold inWedge
  num_simp
  have e1 : Real.cos σ * (ρ * Real.sin φ) - Real.sin σ * (ρ * Real.cos φ) = ρ * Real.sin (φ - σ) := by
    rw [Real.sin_sub]; ring
  have e2 : Real.sin (σ + ι) * (ρ * Real.cos φ) - Real.cos (σ + ι) * (ρ * Real.sin φ)
      = ρ * Real.sin (σ + ι - φ) := by
    rw [Real.sin_sub]; ring
  rw [e1, e2]
  exact ⟨mul_nonneg hρ (Real.sin_nonneg_of_nonneg_of_le_pi (by linarith) (by linarith)),
    mul_nonneg hρ (Real.sin_nonneg_of_nonneg_of_le_pi (by linarith) (by linarith))⟩

end CelerVerif.Solids
