/-
C10 helper lemmas, part 9: the closure of the empty tree under the operations production code
calls (`CsgUnitBuilder::insert_csg` → `CsgTree::insert`, `insert_volume`,
`replace_and_simplify` in `UnitProto::build`; plus the public whole-tree `simplify(tree, start)`
and `transform_negated_joins`).  Raw `exchange` and single-node `simplify` are excluded.

`Reach t C V M`: `t` is reachable; `C σ` says `σ` is consistent with every replaced constant so
far; `V σ i` is the intended value of node id `i`; `M σ` is the list of the values the volumes
had when they were declared.  Main result `reach_good`: for every admissible `σ`, `V σ` is a
model of `t` (with sound dedup map) and the volumes still have their declared values.  No
ordering hypothesis: the topological order is NOT an invariant of reachable trees
(`replace_twice_breaks_order`).
-/
import CelerVerif.Lemmas.CsgDeMorganD
import CelerVerif.Lemmas.CsgPostfix

namespace CelerVerif.Csg

abbrev Sense := Nat → Bool

inductive Reach : Tree → (Sense → Prop) → (Sense → Nat → Bool) → (Sense → List Bool) → Prop
  | empty : Reach Tree.empty (fun _ => True) (fun σ => denote Tree.empty σ) (fun _ => [])
  | insert {t C V M} (n : Node) : Reach t C V M → (∀ c ∈ n.children, c < t.size) →
      t.size < invalid →
      Reach (insert t n).1 C (fun σ i => if i = t.size then evalNode σ (V σ) n else V σ i) M
  | volume {t C V M} (n : Nat) : Reach t C V M → n < t.size →
      Reach (t.insertVolume n) C V (fun σ => M σ ++ [V σ n])
  | simplify {t t' C V M} (start : Nat) : Reach t C V M → 2 ≤ start →
      simplifyAll t start = some t' → Reach t' C V M
  | replace {t t' C V M} (key : Nat) (value : Bool) (unk : List Nat) : Reach t C V M →
      key < t.size → replaceAndSimplify t key value = .ok t' unk →
      Reach t' (fun σ => C σ ∧ V σ key = value) V M
  | demorgan {t t' C V M} : Reach t C V M → DMPre t → Sorted t → 3 * t.size + 2 ≤ invalid →
      transformNegatedJoins t = .ok t' → Reach t' C (fun σ => denote t' σ) M

/-- `Good` does not mention the volume list, and only looks at values of ids below the size -/
theorem good_congr {a b : Tree} {σ : Sense} {v v' : Nat → Bool} (hn : a.nodes = b.nodes)
    (hi : a.ids = b.ids) (hv : ∀ i, i < b.size → v i = v' i) (g : Good b σ v) : Good a σ v' := by
  rcases a with ⟨an, ai, av⟩
  rcases b with ⟨bn, bi, bv⟩
  simp only at hn hi
  subst hn; subst hi
  have s := g.struct
  refine ⟨⟨s.base0, s.base1, s.size2, s.small, s.closed, s.idsRange, s.keysClosed⟩, ?_, ?_⟩
  · intro i hi'
    have h1 := g.models i hi'
    rw [← hv i hi', h1]
    exact evalNode_congr fun c hc => hv c (s.closed i hi' c hc)
  · exact mapSound_congr (t := ⟨an, ai, bv⟩) s hv g.map

structure ReachOk (t : Tree) (σ : Sense) (v : Nat → Bool) (m : List Bool) : Prop where
  good : Good t σ v
  volRange : ∀ x ∈ t.volumes, x < t.size
  volVals : t.volumes.map v = m

/-- ★ every reachable tree, for every sense assignment consistent with the replaced constants:
    the intended values form a model, the dedup map is sound, volumes keep their declared values -/
theorem reach_good {t : Tree} {C : Sense → Prop} {V : Sense → Nat → Bool} {M : Sense → List Bool}
    (h : Reach t C V M) : ∀ σ, C σ → ReachOk t σ (V σ) (M σ) := by
  induction h with
  | empty =>
    intro σ _
    exact ⟨empty_good σ, fun x hx => by simp [Tree.empty] at hx, rfl⟩
  | @insert t C V M n _ hn hsmall ih =>
    intro σ hc
    have ok := ih σ hc
    have g := ok.good
    have hagree : ∀ i, i < t.size →
        (V σ i) = (if i = t.size then evalNode σ (V σ) n else V σ i) := by
      intro i hi; rw [if_neg (by omega)]
    have hvol : (insert t n).1.volumes = t.volumes := insert_volumes t n
    refine ⟨?_, ?_, ?_⟩
    · rcases insert_spec t n with ⟨a, _, _, h⟩ | ⟨id, _, h⟩ | ⟨_, h⟩
      · rw [h]; exact good_congr rfl rfl hagree g
      · rw [h]; exact good_congr rfl rfl hagree g
      · rw [h]
        have hch := simplified_children_lt g.struct n hn
        have gp := good_push g hch hsmall
        have hval := simplified_sound g.models g.struct n hn
        have : (fun i => if i = t.size then evalNode σ (V σ) (simplified t n) else V σ i)
            = (fun i => if i = t.size then evalNode σ (V σ) n else V σ i) := by
          funext i; rw [hval]
        rw [this] at gp
        exact gp
    · intro x hx
      rw [hvol] at hx
      exact Nat.lt_of_lt_of_le (ok.volRange x hx) (insert_size_le t n).1
    · rw [hvol, ← ok.volVals]
      apply List.map_congr_left
      intro x hx
      exact (hagree x (ok.volRange x hx)).symm
  | @volume t C V M n _ hn ih =>
    intro σ hc
    have ok := ih σ hc
    refine ⟨good_congr (b := t) rfl rfl (fun _ _ => rfl) ok.good, ?_, ?_⟩
    · intro x hx
      simp only [Tree.insertVolume, List.mem_append, List.mem_singleton] at hx
      rcases hx with hx | rfl
      · exact ok.volRange x hx
      · exact hn
    · simp only [Tree.insertVolume, List.map_append, List.map_cons, List.map_nil, ok.volVals]
  | @simplify t t' C V M start _ h2 hs ih =>
    intro σ hc
    have ok := ih σ hc
    rcases simplifyAllFuel_good _ t start t' ok.good (Or.inr h2) hs with ⟨g', hsz, hvol⟩
    exact ⟨g', by rw [hvol, hsz]; exact ok.volRange, by rw [hvol]; exact ok.volVals⟩
  | @replace t t' C V M key value unk _ hkey hr ih =>
    intro σ hc
    have ok := ih σ hc.1
    have := replaceAndSimplify_good ok.good hkey value hc.2
    rw [hr] at this
    rcases this with ⟨g', hsz, hvol⟩
    exact ⟨g', by rw [hvol, hsz]; exact ok.volRange, by rw [hvol]; exact ok.volVals⟩
  | @demorgan t t' C V M _ pre hso hsmall hd ih =>
    intro σ hc
    have ok := ih σ hc
    rcases transformNegatedJoins_sound' pre ok.good.struct hso hsmall hd with
      ⟨hinv, hlen, hvals, _, hrange⟩
    have hV : ∀ i, i < t.size → V σ i = denote t σ i := models_unique hso ok.good.models
    refine ⟨hinv.good σ, ?_, ?_⟩
    · exact hrange
    · rw [← ok.volVals]
      apply List.ext_getElem
      · simp [hlen]
      · intro k h1 h2
        simp only [List.getElem_map]
        have hk : k < t.volumes.length := by simpa using h2
        have hk' : k < t'.volumes.length := by simpa using h1
        rw [hvals k hk hk' σ, hV _ (ok.volRange _ (List.getElem_mem hk))]

end CelerVerif.Csg
