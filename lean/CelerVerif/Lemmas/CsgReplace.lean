/-
C10 helper lemmas, part 4: `replace_and_simplify` / `NodeReplacer`.  Under the assumption that
the replaced node really has the replacement value (`v key = value`) every "known" entry of the
replacer state is a true fact about `v`, no contradiction is raised, and the tree keeps `v` as a
model.
-/
import CelerVerif.Lemmas.CsgDenote

namespace CelerVerif.Csg
open CelerVerif.Generated.Csg

/-- every known state is a fact about `v` -/
def ReplSound (st : List Nat) (v : Nat → Bool) : Prop :=
  ∀ n, (st.getD n 0 = 3 → v n = true) ∧ (st.getD n 0 = 2 → v n = false)

theorem getD_set_eq (st : List Nat) (n m x : Nat) :
    (st.set n x).getD m 0 = if m = n ∧ n < st.length then x else st.getD m 0 := by
  simp only [List.getD_eq_getElem?_getD, List.getElem?_set]
  by_cases h : n = m
  · subst h
    by_cases h2 : n < st.length
    · simp [h2]
    · simp [h2]
  · have : ¬ m = n := fun e => h e.symm
    simp [h, this]

theorem replUpdate_sound {st : List Nat} {v : Nat → Bool} (hs : ReplSound st v) (n repl : Nat)
    (ht : repl = 3 → v n = true) (hf : repl = 2 → v n = false) :
    ∃ st' u, replUpdate st n repl = some (st', u) ∧ ReplSound st' v := by
  unfold replUpdate
  simp only [show replUnvisited = 0 from rfl, show replKnownTrue = 3 from rfl,
    show replKnownFalse = 2 from rfl]
  split
  · rename_i h
    exfalso
    rcases h with ⟨h1, h2⟩ | ⟨h1, h2⟩
    · have := (hs n).1 h1; rw [hf h2] at this; cases this
    · have := (hs n).2 h1; rw [ht h2] at this; cases this
  · split
    · refine ⟨_, _, rfl, ?_⟩
      intro m
      rw [getD_set_eq]
      split
      · rename_i hm; rw [hm.1]; exact ⟨ht, hf⟩
      · exact hs m
    · exact ⟨_, _, rfl, hs⟩

theorem replUpdateList_sound {v : Nat → Bool} (repl : Nat) : ∀ (ds : List Nat) (st : List Nat)
    (upd : Bool), ReplSound st v → (repl = 3 → ∀ d ∈ ds, v d = true) →
    (repl = 2 → ∀ d ∈ ds, v d = false) →
    ∃ st' u, replUpdateList st repl ds upd = some (st', u) ∧ ReplSound st' v := by
  intro ds
  induction ds with
  | nil => intro st upd hs _ _; exact ⟨_, _, rfl, hs⟩
  | cons d ds ih =>
    intro st upd hs ht hf
    unfold replUpdateList
    rcases replUpdate_sound hs d repl (fun h => ht h d (by simp)) (fun h => hf h d (by simp))
      with ⟨st1, u1, h1, hs1⟩
    rw [h1]
    exact ih st1 _ hs1 (fun h x hx => ht h x (List.mem_cons_of_mem _ hx))
      (fun h x hx => hf h x (List.mem_cons_of_mem _ hx))

theorem replVisit_sound {t : Tree} {σ v : Nat → Bool} (hm : Models t σ v) {st : List Nat}
    (hs : ReplSound st v) {n : Nat} (hn : n < t.size) :
    ∃ st' u, replVisit st n (t.get n) = some (st', u) ∧ ReplSound st' v := by
  have hv := hm n hn
  have hst := hs n
  unfold replVisit
  simp only [show replUnvisited = 0 from rfl, show replKnownTrue = 3 from rfl,
    show replKnownFalse = 2 from rfl, show replUnknown = 1 from rfl]
  cases hg : t.get n with
  | tru => exact ⟨_, _, rfl, hs⟩
  | fls => exact ⟨_, _, rfl, hs⟩
  | surface k => exact ⟨_, _, rfl, hs⟩
  | aliased a =>
    rw [hg] at hv
    apply replUpdate_sound hs
    · intro h; rw [← hst.1 h]; exact hv.symm
    · intro h; rw [← hst.2 h]; exact hv.symm
  | negated a =>
    rw [hg] at hv
    simp only [evalNode] at hv
    apply replUpdate_sound hs
    · intro h
      split at h
      · rename_i h2; have := hst.2 h2; rw [hv] at this; simpa using this
      · split at h
        · cases h
        · rename_i h1 h2; exact absurd h h2
    · intro h
      split at h
      · cases h
      · split at h
        · rename_i h1 h2; have := hst.1 h2; rw [hv] at this; simpa using this
        · rename_i h1 h2; exact absurd h h1
  | joined op ns =>
    rw [hg] at hv
    apply replUpdateList_sound _ ns st false hs
    · intro h d hd
      split at h
      · cases h
      · rename_i hcond
        have hn3 := hst.1 h
        cases op with
        | and => rw [hv] at hn3; simp only [evalNode, List.all_eq_true] at hn3; exact hn3 d hd
        | or => exact absurd (Or.inl ⟨h, rfl⟩) hcond
    · intro h d hd
      split at h
      · cases h
      · rename_i hcond
        have hn2 := hst.2 h
        cases op with
        | and => exact absurd (Or.inr ⟨h, rfl⟩) hcond
        | or =>
          rw [hv] at hn2; simp only [evalNode] at hn2
          cases hvd : v d with
          | false => rfl
          | true =>
            have : ns.any v = true := List.any_eq_true.2 ⟨d, hd, hvd⟩
            rw [hn2] at this; cases this

theorem replBackward_sound {t : Tree} {σ v : Nat → Bool} (hm : Models t σ v) :
    ∀ (cnt : Nat) (st : List Nat) (upd : Bool), ReplSound st v → cnt + 1 < t.size →
    ∃ st' u, replBackward t cnt st upd = some (st', u) ∧ ReplSound st' v := by
  intro cnt
  induction cnt with
  | zero => intro st upd hs _; exact ⟨_, _, rfl, hs⟩
  | succ k ih =>
    intro st upd hs hlt
    unfold replBackward
    rcases replVisit_sound hm hs (n := k + 2) (by omega) with ⟨st1, u1, h1, hs1⟩
    simp only [h1]
    exact ih st1 _ hs1 (by omega)

/-- invariant of the forward loops: tree good, same size and volumes as the start tree -/
structure Same (t0 t : Tree) (σ v : Nat → Bool) : Prop where
  good : Good t σ v
  size : t.size = t0.size
  vols : t.volumes = t0.volumes

theorem exchange_const_same {t0 t σ v} (h : Same t0 t σ v) {n : Nat} (h2 : 2 ≤ n)
    (hn : n < t.size) (b : Bool) (hb : v n = b) :
    Same t0 (exchange t n (if b then .tru else .fls)).1 σ v := by
  have hch : ∀ c ∈ (if b then Node.tru else Node.fls).children, c < t.size := by
    cases b <;> simp [Node.children]
  have heq : evalNode σ v (if b then Node.tru else Node.fls) = v n := by
    cases b <;> simp [evalNode, hb]
  have := exchange_models h.good.struct h.good.models h.good.map hn hch heq
  exact ⟨⟨exchange_struct h.good.struct h2 hn hch, this.1, this.2⟩,
    by rw [exchange_size, h.size], by rw [exchange_volumes, h.vols]⟩

theorem simplifyAt_same {t0 t σ v} (h : Same t0 t σ v) {n : Nat} (h2 : 2 ≤ n) (hn : n < t.size) :
    Same t0 (simplifyAt t n).1 σ v :=
  ⟨simplifyAt_good h.good h2 hn, by rw [simplifyAt_size, h.size], by rw [simplifyAt_volumes, h.vols]⟩

theorem replForward_succ (st : List Nat) (cnt n : Nat) (t : Tree) (maxNode : Nat) (sb : Bool) :
    replForward st (cnt + 1) n t maxNode sb =
      if (st.getD n 0 = 3 ∨ st.getD n 0 = 2) ∧ isSurface (t.get n) = true then
        replForward st cnt (n + 1)
          (exchange t n (if st.getD n 0 = 3 then .tru else .fls)).1 (max maxNode n) sb
      else if (simplifyAt t n).2.isSome = true then
        replForward st cnt (n + 1) (simplifyAt t n).1 (max maxNode n) true
      else replForward st cnt (n + 1) (simplifyAt t n).1 maxNode sb := rfl

theorem replForward_sound {t0 : Tree} {σ v : Nat → Bool} {st : List Nat} (hs : ReplSound st v) :
    ∀ (cnt n : Nat) (t : Tree) (maxNode : Nat) (sb : Bool), Same t0 t σ v → 2 ≤ n →
    n + cnt ≤ t.size → Same t0 (replForward st cnt n t maxNode sb).1 σ v := by
  intro cnt
  induction cnt with
  | zero => intro n t maxNode sb h _ _; exact h
  | succ k ih =>
    intro n t maxNode sb h h2 hle
    have hn : n < t.size := by omega
    rw [replForward_succ]
    by_cases hc : (st.getD n 0 = 3 ∨ st.getD n 0 = 2) ∧ isSurface (t.get n) = true
    · rw [if_pos hc]
      have hb : v n = decide (st.getD n 0 = 3) := by
        rcases hc.1 with h3 | h2'
        · rw [(hs n).1 h3, h3]; rfl
        · rw [(hs n).2 h2', h2']; rfl
      have hx := exchange_const_same h h2 hn _ hb
      have he : (if decide (st.getD n 0 = 3) = true then Node.tru else Node.fls)
          = (if st.getD n 0 = 3 then Node.tru else Node.fls) := by
        by_cases h3 : st.getD n 0 = 3 <;> simp [h3]
      rw [he] at hx
      exact ih (n + 1) _ _ _ hx (by omega) (by rw [hx.size, ← h.size]; omega)
    · rw [if_neg hc]
      have hx := simplifyAt_same h h2 hn
      split
      · exact ih (n + 1) _ _ _ hx (by omega) (by rw [hx.size, ← h.size]; omega)
      · exact ih (n + 1) _ _ _ hx (by omega) (by rw [hx.size, ← h.size]; omega)

theorem replForward_max (st : List Nat) : ∀ (cnt n : Nat) (t : Tree) (m : Nat) (sb : Bool),
    m < n + cnt → (replForward st cnt n t m sb).2.1 < n + cnt := by
  intro cnt
  induction cnt with
  | zero => intro n t m sb hm; simpa [replForward] using hm
  | succ c ihc =>
    intro n t m sb hm
    rw [replForward_succ]
    split
    · have := ihc (n + 1) (exchange t n (if st.getD n 0 = 3 then .tru else .fls)).1 (max m n) sb (by omega); omega
    · split
      · have := ihc (n + 1) (simplifyAt t n).1 (max m n) true (by omega); omega
      · have := ihc (n + 1) (simplifyAt t n).1 m sb (by omega); omega

theorem replLoop_sound {t0 : Tree} {σ v : Nat → Bool} :
    ∀ (f : Nat) (t : Tree) (st : List Nat) (maxNode : Nat), Same t0 t σ v → ReplSound st v →
    maxNode < t.size →
    match replLoop f t st maxNode with
    | .done t' st' => Same t0 t' σ v ∧ ReplSound st' v
    | .contradiction _ => False
    | .outOfFuel _ => True := by
  intro f
  induction f with
  | zero => intro t st maxNode _ _ _; simp [replLoop]
  | succ k ih =>
    intro t st maxNode h hs hmax
    unfold replLoop
    rcases replBackward_sound h.good.models (maxNode - 1) st false hs
      (by have := h.good.struct.size2; omega) with ⟨st1, u1, h1, hs1⟩
    simp only [h1]
    have hsz2 := h.good.struct.size2
    have hf := replForward_sound (t0 := t0) (σ := σ) hs1 (t.size - 2) 2 t maxNode u1 h
      (Nat.le_refl _) (by omega)
    have hmb := replForward_max st1 (t.size - 2) 2 t maxNode u1 (by omega)
    generalize replForward st1 (t.size - 2) 2 t maxNode u1 = r at hf hmb
    rcases r with ⟨t', maxNode', sb⟩
    simp only at hf hmb ⊢
    by_cases hsb : sb = true
    · rw [if_pos hsb]
      exact ih t' st1 maxNode' hf hs1 (by rw [hf.size, ← h.size]; omega)
    · rw [if_neg hsb]
      exact ⟨hf, hs1⟩

theorem replFinal_succ (st : List Nat) (cnt n : Nat) (t : Tree) (unk : List Nat) :
    replFinal st (cnt + 1) n t unk =
      if isSurface (t.get n) = true then
        replFinal st cnt (n + 1) t (if st.getD n 0 = 1 then unk ++ [n] else unk)
      else if st.getD n 0 = 3 then replFinal st cnt (n + 1) (exchange t n .tru).1 unk
      else if st.getD n 0 = 2 then replFinal st cnt (n + 1) (exchange t n .fls).1 unk
      else replFinal st cnt (n + 1) (simplifyAt t n).1 unk := rfl

theorem replFinal_sound {t0 : Tree} {σ v : Nat → Bool} {st : List Nat} (hs : ReplSound st v) :
    ∀ (cnt n : Nat) (t : Tree) (unk : List Nat), Same t0 t σ v → 2 ≤ n →
    n + cnt ≤ t.size → Same t0 (replFinal st cnt n t unk).1 σ v := by
  intro cnt
  induction cnt with
  | zero => intro n t unk h _ _; exact h
  | succ k ih =>
    intro n t unk h h2 hle
    have hn : n < t.size := by omega
    rw [replFinal_succ]
    split
    · exact ih (n + 1) t _ h (by omega) (by omega)
    · split
      · rename_i h3
        have hx : Same t0 (exchange t n .tru).1 σ v := exchange_const_same h h2 hn true ((hs n).1 h3)
        exact ih (n + 1) _ _ hx (by omega) (by rw [hx.size, ← h.size]; omega)
      · split
        · rename_i h3
          have hx : Same t0 (exchange t n .fls).1 σ v := exchange_const_same h h2 hn false ((hs n).2 h3)
          exact ih (n + 1) _ _ hx (by omega) (by rw [hx.size, ← h.size]; omega)
        · have hx := simplifyAt_same h h2 hn
          exact ih (n + 1) _ _ hx (by omega) (by rw [hx.size, ← h.size]; omega)

theorem replInit_sound {t : Tree} {σ v : Nat → Bool} (g : Good t σ v) (key : Nat) (value : Bool)
    (hk : v key = value) : ReplSound (replInit t key value) v := by
  have hv0 := g.models.v0 g.struct
  have hv1 := g.models.v1 g.struct
  intro n
  unfold replInit
  simp only [show replUnvisited = 0 from rfl, show replKnownTrue = 3 from rfl,
    show replKnownFalse = 2 from rfl]
  rw [getD_set_eq]
  split
  · rename_i h
    rw [h.1]
    cases value <;> simp [hk]
  · rw [getD_set_eq]
    split
    · rename_i h; rw [h.1]; simp [hv1]
    · rw [getD_set_eq]
      split
      · rename_i h; rw [h.1]; simp [hv0]
      · have : (List.replicate t.size 0).getD n 0 = 0 := by
          simp [List.getD_eq_getElem?_getD, List.getElem?_replicate]
          split <;> rfl
        rw [this]; simp

/-- `replace_and_simplify` under the assumption `v key = value` -/
theorem replaceAndSimplify_good {t : Tree} {σ v : Nat → Bool} (g : Good t σ v) {key : Nat}
    (hkey : key < t.size) (value : Bool) (hk : v key = value) :
    match replaceAndSimplify t key value with
    | .ok t' _ => Good t' σ v ∧ t'.size = t.size ∧ t'.volumes = t.volumes
    | .contradiction _ => False
    | .outOfFuel _ => True := by
  unfold replaceAndSimplify
  have h0 : Same t t σ v := ⟨g, rfl, rfl⟩
  have hl := replLoop_sound (sweepBudget t) t (replInit t key value) key h0
    (replInit_sound g key value hk) hkey
  generalize replLoop (sweepBudget t) t (replInit t key value) key = r at hl
  cases r with
  | contradiction t' => exact hl
  | outOfFuel t' => trivial
  | done t' st =>
    simp only at hl ⊢
    have hsz2 := hl.1.good.struct.size2
    have hf := replFinal_sound (t0 := t) (σ := σ) hl.2 (t'.size - 2) 2 t' [] hl.1 (Nat.le_refl _)
      (by omega)
    generalize replFinal st (t'.size - 2) 2 t' [] = r2 at hf
    rcases r2 with ⟨t'', unk⟩
    exact ⟨hf.good, hf.size, hf.vols⟩

end CelerVerif.Csg
