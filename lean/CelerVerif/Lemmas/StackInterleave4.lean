/- Interleaving semantics: the fetch-add step (C16). -/
import CelerVerif.Lemmas.StackInterleave3

namespace CelerVerif.Stack

theorem no_over_of_sumO_zero {cap : Nat} {l : List Thread} (h : sumO cap l = 0) :
    ∀ t ∈ l, overB cap t = false := by
  intro t ht
  have := sum_map_zero (oOf cap) l h t ht
  unfold oOf at this
  cases h2 : overB cap t
  · rfl
  · rw [h2] at this; simp at this

theorem iinv_fetch {base cap tot : Nat} {s : Sys} (hI : IInv base cap tot s)
    (hW : base + tot < W) (i : Nat) (hi : i < s.threads.length)
    (hpc : (s.threads[i]).pc = .init) :
    IInv base cap tot ⟨s.cap, (s.size + (s.threads[i]).n) % W,
      s.threads.set i ⟨(s.threads[i]).n, .fetched s.size⟩⟩ := by
  obtain ⟨e1, e2, e3, e4⟩ := sums_set cap s.threads i hi
    ⟨(s.threads[i]).n, .fetched s.size⟩
  have hf0 : fOf s.threads[i] = 0 := by simp [fOf, hpc]
  have hg0 : gOf cap s.threads[i] = 0 := by simp [gOf, committedB, hpc]
  have ho0 : oOf cap s.threads[i] = 0 := by simp [oOf, overB, hpc]
  have hf1 : fOf ⟨(s.threads[i]).n, .fetched s.size⟩ = (s.threads[i]).n := by simp [fOf]
  have hst : startOf ⟨(s.threads[i]).n, .fetched s.size⟩ = s.size := by simp [startOf]
  have hT : total (s.threads.set i ⟨(s.threads[i]).n, .fetched s.size⟩) = tot := by
    rw [← hI.tot_eq]; simp only at e4; omega
  have hFT := sumF_le_total (s.threads.set i ⟨(s.threads[i]).n, .fetched s.size⟩)
  have hGF := sumG_le_sumF cap s.threads
  have hsl := hI.size_le
  have hmod : (s.size + (s.threads[i]).n) % W = s.size + (s.threads[i]).n := by
    apply Nat.mod_eq_of_lt; omega
  rw [hmod]
  have hll := hI.l_le
  rcases hI.mode with ⟨hsz, hO⟩ | ⟨hsz, hO⟩
  · by_cases hfit : s.size + (s.threads[i]).n ≤ cap
    · -- granted
      have hc1 : committedB cap ⟨(s.threads[i]).n, .fetched s.size⟩ = true := by
        simp [committedB, hfit]
      have ho1 : overB cap ⟨(s.threads[i]).n, .fetched s.size⟩ = false := by
        simp [overB]; omega
      have hg1 : gOf cap ⟨(s.threads[i]).n, .fetched s.size⟩ = (s.threads[i]).n := by
        simp [gOf, hc1]
      have ho1' : oOf cap ⟨(s.threads[i]).n, .fetched s.size⟩ = 0 := by simp [oOf, ho1]
      apply iinv_replace hI i hi ⟨(s.threads[i]).n, .fetched s.size⟩ (s.size + (s.threads[i]).n) rfl
        (by omega) (by omega) (by omega)
      · intro a ha; simp at ha; subst ha; simp only; omega
      · intro _; rw [hst]; simp only; omega
      · intro _ b tb _ hb hcb
        have := hI.range tb (List.mem_of_getElem? hb) hcb
        rw [hst]; left; omega
      · omega
      · intro t ht hot
        rcases List.mem_or_eq_of_mem_set ht with h | h
        · have := no_over_of_sumO_zero hO t h; rw [this] at hot; cases hot
        · subst h; rw [ho1] at hot; cases hot
      · left; constructor <;> omega
    · -- first to exceed the capacity
      have hc1 : committedB cap ⟨(s.threads[i]).n, .fetched s.size⟩ = false := by
        simp [committedB]; omega
      have ho1 : overB cap ⟨(s.threads[i]).n, .fetched s.size⟩ = true := by
        simp [overB]; omega
      have hg1 : gOf cap ⟨(s.threads[i]).n, .fetched s.size⟩ = 0 := by simp [gOf, hc1]
      have ho1' : oOf cap ⟨(s.threads[i]).n, .fetched s.size⟩ = 1 := by simp [oOf, ho1]
      apply iinv_replace hI i hi ⟨(s.threads[i]).n, .fetched s.size⟩ (s.size + (s.threads[i]).n) rfl
        (by omega) (by omega) (by omega)
      · intro a ha; simp at ha; subst ha; simp only; omega
      · intro h; rw [hc1] at h; cases h
      · intro h; rw [hc1] at h; cases h
      · omega
      · intro t ht hot
        rcases List.mem_or_eq_of_mem_set ht with h | h
        · have := no_over_of_sumO_zero hO t h; rw [this] at hot; cases hot
        · subst h; rw [hst]; omega
      · right; constructor <;> omega
  · -- somebody else already exceeded the capacity
    have hc1 : committedB cap ⟨(s.threads[i]).n, .fetched s.size⟩ = false := by
      simp [committedB]; omega
    have ho1 : overB cap ⟨(s.threads[i]).n, .fetched s.size⟩ = false := by
      simp [overB]; omega
    have hg1 : gOf cap ⟨(s.threads[i]).n, .fetched s.size⟩ = 0 := by simp [gOf, hc1]
    have ho1' : oOf cap ⟨(s.threads[i]).n, .fetched s.size⟩ = 0 := by simp [oOf, ho1]
    apply iinv_replace hI i hi ⟨(s.threads[i]).n, .fetched s.size⟩ (s.size + (s.threads[i]).n) rfl
        (by omega) (by omega) (by omega)
    · intro a ha; simp at ha; subst ha; simp only; omega
    · intro h; rw [hc1] at h; cases h
    · intro h; rw [hc1] at h; cases h
    · omega
    · intro t ht hot
      rcases List.mem_or_eq_of_mem_set ht with h | h
      · have := hI.over_start t h hot; omega
      · subst h; rw [ho1] at hot; cases hot
    · right; constructor <;> omega

end CelerVerif.Stack
