/-
C19 helper lemmas, part 1: accessors, numbers, labels, bounding boxes, transforms, tolerances.
(No Mathlib needed.)
-/
import CelerVerif.Model.OrangeIO

namespace CelerVerif.OrangeIO
open CelerVerif.Json

@[simp] theorem bindR_ok {α β : Type} (a : α) (f : α → R β) : bindR (.ok a) f = f a := rfl
@[simp] theorem bindR_error {α β : Type} (e : Err) (f : α → R β) :
    bindR (.error e) f = .error e := rfl
@[simp] theorem validate_true : validate true = .ok () := rfl

theorem mapE_map {α β : Type} (f : Json → R β) (enc : α → Json) (g : α → β) (xs : List α)
    (h : ∀ x ∈ xs, f (enc x) = .ok (g x)) : mapE f (xs.map enc) = .ok (xs.map g) := by
  induction xs with
  | nil => rfl
  | cons x xs ih =>
    have hx := h x (by simp)
    have hxs := ih (fun y hy => h y (by simp [hy]))
    simp [mapE, hx, hxs]

theorem mapE_map_id {α : Type} (f : Json → R α) (enc : α → Json) (xs : List α)
    (h : ∀ x ∈ xs, f (enc x) = .ok x) : mapE f (xs.map enc) = .ok xs := by
  have := mapE_map f enc id xs (by simpa using h)
  simpa using this

/-! ### objects -/

@[simp] theorem find_obj (kvs : List (String × Json)) (k : String) :
    (Json.obj kvs).find? k = lookup k kvs := rfl

@[simp] theorem lookup_nil (k : String) : lookup k [] = none := rfl
@[simp] theorem lookup_cons (k k' : String) (v : Json) (rest : List (String × Json)) :
    lookup k ((k', v) :: rest) = if k' = k then some v else lookup k rest := rfl

theorem lookup_append (k : String) (a b : List (String × Json)) :
    lookup k (a ++ b) = match lookup k a with
      | some v => some v
      | none => lookup k b := by
  induction a with
  | nil => simp
  | cons kv a ih =>
    obtain ⟨k', v⟩ := kv
    by_cases h : k' = k <;> simp [h, ih]

@[simp] theorem lookup_optKey (k k' : String) (c : Bool) (v : Json) :
    lookup k (optKey c k' v) = if c = true ∧ k' = k then some v else none := by
  cases c <;> simp [optKey]

@[simp] theorem atKey_obj (kvs : List (String × Json)) (k : String) :
    (Json.obj kvs).atKey k = match lookup k kvs with
      | some v => .ok v
      | none => .error .json := rfl

/-! ### numbers -/

theorem getU64_u64 (n : UInt64) : (u64 n).getU64 = .ok n := by
  simp only [u64, Json.getU64]
  have h := n.toNat_lt
  have : ((Int.ofNat n.toNat) % 18446744073709551616).toNat = n.toNat := by
    simp only [Int.ofNat_eq_natCast]
    omega
  rw [this]; simp

theorem getU64List_u64 (xs : List UInt64) : (Json.arr (xs.map u64)).getU64List = .ok xs := by
  simp only [Json.getU64List, Json.getArr]
  exact mapE_map_id _ _ _ (fun x _ => getU64_u64 x)

theorem getRealList_num (num : F64 → Json) (xs : List F64) (h : ∀ b ∈ xs, num b = .dbl b) :
    (Json.arr (xs.map num)).getRealList = .ok xs := by
  simp only [Json.getRealList, Json.getArr]
  exact mapE_map_id _ _ _ (fun x hx => by rw [h x hx]; rfl)

theorem getStrList_str (xs : List String) :
    (Json.arr (xs.map Json.str)).getStrList = .ok xs := by
  simp only [Json.getStrList, Json.getArr]
  exact mapE_map_id _ _ _ (fun x _ => rfl)

/-! ### labels -/

theorem splitLast_none (cs : List Char) (sep : Char) (h : sep ∉ cs) : splitLast sep cs = none := by
  induction cs with
  | nil => rfl
  | cons c cs ih =>
    simp only [List.mem_cons, not_or] at h
    simp [splitLast, ih h.2, Ne.symm h.1]

theorem splitLast_append (a b : List Char) (sep : Char) (h : sep ∉ b) :
    splitLast sep (a ++ sep :: b) = some (a, b) := by
  induction a with
  | nil => simp [splitLast, splitLast_none b sep h]
  | cons c cs ih => simp [splitLast, ih]

/-- what `to_string` / `from_separator` need of a label -/
def Label.Valid (l : Label) : Prop :=
  Generated.OrangeIO.labelSep ∉ l.ext.toList ∧
  (l.ext ≠ "" ∨ Generated.OrangeIO.labelSep ∉ l.name.toList)

instance (l : Label) : Decidable l.Valid := by unfold Label.Valid; infer_instance

theorem label_roundtrip (l : Label) (h : l.Valid) : labelFromString (labelToString l) = l := by
  obtain ⟨name, ext⟩ := l
  obtain ⟨h1, h2⟩ := h
  simp only at h1 h2
  unfold labelToString labelFromString
  by_cases he : ext = ""
  · subst he
    have hn : Generated.OrangeIO.labelSep ∉ name.toList := by
      rcases h2 with h2 | h2
      · exact absurd rfl h2
      · exact h2
    simp [splitLast_none _ _ hn]
  · simp only [he, if_false, String.toList_append, String.toList_singleton,
      List.append_assoc, List.singleton_append]
    rw [splitLast_append _ _ _ h1]
    simp

theorem decodeLabel_encodeLabel (l : Label) (h : l.Valid) :
    decodeLabel (encodeLabel l) = .ok l := by
  simp [decodeLabel, encodeLabel, Json.getStr, label_roundtrip l h]

theorem decodeLabels_encode (ls : List Label) (h : ∀ l ∈ ls, l.Valid) :
    decodeLabels (.arr (ls.map encodeLabel)) = .ok ls := by
  simp only [decodeLabels, Json.getArr, bindR_ok]
  exact mapE_map_id _ _ _ (fun l hl => decodeLabel_encodeLabel l (h l hl))

/-! ### doubles as bit patterns -/

def noMax (b : F64) : Prop := b ≠ posMax ∧ b ≠ negMax
instance (b : F64) : Decidable (noMax b) := by unfold noMax; infer_instance

theorem maxToInf_infToMax (c : F64) (h : noMax c) : maxToInf (infToMax c) = c := by
  obtain ⟨h1, h2⟩ := h
  unfold maxToInf infToMax
  by_cases a : c = posInf
  · subst a; decide
  · by_cases b : c = negInf
    · subst b; decide
    · simp [a, b, h1, h2]

theorem isFinite_infToMax (c : F64) (h : isNaN c = false) : isFinite (infToMax c) = true := by
  unfold infToMax
  by_cases a : c = posInf
  · subst a; decide
  · by_cases b : c = negInf
    · subst b; decide
    · simp only [beq_iff_eq, a, b, if_false]
      have hn : ¬ (c.toNat % 9223372036854775808 > 0x7FF0000000000000) := by
        simpa [isNaN, absBits] using h
      have ha : c.toNat ≠ posInf.toNat := fun h => a (UInt64.toNat_inj.mp h)
      have hb : c.toNat ≠ negInf.toNat := fun h => b (UInt64.toNat_inj.mp h)
      have hlt := c.toNat_lt
      have e1 : posInf.toNat = 0x7FF0000000000000 := by decide
      have e2 : negInf.toNat = 0xFFF0000000000000 := by decide
      have goal : c.toNat % 9223372036854775808 < 0x7FF0000000000000 := by omega
      simp only [isFinite, absBits]
      exact decide_eq_true goal

theorem f64le_notNaN {a b : F64} (h : f64le a b = true) : isNaN a = false ∧ isNaN b = false := by
  simp only [f64le, Bool.and_eq_true, Bool.not_eq_true'] at h
  exact ⟨h.1.1, h.1.2⟩

/-! ### bounding boxes -/

def V3.noMax (v : V3) : Prop := OrangeIO.noMax v.x ∧ OrangeIO.noMax v.y ∧ OrangeIO.noMax v.z
instance (v : V3) : Decidable v.noMax := by unfold V3.noMax; infer_instance

/-- a bounding box survives `to_json`/`from_json`: it is the canonical null box, or it is
    non-null (lower <= upper, no NaN) and no coordinate is ±DBL_MAX -/
def BBox.RT (b : BBox) : Prop := b = BBox.null ∨ (b.valid = true ∧ b.lo.noMax ∧ b.hi.noMax)
instance (b : BBox) : Decidable b.RT := by unfold BBox.RT; infer_instance

/-- how `num` (in-memory or through text) treats the doubles that get written -/
structure NumOK (num : F64 → Json) (fin : F64 → Prop) : Prop where
  eq : ∀ b, fin b → num b = .dbl b
  box : ∀ c, isNaN c = false → fin (infToMax c)
  zero : fin 0

theorem numOK_mem : NumOK Json.dbl (fun _ => True) :=
  ⟨fun _ _ => rfl, fun _ _ => trivial, trivial⟩
theorem numOK_text : NumOK numText (fun b => isFinite b = true) :=
  ⟨fun b h => by simp [numText, h], isFinite_infToMax, by decide⟩

theorem null_not_valid : BBox.null.valid = false := by decide

theorem decodeBBox_encodeBBox {num : F64 → Json} {fin : F64 → Prop} (hn : NumOK num fin)
    (b : BBox) (h : b.RT) : decodeBBox (encodeBBox num b) = .ok b := by
  rcases h with h | ⟨hv, hlo, hhi⟩
  · subst h; simp [encodeBBox, null_not_valid, decodeBBox]
  · obtain ⟨⟨lx, ly, lz⟩, ⟨hx, hy, hz⟩⟩ := b
    simp only [BBox.valid, Bool.and_eq_true] at hv
    obtain ⟨⟨vx, vy⟩, vz⟩ := hv
    have nx := f64le_notNaN vx
    have ny := f64le_notNaN vy
    have nz := f64le_notNaN vz
    obtain ⟨l1, l2, l3⟩ := hlo
    obtain ⟨h1, h2, h3⟩ := hhi
    simp only at l1 l2 l3 h1 h2 h3
    simp [encodeBBox, BBox.valid, vx, vy, vz, decodeBBox, encodeV3, V3.map, getArray3, Json.size,
      hn.eq _ (hn.box _ nx.1), hn.eq _ (hn.box _ nx.2), hn.eq _ (hn.box _ ny.1),
      hn.eq _ (hn.box _ ny.2), hn.eq _ (hn.box _ nz.1), hn.eq _ (hn.box _ nz.2),
      Json.getReal, maxToInf_infToMax, l1, l2, l3, h1, h2, h3]

/-! ### transforms -/

def Transform.Fin (fin : F64 → Prop) (t : Transform) : Prop := ∀ b ∈ t.data, fin b
instance (fin : F64 → Prop) [DecidablePred fin] (t : Transform) : Decidable (t.Fin fin) := by
  unfold Transform.Fin; infer_instance

theorem importTransform_export {num : F64 → Json} {fin : F64 → Prop} (hn : NumOK num fin)
    (t : Transform) (h : t.Fin fin) : importTransform (exportTransform num t) = .ok t := by
  unfold importTransform exportTransform
  rw [getRealList_num num t.data (fun b hb => hn.eq b (h b hb))]
  cases t <;> simp [Transform.data, V3.toList, transformOfData]

/-! ### tolerance -/

theorem decodeTol_encodeTol {num : F64 → Json} {fin : F64 → Prop} (hn : NumOK num fin)
    (t : Tol) (hv : t.valid = true) (hf : fin t.rel ∧ fin t.abs) :
    decodeTol (encodeTol num t) = .ok t := by
  obtain ⟨rel, abs⟩ := t
  simp only [Tol.valid, Bool.and_eq_true] at hv
  obtain ⟨⟨h1, h2⟩, h3⟩ := hv
  simp [decodeTol, encodeTol, hn.eq _ hf.1, hn.eq _ hf.2, Json.getReal, h1, h2, h3]

end CelerVerif.OrangeIO
