/-
Closed forms of `CalcSafetyDistance` at ℝ for the surface classes with `simple_safety()`:
planes |n·x − d|, spheres | |x−c| − r |, axis-aligned cylinders | ρ − r |.
-/
import CelerVerif.Lemmas.SafetyBasic
import CelerVerif.Lemmas.SurfIsect

namespace CelerVerif.Safety
open CelerVerif CelerVerif.Surf

theorem mk1 (hb : ℝ) : QSolver.mk' (1 : ℝ) hb = ⟨1, hb⟩ := by
  unfold QSolver.mk'; num_simp; simp

/-- inside a sphere/cylinder of radius² `r2`, at radial distance ρ, looking outward -/
theorem radial_inside (ρ r2 : ℝ) (hρ : 0 ≤ ρ) (h : ρ * ρ - r2 < 0) :
    minElement2 ((⟨1, ρ⟩ : QSolver ℝ).solve (ρ * ρ - r2)) = some (Real.sqrt r2 - ρ) := by
  have hlt : ρ < Real.sqrt r2 := (Real.lt_sqrt hρ).mpr (by rw [sq]; linarith)
  have e : ρ * ρ - (ρ * ρ - r2) * 1 = r2 := by ring
  unfold QSolver.solve
  num_simp
  simp only [e]
  have c1 : (ρ * ρ - r2) * 1 < ρ * ρ := by nlinarith
  rw [if_pos c1]
  have c2 : ¬ (-ρ + Real.sqrt r2 ≤ 0) := by linarith
  have c3 : -ρ - Real.sqrt r2 ≤ 0 := by linarith
  rw [if_neg c2, if_pos c3]
  simp [minElement2, isNaN_real]
  ring

/-- outside, looking inward: the nearer of the two crossings -/
theorem radial_outside (ρ r2 : ℝ) (hρ : 0 < ρ) (hr : 0 ≤ r2) (h : 0 < ρ * ρ - r2) :
    minElement2 ((⟨1, -ρ⟩ : QSolver ℝ).solve (ρ * ρ - r2)) = some (ρ - Real.sqrt r2) := by
  have hlt : Real.sqrt r2 < ρ := (Real.sqrt_lt' hρ).mpr (by rw [sq]; linarith)
  have e : -ρ * -ρ - (ρ * ρ - r2) * 1 = r2 := by ring
  have hs := Real.sqrt_nonneg r2
  unfold QSolver.solve
  num_simp
  simp only [e]
  rcases eq_or_lt_of_le hr with h0 | hpos
  · subst h0
    have c1 : ¬ ((ρ * ρ - 0) * 1 < -ρ * -ρ) := by nlinarith
    have c2 : -ρ * -ρ = (ρ * ρ - 0) * 1 := by ring
    have c3 : ¬ (- -ρ ≤ 0) := by linarith
    rw [if_neg c1, if_pos c2, if_neg c3]
    simp [minElement2]
  · have c1 : (ρ * ρ - r2) * 1 < -ρ * -ρ := by nlinarith
    have c2 : ¬ (- -ρ + Real.sqrt r2 ≤ 0) := by linarith
    have c3 : ¬ (- -ρ - Real.sqrt r2 ≤ 0) := by linarith
    rw [if_pos c1, if_neg c2, if_neg c3]
    simp [minElement2]
    intro h'; linarith

/-- the whole sense-dependent computation for a radial surface: `N` = squared radial distance,
    `hbIn` / `hbOut` = the half-b handed to the solver along the outward / inward unit normal -/
theorem radial_form (N r2 hbIn hbOut : ℝ) (hN : 0 < N) (hr : 0 ≤ r2)
    (hin : hbIn = Real.sqrt N) (hout : hbOut = -Real.sqrt N) :
    (if N - r2 = 0 then some (0 : ℝ)
      else if 0 < N - r2 then minElement2 ((QSolver.mk' (1 : ℝ) hbOut).solve (N - r2))
      else minElement2 ((QSolver.mk' (1 : ℝ) hbIn).solve (N - r2)))
      = some |Real.sqrt N - Real.sqrt r2| := by
  have hρ : 0 < Real.sqrt N := Real.sqrt_pos.mpr hN
  have hρρ : Real.sqrt N * Real.sqrt N = N := Real.mul_self_sqrt (le_of_lt hN)
  subst hin hout
  rw [mk1, mk1]
  rcases lt_trichotomy (N - r2) 0 with h | h | h
  · rw [if_neg (ne_of_lt h), if_neg (not_lt.mpr (le_of_lt h))]
    have := radial_inside (Real.sqrt N) r2 (le_of_lt hρ) (by rw [hρρ]; exact h)
    rw [hρρ] at this
    rw [this]
    have hlt : Real.sqrt N < Real.sqrt r2 := Real.sqrt_lt_sqrt (le_of_lt hN) (by linarith)
    rw [abs_of_neg (by linarith)]; ring_nf
  · rw [if_pos h]
    have : N = r2 := by linarith
    rw [this, sub_self, abs_zero]
  · rw [if_neg (ne_of_gt h), if_pos h]
    have := radial_outside (Real.sqrt N) r2 hρ hr (by rw [hρρ]; exact h)
    rw [hρρ] at this
    rw [this]
    have hlt : Real.sqrt r2 < Real.sqrt N := Real.sqrt_lt_sqrt hr (by linarith)
    rw [abs_of_pos (by linarith)]

/-- `tp·(tp/|tp|) = |tp|` -/
theorem dot_unit3 (a b c : ℝ) (hN : 0 < a * a + b * b + c * c) :
    a * (a * (1 / Real.sqrt (a * a + b * b + c * c)))
      + b * (b * (1 / Real.sqrt (a * a + b * b + c * c)))
      + c * (c * (1 / Real.sqrt (a * a + b * b + c * c))) = Real.sqrt (a * a + b * b + c * c) := by
  have hρ : 0 < Real.sqrt (a * a + b * b + c * c) := Real.sqrt_pos.mpr hN
  have hρρ := Real.mul_self_sqrt (le_of_lt hN)
  have hne : Real.sqrt (a * a + b * b + c * c) ≠ 0 := ne_of_gt hρ
  calc a * (a * (1 / Real.sqrt (a * a + b * b + c * c)))
        + b * (b * (1 / Real.sqrt (a * a + b * b + c * c)))
        + c * (c * (1 / Real.sqrt (a * a + b * b + c * c)))
      = (a * a + b * b + c * c) * (1 / Real.sqrt (a * a + b * b + c * c)) := by ring
    _ = (Real.sqrt (a * a + b * b + c * c) * Real.sqrt (a * a + b * b + c * c))
          * (1 / Real.sqrt (a * a + b * b + c * c)) := by rw [hρρ]
    _ = Real.sqrt (a * a + b * b + c * c) := by field_simp

theorem dot_unit3_neg (a b c : ℝ) (hN : 0 < a * a + b * b + c * c) :
    a * -(a * (1 / Real.sqrt (a * a + b * b + c * c)))
      + b * -(b * (1 / Real.sqrt (a * a + b * b + c * c)))
      + c * -(c * (1 / Real.sqrt (a * a + b * b + c * c))) = -Real.sqrt (a * a + b * b + c * c) := by
  have := dot_unit3 a b c hN
  linarith

theorem safety_sphere_form (o : Vec3 ℝ) (r2 : ℝ) (x : Vec3 ℝ) (hr : 0 ≤ r2)
    (hx : nsq (vsub x o) ≠ 0) :
    calcSafety (.sphere o r2) x = some |nrm (vsub x o) - Real.sqrt r2| := by
  have hN : 0 < (x.x - o.x) * (x.x - o.x) + (x.y - o.y) * (x.y - o.y) + (x.z - o.z) * (x.z - o.z) :=
    lt_of_le_of_ne (nsq_nonneg (vsub x o)) (Ne.symm hx)
  unfold calcSafety
  simp only [simpleSafety, Bool.not_true, Bool.false_eq_true, if_false]
  rw [calcSafetyCore_real]
  simp only [Surface.quadric, Surface.calcNormal, Surface.gradient, makeUnit,
    Surface.calcIntersections, flipDir_real, Bool.not_false, if_true, Vec3.norm, Vec3R.dot_real]
  num_simp
  exact radial_form _ r2 _ _ hN hr (dot_unit3 _ _ _ hN) (dot_unit3_neg _ _ _ hN)

theorem safety_sphereCentered_form (r2 : ℝ) (x : Vec3 ℝ) (hr : 0 ≤ r2) (hx : nsq x ≠ 0) :
    calcSafety (.sphereCentered r2) x = some |nrm x - Real.sqrt r2| := by
  have hN : 0 < x.x * x.x + x.y * x.y + x.z * x.z :=
    lt_of_le_of_ne (nsq_nonneg x) (Ne.symm hx)
  unfold calcSafety
  simp only [simpleSafety, Bool.not_true, Bool.false_eq_true, if_false]
  rw [calcSafetyCore_real]
  simp only [Surface.quadric, Surface.calcNormal, Surface.gradient, makeUnit,
    Surface.calcIntersections, flipDir_real, Bool.not_false, if_true, Vec3.norm, Vec3R.dot_real]
  num_simp
  exact radial_form _ r2 _ _ hN hr (dot_unit3 _ _ _ hN) (dot_unit3_neg _ _ _ hN)

/-- 2-D version, in the association produced by the cylinder classes -/
theorem dot_unit2 (u v : ℝ) (hN : 0 < u * u + v * v) :
    u * (1 / Real.sqrt (u * u + v * v)) * u + v * (1 / Real.sqrt (u * u + v * v)) * v
      = Real.sqrt (u * u + v * v) := by
  have hρ : 0 < Real.sqrt (u * u + v * v) := Real.sqrt_pos.mpr hN
  have hρρ := Real.mul_self_sqrt (le_of_lt hN)
  have hne : Real.sqrt (u * u + v * v) ≠ 0 := ne_of_gt hρ
  calc u * (1 / Real.sqrt (u * u + v * v)) * u + v * (1 / Real.sqrt (u * u + v * v)) * v
      = (u * u + v * v) * (1 / Real.sqrt (u * u + v * v)) := by ring
    _ = (Real.sqrt (u * u + v * v) * Real.sqrt (u * u + v * v))
          * (1 / Real.sqrt (u * u + v * v)) := by rw [hρρ]
    _ = Real.sqrt (u * u + v * v) := by field_simp

theorem dot_unit2_neg (u v : ℝ) (hN : 0 < u * u + v * v) :
    -(u * (1 / Real.sqrt (u * u + v * v))) * u + -(v * (1 / Real.sqrt (u * u + v * v))) * v
      = -Real.sqrt (u * u + v * v) := by
  have := dot_unit2 u v hN
  linarith

theorem tol_lt_one : ¬ ((1 : ℝ) < 1e-10) := by norm_num

/-- squared distance from the axis of a centred cylinder -/
def rho2 (t : Axis) (x : Vec3 ℝ) : ℝ := x.ax t.U * x.ax t.U + x.ax t.V * x.ax t.V

theorem safety_cylCentered_form (t : Axis) (r2 : ℝ) (x : Vec3 ℝ) (hr : 0 ≤ r2)
    (hx : rho2 t x ≠ 0) :
    calcSafety (.cylCentered t r2) x = some |Real.sqrt (rho2 t x) - Real.sqrt r2| := by
  have hN : 0 < rho2 t x := lt_of_le_of_ne
    (by unfold rho2; nlinarith [mul_self_nonneg (x.ax t.U), mul_self_nonneg (x.ax t.V)]) (Ne.symm hx)
  unfold calcSafety
  simp only [simpleSafety, Bool.not_true, Bool.false_eq_true, if_false]
  rw [calcSafetyCore_real]
  cases t <;>
  · simp only [Surface.quadric, Surface.calcNormal, Surface.gradient, makeUnit,
      Surface.calcIntersections, flipDir_real, Vec3.norm, Vec3R.dot_real, sqTol_real]
    unfold rho2 at hN ⊢
    vec_simp at hN ⊢
    num_simp
    simp only [zero_mul, mul_zero, add_zero, zero_add, sub_zero, neg_zero, tol_lt_one, if_false,
      Bool.false_eq_true]
    exact radial_form _ r2 _ _ hN hr (dot_unit2 _ _ hN) (dot_unit2_neg _ _ hN)

/-- squared distance from the axis of an off-centre cylinder -/
def rho2A (t : Axis) (ou ov : ℝ) (x : Vec3 ℝ) : ℝ :=
  (x.ax t.U - ou) * (x.ax t.U - ou) + (x.ax t.V - ov) * (x.ax t.V - ov)

/-- `CylAligned` has `simple_safety() = false` in this code base, so `calcSafety` is 0 for it;
    the gated-off computation would nevertheless be the exact distance -/
theorem core_cylAligned_form (t : Axis) (ou ov r2 : ℝ) (x : Vec3 ℝ) (hr : 0 ≤ r2)
    (hx : rho2A t ou ov x ≠ 0) :
    calcSafetyCore (.cylAligned t ou ov r2) x
      = some |Real.sqrt (rho2A t ou ov x) - Real.sqrt r2| := by
  have hN : 0 < rho2A t ou ov x := lt_of_le_of_ne
    (by unfold rho2A; nlinarith [mul_self_nonneg (x.ax t.U - ou), mul_self_nonneg (x.ax t.V - ov)])
    (Ne.symm hx)
  rw [calcSafetyCore_real]
  cases t <;>
  · simp only [Surface.quadric, Surface.calcNormal, Surface.gradient, makeUnit,
      Surface.calcIntersections, flipDir_real, Vec3.norm, Vec3R.dot_real, sqTol_real]
    unfold rho2A at hN ⊢
    vec_simp at hN ⊢
    num_simp
    simp only [zero_mul, mul_zero, add_zero, zero_add, sub_zero, neg_zero, tol_lt_one, if_false,
      Bool.false_eq_true]
    exact radial_form _ r2 _ _ hN hr (dot_unit2 _ _ hN) (dot_unit2_neg _ _ hN)

/-! ### planes -/

theorem plane_core (q num nd1 nd2 : ℝ) (h1 : nd1 = -1) (h2 : nd2 = 1) (hnum : num = -q) :
    (if q = 0 then some (0 : ℝ)
      else if 0 < q then
        minElement2 (if True ∧ nd1 ≠ 0 then
            if 0 < num / nd1 then (some (num / nd1), none) else (none, none)
          else (none, none))
      else
        minElement2 (if True ∧ nd2 ≠ 0 then
            if 0 < num / nd2 then (some (num / nd2), none) else (none, none)
          else (none, none))) = some |q| := by
  subst h1 h2 hnum
  have e3 : (-1 : ℝ) ≠ 0 := by norm_num
  rcases lt_trichotomy q 0 with h | h | h
  · rw [if_neg (ne_of_lt h), if_neg (not_lt.mpr (le_of_lt h))]
    simp only [not_false_eq_true, one_ne_zero, ne_eq, and_self, if_true, div_one]
    rw [if_pos (by linarith), abs_of_neg h]
    simp [minElement2]
  · rw [if_pos h, h, abs_zero]
  · rw [if_neg (ne_of_gt h), if_pos h]
    simp only [not_false_eq_true, e3, ne_eq, and_self, if_true]
    rw [if_pos (by rw [div_neg, div_one]; linarith), abs_of_pos h]
    simp [minElement2]

theorem safety_planeAligned_form (t : Axis) (p : ℝ) (x : Vec3 ℝ) :
    calcSafety (.planeAligned t p) x = some |x.ax t - p| := by
  unfold calcSafety
  simp only [simpleSafety, Bool.not_true, Bool.false_eq_true, if_false]
  rw [calcSafetyCore_real]
  cases t <;>
  · simp only [Surface.quadric, Surface.calcNormal, Surface.gradient,
      Surface.calcIntersections, flipDir_real, planeIsect]
    vec_simp
    num_simp
    exact plane_core _ _ _ _ rfl rfl (by ring)

theorem safety_plane_form (n : Vec3 ℝ) (d : ℝ) (x : Vec3 ℝ) (hn : nsq n = 1) :
    calcSafety (.plane n d) x = some |rdot n x - d| := by
  unfold nsq at hn
  unfold calcSafety
  simp only [simpleSafety, Bool.not_true, Bool.false_eq_true, if_false]
  rw [calcSafetyCore_real]
  simp only [Surface.quadric, Surface.calcNormal, Surface.gradient,
    Surface.calcIntersections, flipDir_real, planeIsect, Vec3R.dot_real]
  num_simp
  unfold rdot
  exact plane_core _ _ _ _ (by linarith) hn (by ring)

end CelerVerif.Safety
