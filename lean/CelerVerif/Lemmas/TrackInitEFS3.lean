/- ExtendFromSecondaries: specification of the whole action (C02 / C16). -/
import CelerVerif.Lemmas.TrackInitEFS2

namespace CelerVerif.TrackInit

theorem map_range_getD {α β} (l : List α) (d : α) (f : Nat → α → β) :
    (List.range l.length).map (fun i => f i (l.getD i d))
      = (List.range l.length).map (fun i => f i (l[i]?.getD d)) := by
  simp [List.getD_eq_getElem?_getD]

theorem map_range_getD' {α β} (l : List α) (d : α) (f : α → β) :
    (List.range l.length).map (fun i => f (l.getD i d)) = l.map f := by
  apply List.ext_getElem
  · simp
  · intro i h1 h2
    simp at h1
    simp [List.getD_eq_getElem?_getD, List.getElem?_eq_getElem h1]

/-- `remove_if` of the `occupied()` marks = the increasing list of slots that are released -/
theorem filterMap_range_ite (n : Nat) (p : Nat → Bool) :
    (List.range n).filterMap (fun i => if p i then none else some i)
      = (List.range n).filter (fun i => !p i) := by
  induction n with
  | zero => rfl
  | succ k ih =>
    rw [List.range_succ, List.filterMap_append, List.filter_append, ih]
    by_cases h : p k = true <;> simp [h]

/-- status of every slot after the end-of-step action -/
def Slot.stepOk (x : Slot) : Prop :=
  x.status = .inactive ∨ x.status = .alive ∨ x.status = .initializing

/-- what `extendFromSecondaries` guarantees when the capacity check passes -/
structure EFSOk (cfg : Cfg) (s s' : State) : Prop where
  lens : Lens cfg s'
  core : Core s' s'.c.numInitializers
  ninit : s'.c.numInitializers = s.c.numInitializers + prefixQ cfg.order s.slots cfg.slots
  nsec : s'.c.numSecondaries = prefixQ cfg.order s.slots cfg.slots
  vac : s'.vacancies = (List.range cfg.slots).filter
    (fun i => !(s'.slots.getD i Slot.empty).active)
  nvac : s'.c.numVacancies = s'.vacancies.length
  nalive : s'.c.numAlive = cfg.slots - s'.c.numVacancies
  status : ∀ j, j < cfg.slots → (s'.slots.getD j Slot.empty).stepOk
  act : ∀ j, j < cfg.slots → (s'.slots.getD j Slot.empty).active
      = keepOf cfg.order (s.slots.getD j Slot.empty)
  same : s'.pending = s.pending ∧ s'.c.numGenerated = s.c.numGenerated ∧
    s'.c.numActive = s.c.numActive
  /-- a slot whose track survived the step is not touched -/
  aliveSame : ∀ j, j < cfg.slots → (s.slots.getD j Slot.empty).status = .alive →
    s'.slots.getD j Slot.empty = s.slots.getD j Slot.empty

structure EFSErr (cfg : Cfg) (s s' : State) : Prop where
  lens : Lens cfg s'
  over : s.c.numInitializers + prefixQ cfg.order s.slots cfg.slots > cfg.capacity
  slots : s'.slots = s.slots
  inits : s'.initializers = s.initializers
  ctrs : s'.trackCounters = s.trackCounters
  parents : s'.parents = s.parents
  ghost : s'.created = s.created ∧ s'.started = s.started ∧ s'.finished = s.finished

theorem efsOk_of_loop {cfg : Cfg} {s : State} (hL : Lens cfg s) (hC : Core s s.c.numInitializers)
    (hend : ∀ x ∈ s.slots, x.endOk) (c2 : Counters) (s2 : State) (scanned : List Nat)
    (hc2 : c2 = { s.c with
      numVacancies := ((List.range cfg.slots).filter
        (fun i => !keepOf cfg.order (s.slots.getD i Slot.empty))).length,
      numSecondaries := prefixQ cfg.order s.slots cfg.slots,
      numInitializers := s.c.numInitializers + prefixQ cfg.order s.slots cfg.slots,
      numAlive := s.cfg.slots - ((List.range cfg.slots).filter
        (fun i => !keepOf cfg.order (s.slots.getD i Slot.empty))).length })
    (hs2 : s2 = { s with
      vacancies := (List.range cfg.slots).filter
        (fun i => !keepOf cfg.order (s.slots.getD i Slot.empty)),
      secCounts := scanned, c := c2 })
    (hscan : ∀ k, k < cfg.slots → scanned.getD k 0 = prefixQ cfg.order s.slots k)
    (hslen : scanned.length = cfg.slots + 1)
    (hcap' : s.c.numInitializers + prefixQ cfg.order s.slots cfg.slots ≤ cfg.capacity) :
    EFSOk cfg s ((List.range cfg.slots).foldl (processSlot c2) s2) := by
  have hfin := efs_loop (cfg := cfg) (s0 := s) (c2 := c2)
    (vac := (List.range cfg.slots).filter
        (fun i => !keepOf cfg.order (s.slots.getD i Slot.empty)))
    (scanned := scanned) (old := s.c.numInitializers) hL hend hscan
    (by rw [hc2]) (by rw [hc2]) (by rw [hc2]; exact hcap') cfg.slots (Nat.le_refl _) (s := s2)
    (by
      subst hs2
      exact ⟨⟨hL.cfg_eq, hL.slots, hL.inits, hL.parents, hslen, hL.counters⟩,
        by
          have := core_frame (s' := { s with
            vacancies := (List.range cfg.slots).filter
              (fun i => !keepOf cfg.order (s.slots.getD i Slot.empty)),
            secCounts := scanned, c := c2 }) hC rfl rfl rfl rfl rfl rfl hC.hasId
          simpa [prefixQ] using this,
        fun _ _ => rfl, fun j hj => by omega, ⟨rfl, rfl, rfl, rfl, rfl⟩⟩)
  generalize (List.range cfg.slots).foldl (processSlot c2) s2 = s' at hfin ⊢
  obtain ⟨f1, f2, f3, f4, f5⟩ := hfin.frame
  have hact : ∀ j, j < cfg.slots → (s'.slots.getD j Slot.empty).active
      = keepOf cfg.order (s.slots.getD j Slot.empty) := fun j hj => (hfin.done j hj).1
  refine ⟨hfin.lens, ?_, ?_, ?_, ?_, ?_, ?_, fun j hj => (hfin.done j hj).2.1, hact, ?_,
    fun j hj => (hfin.done j hj).2.2⟩
  · rw [f3, hc2]; have := hfin.core; exact this
  · rw [f3, hc2]
  · rw [f3, hc2]
  · rw [f1]
    apply List.filter_congr
    intro i hi
    simp at hi
    rw [hact i hi]
  · rw [f3, f1, hc2]
  · rw [f3, hc2, hL.cfg_eq]
  · rw [f3, hc2]; exact ⟨f4, rfl, rfl⟩

theorem efs_spec {cfg : Cfg} {s : State} (hL : Lens cfg s) (hC : Core s s.c.numInitializers)
    (hend : ∀ x ∈ s.slots, x.endOk) :
    match extendFromSecondaries s with
    | .ok s' => EFSOk cfg s s'
    | .error (e, s') => e = .capacity ∧ EFSErr cfg s s' := by
  have hn : s.slots.length = cfg.slots := hL.slots
  have hord : s.cfg.order = cfg.order := by rw [hL.cfg_eq]
  -- locate_alive
  have hloc : (List.range s.slots.length).map (fun tid =>
        locateSlot s.cfg.order tid (s.slots.getD tid Slot.empty))
      = (List.range s.slots.length).map (fun tid =>
        (if keepOf cfg.order (s.slots.getD tid Slot.empty) then none else some tid,
         qOf cfg.order (s.slots.getD tid Slot.empty))) := by
    apply List.map_congr_left
    intro i hi
    simp at hi
    rw [hord]
    apply locateSlot_eq
    have : s.slots.getD i Slot.empty = s.slots[i] := by
      simp [List.getD_eq_getElem?_getD, List.getElem?_eq_getElem hi]
    rw [this]; exact hend _ (List.getElem_mem hi)
  have hcounts : ((List.range s.slots.length).map (fun tid =>
        (if keepOf cfg.order (s.slots.getD tid Slot.empty) then none else some tid,
         qOf cfg.order (s.slots.getD tid Slot.empty)))).map (·.2) = s.slots.map (qOf cfg.order) := by
    rw [List.map_map]
    exact map_range_getD' s.slots Slot.empty (qOf cfg.order)
  have hvac : ((List.range s.slots.length).map (fun tid =>
        (if keepOf cfg.order (s.slots.getD tid Slot.empty) then none else some tid,
         qOf cfg.order (s.slots.getD tid Slot.empty)))).filterMap (·.1)
      = (List.range cfg.slots).filter (fun i => !keepOf cfg.order (s.slots.getD i Slot.empty)) := by
    rw [List.filterMap_map, hn]
    exact filterMap_range_ite cfg.slots _
  have hdrop : (s.secCounts.drop s.slots.length).length = 1 := by
    simp [hL.secCounts, hn]
  -- prefix sums
  have htake : ∀ k, k ≤ cfg.slots →
      ((s.slots.map (qOf cfg.order) ++ s.secCounts.drop s.slots.length).take k).sum
        = prefixQ cfg.order s.slots k := by
    intro k hk
    rw [List.take_append_of_le_length (by simp [hn]; exact hk)]
    simp [prefixQ, List.map_take]
  unfold extendFromSecondaries
  simp only [hloc, hcounts, hvac, exclusiveScan]
  have hclen : (s.slots.map (qOf cfg.order) ++ s.secCounts.drop s.slots.length).length
      = cfg.slots + 1 := by simp [hn, hL.secCounts]
  rw [hclen, Nat.add_sub_cancel, htake cfg.slots (Nat.le_refl _)]
  split
  next s' heq =>
    -- capacity check passed
    split at heq
    · cases heq
    · rename_i hcap
      have hcap' : s.c.numInitializers + prefixQ cfg.order s.slots cfg.slots ≤ cfg.capacity := by
        rw [hL.inits] at hcap; simpa using hcap
      injection heq with heq
      have hscan : ∀ k, k < cfg.slots →
          ((List.range (cfg.slots + 1)).map fun i =>
            ((s.slots.map (qOf cfg.order) ++ s.secCounts.drop s.slots.length).take i).sum).getD k 0
          = prefixQ cfg.order s.slots k := by
        intro k hk
        rw [List.getD_eq_getElem?_getD, List.getElem?_map,
          List.getElem?_range (by omega)]
        simp [htake k (by omega)]
      rw [hn] at heq hscan
      subst heq
      exact efsOk_of_loop hL hC hend _ _ _ rfl rfl hscan (by simp) hcap'
  next e s' heq =>
    split at heq
    · rename_i hcap
      injection heq with heq
      injection heq with h1 h2
      subst h1 h2
      refine ⟨rfl, ⟨⟨hL.cfg_eq, hL.slots, hL.inits, hL.parents, by simp, hL.counters⟩, ?_,
        rfl, rfl, rfl, rfl, ⟨rfl, rfl, rfl⟩⟩⟩
      rw [hL.inits] at hcap; simpa using hcap
    · cases heq

end CelerVerif.TrackInit
