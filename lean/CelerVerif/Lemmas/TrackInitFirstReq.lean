/- Side condition for progress: if the stack holds at least one interaction's request, the first
   requesting track (in slot order) of every step has its interaction carried out (C16). -/
import CelerVerif.Lemmas.TrackInitStarved

namespace CelerVerif.TrackInit
open CelerVerif.Stack (W alloc)

/-- a (slot, request) pair that does not touch the allocator -/
def NonAlloc (x : Slot) (r : Request) : Prop :=
  x.status = .inactive ∨ x.status = .errored ∨ r.kind = .error ∨ r.kind = .unchanged ∨ r.secs = []

theorem effOne_nonAlloc (x : Slot) (r : Request) (stk : Stack.Stack) (h : NonAlloc x r) :
    (effOne x r stk).2.1 = false ∧ (effOne x r stk).2.2 = stk := by
  unfold effOne
  by_cases hx : x.status = .inactive ∨ x.status = .errored
  · simp [hx]
  · have hx1 : ¬ x.status = .inactive := fun h' => hx (Or.inl h')
    have hx2 : ¬ x.status = .errored := fun h' => hx (Or.inr h')
    rcases h with h | h | h | h | h
    · exact absurd h hx1
    · exact absurd h hx2
    · simp [hx, h]
    · simp [hx, h]
    · cases hk : r.kind <;> simp [hx, h]

theorem effOne_fits (x : Slot) (r : Request) (stk : Stack.Stack)
    (hx : ¬ (x.status = .inactive ∨ x.status = .errored))
    (hk : r.kind = .scatter ∨ r.kind = .absorb) (hne : r.secs ≠ [])
    (hfit : stk.size + r.secs.length ≤ stk.cap) (hw : stk.size + r.secs.length < W) :
    (effOne x r stk).2.1 = false ∧
    (effOne x r stk).1 = ⟨if r.kind = .absorb then .killed else .alive, r.secs⟩ := by
  unfold effOne
  have hemp : r.secs.isEmpty = false := by
    cases h : r.secs with
    | nil => exact absurd h hne
    | cons a l => rfl
  have hal : ∃ s', alloc r.secs.length stk = (some stk.size, s') := by
    unfold alloc
    have : ¬ (stk.size + r.secs.length) % W > stk.cap := by rw [Nat.mod_eq_of_lt hw]; omega
    simp [this]
  obtain ⟨s', hal⟩ := hal
  rcases hk with hk | hk <;> simp [hx, hk, hemp, hal]

theorem effGo_failed_ge (i : Nat) (xs : List Slot) (rs : List Request) (stk : Stack.Stack) :
    ∀ j ∈ (effGo i xs rs stk).2.1, i ≤ j := by
  induction xs generalizing i rs stk with
  | nil => simp [effGo]
  | cons x xs ih =>
    cases rs with
    | nil => simp [effGo]
    | cons r rs =>
      intro j hj
      simp only [effGo, List.mem_append] at hj
      rcases hj with hj | hj
      · split at hj
        · simp at hj; omega
        · cases hj
      · have := ih (i + 1) rs _ j hj; omega

/-- the first track that really asks for secondaries gets them whenever its own request fits
    into the (freshly cleared) stack: its interaction is not failed and is carried out as
    sampled, whatever the later tracks ask for -/
theorem first_request_succeeds (xs1 : List Slot) (rs1 : List Request) (x : Slot) (r : Request)
    (xs2 : List Slot) (rs2 : List Request) (stk : Stack.Stack) (i : Nat)
    (hlen : xs1.length = rs1.length)
    (hpre : ∀ p ∈ List.zip xs1 rs1, NonAlloc p.1 p.2)
    (hx : ¬ (x.status = .inactive ∨ x.status = .errored))
    (hk : r.kind = .scatter ∨ r.kind = .absorb) (hne : r.secs ≠ [])
    (hfit : stk.size + r.secs.length ≤ stk.cap) (hw : stk.size + r.secs.length < W) :
    (i + xs1.length) ∉ (effGo i (xs1 ++ x :: xs2) (rs1 ++ r :: rs2) stk).2.1 ∧
    (effGo i (xs1 ++ x :: xs2) (rs1 ++ r :: rs2) stk).1[xs1.length]?
      = some ⟨if r.kind = .absorb then .killed else .alive, r.secs⟩ := by
  induction xs1 generalizing rs1 i with
  | nil =>
    have : rs1 = [] := by cases rs1 with
      | nil => rfl
      | cons a l => simp at hlen
    subst this
    obtain ⟨e1, e2⟩ := effOne_fits x r stk hx hk hne hfit hw
    simp only [List.nil_append, effGo, e1, List.length_nil, Nat.add_zero]
    refine ⟨?_, by simp [e2]⟩
    intro hmem
    simp only [Bool.false_eq_true, if_false, List.nil_append] at hmem
    have := effGo_failed_ge (i + 1) xs2 rs2 _ i hmem
    omega
  | cons a xs1 ih =>
    cases rs1 with
    | nil => simp at hlen
    | cons b rs1 =>
      obtain ⟨n1, n2⟩ := effOne_nonAlloc a b stk (hpre (a, b) (by simp))
      have hlen' : xs1.length = rs1.length := by simpa using hlen
      have := ih rs1 (i + 1) hlen' (fun p hp => hpre p (by simp [hp]))
      simp only [List.cons_append, effGo, n1, n2, List.length_cons]
      refine ⟨?_, by simpa using this.2⟩
      intro hmem
      simp only [Bool.false_eq_true, if_false, List.nil_append] at hmem
      apply this.1
      have he : i + 1 + xs1.length = i + (xs1.length + 1) := by omega
      rw [he]; exact hmem

end CelerVerif.TrackInit
