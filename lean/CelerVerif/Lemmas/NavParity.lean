/-
Parity of the sign of a continuous function along a ray: if the positive zeros are exactly a
finite duplicate-free list and the sign flips across each of them, then the sign at `t` is the
sign at `0` flipped once per zero below `t`.  (Used with the ray polynomial of a quadric:
C12 `isect_on_surface`, `isect_complete`, `sense_flips_across_crossing`.)
-/
import Mathlib.Topology.Order.IntermediateValue
import Mathlib.Topology.Algebra.Ring.Real
import Mathlib.Tactic.Linarith
import Mathlib.Tactic.Ring
import Mathlib.Tactic.Positivity

namespace CelerVerif.Parity

theorem same_sign_of_no_root (f : ℝ → ℝ) (hf : Continuous f) (a b : ℝ) (hab : a ≤ b)
    (hn : ∀ t, a ≤ t → t ≤ b → f t ≠ 0) : 0 < f a * f b := by
  by_contra hcon
  have hle : f a * f b ≤ 0 := not_lt.1 hcon
  have ha := hn a (le_refl _) hab
  have hb := hn b hab (le_refl _)
  rcases lt_or_gt_of_ne ha with ha' | ha'
  · -- f a < 0, so f b > 0
    have hb' : 0 < f b := by
      rcases lt_or_gt_of_ne hb with hb' | hb'
      · exact absurd (mul_pos_of_neg_of_neg ha' hb') (not_lt.2 hle)
      · exact hb'
    have : (0 : ℝ) ∈ Set.Icc (f a) (f b) := ⟨le_of_lt ha', le_of_lt hb'⟩
    obtain ⟨t, ht, hft⟩ := intermediate_value_Icc hab hf.continuousOn this
    exact hn t ht.1 ht.2 hft
  · have hb' : f b < 0 := by
      rcases lt_or_gt_of_ne hb with hb' | hb'
      · exact hb'
      · exact absurd (mul_pos ha' hb') (not_lt.2 hle)
    have : (0 : ℝ) ∈ Set.Icc (f b) (f a) := ⟨le_of_lt hb', le_of_lt ha'⟩
    obtain ⟨t, ht, hft⟩ := intermediate_value_Icc' hab hf.continuousOn this
    exact hn t ht.1 ht.2 hft

theorem pos_iff_of_same {x y : ℝ} (h : 0 < x * y) : decide (0 < y) = decide (0 < x) := by
  have hx : x ≠ 0 := by intro hx; rw [hx] at h; simp at h
  rcases lt_or_gt_of_ne hx with hx' | hx'
  · have : y < 0 := by
      by_contra hc
      have : x * y ≤ 0 := mul_nonpos_of_nonpos_of_nonneg (le_of_lt hx') (not_lt.1 hc)
      linarith
    simp [not_lt.2 (le_of_lt hx'), not_lt.2 (le_of_lt this)]
  · have : 0 < y := by
      by_contra hc
      have : x * y ≤ 0 := mul_nonpos_of_nonneg_of_nonpos (le_of_lt hx') (not_lt.1 hc)
      linarith
    simp [hx', this]

theorem pos_iff_of_opp {x y : ℝ} (h : x * y < 0) : decide (0 < y) = !decide (0 < x) := by
  have hx : x ≠ 0 := by intro hx; rw [hx] at h; simp at h
  rcases lt_or_gt_of_ne hx with hx' | hx'
  · have : 0 < y := by
      by_contra hc
      have : 0 ≤ x * y := mul_nonneg_of_nonpos_of_nonpos (le_of_lt hx') (not_lt.1 hc)
      linarith
    simp [not_lt.2 (le_of_lt hx'), this]
  · have : y < 0 := by
      by_contra hc
      have : 0 ≤ x * y := mul_nonneg (le_of_lt hx') (not_lt.1 hc)
      linarith
    simp [hx', not_lt.2 (le_of_lt this)]

/-- a non-empty list of reals has a largest element -/
theorem exists_max (L : List ℝ) (h : L ≠ []) : ∃ m ∈ L, ∀ x ∈ L, x ≤ m := by
  induction L with
  | nil => exact absurd rfl h
  | cons a t ih =>
    by_cases ht : t = []
    · subst ht; exact ⟨a, by simp, by simp⟩
    · obtain ⟨m, hm, hmax⟩ := ih ht
      by_cases ham : m ≤ a
      · refine ⟨a, by simp, ?_⟩
        intro x hx
        rcases List.mem_cons.1 hx with rfl | hx
        · exact le_refl _
        · exact le_trans (hmax x hx) ham
      · refine ⟨m, List.mem_cons_of_mem _ hm, ?_⟩
        intro x hx
        rcases List.mem_cons.1 hx with rfl | hx
        · exact le_of_lt (not_le.1 ham)
        · exact hmax x hx

/-- a positive number below finitely many positive numbers -/
theorem exists_pos_lt_all (L : List ℝ) (h : ∀ x ∈ L, 0 < x) : ∃ e, 0 < e ∧ ∀ x ∈ L, e < x := by
  induction L with
  | nil => exact ⟨1, one_pos, by simp⟩
  | cons a t ih =>
    obtain ⟨e, he, hlt⟩ := ih (fun x hx => h x (List.mem_cons_of_mem _ hx))
    have ha := h a (by simp)
    refine ⟨min e a / 2, by positivity, ?_⟩
    intro x hx
    have hmin : 0 < min e a := lt_min he ha
    rcases List.mem_cons.1 hx with rfl | hx
    · have : min e x ≤ x := min_le_right _ _
      linarith
    · have : min e a ≤ e := min_le_left _ _
      have := hlt x hx
      linarith

/-- counting with one extra element: `p = q ∨ (· = r)` on a duplicate-free list containing `r` -/
theorem countP_add_one (R : List ℝ) (hnd : R.Nodup) (r : ℝ) (hr : r ∈ R) (p q : ℝ → Bool)
    (hpq : ∀ x ∈ R, p x = true ↔ (q x = true ∨ x = r)) (hq : q r = false) :
    R.countP p = R.countP q + 1 := by
  induction R with
  | nil => simp at hr
  | cons a t ih =>
    have hnd' := List.nodup_cons.1 hnd
    by_cases har : a = r
    · subst har
      have hpa : p a = true := (hpq a (by simp)).2 (Or.inr rfl)
      have ht : t.countP p = t.countP q := by
        apply List.countP_congr
        intro x hx
        have hxa : x ≠ a := fun hxa => hnd'.1 (hxa ▸ hx)
        have := hpq x (List.mem_cons_of_mem _ hx)
        constructor
        · intro hp; rcases this.1 hp with h | h
          · exact h
          · exact absurd h hxa
        · intro hq'; exact this.2 (Or.inl hq')
      rw [List.countP_cons_of_pos hpa, List.countP_cons_of_neg (by simp [hq]), ht]
    · have hr' : r ∈ t := by
        rcases List.mem_cons.1 hr with h | h
        · exact absurd h.symm har
        · exact h
      have ih' := ih hnd'.2 hr' (fun x hx => hpq x (List.mem_cons_of_mem _ hx))
      have hpa := hpq a (by simp)
      by_cases hqa : q a = true
      · rw [List.countP_cons_of_pos (hpa.2 (Or.inl hqa)), List.countP_cons_of_pos hqa, ih']
      · have hpa' : ¬ p a = true := by
          intro hp; rcases hpa.1 hp with h | h
          · exact hqa h
          · exact har h
        rw [List.countP_cons_of_neg hpa', List.countP_cons_of_neg hqa, ih']

/-- ★ parity: the sign at `t` is the sign at `0`, flipped once per zero below `t` -/
theorem parity_of_roots (f : ℝ → ℝ) (hf : Continuous f) (R : List ℝ) (hnd : R.Nodup)
    (h0 : f 0 ≠ 0)
    (hroot : ∀ r ∈ R, 0 < r ∧ f r = 0)
    (hcomp : ∀ t, 0 < t → f t = 0 → t ∈ R)
    (hflip : ∀ r ∈ R, ∃ δ, 0 < δ ∧ ∀ e, 0 < e → e < δ → f (r - e) * f (r + e) < 0)
    (n : ℕ) : ∀ t, 0 < t → t ∉ R → R.countP (fun r => decide (r < t)) = n →
      decide (0 < f t) = (decide (0 < f 0) ^^ Nat.bodd n) := by
  induction n with
  | zero =>
    intro t ht hnr hcount
    have hnone : ∀ r ∈ R, ¬ r < t := by
      intro r hr hlt
      have : 0 < R.countP (fun r => decide (r < t)) :=
        List.countP_pos_iff.2 ⟨r, hr, by simpa using hlt⟩
      omega
    have hs := same_sign_of_no_root f hf 0 t (le_of_lt ht) (by
      intro x hx0 hxt hfx
      rcases eq_or_lt_of_le hx0 with h | h
      · rw [← h] at hfx; exact h0 hfx
      · have hxR := hcomp x h hfx
        have : ¬ x < t := hnone x hxR
        have hxt' : x = t := le_antisymm hxt (not_lt.1 this)
        exact hnr (hxt' ▸ hxR))
    simpa using pos_iff_of_same hs
  | succ n ih =>
    intro t ht hnr hcount
    -- the largest zero below t
    have hS : R.filter (fun r => decide (r < t)) ≠ [] := by
      intro hnil
      have : R.countP (fun r => decide (r < t)) = 0 := by
        rw [List.countP_eq_length_filter, hnil]; rfl
      omega
    obtain ⟨rs, hrsS, hmax⟩ := exists_max _ hS
    have hrsR : rs ∈ R := (List.mem_filter.1 hrsS).1
    have hrst : rs < t := by simpa using (List.mem_filter.1 hrsS).2
    have hrs0 : 0 < rs := (hroot rs hrsR).1
    obtain ⟨δ, hδ, hfl⟩ := hflip rs hrsR
    -- a step smaller than δ, rs, t - rs and the distance to every other zero
    let others := (R.filter (fun r => decide (r ≠ rs))).map (fun r => |rs - r|)
    have hothers : ∀ x ∈ [δ, rs, t - rs] ++ others, 0 < x := by
      intro x hx
      rcases List.mem_append.1 hx with hx | hx
      · simp at hx; rcases hx with rfl | rfl | rfl <;> linarith
      · obtain ⟨r, hr, rfl⟩ := List.mem_map.1 hx
        have : r ≠ rs := by simpa using (List.mem_filter.1 hr).2
        exact abs_pos.2 (sub_ne_zero.2 (Ne.symm this))
    obtain ⟨e, he, hlt⟩ := exists_pos_lt_all _ hothers
    have heδ : e < δ := hlt δ (by simp)
    have hers : e < rs := hlt rs (by simp)
    have het : e < t - rs := hlt (t - rs) (by simp)
    have hfar : ∀ r ∈ R, r ≠ rs → e < |rs - r| := by
      intro r hr hne
      apply hlt
      apply List.mem_append_right
      exact List.mem_map.2 ⟨r, List.mem_filter.2 ⟨hr, by simpa using hne⟩, rfl⟩
    -- zeros below t are rs or below rs - e
    have hbelow : ∀ r ∈ R, r < t → r = rs ∨ r < rs - e := by
      intro r hr hrt
      by_cases hne : r = rs
      · exact Or.inl hne
      · right
        have hle : r ≤ rs := hmax r (List.mem_filter.2 ⟨hr, by simpa using hrt⟩)
        have := hfar r hr hne
        rw [abs_of_nonneg (by linarith)] at this
        linarith
    set t' := rs - e with ht'
    have ht'0 : 0 < t' := by linarith
    have ht'R : t' ∉ R := by
      intro hmem
      have hne : t' ≠ rs := by intro h; linarith
      have := hfar t' hmem hne
      rw [abs_of_nonneg (by linarith)] at this
      linarith
    have hcount' : R.countP (fun r => decide (r < t')) = n := by
      have := countP_add_one R hnd rs hrsR (fun r => decide (r < t)) (fun r => decide (r < t'))
        (by
          intro x hx
          constructor
          · intro hp
            have hxt : x < t := by simpa using hp
            rcases hbelow x hx hxt with h | h
            · exact Or.inr h
            · exact Or.inl (by simpa using h)
          · intro hq
            rcases hq with h | h
            · have : x < t' := by simpa using h
              simpa using (by linarith : x < t)
            · subst h; simpa using hrst)
        (by simp; linarith)
      omega
    have ih' := ih t' ht'0 ht'R hcount'
    -- flip across rs, then no zero up to t
    have hflip' : f t' * f (rs + e) < 0 := hfl e he heδ
    have hs := same_sign_of_no_root f hf (rs + e) t (by linarith) (by
      intro x hx1 hx2 hfx
      have hx0 : 0 < x := by linarith
      have hxR := hcomp x hx0 hfx
      rcases eq_or_lt_of_le hx2 with h | h
      · exact hnr (h ▸ hxR)
      · rcases hbelow x hxR h with h' | h'
        · linarith
        · linarith)
    rw [pos_iff_of_same hs, pos_iff_of_opp hflip', ih']
    simp [Nat.bodd_succ]

end CelerVerif.Parity
