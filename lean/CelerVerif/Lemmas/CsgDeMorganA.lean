/-
C10 helper lemmas, part 8a (De Morgan): facts about `insert` on trees that are only ever built
by `insert` (the result tree of `transform_negated_joins`): the dedup map is syntactically
exact, `False` is always found, negations only point at leaves.
-/
import CelerVerif.Lemmas.CsgInv
import CelerVerif.Model.CsgDeMorgan

namespace CelerVerif.Csg

/-- `True` or a surface -/
def IsLeaf : Node → Prop
  | .tru => True
  | .surface _ => True
  | _ => False

/-- every dedup entry points at a node with exactly that definition (except the two seeded
    entries `False ↦ 1`, `Negated{1} ↦ 0`) -/
def MapExact (r : Tree) : Prop :=
  ∀ e ∈ r.ids, r.get e.2 = e.1 ∨ (e.1 = .fls ∧ e.2 = 1) ∨ (e.1 = .negated 1 ∧ e.2 = 0)

/-- every negation points at a leaf -/
def NegOk (r : Tree) : Prop :=
  ∀ i u, i < r.size → r.get i = .negated u → IsLeaf (r.get u)

/-- invariants of an insert-only tree -/
structure Built (r : Tree) : Prop where
  inv : TreeInv r
  exact : MapExact r
  negOk : NegOk r
  hasFls : r.lookup .fls ≠ none
  novol : True

theorem lookup_push_ne_none {r : Tree} {k n : Node} (h : r.lookup k ≠ none) :
    (r.push n).lookup k ≠ none := by
  unfold Tree.lookup at h ⊢
  simp only [Tree.push, List.find?_cons]
  by_cases hk : n = k
  · simp [hk]
  · simp only [hk, decide_false]
    exact h

theorem insert_get_old (r : Tree) (n : Node) {i : Nat} (hi : i < r.size) :
    (insert r n).1.get i = r.get i := by
  rcases insert_spec r n with ⟨a, _, _, h⟩ | ⟨id, _, h⟩ | ⟨_, h⟩ <;> rw [h]
  exact get_push_lt r _ hi

theorem insert_size_le (r : Tree) (n : Node) :
    r.size ≤ (insert r n).1.size ∧ (insert r n).1.size ≤ r.size + 1 := by
  rcases insert_spec r n with ⟨a, _, _, h⟩ | ⟨id, _, h⟩ | ⟨_, h⟩ <;> rw [h] <;> simp

theorem insert_volumes (r : Tree) (n : Node) : (insert r n).1.volumes = r.volumes := by
  rcases insert_spec r n with ⟨a, _, _, h⟩ | ⟨id, _, h⟩ | ⟨_, h⟩ <;> rw [h] <;> rfl

theorem mapExact_push {r : Tree} (h : MapExact r) (s : Struct r) (n : Node) :
    MapExact (r.push n) := by
  intro e he
  rcases List.mem_cons.1 he with rfl | he
  · left; exact get_push_size r n
  · rcases h e he with h1 | h1 | h1
    · left; rw [get_push_lt r n (s.idsRange e he)]; exact h1
    · right; left; exact h1
    · right; right; exact h1

theorem negOk_push {r : Tree} (h : NegOk r) (s : Struct r) {n : Node}
    (hn : ∀ u, n = .negated u → u < r.size ∧ IsLeaf (r.get u)) : NegOk (r.push n) := by
  intro i u hi hg
  rw [size_push] at hi
  by_cases hlt : i < r.size
  · rw [get_push_lt r n hlt] at hg
    have hu : u < r.size := s.closed i hlt u (by simp [hg, Node.children])
    rw [get_push_lt r n hu]; exact h i u hlt hg
  · have : i = r.size := by omega
    subst this
    rw [get_push_size] at hg
    rcases hn u hg with ⟨hu, hl⟩
    rw [get_push_lt r n hu]; exact hl

/-- inserting a node whose simplified form is not a negation (or is a negation of a leaf) keeps
    the insert-only invariants -/
theorem built_insert {r : Tree} (b : Built r) {n : Node} (hn : ∀ c ∈ n.children, c < r.size)
    (hsmall : r.size < invalid)
    (hneg : ∀ u, simplified r n = .negated u → IsLeaf (r.get u)) : Built (insert r n).1 := by
  have hinv := (insert_inv b.inv hn hsmall).1
  have hch := simplified_children_lt b.inv.struct n hn
  rcases insert_spec r n with ⟨a, _, _, h⟩ | ⟨id, _, h⟩ | ⟨_, h⟩
  · rw [h] at hinv ⊢; exact b
  · rw [h] at hinv ⊢; exact b
  · rw [h] at hinv ⊢
    exact ⟨hinv, mapExact_push b.exact b.inv.struct _,
      negOk_push b.negOk b.inv.struct (fun u hu =>
        ⟨hch u (by simp [hu, Node.children]), hneg u hu⟩),
      lookup_push_ne_none b.hasFls, trivial⟩

end CelerVerif.Csg
