/- Helper lemmas for C18: heapsort (`sift_down` with the "hole" technique, `make_heap`,
   `pop_heap`, `sort_heap`) — heap invariant, permutation, frame. -/
import CelerVerif.Lemmas.AlgoArray
import CelerVerif.Lemmas.AlgoOrder

namespace CelerVerif.Algo
variable {α : Type} [Inhabited α]

theorem set_set_eq_swap (a : Array α) (i j : Nat) (hi : i < a.size) (hj : j < a.size)
    (hij : i ≠ j) (v : α) :
    (a.setIfInBounds i a[j]!).setIfInBounds j v = (a.setIfInBounds i v).swapIfInBounds i j := by
  apply Array.ext
  · simp
  · intro k h1 h2
    grind

theorem set_self (a : Array α) (i : Nat) : a.setIfInBounds i a[i]! = a := by
  apply Array.ext
  · simp
  · intro k h1 h2
    grind

/-- every parent with index `≥ s` is not less than its children, within the first `len` slots -/
def HeapFrom (lt : α → α → Bool) (a : Array α) (len s : Nat) : Prop :=
  ∀ i, 0 < i → i < len → s ≤ (i - 1) / 2 → lt a[(i - 1) / 2]! a[i]! = false

/-! ### pickChild -/

theorem pickChild_cases (lt : α → α → Bool) (a : Array α) (len c : Nat) :
    pickChild lt a len c = c ∨ (pickChild lt a len c = c + 1 ∧ c + 1 < len) := by
  unfold pickChild
  split
  · rename_i h; simp at h; exact Or.inr ⟨rfl, h.1⟩
  · exact Or.inl rfl

theorem pickChild_max (lt : α → α → Bool) (h : StrictWeakOrder lt) (a : Array α) (len c : Nat)
    (j : Nat) (hj : j = c ∨ j = c + 1) (hjl : j < len) :
    lt a[pickChild lt a len c]! a[j]! = false := by
  unfold pickChild
  split
  · rename_i hc
    simp at hc
    rcases hj with rfl | rfl
    · exact h.asymm hc.2
    · exact h.irrefl _
  · rename_i hc
    rcases hj with rfl | rfl
    · exact h.irrefl _
    · simp at hc
      cases hx : lt a[c]! a[c + 1]! with
      | false => rfl
      | true => exact absurd (hc hjl) (by simp [hx])

/-! ### siftLoop: size, frame, membership, permutation -/

theorem siftLoop_size (lt : α → α → Bool) (len : Nat) (top : α) (a : Array α) (start child : Nat) :
    (siftLoop lt len top a start child).size = a.size := by
  fun_induction siftLoop lt len top a start child with
  | case1 a start child a' h => simp [a']
  | case2 a start child a' h child' hc => simp [a']
  | case3 a start child a' h child' hc ih => rw [ih]; simp [a']

theorem siftLoop_frame (lt : α → α → Bool) (len : Nat) (top : α) (a : Array α) (start child : Nat)
    (hs : start < child) (hc : child < len) (i : Nat) (hi : len ≤ i) :
    (siftLoop lt len top a start child)[i]! = a[i]! := by
  fun_induction siftLoop lt len top a start child with
  | case1 a start child a' h =>
    rw [get_set_ne _ _ _ _ (by omega), get_set_ne _ _ _ _ (by omega)]
  | case2 a start child a' h child' hcc =>
    rw [get_set_ne _ _ _ _ (by omega), get_set_ne _ _ _ _ (by omega)]
  | case3 a start child a' h child' hcc ih =>
    have hge := pickChild_ge lt a' len (2 * child + 1)
    rcases pickChild_cases lt a' len (2 * child + 1) with h1 | ⟨h1, h2⟩
    · rw [ih (by omega) (by omega), get_set_ne _ _ _ _ (by omega)]
    · rw [ih (by omega) (by omega), get_set_ne _ _ _ _ (by omega)]

/-- every value in the first `len` slots of the result was in the first `len` slots of the
    input or is `top` -/
theorem siftLoop_forall (lt : α → α → Bool) (len : Nat) (top : α) (a : Array α)
    (start child : Nat) (hs : start < child) (hc : child < len) (hl : len ≤ a.size)
    (P : α → Prop) (hP : ∀ i, i < len → P a[i]!) (hPt : P top) (i : Nat) (hi : i < len) :
    P (siftLoop lt len top a start child)[i]! := by
  fun_induction siftLoop lt len top a start child generalizing i with
  | case1 a start child a' h =>
    rw [get_set, get_set]
    split
    · exact hPt
    · split
      · exact hP child hc
      · exact hP i hi
  | case2 a start child a' h child' hcc =>
    rw [get_set, get_set]
    split
    · exact hPt
    · split
      · exact hP child hc
      · exact hP i hi
  | case3 a start child a' h child' hcc ih =>
    have hge := pickChild_ge lt a' len (2 * child + 1)
    have hsz : a'.size = a.size := by simp [a']
    have hP' : ∀ i, i < len → P a'[i]! := by
      intro k hk
      rw [get_set]
      split
      · exact hP child hc
      · exact hP k hk
    rcases pickChild_cases lt a' len (2 * child + 1) with h1 | ⟨h1, h2⟩
    · exact ih (by omega) (by omega) (by omega) hP' i hi
    · exact ih (by omega) (by omega) (by omega) hP' i hi

theorem siftLoop_perm (lt : α → α → Bool) (len : Nat) (top : α) (a : Array α)
    (start child : Nat) (hs : start < child) (hc : child < len) (hl : len ≤ a.size) :
    (siftLoop lt len top a start child).Perm (a.setIfInBounds start top) := by
  fun_induction siftLoop lt len top a start child with
  | case1 a start child a' h =>
    rw [set_set_eq_swap a start child (by omega) (by omega) (by omega)]
    exact swap_perm _ _ _ (by simp; omega) (by simp; omega)
  | case2 a start child a' h child' hcc =>
    rw [set_set_eq_swap a start child (by omega) (by omega) (by omega)]
    exact swap_perm _ _ _ (by simp; omega) (by simp; omega)
  | case3 a start child a' h child' hcc ih =>
    have hge := pickChild_ge lt a' len (2 * child + 1)
    have hsz : a'.size = a.size := by simp [a']
    have hstep : (a'.setIfInBounds child top).Perm (a.setIfInBounds start top) := by
      rw [set_set_eq_swap a start child (by omega) (by omega) (by omega)]
      exact swap_perm _ _ _ (by simp; omega) (by simp; omega)
    rcases pickChild_cases lt a' len (2 * child + 1) with h1 | ⟨h1, h2⟩
    · exact (ih (by omega) (by omega) (by omega)).trans hstep
    · exact (ih (by omega) (by omega) (by omega)).trans hstep

/-! ### siftLoop: the heap invariant -/

/-- state of the `do … while` loop of `sift_down` on entry of its body: the hole is at `start`,
    `child` is its larger child, `top ≤ a[child]`, and the heap condition holds for every
    parent `≥ s0` except the hole, whose children are bounded by the hole's parent -/
structure SiftInv (lt : α → α → Bool) (len : Nat) (top : α) (s0 : Nat) (a : Array α)
    (start child : Nat) : Prop where
  hchild : child = 2 * start + 1 ∨ child = 2 * start + 2
  hlen : child < len
  hsize : len ≤ a.size
  hs0 : s0 ≤ start
  hmax : ∀ j, j = 2 * start + 1 ∨ j = 2 * start + 2 → j < len → lt a[child]! a[j]! = false
  htop : lt a[child]! top = false
  hheap : ∀ i, 0 < i → i < len → s0 ≤ (i - 1) / 2 → (i - 1) / 2 ≠ start →
    lt a[(i - 1) / 2]! a[i]! = false
  hgrand : s0 < start → ∀ j, j = 2 * start + 1 ∨ j = 2 * start + 2 → j < len →
    lt a[(start - 1) / 2]! a[j]! = false

/-- closing the loop: writing `top` into the hole `child` (after `a[start] := a[child]`) gives
    a heap, provided the children of `child` are not greater than `top` -/
theorem sift_finish (lt : α → α → Bool) (len : Nat) (top : α) (s0 : Nat) (a : Array α)
    (start child : Nat) (inv : SiftInv lt len top s0 a start child)
    (hkids : ∀ i, 0 < i → i < len → (i - 1) / 2 = child → lt top a[i]! = false) :
    HeapFrom lt ((a.setIfInBounds start a[child]!).setIfInBounds child top) len s0 := by
  obtain ⟨hchild, hlen, hsize, hs0, hmax, htop, hheap, hgrand⟩ := inv
  intro i hi0 hil hp
  have hss : start < a.size := by omega
  have hcs : child < a.size := by omega
  have hr : ∀ k, ((a.setIfInBounds start a[child]!).setIfInBounds child top)[k]! =
      if k = child then top else if k = start then a[child]! else a[k]! := by
    intro k
    rw [get_set, get_set]
    simp only [Array.size_setIfInBounds, hcs, hss, and_true]
    by_cases hk1 : k = child
    · subst hk1; simp
    · have : child ≠ k := fun h => hk1 h.symm
      simp only [this, hk1, ↓reduceIte]
      by_cases hk2 : k = start
      · subst hk2; simp
      · have : start ≠ k := fun h => hk2 h.symm
        simp only [this, hk2, ↓reduceIte]
  rw [hr, hr]
  by_cases h1 : (i - 1) / 2 = child
  · -- parent is the former hole position `child`, now holding `top`
    rw [if_pos h1, if_neg (by omega), if_neg (by omega)]
    exact hkids i hi0 hil h1
  · rw [if_neg h1]
    by_cases h2 : i = child
    · -- the child is `child` (holding `top`), its parent is `start` (holding a[child])
      rw [if_pos (by omega), if_pos h2]
      exact htop
    · rw [if_neg h2]
      by_cases h3 : (i - 1) / 2 = start
      · -- the other child of `start`
        rw [if_pos h3, if_neg (by omega)]
        exact hmax i (by omega) hil
      · rw [if_neg h3]
        by_cases h4 : i = start
        · -- `start` seen as a child of its own parent
          rw [if_pos h4]
          have := hgrand (by omega) child hchild hlen
          rw [h4]
          exact this
        · rw [if_neg h4]
          exact hheap i hi0 hil hp h3

theorem siftLoop_heap (lt : α → α → Bool) (h : StrictWeakOrder lt) (len : Nat) (top : α)
    (s0 : Nat) (a : Array α) (start child : Nat) (inv : SiftInv lt len top s0 a start child) :
    HeapFrom lt (siftLoop lt len top a start child) len s0 := by
  fun_induction siftLoop lt len top a start child with
  | case1 a start child a' hbr =>
    apply sift_finish lt len top s0 a start child inv
    intro i hi0 hil hp
    have := inv.hlen
    omega
  | case2 a start child a' hbr child' hcc =>
    apply sift_finish lt len top s0 a start child inv
    intro i hi0 hil hp
    have hcl := inv.hlen
    have hss : start < a.size := by have := inv.hsize; have := inv.hchild; omega
    -- a'[i] = a[i] for the children of `child`
    have hai : a'[i]! = a[i]! := get_set_ne _ _ _ _ (by have := inv.hchild; omega)
    have hmx := pickChild_max lt h a' len (2 * child + 1) i (by omega) hil
    rw [hai] at hmx
    exact h.asymm (h.lt_of_le_of_lt hmx hcc)
  | case3 a start child a' hbr child' hcc ih =>
    apply ih
    obtain ⟨hchild, hlen, hsize, hs0, hmax, htop, hheap, hgrand⟩ := inv
    have hss : start < a.size := by omega
    have hsz : a'.size = a.size := by simp [a']
    have hcases := pickChild_cases lt a' len (2 * child + 1)
    have hc2 : 2 * child + 1 < len := by omega
    refine ⟨by omega, by omega, by omega, by omega, ?_, ?_, ?_, ?_⟩
    · intro j hj hjl
      exact pickChild_max lt h a' len (2 * child + 1) j hj hjl
    · simpa using hcc
    · intro i hi0 hil hp hne
      show lt a'[(i - 1) / 2]! a'[i]! = false
      have hr : ∀ k, a'[k]! = if k = start then a[child]! else a[k]! := by
        intro k
        show (a.setIfInBounds start a[child]!)[k]! = _
        rw [get_set]
        by_cases hk : k = start
        · subst hk; simp [hss]
        · have : start ≠ k := fun h => hk h.symm
          simp only [this, hk, false_and, ↓reduceIte]
      rw [hr, hr]
      by_cases h3 : (i - 1) / 2 = start
      · rw [if_pos h3, if_neg (by omega)]
        exact hmax i (by omega) hil
      · rw [if_neg h3]
        by_cases h4 : i = start
        · rw [if_pos h4]
          have := hgrand (by omega) child hchild hlen
          rw [h4]
          exact this
        · rw [if_neg h4]
          exact hheap i hi0 hil hp h3
    · intro _ j hj hjl
      show lt a'[(child - 1) / 2]! a'[j]! = false
      have hpar : (child - 1) / 2 = start := by omega
      rw [hpar, get_set_eq _ _ _ hss, get_set_ne _ _ _ _ (by omega)]
      have hpj : (j - 1) / 2 = child := by omega
      have := hheap j (by omega) hjl (by omega) (by omega)
      rw [hpj] at this
      exact this

/-! ### siftDown -/

theorem siftDown_size (lt : α → α → Bool) (a : Array α) (len start : Nat) :
    (siftDown lt a len start).size = a.size := by
  unfold siftDown
  split
  · rfl
  · dsimp only
    split
    · rfl
    · exact siftLoop_size ..

theorem siftDown_frame (lt : α → α → Bool) (a : Array α) (len start : Nat) (i : Nat)
    (hi : len ≤ i) : (siftDown lt a len start)[i]! = a[i]! := by
  unfold siftDown
  split
  · rfl
  · rename_i hc
    simp at hc
    dsimp only
    split
    · rfl
    · have hge := pickChild_ge lt a len (2 * start + 1)
      rcases pickChild_cases lt a len (2 * start + 1) with h1 | ⟨h1, h2⟩
      · exact siftLoop_frame _ _ _ _ _ _ (by omega) (by omega) i hi
      · exact siftLoop_frame _ _ _ _ _ _ (by omega) (by omega) i hi

theorem siftDown_perm (lt : α → α → Bool) (a : Array α) (len start : Nat) (hl : len ≤ a.size) :
    (siftDown lt a len start).Perm a := by
  unfold siftDown
  split
  · exact Array.Perm.refl _
  · rename_i hc
    simp at hc
    dsimp only
    split
    · exact Array.Perm.refl _
    · have hge := pickChild_ge lt a len (2 * start + 1)
      have key : ∀ c, start < c → c < len →
          (siftLoop lt len a[start]! a start c).Perm a := by
        intro c h1 h2
        have := siftLoop_perm lt len a[start]! a start c h1 h2 hl
        rwa [set_self] at this
      rcases pickChild_cases lt a len (2 * start + 1) with h1 | ⟨h1, h2⟩
      · exact key _ (by omega) (by omega)
      · exact key _ (by omega) (by omega)

theorem siftDown_forall (lt : α → α → Bool) (a : Array α) (len start : Nat) (hl : len ≤ a.size)
    (P : α → Prop) (hP : ∀ i, i < len → P a[i]!) (i : Nat) (hi : i < len) :
    P (siftDown lt a len start)[i]! := by
  unfold siftDown
  split
  · exact hP i hi
  · rename_i hc
    simp at hc
    dsimp only
    split
    · exact hP i hi
    · have hge := pickChild_ge lt a len (2 * start + 1)
      rcases pickChild_cases lt a len (2 * start + 1) with h1 | ⟨h1, h2⟩
      · exact siftLoop_forall _ _ _ _ _ _ (by omega) (by omega) hl P hP (hP start (by omega)) i hi
      · exact siftLoop_forall _ _ _ _ _ _ (by omega) (by omega) hl P hP (hP start (by omega)) i hi

theorem siftDown_heap (lt : α → α → Bool) (h : StrictWeakOrder lt) (a : Array α)
    (len start : Nat) (hl : len ≤ a.size) (hh : HeapFrom lt a len (start + 1)) :
    HeapFrom lt (siftDown lt a len start) len start := by
  unfold siftDown
  split
  · rename_i hc
    simp at hc
    intro i hi0 hil hp
    by_cases hps : (i - 1) / 2 = start
    · omega
    · exact hh i hi0 hil (by omega)
  · rename_i hc
    simp at hc
    have hc2 : 2 * start + 1 < len := by omega
    dsimp only
    split
    · rename_i hlt
      intro i hi0 hil hp
      by_cases hps : (i - 1) / 2 = start
      · rw [hps]
        have hmx := pickChild_max lt h a len (2 * start + 1) i (by omega) hil
        exact h.asymm (h.lt_of_le_of_lt hmx hlt)
      · exact hh i hi0 hil (by omega)
    · rename_i hlt
      apply siftLoop_heap lt h
      have hcases := pickChild_cases lt a len (2 * start + 1)
      refine ⟨by omega, by omega, hl, Nat.le_refl _, ?_, by simpa using hlt, ?_, ?_⟩
      · intro j hj hjl
        exact pickChild_max lt h a len (2 * start + 1) j hj hjl
      · intro i hi0 hil hp hne
        exact hh i hi0 hil (by omega)
      · intro hlt'; omega

end CelerVerif.Algo
