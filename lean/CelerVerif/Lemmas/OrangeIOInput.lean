/-
C19 helper lemmas, part 4: rect arrays, universes, the whole OrangeInput.
-/
import CelerVerif.Lemmas.OrangeIOStruct

set_option linter.unusedSimpArgs false

namespace CelerVerif.OrangeIO
open CelerVerif.Json

/-! ### rect arrays -/

/-- a rect-array daughter the writer accepts and the reader reproduces: no transformation, or a
    translation that does not compare equal to (0,0,0); `Transformation` is refused on write -/
def Daughter.RectOK (fin : F64 → Prop) (d : Daughter) : Prop :=
  match d.transform with
  | .none => True
  | .translation t => (isZero t.x && isZero t.y && isZero t.z) = false ∧ fin t.x ∧ fin t.y ∧ fin t.z
  | .transformation .. => False

instance (fin : F64 → Prop) [DecidablePred fin] (d : Daughter) : Decidable (d.RectOK fin) := by
  unfold Daughter.RectOK; split <;> infer_instance

def RectArray.Valid (fin : F64 → Prop) (r : RectArray) : Prop :=
  r.label.Valid ∧ 2 ≤ r.gx.length ∧ 2 ≤ r.gy.length ∧ 2 ≤ r.gz.length ∧
  (∀ b ∈ r.gx, fin b) ∧ (∀ b ∈ r.gy, fin b) ∧ (∀ b ∈ r.gz, fin b) ∧
  ∀ d ∈ r.daughters, d.RectOK fin

instance (fin : F64 → Prop) [DecidablePred fin] (r : RectArray) : Decidable (r.Valid fin) := by
  unfold RectArray.Valid; infer_instance

/-- the flat translation list the writer produces -/
def rectFlat : List Daughter → List F64
  | [] => []
  | d :: ds => (match d.transform with
      | .translation t => t.toList
      | _ => [0, 0, 0]) ++ rectFlat ds

theorem rectTranslations_ok {fin : F64 → Prop} (ds : List Daughter) (h : ∀ d ∈ ds, d.RectOK fin) :
    rectTranslations ds = .ok (rectFlat ds) := by
  induction ds with
  | nil => rfl
  | cons d ds ih =>
    have hd := h d (by simp)
    have ih' := ih (fun x hx => h x (by simp [hx]))
    obtain ⟨u, t⟩ := d
    cases t with
    | none => simp [rectTranslations, rectFlat, ih']
    | translation t => simp [rectTranslations, rectFlat, ih']
    | transformation a b c d => simp [Daughter.RectOK] at hd

theorem rectFlat_fin {fin : F64 → Prop} (z : fin 0) (ds : List Daughter) (h : ∀ d ∈ ds, d.RectOK fin) :
    ∀ b ∈ rectFlat ds, fin b := by
  induction ds with
  | nil => intro b hb; simp [rectFlat] at hb
  | cons d ds ih =>
    have hd := h d (by simp)
    have ih' := ih (fun x hx => h x (by simp [hx]))
    obtain ⟨u, t⟩ := d
    intro b hb
    cases t with
    | none =>
      simp only [rectFlat, List.mem_append, List.mem_cons, List.not_mem_nil, or_false] at hb
      rcases hb with (hb | hb | hb) | hb
      · subst hb; exact z
      · subst hb; exact z
      · subst hb; exact z
      · exact ih' b hb
    | translation t =>
      simp only [Daughter.RectOK] at hd
      simp only [rectFlat, V3.toList, List.mem_append, List.mem_cons, List.not_mem_nil, or_false] at hb
      rcases hb with (hb | hb | hb) | hb
      · subst hb; exact hd.2.1
      · subst hb; exact hd.2.2.1
      · subst hb; exact hd.2.2.2
      · exact ih' b hb
    | transformation a b c d => simp [Daughter.RectOK] at hd

theorem zip_rect {fin : F64 → Prop} (ds : List Daughter) (h : ∀ d ∈ ds, d.RectOK fin) :
    List.zipWith (fun u t => (⟨u, makeTransform t⟩ : Daughter)) (ds.map (·.univ))
      (chunks3 (rectFlat ds)) = ds := by
  induction ds with
  | nil => rfl
  | cons d ds ih =>
    have hd := h d (by simp)
    have ih' := ih (fun x hx => h x (by simp [hx]))
    obtain ⟨u, t⟩ := d
    cases t with
    | none =>
      have : makeTransform ⟨0, 0, 0⟩ = .none := by decide
      simp [rectFlat, chunks3, ih', this]
    | translation t =>
      simp only [Daughter.RectOK] at hd
      have hm : makeTransform ⟨t.x, t.y, t.z⟩ = .translation t := by
        simp [makeTransform, hd.1]
      simp [rectFlat, V3.toList, chunks3, ih', hm]
    | transformation a b c d => simp [Daughter.RectOK] at hd

theorem rectFlat_length (ds : List Daughter) : (rectFlat ds).length = 3 * ds.length := by
  induction ds with
  | nil => rfl
  | cons d ds ih =>
    obtain ⟨u, t⟩ := d
    cases t <;> simp [rectFlat, V3.toList, ih] <;> omega


theorem decodeRect_encodeRect {num : F64 → Json} {fin : F64 → Prop} (hn : NumOK num fin)
    (r : RectArray) (h : r.Valid fin) : bindR (encodeRect num r) decodeRect = .ok r := by
  obtain ⟨hlab, hx, hy, hz, fx, fy, fz, hd⟩ := h
  rw [encodeRect, rectTranslations_ok r.daughters hd]
  simp only [bindR_ok]
  generalize hj : Json.obj _ = j
  have h1 : bindR (bindR (j.atKey "md") (·.atKey "name")) decodeLabel = .ok r.label := by
    subst hj; simp [decodeLabel_encodeLabel r.label hlab]
  have gx : decodeGrid j "x" = .ok r.gx := by
    subst hj
    simp [decodeGrid, getRealList_num num r.gx (fun b hb => hn.eq b (fx b hb)), hx]
  have gy : decodeGrid j "y" = .ok r.gy := by
    subst hj
    simp [decodeGrid, getRealList_num num r.gy (fun b hb => hn.eq b (fy b hb)), hy]
  have gz : decodeGrid j "z" = .ok r.gz := by
    subst hj
    simp [decodeGrid, getRealList_num num r.gz (fun b hb => hn.eq b (fz b hb)), hz]
  have ht : (j.find? "transforms").isSome = false := by subst hj; simp
  have hp : decodeRectParents j = .ok [] := by subst hj; simp [decodeRectParents]
  have hdd : bindR (j.atKey "daughters") Json.getU64List = .ok (r.daughters.map (·.univ)) := by
    subst hj
    have : (Json.arr (r.daughters.map fun d => u64 d.univ)).getU64List
        = .ok (r.daughters.map (·.univ)) := by
      simp only [Json.getU64List, Json.getArr]
      exact mapE_map _ _ _ _ (fun d _ => getU64_u64 d.univ)
    simp [this]
  have htr : bindR (j.atKey "translations") Json.getRealList = .ok (rectFlat r.daughters) := by
    subst hj
    simp [getRealList_num num _ (fun b hb => hn.eq b (rectFlat_fin hn.zero r.daughters hd b hb))]
  simp only [decodeRect, h1, gx, gy, gz, ht, hp, hdd, htr, bindR_ok, Bool.false_eq_true, if_false,
    List.length_map, rectFlat_length, decide_true, validate_true, zip_rect r.daughters hd,
    List.isEmpty_nil, if_true]

/-! ### universes and the whole input -/

def Universe.Valid (fin : F64 → Prop) : Universe → Prop
  | .unit u => u.Valid fin
  | .rect r => r.Valid fin

instance (fin : F64 → Prop) [DecidablePred fin] (u : Universe) : Decidable (u.Valid fin) := by
  cases u <;> (unfold Universe.Valid; infer_instance)

theorem decodeUniverse_encodeUniverse {num : F64 → Json} {fin : F64 → Prop} (hn : NumOK num fin)
    (u : Universe) (h : u.Valid fin) : bindR (encodeUniverse num u) decodeUniverse = .ok u := by
  cases u with
  | unit u =>
    have hu := decodeUnit_encodeUnit hn u h
    have ht : bindR ((encodeUnit num u).atKey "_type") Json.getStr = .ok "unit" := by
      simp [encodeUnit, Json.getStr]
    simp [encodeUniverse, decodeUniverse, ht, hu]
  | rect r =>
    have hr := decodeRect_encodeRect hn r h
    obtain ⟨_, _, _, _, _, _, _, hd⟩ := h
    rw [encodeRect, rectTranslations_ok r.daughters hd] at hr
    simp only [bindR_ok] at hr
    simp only [encodeUniverse, encodeRect, rectTranslations_ok r.daughters hd, bindR_ok]
    generalize hj : Json.obj _ = j at hr ⊢
    have ht : bindR (j.atKey "_type") Json.getStr = .ok "rectarray" := by
      subst hj; simp [Json.getStr]
    simp [decodeUniverse, ht, hr]

theorem mapE_universes {num : F64 → Json} {fin : F64 → Prop} (hn : NumOK num fin)
    (us : List Universe) (h : ∀ u ∈ us, u.Valid fin) :
    ∃ js, mapE (encodeUniverse num) us = .ok js ∧ mapE decodeUniverse js = .ok us := by
  induction us with
  | nil => exact ⟨[], rfl, rfl⟩
  | cons u us ih =>
    obtain ⟨js, h1, h2⟩ := ih (fun x hx => h x (by simp [hx]))
    have hu := decodeUniverse_encodeUniverse hn u (h u (by simp))
    cases he : encodeUniverse num u with
    | error e => simp [he] at hu
    | ok j =>
      rw [he] at hu
      simp only [bindR_ok] at hu
      exact ⟨j :: js, by simp [mapE, he, h1], by simp [mapE, hu, h2]⟩

/-- `Valid fin x`: what the real code needs for `from_json(to_json(x)) = x`.
    `fin` says which doubles `num` writes faithfully (`True` in memory, `isFinite` via text). -/
def OrangeInput.Valid (fin : F64 → Prop) (x : OrangeInput) : Prop :=
  (∀ u ∈ x.universes, u.Valid fin) ∧ x.tol.valid = true ∧ fin x.tol.rel ∧ fin x.tol.abs

instance (fin : F64 → Prop) [DecidablePred fin] (x : OrangeInput) : Decidable (x.Valid fin) := by
  unfold OrangeInput.Valid; infer_instance

theorem decode_encode_gen {num : F64 → Json} {fin : F64 → Prop} (hn : NumOK num fin)
    (x : OrangeInput) (h : x.Valid fin) : bindR (encode num x) decode = .ok x := by
  obtain ⟨hu, htv, hf1, hf2⟩ := h
  obtain ⟨js, h1, h2⟩ := mapE_universes hn x.universes hu
  simp only [encode, h1, bindR_ok]
  generalize hj : Json.obj _ = j
  have a1 : (j.find? "_format").isSome = true := by subst hj; simp
  have a2 : bindR (j.atKey "_format") Json.getStr = .ok Generated.OrangeIO.formatWritten := by
    subst hj; simp [Json.getStr]
  have a3 : decodeVersion j = .ok () := by subst hj; simp [decodeVersion, Json.checkInt]
  have a4 : checkUnits j = .ok () := by
    subst hj
    have : decide (nativeUnits ∈ Generated.OrangeIO.unitSystems) = true := by decide
    simp [checkUnits, lookup_append, Json.getStr, this]
  have a5 : j.atKey "universes" = .ok (.arr js) := by subst hj; simp
  have a6 : decodeTolKey j = .ok x.tol := by
    subst hj
    simp [decodeTolKey, lookup_append, htv, decodeTol_encodeTol hn x.tol htv ⟨hf1, hf2⟩]
  have a7 : decide (Generated.OrangeIO.formatWritten ∈ Generated.OrangeIO.formatsRead) = true := by
    decide
  simp only [decode, a1, a2, a3, a4, a5, a6, a7, validate_true, bindR_ok, Json.iterValues, h2]

end CelerVerif.OrangeIO
