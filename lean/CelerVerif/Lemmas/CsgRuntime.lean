/-
C10 helper lemmas, part 10: the runtime `internal_surfaces` flag is sound whenever the flag handed
to `UnitInserter` is: neither `insert_volume` nor `process_daughter` clears it, and the
unreachable replacement volume is constant false.
-/
import CelerVerif.Model.CsgRuntime
import CelerVerif.Lemmas.CsgFlag
import CelerVerif.Lemmas.CsgPostfix

namespace CelerVerif.Csg
open CelerVerif.Generated.Csg

/-- the stored postfix logic is a constant times a conjunction of face literals -/
def LogicIsConj (logic : List Nat) : Prop :=
  ∃ (c : Bool) (L : List Lit), ∀ vals : Nat → Bool, evalRef logic vals = some (c && litsHold vals L)

theorem nowhere_isConj : LogicIsConj nowhereLogic :=
  ⟨false, [], fun vals => by
    simp only [Bool.false_and]
    unfold evalRef nowhereLogic
    rw [evalRefLoop_true, evalRefLoop_not]
    rfl⟩

theorem and_one_or (a b : Nat) (hb : b &&& 1 = 0) : (a ||| b) &&& 1 = a &&& 1 := by
  rw [Nat.and_or_distrib_right, hb, Nat.or_zero]

/-- the internal-surfaces bit of the stored flags is the bit of the input flags, unless the
    volume was replaced by the unreachable one -/
theorem runtimeInternal_eq (inFlags : Nat) (ss dau : Bool) :
    runtimeInternalSurfaces (runtimeFlags inFlags ss false dau) = runtimeInternalSurfaces inFlags := by
  unfold runtimeInternalSurfaces runtimeFlags insertVolumeFlags processDaughterFlags
  simp only [show flagInternalSurfaces = 1 from rfl, show flagSimpleSafety = 4 from rfl,
    show flagEmbeddedUniverse = 8 from rfl, show flagImplicitVol = 2 from rfl]
  cases ss <;> cases dau <;> simp [and_one_or]

/-- ★ if the (flags, logic) pair handed to `UnitInserter` is sound ("internal_surfaces unset ⇒
    the logic is a conjunction of literals"), so is the pair stored for the tracker, whatever
    the faces, the limits and the presence of a daughter universe -/
theorem runtimeFlag_sound_of_input (inFlags : Nat) (logic : List Nat) (ss ex dau : Bool)
    (hin : runtimeInternalSurfaces inFlags = false → LogicIsConj logic)
    (hout : runtimeInternalSurfaces (runtimeFlags inFlags ss ex dau) = false) :
    LogicIsConj (insertVolumeLogic logic ex) := by
  cases ex with
  | true => exact nowhere_isConj
  | false =>
    rw [runtimeInternal_eq] at hout
    exact hin hout

theorem protoFlags_internal (fl ext : Bool) :
    runtimeInternalSurfaces (protoVolumeFlags fl ext) = fl := by
  cases fl <;> cases ext <;> decide

/-- ★ the whole chain CsgTree → `InternalSurfaceFlagger` → `UnitProto::build` →
    `UnitInserter::insert_volume` / `process_daughter` → `VolumeView::internal_surfaces()`:
    if the flag the tracker reads is NOT set for a volume built from node `n` (not replaced by the
    unreachable volume), then the postfix logic stored for it evaluates, in every model of the
    tree, to a constant times a conjunction of surface literals -/
theorem runtimeFlag_sound_chain {t : Tree} (s : Struct t) (hch : NoNegAliasJoin t)
    (hsurf : ∀ i k, i < t.size → t.get i = .surface k → k < lbegin)
    (mapping : Option (List Nat)) (hmap : MappingOk t mapping) {n : Nat} (hn : n < t.size)
    {faces lgc : List Nat} (hp : postfixOf t mapping n = some (faces, lgc))
    {fl : Bool} (hfl : flag t n = some fl) (ext ss dau : Bool)
    (hout : runtimeInternalSurfaces
      (runtimeFlags (protoVolumeFlags fl ext) ss false dau) = false) :
    ∃ (c : Bool) (L : List Lit), ∀ σ v, Models t σ v →
      evalRef (insertVolumeLogic lgc false) (fun f => mapVals σ mapping (faces.getD f 0))
        = some (c && litsHold σ L) := by
  rw [runtimeInternal_eq, protoFlags_internal] at hout
  subst hout
  rcases (flagInternal_simple_chain s hch (t.size + 1) (t.size + 1) (Nat.le_refl _) n hn hfl).1
    with ⟨c, L, hc⟩
  refine ⟨c, L, fun σ v hm => ?_⟩
  show evalRef lgc _ = _
  rw [postfixOf_evalRef s hm hsurf mapping hmap hn hp, hc σ v hm]

end CelerVerif.Csg
