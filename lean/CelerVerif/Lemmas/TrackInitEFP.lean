/- ExtendFromPrimaries and the neighbouring status-changing actions (C02). -/
import CelerVerif.Lemmas.TrackInitEFS3

namespace CelerVerif.TrackInit

structure EFPInv (cfg : Cfg) (s0 : State) (n ni k : Nat) (s : State) : Prop where
  lens : Lens cfg s
  core : Core s (ni + k)
  same : s.slots = s0.slots ∧ s.vacancies = s0.vacancies ∧ s.pending = s0.pending ∧
    s.c = { s0.c with numInitializers := ni + n } ∧ s.parents = s0.parents ∧
    s.indices = s0.indices ∧ s.secCounts = s0.secCounts

theorem efp_loop {cfg : Cfg} {s0 : State} {n ni : Nat}
    (hev : ∀ p ∈ s0.pending, p.ev < cfg.maxEvents) (hn : n = s0.pending.length)
    (hcap : ni + n ≤ cfg.capacity) (k : Nat) (hk : k ≤ n) {s : State}
    (h0 : EFPInv cfg s0 n ni 0 s) :
    EFPInv cfg s0 n ni k ((List.range k).foldl (processPrimary n) s) := by
  induction k with
  | zero => simpa using h0
  | succ k ih =>
    have hI := ih (by omega)
    rw [foldl_range_succ]
    generalize (List.range k).foldl (processPrimary n) s = sk at hI
    obtain ⟨e1, e2, e3, e4, e5, e6, e7⟩ := hI.same
    have hkp : k < s0.pending.length := by omega
    have hp : sk.pending.getD k default = s0.pending[k] := by
      rw [e3]; simp [List.getD_eq_getElem?_getD, List.getElem?_eq_getElem hkp]
    have hevk : (s0.pending[k]).ev < sk.trackCounters.length := by
      rw [hI.lens.counters]; exact hev _ (List.getElem_mem hkp)
    have hidx : indexAfter (sk.c.numInitializers - n) k = ni + k := by
      rw [e4]; simp [indexAfter]
    have hlt : ni + k < sk.initializers.length := by rw [hI.lens.inits]; omega
    have hcore := core_push (s := sk) (s' := processPrimary n sk k) (ni := ni + k)
      (ev := (s0.pending[k]).ev) (pa := (s0.pending[k]).particle) (po := (s0.pending[k]).pos)
      (parent := none) hI.core hlt hevk (by intro p hp; cases hp)
      (by simp only [processPrimary, makeTrackId, hp]; rfl)
      (by simp only [processPrimary, makeTrackId, hp]; rfl)
      (by simp only [processPrimary, makeTrackId, hp, hidx]; rfl)
      (by simp [processPrimary, makeTrackId])
      (by simp [processPrimary, makeTrackId])
      (by simp [processPrimary, makeTrackId])
    refine ⟨⟨?_, ?_, ?_, ?_, ?_, ?_⟩, hcore, ?_⟩
    · simp [processPrimary, makeTrackId]; exact hI.lens.cfg_eq
    · simp [processPrimary, makeTrackId]; exact hI.lens.slots
    · simp [processPrimary, makeTrackId]; exact hI.lens.inits
    · simp [processPrimary, makeTrackId]; exact hI.lens.parents
    · simp [processPrimary, makeTrackId]; exact hI.lens.secCounts
    · simp [processPrimary, makeTrackId]; exact hI.lens.counters
    · simp only [processPrimary, makeTrackId]
      exact ⟨e1, e2, e3, e4, e5, e6, e7⟩

/-- what `extendFromPrimaries` guarantees -/
structure EFPOk (cfg : Cfg) (s s' : State) : Prop where
  lens : Lens cfg s'
  core : Core s' s'.c.numInitializers
  ninit : s'.c.numInitializers = s.c.numInitializers + s.pending.length
  ngen : s'.c.numGenerated = s.c.numGenerated + s.pending.length
  pending : s'.pending = []
  parents : ∀ p ∈ s'.parents, p = none
  same : s'.slots = s.slots ∧ s'.vacancies = s.vacancies ∧
    s'.c.numVacancies = s.c.numVacancies ∧ s'.c.numSecondaries = s.c.numSecondaries ∧
    s'.c.numAlive = s.c.numAlive ∧ s'.c.numActive = s.c.numActive

theorem efp_spec {cfg : Cfg} {s : State} (hL : Lens cfg s) (hC : Core s s.c.numInitializers)
    (hev : ∀ p ∈ s.pending, p.ev < cfg.maxEvents)
    (hcap : s.c.numInitializers + s.pending.length ≤ cfg.capacity) :
    EFPOk cfg s (extendFromPrimaries s) := by
  have h0 : EFPInv cfg s s.pending.length s.c.numInitializers 0
      { s with c := { s.c with numInitializers := s.c.numInitializers + s.pending.length } } :=
    ⟨⟨hL.cfg_eq, hL.slots, hL.inits, hL.parents, hL.secCounts, hL.counters⟩,
     core_frame hC rfl rfl rfl rfl rfl rfl hC.hasId, ⟨rfl, rfl, rfl, rfl, rfl, rfl, rfl⟩⟩
  have hfin := efp_loop (cfg := cfg) (s0 := s) hev rfl hcap s.pending.length (Nat.le_refl _) h0
  unfold extendFromPrimaries
  simp only
  generalize (List.range s.pending.length).foldl (processPrimary s.pending.length)
    { s with c := { s.c with numInitializers := s.c.numInitializers + s.pending.length } } = s2
    at hfin
  obtain ⟨e1, e2, e3, e4, e5, e6, e7⟩ := hfin.same
  refine ⟨⟨hfin.lens.cfg_eq, hfin.lens.slots, hfin.lens.inits, by simp; exact hfin.lens.parents,
    hfin.lens.secCounts, hfin.lens.counters⟩, ?_, ?_, ?_, rfl, ?_, ?_⟩
  · simp only [e4]
    exact core_frame hfin.core rfl rfl rfl rfl rfl rfl hfin.core.hasId
  · simp [e4]
  · simp [e4]
  · intro p hp; simp at hp; exact hp.2
  · simp [e1, e2, e4]

/-! ### pre-step, physics oracle, tracking cut: identities and activity are untouched -/

def OracleOk (o : List Outcome) : Prop :=
  ∀ x ∈ o, x.status = .alive ∨ x.status = .killed ∨ x.status = .errored

theorem preStepSlot_keeps (x : Slot) :
    (preStepSlot x).active = x.active ∧ (preStepSlot x).ident = x.ident ∧
    (preStepSlot x).tid = x.tid := by
  unfold preStepSlot Slot.active Slot.ident
  cases h : x.status <;> simp [h] <;> decide

theorem interactSlot_keeps (x : Slot) (o : Outcome)
    (ho : o.status = .alive ∨ o.status = .killed ∨ o.status = .errored) :
    (interactSlot x o).active = x.active ∧ (interactSlot x o).ident = x.ident ∧
    (interactSlot x o).tid = x.tid := by
  unfold interactSlot Slot.active Slot.ident
  cases h : x.status <;> rcases ho with h2 | h2 | h2 <;> simp [h, h2] <;> decide

theorem cutSlot_keeps (x : Slot) :
    (cutSlot x).active = x.active ∧ (cutSlot x).ident = x.ident ∧ (cutSlot x).tid = x.tid := by
  unfold cutSlot Slot.active Slot.ident
  cases h : x.status <;> simp [h] <;> decide

end CelerVerif.TrackInit
