/- Single-thread steps preserve the accounting invariant `Core` (C02). -/
import CelerVerif.Lemmas.TrackInitBasic

namespace CelerVerif.TrackInit

/-- what it means for a parent id to be acceptable for a new track of event `ev` -/
def ParentOk (s : State) (ev : Nat) (parent : Option Nat) : Prop :=
  ∀ p, parent = some p → ∃ q ∈ s.started, q.ev = ev ∧ q.tid = p

theorem ctr_set (s s' : State) (ev e : Nat) (h : ev < s.trackCounters.length)
    (hc : s'.trackCounters = s.trackCounters.set ev (ctr s ev + 1)) :
    ctr s' e = if e = ev then ctr s e + 1 else ctr s e := by
  have hh : ∀ t : State, ctr t e = t.trackCounters.getD e 0 := fun _ => rfl
  rw [hh s', hh s, hc, getD_set_eq]
  by_cases h1 : ev = e
  · subst h1; simp [h, ctr]
  · have : ¬ e = ev := fun h2 => h1 h2.symm
    simp [h1, this]

/-- facts shared by every step that mints a new id `(ev, ctr s ev)` -/
theorem mint_facts {s s' : State} {ni : Nat} (hC : Core s ni) {ev : Nat} {parent : Option Nat}
    (hev : ev < s.trackCounters.length) (hp : ParentOk s ev parent)
    (hc : s'.trackCounters = s.trackCounters.set ev (ctr s ev + 1))
    (hcr : s'.created = s.created ++ [⟨ev, ctr s ev, parent⟩])
    (hst : ∀ q ∈ s.started, q ∈ s'.started) :
    (∀ r ∈ s'.created, r.ev < s'.trackCounters.length ∧ r.tid < ctr s' r.ev) ∧
    (s'.created.map Rec.key).Nodup ∧
    (∀ r ∈ s'.created, ∀ p, r.parent = some p →
      p < r.tid ∧ ∃ q ∈ s'.started, q.ev = r.ev ∧ q.tid = p) := by
  have hlen : s'.trackCounters.length = s.trackCounters.length := by rw [hc]; simp
  refine ⟨?_, ?_, ?_⟩
  · intro r hr
    rw [hcr, List.mem_append] at hr
    rw [hlen, ctr_set s s' ev r.ev hev hc]
    rcases hr with hr | hr
    · have := hC.below r hr
      refine ⟨this.1, ?_⟩
      split <;> omega
    · simp at hr; subst hr; simp [hev]
  · rw [hcr, List.map_append, List.nodup_append]
    refine ⟨hC.nodup, by simp, ?_⟩
    intro a ha b hb
    simp at hb; subst hb
    simp only [List.mem_map] at ha
    obtain ⟨r, hr, rfl⟩ := ha
    have := (hC.below r hr).2
    intro heq
    simp [Rec.key] at heq
    obtain ⟨h1, h2⟩ := heq
    rw [h1] at this; omega
  · intro r hr p hpar
    rw [hcr, List.mem_append] at hr
    rcases hr with hr | hr
    · obtain ⟨h1, q, hq, h2⟩ := hC.parent r hr p hpar
      exact ⟨h1, q, hst q hq, h2⟩
    · simp at hr; subst hr
      obtain ⟨q, hq, h1, h2⟩ := hp p hpar
      refine ⟨?_, q, hst q hq, h1, h2⟩
      have := (hC.below q (hC.started_sub_created hq)).2
      simp only
      rw [h1, h2] at this; exact this

/-- push a new initializer at the cursor -/
theorem core_push {s s' : State} {ni : Nat} (hC : Core s ni) {ev pa po : Nat}
    {parent : Option Nat} (hni : ni < s.initializers.length)
    (hev : ev < s.trackCounters.length) (hp : ParentOk s ev parent)
    (hc : s'.trackCounters = s.trackCounters.set ev (ctr s ev + 1))
    (hcr : s'.created = s.created ++ [⟨ev, ctr s ev, parent⟩])
    (hin : s'.initializers = s.initializers.set ni ⟨ctr s ev, parent, ev, pa, po⟩)
    (hst : s'.started = s.started) (hfi : s'.finished = s.finished) (hsl : s'.slots = s.slots) :
    Core s' (ni + 1) := by
  obtain ⟨m1, m2, m3⟩ := mint_facts hC hev hp hc hcr (by intro q hq; rw [hst]; exact hq)
  refine ⟨?_, m1, m2, ?_, ?_, m3, ?_⟩
  · rw [hin]; simp; omega
  · intro r
    rw [hcr, hst, hin, pendL_push _ _ _ hni]
    have := hC.once r
    simp only [List.count_append, Init.ident]
    omega
  · intro r; rw [hst, hfi, hsl]; exact hC.slots r
  · rw [hsl]; exact hC.hasId

/-- initialise a new track directly in the slot of its dying parent -/
theorem core_inplace {s s' : State} {ni : Nat} (hC : Core s ni) {i : Nat} (hi : i < s.slots.length)
    {y : Slot} {parent : Option Nat} (hact : (s.slots[i]).active = true)
    (hev : (s.slots[i]).ev < s.trackCounters.length) (hp : ParentOk s (s.slots[i]).ev parent)
    (hy : y.active = true)
    (hyid : y.ident = ⟨(s.slots[i]).ev, ctr s (s.slots[i]).ev, parent⟩) (hytid : y.tid.isSome = true)
    (hc : s'.trackCounters = s.trackCounters.set (s.slots[i]).ev (ctr s (s.slots[i]).ev + 1))
    (hcr : s'.created = s.created ++ [⟨(s.slots[i]).ev, ctr s (s.slots[i]).ev, parent⟩])
    (hin : s'.initializers = s.initializers)
    (hst : s'.started = s.started ++ [⟨(s.slots[i]).ev, ctr s (s.slots[i]).ev, parent⟩])
    (hfi : s'.finished = s.finished ++ [(s.slots[i]).ident])
    (hsl : s'.slots = s.slots.set i y) : Core s' ni := by
  obtain ⟨m1, m2, m3⟩ := mint_facts hC hev hp hc hcr (by intro q hq; rw [hst]; simp [hq])
  refine ⟨?_, m1, m2, ?_, ?_, m3, ?_⟩
  · rw [hin]; exact hC.ni_le
  · intro r
    rw [hcr, hst, hin]
    have := hC.once r
    simp only [List.count_append]
    omega
  · intro r
    rw [hst, hfi, hsl]
    have h1 := hC.slots r
    have h2 := liveL_set_count s.slots i hi y r
    simp only [liveL_single, hact, hy, if_true, hyid] at h2
    simp only [List.count_append]
    omega
  · rw [hsl]
    intro x hx hxa
    rcases List.mem_or_eq_of_mem_set hx with h | h
    · exact hC.hasId x h hxa
    · subst h; exact hytid

/-- release the slot of a finished track -/
theorem core_release {s s' : State} {ni : Nat} (hC : Core s ni) {i : Nat} (hi : i < s.slots.length)
    {y : Slot} (hact : (s.slots[i]).active = true) (hy : y.active = false)
    (hc : s'.trackCounters = s.trackCounters) (hcr : s'.created = s.created)
    (hin : s'.initializers = s.initializers) (hst : s'.started = s.started)
    (hfi : s'.finished = s.finished ++ [(s.slots[i]).ident])
    (hsl : s'.slots = s.slots.set i y) : Core s' ni := by
  refine ⟨?_, ?_, ?_, ?_, ?_, ?_, ?_⟩
  · rw [hin]; exact hC.ni_le
  · intro r hr; rw [hcr] at hr
    have := hC.below r hr
    unfold ctr at *; rw [hc]; exact this
  · rw [hcr]; exact hC.nodup
  · intro r; rw [hcr, hst, hin]; exact hC.once r
  · intro r
    rw [hst, hfi, hsl]
    have h1 := hC.slots r
    have h2 := liveL_set_count s.slots i hi y r
    simp only [liveL_single, hact, hy, if_true] at h2
    simp only [List.count_append]
    simp at h2
    omega
  · intro r hr p hpar; rw [hcr] at hr; rw [hst]; exact hC.parent r hr p hpar
  · rw [hsl]
    intro x hx hxa
    rcases List.mem_or_eq_of_mem_set hx with h | h
    · exact hC.hasId x h hxa
    · subst h; rw [hy] at hxa; cases hxa

/-- changing only non-accounting fields keeps `Core` -/
theorem core_frame {s s' : State} {ni : Nat} (hC : Core s ni)
    (hc : s'.trackCounters = s.trackCounters) (hcr : s'.created = s.created)
    (hin : s'.initializers = s.initializers) (hst : s'.started = s.started)
    (hfi : s'.finished = s.finished) (hl : liveL s'.slots = liveL s.slots)
    (hid : ∀ x ∈ s'.slots, x.active = true → x.tid.isSome = true) : Core s' ni := by
  refine ⟨?_, ?_, ?_, ?_, ?_, ?_, hid⟩
  · rw [hin]; exact hC.ni_le
  · intro r hr; rw [hcr] at hr
    have := hC.below r hr
    unfold ctr at *; rw [hc]; exact this
  · rw [hcr]; exact hC.nodup
  · intro r; rw [hcr, hst, hin]; exact hC.once r
  · intro r; rw [hst, hfi, hl]; exact hC.slots r
  · intro r hr p hpar; rw [hcr] at hr; rw [hst]; exact hC.parent r hr p hpar

end CelerVerif.TrackInit
