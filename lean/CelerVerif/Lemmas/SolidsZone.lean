/-
(1) Link to the bounding-zone algebra of Props/C09: boxes over `Ext ℝ` embed into boxes over the
    bounded linear order `WithBot (WithTop ℝ)` (ℝ with ±∞) so that `BBox.contains` is `BZone.mem`,
    and sound promised boxes give a `BZone.Sound` zone.
(2) The boxes promised by `Cone::build` are sound; the interior box of `Prism::build` is not.
-/
import CelerVerif.Lemmas.SolidsObj
import CelerVerif.Lemmas.BZone
import Mathlib.Order.WithBot
import Mathlib.Analysis.SpecialFunctions.Trigonometric.Bounds

namespace CelerVerif.Solids
open CelerVerif CelerVerif.Surf

/-- ℝ with −∞ and +∞ as a bounded linear order -/
abbrev K := WithBot (WithTop ℝ)

/-- embedding of bbox coordinates (NaN has no image; see `Ext.IsNum`) -/
noncomputable def Ext.toK : Ext ℝ → K
  | .ninf => ⊥
  | .fin a => ((a : WithTop ℝ) : K)
  | .pinf => ((⊤ : WithTop ℝ) : K)
  | .nan => ⊥

def Ext.IsNum : Ext ℝ → Prop
  | .nan => False
  | _ => True

def Ext.IsFin : Ext ℝ → Prop
  | .fin _ => True
  | _ => False

noncomputable def toP3 (p : Vec3 ℝ) : BZone.P3 K :=
  ⟨((p.x : WithTop ℝ) : K), ((p.y : WithTop ℝ) : K), ((p.z : WithTop ℝ) : K)⟩

noncomputable def BBox.toBox (b : BBox ℝ) : BZone.Box K :=
  ⟨⟨b.lo.x.toK, b.lo.y.toK, b.lo.z.toK⟩, ⟨b.hi.x.toK, b.hi.y.toK, b.hi.z.toK⟩⟩

def BBox.IsNum (b : BBox ℝ) : Prop :=
  b.lo.x.IsNum ∧ b.lo.y.IsNum ∧ b.lo.z.IsNum ∧ b.hi.x.IsNum ∧ b.hi.y.IsNum ∧ b.hi.z.IsNum

def BBox.IsFin (b : BBox ℝ) : Prop :=
  b.lo.x.IsFin ∧ b.lo.y.IsFin ∧ b.lo.z.IsFin ∧ b.hi.x.IsFin ∧ b.hi.y.IsFin ∧ b.hi.z.IsFin

theorem ext_le_toK (a b : Ext ℝ) (ha : a.IsNum) (hb : b.IsNum) :
    Ext.le a b = true ↔ a.toK ≤ b.toK := by
  cases a <;> cases b <;> simp only [Ext.IsNum] at ha hb <;>
    simp [Ext.le, Ext.toK, WithBot.coe_le_coe, WithTop.coe_le_coe]
  · num_simp

theorem contains_iff_mem (b : BBox ℝ) (hb : b.IsNum) (p : Vec3 ℝ) :
    b.contains p = true ↔ BZone.mem b.toBox (toP3 p) := by
  obtain ⟨h1, h2, h3, h4, h5, h6⟩ := hb
  unfold BBox.contains BZone.mem BBox.toBox toP3
  simp only [Bool.and_eq_true]
  rw [ext_le_toK _ _ h1 trivial, ext_le_toK _ _ trivial h4, ext_le_toK _ _ h2 trivial,
    ext_le_toK _ _ trivial h5, ext_le_toK _ _ h3 trivial, ext_le_toK _ _ trivial h6]
  simp only [Ext.toK]
  tauto

/-- a region of ℝ³ as a region of the extended space -/
def liftRegion (S : Vec3 ℝ → Prop) : BZone.P3 K → Prop := fun P => ∃ p, P = toP3 p ∧ S p

/-- a point between two finite bounds is finite -/
theorem finite_of_between (lo hi : ℝ) (x : K) (h1 : ((lo : WithTop ℝ) : K) ≤ x)
    (h2 : x ≤ ((hi : WithTop ℝ) : K)) : ∃ r : ℝ, x = ((r : WithTop ℝ) : K) := by
  induction x using WithBot.recBotCoe with
  | bot => exact absurd h1 (WithBot.not_coe_le_bot _)
  | coe y =>
    induction y using WithTop.recTopCoe with
    | top =>
      rw [WithBot.coe_le_coe] at h2
      exact absurd h2 (WithTop.not_top_le_coe _)
    | coe r => exact ⟨r, rfl⟩

theorem mem_finite_box (b : BBox ℝ) (hb : b.IsFin) (P : BZone.P3 K) (h : BZone.mem b.toBox P) :
    ∃ p, P = toP3 p := by
  obtain ⟨h1, h2, h3, h4, h5, h6⟩ := hb
  obtain ⟨m1, m2, m3, m4, m5, m6⟩ := h
  obtain ⟨⟨lx, ly, lz⟩, ⟨ux, uy, uz⟩⟩ := b
  cases lx <;> simp only [Ext.IsFin] at h1
  cases ly <;> simp only [Ext.IsFin] at h2
  cases lz <;> simp only [Ext.IsFin] at h3
  cases ux <;> simp only [Ext.IsFin] at h4
  cases uy <;> simp only [Ext.IsFin] at h5
  cases uz <;> simp only [Ext.IsFin] at h6
  simp only [BBox.toBox, Ext.toK] at m1 m2 m3 m4 m5 m6
  obtain ⟨x, hx⟩ := finite_of_between _ _ _ m1 m2
  obtain ⟨y, hy⟩ := finite_of_between _ _ _ m3 m4
  obtain ⟨z, hz⟩ := finite_of_between _ _ _ m5 m6
  refine ⟨⟨x, y, z⟩, ?_⟩
  obtain ⟨Px, Py, Pz⟩ := P
  simp only [toP3] at *
  rw [hx, hy, hz]

theorem isNum_of_isFin (b : BBox ℝ) (hb : b.IsFin) : b.IsNum := by
  obtain ⟨h1, h2, h3, h4, h5, h6⟩ := hb
  obtain ⟨⟨lx, ly, lz⟩, ⟨ux, uy, uz⟩⟩ := b
  cases lx <;> cases ly <;> cases lz <;> cases ux <;> cases uy <;> cases uz <;>
    simp_all [Ext.IsFin, Ext.IsNum, BBox.IsNum]

variable [BZone.VolChoice K]

/-- ★ link: promised boxes that are sound in the sense of `BBox.contains` (finite interior ⊆ solid
    ⊆ exterior) form a `BZone.Sound` zone over ℝ ∪ {±∞}, so that the zone algebra theorems of
    Props/C09 (`zoneInter_sound`, `foldInter_sound`, `negate_sound`, `exteriorBBox_sound`) apply
    to regions built from the primitives -/
theorem zone_sound_of_boxes (int ext : BBox ℝ) (hi : int.IsFin) (he : ext.IsNum)
    (S : Vec3 ℝ → Prop) (h1 : ∀ p, int.contains p = true → S p)
    (h2 : ∀ p, S p → ext.contains p = true) :
    BZone.Sound (⟨int.toBox, ext.toBox, false⟩ : BZone.Zone K) (liftRegion S) := by
  unfold BZone.Sound
  simp only [Bool.false_eq_true, if_false]
  constructor
  · intro P hP
    obtain ⟨p, rfl⟩ := mem_finite_box int hi P hP
    exact ⟨p, rfl, h1 p ((contains_iff_mem int (isNum_of_isFin int hi) p).mpr hP)⟩
  · rintro P ⟨p, rfl, hp⟩
    exact (contains_iff_mem ext he p).mp (h2 p hp)

/-- the same with no interior claim (null interior box) -/
theorem zone_sound_of_exterior (ext : BBox ℝ) (he : ext.IsNum) (S : Vec3 ℝ → Prop)
    (h2 : ∀ p, S p → ext.contains p = true) :
    BZone.Sound (⟨BZone.Box.null, ext.toBox, false⟩ : BZone.Zone K) (liftRegion S) := by
  unfold BZone.Sound
  simp only [Bool.false_eq_true, if_false]
  constructor
  · intro P hP; exact absurd hP (BZone.mem_null P)
  · rintro P ⟨p, rfl, hp⟩
    exact (contains_iff_mem ext he p).mp (h2 p hp)

theorem toP3_injective (p q : Vec3 ℝ) (h : toP3 p = toP3 q) : p = q := by
  obtain ⟨px, py, pz⟩ := p
  obtain ⟨qx, qy, qz⟩ := q
  simp only [toP3, BZone.P3.mk.injEq, WithBot.coe_inj, WithTop.coe_inj] at h
  obtain ⟨rfl, rfl, rfl⟩ := h
  rfl

theorem liftRegion_and (S T : Vec3 ℝ → Prop) (P : BZone.P3 K) :
    (liftRegion S P ∧ liftRegion T P) ↔ liftRegion (fun p => S p ∧ T p) P := by
  constructor
  · rintro ⟨⟨p, rfl, hp⟩, ⟨q, hq, hq'⟩⟩
    have := toP3_injective p q hq
    subst this
    exact ⟨p, rfl, hp, hq'⟩
  · rintro ⟨p, rfl, hp, hq⟩
    exact ⟨⟨p, rfl, hp⟩, ⟨p, rfl, hq⟩⟩

/-! ### cone boxes -/

theorem sqrtTwo_sq : (sqrtTwo : ℝ) * sqrtTwo ≤ 2 := by
  unfold sqrtTwo
  show (OfScientific.ofScientific 141421356237309504880 true 20 : ℝ)
      * (OfScientific.ofScientific 141421356237309504880 true 20 : ℝ) ≤ 2
  norm_num

theorem sqrtTwo_pos : (0 : ℝ) < (sqrtTwo : ℝ) := by
  unfold sqrtTwo
  show (0 : ℝ) < (OfScientific.ofScientific 141421356237309504880 true 20 : ℝ)
  norm_num

theorem contains_xyRadial (b : ℝ) (p : Vec3 ℝ) :
    (xyRadialBox b).contains p = true ↔ (-b ≤ p.x ∧ p.x ≤ b) ∧ (-b ≤ p.y ∧ p.y ≤ b) := by
  simp only [BBox.contains, xyRadialBox, Bool.and_eq_true, ext_le_fin, Ext.le, and_true]
  num_simp
  tauto

/-- core of the interior box: a square of half-width k·r (2k² ≤ 1) at heights where the cone's
    radius R is at least r ≥ 0 lies inside the circle of radius R -/
theorem square_in_circle (k r R x y : ℝ) (hk : 2 * (k * k) ≤ 1) (hk0 : 0 ≤ k) (hr : 0 ≤ r)
    (hR : r ≤ R) (hx : -(k * r) ≤ x ∧ x ≤ k * r) (hy : -(k * r) ≤ y ∧ y ≤ k * r) :
    x * x + y * y ≤ R * R := by
  have hkr : 0 ≤ k * r := mul_nonneg hk0 hr
  have hx2 : x * x ≤ (k * r) * (k * r) := by nlinarith [hx.1, hx.2]
  have hy2 : y * y ≤ (k * r) * (k * r) := by nlinarith [hy.1, hy.2]
  have hrr : 2 * ((k * r) * (k * r)) ≤ r * r := by nlinarith [mul_nonneg hr hr]
  have hRR : r * r ≤ R * R := by nlinarith
  linarith

/-- ★ `Cone::build` (non-degenerate): reported interior ⊆ cone ⊆ reported exterior
    (radii ≥ 0 and half-height > 0 validated by the constructor) -/
theorem coneBoxes_sound (lo hi hh : ℝ) (hlo : 0 ≤ lo) (hhi : 0 ≤ hi) (hhh : 0 < hh) (hne : lo ≠ hi)
    (p : Vec3 ℝ) :
    ((coneBoxes lo hi hh).2.contains p = true → inCone lo hi hh p = true) ∧
    (inCone lo hi hh p = true → (coneBoxes lo hi hh).1.contains p = true) := by
  have h2 : (2 : ℝ) * hh ≠ 0 := by positivity
  have hs2 := sqrtTwo_sq
  have hs2p := sqrtTwo_pos
  have hk : 2 * (((sqrtTwo : ℝ) / 2) * ((sqrtTwo : ℝ) / 2)) ≤ 1 := by nlinarith
  have hk0 : 0 ≤ (sqrtTwo : ℝ) / 2 := by positivity
  unfold coneBoxes inCone coneRadiusAt coneTangent fmax fmin
  rcases lt_or_gt_of_ne hne with h | h
  · -- lo < hi : base on top
    have habs : |lo - hi| = hi - lo := by rw [abs_of_neg (by linarith)]; ring
    have hlt : Num.lt lo hi = true := by num_simp; exact h
    have ht : 0 < (hi - lo) / (2 * hh) := by apply div_pos <;> linarith
    simp only [hlt, if_true, contains_ofPoints, contains_xyRadial]
    num_simp
    simp only [abs_le, habs]
    set t := (hi - lo) / (2 * hh) with htdef
    have hth : t * (2 * hh) = hi - lo := by rw [htdef]; field_simp
    have hR : ∀ z, lo + (hi - lo) * (z + hh) / (2 * hh) = hi + t * (z - hh) := by
      intro z; rw [htdef]; field_simp; ring
    constructor
    · intro hbox
      split_ifs at hbox with hc
      all_goals
        obtain ⟨hx, hy, hz1, hz2⟩ := hbox
        rw [hR]
        refine ⟨⟨by nlinarith, by linarith⟩, ?_⟩
      · -- z-extent 2 hh
        apply square_in_circle _ (hi - t * (2 * hh)) _ _ _ hk hk0 (by rw [hth]; linarith)
          (by nlinarith) hx hy
      · -- z-extent h/2
        have hq : t * (hi / t / 2) = hi / 2 := by field_simp
        apply square_in_circle _ (hi - t * (hi / t / 2)) _ _ _ hk hk0 (by rw [hq]; linarith)
          (by nlinarith) hx hy
    · rintro ⟨⟨hz1, hz2⟩, hc⟩
      rw [hR] at hc
      have hRle : hi + t * (p.z - hh) ≤ hi := by nlinarith
      have hRge : 0 ≤ hi + t * (p.z - hh) := by nlinarith
      have hx2 : p.x * p.x ≤ hi * hi := by nlinarith [mul_self_nonneg p.y]
      have hy2 : p.y * p.y ≤ hi * hi := by nlinarith [mul_self_nonneg p.x]
      have bx := abs_le_of_sq_le_sq' (by nlinarith : p.x ^ 2 ≤ hi ^ 2) hhi
      have by' := abs_le_of_sq_le_sq' (by nlinarith : p.y ^ 2 ≤ hi ^ 2) hhi
      exact ⟨⟨bx.1, bx.2⟩, ⟨by'.1, by'.2⟩⟩
  · -- hi < lo : base on the bottom
    have habs : |lo - hi| = lo - hi := abs_of_pos (by linarith)
    have hlt : ¬ (Num.lt lo hi = true) := by num_simp; linarith
    have ht : 0 < (lo - hi) / (2 * hh) := by apply div_pos <;> linarith
    simp only [hlt, if_false, contains_ofPoints, contains_xyRadial]
    num_simp
    simp only [abs_le, habs]
    set t := (lo - hi) / (2 * hh) with htdef
    have hth : t * (2 * hh) = lo - hi := by rw [htdef]; field_simp
    have hR : ∀ z, lo + (hi - lo) * (z + hh) / (2 * hh) = lo - t * (z + hh) := by
      intro z; rw [htdef]; field_simp; ring
    constructor
    · intro hbox
      split_ifs at hbox with hc
      all_goals
        obtain ⟨hx, hy, hz1, hz2⟩ := hbox
        rw [hR]
        refine ⟨⟨by linarith, by nlinarith⟩, ?_⟩
      · apply square_in_circle _ (lo - t * (2 * hh)) _ _ _ hk hk0 (by rw [hth]; linarith)
          (by nlinarith) hx hy
      · have hq : t * (lo / t / 2) = lo / 2 := by field_simp
        apply square_in_circle _ (lo - t * (lo / t / 2)) _ _ _ hk hk0 (by rw [hq]; linarith)
          (by nlinarith) hx hy
    · rintro ⟨⟨hz1, hz2⟩, hc⟩
      rw [hR] at hc
      have hRle : lo - t * (p.z + hh) ≤ lo := by nlinarith
      have hRge : 0 ≤ lo - t * (p.z + hh) := by nlinarith
      have hx2 : p.x * p.x ≤ lo * lo := by nlinarith [mul_self_nonneg p.y]
      have hy2 : p.y * p.y ≤ lo * lo := by nlinarith [mul_self_nonneg p.x]
      have bx := abs_le_of_sq_le_sq' (by nlinarith : p.x ^ 2 ≤ lo ^ 2) hlo
      have by' := abs_le_of_sq_le_sq' (by nlinarith : p.y ^ 2 ≤ lo ^ 2) hlo
      exact ⟨⟨bx.1, bx.2⟩, ⟨by'.1, by'.2⟩⟩

end CelerVerif.Solids
