/-
(1) Link to the bounding-zone algebra of Props/C09: boxes over `Ext ℝ` embed into boxes over the
    bounded linear order `WithBot (WithTop ℝ)` (ℝ with ±∞) so that `BBox.contains` is `BZone.mem`,
    and sound promised boxes give a `BZone.Sound` zone.
(2) The boxes promised by `Cone::build` are sound; the interior box of `Prism::build` is not.
-/
import CelerVerif.Lemmas.SolidsObj
import CelerVerif.Lemmas.BZone
import Mathlib.Order.WithBot
import Mathlib.Analysis.SpecialFunctions.Trigonometric.Bounds

namespace CelerVerif.Solids
open CelerVerif CelerVerif.Surf

/-- ℝ with −∞ and +∞ as a bounded linear order -/
abbrev K := WithBot (WithTop ℝ)

/-- embedding of bbox coordinates (NaN has no image; see `Ext.IsNum`) -/
noncomputable def Ext.toK : Ext ℝ → K
  | .ninf => ⊥
  | .fin a => ((a : WithTop ℝ) : K)
  | .pinf => ((⊤ : WithTop ℝ) : K)
  | .nan => ⊥

def Ext.IsNum : Ext ℝ → Prop
  | .nan => False
  | _ => True

def Ext.IsFin : Ext ℝ → Prop
  | .fin _ => True
  | _ => False

noncomputable def toP3 (p : Vec3 ℝ) : BZone.P3 K :=
  ⟨((p.x : WithTop ℝ) : K), ((p.y : WithTop ℝ) : K), ((p.z : WithTop ℝ) : K)⟩

noncomputable def BBox.toBox (b : BBox ℝ) : BZone.Box K :=
  ⟨⟨b.lo.x.toK, b.lo.y.toK, b.lo.z.toK⟩, ⟨b.hi.x.toK, b.hi.y.toK, b.hi.z.toK⟩⟩

def BBox.IsNum (b : BBox ℝ) : Prop :=
  b.lo.x.IsNum ∧ b.lo.y.IsNum ∧ b.lo.z.IsNum ∧ b.hi.x.IsNum ∧ b.hi.y.IsNum ∧ b.hi.z.IsNum

def BBox.IsFin (b : BBox ℝ) : Prop :=
  b.lo.x.IsFin ∧ b.lo.y.IsFin ∧ b.lo.z.IsFin ∧ b.hi.x.IsFin ∧ b.hi.y.IsFin ∧ b.hi.z.IsFin

theorem ext_le_toK (a b : Ext ℝ) (ha : a.IsNum) (hb : b.IsNum) :
    Ext.le a b = true ↔ a.toK ≤ b.toK := by
  cases a <;> cases b <;> simp only [Ext.IsNum] at ha hb <;>
    simp [Ext.le, Ext.toK, WithBot.coe_le_coe, WithTop.coe_le_coe]

theorem contains_iff_mem (b : BBox ℝ) (hb : b.IsNum) (p : Vec3 ℝ) :
    b.contains p = true ↔ BZone.mem b.toBox (toP3 p) := by
  obtain ⟨h1, h2, h3, h4, h5, h6⟩ := hb
  unfold BBox.contains BZone.mem BBox.toBox toP3
  simp only [Bool.and_eq_true]
  rw [ext_le_toK b.lo.x (Ext.fin p.x) h1 trivial, ext_le_toK (Ext.fin p.x) b.hi.x trivial h4,
    ext_le_toK b.lo.y (Ext.fin p.y) h2 trivial, ext_le_toK (Ext.fin p.y) b.hi.y trivial h5,
    ext_le_toK b.lo.z (Ext.fin p.z) h3 trivial, ext_le_toK (Ext.fin p.z) b.hi.z trivial h6]
  simp only [Ext.toK]
  tauto

/-- a region of ℝ³ as a region of the extended space -/
def liftRegion (S : Vec3 ℝ → Prop) : BZone.P3 K → Prop := fun P => ∃ p, P = toP3 p ∧ S p

/-- a point between two finite bounds is finite -/
theorem finite_of_between (lo hi : ℝ) (x : K) (h1 : ((lo : WithTop ℝ) : K) ≤ x)
    (h2 : x ≤ ((hi : WithTop ℝ) : K)) : ∃ r : ℝ, x = ((r : WithTop ℝ) : K) := by
  induction x using WithBot.recBotCoe with
  | bot => exact absurd h1 (WithBot.not_coe_le_bot _)
  | coe y =>
    induction y using WithTop.recTopCoe with
    | top =>
      rw [WithBot.coe_le_coe] at h2
      exact absurd h2 (WithTop.not_top_le_coe _)
    | coe r => exact ⟨r, rfl⟩

theorem mem_finite_box (b : BBox ℝ) (hb : b.IsFin) (P : BZone.P3 K) (h : BZone.mem b.toBox P) :
    ∃ p, P = toP3 p := by
  obtain ⟨h1, h2, h3, h4, h5, h6⟩ := hb
  obtain ⟨m1, m2, m3, m4, m5, m6⟩ := h
  obtain ⟨⟨lx, ly, lz⟩, ⟨ux, uy, uz⟩⟩ := b
  cases lx <;> simp only [Ext.IsFin] at h1
  cases ly <;> simp only [Ext.IsFin] at h2
  cases lz <;> simp only [Ext.IsFin] at h3
  cases ux <;> simp only [Ext.IsFin] at h4
  cases uy <;> simp only [Ext.IsFin] at h5
  cases uz <;> simp only [Ext.IsFin] at h6
  simp only [BBox.toBox, Ext.toK] at m1 m2 m3 m4 m5 m6
  obtain ⟨x, hx⟩ := finite_of_between _ _ _ m1 m2
  obtain ⟨y, hy⟩ := finite_of_between _ _ _ m3 m4
  obtain ⟨z, hz⟩ := finite_of_between _ _ _ m5 m6
  refine ⟨⟨x, y, z⟩, ?_⟩
  obtain ⟨Px, Py, Pz⟩ := P
  simp only [toP3] at *
  rw [hx, hy, hz]

theorem isNum_of_isFin (b : BBox ℝ) (hb : b.IsFin) : b.IsNum := by
  obtain ⟨h1, h2, h3, h4, h5, h6⟩ := hb
  obtain ⟨⟨lx, ly, lz⟩, ⟨ux, uy, uz⟩⟩ := b
  cases lx <;> cases ly <;> cases lz <;> cases ux <;> cases uy <;> cases uz <;>
    simp_all [Ext.IsFin, Ext.IsNum, BBox.IsNum]

section Link
variable [BZone.VolChoice K]

/-- ★ link: promised boxes that are sound in the sense of `BBox.contains` (finite interior ⊆ solid
    ⊆ exterior) form a `BZone.Sound` zone over ℝ ∪ {±∞}, so that the zone algebra theorems of
    Props/C09 (`zoneInter_sound`, `foldInter_sound`, `negate_sound`, `exteriorBBox_sound`) apply
    to regions built from the primitives -/
theorem zone_sound_of_boxes (int ext : BBox ℝ) (hi : int.IsFin) (he : ext.IsNum)
    (S : Vec3 ℝ → Prop) (h1 : ∀ p, int.contains p = true → S p)
    (h2 : ∀ p, S p → ext.contains p = true) :
    BZone.Sound (⟨int.toBox, ext.toBox, false⟩ : BZone.Zone K) (liftRegion S) := by
  unfold BZone.Sound
  simp only [Bool.false_eq_true, if_false]
  constructor
  · intro P hP
    obtain ⟨p, rfl⟩ := mem_finite_box int hi P hP
    exact ⟨p, rfl, h1 p ((contains_iff_mem int (isNum_of_isFin int hi) p).mpr hP)⟩
  · rintro P ⟨p, rfl, hp⟩
    exact (contains_iff_mem ext he p).mp (h2 p hp)

/-- the same with no interior claim (null interior box) -/
theorem zone_sound_of_exterior (ext : BBox ℝ) (he : ext.IsNum) (S : Vec3 ℝ → Prop)
    (h2 : ∀ p, S p → ext.contains p = true) :
    BZone.Sound (⟨BZone.Box.null, ext.toBox, false⟩ : BZone.Zone K) (liftRegion S) := by
  unfold BZone.Sound
  simp only [Bool.false_eq_true, if_false]
  constructor
  · intro P hP; exact absurd hP (BZone.mem_null P)
  · rintro P ⟨p, rfl, hp⟩
    exact (contains_iff_mem ext he p).mp (h2 p hp)

end Link

theorem toP3_injective (p q : Vec3 ℝ) (h : toP3 p = toP3 q) : p = q := by
  obtain ⟨px, py, pz⟩ := p
  obtain ⟨qx, qy, qz⟩ := q
  simp only [toP3, BZone.P3.mk.injEq, WithBot.coe_inj, WithTop.coe_inj] at h
  obtain ⟨rfl, rfl, rfl⟩ := h
  rfl

theorem liftRegion_and (S T : Vec3 ℝ → Prop) (P : BZone.P3 K) :
    (liftRegion S P ∧ liftRegion T P) ↔ liftRegion (fun p => S p ∧ T p) P := by
  constructor
  · rintro ⟨⟨p, rfl, hp⟩, ⟨q, hq, hq'⟩⟩
    have := toP3_injective p q hq
    subst this
    exact ⟨p, rfl, hp, hq'⟩
  · rintro ⟨p, rfl, hp, hq⟩
    exact ⟨⟨p, rfl, hp⟩, ⟨p, rfl, hq⟩⟩

/-! ### cone boxes -/

theorem sqrtTwo_sq : (sqrtTwo : ℝ) * sqrtTwo ≤ 2 := by
  unfold sqrtTwo
  show (OfScientific.ofScientific 141421356237309504880 true 20 : ℝ)
      * (OfScientific.ofScientific 141421356237309504880 true 20 : ℝ) ≤ 2
  norm_num

theorem sqrtTwo_pos : (0 : ℝ) < (sqrtTwo : ℝ) := by
  unfold sqrtTwo
  show (0 : ℝ) < (OfScientific.ofScientific 141421356237309504880 true 20 : ℝ)
  norm_num

theorem contains_xyRadial (b : ℝ) (p : Vec3 ℝ) :
    (xyRadialBox b).contains p = true ↔ (-b ≤ p.x ∧ p.x ≤ b) ∧ (-b ≤ p.y ∧ p.y ≤ b) := by
  simp only [BBox.contains, xyRadialBox, Bool.and_eq_true, ext_le_fin, Ext.le, and_true]
  num_simp
  tauto

/-- core of the interior box: a square of half-width k·r (2k² ≤ 1) at heights where the cone's
    radius R is at least r ≥ 0 lies inside the circle of radius R -/
theorem square_in_circle (k r R x y : ℝ) (hk : 2 * (k * k) ≤ 1) (hk0 : 0 ≤ k) (hr : 0 ≤ r)
    (hR : r ≤ R) (hx : -(k * r) ≤ x ∧ x ≤ k * r) (hy : -(k * r) ≤ y ∧ y ≤ k * r) :
    x * x + y * y ≤ R * R := by
  have hkr : 0 ≤ k * r := mul_nonneg hk0 hr
  have hx2 : x * x ≤ (k * r) * (k * r) := by nlinarith [hx.1, hx.2]
  have hy2 : y * y ≤ (k * r) * (k * r) := by nlinarith [hy.1, hy.2]
  have hrr : 2 * ((k * r) * (k * r)) ≤ r * r := by nlinarith [mul_nonneg hr hr]
  have hRR : r * r ≤ R * R := by nlinarith
  linarith

/-- ★ `Cone::build` (non-degenerate): reported interior ⊆ cone ⊆ reported exterior
    (radii ≥ 0 and half-height > 0 validated by the constructor) -/
theorem coneBoxes_sound (lo hi hh : ℝ) (hlo : 0 ≤ lo) (hhi : 0 ≤ hi) (hhh : 0 < hh) (hne : lo ≠ hi)
    (p : Vec3 ℝ) :
    ((coneBoxes lo hi hh).2.contains p = true → inCone lo hi hh p = true) ∧
    (inCone lo hi hh p = true → (coneBoxes lo hi hh).1.contains p = true) := by
  have h2 : (2 : ℝ) * hh ≠ 0 := by positivity
  have hs2 := sqrtTwo_sq
  have hs2p := sqrtTwo_pos
  have hk : 2 * (((sqrtTwo : ℝ) / 2) * ((sqrtTwo : ℝ) / 2)) ≤ 1 := by nlinarith
  have hk0 : 0 ≤ (sqrtTwo : ℝ) / 2 := by positivity
  unfold coneBoxes inCone coneRadiusAt coneTangent fmax fmin
  rcases lt_or_gt_of_ne hne with h | h
  · -- lo < hi : base on top
    have habs : |lo - hi| = hi - lo := by rw [abs_of_neg (by linarith)]; ring
    have hlt : Num.lt lo hi = true := by num_simp; exact h
    have ht : 0 < (hi - lo) / (2 * hh) := by apply div_pos <;> linarith
    simp only [hlt, if_true, contains_ofPoints, contains_xyRadial]
    num_simp
    simp only [abs_le, habs]
    set t := (hi - lo) / (2 * hh) with htdef
    have hth : t * (2 * hh) = hi - lo := by rw [htdef]; field_simp
    have hR : ∀ z, lo + (hi - lo) * (z + hh) / (2 * hh) = hi + t * (z - hh) := by
      intro z; rw [htdef]; field_simp; ring
    constructor
    · intro hbox
      split_ifs at hbox with hc
      all_goals
        obtain ⟨hx, hy, hz1, hz2⟩ := hbox
        rw [hR]
        refine ⟨⟨by nlinarith, by linarith⟩, ?_⟩
      · -- z-extent 2 hh
        apply square_in_circle _ (hi - t * (2 * hh)) _ _ _ hk hk0 (by rw [hth]; linarith)
          (by nlinarith) hx hy
      · -- z-extent h/2
        have hq : t * (hi / t / 2) = hi / 2 := by field_simp
        apply square_in_circle _ (hi - t * (hi / t / 2)) _ _ _ hk hk0 (by rw [hq]; linarith)
          (by nlinarith) hx hy
    · rintro ⟨⟨hz1, hz2⟩, hc⟩
      rw [hR] at hc
      have hRle : hi + t * (p.z - hh) ≤ hi := by nlinarith
      have hRge : 0 ≤ hi + t * (p.z - hh) := by nlinarith
      have hx2 : p.x * p.x ≤ hi * hi := by nlinarith [mul_self_nonneg p.y]
      have hy2 : p.y * p.y ≤ hi * hi := by nlinarith [mul_self_nonneg p.x]
      have bx := abs_le_of_sq_le_sq' (by nlinarith : p.x ^ 2 ≤ hi ^ 2) hhi
      have by' := abs_le_of_sq_le_sq' (by nlinarith : p.y ^ 2 ≤ hi ^ 2) hhi
      exact ⟨⟨bx.1, bx.2⟩, ⟨by'.1, by'.2⟩⟩
  · -- hi < lo : base on the bottom
    have habs : |lo - hi| = lo - hi := abs_of_pos (by linarith)
    have hlt : Num.lt lo hi = false := by rw [NumR.lt_real_false]; linarith
    have ht : 0 < (lo - hi) / (2 * hh) := by apply div_pos <;> linarith
    simp only [hlt, Bool.false_eq_true, if_false, contains_ofPoints, contains_xyRadial]
    num_simp
    simp only [abs_le, habs]
    set t := (lo - hi) / (2 * hh) with htdef
    have hth : t * (2 * hh) = lo - hi := by rw [htdef]; field_simp
    have hR : ∀ z, lo + (hi - lo) * (z + hh) / (2 * hh) = lo - t * (z + hh) := by
      intro z; rw [htdef]; field_simp; ring
    constructor
    · intro hbox
      split_ifs at hbox with hc
      all_goals
        obtain ⟨hx, hy, hz1, hz2⟩ := hbox
        rw [hR]
        refine ⟨⟨by linarith, by nlinarith⟩, ?_⟩
      · apply square_in_circle _ (lo - t * (2 * hh)) _ _ _ hk hk0 (by rw [hth]; linarith)
          (by nlinarith) hx hy
      · have hq : t * (lo / t / 2) = lo / 2 := by field_simp
        apply square_in_circle _ (lo - t * (lo / t / 2)) _ _ _ hk hk0 (by rw [hq]; linarith)
          (by nlinarith) hx hy
    · rintro ⟨⟨hz1, hz2⟩, hc⟩
      rw [hR] at hc
      have hRle : lo - t * (p.z + hh) ≤ lo := by nlinarith
      have hRge : 0 ≤ lo - t * (p.z + hh) := by nlinarith
      have hx2 : p.x * p.x ≤ lo * lo := by nlinarith [mul_self_nonneg p.y]
      have hy2 : p.y * p.y ≤ lo * lo := by nlinarith [mul_self_nonneg p.x]
      have bx := abs_le_of_sq_le_sq' (by nlinarith : p.x ^ 2 ≤ lo ^ 2) hlo
      have by' := abs_le_of_sq_le_sq' (by nlinarith : p.y ^ 2 ≤ lo ^ 2) hlo
      exact ⟨⟨bx.1, bx.2⟩, ⟨by'.1, by'.2⟩⟩

/-! ### prism boxes: the interior box (square of half-width apothem) is not inside the polygon -/

theorem prismOffset_four_half : prismOffset 4 (1 / 2 : ℝ) = 1 / 2 := by
  unfold prismOffset
  simp only [fmod4]
  num_simp
  simp only [NumR.ofNat_real]
  norm_num

theorem prismTheta_four_half_zero : prismTheta 4 (1 / 2 : ℝ) 0 = (piC : ℝ) / 4 := by
  unfold prismTheta
  rw [prismOffset_four_half]
  num_simp
  simp only [NumR.ofNat_real]
  push_cast
  ring

theorem piC_quarter_bounds : (785 / 1000 : ℝ) < (piC : ℝ) / 4 ∧ (piC : ℝ) / 4 < 786 / 1000 := by
  unfold piC
  show (785 / 1000 : ℝ) < (OfScientific.ofScientific 314159265358979323846 true 20 : ℝ) / 4
    ∧ (OfScientific.ofScientific 314159265358979323846 true 20 : ℝ) / 4 < 786 / 1000
  constructor <;> norm_num

/-- ★(negative) `Prism::build`: the reported interior box `[-a, a]² × [-hh, hh]` is not inside the
    prism: 4 sides, apothem 1, orientation 1/2 (a diamond); (9/10, 9/10, 0) is in the box but
    violates the face at π/4 -/
theorem prism_interior_bbox_unsound :
    ∃ p : Vec3 ℝ, (prismBoxes 4 (1 : ℝ) 1).2.contains p = true ∧ inPrism 4 1 1 (1 / 2) p = false := by
  refine ⟨⟨9 / 10, 9 / 10, 0⟩, ?_, ?_⟩
  · simp only [prismBoxes, xyRadialBox, BBox.shrinkLo, BBox.shrinkHi, Vec3.set, Vec3.get, Axis.toNat,
      Ext.fmax, Ext.fmin, Ext.max, Ext.min, Ext.lt, BBox.contains, Ext.le, Bool.and_eq_true,
      if_true, Bool.false_eq_true, if_false]
    num_simp
    norm_num
  · rw [Bool.eq_false_iff]
    intro h
    unfold inPrism at h
    rw [Bool.and_eq_true, List.all_eq_true] at h
    have h0 := h.2 0 (by simp)
    rw [prismTheta_four_half_zero] at h0
    num_simp at h0
    simp only [NumR.cos_real, NumR.sin_real] at h0
    obtain ⟨hx1, hx2⟩ := piC_quarter_bounds
    set x : ℝ := (piC : ℝ) / 4 with hxdef
    have hxpos : 0 < x := by linarith
    have hc := Real.one_sub_sq_div_two_le_cos (x := x)
    have hs := Real.sin_gt_sub_cube hxpos
    have hx2sq : x ^ 2 ≤ (786 / 1000 : ℝ) ^ 2 := pow_le_pow_left₀ hxpos.le hx2.le 2
    have hx3 : x ^ 3 ≤ (786 / 1000 : ℝ) ^ 3 := pow_le_pow_left₀ hxpos.le hx2.le 3
    norm_num at hx2sq hx3
    linarith

/-! ### GenPrism: planar side faces -/

/-- a planar side face `Plane{make_unit_vector(v), a}` (v = (jlo − ilo) × (ihi − ilo), a = ilo; or
    the hi variant) is, up to the positive factor 1/‖v‖, the half-space test v·(p − a): the plane
    through the vertex a with (outward) normal v -/
theorem plane_through_unit (v a p : Vec3 ℝ) (hv : 0 < v.x * v.x + v.y * v.y + v.z * v.z) :
    ∃ s : ℝ, 0 < s ∧
      (Surface.plane (makeUnit v) (Vec3.dot (makeUnit v) a)).quadric p
        = s * (v.x * (p.x - a.x) + v.y * (p.y - a.y) + v.z * (p.z - a.z)) := by
  have hD : 0 < v.z * v.z + (v.y * v.y + v.x * v.x) := by linarith
  refine ⟨1 / Real.sqrt (v.z * v.z + (v.y * v.y + v.x * v.x)), by positivity, ?_⟩
  simp only [Surface.quadric, makeUnit, Vec3.norm]
  vec_simp
  num_simp
  ring

/-- ★ twisted side faces are exactly the ruled surface between the two vertical edges: with the
    edge end points interpolated linearly in z, vᵢ(z) = loᵢ + (hiᵢ − loᵢ)(z + hz)/(2 hz), the
    emitted quadric is minus the orientation determinant (vⱼ − vᵢ) × (p − vᵢ), so "inside"
    (negative quadric) is "to the left of the edge i → j of the cross-section at height z" -/
theorem twistedFace_quadric (hz : ℝ) (hhz : 0 < hz) (li lj hi_ hj : P2 ℝ) (p : Vec3 ℝ) :
    (twistedFace hz li lj hi_ hj).quadric p
      = -(((lj.1 + (hj.1 - lj.1) * ((p.z + hz) / (2 * hz))) - (li.1 + (hi_.1 - li.1) * ((p.z + hz) / (2 * hz))))
            * (p.y - (li.2 + (hi_.2 - li.2) * ((p.z + hz) / (2 * hz))))
          - ((lj.2 + (hj.2 - lj.2) * ((p.z + hz) / (2 * hz))) - (li.2 + (hi_.2 - li.2) * ((p.z + hz) / (2 * hz))))
            * (p.x - (li.1 + (hi_.1 - li.1) * ((p.z + hz) / (2 * hz))))) := by
  have h5 : (Num.ofSci 5 true 1 : ℝ) = 1 / 2 := by
    show (OfScientific.ofScientific 5 true 1 : ℝ) = 1 / 2
    norm_num
  have hne : hz ≠ 0 := ne_of_gt hhz
  simp only [twistedFace, Surface.quadric]
  num_simp
  have h5' : (@OfScientific.ofScientific ℝ (Num.instOfScientific) 5 true 1) = 1 / 2 := h5
  simp only [h5']
  field_simp
  ring

end CelerVerif.Solids
