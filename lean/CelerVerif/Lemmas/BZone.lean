/-
Soundness of the bounding-zone algebra for every bounded linear order of coordinates and
every tie-breaking rule of the "larger box" choice.
-/
import CelerVerif.Model.BZone
import Mathlib.Order.BoundedOrder.Basic
import Mathlib.Order.Lattice
import Mathlib.Logic.Nontrivial.Basic
import Mathlib.Order.Basic
import Mathlib.Order.MinMax
import Mathlib.Tactic.Tauto

namespace CelerVerif.BZone

/-- the arbitrary rule that picks one of two boxes in `calc_union(…, shrink)` -/
class VolChoice (κ : Type) where
  vg : (κ × κ × κ) × (κ × κ × κ) → (κ × κ × κ) × (κ × κ × κ) → Bool

variable {κ : Type} [LinearOrder κ] [BoundedOrder κ] [Nontrivial κ] [VolChoice κ]

instance orderCoord : BCoord κ where
  le a b := decide (a ≤ b)
  lt a b := decide (a < b)
  top := ⊤
  bot := ⊥
  volGt := VolChoice.vg

@[simp] theorem le_iff (a b : κ) : BCoord.le a b = true ↔ a ≤ b := by
  show decide (a ≤ b) = true ↔ _; simp
@[simp] theorem lt_iff (a b : κ) : BCoord.lt a b = true ↔ a < b := by
  show decide (a < b) = true ↔ _; simp
@[simp] theorem top_eq : (BCoord.top : κ) = ⊤ := rfl
@[simp] theorem bot_eq : (BCoord.bot : κ) = ⊥ := rfl

theorem cmin_eq (a b : κ) : cmin a b = min a b := by
  unfold cmin; by_cases h : b < a
  · simp [h, min_eq_right (le_of_lt h)]
  · simp [h, min_eq_left (not_lt.mp h)]
theorem cmax_eq (a b : κ) : cmax a b = max a b := by
  unfold cmax; by_cases h : a < b
  · simp [h, max_eq_right (le_of_lt h)]
  · simp [h, max_eq_left (not_lt.mp h)]

/-- the point set of a box -/
def mem (b : Box κ) (p : P3 κ) : Prop :=
  b.lo.x ≤ p.x ∧ p.x ≤ b.hi.x ∧ b.lo.y ≤ p.y ∧ p.y ≤ b.hi.y ∧ b.lo.z ≤ p.z ∧ p.z ≤ b.hi.z

theorem contains_iff (b : Box κ) (p : P3 κ) : b.contains p = true ↔ mem b p := by
  unfold Box.contains mem; simp [and_assoc]

theorem bot_lt_top' : (⊥ : κ) < ⊤ := bot_lt_top

theorem mem_null (p : P3 κ) : ¬ mem (Box.null : Box κ) p := by
  unfold mem Box.null; simp only [top_eq, bot_eq]
  rintro ⟨h1, h2, -⟩
  exact absurd (le_trans h1 h2) (not_le.mpr bot_lt_top')

theorem mem_infinite (p : P3 κ) : mem (Box.infinite : Box κ) p := by
  unfold mem Box.infinite; simp

theorem not_mem_of_null {b : Box κ} (h : b.nonNull = false) (p : P3 κ) : ¬ mem b p := by
  unfold Box.nonNull at h
  intro hm; unfold mem at hm
  obtain ⟨a1, a2, b1, b2, c1, c2⟩ := hm
  have : (BCoord.le b.lo.x b.hi.x && BCoord.le b.lo.y b.hi.y && BCoord.le b.lo.z b.hi.z) = true := by
    simp only [Bool.and_eq_true, le_iff]
    exact ⟨⟨le_trans a1 a2, le_trans b1 b2⟩, le_trans c1 c2⟩
  rw [h] at this; exact Bool.false_ne_true this

theorem encloses_mem {a b : Box κ} (h : encloses a b = true) {p : P3 κ} (hp : mem b p) : mem a p := by
  unfold encloses at h
  simp only [Bool.and_eq_true, le_iff] at h
  obtain ⟨⟨⟨x1, x2⟩, y1, y2⟩, z1, z2⟩ := h
  obtain ⟨a1, a2, b1, b2, c1, c2⟩ := hp
  exact ⟨le_trans x1 a1, le_trans a2 x2, le_trans y1 b1, le_trans b2 y2, le_trans z1 c1,
    le_trans c2 z2⟩

theorem mem_boxInter (a b : Box κ) (p : P3 κ) : mem (boxInter a b) p ↔ mem a p ∧ mem b p := by
  unfold boxInter mem; simp only [cmin_eq, cmax_eq, max_le_iff, le_min_iff]; tauto

theorem mem_boxUnion {a b : Box κ} {p : P3 κ} (h : mem a p ∨ mem b p) : mem (boxUnion a b) p := by
  unfold boxUnion mem; simp only [cmin_eq, cmax_eq, min_le_iff, le_max_iff]
  rcases h with h | h <;> obtain ⟨a1, a2, b1, b2, c1, c2⟩ := h <;> tauto

theorem calcDifference_shrink {a b : Box κ} {p : P3 κ}
    (h : mem (calcDifference a b .shrink) p) : mem a p ∧ ¬ mem b p := by
  unfold calcDifference at h
  split_ifs at h with h1 h2 h3
  · simp only [Bool.not_eq_true'] at h1
    exact ⟨h, not_mem_of_null h1 p⟩
  · exact absurd h (mem_null p)
  · exact absurd h (mem_null p)
  · exact absurd h (mem_null p)

theorem calcDifference_grow {a b : Box κ} {p : P3 κ} (h : mem a p) (hb : ¬ mem b p) :
    mem (calcDifference a b .grow) p := by
  unfold calcDifference
  split_ifs with h1 h2 h3
  · exact h
  · exact h
  · exact absurd (encloses_mem h3 h) hb
  · exact mem_infinite p

theorem calcUnionOp_shrink {a b : Box κ} {p : P3 κ} (h : mem (calcUnionOp a b .shrink) p) :
    mem a p ∨ mem b p := by
  unfold calcUnionOp at h
  simp only at h
  split_ifs at h <;> tauto

theorem calcUnionOp_grow {a b : Box κ} {p : P3 κ} (h : mem a p ∨ mem b p) :
    mem (calcUnionOp a b .grow) p := mem_boxUnion h

/-- `Sound z R`: the zone's known-inside and known-outside parts are right for region `R`.
    not negated: interior ⊆ R ⊆ exterior;  negated: interior ⊆ Rᶜ ⊆ exterior. -/
def Sound (z : Zone κ) (R : P3 κ → Prop) : Prop :=
  if z.negated then (∀ p, mem z.interior p → ¬ R p) ∧ (∀ p, ¬ R p → mem z.exterior p)
  else (∀ p, mem z.interior p → R p) ∧ (∀ p, R p → mem z.exterior p)

end CelerVerif.BZone
