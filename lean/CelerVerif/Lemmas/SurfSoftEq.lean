/-
`SoftSurfaceEqual` (model `softEq` in Model/Solids.lean, the comparison used by
`LocalSurfaceInserter` to de-duplicate surfaces) at ℝ: it holds exactly when EVERY coefficient
group of the two surfaces is within the tolerance (`Close`), it is symmetric, and reflexive on
valid surfaces.  Vector groups use the documented SoftEqual tolerance max(abs, rel·max(‖a‖, ‖b‖))
(`soft_eq_distance` after the fix 1450523; before it the relative term used `abs`).
-/
import CelerVerif.Lemmas.SolidsXform
import CelerVerif.Model.Solids
import Mathlib.Tactic.NormNum
import Mathlib.Tactic.Positivity

namespace CelerVerif.Solids
open CelerVerif CelerVerif.Surf

/-- scalars: |x − y| < max(abs, rel·max(|x|, |y|)) -/
def closeS (se : SoftEq ℝ) (x y : ℝ) : Prop := |x - y| < max se.abs (se.rel * max |x| |y|)

noncomputable def nrm (v : Vec3 ℝ) : ℝ := Real.sqrt (v.x * v.x + v.y * v.y + v.z * v.z)

/-- vector groups: ‖v − u‖ < max(abs, rel·max(‖u‖, ‖v‖)) -/
def closeV (se : SoftEq ℝ) (u v : Vec3 ℝ) : Prop :=
  Real.sqrt ((v.x - u.x) * (v.x - u.x) + (v.y - u.y) * (v.y - u.y) + (v.z - u.z) * (v.z - u.z))
    < max se.abs (se.rel * max (nrm u) (nrm v))

/-- `CylAligned::calc_origin()` -/
def cylOrigin : Axis → ℝ → ℝ → Vec3 ℝ
  | .x, ou, ov => ⟨0, ou, ov⟩
  | .y, ou, ov => ⟨ou, 0, ov⟩
  | .z, ou, ov => ⟨ou, ov, 0⟩

/-- every coefficient group of two surfaces of the same class is within the tolerance -/
def Close (se : SoftEq ℝ) : Surface ℝ → Surface ℝ → Prop
  | .planeAligned t p, .planeAligned t' p' => t = t' ∧ closeS se p p'
  | .cylCentered t r, .cylCentered t' r' => t = t' ∧ closeS se (Real.sqrt r) (Real.sqrt r')
  | .sphereCentered r, .sphereCentered r' => closeS se (Real.sqrt r) (Real.sqrt r')
  | .cylAligned t ou ov r, .cylAligned t' ou' ov' r' =>
    t = t' ∧ closeS se (Real.sqrt r) (Real.sqrt r') ∧ closeV se (cylOrigin t ou ov) (cylOrigin t ou' ov')
  | .plane n d, .plane n' d' =>
    closeS se d d' ∧ 0 < n.x * n'.x + n.y * n'.y + n.z * n'.z
      ∧ 1 / ((n.x * n'.x + n.y * n'.y + n.z * n'.z) * (n.x * n'.x + n.y * n'.y + n.z * n'.z)) - 1
          ≤ se.rel * se.rel + (epsMach : ℝ)
  | .sphere o r, .sphere o' r' => closeS se (Real.sqrt r) (Real.sqrt r') ∧ closeV se o o'
  | .coneAligned t o r, .coneAligned t' o' r' =>
    t = t' ∧ closeS se (Real.sqrt r) (Real.sqrt r') ∧ closeV se o o'
  | .simpleQuadric a b c d e f g, .simpleQuadric a' b' c' d' e' f' g' =>
    closeV se ⟨a, b, c⟩ ⟨a', b', c'⟩ ∧ closeV se ⟨d, e, f⟩ ⟨d', e', f'⟩ ∧ closeS se g g'
  | .generalQuadric a b c d e f g h i j, .generalQuadric a' b' c' d' e' f' g' h' i' j' =>
    closeV se ⟨a, b, c⟩ ⟨a', b', c'⟩ ∧ closeV se ⟨d, e, f⟩ ⟨d', e', f'⟩
      ∧ closeV se ⟨g, h, i⟩ ⟨g', h', i'⟩ ∧ closeS se j j'
  | _, _ => False

theorem fmax_real (a b : ℝ) : fmax a b = max a b := by
  unfold fmax
  by_cases h : a < b
  · have : Num.lt a b = true := by num_simp; exact h
    rw [if_pos this, max_eq_right (le_of_lt h)]
  · have : ¬ (Num.lt a b = true) := by num_simp; exact h
    rw [if_neg this, max_eq_left (not_lt.mp h)]

theorem softEq_scalar (se : SoftEq ℝ) (x y : ℝ) : se.eq x y = true ↔ closeS se x y := by
  unfold SoftEq.eq closeS
  simp only [fmax_real]
  num_simp

theorem norm_real (v : Vec3 ℝ) : Vec3.norm v = nrm v := by
  unfold Vec3.norm nrm
  vec_simp
  num_simp
  congr 1
  ring

theorem softEq_vector (se : SoftEq ℝ) (u v : Vec3 ℝ) : softEqDist se u v = true ↔ closeV se u v := by
  unfold softEqDist closeV dist3
  simp only [fmax_real, norm_real]
  num_simp

theorem softEqSq_iff (se : SoftEq ℝ) (a b : ℝ) :
    softEqSq se a b = true ↔ closeS se (Real.sqrt a) (Real.sqrt b) := by
  unfold softEqSq
  rw [softEq_scalar]
  num_simp

theorem cylOrigin_model (t : Axis) (ou ov : ℝ) :
    (((⟨@OfNat.ofNat ℝ 0 (Num.instOfNat 0), @OfNat.ofNat ℝ 0 (Num.instOfNat 0),
        @OfNat.ofNat ℝ 0 (Num.instOfNat 0)⟩ : Vec3 ℝ).set t.U.toNat ou).set t.V.toNat ov)
      = cylOrigin t ou ov := by
  cases t <;> simp [Vec3.set, Axis.U, Axis.V, Axis.toNat, cylOrigin, NumR.lit0]

theorem axis_beq (t t' : Axis) : (t == t') = true ↔ t = t' := by
  cases t <;> cases t' <;> simp

/-- ★ `SoftSurfaceEqual` holds exactly when every coefficient group is within the tolerance -/
theorem softEq_iff_close (se : SoftEq ℝ) (s1 s2 : Surface ℝ) :
    softEq se s1 s2 = true ↔ Close se s1 s2 := by
  cases s1 with
  | planeAligned t p =>
    cases s2 with
    | planeAligned t' p' =>
      simp only [softEq, Close, Bool.and_eq_true, axis_beq, softEq_scalar]
    | _ => simp [softEq, Close]
  | plane n d =>
    cases s2 with
    | plane n' d' =>
      simp only [softEq, Close]
      by_cases hd : se.eq d d' = true
      · have hd' := (softEq_scalar se d d').mp hd
        simp only [hd, Bool.not_true, Bool.false_eq_true, if_false, Bool.and_eq_true]
        vec_simp
        num_simp
        constructor
        · rintro ⟨h1, h2⟩
          refine ⟨hd', by linarith, ?_⟩
          have e : n.z * n'.z + (n.y * n'.y + n.x * n'.x) = n.x * n'.x + n.y * n'.y + n.z * n'.z := by ring
          rw [e] at h2; exact h2
        · rintro ⟨_, h1, h2⟩
          have e : n.z * n'.z + (n.y * n'.y + n.x * n'.x) = n.x * n'.x + n.y * n'.y + n.z * n'.z := by ring
          rw [e]
          exact ⟨h1, h2⟩
      · have hd' : ¬ closeS se d d' := fun h => hd ((softEq_scalar se d d').mpr h)
        simp only [Bool.not_eq_true] at hd
        simp [hd, hd']
    | _ => simp [softEq, Close]
  | cylCentered t r =>
    cases s2 with
    | cylCentered t' r' => simp only [softEq, Close, Bool.and_eq_true, axis_beq, softEqSq_iff]
    | _ => simp [softEq, Close]
  | cylAligned t ou ov r =>
    cases s2 with
    | cylAligned t' ou' ov' r' =>
      simp only [softEq, Close, Bool.and_eq_true, axis_beq, softEqSq_iff, cylOrigin_model,
        softEq_vector, and_assoc]
    | _ => simp [softEq, Close]
  | sphereCentered r =>
    cases s2 with
    | sphereCentered r' => simp only [softEq, Close, softEqSq_iff]
    | _ => simp [softEq, Close]
  | sphere o r =>
    cases s2 with
    | sphere o' r' => simp only [softEq, Close, Bool.and_eq_true, softEqSq_iff, softEq_vector]
    | _ => simp [softEq, Close]
  | coneAligned t o r =>
    cases s2 with
    | coneAligned t' o' r' =>
      simp only [softEq, Close, Bool.and_eq_true, axis_beq, softEqSq_iff, softEq_vector, and_assoc]
    | _ => simp [softEq, Close]
  | simpleQuadric a b c d e f g =>
    cases s2 with
    | simpleQuadric a' b' c' d' e' f' g' =>
      simp only [softEq, Close, Bool.and_eq_true, softEq_vector, softEq_scalar, and_assoc]
    | _ => simp [softEq, Close]
  | generalQuadric a b c d e f g h i j =>
    cases s2 with
    | generalQuadric a' b' c' d' e' f' g' h' i' j' =>
      simp only [softEq, Close, Bool.and_eq_true, softEq_vector, softEq_scalar, and_assoc]
    | _ => simp [softEq, Close]

/-! ### symmetry and reflexivity -/
theorem closeS_symm (se : SoftEq ℝ) (x y : ℝ) : closeS se x y ↔ closeS se y x := by
  unfold closeS; rw [abs_sub_comm, max_comm |x| |y|]

theorem closeV_symm (se : SoftEq ℝ) (u v : Vec3 ℝ) : closeV se u v ↔ closeV se v u := by
  unfold closeV
  rw [max_comm (nrm u) (nrm v)]
  have e : (v.x - u.x) * (v.x - u.x) + (v.y - u.y) * (v.y - u.y) + (v.z - u.z) * (v.z - u.z)
      = (u.x - v.x) * (u.x - v.x) + (u.y - v.y) * (u.y - v.y) + (u.z - v.z) * (u.z - v.z) := by ring
  rw [e]

theorem close_symm (se : SoftEq ℝ) (s1 s2 : Surface ℝ) : Close se s1 s2 ↔ Close se s2 s1 := by
  cases s1 with
  | planeAligned t p =>
    cases s2 with
    | planeAligned t' p' => simp only [Close]; rw [closeS_symm se p p', eq_comm]
    | _ => simp [Close]
  | plane n d =>
    cases s2 with
    | plane n' d' =>
      simp only [Close]
      have e : n.x * n'.x + n.y * n'.y + n.z * n'.z = n'.x * n.x + n'.y * n.y + n'.z * n.z := by ring
      rw [closeS_symm se d d', e]
    | _ => simp [Close]
  | cylCentered t r =>
    cases s2 with
    | cylCentered t' r' => simp only [Close]; rw [closeS_symm se _ _, eq_comm]
    | _ => simp [Close]
  | cylAligned t ou ov r =>
    cases s2 with
    | cylAligned t' ou' ov' r' =>
      simp only [Close]
      constructor
      · rintro ⟨rfl, h1, h2⟩
        exact ⟨rfl, (closeS_symm se _ _).mp h1, (closeV_symm se _ _).mp h2⟩
      · rintro ⟨rfl, h1, h2⟩
        exact ⟨rfl, (closeS_symm se _ _).mp h1, (closeV_symm se _ _).mp h2⟩
    | _ => simp [Close]
  | sphereCentered r =>
    cases s2 with
    | sphereCentered r' => simp only [Close]; rw [closeS_symm se _ _]
    | _ => simp [Close]
  | sphere o r =>
    cases s2 with
    | sphere o' r' => simp only [Close]; rw [closeS_symm se _ _, closeV_symm se _ _]
    | _ => simp [Close]
  | coneAligned t o r =>
    cases s2 with
    | coneAligned t' o' r' =>
      simp only [Close]; rw [closeS_symm se _ _, closeV_symm se _ _, eq_comm]
    | _ => simp [Close]
  | simpleQuadric a b c d e f g =>
    cases s2 with
    | simpleQuadric a' b' c' d' e' f' g' =>
      simp only [Close]
      rw [closeV_symm se ⟨a, b, c⟩, closeV_symm se ⟨d, e, f⟩, closeS_symm se g g']
    | _ => simp [Close]
  | generalQuadric a b c d e f g h i j =>
    cases s2 with
    | generalQuadric a' b' c' d' e' f' g' h' i' j' =>
      simp only [Close]
      rw [closeV_symm se ⟨a, b, c⟩, closeV_symm se ⟨d, e, f⟩, closeV_symm se ⟨g, h, i⟩,
        closeS_symm se j j']
    | _ => simp [Close]

/-- ★ `SoftSurfaceEqual` is symmetric -/
theorem softEq_symm (se : SoftEq ℝ) (a b : Surface ℝ) : softEq se a b = softEq se b a := by
  rw [Bool.eq_iff_iff, softEq_iff_close, softEq_iff_close, close_symm]

theorem closeS_refl (se : SoftEq ℝ) (habs : 0 < se.abs) (x : ℝ) : closeS se x x := by
  unfold closeS; rw [sub_self, abs_zero]; exact lt_of_lt_of_le habs (le_max_left _ _)

theorem closeV_refl (se : SoftEq ℝ) (habs : 0 < se.abs) (u : Vec3 ℝ) : closeV se u u := by
  unfold closeV
  simp only [sub_self, mul_zero, add_zero, Real.sqrt_zero]
  exact lt_of_lt_of_le habs (le_max_left _ _)

theorem epsMach_pos : (0 : ℝ) < (epsMach : ℝ) := by
  unfold epsMach
  show (0 : ℝ) < (OfScientific.ofScientific 2220446049250313 true 31 : ℝ)
  norm_num

/-- ★ `SoftSurfaceEqual` is reflexive on surfaces satisfying their constructors' preconditions
    (unit plane normal) for a valid tolerance (abs > 0) -/
theorem softEq_refl (se : SoftEq ℝ) (habs : 0 < se.abs) (s : Surface ℝ) (hs : s.UnitNormal) :
    softEq se s s = true := by
  rw [softEq_iff_close]
  cases s with
  | plane n d =>
    simp only [Surface.UnitNormal] at hs
    simp only [Close]
    refine ⟨closeS_refl se habs d, by rw [hs]; exact one_pos, ?_⟩
    rw [hs]
    have := epsMach_pos
    nlinarith [mul_self_nonneg se.rel]
  | _ => simp only [Close, closeS_refl se habs, closeV_refl se habs, and_self, true_and]

/-! ### every group is constrained: the cross terms of two soft-equal general quadrics -/
theorem abs_le_sqrt3 (x y z : ℝ) : |x| ≤ Real.sqrt (x * x + y * y + z * z) := by
  apply Real.abs_le_sqrt
  nlinarith [mul_self_nonneg y, mul_self_nonneg z]

theorem closeV_components (se : SoftEq ℝ) (u v : Vec3 ℝ) (h : closeV se u v) :
    |v.x - u.x| < max se.abs (se.rel * max (nrm u) (nrm v))
    ∧ |v.y - u.y| < max se.abs (se.rel * max (nrm u) (nrm v))
    ∧ |v.z - u.z| < max se.abs (se.rel * max (nrm u) (nrm v)) := by
  unfold closeV at h
  refine ⟨lt_of_le_of_lt (abs_le_sqrt3 _ _ _) h, lt_of_le_of_lt ?_ h, lt_of_le_of_lt ?_ h⟩
  · have := abs_le_sqrt3 (v.y - u.y) (v.x - u.x) (v.z - u.z)
    have e : (v.y - u.y) * (v.y - u.y) + (v.x - u.x) * (v.x - u.x) + (v.z - u.z) * (v.z - u.z)
        = (v.x - u.x) * (v.x - u.x) + (v.y - u.y) * (v.y - u.y) + (v.z - u.z) * (v.z - u.z) := by ring
    rw [e] at this; exact this
  · have := abs_le_sqrt3 (v.z - u.z) (v.x - u.x) (v.y - u.y)
    have e : (v.z - u.z) * (v.z - u.z) + (v.x - u.x) * (v.x - u.x) + (v.y - u.y) * (v.y - u.y)
        = (v.x - u.x) * (v.x - u.x) + (v.y - u.y) * (v.y - u.y) + (v.z - u.z) * (v.z - u.z) := by ring
    rw [e] at this; exact this

end CelerVerif.Solids
