/-
Field propagation at ℝ: the code after the loop (`finish`).
-/
import CelerVerif.Lemmas.FieldPropTerm
import Mathlib.Tactic.Linarith

set_option linter.unusedSimpArgs false
set_option linter.unusedVariables false
set_option linter.unusedTactic false
set_option linter.unreachableTactic false

namespace CelerVerif.FieldProp
open CelerVerif

/-- returned distance is in (0, step] -/
theorem finish_distance (c : Cfg ℝ) (hc : CfgOK c) (s : PState ℝ) (hi : Inv c s) (p : Vec3 ℝ) :
    0 < (finish c s p).1.distance ∧ (finish c s p).1.distance ≤ c.step := by
  have h0 := hi.dist_nonneg
  have hs : s.distance ≤ c.step := by have := hi.rem_nonneg; have := hi.sum_le; linarith
  have hbump := hc.bump_pos
  have hstep := hc.step_pos
  unfold finish
  simp only [NumR.lt_real, NumR.gt_real, NumR.eq_real, NumR.lit0, Bool.and_eq_true,
    decide_eq_true_eq, fmin_real]
  split_ifs <;> simp only [] <;> first
    | (constructor <;> first | linarith | exact lt_min hbump hstep | exact min_le_right _ _)
    | skip
  all_goals (rename_i hne; exact ⟨lt_of_le_of_ne h0 (fun e => hne e.symm), hs⟩)

/-- the looping flag is exactly "substep budget spent and step not completed" -/
theorem finish_looping (c : Cfg ℝ) (s : PState ℝ) (p : Vec3 ℝ) :
    (finish c s p).1.looping = true ↔ (s.remSub = 0 ∧ s.distance < c.step) := by
  unfold finish
  simp only [NumR.lt_real, NumR.gt_real, NumR.eq_real, NumR.lit0, Bool.and_eq_true,
    decide_eq_true_eq, fmin_real]
  split_ifs <;> simp only [Bool.and_eq_true, decide_eq_true_eq, NumR.lt_real]

/-- the returned flag is the kind of the last geometry move -/
theorem finish_flag (c : Cfg ℝ) (hc : CfgOK c) (s : PState ℝ) (hi : Inv c s) (p : Vec3 ℝ)
    (m : Option Bool) (hf : FlagInv s m) (hz : s.remSub = 0 → s.boundary = false) :
    lastMoveAux m (finish c s p).2.2 = some (finish c s p).1.boundary := by
  have h0 := hi.dist_nonneg
  have hstep := hc.step_pos
  unfold finish
  simp only [NumR.lt_real, NumR.gt_real, NumR.eq_real, NumR.lit0, Bool.and_eq_true,
    decide_eq_true_eq, fmin_real]
  split_ifs <;> simp only [lastMoveAux, List.foldl_cons, List.foldl_nil, List.nil_append,
    List.cons_append, List.foldl_append] <;> first
    | rfl
    | skip
  · rename_i h1 h2
    have hb : s.boundary = false := hz h1.1
    have hd : 0 < s.distance := lt_of_le_of_ne h0 (fun e => h2 e.symm)
    rw [hf hb hd, hb]
  · rename_i h1 h2 h3 h4
    rw [h3]
  · rename_i h1 h2 h3 h4 h5
    have hb : s.boundary = false := by simpa using h3
    rw [hf hb h2, hb]
  · rename_i h1 h2 h3 h4 h5
    have hb : s.boundary = false := by simpa using h3
    rw [hf hb h2, hb]
  · rename_i h1 h2 h3
    exact absurd (le_antisymm (not_lt.mp h2) h0) h3

/-- the last direction given to the geometry is the unit vector of the state momentum, and the
    state momentum is not modified after the loop -/
theorem finish_dir (c : Cfg ℝ) (s : PState ℝ) (p : Vec3 ℝ) (g : Ghost ℝ) :
    (g.run (finish c s p).2.2).dir = makeUnitVector s.state.mom
      ∧ (finish c s p).2.1.mom = s.state.mom := by
  unfold finish
  simp only [NumR.lt_real, NumR.gt_real, NumR.eq_real, NumR.lit0, Bool.and_eq_true,
    decide_eq_true_eq, fmin_real]
  split_ifs <;> simp [Ghost.run, Ghost.apply]

end CelerVerif.FieldProp
