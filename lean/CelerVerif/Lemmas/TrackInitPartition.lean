/- `std::stable_partition` by its specification: `filter q ++ filter ¬q` (C02). -/
import CelerVerif.Lemmas.TrackInitBasic

namespace CelerVerif.TrackInit

def partList (q : Nat → Bool) (n : Nat) : List Nat :=
  (List.range n).filter q ++ (List.range n).filter (fun i => !q i)

def partK (q : Nat → Bool) (n : Nat) : Nat := ((List.range n).filter q).length

theorem partList_perm (q : Nat → Bool) (n : Nat) : (partList q n).Perm (List.range n) :=
  List.filter_append_perm q (List.range n)

theorem partList_length (q : Nat → Bool) (n : Nat) : (partList q n).length = n := by
  have := (partList_perm q n).length_eq
  simpa using this

theorem partK_le (q : Nat → Bool) (n : Nat) : partK q n ≤ n := by
  have := partList_length q n
  unfold partList at this
  unfold partK
  rw [List.length_append] at this
  omega

/-- every entry is a valid index, and the entries in front of position `k` are exactly the
    ones satisfying `q` -/
theorem partList_getElem (q : Nat → Bool) (n p : Nat) (hp : p < (partList q n).length) :
    (partList q n)[p] < n ∧ q (partList q n)[p] = decide (p < partK q n) := by
  unfold partList at hp ⊢
  by_cases hk : p < partK q n
  · have hk' : p < ((List.range n).filter q).length := hk
    rw [List.getElem_append_left hk']
    have hm := List.getElem_mem hk'
    rw [List.mem_filter] at hm
    exact ⟨by simpa using hm.1, by simp [hk, hm.2]⟩
  · have hk' : ((List.range n).filter q).length ≤ p := by unfold partK at hk; omega
    rw [List.getElem_append_right hk']
    have hm := List.getElem_mem (l := (List.range n).filter (fun i => !q i))
      (n := p - ((List.range n).filter q).length) (by rw [List.length_append] at hp; omega)
    rw [List.mem_filter] at hm
    refine ⟨by simpa using hm.1, ?_⟩
    have := hm.2
    simp at this
    simp [hk, this]

/-- as a multiset, mapping over the partitioned indices is mapping over `0..n-1` -/
theorem partList_map_count {β} [DecidableEq β] (q : Nat → Bool) (n : Nat) (g : Nat → β) (r : β) :
    ((partList q n).map g).count r = ((List.range n).map g).count r :=
  ((partList_perm q n).map g).count_eq r

theorem map_range_getD_self (l : List Nat) (g : Nat → β) :
    (List.range l.length).map (fun p => g (l.getD p 0)) = l.map g := by
  apply List.ext_getElem
  · simp
  · intro i h1 h2
    simp at h1
    simp [List.getD_eq_getElem?_getD, List.getElem?_eq_getElem h1]

end CelerVerif.TrackInit
