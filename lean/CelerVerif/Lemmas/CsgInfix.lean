/-
C10 helper lemmas, infix side: `InfixEvaluator::operator()` as written (index loop with
`par_depth` bookkeeping and `short_circuit`) computes the value of every expression of the
explicit infix grammar; the grammar check `infixWellFormed` is exact; the specification-level
encoding `infixOf` of a tree without negated joins lies in the grammar and evaluates to the value
of the node.

Proof device: the index loop is shown equal (for EVERY token list, also malformed ones) to a
token-by-token state machine `step` folded over the list (`infixEval_eq_run`); sub-expressions
then compose by `List.foldl_append`.
-/
import CelerVerif.Lemmas.CsgInv
import CelerVerif.Lemmas.CsgExamples
import CelerVerif.Model.CsgInfix

namespace CelerVerif.Csg
open CelerVerif.Generated.Csg

inductive St
  | ev (r : Bool) (d : Int)
  | neg (d : Int)
  | skip (k : Int) (r : Bool) (d : Int)
  | done (r : Bool)

def step (vals : Nat → Bool) : St → Nat → St
  | .ev r d, tok =>
    if !isOperatorToken tok then .ev (vals tok) d
    else if (tok = lor ∧ r = true) ∨ (tok = land ∧ r = false) then
      if d = 0 then .done r else .skip 1 r (d - 1)
    else if tok = ltrue then .ev true d
    else if tok = lopen then .ev r (d + 1)
    else if tok = lclose then .ev r (d - 1)
    else if tok = lnot then .neg d
    else .ev r d
  | .neg d, tok => .ev (!vals tok) d
  | .skip k r d, tok =>
    if tok = lopen then .skip (k + 1) r d
    else if tok = lclose then (if k - 1 > 0 then .skip (k - 1) r d else .ev r d)
    else .skip k r d
  | .done r, _ => .done r

def St.result (vals : Nat → Bool) : St → Bool
  | .ev r _ => r
  | .neg _ => !vals 0
  | .skip _ r _ => r
  | .done r => r

def run (vals : Nat → Bool) (s : St) (l : List Nat) : St := l.foldl (step vals) s

theorem run_nil (vals s) : run vals s [] = s := rfl
theorem run_cons (vals s tok l) : run vals s (tok :: l) = run vals (step vals s tok) l := rfl
theorem run_append (vals s l1 l2) : run vals s (l1 ++ l2) = run vals (run vals s l1) l2 := by
  simp [run, List.foldl_append]

theorem drop_getD {l : List Nat} {i : Nat} (h : i < l.length) :
    l.drop i = l.getD i 0 :: l.drop (i + 1) := by
  rw [List.drop_eq_getElem_cons h]
  simp [List.getD_eq_getElem?_getD, h]

theorem shortCircuitLoop_ge (logic : List Nat) :
    ∀ f i k, i ≤ shortCircuitLoop logic f i k := by
  intro f
  induction f with
  | zero => intro i k; simp [shortCircuitLoop]
  | succ f ih =>
    intro i k
    unfold shortCircuitLoop
    split
    · simp only
      split
      · have := ih (i + 1) (k + 1); omega
      · split
        · have := ih (i + 1) (k - 1); omega
        · have := ih (i + 1) k; omega
    · exact Nat.le_refl _

theorem shortCircuitLoop_nonpos (logic : List Nat) (f i : Nat) {k : Int} (hk : ¬ k > 0) :
    shortCircuitLoop logic f i k = i := by
  cases f with
  | zero => rfl
  | succ f => unfold shortCircuitLoop; rw [if_neg hk]

theorem shortCircuitLoop_run (logic : List Nat) (vals : Nat → Bool) :
    ∀ f i k r d, 0 < k → logic.length ≤ i + f →
    (run vals (.skip k r d) (logic.drop (i + 1))).result vals
      = (run vals (.ev r d) (logic.drop (shortCircuitLoop logic f i k + 1))).result vals := by
  intro f
  induction f with
  | zero =>
    intro i k r d _ hlen
    rw [List.drop_eq_nil_of_le (by omega), List.drop_eq_nil_of_le (by simp [shortCircuitLoop]; omega)]
    rfl
  | succ f ih =>
    intro i k r d hk hlen
    by_cases h : i + 1 < logic.length
    · unfold shortCircuitLoop
      rw [if_pos hk, drop_getD h, run_cons]
      simp only
      generalize logic.getD (i + 1) 0 = tok
      by_cases h1 : tok = lopen
      · rw [if_pos h1]
        simp only [step, if_pos h1]
        exact ih (i + 1) (k + 1) r d (by omega) (by omega)
      · rw [if_neg h1]
        by_cases h2 : tok = lclose
        · rw [if_pos h2]
          simp only [step, if_neg h1, if_pos h2]
          by_cases h3 : k - 1 > 0
          · rw [if_pos h3]
            exact ih (i + 1) (k - 1) r d h3 (by omega)
          · rw [if_neg h3, shortCircuitLoop_nonpos logic f (i + 1) h3]
        · rw [if_neg h2]
          simp only [step, if_neg h1, if_neg h2]
          exact ih (i + 1) k r d hk (by omega)
    · have := shortCircuitLoop_ge logic (f + 1) i k
      rw [List.drop_eq_nil_of_le (by omega), List.drop_eq_nil_of_le (by omega)]
      rfl

theorem infixLoop_done (logic : List Nat) (vals : Nat → Bool) (f i : Nat) (r : Bool) (d : Int)
    (h : logic.length ≤ i) : infixLoop logic vals f i r d = r := by
  cases f with
  | zero => rfl
  | succ f => unfold infixLoop; rw [if_neg (by omega)]

theorem run_done (vals : Nat → Bool) (r : Bool) (l : List Nat) : run vals (.done r) l = .done r := by
  induction l with
  | nil => rfl
  | cons x xs ih => rw [run_cons]; exact ih

theorem infixLoop_run (logic : List Nat) (vals : Nat → Bool) :
    ∀ f i r d, logic.length ≤ i + f →
    infixLoop logic vals f i r d = (run vals (.ev r d) (logic.drop i)).result vals := by
  intro f
  induction f with
  | zero =>
    intro i r d hlen
    rw [List.drop_eq_nil_of_le (by omega)]; rfl
  | succ f ih =>
    intro i r d hlen
    by_cases h : i < logic.length
    · unfold infixLoop
      rw [if_pos h, drop_getD h, run_cons]
      simp only
      generalize logic.getD i 0 = tok
      by_cases c1 : (!isOperatorToken tok) = true
      · simp only [step, if_pos c1]
        exact ih _ _ _ (by omega)
      by_cases c2 : (tok = lor ∧ r = true) ∨ (tok = land ∧ r = false)
      · by_cases c3 : d = 0
        · simp only [step, if_neg c1, if_pos c2, if_pos c3, run_done]
          rfl
        · simp only [step, if_neg c1, if_pos c2, if_neg c3]
          have hge := shortCircuitLoop_ge logic logic.length i 1
          rw [ih _ _ _ (by unfold shortCircuit; omega)]
          unfold shortCircuit
          exact (shortCircuitLoop_run logic vals logic.length i 1 r (d - 1) (by omega)
            (by omega)).symm
      by_cases c4 : tok = ltrue
      · simp only [step, if_neg c1, if_neg c2, if_pos c4]
        exact ih _ _ _ (by omega)
      by_cases c5 : tok = lopen
      · simp only [step, if_neg c1, if_neg c2, if_neg c4, if_pos c5]
        exact ih _ _ _ (by omega)
      by_cases c6 : tok = lclose
      · simp only [step, if_neg c1, if_neg c2, if_neg c4, if_neg c5, if_pos c6]
        exact ih _ _ _ (by omega)
      by_cases c7 : tok = lnot
      · simp only [step, if_neg c1, if_neg c2, if_neg c4, if_neg c5, if_neg c6, if_pos c7]
        by_cases h' : i + 1 < logic.length
        · rw [drop_getD h', run_cons]
          exact ih _ _ _ (by omega)
        · have hd : logic.getD (i + 1) 0 = 0 := by
            simp [List.getD_eq_getElem?_getD,
              List.getElem?_eq_none (show logic.length ≤ i + 1 by omega)]
          rw [List.drop_eq_nil_of_le (by omega), infixLoop_done _ _ _ _ _ _ (by omega), hd]
          rfl
      · simp only [step, if_neg c1, if_neg c2, if_neg c4, if_neg c5, if_neg c6, if_neg c7]
        exact ih _ _ _ (by omega)
    · rw [infixLoop_done _ _ _ _ _ _ (by omega), List.drop_eq_nil_of_le (by omega)]; rfl

/-- the index loop as written is the token-by-token state machine -/
theorem infixEval_eq_run (logic : List Nat) (vals : Nat → Bool) :
    infixEval logic vals = (run vals (.ev true 0) logic).result vals := by
  unfold infixEval
  rw [infixLoop_run logic vals logic.length 0 true 0 (by omega)]
  rfl

/-! ### syntax trees of the explicit infix notation -/

/-- syntax tree of an infix expression; an n-ary chain `a₁ op a₂ op … aₙ` is the right-nested
    `join op a₁ (join op a₂ …)` -/
inductive IExpr
  | face (s : Nat)
  | nface (s : Nat)
  | tru
  | paren (e : IExpr)
  | join (op : Op) (a b : IExpr)
  deriving Repr, DecidableEq, Inhabited

namespace IExpr

def encode : IExpr → List Nat
  | face s => [s]
  | nface s => [lnot, s]
  | tru => [ltrue]
  | paren e => lopen :: (encode e ++ [lclose])
  | join op a b => encode a ++ opToken op :: encode b

def value (vals : Nat → Bool) : IExpr → Bool
  | face s => vals s
  | nface s => !vals s
  | tru => true
  | paren e => value vals e
  | join .and a b => value vals a && value vals b
  | join .or a b => value vals a || value vals b

/-- `A` of the grammar -/
def isAtom : IExpr → Bool
  | join _ _ _ => false
  | _ => true

/-- the chain continues (if at all) with the same operator kind -/
def SameOp (op : Op) : IExpr → Prop
  | join op' _ _ => op' = op
  | _ => True

/-- flat chains: the left operand of every `join` is an atom (so the token list determines the
    tree), faces are `< lbegin` and `< nf`; operator kinds may be MIXED inside one level -/
def Flat (nf : Nat) : IExpr → Prop
  | face s => s < lbegin ∧ s < nf
  | nface s => s < lbegin ∧ s < nf
  | tru => True
  | paren e => Flat nf e
  | join _ a b => a.isAtom = true ∧ Flat nf a ∧ Flat nf b

/-- grammar G: flat chains with ONE operator kind per parenthesis level -/
def InG (nf : Nat) : IExpr → Prop
  | face s => s < lbegin ∧ s < nf
  | nface s => s < lbegin ∧ s < nf
  | tru => True
  | paren e => InG nf e
  | join op a b => a.isAtom = true ∧ InG nf a ∧ InG nf b ∧ b.SameOp op

def SameOp.dec (op : Op) : (e : IExpr) → Decidable (SameOp op e)
  | join op' _ _ => inferInstanceAs (Decidable (op' = op))
  | face _ => inferInstanceAs (Decidable True)
  | nface _ => inferInstanceAs (Decidable True)
  | tru => inferInstanceAs (Decidable True)
  | paren _ => inferInstanceAs (Decidable True)

instance (op : Op) (e : IExpr) : Decidable (SameOp op e) := SameOp.dec op e

def Flat.dec (nf : Nat) : (e : IExpr) → Decidable (Flat nf e)
  | face s => inferInstanceAs (Decidable (s < lbegin ∧ s < nf))
  | nface s => inferInstanceAs (Decidable (s < lbegin ∧ s < nf))
  | tru => inferInstanceAs (Decidable True)
  | paren e => Flat.dec nf e
  | join _ a b =>
    let _ := Flat.dec nf a
    let _ := Flat.dec nf b
    inferInstanceAs (Decidable (a.isAtom = true ∧ Flat nf a ∧ Flat nf b))

instance (nf : Nat) (e : IExpr) : Decidable (Flat nf e) := Flat.dec nf e

def InG.dec (nf : Nat) : (e : IExpr) → Decidable (InG nf e)
  | face s => inferInstanceAs (Decidable (s < lbegin ∧ s < nf))
  | nface s => inferInstanceAs (Decidable (s < lbegin ∧ s < nf))
  | tru => inferInstanceAs (Decidable True)
  | paren e => InG.dec nf e
  | join op a b =>
    let _ := InG.dec nf a
    let _ := InG.dec nf b
    inferInstanceAs (Decidable (a.isAtom = true ∧ InG nf a ∧ InG nf b ∧ b.SameOp op))

instance (nf : Nat) (e : IExpr) : Decidable (InG nf e) := InG.dec nf e

theorem InG.flat {nf : Nat} {e : IExpr} (h : InG nf e) : Flat nf e := by
  induction e with
  | face _ => exact h
  | nface _ => exact h
  | tru => trivial
  | paren _ ih => exact ih h
  | join _ _ _ iha ihb => exact ⟨h.1, iha h.2.1, ihb h.2.2.1⟩

end IExpr

open IExpr

/-! ### single steps of the machine -/

theorem tok_facts : lopen = lbegin ∧ lbegin < lclose ∧ lclose < ltrue ∧ ltrue < lor ∧ lor < land
    ∧ land < lnot := by decide

theorem step_face (vals : Nat → Bool) (r : Bool) (d : Int) {s : Nat} (hs : s < lbegin) :
    step vals (.ev r d) s = .ev (vals s) d := by
  have : isOperatorToken s = false := by simp [isOperatorToken]; omega
  simp [step, this]

theorem step_true (vals : Nat → Bool) (r : Bool) (d : Int) :
    step vals (.ev r d) ltrue = .ev true d := by
  simp [step, show isOperatorToken ltrue = true by decide, show ltrue ≠ lor by decide,
    show ltrue ≠ land by decide]

theorem step_open (vals : Nat → Bool) (r : Bool) (d : Int) :
    step vals (.ev r d) lopen = .ev r (d + 1) := by
  simp [step, show isOperatorToken lopen = true by decide, show lopen ≠ lor by decide,
    show lopen ≠ land by decide, show lopen ≠ ltrue by decide]

theorem step_close (vals : Nat → Bool) (r : Bool) (d : Int) :
    step vals (.ev r d) lclose = .ev r (d - 1) := by
  simp [step, show isOperatorToken lclose = true by decide, show lclose ≠ lor by decide,
    show lclose ≠ land by decide, show lclose ≠ ltrue by decide, show lclose ≠ lopen by decide]

theorem step_not (vals : Nat → Bool) (r : Bool) (d : Int) :
    step vals (.ev r d) lnot = .neg d := by
  simp [step, show isOperatorToken lnot = true by decide, show lnot ≠ lor by decide,
    show lnot ≠ land by decide, show lnot ≠ ltrue by decide, show lnot ≠ lopen by decide,
    show lnot ≠ lclose by decide]

/-- state after a short circuit: `break` at depth 0, else skipping to the `lclose` of the
    innermost open group with that group already counted as closed -/
def scState (r : Bool) (d : Int) : St := if d = 0 then .done r else .skip 1 r (d - 1)

/-- the operator short-circuits on this left value -/
def shorts : Op → Bool → Bool
  | .or, r => r
  | .and, r => !r

theorem step_op_short (vals : Nat → Bool) (op : Op) (r : Bool) (d : Int)
    (h : shorts op r = true) : step vals (.ev r d) (opToken op) = scState r d := by
  cases op <;> cases r <;> simp [shorts] at h <;>
    simp [step, scState, opToken, show isOperatorToken land = true by decide,
      show isOperatorToken lor = true by decide]

theorem step_op_cont (vals : Nat → Bool) (op : Op) (r : Bool) (d : Int)
    (h : shorts op r = false) : step vals (.ev r d) (opToken op) = .ev r d := by
  cases op <;> cases r <;> simp [shorts] at h <;>
    simp [step, opToken, show isOperatorToken land = true by decide,
      show isOperatorToken lor = true by decide, show land ≠ lor by decide,
      show lor ≠ land by decide, show land ≠ ltrue by decide, show lor ≠ ltrue by decide,
      show land ≠ lopen by decide, show lor ≠ lopen by decide, show land ≠ lclose by decide,
      show lor ≠ lclose by decide, show land ≠ lnot by decide, show lor ≠ lnot by decide]

theorem step_skip_other (vals : Nat → Bool) (k : Int) (r : Bool) (d : Int) {tok : Nat}
    (h1 : tok ≠ lopen) (h2 : tok ≠ lclose) : step vals (.skip k r d) tok = .skip k r d := by
  simp [step, h1, h2]

theorem step_skip_open (vals : Nat → Bool) (k : Int) (r : Bool) (d : Int) :
    step vals (.skip k r d) lopen = .skip (k + 1) r d := by
  simp [step]

theorem step_skip_close (vals : Nat → Bool) (k : Int) (r : Bool) (d : Int) :
    step vals (.skip k r d) lclose = if k - 1 > 0 then .skip (k - 1) r d else .ev r d := by
  simp [step, show lclose ≠ lopen by decide]

theorem opToken_ne (op : Op) : opToken op ≠ lopen ∧ opToken op ≠ lclose := by
  cases op <;> exact by decide

/-! ### parentheses inside an encoding are balanced: the skip mode passes over it -/

theorem run_skip_encode (vals : Nat → Bool) (nf : Nat) :
    ∀ e : IExpr, Flat nf e → ∀ (k : Int) (r : Bool) (d : Int), 0 < k →
    run vals (.skip k r d) (encode e) = .skip k r d := by
  intro e
  induction e with
  | face s =>
    intro h k r d _
    have := tok_facts
    have hs : s < lbegin := h.1
    rw [encode, run_cons, run_nil, step_skip_other vals k r d (by omega) (by omega)]
  | nface s =>
    intro h k r d _
    have := tok_facts
    have hs : s < lbegin := h.1
    rw [encode, run_cons, run_cons, run_nil,
      step_skip_other vals k r d (by decide) (by decide),
      step_skip_other vals k r d (by omega) (by omega)]
  | tru =>
    intro _ k r d _
    rw [encode, run_cons, run_nil, step_skip_other vals k r d (by decide) (by decide)]
  | paren e ih =>
    intro h k r d hk
    rw [encode, run_cons, run_append, step_skip_open, ih h (k + 1) r d (by omega), run_cons,
      run_nil, step_skip_close, if_pos (by omega)]
    congr 1; omega
  | join op a b iha ihb =>
    intro h k r d hk
    rw [encode, run_append, iha h.2.1 k r d hk, run_cons,
      step_skip_other vals k r d (opToken_ne op).1 (opToken_ne op).2, ihb h.2.2 k r d hk]

/-- a short-circuited state is not changed by the rest of the chain -/
theorem run_scState_encode (vals : Nat → Bool) (nf : Nat) (e : IExpr) (h : Flat nf e) (r : Bool)
    (d : Int) : run vals (scState r d) (encode e) = scState r d := by
  unfold scState
  split
  · exact run_done vals r _
  · exact run_skip_encode vals nf e h 1 r (d - 1) (by omega)

/-! ### the loop on an encoded expression -/

theorem value_join_short (vals : Nat → Bool) (op : Op) (a b : IExpr)
    (h : shorts op (value vals a) = true) : value vals (join op a b) = value vals a := by
  cases op <;> simp [shorts] at h <;> simp [value, h]

theorem value_join_cont (vals : Nat → Bool) (op : Op) (a b : IExpr)
    (h : shorts op (value vals a) = false) : value vals (join op a b) = value vals b := by
  cases op <;> simp [shorts] at h <;> simp [value, h]

/-- running the loop body over `encode e` from normal mode at depth `d ≥ 0`: an atom always ends
    in normal mode with `result = value e` and the same depth; a chain either does that or has
    short-circuited with the value of the whole chain -/
theorem run_encode (vals : Nat → Bool) (nf : Nat) :
    ∀ e : IExpr, Flat nf e → ∀ (r : Bool) (d : Int), 0 ≤ d →
    (e.isAtom = true → run vals (.ev r d) (encode e) = .ev (value vals e) d) ∧
    (run vals (.ev r d) (encode e) = .ev (value vals e) d ∨
      run vals (.ev r d) (encode e) = scState (value vals e) d) := by
  intro e
  induction e with
  | face s =>
    intro h r d _
    have : run vals (.ev r d) (encode (face s)) = .ev (value vals (face s)) d := by
      rw [encode, run_cons, run_nil, step_face vals r d h.1]; rfl
    exact ⟨fun _ => this, Or.inl this⟩
  | nface s =>
    intro h r d _
    have : run vals (.ev r d) (encode (nface s)) = .ev (value vals (nface s)) d := by
      rw [encode, run_cons, run_cons, run_nil, step_not]; rfl
    exact ⟨fun _ => this, Or.inl this⟩
  | tru =>
    intro _ r d _
    have : run vals (.ev r d) (encode tru) = .ev (value vals tru) d := by
      rw [encode, run_cons, run_nil, step_true]; rfl
    exact ⟨fun _ => this, Or.inl this⟩
  | paren e ih =>
    intro h r d hd
    have : run vals (.ev r d) (encode (paren e)) = .ev (value vals (paren e)) d := by
      rw [encode, run_cons, run_append, step_open]
      rcases (ih h r (d + 1) (by omega)).2 with h1 | h1
      · rw [h1, run_cons, run_nil, step_close]
        show St.ev (value vals e) (d + 1 - 1) = St.ev (value vals e) d
        congr 1; omega
      · rw [h1, scState, if_neg (by omega), run_cons, run_nil, step_skip_close,
          if_neg (by omega)]
        show St.ev (value vals e) (d + 1 - 1) = St.ev (value vals e) d
        congr 1; omega
    exact ⟨fun _ => this, Or.inl this⟩
  | join op a b iha ihb =>
    intro h r d hd
    refine ⟨fun hat => by simp [isAtom] at hat, ?_⟩
    have ha := (iha h.2.1 r d hd).1 h.1
    rw [encode, run_append, ha, run_cons]
    cases hs : shorts op (value vals a) with
    | true =>
      right
      rw [step_op_short vals op _ d hs, run_scState_encode vals nf b h.2.2,
        value_join_short vals op a b hs]
    | false =>
      rw [step_op_cont vals op _ d hs, value_join_cont vals op a b hs]
      exact (ihb h.2.2 (value vals a) d hd).2

/-- the evaluator as written on ANY flat chain expression, also with mixed operator kinds at one
    level: it computes the right-nested reading `a₁ op₁ (a₂ op₂ (a₃ …))` -/
theorem infixEval_correct_flat {nf : Nat} {e : IExpr} (h : Flat nf e) (vals : Nat → Bool) :
    infixEval (encode e) vals = value vals e := by
  rw [infixEval_eq_run]
  rcases (run_encode vals nf e h true 0 (by omega)).2 with h1 | h1
  · rw [h1]; rfl
  · rw [h1]; rfl

/-- ★ `InfixEvaluator::operator()` as written is correct on every expression of grammar G (any
    nesting depth, any arity) -/
theorem infixEval_correct {nf : Nat} {e : IExpr} (h : InG nf e) (vals : Nat → Bool) :
    infixEval (encode e) vals = value vals e :=
  infixEval_correct_flat h.flat vals

/-! ### the grammar check is exact -/

theorem opToken_inj {o o' : Op} (h : opToken o = opToken o') : o = o' := by
  cases o <;> cases o' <;> first | rfl | (exact absurd h (by decide))

theorem tok_is_op {o : Nat} (h : o = lor ∨ o = land) : ∃ op : Op, o = opToken op := by
  rcases h with rfl | rfl
  · exact ⟨.or, rfl⟩
  · exact ⟨.and, rfl⟩

theorem sameOp_of_atom (o : Op) {e : IExpr} (h : e.isAtom = true) : SameOp o e := by
  cases e with
  | join _ _ _ => exact absurd h (by simp [isAtom])
  | _ => trivial

/-- what the parser accepts is an expression of G followed by the unread tokens -/
theorem wf_sound (nf : Nat) : ∀ f : Nat,
    (∀ toks r, wfAtom nf f toks = some r →
      ∃ e : IExpr, e.isAtom = true ∧ InG nf e ∧ toks = encode e ++ r) ∧
    (∀ op toks r, wfChain nf f op toks = some r →
      ∃ e : IExpr, InG nf e ∧ (∀ o : Op, op = some (opToken o) → SameOp o e) ∧
        toks = encode e ++ r) := by
  intro f
  induction f with
  | zero =>
    constructor
    · intro toks r h; simp [wfAtom] at h
    · intro op toks r h; simp [wfChain] at h
  | succ f ih =>
    constructor
    · intro toks r h
      cases toks with
      | nil => simp [wfAtom] at h
      | cons tok rest =>
        simp only [wfAtom] at h
        split at h
        · rename_i h1
          split at h
          · rename_i h2
            cases h
            exact ⟨face tok, rfl, ⟨h1, h2⟩, rfl⟩
          · cases h
        · split at h
          · rename_i h2
            cases h; subst h2
            exact ⟨tru, rfl, trivial, rfl⟩
          · split at h
            · rename_i h3
              subst h3
              split at h
              · rename_i s rest'
                split at h
                · rename_i h4
                  cases h
                  exact ⟨nface s, rfl, h4, rfl⟩
                · cases h
              · cases h
            · split at h
              · rename_i h4
                subst h4
                split at h
                · rename_i c rest' hc
                  split at h
                  · rename_i h5
                    cases h; subst h5
                    rcases ih.2 none rest _ hc with ⟨e, he, _, henc⟩
                    refine ⟨paren e, rfl, he, ?_⟩
                    rw [henc]; simp [encode]
                  · cases h
                · cases h
              · cases h
    · intro op toks r h
      simp only [wfChain] at h
      split at h
      · cases h
      · rename_i hat
        cases h
        rcases ih.1 toks [] hat with ⟨e, hatom, he, henc⟩
        refine ⟨e, he, ?_, henc⟩
        intro o _
        exact sameOp_of_atom o hatom
      · rename_i o rest hat
        rcases ih.1 toks _ hat with ⟨a, hatom, ha, henc⟩
        split at h
        · rename_i hc
          rcases tok_is_op hc.1 with ⟨o', rfl⟩
          rcases ih.2 _ rest r h with ⟨b, hb, hsame, hencb⟩
          refine ⟨join o' a b, ⟨hatom, ha, hb, hsame o' rfl⟩, ?_, ?_⟩
          · intro o'' hop
            rcases hc.2 with h0 | h0
            · rw [h0] at hop; cases hop
            · rw [h0] at hop
              exact opToken_inj (Option.some.inj hop)
          · rw [henc, hencb]; simp [encode]
        · cases h
          refine ⟨a, ha, ?_, henc⟩
          intro o' _
          exact sameOp_of_atom o' hatom

/-- the chain parser stops in front of these unread tokens -/
def StopsChain (rest : List Nat) : Prop := rest.head? ≠ some lor ∧ rest.head? ≠ some land

/-- the operator kind known so far is compatible with the chain -/
def OpCompat (op : Option Nat) : IExpr → Prop
  | join o _ _ => op = none ∨ op = some (opToken o)
  | _ => True

theorem wfChain_of_atom (nf : Nat) (toksE : List Nat) (N : Nat)
    (h : ∀ f rest, N ≤ f → wfAtom nf f (toksE ++ rest) = some rest) :
    ∀ f op rest, N + 1 ≤ f → StopsChain rest → wfChain nf f op (toksE ++ rest) = some rest := by
  intro f op rest hf hstop
  cases f with
  | zero => omega
  | succ f =>
    simp only [wfChain]
    rw [h f rest (by omega)]
    cases rest with
    | nil => rfl
    | cons o r =>
      simp only
      rw [if_neg]
      rintro ⟨h1 | h1, _⟩
      · exact hstop.1 (by simp [h1])
      · exact hstop.2 (by simp [h1])

/-- every expression of G is accepted (with the recursion budget of `infixWellFormed`) -/
theorem wf_complete (nf : Nat) : ∀ e : IExpr, InG nf e →
    (e.isAtom = true → ∀ f rest, 2 * (encode e).length ≤ f →
      wfAtom nf f (encode e ++ rest) = some rest) ∧
    (∀ f op rest, 2 * (encode e).length + 1 ≤ f → OpCompat op e → StopsChain rest →
      wfChain nf f op (encode e ++ rest) = some rest) := by
  intro e
  induction e with
  | face s =>
    intro h
    have hA : ∀ f rest, 2 * (encode (face s)).length ≤ f →
        wfAtom nf f (encode (face s) ++ rest) = some rest := by
      intro f rest hf
      cases f with
      | zero => simp [encode] at hf
      | succ f =>
        show wfAtom nf (f + 1) (s :: rest) = some rest
        simp only [wfAtom, if_pos h.1, if_pos h.2]
    exact ⟨fun _ => hA, fun f op rest hf _ hs => wfChain_of_atom nf _ _ hA f op rest hf hs⟩
  | nface s =>
    intro h
    have hA : ∀ f rest, 2 * (encode (nface s)).length ≤ f →
        wfAtom nf f (encode (nface s) ++ rest) = some rest := by
      intro f rest hf
      cases f with
      | zero => simp [encode] at hf
      | succ f =>
        show wfAtom nf (f + 1) (lnot :: s :: rest) = some rest
        simp only [wfAtom, if_neg (show ¬ lnot < lbegin by decide),
          if_neg (show lnot ≠ ltrue by decide), if_pos,
          if_pos (show s < lbegin ∧ s < nf from h)]
    exact ⟨fun _ => hA, fun f op rest hf _ hs => wfChain_of_atom nf _ _ hA f op rest hf hs⟩
  | tru =>
    intro _
    have hA : ∀ f rest, 2 * (encode tru).length ≤ f →
        wfAtom nf f (encode tru ++ rest) = some rest := by
      intro f rest hf
      cases f with
      | zero => simp [encode] at hf
      | succ f =>
        show wfAtom nf (f + 1) (ltrue :: rest) = some rest
        simp only [wfAtom, if_neg (show ¬ ltrue < lbegin by decide), if_pos]
    exact ⟨fun _ => hA, fun f op rest hf _ hs => wfChain_of_atom nf _ _ hA f op rest hf hs⟩
  | paren e ih =>
    intro h
    have hA : ∀ f rest, 2 * (encode (paren e)).length ≤ f →
        wfAtom nf f (encode (paren e) ++ rest) = some rest := by
      intro f rest hf
      cases f with
      | zero => simp [encode] at hf
      | succ f =>
        have hlen : 2 * (encode e).length + 1 ≤ f := by
          simp [encode] at hf; omega
        have hstop : StopsChain (lclose :: rest) := by
          constructor <;> (simp only [List.head?_cons]; exact by decide)
        have hc := (ih h).2 f none (lclose :: rest) hlen
          (by cases e <;> first | trivial | exact Or.inl rfl) hstop
        show wfAtom nf (f + 1) (lopen :: ((encode e ++ [lclose]) ++ rest)) = some rest
        rw [List.append_assoc]
        simp only [wfAtom, if_neg (show ¬ lopen < lbegin by decide),
          if_neg (show lopen ≠ ltrue by decide), if_neg (show lopen ≠ lnot by decide), if_pos]
        show (match wfChain nf f none (encode e ++ lclose :: rest) with
          | some (c :: rest') => if c = lclose then some rest' else none
          | _ => none) = some rest
        rw [hc]
        simp
    exact ⟨fun _ => hA, fun f op rest hf _ hs => wfChain_of_atom nf _ _ hA f op rest hf hs⟩
  | join o a b iha ihb =>
    intro h
    refine ⟨fun hat => by simp [isAtom] at hat, ?_⟩
    intro f op rest hf hop hstop
    cases f with
    | zero => omega
    | succ f =>
      have hlen : 2 * (encode a).length ≤ f ∧ 2 * (encode b).length + 1 ≤ f := by
        simp [encode] at hf; omega
      have ha := (iha h.2.1).1 h.1 f (opToken o :: (encode b ++ rest)) hlen.1
      have hcompat : OpCompat (some (opToken o)) b := by
        have hs := h.2.2.2
        cases b <;> first | trivial | (simp only [SameOp] at hs; subst hs; exact Or.inr rfl)
      have hb := (ihb h.2.2.1).2 f (some (opToken o)) rest hlen.2 hcompat hstop
      show wfChain nf (f + 1) op ((encode a ++ opToken o :: encode b) ++ rest) = some rest
      rw [List.append_assoc, List.cons_append]
      simp only [wfChain]
      rw [ha]
      simp only
      rw [if_pos, hb]
      refine ⟨?_, ?_⟩
      · cases o
        · exact Or.inr rfl
        · exact Or.inl rfl
      · simpa [OpCompat] using hop

/-- ★ `infixWellFormed` decides membership in grammar G -/
theorem infixWellFormed_iff (l : List Nat) (nf : Nat) :
    infixWellFormed l nf = true ↔ ∃ e : IExpr, InG nf e ∧ encode e = l := by
  constructor
  · intro h
    unfold infixWellFormed at h
    split at h
    · rename_i hc
      rcases (wf_sound nf _).2 none l [] hc with ⟨e, he, _, henc⟩
      exact ⟨e, he, by simpa using henc.symm⟩
    · cases h
  · rintro ⟨e, he, rfl⟩
    have := (wf_complete nf e he).2 (2 * (encode e).length + 1) none [] (Nat.le_refl _)
      (by cases e <;> first | trivial | exact Or.inl rfl) (by constructor <;> simp)
    unfold infixWellFormed
    rw [List.append_nil] at this
    rw [this]

/-- on input accepted by the check the evaluator as written computes the value of a parse in G -/
theorem infixEval_of_wellFormed {l : List Nat} {nf : Nat} (h : infixWellFormed l nf = true) :
    ∃ e : IExpr, InG nf e ∧ encode e = l ∧ ∀ vals, infixEval l vals = value vals e := by
  rcases (infixWellFormed_iff l nf).1 h with ⟨e, he, rfl⟩
  exact ⟨e, he, rfl, fun vals => infixEval_correct he vals⟩

/-! ### the specification-level encoding of a tree -/

theorem surfaceOf_val {t : Tree} {σ v : Nat → Bool} (s : Struct t) (hm : Models t σ v) :
    ∀ (f n k : Nat), n < t.size → surfaceOf t f n = some k →
    v n = σ k ∧ ∃ i, i < t.size ∧ t.get i = .surface k := by
  intro f
  induction f with
  | zero => intro n k _ h; simp [surfaceOf] at h
  | succ f ih =>
    intro n k hn h
    have hv := hm n hn
    have hcl := s.closed n hn
    unfold surfaceOf at h
    cases hg : t.get n with
    | surface s' =>
      rw [hg] at h hv; simp at h; subst h
      exact ⟨hv, n, hn, hg⟩
    | aliased a =>
      rw [hg] at h hv hcl
      have := ih a k (hcl a (by simp [Node.children])) h
      exact ⟨hv.trans this.1, this.2⟩
    | tru => rw [hg] at h; simp at h
    | fls => rw [hg] at h; simp at h
    | negated a => rw [hg] at h; simp at h
    | joined op ns => rw [hg] at h; simp at h

theorem infixJoin_expr {σ v : Nat → Bool} (nf : Nat) (op : Op) (g : Nat → Option (List Nat)) :
    ∀ cs : List Nat, cs ≠ [] →
    (∀ c ∈ cs, ∀ lc, g c = some lc →
      ∃ e : IExpr, e.isAtom = true ∧ InG nf e ∧ encode e = lc ∧ value σ e = v c) →
    ∀ body, infixJoin (opToken op) (cs.map g) = some body →
    ∃ e : IExpr, InG nf e ∧ SameOp op e ∧ encode e = body ∧
      value σ e = evalNode σ v (.joined op cs) := by
  intro cs
  induction cs with
  | nil => intro h; exact absurd rfl h
  | cons c cs' ih =>
    intro _ hcs body hb
    cases cs' with
    | nil =>
      simp only [List.map_cons, List.map_nil, infixJoin] at hb
      rcases hcs c (by simp) body hb with ⟨e, hat, he, henc, hval⟩
      refine ⟨e, he, sameOp_of_atom op hat, henc, ?_⟩
      cases op <;> simp [evalNode, hval]
    | cons c' cs'' =>
      simp only [List.map_cons, infixJoin] at hb
      cases hgc : g c with
      | none => rw [hgc] at hb; simp at hb
      | some la =>
        rw [hgc] at hb
        cases hrest : infixJoin (opToken op) (g c' :: List.map g cs'') with
        | none => rw [hrest] at hb; simp at hb
        | some lb =>
          rw [hrest] at hb
          simp only [Option.some.injEq] at hb
          rcases hcs c (by simp) la hgc with ⟨ea, hat, hea, henca, hvala⟩
          rcases ih (by simp) (fun x hx => hcs x (List.mem_cons_of_mem _ hx)) lb
            (by simpa using hrest) with ⟨eb, heb, hsame, hencb, hvalb⟩
          refine ⟨join op ea eb, ⟨hat, hea, heb, hsame⟩, rfl, ?_, ?_⟩
          · rw [← hb, ← henca, ← hencb]; rfl
          · cases op
            · simp only [value, hvala, hvalb, evalNode, List.all_cons]
            · simp only [value, hvala, hvalb, evalNode, List.any_cons]

/-- the encoding of node `n` is the token list of an atom of G whose value is the value of `n` -/
theorem infixOf_expr {t : Tree} {σ v : Nat → Bool} (s : Struct t) (hm : Models t σ v) (nf : Nat)
    (hsurf : ∀ i k, i < t.size → t.get i = .surface k → k < lbegin ∧ k < nf) :
    ∀ (f n : Nat) (l : List Nat), n < t.size → infixOf t f n = some l →
    ∃ e : IExpr, e.isAtom = true ∧ InG nf e ∧ encode e = l ∧ value σ e = v n := by
  intro f
  induction f with
  | zero => intro n l _ h; simp [infixOf] at h
  | succ f ih =>
    intro n l hn h
    have hv := hm n hn
    have hcl := s.closed n hn
    unfold infixOf at h
    cases hg : t.get n with
    | tru =>
      rw [hg] at h hv; simp at h; subst h
      exact ⟨tru, rfl, trivial, rfl, hv.symm⟩
    | fls => rw [hg] at h; simp at h
    | surface k =>
      rw [hg] at h hv; simp at h; subst h
      exact ⟨face k, rfl, hsurf n k hn hg, rfl, hv.symm⟩
    | aliased a =>
      rw [hg] at h hv hcl
      rcases ih a l (hcl a (by simp [Node.children])) h with ⟨e, h1, h2, h3, h4⟩
      exact ⟨e, h1, h2, h3, h4.trans hv.symm⟩
    | negated a =>
      rw [hg] at h hv hcl
      simp only at h
      cases hso : surfaceOf t f a with
      | none => rw [hso] at h; simp at h
      | some k =>
        rw [hso] at h; simp at h; subst h
        rcases surfaceOf_val s hm f a k (hcl a (by simp [Node.children])) hso with
          ⟨hva, i, hi, hgi⟩
        refine ⟨nface k, rfl, hsurf i k hi hgi, rfl, ?_⟩
        rw [hv]; simp [value, evalNode, hva]
    | joined op ns =>
      rw [hg] at h hv hcl
      cases ns with
      | nil => simp at h
      | cons x xs =>
        cases xs with
        | nil => simp at h
        | cons y ys =>
          simp only [Option.map_eq_some_iff] at h
          rcases h with ⟨body, hbody, rfl⟩
          rcases infixJoin_expr (σ := σ) (v := v) nf op (infixOf t f) (x :: y :: ys) (by simp)
            (fun c hc lc hlc => ih c lc (hcl c (by simpa [Node.children] using hc)) hlc)
            body hbody with ⟨e, he, _, henc, hval⟩
          refine ⟨paren e, rfl, he, ?_, ?_⟩
          · simp [encode, henc]
          · rw [hv]; exact hval

/-- ★ the infix encoding of a node of a tree without negated joins, evaluated by
    `InfixEvaluator` as written, yields the value of the node in every model of the tree; the
    encoding is accepted by the grammar check -/
theorem infixOf_correct {t : Tree} {σ v : Nat → Bool} (s : Struct t) (hm : Models t σ v)
    {nf : Nat} (hsurf : ∀ i k, i < t.size → t.get i = .surface k → k < lbegin ∧ k < nf)
    {f n : Nat} (hn : n < t.size) {l : List Nat} (h : infixOf t f n = some l) :
    infixEval l σ = v n ∧ infixWellFormed l nf = true := by
  rcases infixOf_expr s hm nf hsurf f n l hn h with ⟨e, _, he, rfl, hval⟩
  exact ⟨(infixEval_correct he σ).trans hval, (infixWellFormed_iff _ nf).2 ⟨e, he, rfl⟩⟩

/-- the same with the bare hypothesis "surface ids are not operator tokens" -/
theorem infixOf_eval {t : Tree} {σ v : Nat → Bool} (s : Struct t) (hm : Models t σ v)
    (hsurf : ∀ i k, i < t.size → t.get i = .surface k → k < lbegin)
    {f n : Nat} (hn : n < t.size) {l : List Nat} (h : infixOf t f n = some l) :
    infixEval l σ = v n :=
  (infixOf_correct s hm (nf := lbegin) (fun i k hi hg => ⟨hsurf i k hi hg, hsurf i k hi hg⟩)
    hn h).1

/-- on a tree satisfying the invariant the value is `denote` -/
theorem infixOf_denote {t : Tree} (inv : TreeInv t) {nf : Nat}
    (hsurf : ∀ i k, i < t.size → t.get i = .surface k → k < lbegin ∧ k < nf)
    {f n : Nat} (hn : n < t.size) {l : List Nat} (h : infixOf t f n = some l) (σ : Nat → Bool) :
    infixEval l σ = denote t σ n ∧ infixWellFormed l nf = true :=
  infixOf_correct inv.struct (denote_models inv.sorted σ) hsurf hn h

/-! ### non-vacuity -/

/-- senses of `InfixEvaluator.test.cc` (`true` = `Sense::outside`): first and second vector -/
def testSenses1 : Nat → Bool :=
  fun i => [false, true, false, true, false, true, false, false, true].getD i false
def testSenses2 : Nat → Bool :=
  fun i => [false, true, false, true, true, true, true, false, true, true].getD i false

/-- `alpha_logic`, `beta_logic`, `delta_logic` of `InfixEvaluator.test.cc` -/
def testAlpha : List Nat := [lnot, 1, lor, 2, lor, lnot, 3, lor, 4, lor, lnot, 8]
def testBeta : List Nat :=
  [lopen, lopen, lopen, lopen, 5, land, lnot, 1, lclose, land, 6, lclose, land, lnot, 7, lclose,
    land, 8, lclose]
def testDelta : List Nat :=
  [lopen, lopen, lopen, lopen, lnot, 1, lor, 2, lor, lnot, 3, lor, 4, lclose, land, lnot, 5, lor,
    1, lor, lnot, 6, lor, 7, lclose, land, 8, lclose, land, lnot, 0, lclose]

-- the two expressions quoted in the task: accepted, evaluated as written, for all senses of the
-- faces involved the value is the expected one
example : infixWellFormed [lopen, lopen, 5, land, lnot, 1, lclose, land, 6, lclose] 7 = true := by
  decide
example : ∀ a b c : Bool,
    infixEval [lopen, lopen, 5, land, lnot, 1, lclose, land, 6, lclose]
      (fun s => if s = 5 then a else if s = 1 then b else c) = ((a && !b) && c) := by decide
example : infixWellFormed [lnot, 1, lor, 2, lor, lnot, 3] 4 = true := by decide
example : ∀ a b c : Bool,
    infixEval [lnot, 1, lor, 2, lor, lnot, 3]
      (fun s => if s = 1 then a else if s = 2 then b else c) = (!a || b || !c) := by decide

-- the unit test `InfixEvaluatorTest.evaluate` (same expected values as `EXPECT_FALSE/TRUE`)
example : infixEval testAlpha testSenses1 = false ∧ infixWellFormed testAlpha 9 = true := by decide
example : infixEval testBeta testSenses1 = false ∧ infixWellFormed testBeta 9 = true := by decide
example : infixEval [8] testSenses1 = true ∧ infixEval [ltrue] testSenses1 = true := by decide
/-- `delta_logic` mixes `&` and `|` inside one parenthesis level: it is NOT in grammar G (the
    check rejects it) although the test expectation holds (`infixEval_correct_flat` covers it:
    right-nested reading) -/
example : infixEval testDelta testSenses2 = true ∧ infixWellFormed testDelta 10 = false := by
  decide

-- malformed inputs are rejected: face out of range, unbalanced, dangling operator, `lnot (`,
-- empty, `lnot ltrue`
example : infixWellFormed [3] 3 = false ∧ infixWellFormed [lopen, 0] 1 = false
    ∧ infixWellFormed [0, lclose] 1 = false ∧ infixWellFormed [0, lor] 1 = false
    ∧ infixWellFormed [lnot, lopen, 0, lclose] 1 = false ∧ infixWellFormed [] 1 = false
    ∧ infixWellFormed [lnot, ltrue] 1 = false ∧ infixWellFormed [lopen, lclose] 1 = false := by
  decide

/-- LIMITATION (outside G): mixed operators at one level are evaluated left to right with
    short-circuit, i.e. as `a & (b | c)`; with the standard precedence reading `(a & b) | c`
    the value for `a = F, c = T` would be `true` -/
example : infixEval [0, land, 1, lor, 2] (fun s => s = 2) = false
    ∧ (((fun s => decide (s = 2)) 0 && (fun s => decide (s = 2)) 1) || (fun s => decide (s = 2)) 2)
      = true
    ∧ infixWellFormed [0, land, 1, lor, 2] 3 = false := by decide

/-- the same through the theorem: the as-written value of a mixed chain is the right-nested one -/
example (vals : Nat → Bool) :
    infixEval [0, land, 1, lor, 2] vals = (vals 0 && (vals 1 || vals 2)) :=
  infixEval_correct_flat (nf := 3) (e := join .and (face 0) (join .or (face 1) (face 2)))
    (by decide) vals

-- `infixOf` on trees built with `insert`
example : infixOf ex1 (ex1.size + 1) 4 = some [lopen, 0, land, 1, lclose] := by decide
example : infixOf ex2 (ex2.size + 1) 7
    = some [lopen, lopen, 0, land, 1, lclose, land, lopen, 0, lor, lnot, 1, lclose, lclose] := by
  decide
/-- a negated join has no infix encoding -/
example : infixOf ex3 (ex3.size + 1) 5 = none := by decide

/-- `infixEval_correct` instantiated: `( (5 & ~1) & 6 )` for every sense assignment -/
example (vals : Nat → Bool) :
    infixEval [lopen, lopen, 5, land, lnot, 1, lclose, land, 6, lclose] vals
      = ((vals 5 && !vals 1) && vals 6) :=
  infixEval_correct (nf := 7)
    (e := paren (join .and (paren (join .and (face 5) (nface 1))) (face 6))) (by decide) vals

end CelerVerif.Csg
