/-
Klein–Nishina at ℝ: decomposition of the interactor into loop + final state, the loop's range
invariant, energy bookkeeping, kinematics of the Compton electron, rejection bound.
-/
import CelerVerif.Lemmas.InteractVec
import Mathlib.Analysis.SpecialFunctions.Log.Basic
import Mathlib.Analysis.SpecialFunctions.Exp

namespace CelerVerif.Interact
open CelerVerif

/-- every scripted uniform is a canonical value in [0, 1) -/
def canonical (script : Script ℝ) : Prop := ∀ u ∈ script, 0 ≤ u ∧ u < 1

/-! ### allocator -/

theorem alloc_none {cap size n : ℕ} (h : cap < size + n) : alloc cap size n = none := by
  unfold alloc; simp [h]

theorem alloc_some {cap size n sz : ℕ} (h : alloc cap size n = some sz) :
    size + n ≤ cap ∧ sz = size + n := by
  unfold alloc at h
  split_ifs at h with hc
  · simp at h
    exact ⟨by omega, h.symm⟩

/-! ### bookkeeping -/

@[simp] theorem secondaryEnergy_nil (m : ℝ) : secondaryEnergy m ([] : List (Secondary ℝ)) = 0 := by
  unfold secondaryEnergy; inum

theorem secondaryEnergy_cons (m : ℝ) (s : Secondary ℝ) (r : List (Secondary ℝ)) :
    secondaryEnergy m (s :: r)
      = s.energy + (if s.pid = some pidPositron then 2 * m else 0) + secondaryEnergy m r := by
  conv_lhs => unfold secondaryEnergy
  inum
  by_cases h : s.pid = some pidPositron <;> simp [h]

/-! ### the loop -/

/-- whatever the loop returns was produced by an accepted trial on three script entries -/
theorem knLoop_spec (s : KNSetup ℝ) : ∀ (fuel : ℕ) (script : Script ℝ) (eps omc : ℝ)
    (rest : Script ℝ), knLoop s fuel script = some ((eps, omc), rest) →
    ∃ u1 u2 u3, u1 ∈ script ∧ u2 ∈ script ∧ u3 ∈ script ∧ knTrial s u1 u2 u3 = (eps, omc, false)
      ∧ (∀ u ∈ rest, u ∈ script) := by
  intro fuel
  induction fuel with
  | zero => intro script eps omc rest h; simp [knLoop] at h
  | succ n ih =>
    intro script eps omc rest h
    match script, h with
    | u1 :: u2 :: u3 :: tl, h =>
      simp only [knLoop] at h
      split_ifs at h with hr
      · obtain ⟨a, b, c, ha, hb, hc, ht, hrest⟩ := ih tl eps omc rest h
        exact ⟨a, b, c, by simp [ha], by simp [hb], by simp [hc], ht,
          fun u hu => by simp [hrest u hu]⟩
      · simp only [Option.some.injEq, Prod.mk.injEq] at h
        obtain ⟨⟨h1, h2⟩, h3⟩ := h
        refine ⟨u1, u2, u3, by simp, by simp, by simp, ?_, ?_⟩
        · have hb : (knTrial s u1 u2 u3).2.2 = false := by simpa using hr
          rw [← h1, ← h2, ← hb]
        · intro u hu; rw [← h3] at hu; simp [hu]
    | [], h => simp [knLoop] at h
    | [_], h => simp [knLoop] at h
    | [_, _], h => simp [knLoop] at h

/-! ### setup facts -/

theorem knSetup_k (E im : ℝ) : (knSetup E im).k = E * im := by unfold knSetup; inum
theorem knSetup_eps0 (E im : ℝ) : (knSetup E im).eps0 = 1 / (1 + 2 * (E * im)) := by
  unfold knSetup; inum
theorem knSetup_eps0sq (E im : ℝ) :
    (knSetup E im).eps0sq = (knSetup E im).eps0 * (knSetup E im).eps0 := by unfold knSetup; inum

theorem eps0_range (k : ℝ) (hk : 0 < k) : 0 < 1 / (1 + 2 * k) ∧ 1 / (1 + 2 * k) < 1 := by
  constructor
  · positivity
  · rw [div_lt_one (by positivity)]; linarith

/-- a trial's ε lies in [ε₀, 1] and its `1 − cos θ` is `(1−ε)/(εκ)`, for a uniform in [0,1] -/
theorem knTrial_range (E im u1 u2 u3 : ℝ) (hE : 0 < E) (him : 0 < im) (h0 : 0 ≤ u2) (h1 : u2 ≤ 1) :
    let s := knSetup E im
    let t := knTrial s u1 u2 u3
    s.eps0 ≤ t.1 ∧ t.1 ≤ 1 ∧ t.2.1 = (1 - t.1) / (t.1 * (E * im)) := by
  intro s t
  have hk : 0 < E * im := mul_pos hE him
  obtain ⟨he0, he1⟩ := eps0_range (E * im) hk
  have hs0 : s.eps0 = 1 / (1 + 2 * (E * im)) := knSetup_eps0 E im
  have hsk : s.k = E * im := knSetup_k E im
  have hsq : s.eps0sq = s.eps0 * s.eps0 := knSetup_eps0sq E im
  show s.eps0 ≤ (knTrial s u1 u2 u3).1 ∧ (knTrial s u1 u2 u3).1 ≤ 1
    ∧ (knTrial s u1 u2 u3).2.1 = (1 - (knTrial s u1 u2 u3).1) / ((knTrial s u1 u2 u3).1 * (E * im))
  unfold knTrial bernoulli reciprocal uniformReal
  inum
  rw [hsk, hsq]
  generalize s.eps0 = e0 at *
  rw [hs0.symm] at he0 he1
  split_ifs with hb
  · -- ε = exp(log ε₀ · u)
    simp only [div_one, one_mul]
    refine ⟨?_, ?_, ?_⟩
    rotate_left 2
    · first | trivial | rfl
    · have hl : Real.log e0 ≤ 0 := Real.log_nonpos (le_of_lt he0) (le_of_lt he1)
      calc e0 = Real.exp (Real.log e0) := (Real.exp_log he0).symm
        _ ≤ Real.exp (Real.log e0 * u2) := by
            apply Real.exp_le_exp.mpr; nlinarith
    · have hl : Real.log e0 ≤ 0 := Real.log_nonpos (le_of_lt he0) (le_of_lt he1)
      rw [← Real.exp_zero]; apply Real.exp_le_exp.mpr; nlinarith
  · -- ε = sqrt(ε₀² + (1 − ε₀²) u)
    refine ⟨?_, ?_, rfl⟩
    · apply Real.le_sqrt_of_sq_le
      have : 0 ≤ (1 - e0 * e0) * u2 := mul_nonneg (by nlinarith) h0
      nlinarith
    · apply Real.sqrt_le_iff.mpr
      constructor
      · norm_num
      · have : (1 - e0 * e0) * u2 ≤ (1 - e0 * e0) * 1 :=
          mul_le_mul_of_nonneg_left h1 (by nlinarith)
        nlinarith

/-! ### final state -/

theorem knFinal_energy (m E : ℝ) (d : Vec3 ℝ) (eps omc u : ℝ) :
    let i := knFinal E d eps omc u
    i.energy + secondaryEnergy m i.secondaries + i.deposit = E := by
  intro i
  show (knFinal E d eps omc u).energy + secondaryEnergy m (knFinal E d eps omc u).secondaries
    + (knFinal E d eps omc u).deposit = E
  unfold knFinal
  inum
  split_ifs with h
  · simp only [secondaryEnergy_cons, secondaryEnergy_nil, Secondary.empty]
    inum
    simp [pidPositron]
  · simp only [secondaryEnergy_cons, secondaryEnergy_nil]
    simp [pidPositron, pidElectron]

/-- decomposition of `KleinNishinaInteractor::operator()` -/
theorem kn_done {cap size : ℕ} {E im : ℝ} {d : Vec3 ℝ} {script : Script ℝ} {i : Interaction ℝ}
    {sz : ℕ} {rest : Script ℝ} (h : kleinNishina cap size E im d script = .done i sz rest) :
    size + 1 ≤ cap ∧ sz = size + 1 ∧ ∃ eps omc u,
      knLoop (knSetup E im) (script.length + 1) script = some ((eps, omc), u :: rest)
      ∧ i = knFinal E d eps omc u := by
  unfold kleinNishina at h
  cases ha : alloc cap size 1 with
  | none => rw [ha] at h; simp at h
  | some s' =>
    rw [ha] at h
    obtain ⟨h1, h2⟩ := alloc_some ha
    cases hl : knLoop (knSetup E im) (script.length + 1) script with
    | none => rw [hl] at h; simp at h
    | some r =>
      obtain ⟨⟨eps, omc⟩, rst⟩ := r
      rw [hl] at h
      cases rst with
      | nil => simp at h
      | cons u tl =>
        simp only [Outcome.done.injEq] at h
        obtain ⟨hi, hs, hr⟩ := h
        exact ⟨h1, by omega, eps, omc, u, by rw [hr], hi.symm⟩

/-! ### kinematics -/

/-- Compton kinematics: with `E' = εE`, `1 − cos θ = (1−ε)/(εκ)`, `κ = E/m`:
    `|E d − E' d'|² = T (T + 2m)`, `T = E − E'` -/
theorem compton_recoil_sq (E m eps : ℝ) (hE : 0 < E) (hm : 0 < m) (he : 0 < eps) :
    let omc := (1 - eps) / (eps * (E * (1 / m)))
    let E' := eps * E
    E * E + E' * E' - 2 * E * E' * (1 - omc) = (E - E') * ((E - E') + 2 * m) := by
  intro omc E'
  show E * E + eps * E * (eps * E) - 2 * E * (eps * E) * (1 - (1 - eps) / (eps * (E * (1 / m))))
    = (E - eps * E) * ((E - eps * E) + 2 * m)
  have h1 : E ≠ 0 := ne_of_gt hE
  have h2 : m ≠ 0 := ne_of_gt hm
  have h3 : eps ≠ 0 := ne_of_gt he
  field_simp
  ring

/-- `0 ≤ 1 − cos θ ≤ 2` exactly when `ε₀ ≤ ε ≤ 1` -/
theorem compton_omc_range (k eps : ℝ) (hk : 0 < k) (h0 : 1 / (1 + 2 * k) ≤ eps) (h1 : eps ≤ 1) :
    0 ≤ (1 - eps) / (eps * k) ∧ (1 - eps) / (eps * k) ≤ 2 := by
  have he : 0 < eps := lt_of_lt_of_le (eps0_range k hk).1 h0
  have hp : 0 < eps * k := mul_pos he hk
  constructor
  · apply div_nonneg (by linarith) (le_of_lt hp)
  · rw [div_le_iff₀ hp]
    have : 1 ≤ eps * (1 + 2 * k) := by
      have := (div_le_iff₀ (by positivity : (0 : ℝ) < 1 + 2 * k)).mp h0
      linarith
    nlinarith

/-- the rejection probability of a trial never exceeds ½ -/
theorem kn_reject_le_half (eps t : ℝ) (he : 0 ≤ eps) :
    eps * (t * (2 - t)) / (1 + eps * eps) ≤ 1 / 2 := by
  rw [div_le_iff₀ (by positivity)]
  nlinarith [sq_nonneg (1 - eps), sq_nonneg (1 - t), mul_nonneg he (sq_nonneg (1 - t))]

end CelerVerif.Interact
