/-
Real-number reading of the sampler model: `instance : NumX ℝ`, the `dist_simp` rewriting macro
(Num ℝ operations and the numeric literals of Model/Dist.lean → ordinary real arithmetic), and
the vocabulary used by Props/C15.lean (canonical uniforms, exact draw counts).
-/
import CelerVerif.Num.Real
import CelerVerif.Model.Dist
import Mathlib.Analysis.SpecialFunctions.Pow.Real
import Mathlib.Tactic.Ring
import Mathlib.Tactic.Linarith
import Mathlib.Tactic.FieldSimp
import Mathlib.Tactic.Positivity
import Mathlib.Tactic.NormNum

namespace CelerVerif.Dist
open CelerVerif

/-- `std::cbrt` on the non-negative reals (the only arguments it receives: u ∈ [0,1));
    `cvttsd2si`: truncation toward zero, out of range → −2^63 -/
noncomputable instance : NumX ℝ where
  cbrt := fun x => x ^ ((1 : ℝ) / 3)
  pow := fun x y => x ^ y
  truncI64 := fun x =>
    if x < -(2 : ℝ) ^ 63 ∨ (2 : ℝ) ^ 63 ≤ x then -(2 ^ 63 : Int)
    else if 0 ≤ x then ⌊x⌋ else ⌈x⌉

namespace R
theorem cbrt_real (x : ℝ) : NumX.cbrt x = x ^ ((1 : ℝ) / 3) := rfl
theorem pow_real (x y : ℝ) : NumX.pow x y = x ^ y := rfl
theorem trunc_real (x : ℝ) : NumX.truncI64 x =
    if x < -(2 : ℝ) ^ 63 ∨ (2 : ℝ) ^ 63 ≤ x then -(2 ^ 63 : Int)
    else if 0 ≤ x then ⌊x⌋ else ⌈x⌉ := rfl

/-! literals of the model read at ℝ -/
theorem lit9 : (@OfNat.ofNat ℝ 9 (Num.instOfNat 9)) = (9 : ℝ) := by
  show ((9 : ℕ) : ℝ) = 9; norm_num
theorem lit16 : (@OfNat.ofNat ℝ 16 (Num.instOfNat 16)) = (16 : ℝ) := by
  show ((16 : ℕ) : ℝ) = 16; norm_num
theorem sci_half : (@OfScientific.ofScientific ℝ Num.instOfScientific 5 true 1) = (1 / 2 : ℝ) := by
  show (OfScientific.ofScientific 5 true 1 : ℝ) = 1 / 2; norm_num
theorem sci_quarter : (@OfScientific.ofScientific ℝ Num.instOfScientific 25 true 2) = (1 / 4 : ℝ) := by
  show (OfScientific.ofScientific 25 true 2 : ℝ) = 1 / 4; norm_num
theorem sci_1p6 : (@OfScientific.ofScientific ℝ Num.instOfScientific 16 true 1) = (8 / 5 : ℝ) := by
  show (OfScientific.ofScientific 16 true 1 : ℝ) = 8 / 5; norm_num
theorem sci_squeeze : (@OfScientific.ofScientific ℝ Num.instOfScientific 331 true 4)
    = (331 / 10000 : ℝ) := by
  show (OfScientific.ofScientific 331 true 4 : ℝ) = 331 / 10000; norm_num
theorem sci_pi : (@OfScientific.ofScientific ℝ Num.instOfScientific 314159265358979323846 true 20)
    = (314159265358979323846 / 100000000000000000000 : ℝ) := by
  show (OfScientific.ofScientific 314159265358979323846 true 20 : ℝ) = _; norm_num
end R

/-- rewrite `Num ℝ` operations and literals into ordinary real arithmetic -/
macro "dist_simp" loc:(Lean.Parser.Tactic.location)? : tactic => `(tactic|
  simp only [NumR.gt_real, NumR.ge_real, NumR.sq_real, NumR.le_real, NumR.lt_real, NumR.eq_real,
    NumR.hsub_real, NumR.hneg_real, NumR.hadd_real, NumR.hmul_real, NumR.hdiv_real,
    NumR.sqrt_real, NumR.abs_real, NumR.exp_real, NumR.log_real, NumR.sin_real, NumR.cos_real,
    NumR.lit0, NumR.lit1, NumR.lit2, NumR.lit3, NumR.lit4, R.lit9, R.lit16,
    R.sci_half, R.sci_quarter, R.sci_1p6, R.sci_squeeze, R.sci_pi, R.cbrt_real,
    NumR.fma_real, Num.ne, NumR.eq_real_false, NumR.ofNat_zero, NumR.ofNat_one,
    NumR.lt_real_false, NumR.le_real_false,
    Bool.not_eq_true', decide_eq_true_eq, decide_eq_false_iff_not,
    Bool.and_eq_true, Bool.or_eq_true, Bool.not_eq_true, Bool.not_eq_eq_eq_not, Bool.not_true,
    Bool.not_false] $[$loc]?)

/-- canonical uniform: `generate_canonical` returns values in [0, 1) -/
def Canon (u : ℝ) : Prop := 0 ≤ u ∧ u < 1
/-- canonical uniform different from 0 (needed wherever the code takes `log u`) -/
def CanonPos (u : ℝ) : Prop := 0 < u ∧ u < 1

theorem CanonPos.canon {u : ℝ} (h : CanonPos u) : Canon u := ⟨le_of_lt h.1, h.2⟩

/-- the sampler consumes exactly `k` uniforms whatever their values: it fails iff fewer than `k`
    are left and otherwise returns the script with exactly `k` values removed -/
def DrawsExactly {β : Type} (f : Rng ℝ β) (k : Nat) : Prop :=
  ∀ s : List ℝ, (s.length < k → f s = none) ∧ (k ≤ s.length → ∃ x, f s = some (x, s.drop k))

/-- twopi literal at ℝ (a rational approximation of 2π, as in the code) -/
theorem twopi_real : (twopi : ℝ) = 2 * (314159265358979323846 / 100000000000000000000 : ℝ) := by
  unfold twopi pi; dist_simp

theorem ipow3_real (v : ℝ) : ipow3 v = v * v * v := by unfold ipow3; dist_simp
theorem ipow4_real (v : ℝ) : ipow4 v = (v * v) * (v * v) := by unfold ipow4; dist_simp
theorem fastpow_real (a b : ℝ) : fastpow a b = Real.exp (b * Real.log a) := by
  unfold fastpow; dist_simp

end CelerVerif.Dist
