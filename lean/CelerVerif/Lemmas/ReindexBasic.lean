/- Helper lemmas for Props/C06 (thread → slot indirection, key-sorted thread arrays). -/
import CelerVerif.Model.Reindex
import CelerVerif.Lemmas.GatherBasic

namespace CelerVerif.Reindex

/-- `Reindex.launch` is `Gather.launch` over the list of slots visited by threads 0..n-1 -/
theorem launch_eq_gather {σ : Type} (f : Nat → σ → σ) (ts : List Nat) (st : List σ) :
    launch f ts st =
      Gather.launch (fun (r : Nat) (s : σ) => f r s) id
        ((List.range st.length).map (slotOfThread ts)) st := by
  unfold launch Gather.launch
  rw [List.foldl_map]
  rfl

theorem slots_of_perm (ts : List Nat) (n : Nat) (h : ts.length = n) (hne : ts ≠ []) :
    (List.range n).map (slotOfThread ts) = ts := by
  apply List.ext_getElem
  · simp [h]
  · intro i h1 h2
    have hi : i < ts.length := by simpa [h] using h1
    have : ts.isEmpty = false := by cases ts <;> simp_all
    simp [slotOfThread, this, List.getD_eq_getElem?_getD, List.getElem?_eq_getElem hi]

theorem slots_of_empty (n : Nat) : (List.range n).map (slotOfThread []) = List.range n := by
  apply List.ext_getElem
  · simp
  · intro i h1 h2
    simp [slotOfThread]

/-- applying a slot-local update through ANY indirection array that is a permutation of the
    slots (or through the empty array = identity) gives the element-wise update -/
theorem launch_perm {σ : Type} (f : Nat → σ → σ) (ts : List Nat) (st : List σ)
    (h : ts = [] ∨ ts.Perm (List.range st.length)) : launch f ts st = mapSlots f st := by
  rw [launch_eq_gather]
  have key : ∀ slots : List Nat, slots.Perm (List.range st.length) →
      Gather.launch (fun (r : Nat) (s : σ) => f r s) id slots st = mapSlots f st := by
    intro slots hp
    have hnd : slots.Nodup := (List.Perm.nodup_iff hp).mpr List.nodup_range
    rw [Gather.launch_eq_mapIdx _ _ slots hnd st]
    unfold mapSlots
    apply List.ext_getElem?
    intro i
    simp only [List.getElem?_mapIdx]
    cases hs : st[i]? with
    | none => rfl
    | some s =>
      have hi : i < st.length := (List.getElem?_eq_some_iff.mp hs).1
      have : i ∈ slots := (List.Perm.mem_iff hp).mpr (List.mem_range.mpr hi)
      simp [this]
  rcases h with h | h
  · subst h
    rw [slots_of_empty]
    exact key _ (List.Perm.refl _)
  · by_cases hne : ts = []
    · subst hne
      rw [slots_of_empty]
      exact key _ (List.Perm.refl _)
    · have hl : ts.length = st.length := by simpa using h.length_eq
      rw [slots_of_perm ts st.length hl hne]
      exact key ts h

/-! ### key-sorted thread arrays -/

def keyLt (a : Nat) (k : Id) : Bool :=
  match k with
  | some b => b < a
  | none => false

theorem keyLt_mono {x y : Id} (hxy : idLe x y = true) (a : Nat) (h : keyLt a x = false) :
    keyLt a y = false := by
  cases x with
  | none =>
    cases y with
    | none => rfl
    | some b => simp [idLe, idLt] at hxy
  | some xa =>
    cases y with
    | none => rfl
    | some b =>
      simp [idLe, idLt] at hxy
      simp [keyLt] at h ⊢
      omega

theorem offsetSpec_eq (keys : List Id) (a : Nat) : offsetSpec keys a = keys.countP (keyLt a) := by
  unfold offsetSpec
  apply List.countP_congr
  intro k _
  cases k <;> simp [keyLt]

/-- in a key-sorted array the threads with key below `a` are exactly the first
    `offsetSpec keys a` threads -/
theorem lt_offsetSpec_iff (keys : List Id) (hs : keys.Pairwise (fun x y => idLe x y = true))
    (a t : Nat) (k : Id) (hk : keys[t]? = some k) :
    t < offsetSpec keys a ↔ keyLt a k = true := by
  rw [offsetSpec_eq]
  induction keys generalizing t with
  | nil => simp at hk
  | cons x xs ih =>
    have hs' := List.pairwise_cons.mp hs
    by_cases hx : keyLt a x = true
    · cases t with
      | zero =>
        have : x = k := by simpa using hk
        subst this
        simp [List.countP_cons, hx]
      | succ t' =>
        have hk' : xs[t']? = some k := by simpa using hk
        have := ih hs'.2 t' hk'
        rw [List.countP_cons, ← this]
        simp only [hx, ↓reduceIte]
        omega
    · have hx' : keyLt a x = false := by simpa using hx
      have hall : ∀ y ∈ xs, keyLt a y = false := fun y hy => keyLt_mono (hs'.1 y hy) a hx'
      have hzero : xs.countP (keyLt a) = 0 := by
        rw [List.countP_eq_zero]
        intro y hy; simp [hall y hy]
      have hget : keyLt a k = false := by
        cases t with
        | zero =>
          have : x = k := by simpa using hk
          subst this; exact hx'
        | succ t' =>
          have hk' : xs[t']? = some k := by simpa using hk
          exact hall k (List.mem_of_getElem? hk')
      rw [List.countP_cons]
      simp [hx', hzero, hget]

end CelerVerif.Reindex
