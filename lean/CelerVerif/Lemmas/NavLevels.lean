/-
Nested universes along one ray: (a) the per-level rays of the track state are the images of
the global ray under the daughter transforms (translations, orthonormal transformations), with
the same path parameter; (b) composition by induction on depth: the nested location is constant
up to the smallest per-level exit distance and changes there at the shallowest level attaining it.
-/
import CelerVerif.Lemmas.NavRay
import CelerVerif.Lemmas.SurfTransform

namespace CelerVerif.Nav
open CelerVerif CelerVerif.Surf
noncomputable section

/-! ### (a) frames -/

theorem axpy_eq_along (t : ℝ) (dir pos : Vec3 ℝ) : Vec3.axpy t dir pos = along pos dir t := by
  apply vec3_ext <;> simp [along, Vec3R.axpy_real] <;> ring

/-- transforming a point of the ray down into a daughter gives the point of the daughter's
    local ray at the SAME path parameter (no hypothesis on the matrix: linearity) -/
theorem down_along (T : Transform ℝ) (pos dir : Vec3 ℝ) (t : ℝ) :
    T.down (along pos dir t) = along (T.down pos) (T.rotDown dir) t := by
  cases T with
  | none => rfl
  | translation tra =>
    apply vec3_ext <;> simp only [Transform.down, Transform.rotDown, along] <;> xf_simp <;>
      num_simp <;> ring
  | transformation tr =>
    apply vec3_ext <;> simp only [Transform.down, Transform.rotDown, along] <;> xf_simp <;>
      num_simp <;> ring

/-- a daughter transform is an isometry on directions when its matrix has orthonormal rows -/
def Transform.Ortho : Transform ℝ → Prop
  | .transformation t => t.rot.orthoRows
  | _ => True

theorem rotDown_unit (T : Transform ℝ) (hT : T.Ortho) (d : Vec3 ℝ) (hu : unitDir d) :
    unitDir (T.rotDown d) := by
  cases T with
  | none => exact hu
  | translation _ => exact hu
  | transformation tr =>
    obtain ⟨h1, h2, h3, h4, h5, h6⟩ := hT
    unfold unitDir at *
    simp only [Transform.rotDown]
    xf_simp; num_simp
    linear_combination hu + d.x * d.x * h1 + d.y * d.y * h2 + d.z * d.z * h3
      + 2 * d.x * d.y * h4 + 2 * d.x * d.z * h5 + 2 * d.y * d.z * h6

/-- the level data of a track state are consistent: each deeper level holds the image of the
    level above under the daughter transform of the volume the level above is in -/
def LevelsConsistent (g : Geo ℝ) (s : State ℝ) : Prop :=
  ∀ k, k + 1 < s.levels.size →
    (s.lev (k + 1)).pos = (levelTransform g s k).down (s.lev k).pos ∧
    (s.lev (k + 1)).dir = (levelTransform g s k).rotDown (s.lev k).dir

/-- ★ with consistent levels, the local ray of every level is the image of the ray of the level
    above — all levels see the same physical ray with the same distances -/
theorem levels_follow_ray (g : Geo ℝ) (s : State ℝ) (hc : LevelsConsistent g s) (k : ℕ)
    (hk : k + 1 < s.levels.size) (t : ℝ) :
    along (s.lev (k + 1)).pos (s.lev (k + 1)).dir t
      = (levelTransform g s k).down (along (s.lev k).pos (s.lev k).dir t) := by
  obtain ⟨hp, hd⟩ := hc k hk
  rw [hp, hd, down_along]

/-- … and unit directions stay unit through orthonormal daughters -/
theorem levels_unit_dir (g : Geo ℝ) (s : State ℝ) (hc : LevelsConsistent g s)
    (ho : ∀ k, k + 1 < s.levels.size → (levelTransform g s k).Ortho)
    (hu : unitDir (s.lev 0).dir) (k : ℕ) (hk : k < s.levels.size) : unitDir (s.lev k).dir := by
  induction k with
  | zero => exact hu
  | succ k ih =>
    rw [(hc k hk).2]
    exact rotDown_unit _ (ho k hk) _ (ih (by omega))

theorem lev_moveLevels (s : State ℝ) (d : ℝ) (k : ℕ) (hk : k < s.levels.size) :
    State.lev { s with levels := moveLevels s d } k
      = { s.lev k with pos := Vec3.axpy d (s.lev k).dir (s.lev k).pos } := by
  simp [State.lev, moveLevels, Array.getD, hk]

theorem levelTransform_moveLevels (g : Geo ℝ) (s : State ℝ) (d : ℝ) (k : ℕ)
    (hk : k < s.levels.size) :
    levelTransform g { s with levels := moveLevels s d } k = levelTransform g s k := by
  unfold levelTransform
  rw [lev_moveLevels s d k hk]

/-- moving along the direction (`move_internal(dist)`, `move_to_boundary`) keeps the levels
    consistent: every level moves to the image of the same global point -/
theorem moveLevels_consistent (g : Geo ℝ) (s : State ℝ) (hc : LevelsConsistent g s) (d : ℝ) :
    LevelsConsistent g { s with levels := moveLevels s d } := by
  intro k hk
  have hsz : (moveLevels s d).size = s.levels.size := by simp [moveLevels]
  have hk' : k + 1 < s.levels.size := by simpa [hsz] using hk
  obtain ⟨hp, hd⟩ := hc k hk'
  rw [lev_moveLevels s d (k + 1) hk', lev_moveLevels s d k (by omega),
    levelTransform_moveLevels g s d k (by omega)]
  refine ⟨?_, hd⟩
  show Vec3.axpy d (s.lev (k + 1)).dir (s.lev (k + 1)).pos
    = (levelTransform g s k).down (Vec3.axpy d (s.lev k).dir (s.lev k).pos)
  rw [axpy_eq_along, axpy_eq_along, hp, hd, down_along]

/-! ### (b) composition over the depth -/

/-- one level seen along the ray: `volAt t` is the volume of this level's universe containing
    the ray point at parameter `t` (single-level point location), `v` the volume the tracker
    holds, `exit` the distance of the tracker's next boundary at this level (`⊤` = none),
    `other t` whatever is located below when this level is NOT in `v` -/
structure LevelRay where
  volAt : ℝ → ℕ
  v : ℕ
  exit : WithTop ℝ
  other : ℝ → List ℕ

/-- the single-level contract (what `ray_trace_matches_location_unit` provides per level) -/
structure LevelRay.Ok (L : LevelRay) : Prop where
  before : ∀ t : ℝ, 0 < t → (t : WithTop ℝ) < L.exit → L.volAt t = L.v
  after : ∀ d : ℝ, L.exit = (d : WithTop ℝ) → ∃ ε, 0 < ε ∧ ∀ t, d < t → t < d + ε → L.volAt t ≠ L.v

/-- nested point location: the volume at each level, descending into the tracker's daughter
    as long as the located volume is the tracker's -/
def nestedAt : List LevelRay → ℝ → List ℕ
  | [], _ => []
  | L :: rest, t => L.volAt t :: (if L.volAt t = L.v then nestedAt rest t else L.other t)

/-- before every per-level exit the nested location is the tracker's chain of volumes -/
theorem nested_const_before (ls : List LevelRay) (hok : ∀ L ∈ ls, L.Ok) (t : ℝ) (ht : 0 < t)
    (hlt : ∀ L ∈ ls, (t : WithTop ℝ) < L.exit) : nestedAt ls t = ls.map (·.v) := by
  induction ls with
  | nil => rfl
  | cons L rest ih =>
    have h1 := (hok L (by simp)).before t ht (hlt L (by simp))
    simp only [nestedAt, h1, if_true, List.map_cons]
    rw [ih (fun X hX => hok X (List.mem_cons_of_mem _ hX))
      (fun X hX => hlt X (List.mem_cons_of_mem _ hX))]

/-- ★ right behind the smallest exit distance `d`, attained at level `n` and at no shallower
    level, the nested location still agrees with the tracker above level `n` and differs from
    it AT level `n`: the boundary found by `find_next_step` (minimum over the levels, shallowest
    level on ties) is the first change of the nested location, at the level it reports -/
theorem nested_changes_at (ls : List LevelRay) (hok : ∀ L ∈ ls, L.Ok) (n : ℕ) (hn : n < ls.length)
    (d : ℝ) (hd0 : 0 ≤ d) (hexit : ls[n].exit = (d : WithTop ℝ))
    (hshallow : ∀ k (hk : k < n), (d : WithTop ℝ) < (ls[k]'(by omega)).exit) :
    ∃ ε, 0 < ε ∧ ∀ t, d < t → t < d + ε →
      (nestedAt ls t).take n = (ls.map (·.v)).take n ∧
      (nestedAt ls t)[n]? = some (ls[n].volAt t) ∧ ls[n].volAt t ≠ ls[n].v := by
  induction n generalizing ls with
  | zero =>
    cases ls with
    | nil => simp at hn
    | cons L rest =>
      obtain ⟨ε, hε, hne⟩ := (hok L (by simp)).after d (by simpa using hexit)
      refine ⟨ε, hε, ?_⟩
      intro t h1 h2
      exact ⟨by simp, by simp [nestedAt], by simpa using hne t h1 h2⟩
  | succ n ih =>
    cases ls with
    | nil => simp at hn
    | cons L rest =>
      have hn' : n < rest.length := by simpa using hn
      obtain ⟨ε, hε, hrest⟩ := ih rest (fun X hX => hok X (List.mem_cons_of_mem _ hX)) hn'
        (by simpa using hexit)
        (fun k hk => by
          have := hshallow (k + 1) (by omega)
          simpa using this)
      have hL : (d : WithTop ℝ) < L.exit := by simpa using hshallow 0 (by omega)
      -- stay before L's own exit
      obtain ⟨ε', hε', hbefore⟩ : ∃ ε', 0 < ε' ∧ ∀ t : ℝ, t < d + ε' → (t : WithTop ℝ) < L.exit := by
        cases hLe : L.exit with
        | top => exact ⟨1, one_pos, fun t _ => WithTop.coe_lt_top t⟩
        | coe e =>
          rw [hLe] at hL
          have hde : d < e := WithTop.coe_lt_coe.1 hL
          refine ⟨e - d, by linarith, ?_⟩
          intro t ht
          exact WithTop.coe_lt_coe.2 (by linarith)
      refine ⟨min ε ε', lt_min hε hε', ?_⟩
      intro t h1 h2
      have h2a : t < d + ε := lt_of_lt_of_le h2 (by have := min_le_left ε ε'; linarith)
      have h2b : t < d + ε' := lt_of_lt_of_le h2 (by have := min_le_right ε ε'; linarith)
      have hv : L.volAt t = L.v :=
        (hok L (by simp)).before t (by linarith) (hbefore t h2b)
      obtain ⟨r1, r2, r3⟩ := hrest t h1 h2a
      refine ⟨?_, ?_, ?_⟩
      · simp only [nestedAt, hv, if_true, List.map_cons, List.take_succ_cons, r1]
      · simpa [nestedAt, hv] using r2
      · simpa using r3

end
end CelerVerif.Nav
