/- ExtendFromSecondaries: per-slot executor, loop over slots, scan and vacancy rebuild (C02). -/
import CelerVerif.Lemmas.TrackInitSecondaries

namespace CelerVerif.TrackInit

/-- statuses that can reach the end-of-step action (pre-step and tracking cut ran) -/
def Slot.endOk (x : Slot) : Prop := x.status = .inactive ∨ x.status = .alive ∨ x.status = .killed

/-- number of initializers queued by the occupant of a slot = what `LocateAliveExecutor` counts -/
def qOf (order : Order) (x : Slot) : Nat :=
  if x.active then queuedCount (allowedOf order x) false x.secs else 0

/-- does the slot stay occupied after the end-of-step action -/
def keepOf (order : Order) (x : Slot) : Bool :=
  x.status == .alive || (x.active && allowedOf order x && decide (countValid x.secs > 0))

theorem locateSlot_eq (order : Order) (tid : Nat) (x : Slot) (h : x.endOk) :
    locateSlot order tid x = (if keepOf order x then none else some tid, qOf order x) := by
  unfold locateSlot qOf keepOf allowedOf Slot.active
  rw [queuedCount_false]
  rcases h with h | h | h <;> simp [h]
  · by_cases h2 : countValid x.secs > 0 <;> by_cases h3 : order = .initCharge <;> simp [h2, h3]
    all_goals omega

/-- frame + result of processing one slot -/
structure SlotStep (c : Counters) (tid : Nat) (s s' : State) (ni : Nat) : Prop where
  core : Core s' (ni + qOf s.cfg.order (s.slots.getD tid Slot.empty))
  cfg : s'.cfg = s.cfg
  len : s'.slots.length = s.slots.length
  ilen : s'.initializers.length = s.initializers.length
  tlen : s'.trackCounters.length = s.trackCounters.length
  plen : s'.parents.length = s.parents.length
  others : ∀ j, j ≠ tid → s'.slots[j]? = s.slots[j]?
  frame : s'.vacancies = s.vacancies ∧ s'.secCounts = s.secCounts ∧ s'.c = s.c ∧
    s'.pending = s.pending ∧ s'.indices = s.indices
  act : (s'.slots.getD tid Slot.empty).active = keepOf s.cfg.order (s.slots.getD tid Slot.empty)
  st : (s'.slots.getD tid Slot.empty).status = .inactive ∨
       (s'.slots.getD tid Slot.empty).status = .alive ∨
       (s'.slots.getD tid Slot.empty).status = .initializing
  /-- a slot whose track survived the step is not touched -/
  aliveSame : (s.slots.getD tid Slot.empty).status = .alive →
    s'.slots.getD tid Slot.empty = s.slots.getD tid Slot.empty

theorem processSlot_inv {c : Counters} {s : State} {tid ni : Nat} (hC : Core s ni)
    (htid : tid < s.slots.length) (hok : (s.slots[tid]).endOk)
    (hcap : c.numInitializers ≤ s.initializers.length)
    (hoff : (s.slots[tid]).active = true →
      ni = c.numInitializers - (c.numSecondaries - s.secCounts.getD tid 0) ∧
      c.numSecondaries - s.secCounts.getD tid 0 ≤ c.numInitializers ∧
      qOf s.cfg.order (s.slots[tid]) ≤ c.numSecondaries - s.secCounts.getD tid 0) :
    SlotStep c tid s (processSlot c s tid) ni := by
  have hget : s.slots.getD tid Slot.empty = s.slots[tid] := by
    simp [List.getD_eq_getElem?_getD, List.getElem?_eq_getElem htid]
  have hget? : s.slots[tid]? = some s.slots[tid] := List.getElem?_eq_getElem htid
  generalize hx : s.slots[tid] = x at *
  by_cases hact : x.active = true
  case neg =>
    have hin : x.status = .inactive := by
      simp [Slot.active] at hact; exact hact
    have : processSlot c s tid = s := by
      unfold processSlot; simp only [hget]; rw [if_pos hin]
    rw [this]
    refine ⟨?_, rfl, rfl, rfl, rfl, rfl, fun _ _ => rfl, ⟨rfl, rfl, rfl, rfl, rfl⟩, ?_, ?_,
      fun _ => rfl⟩
    · rw [hget]; simp [qOf, hact]; exact hC
    · rw [hget]; simp [keepOf, hact, hin]
    · rw [hget]; simp [hin]
  case pos =>
    obtain ⟨hni, hoffle, hq⟩ := hoff hact
    have hnin : x.status ≠ .inactive := by
      simp [Slot.active] at hact; exact hact
    have hmem : x ∈ s.slots := by rw [← hx]; exact List.getElem_mem htid
    have hxid : x.tid.isSome = true := hC.hasId x hmem hact
    have hxlive : x.ident ∈ liveL s.slots := by
      unfold liveL
      exact List.mem_map.mpr ⟨x, List.mem_filter.mpr ⟨hmem, hact⟩, rfl⟩
    have hxstarted := hC.live_sub_started hxlive
    have hevok : x.ev < s.trackCounters.length :=
      (hC.below _ (hC.started_sub_created hxstarted)).1
    have hpar : ParentOk s x.ev x.tid := by
      intro p hp
      refine ⟨x.ident, hxstarted, rfl, ?_⟩
      simp [Slot.ident, hp]
    -- the inner loop
    have hI : PSInv c tid x x.tid s ⟨s, c.numSecondaries - s.secCounts.getD tid 0, false⟩ := by
      refine ⟨by rw [← hni]; exact hC, hoffle, hcap, rfl, rfl, rfl, rfl, rfl, fun _ _ => rfl, ?_,
        hpar, ⟨rfl, rfl, rfl, rfl, rfl⟩, hevok⟩
      exact ⟨x, hget?, hact, rfl, rfl, fun _ => rfl, fun h => by cases h⟩
    have hqx : qOf s.cfg.order x = queuedCount (allowedOf s.cfg.order x) false x.secs := by
      simp [qOf, hact]
    obtain ⟨fI, foff, fini⟩ := psFold_inv x.secs hI (by rw [← hqx]; exact hq)
    generalize hl : x.secs.foldl (processSecondary c tid x.tid)
      ⟨s, c.numSecondaries - s.secCounts.getD tid 0, false⟩ = l at *
    have hps : processSlot c s tid =
        if ¬ l.initialized ∧ (l.s.slots.getD tid Slot.empty).status = .killed then
          releaseSlot l.s tid
        else l.s := by
      unfold processSlot
      simp only [hget]
      rw [if_neg hnin, hl]
    obtain ⟨y, hy, hyact, hyev, hypos, hy0, hy1⟩ := fI.cur
    have hyD : l.s.slots.getD tid Slot.empty = y := getD_of_getElem? hy
    have htid' : tid < l.s.slots.length := by rw [fI.len]; exact htid
    have hyget : l.s.slots[tid] = y := by
      rw [List.getElem?_eq_getElem htid'] at hy; exact Option.some.inj hy
    have hcoreL : Core l.s (ni + qOf s.cfg.order x) := by
      have := fI.core
      rw [foff, ← hqx] at this
      have he : c.numInitializers - (c.numSecondaries - s.secCounts.getD tid 0 - qOf s.cfg.order x)
          = ni + qOf s.cfg.order x := by omega
      rw [he] at this; exact this
    simp only [Bool.false_or] at fini
    rw [hps, hyD]
    by_cases hrel : ¬ l.initialized ∧ y.status = .killed
    case pos =>
      -- released
      rw [if_pos hrel]
      have hinf : l.initialized = false := by simpa using hrel.1
      have hyx : y = x := hy0 hinf
      have hyid : y.tid.isSome = true := by rw [hyx]; exact hxid
      obtain ⟨told, htold⟩ := Option.isSome_iff_exists.mp hyid
      have hfin : finOf y = [y.ident] := by simp [finOf, Slot.ident, htold]
      have hrs : releaseSlot l.s tid =
          { l.s with slots := l.s.slots.set tid { y with status := .inactive },
                     finished := l.s.finished ++ [y.ident] } := by
        unfold releaseSlot
        simp only [hyD, hfin]
      rw [hrs]
      have hcoreR := core_release (s := l.s) (ni := ni + qOf s.cfg.order x)
        (s' := { l.s with slots := l.s.slots.set tid { y with status := .inactive },
                          finished := l.s.finished ++ [y.ident] })
        hcoreL htid' (y := { y with status := .inactive }) (by rw [hyget]; exact hyact)
        (by simp [Slot.active]) rfl rfl rfl rfl
        (by rw [hyget]) rfl
      refine ⟨?_, fI.cfg, by simp; exact fI.len, fI.ilen, fI.tlen, fI.plen, ?_, fI.frame, ?_, ?_,
        ?_⟩
      rotate_right
      · intro hal
        rw [hget] at hal
        rw [← hyx, hrel.2] at hal; cases hal
      · rw [hget]; exact hcoreR
      · intro j hj
        simp only
        rw [List.getElem?_set_ne (by omega)]
        exact fI.others j hj
      · simp only [hget]
        rw [getD_set_eq]
        simp only [htid', and_self, if_true]
        have hk : x.status = .killed := by rw [← hyx]; exact hrel.2
        have hf : (allowedOf s.cfg.order x && decide (countValid x.secs > 0)) = false := by
          rw [← fini]; exact hinf
        simp [Slot.active, keepOf, hk, Bool.and_assoc, hf]
      · left
        rw [getD_set_eq]; simp [htid']
    case neg =>
      rw [if_neg hrel]
      refine ⟨by rw [hget]; exact hcoreL, fI.cfg, fI.len, fI.ilen, fI.tlen, fI.plen, fI.others,
        fI.frame, ?_, ?_, ?_⟩
      rotate_right
      · intro hal
        rw [hget] at hal
        rw [hyD, hget]
        apply hy0
        cases hi : l.initialized with
        | false => rfl
        | true =>
          rw [hi] at fini
          have : allowedOf s.cfg.order x = true := by
            cases h : allowedOf s.cfg.order x with
            | true => rfl
            | false => rw [h] at fini; simp at fini
          simp [allowedOf, hal] at this
      · rw [hyD, hget, hyact]
        by_cases hi : l.initialized = true
        · rw [hi] at fini
          simp [keepOf, hact]
          right; simpa using fini.symm
        · have hinf : l.initialized = false := by simpa using hi
          have hyx : y = x := hy0 hinf
          have hnk : x.status ≠ .killed := by
            intro h; exact hrel ⟨by simp [hinf], by rw [hyx]; exact h⟩
          have : x.status = .alive := by
            rcases hok with h | h | h
            · exact absurd h hnin
            · exact h
            · exact absurd h hnk
          simp [keepOf, this]
      · rw [hyD]
        by_cases hi : l.initialized = true
        · right; right; exact hy1 hi
        · have hinf : l.initialized = false := by simpa using hi
          have hyx : y = x := hy0 hinf
          have hnk : x.status ≠ .killed := by
            intro h; exact hrel ⟨by simp [hinf], by rw [hyx]; exact h⟩
          rcases hok with h | h | h
          · exact absurd h hnin
          · right; left; rw [hyx]; exact h
          · exact absurd h hnk

end CelerVerif.TrackInit
