/- Conditional liveness: induction over the run, explicit bound (C02). -/
import CelerVerif.Lemmas.TrackInitPsi5

namespace CelerVerif.TrackInit

/-- consecutive successful Stepper calls without new primaries in which every track that
    stays alive has taken fewer than `K` steps (⇔ every track is killed within `K` of its own
    steps) -/
inductive AgedRun (cfg : Cfg) (K : Nat) : State → List (List Outcome) → State → Prop where
  | nil {s : State} : AgedRun cfg K s [] s
  | cons {s s1 s' : State} {o : List Outcome} {os : List (List Outcome)} :
      cfg.slots ≤ o.length → OracleOk o → AgeOkL K (stepMid s).slots o →
      stepAny [] o s = .ok s1 → AgedRun cfg K s1 os s' → AgedRun cfg K s (o :: os) s'

theorem agedRun_potential {cfg : Cfg} (hslots : 1 ≤ cfg.slots) {K : Nat} (hK : 1 ≤ K)
    {s s' : State} {os : List (List Outcome)} (hrun : AgedRun cfg K s os s') (hI : Inv cfg s) :
    Inv cfg s' ∧ (os ≠ [] → s'.c.numAlive = (liveL s'.slots).length) ∧
    (Psi K s = 0 → Psi K s' = 0) ∧
    Psi K s' + (if Psi K s' = 0 then 0 else os.length) ≤ Psi K s + K * secsTotal os := by
  induction hrun with
  | nil =>
    refine ⟨hI, fun h => absurd rfl h, fun h => h, ?_⟩
    simp [secsTotal]
  | @cons s s1 s' o os hlen ho hage hstep _ ih =>
    obtain ⟨hI1, ha1, hz1, hp1⟩ := step_potential hslots hK hI o hlen ho hage hstep
    obtain ⟨hI', ha', hz', hp'⟩ := ih hI1
    have hsec : secsTotal (o :: os) = secsOf o + secsTotal os := by simp [secsTotal]
    refine ⟨hI', ?_, fun h => hz' (hz1 h), ?_⟩
    · intro _
      cases os with
      | nil => cases ‹AgedRun cfg K s1 [] s'›; exact ha1
      | cons o2 os2 => exact ha' (by simp)
    · rw [hsec, Nat.mul_add]
      by_cases h' : Psi K s' = 0
      · simp only [h', if_true]; omega
      · simp only [h', if_false] at hp' ⊢
        have hs0 : Psi K s ≠ 0 := fun h => h' (hz' (hz1 h))
        simp only [hs0, if_false] at hp1
        simp only [List.length_cons]
        omega

/-- general conditional liveness with the explicit bound f(K, S, slots, queued) =
    K · (slots + queued + S) -/
theorem liveness_bounded {cfg : Cfg} (hslots : 1 ≤ cfg.slots) {K : Nat} (hK : 1 ≤ K)
    {s s' : State} (hI : Inv cfg s) {os : List (List Outcome)} (hrun : AgedRun cfg K s os s')
    (S : Nat) (hS : secsTotal os ≤ S)
    (hlen : K * (cfg.slots + s.c.numInitializers + S) ≤ os.length) :
    s'.c.numInitializers = 0 ∧ s'.c.numAlive = 0 ∧ liveL s'.slots = [] := by
  obtain ⟨_, ha, _, hp⟩ := agedRun_potential hslots hK hrun hI
  -- the initial potential is at most K · (alive + queued) ≤ K · (slots + queued)
  have hb := (psiSlots_bounds hK s.slots).2
  have hocc := hI.occupied
  have hlive : (liveL s.slots).length ≤ cfg.slots := by omega
  have h0 : Psi K s ≤ K * (cfg.slots + s.c.numInitializers) := by
    unfold Psi
    have := Nat.mul_le_mul_left K hlive
    rw [Nat.mul_add]; omega
  have hSk := Nat.mul_le_mul_left K hS
  have hexp : K * (cfg.slots + s.c.numInitializers + S)
      = K * (cfg.slots + s.c.numInitializers) + K * S := by rw [Nat.mul_add]
  have hz : Psi K s' = 0 := by
    by_cases h : Psi K s' = 0
    · exact h
    · simp only [h, if_false] at hp
      omega
  obtain ⟨z1, z2⟩ := (Psi_zero_iff hK s').mp hz
  have hne : os ≠ [] := by
    intro h
    rw [h] at hlen
    have h1 : K * 1 ≤ K * (cfg.slots + s.c.numInitializers + S) :=
      Nat.mul_le_mul_left K (by omega)
    simp at hlen h1
    omega
  refine ⟨z2, ?_, z1⟩
  rw [ha hne, z1]; rfl

end CelerVerif.TrackInit
