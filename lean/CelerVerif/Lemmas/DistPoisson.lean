/-
The Poisson Gaussian branch on a concrete witness: λ = 17, u₁ = 3/4, u₂ = e^{−18}.
Box–Muller gives r = √(−2 ln u₂) = 6 and sin(twopi·3/4) ≈ −1, so the normal sample is
17 − 6·√17·cos ε ≈ −7.7: the repaired code (73ca547) returns 0 there, whereas the bare
`static_cast<unsigned>(sample + 0.5)` of the earlier code wraps to ≥ 2³¹.
-/
import CelerVerif.Lemmas.DistMore
import Mathlib.Analysis.Real.Pi.Bounds
import Mathlib.Analysis.SpecialFunctions.Trigonometric.Bounds

namespace CelerVerif.Dist
open CelerVerif

/-- sin at three quarters of the code's (rational) 2π is within 10⁻⁴ of −1 -/
theorem sin_three_quarter_turn :
    Real.sin ((twopi : ℝ) * (3 / 4)) ≤ -(9999 / 10000) ∧ -1 ≤ Real.sin ((twopi : ℝ) * (3 / 4)) := by
  rw [twopi_real]
  set θ : ℝ := 2 * (314159265358979323846 / 100000000000000000000 : ℝ) * (3 / 4) with hθ
  have h1 := Real.pi_gt_d2
  have h2 := Real.pi_lt_d2
  have e : θ = (θ - 3 * Real.pi / 2 + Real.pi / 2) + Real.pi := by ring
  rw [e, Real.sin_add_pi, Real.sin_add_pi_div_two]
  have hc1 := Real.cos_le_one (θ - 3 * Real.pi / 2)
  have hc2 := Real.one_sub_sq_div_two_le_cos (x := θ - 3 * Real.pi / 2)
  have hlo : -(13 / 1000 : ℝ) ≤ θ - 3 * Real.pi / 2 := by rw [hθ]; norm_num at h1 h2 ⊢; linarith
  have hhi : θ - 3 * Real.pi / 2 ≤ (13 / 1000 : ℝ) := by rw [hθ]; norm_num at h1 h2 ⊢; linarith
  have hsq : (θ - 3 * Real.pi / 2) ^ 2 ≤ (13 / 1000 : ℝ) ^ 2 := by
    apply sq_le_sq'
    · linarith
    · exact hhi
  constructor
  · nlinarith
  · linarith

theorem sqrt17_bounds : (412 / 100 : ℝ) < Real.sqrt 17 ∧ Real.sqrt 17 < (413 / 100 : ℝ) := by
  constructor
  · rw [Real.lt_sqrt (by norm_num)]; norm_num
  · rw [Real.sqrt_lt' (by norm_num)]; norm_num

/-- Gaussian branch, general form at ℝ: the count is ⌊x + ½⌋ clamped at 0, provided it fits the
    32-bit result type -/
theorem poisson_gauss_eval (lam : ℝ) (hl : 16 < lam) (s : List ℝ) (x : ℝ) (n' : Normal ℝ)
    (rest : List ℝ) (hx : (Poisson.mk' lam).normal.sample s = some (x, n', rest)) :
    (Poisson.mk' lam).sample s =
      some (if 0 < x + 1 / 2 then castU32 (x + 1 / 2) else 0,
            { (Poisson.mk' lam) with normal := n' }, rest) := by
  unfold Poisson.sample
  have hle : ¬ (Num.le (Poisson.mk' lam).lambda (lambdaThreshold : ℝ) = true) := by
    unfold Poisson.mk' lambdaThreshold; dist_simp; exact not_le.mpr hl
  rw [if_neg hle, hx]
  simp only []
  dist_simp

/-- the witness: λ = 17, u₁ = 3/4, u₂ = e^{−18}: the normal sample x has −100 ≤ x + ½ ≤ −1 -/
theorem poisson_witness_sample :
    ∃ x n', (Poisson.mk' (17 : ℝ)).normal.sample [3 / 4, Real.exp (-18)] = some (x, n', []) ∧
      -100 ≤ x + 1 / 2 ∧ x + 1 / 2 ≤ -1 := by
  rw [normal_eval_fresh _ rfl]
  refine ⟨_, _, rfl, ?_⟩
  simp only [Poisson.mk']
  dist_simp
  have hr : Real.sqrt (-2 * Real.log (Real.exp (-18))) = 6 := by
    rw [Real.log_exp]
    rw [show (-2 : ℝ) * -18 = 6 ^ 2 by norm_num]
    exact Real.sqrt_sq (by norm_num)
  rw [hr]
  obtain ⟨hs1, hs2⟩ := sin_three_quarter_turn
  obtain ⟨hq1, hq2⟩ := sqrt17_bounds
  have hq0 : 0 < Real.sqrt 17 := by linarith
  constructor <;> nlinarith

theorem witness_canon : CanonPos (3 / 4 : ℝ) ∧ CanonPos (Real.exp (-18)) :=
  ⟨⟨by norm_num, by norm_num⟩, ⟨Real.exp_pos _, Real.exp_lt_one_iff.mpr (by norm_num)⟩⟩

end CelerVerif.Dist
