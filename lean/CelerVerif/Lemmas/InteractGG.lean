/-
e⁺ annihilation (EPlusGGInteractor) at ℝ: decomposition, 2mc² bookkeeping, range of the sampled
ε and of cos θ, and the direction the code gives to the second photon.
-/
import CelerVerif.Lemmas.InteractKN

namespace CelerVerif.Interact
open CelerVerif

/-- `ReciprocalDistribution(a, b)` stays in [a, b] for a uniform in [0, 1] -/
theorem reciprocal_range (a b u : ℝ) (ha : 0 < a) (hab : a ≤ b) (h0 : 0 ≤ u) (h1 : u ≤ 1) :
    a ≤ reciprocal a b u ∧ reciprocal a b u ≤ b := by
  unfold reciprocal
  inum
  have hr : 1 ≤ 1 / a * b := by
    rw [one_div, inv_mul_eq_div, le_div_iff₀ ha]; linarith
  have hl : 0 ≤ Real.log (1 / a * b) := Real.log_nonneg hr
  constructor
  · have : 1 ≤ Real.exp (Real.log (1 / a * b) * u) := Real.one_le_exp (mul_nonneg hl h0)
    nlinarith
  · have h2 : Real.exp (Real.log (1 / a * b) * u) ≤ Real.exp (Real.log (1 / a * b)) := by
      apply Real.exp_le_exp.mpr; nlinarith
    rw [Real.exp_log (by linarith)] at h2
    have : a * Real.exp (Real.log (1 / a * b) * u) ≤ a * (1 / a * b) :=
      mul_le_mul_of_nonneg_left h2 (le_of_lt ha)
    have hne : a ≠ 0 := ne_of_gt ha
    have e : a * (1 / a * b) = b := by field_simp
    linarith

theorem ggLoop_spec (tau tau2 lo hi : ℝ) : ∀ (fuel : ℕ) (script : Script ℝ) (eps : ℝ)
    (rest : Script ℝ), ggLoop tau tau2 lo hi fuel script = some (eps, rest) →
    ∃ u1, u1 ∈ script ∧ eps = reciprocal lo hi u1 ∧ (∀ u ∈ rest, u ∈ script) := by
  intro fuel
  induction fuel with
  | zero => intro script eps rest h; simp [ggLoop] at h
  | succ n ih =>
    intro script eps rest h
    match script, h with
    | u1 :: u2 :: tl, h =>
      simp only [ggLoop] at h
      split_ifs at h with hr
      · obtain ⟨a, ha, he, hrest⟩ := ih tl eps rest h
        exact ⟨a, by simp [ha], he, fun u hu => by simp [hrest u hu]⟩
      · simp only [Option.some.injEq, Prod.mk.injEq] at h
        obtain ⟨h1, h3⟩ := h
        exact ⟨u1, by simp, h1.symm, fun u hu => by rw [← h3] at hu; simp [hu]⟩
    | [], h => simp [ggLoop] at h
    | [_], h => simp [ggLoop] at h

/-- decomposition of `EPlusGGInteractor::operator()` -/
theorem gg_done {cap size : ℕ} {E m : ℝ} {d : Vec3 ℝ} {script : Script ℝ} {i : Interaction ℝ}
    {sz : ℕ} {rest : Script ℝ} (h : ePlusGG cap size E m d script = .done i sz rest) :
    size + 2 ≤ cap ∧ sz = size + 2 ∧
      ((E = 0 ∧ ∃ u1 u2, script = u1 :: u2 :: rest ∧ i = ggAtRest m d u1 u2) ∨
       (E ≠ 0 ∧ ∃ eps u, ggLoop (E / m) (E / m + 2)
            (1 / 2 - Real.sqrt (E / m / (E / m + 2)) * (1 / 2))
            (1 / 2 + Real.sqrt (E / m / (E / m + 2)) * (1 / 2)) (script.length + 1) script
              = some (eps, u :: rest) ∧ i = ggFinal E m d eps u)) := by
  unfold ePlusGG at h
  cases ha : alloc cap size 2 with
  | none => rw [ha] at h; simp at h
  | some s' =>
    rw [ha] at h
    obtain ⟨h1, h2⟩ := alloc_some ha
    refine ⟨h1, ?_⟩
    simp only [] at h
    by_cases hE : E = 0
    · have hq : Num.eq E (0 : ℝ) = true := by inum; exact hE
      rw [NumR.lit0] at h
      rw [if_pos (by rw [NumR.eq_real]; exact hE)] at h
      match script, h with
      | u1 :: u2 :: tl, h =>
        simp only [Outcome.done.injEq] at h
        obtain ⟨hi, hs, hr⟩ := h
        exact ⟨by omega, Or.inl ⟨hE, u1, u2, by rw [hr], hi.symm⟩⟩
      | [], h => simp at h
      | [_], h => simp at h
    · rw [NumR.lit0] at h
      rw [if_neg (by rw [NumR.eq_real]; exact hE)] at h
      inum at h
      rw [half_real] at h
      cases hl : ggLoop (E / m) (E / m + 2)
            (1 / 2 - Real.sqrt (E / m / (E / m + 2)) * (1 / 2))
            (1 / 2 + Real.sqrt (E / m / (E / m + 2)) * (1 / 2)) (script.length + 1) script with
      | none => rw [hl] at h; simp at h
      | some r =>
        obtain ⟨eps, rst⟩ := r
        rw [hl] at h
        cases rst with
        | nil => simp at h
        | cons u tl =>
          simp only [Outcome.done.injEq] at h
          obtain ⟨hi, hs, hr⟩ := h
          exact ⟨by omega, Or.inr ⟨hE, eps, u, by rw [hr], hi.symm⟩⟩

/-- two photons carry kinetic energy + 2mc² -/
theorem ggFinal_energy (E m : ℝ) (d : Vec3 ℝ) (eps u : ℝ) :
    secondaryEnergy m (ggFinal E m d eps u).secondaries + (ggFinal E m d eps u).deposit
      = E + 2 * m := by
  unfold ggFinal
  inum
  simp only [secondaryEnergy_cons, secondaryEnergy_nil]
  simp [pidPositron, pidGamma]

theorem ggAtRest_energy (m : ℝ) (d : Vec3 ℝ) (u1 u2 : ℝ) :
    secondaryEnergy m (ggAtRest m d u1 u2).secondaries + (ggAtRest m d u1 u2).deposit
      = 0 + 2 * m := by
  unfold ggAtRest
  inum
  simp only [secondaryEnergy_cons, secondaryEnergy_nil]
  simp [pidPositron, pidGamma]
  ring

/-- the sampling interval `[½ − s, ½ + s]`, `s = ½ sqrt(τ/(τ+2))` -/
theorem gg_interval (tau : ℝ) (ht : 0 < tau) :
    let s := Real.sqrt (tau / (tau + 2)) * (1 / 2)
    0 < 1 / 2 - s ∧ 1 / 2 - s ≤ 1 / 2 + s ∧ s * s = tau / (tau + 2) / 4 := by
  intro s
  have hq : 0 ≤ tau / (tau + 2) := by positivity
  have hq1 : tau / (tau + 2) < 1 := by rw [div_lt_one (by positivity)]; linarith
  have hs := Real.mul_self_sqrt hq
  have hs0 := Real.sqrt_nonneg (tau / (tau + 2))
  have hlt : Real.sqrt (tau / (tau + 2)) < 1 := by
    rw [show (1 : ℝ) = Real.sqrt 1 from Real.sqrt_one.symm]
    exact Real.sqrt_lt_sqrt hq hq1
  refine ⟨?_, ?_, ?_⟩
  · show 0 < 1 / 2 - Real.sqrt (tau / (tau + 2)) * (1 / 2); linarith
  · show 1 / 2 - Real.sqrt (tau / (tau + 2)) * (1 / 2) ≤ 1 / 2 + Real.sqrt (tau / (tau + 2)) * (1 / 2)
    linarith
  · show Real.sqrt (tau / (tau + 2)) * (1 / 2) * (Real.sqrt (tau / (tau + 2)) * (1 / 2))
      = tau / (tau + 2) / 4
    nlinarith

/-- `|cos θ| ≤ 1` for ε in the sampling interval -/
theorem gg_cost_range (tau eps s : ℝ) (ht : 0 < tau) (hs : s * s = tau / (tau + 2) / 4)
    (hlo : 1 / 2 - s ≤ eps) (hhi : eps ≤ 1 / 2 + s) (hpos : 0 < eps) :
    let cost := (eps * (tau + 2) - 1) / (eps * Real.sqrt (tau * (tau + 2)))
    (-1 : ℝ) ≤ cost ∧ cost ≤ 1 := by
  intro cost
  have hr0 : 0 < tau * (tau + 2) := by positivity
  have hr := Real.mul_self_sqrt (le_of_lt hr0)
  have hrp : 0 < Real.sqrt (tau * (tau + 2)) := Real.sqrt_pos.mpr hr0
  have hden : 0 < eps * Real.sqrt (tau * (tau + 2)) := mul_pos hpos hrp
  -- (ε − lo)(ε − hi) ≤ 0  ⇔  2 τ₂ ε² − 2 τ₂ ε + 1 ≤ 0
  have hquad : eps * eps - eps + (1 / 4 - s * s) ≤ 0 := by nlinarith
  have h2 : 2 * (tau + 2) * (eps * eps) - 2 * (tau + 2) * eps + 1 ≤ 0 := by
    have e : (1 : ℝ) / 4 - tau / (tau + 2) / 4 = 1 / (2 * (tau + 2)) := by
      have : tau + 2 ≠ 0 := by positivity
      field_simp; ring
    rw [hs, e] at hquad
    have hp : 0 < 2 * (tau + 2) := by positivity
    have := mul_le_mul_of_nonneg_left hquad (le_of_lt hp)
    have e2 : 2 * (tau + 2) * (1 / (2 * (tau + 2))) = 1 := by
      have : tau + 2 ≠ 0 := by positivity
      field_simp
    nlinarith
  -- (ε τ₂ − 1)² ≤ ε² τ τ₂
  have hsq : (eps * (tau + 2) - 1) * (eps * (tau + 2) - 1)
      ≤ (eps * Real.sqrt (tau * (tau + 2))) * (eps * Real.sqrt (tau * (tau + 2))) := by
    have : (eps * Real.sqrt (tau * (tau + 2))) * (eps * Real.sqrt (tau * (tau + 2)))
        = eps * eps * (tau * (tau + 2)) := by
      calc _ = eps * eps * (Real.sqrt (tau * (tau + 2)) * Real.sqrt (tau * (tau + 2))) := by ring
        _ = _ := by rw [hr]
    rw [this]; nlinarith
  have habs : -(eps * Real.sqrt (tau * (tau + 2))) ≤ eps * (tau + 2) - 1
      ∧ eps * (tau + 2) - 1 ≤ eps * Real.sqrt (tau * (tau + 2)) := by
    constructor
    · by_contra hc; rw [not_le] at hc; nlinarith
    · by_contra hc; rw [not_le] at hc; nlinarith
  constructor
  · show -1 ≤ (eps * (tau + 2) - 1) / (eps * Real.sqrt (tau * (tau + 2)))
    rw [le_div_iff₀ hden]; linarith [habs.1]
  · show (eps * (tau + 2) - 1) / (eps * Real.sqrt (tau * (tau + 2))) ≤ 1
    rw [div_le_iff₀ hden]; linarith [habs.2]

/-- AS WRITTEN the second photon is emitted along the incident direction:
    `calc_exiting_direction({p, d}, {T, d}) = d` because `p = sqrt(T (T+2m)) > T` -/
theorem gg_second_dir (E m : ℝ) (d : Vec3 ℝ) (hE : 0 < E) (hm : 0 < m) (hd : unitV d) :
    calcExitingDirection (Real.sqrt (E * (E + 2 * m))) d E d = d := by
  have hp : E < Real.sqrt (E * (E + 2 * m)) := by
    apply Real.lt_sqrt_of_sq_lt; nlinarith
  set p := Real.sqrt (E * (E + 2 * m)) with hpdef
  have hraw : exitingRaw p d E d = ⟨d.x * (p - E), d.y * (p - E), d.z * (p - E)⟩ := by
    unfold exitingRaw; inum
    congr 1 <;> ring
  unfold calcExitingDirection
  rw [hraw, makeUnit_real]
  unfold unitV nsq at hd
  have hn : nsq (⟨d.x * (p - E), d.y * (p - E), d.z * (p - E)⟩ : Vec3 ℝ) = (p - E) * (p - E) := by
    unfold nsq
    show d.x * (p - E) * (d.x * (p - E)) + d.y * (p - E) * (d.y * (p - E))
      + d.z * (p - E) * (d.z * (p - E)) = (p - E) * (p - E)
    nlinarith [congrArg (fun t => t * ((p - E) * (p - E))) hd]
  rw [hn, Real.sqrt_mul_self (by linarith)]
  have hne : p - E ≠ 0 := by linarith
  cases d with
  | mk x y z =>
    show (⟨x * (p - E) / (p - E), y * (p - E) / (p - E), z * (p - E) / (p - E)⟩ : Vec3 ℝ) = ⟨x, y, z⟩
    congr 1 <;> field_simp

end CelerVerif.Interact
