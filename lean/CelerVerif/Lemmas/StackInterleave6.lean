/- Interleaving semantics: initial state, quiescent states, the end-to-end statement (C16). -/
import CelerVerif.Lemmas.StackInterleave5

namespace CelerVerif.Stack

/-- elements granted to a thread that has finished successfully -/
def okN (t : Thread) : Nat :=
  match t.pc with
  | .ok _ => t.n
  | _ => 0

theorem sums_init (cap : Nat) (l : List Thread) (h : ∀ t ∈ l, t.pc = .init) :
    sumF l = 0 ∧ sumG cap l = 0 ∧ sumO cap l = 0 := by
  induction l with
  | nil => exact ⟨rfl, rfl, rfl⟩
  | cons a l ih =>
    have ha := h a (by simp)
    obtain ⟨i1, i2, i3⟩ := ih (fun t ht => h t (by simp [ht]))
    unfold sumF sumG sumO at *
    simp only [List.map_cons, List.sum_cons, i1, i2, i3]
    simp [fOf, gOf, oOf, committedB, overB, ha]

theorem iinv_init (s0 : Sys) (hinit : ∀ t ∈ s0.threads, t.pc = .init) (hsz : s0.size ≤ s0.cap) :
    IInv s0.size s0.cap (total s0.threads) s0 := by
  obtain ⟨h1, h2, h3⟩ := sums_init s0.cap s0.threads hinit
  refine ⟨rfl, rfl, by omega, ?_, ?_, ?_, by omega, ?_, Or.inl ⟨by omega, h3⟩⟩
  · intro t ht a hpc; rw [hinit t ht] at hpc; cases hpc
  · intro t ht hc; simp [committedB, hinit t ht] at hc
  · intro i j ti tj _ hi _ hc _
    simp [committedB, hinit ti (List.mem_of_getElem? hi)] at hc
  · intro t ht ho; simp [overB, hinit t ht] at ho

theorem sums_quiescent (cap : Nat) (l : List Thread) (h : l.all Thread.terminal = true) :
    sumG cap l = (l.map okN).sum ∧ sumO cap l = 0 := by
  induction l with
  | nil => exact ⟨rfl, rfl⟩
  | cons a l ih =>
    simp only [List.all_cons, Bool.and_eq_true] at h
    obtain ⟨i1, i2⟩ := ih h.2
    unfold sumG sumO at *
    simp only [List.map_cons, List.sum_cons, i1, i2]
    have ha := h.1
    unfold Thread.terminal at ha
    cases hpc : a.pc <;> simp [hpc] at ha <;> simp [gOf, oOf, committedB, overB, okN, hpc]

/-- the end-to-end statement for an arbitrary schedule -/
theorem interleaved_main (s0 : Sys) (hinit : ∀ t ∈ s0.threads, t.pc = .init)
    (hsz : s0.size ≤ s0.cap) (hW : s0.size + total s0.threads < W) (sch : List Nat) :
    (∀ (i j : Nat) (ti tj : Thread) (a b : Nat), i ≠ j →
      (run s0 sch).threads[i]? = some ti → (run s0 sch).threads[j]? = some tj →
      ti.pc = .ok a → tj.pc = .ok b → a + ti.n ≤ b ∨ b + tj.n ≤ a) ∧
    (∀ t ∈ (run s0 sch).threads, ∀ a, t.pc = .ok a → s0.size ≤ a ∧ a + t.n ≤ s0.cap) ∧
    (quiescent (run s0 sch) = true →
      (run s0 sch).size = s0.size + ((run s0 sch).threads.map okN).sum ∧
      (run s0 sch).size ≤ s0.cap) := by
  have hI := run_inv sch (iinv_init s0 hinit hsz) hW
  generalize run s0 sch = s at hI
  refine ⟨?_, ?_, ?_⟩
  · intro i j ti tj a b hij hi hj ha hb
    have := hI.disj i j ti tj hij hi hj (by simp [committedB, ha]) (by simp [committedB, hb])
    simpa [startOf, ha, hb] using this
  · intro t ht a ha
    have := hI.range t ht (by simp [committedB, ha])
    have hl := hI.l_le
    simp only [startOf, ha] at this
    omega
  · intro hq
    unfold quiescent at hq
    obtain ⟨q1, q2⟩ := sums_quiescent s0.cap s.threads hq
    have hl := hI.l_le
    rcases hI.mode with ⟨m1, _⟩ | ⟨_, m2⟩
    · rw [q1] at m1 hl; exact ⟨m1, by omega⟩
    · rw [q2] at m2; cases m2

end CelerVerif.Stack
