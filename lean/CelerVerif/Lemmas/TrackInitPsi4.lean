/- Liveness potential across one whole Stepper call (C02). -/
import CelerVerif.Lemmas.TrackInitPsi3
import CelerVerif.Lemmas.TrackInitITC3
import CelerVerif.Lemmas.TrackInitReach

namespace CelerVerif.TrackInit

/-- valid secondaries emitted by the tracks in flight during a step with outcomes `o` -/
def secsStep (mid : List Slot) (o : List Outcome) : Nat := (List.zipWith secsA mid o).sum

theorem stepBody_potential {cfg : Cfg} {s1 : State} {K : Nat} (hK : 1 ≤ K) (hP : Pre cfg s1)
    (o : List Outcome) (hlen : cfg.slots ≤ o.length) (ho : OracleOk o)
    (hage : AgeOkL K (initializeTracks (extendFromPrimaries s1)).slots o)
    {s' : State} (hstep : stepBody o s1 = .ok s') :
    Psi K s' + (liveL (initializeTracks (extendFromPrimaries s1)).slots).length
      ≤ psiSlots K s1.slots + K * (s1.c.numInitializers + s1.pending.length)
        + K * secsStep (initializeTracks (extendFromPrimaries s1)).slots o := by
  have hE1 := efp_spec hP.lens hP.core hP.evs hP.fit
  unfold stepBody at hstep
  generalize extendFromPrimaries s1 = s2 at hE1 hstep hage ⊢
  obtain ⟨p1, p2, p3, p4, p5, p6⟩ := hE1.same
  have hni := hE1.ninit
  have hT := itSpec_all cfg s2 hE1.lens hE1.core (by rw [hni]; exact hP.fit)
    (by rw [p2, p1]; exact hP.vac) (by rw [p3, p2]; exact hP.nvac)
    (by rw [p1]; exact hP.status) (by rw [p1, p3]; exact hP.occupied)
  have hpsiIT := initializeTracks_psi hK s2
  generalize initializeTracks s2 = s3 at hT hstep hage hpsiIT ⊢
  obtain ⟨hM, t1, t2, t3, t4⟩ := hT
  have hF := front_keeps hM.lens hM.core o ho
  have hslots4 := front_slots_eq o s3
  have hpad : o ++ List.replicate (s3.slots.length - o.length) (⟨.alive, []⟩ : Outcome) = o := by
    have : s3.slots.length - o.length = 0 := by rw [hM.lens.slots]; omega
    rw [this]; simp
  rw [hpad] at hslots4
  generalize trackingCut (interact o (preStep s3)) = s4 at hF hstep hslots4
  obtain ⟨f1, f2, f3, f4, f5, f6⟩ := hF
  have hE := efs_spec (cfg := cfg) f1 (by rw [f5]; exact f2) f3
  rw [hstep] at hE
  -- the three inequalities
  obtain ⟨g1, g2⟩ := front_sum_psi K s3.slots o (by rw [hM.lens.slots]; exact hlen) hM.status ho hage
  rw [← hslots4] at g1 g2
  have h3 := efs_psi hK f1 f3 hE
  have hsec : K * (s4.slots.map cvA).sum ≤ K * secsStep s3.slots o :=
    Nat.mul_le_mul_left K g2
  -- bookkeeping of the queue
  have hq' : s'.c.numInitializers = s3.c.numInitializers
      + prefixQ cfg.order s4.slots cfg.slots := by rw [hE.ninit, f5]
  have hmin := Nat.min_le_right s2.c.numVacancies s2.c.numInitializers
  have hsplit : K * s2.c.numInitializers
      = K * s3.c.numInitializers + min s2.c.numVacancies s2.c.numInitializers * K := by
    rw [t1, Nat.mul_comm (min _ _) K, ← Nat.mul_add]
    congr 1; omega
  unfold Psi
  rw [hq', Nat.mul_add, ← p1, ← hni]
  omega

end CelerVerif.TrackInit
