/-
The jump tables in the source are z^(4^i) and z^(2^67·4^i) modulo P (kernel-checked over
the whole regenerated table), the base-4 digit loop composes them, and hence
`discard n` = n draws, `discard_subsequence k` = k·2^67 steps of `next`.
-/
import CelerVerif.Lemmas.XorwowTableCert

namespace CelerVerif.Xorwow
open CelerVerif.Generated.Xorwow

local infixl:65 " ⊞ " => XS.xor

theorem J_jump (i : Nat) (h : i < 32) : J jumpWords i = jumpPacked.getD i 0 := by
  have := packed_ok
  rw [List.all_eq_true] at this
  have := this i (List.mem_range.mpr h)
  simp only [Bool.and_eq_true, beq_iff_eq] at this
  exact this.1
theorem J_jumpSub (i : Nat) (h : i < 32) : J jumpSubWords i = jumpSubPacked.getD i 0 := by
  have := packed_ok
  rw [List.all_eq_true] at this
  have := this i (List.mem_range.mpr h)
  simp only [Bool.and_eq_true, beq_iff_eq] at this
  exact this.2

theorem table_chain (tab : List Nat) (m : Nat) (hs : tableStepsOK tab = true)
    (h0 : ∀ x, ev (tab.getD 0 0) x = iter m x) :
    ∀ i, i < 32 → ∀ x, ev (tab.getD i 0) x = iter (m * 4 ^ i) x := by
  intro i
  induction i with
  | zero => intro _ x; simpa using h0 x
  | succ i ih =>
    intro hi x
    unfold tableStepsOK at hs
    rw [List.all_eq_true] at hs
    have := hs i (List.mem_range.mpr (by omega))
    have h := sqN_sound (eq_of_beq this) (ih (by omega))
    rw [h x]; congr 1
    show m * 4 ^ i * 4 = m * 4 ^ (i + 1)
    rw [Nat.pow_succ, Nat.mul_assoc]

/-- **jump table**: row i applies `next` exactly 4^i times, for every state -/
theorem jumpTable_correct (i : Nat) (hi : i < 32) (x : XS) :
    applyPoly (tabGet jumpWords i) x = iter (4 ^ i) x := by
  rw [applyPoly_eq_ev]
  show ev (J jumpWords i) x = _
  rw [J_jump i hi]
  have := table_chain jumpPacked 1 jump_steps
    (by intro x; rw [jump_base]; have := ev_pow_two 1 x; simpa using this) i hi x
  simpa using this

/-- **subsequence jump table**: row i applies `next` exactly 2^67·4^i times -/
theorem jumpSubTable_correct (i : Nat) (hi : i < 32) (x : XS) :
    applyPoly (tabGet jumpSubWords i) x = iter (2 ^ 67 * 4 ^ i) x := by
  rw [applyPoly_eq_ev]
  show ev (J jumpSubWords i) x = _
  rw [J_jumpSub i hi]
  have h31 : ∀ x, ev (jumpPacked.getD 31 0) x = iter (4 ^ 31) x := by
    intro x
    have := jumpTable_correct 31 (by decide) x
    rwa [applyPoly_eq_ev, show (tabGet jumpWords 31).pack = J jumpWords 31 from rfl,
      J_jump 31 (by decide)] at this
  have hb := sqN_sound jumpSub_base h31
  have : (4 : Nat) ^ 31 * 2 ^ 5 = 2 ^ 67 := by decide
  rw [this] at hb
  exact table_chain jumpSubPacked (2 ^ 67) jumpSub_steps hb i hi x

/-! ### the digit loop -/

theorem applyN_iter (g : Poly) (m : Nat) (hg : ∀ x, applyPoly g x = iter m x) (k : Nat) (x : XS) :
    applyN g k x = iter (m * k) x := by
  induction k generalizing x with
  | zero => simp [applyN, iter]
  | succ k ih =>
    rw [applyN, ih, hg, ← iter_add]; congr 1
    rw [Nat.mul_succ, Nat.add_comm]

theorem digit_arith (u q r p idx : Nat) (hp : p = 4 ^ idx) :
    u * p * r + u * (q * 4 ^ (idx + 1)) = u * ((4 * q + r) * p) := by
  rw [Nat.pow_succ, ← hp]
  simp only [Nat.add_mul, Nat.mul_add, Nat.mul_assoc, Nat.mul_comm, Nat.mul_left_comm,
    Nat.add_comm]

/-- generic digit-loop lemma: if row i of `tab` advances by `u·4^i`, the loop started at
    digit `idx` with `count < 4^(32-idx)` advances by `u · count · 4^idx`. -/
theorem jumpLoop_correct (tab : List (List Nat)) (u : Nat)
    (htab : ∀ i, i < 32 → ∀ x, applyPoly (tabGet tab i) x = iter (u * 4 ^ i) x)
    (count idx : Nat) (hidx : idx ≤ 32) (hc : count < 4 ^ (32 - idx)) (x : XS) :
    jumpLoop tab count idx x = iter (u * (count * 4 ^ idx)) x := by
  induction count using Nat.strongRecOn generalizing idx x with
  | _ count ih =>
    rw [jumpLoop]
    split
    · next h => subst h; simp [iter]
    · next h =>
      have hidx' : idx < 32 := by
        rcases Nat.lt_or_ge idx 32 with h' | h'
        · exact h'
        · have : 32 - idx = 0 := by omega
          rw [this] at hc; omega
      have hd : count >>> digitShift = count / 4 := by
        simp [digitShift, Nat.shiftRight_eq_div_pow]
      have hm : count &&& maxNumJump = count % 4 := by
        show count &&& 3 = count % 4
        exact Nat.and_two_pow_sub_one_eq_mod count 2
      have hlt : count / 4 < count := Nat.div_lt_self (Nat.pos_of_ne_zero h) (by decide)
      have hc' : count / 4 < 4 ^ (32 - (idx + 1)) := by
        have : 32 - idx = (32 - (idx + 1)) + 1 := by omega
        rw [this, Nat.pow_succ] at hc
        omega
      rw [hd, hm, ih (count / 4) hlt (idx + 1) (by omega) hc',
        applyN_iter _ _ (htab idx hidx'), ← iter_add]
      congr 1
      have e : count = 4 * (count / 4) + count % 4 := (Nat.div_add_mod count 4).symm
      generalize count / 4 = q at *
      generalize count % 4 = r at *
      subst e
      exact digit_arith u q r (4 ^ idx) idx rfl

theorem jump_correct (n : Nat) (hn : n < 2 ^ 64) (x : XS) :
    jumpLoop jumpWords n 0 x = iter n x := by
  have := jumpLoop_correct jumpWords 1
    (by intro i hi x; simpa using jumpTable_correct i hi x) n 0 (by omega)
    (by have : (4 : Nat) ^ (32 - 0) = 2 ^ 64 := by decide
        omega) x
  simpa using this

theorem jumpSub_correct (k : Nat) (hk : k < 2 ^ 64) (x : XS) :
    jumpLoop jumpSubWords k 0 x = iter (2 ^ 67 * k) x := by
  have := jumpLoop_correct jumpSubWords (2 ^ 67) jumpSubTable_correct k 0 (by omega)
    (by have : (4 : Nat) ^ (32 - 0) = 2 ^ 64 := by decide
        omega) x
  simpa using this

/-! ### whole state (with the Weyl counter) -/

/-- n applications of the one-draw transition -/
def stepN : Nat → State → State
  | 0, s => s
  | n + 1, s => stepN n (step s)

theorem stepN_xs (n : Nat) (s : State) : (stepN n s).xs = iter n s.xs := by
  induction n generalizing s with
  | zero => rfl
  | succ n ih => simp [stepN, ih, step, iter]

theorem stepN_weyl (n : Nat) (s : State) :
    (stepN n s).weyl = s.weyl + BitVec.ofNat 32 n * BitVec.ofNat 32 weylDraw := by
  induction n generalizing s with
  | zero => simp [stepN]
  | succ n ih =>
    simp only [stepN, ih, step]
    generalize BitVec.ofNat 32 weylDraw = c
    generalize s.weyl = w
    rw [BitVec.ofNat_add, BitVec.add_mul, show BitVec.ofNat 32 1 = 1#32 from rfl, BitVec.one_mul,
      BitVec.add_assoc, BitVec.add_comm c]

end CelerVerif.Xorwow
