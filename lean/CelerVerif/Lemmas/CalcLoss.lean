/-
C14 helper lemmas (5): calc_mean_energy_loss, range_to_step, MscStepToGeo / MscStepFromGeo (ℝ).
-/
import CelerVerif.Lemmas.CalcXsThm
import CelerVerif.Lemmas.CalcInverse

namespace CelerVerif.Calc
open CelerVerif

/-! ### calc_mean_energy_loss: the three exits -/

theorem meanLoss_linear {loss rng : XsGrid ℝ} {lim E range step rate : ℝ}
    (hc : loss.calc floorIdx E = some rate) (h : step * rate < E * lim) :
    meanEnergyLoss floorIdx loss rng lim E range step = some (step * rate) := by
  unfold meanEnergyLoss
  rw [hc]
  calc_simp
  rw [if_neg (not_le.mpr h)]

theorem meanLoss_full {loss rng : XsGrid ℝ} {lim E range step rate : ℝ}
    (hc : loss.calc floorIdx E = some rate) (h : E * lim ≤ step * rate) (hs : step = range) :
    meanEnergyLoss floorIdx loss rng lim E range step = some E := by
  unfold meanEnergyLoss
  rw [hc]
  calc_simp
  rw [if_pos h, if_pos hs]

theorem meanLoss_curve {loss rng : XsGrid ℝ} {lim E range step rate : ℝ}
    (hc : loss.calc floorIdx E = some rate) (h : E * lim ≤ step * rate) (hs : step ≠ range) :
    meanEnergyLoss floorIdx loss rng lim E range step
      = (rng.invRange (range - step)).map fun e => E - e := by
  unfold meanEnergyLoss
  rw [hc]
  calc_simp
  rw [if_pos h, if_neg hs]

/-- the inverse range of the track's own range never exceeds its energy -/
theorem invRange_of_range_le {rng : XsGrid ℝ} (wr : rng.WF) (hpr : rng.Pos) (hir : rng.Incr)
    {E range : ℝ} (hE : 0 < E) (hrange : rng.range floorIdx E = some range) :
    ∃ e, rng.invRange range = some e ∧ e ≤ E ∧ 0 < range := by
  by_cases hb : Real.log E ≤ rng.grid.back
  · obtain ⟨r, hr, hrpos, hinv⟩ := wr.invRange_range hpr hir hE hb
    rw [hrange] at hr
    cases hr
    exact ⟨E, hinv, le_refl _, hrpos⟩
  · have hb' : rng.grid.back < Real.log E := not_le.mp hb
    have hs := wr.size_ge
    have habove := wr.range_above (le_of_lt hb')
    rw [hrange] at habove
    cases habove
    have hpos : 0 < rng.y (rng.size - 1) := hpr _ (by omega)
    refine ⟨_, wr.invRange_above hir (le_refl _), ?_, hpos⟩
    exact le_of_lt ((Real.lt_log_iff_exp_lt hE).mp hb')

/-- energy left after the step along the range curve: between 0 and E, non-increasing in the
    step length -/
theorem curve_energy {rng : XsGrid ℝ} (wr : rng.WF) (hpr : rng.Pos) (hir : rng.Incr)
    {E range : ℝ} (hE : 0 < E) (hrange : rng.range floorIdx E = some range)
    {s1 s2 : ℝ} (h12 : s1 ≤ s2) (h2 : s2 ≤ range) :
    ∃ e1 e2, rng.invRange (range - s1) = some e1 ∧ rng.invRange (range - s2) = some e2 ∧
      0 ≤ e2 ∧ e2 ≤ e1 ∧ (0 ≤ s1 → e1 ≤ E) := by
  obtain ⟨e2, e1, he2, he1, hle⟩ := wr.invRange_mono hpr hir
    (show 0 ≤ range - s2 by linarith) (show range - s2 ≤ range - s1 by linarith)
  obtain ⟨_, he2', h0, _⟩ := wr.invRange_bounds hpr hir (show 0 ≤ range - s2 by linarith)
  rw [he2] at he2'
  cases he2'
  refine ⟨e1, e2, he1, he2, h0, hle, ?_⟩
  intro hs1
  obtain ⟨eR, heR, hEle, _⟩ := invRange_of_range_le wr hpr hir hE hrange
  obtain ⟨a, b, ha, hb, hab⟩ := wr.invRange_mono hpr hir
    (show 0 ≤ range - s1 by linarith) (show range - s1 ≤ range by linarith)
  rw [he1] at ha
  rw [heR] at hb
  cases ha
  cases hb
  linarith

/-! ### range_to_step -/

theorem rangeToStep_real (rho alpha range : ℝ) :
    rangeToStep rho alpha range
      = if range < rho * (1 + 1e-6) then range
        else alpha * range + rho * (1 - alpha) * (2 - rho / range) := by
  unfold rangeToStep
  rw [sqrtTol_real]
  calc_simp

/-! ### MSC -/

theorem fmin_real (a b : ℝ) : fmin a b = min a b := by
  unfold fmin
  calc_simp
  simp only [ne_eq, not_true_eq_false, if_false]
  by_cases h : a ≤ b
  · rw [if_pos h, min_eq_left h]
  · rw [if_neg h, min_eq_right (le_of_lt (not_le.mp h))]

theorem fmax_real (a b : ℝ) : fmax a b = max a b := by
  unfold fmax
  calc_simp
  simp only [ne_eq, not_true_eq_false, if_false]
  by_cases h : b ≤ a
  · rw [if_pos h, max_eq_left h]
  · rw [if_neg h, max_eq_right (le_of_lt (not_le.mp h))]

theorem clamp_real (v lo hi : ℝ) :
    clamp v lo hi = if v < lo then lo else if hi < v then hi else v := by
  unfold clamp
  calc_simp

theorem clamp_between (v lo hi : ℝ) (h : lo ≤ hi) : lo ≤ clamp v lo hi ∧ clamp v lo hi ≤ hi := by
  rw [clamp_real]
  split_ifs with h1 h2
  · exact ⟨le_refl _, h⟩
  · exact ⟨h, le_refl _⟩
  · exact ⟨not_lt.mp h1, not_lt.mp h2⟩

theorem fastpow_real (a b : ℝ) : fastpow a b = Real.exp (b * Real.log a) := by
  unfold fastpow; calc_simp

/-- every exit of `MscStepToGeo::operator()` passes through `min(result.step, tstep)` -/
theorem mscStepToGeo_le (expm1 : ℝ → ℝ) (rng mxs : XsGrid ℝ) (emass E lam range t : ℝ)
    (res : GeoResult ℝ)
    (h : mscStepToGeo floorIdx expm1 rng mxs emass E lam range t = some res) : res.step ≤ t := by
  unfold mscStepToGeo at h
  simp only [] at h
  split at h
  · cases h; simp only [fmin_real]; exact min_le_right _ _
  split at h
  · cases h; simp only [fmin_real]; exact min_le_right _ _
  split at h
  · cases h; simp only [fmin_real]; exact min_le_right _ _
  split at h
  · cases h
  · split at h
    · cases h
    · cases h; simp only [fmin_real]; exact min_le_right _ _

/-- small-step branches: the geometrical path is `tstep` resp. `λ (1 − exp(−t/λ))`, already
    below the true path before the final `min` -/
theorem mscStepToGeo_small (expm1 : ℝ → ℝ) (hex : ∀ x, expm1 x = Real.exp x - 1)
    (rng mxs : XsGrid ℝ) (emass E lam range t : ℝ) (hlam : 0 < lam) (ht : 0 ≤ t)
    (hsmall : t < range * mscDtrl) :
    ∃ res, mscStepToGeo floorIdx expm1 rng mxs emass E lam range t = some res ∧
      res.alpha = 0 ∧ 0 ≤ res.step ∧
      (res.step = t ∨ res.step = lam * (1 - Real.exp (-t / lam))) := by
  unfold mscStepToGeo
  simp only []
  calc_simp
  by_cases h1 : t < mscMinStep
  · rw [if_pos h1]
    refine ⟨_, rfl, smallStepAlpha_real, ?_, Or.inl ?_⟩ <;> simp [fmin_real, ht]
  · rw [if_neg h1, if_pos hsmall]
    refine ⟨_, rfl, smallStepAlpha_real, ?_, Or.inr ?_⟩
    all_goals simp only [fmin_real, hex]
    all_goals
      have hx : 0 ≤ t / lam := div_nonneg ht (le_of_lt hlam)
      have h1e : 1 - t / lam ≤ Real.exp (-t / lam) := by
        have := Real.add_one_le_exp (-t / lam)
        have e : -t / lam = -(t / lam) := by ring
        rw [e] at this ⊢
        linarith
      have hle1 : Real.exp (-t / lam) ≤ 1 := by
        rw [Real.exp_le_one_iff]
        have e : -t / lam = -(t / lam) := by ring
        rw [e]; linarith
      have hval : -lam * (Real.exp (-t / lam) - 1) = lam * (1 - Real.exp (-t / lam)) := by ring
      have hle : lam * (1 - Real.exp (-t / lam)) ≤ t := by
        have : lam * (1 - Real.exp (-t / lam)) ≤ lam * (t / lam) :=
          mul_le_mul_of_nonneg_left (by linarith) (le_of_lt hlam)
        have e : lam * (t / lam) = t := by field_simp
        linarith
    · rw [hval, min_eq_left hle]
      exact mul_nonneg (le_of_lt hlam) (by linarith)
    · rw [hval, min_eq_left hle]

/-- `MscStepFromGeo::operator()`: result between the geometrical and the true path -/
theorem mscStepFromGeo_between (log1p : ℝ → ℝ) (trueStep alpha range lam g : ℝ)
    (h : g ≤ trueStep) :
    g ≤ mscStepFromGeo log1p trueStep alpha range lam g
      ∧ mscStepFromGeo log1p trueStep alpha range lam g ≤ trueStep := by
  unfold mscStepFromGeo
  simp only []
  split
  · exact ⟨le_refl _, h⟩
  · exact clamp_between _ _ _ h

end CelerVerif.Calc
