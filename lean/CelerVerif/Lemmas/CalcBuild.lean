/-
C14 helper lemmas (10): ValueGridXsBuilder::build at ℝ (prime-index search with its soft_equal
correction) and calc_physics_step_limit (what it stores in the track state).
-/
import CelerVerif.Lemmas.CalcLoss

namespace CelerVerif.Calc
open CelerVerif

theorem relPrec_real : (relPrec : ℝ) = 1e-12 := rfl
theorem absThresh_real : (absThresh : ℝ) = 1e-14 := rfl

theorem softEqual_real (a b : ℝ) :
    softEqual a b = true ↔ |a - b| < max 1e-14 (1e-12 * max |a| |b|) := by
  unfold softEqual
  simp only [fmax_real, relPrec_real, absThresh_real]
  calc_simp

/-! ### ValueGridXsBuilder::build -/

/-- hypotheses under which the builder is used: at least two values, `emin < emax`, `eprime`
    on grid point `j` below the last one, and a grid spacing that `soft_equal` can resolve
    (otherwise the roundoff correction would step onto the next point) -/
structure XsBuilder.OnGrid (b : XsBuilder ℝ) (j : ℕ) : Prop where
  size_ge : 2 ≤ b.xs.size
  lt : b.logEmin < b.logEmax
  jlt : j + 1 < b.xs.size
  prime_on_grid : b.logEprime = (UGrid.fromBounds b.logEmin b.logEmax b.xs.size).at j
  resolvable :
    max 1e-14 (1e-12 * max |(UGrid.fromBounds b.logEmin b.logEmax b.xs.size).at (j + 1)|
                           |(UGrid.fromBounds b.logEmin b.logEmax b.xs.size).at j|)
      ≤ (UGrid.fromBounds b.logEmin b.logEmax b.xs.size).delta

namespace XsBuilder.OnGrid
variable {b : XsBuilder ℝ} {j : ℕ} (h : b.OnGrid j)
include h

theorem gridWF : (UGrid.fromBounds b.logEmin b.logEmax b.xs.size).WF :=
  UGrid.fromBounds_WF _ _ _ h.size_ge h.lt

/-- the stored prime index is the grid point of `eprime` -/
theorem primeIndex_eq : b.primeIndex floorIdx = j := by
  unfold XsBuilder.primeIndex
  simp only []
  have hw := h.gridWF
  have hsz : (UGrid.fromBounds b.logEmin b.logEmax b.xs.size).size = b.xs.size := rfl
  rw [h.prime_on_grid, hw.find_at j (by rw [hsz]; exact h.jlt)]
  have hne : ¬ (softEqual ((UGrid.fromBounds b.logEmin b.logEmax b.xs.size).at (j + 1))
      ((UGrid.fromBounds b.logEmin b.logEmax b.xs.size).at j) = true) := by
    rw [softEqual_real]
    have hd : (UGrid.fromBounds b.logEmin b.logEmax b.xs.size).at (j + 1)
        - (UGrid.fromBounds b.logEmin b.logEmax b.xs.size).at j
        = (UGrid.fromBounds b.logEmin b.logEmax b.xs.size).delta := by
      rw [UGrid.at_real, UGrid.at_real]; push_cast; ring
    rw [hd, abs_of_pos hw.delta_pos]
    exact not_lt.mpr h.resolvable
  rw [if_neg hne]

theorem build_WF (reals : Array ℝ) : (b.build floorIdx reals).WF :=
  ⟨h.gridWF, rfl, by simp [XsBuilder.build]⟩

omit h in
theorem build_y (reals : Array ℝ) (i : ℕ) (hi : i < b.xs.size) :
    (b.build floorIdx reals).y i = b.xs.getD i 0 := by
  unfold XsGrid.y XsBuilder.build
  simp [Array.getD, hi]

/-- ★ `XsCalculator ∘ ValueGridXsBuilder::build` reproduces the input cross sections at the
    knots: the caller passes `σᵢ` below `eprime` and `σᵢ·Eᵢ` from `eprime` on -/
theorem calc_knots (reals : Array ℝ) (σ : ℕ → ℝ)
    (hxs : ∀ i, i < b.xs.size → b.xs.getD i 0
      = if i ≥ j then σ i * Real.exp ((UGrid.fromBounds b.logEmin b.logEmax b.xs.size).at i)
        else σ i)
    (i : ℕ) (hi : i < b.xs.size) :
    (b.build floorIdx reals).calc floorIdx
        (Real.exp ((UGrid.fromBounds b.logEmin b.logEmax b.xs.size).at i)) = some (σ i) := by
  have w := h.build_WF reals
  have hk : (b.build floorIdx reals).en i
      = Real.exp ((UGrid.fromBounds b.logEmin b.logEmax b.xs.size).at i) := rfl
  have hsize : (b.build floorIdx reals).size = b.xs.size := rfl
  have hlog : Real.log ((b.build floorIdx reals).en i) = (b.build floorIdx reals).grid.at i :=
    XsGrid.WF.log_en i
  -- value at the knot = operator[](i)
  have hval : (b.build floorIdx reals).calc floorIdx ((b.build floorIdx reals).en i)
      = some ((b.build floorIdx reals).knot i) := by
    have hsz := w.size_ge
    by_cases h0 : i = 0
    · subst h0
      rw [w.calc_below (by rw [hlog, UGrid.WF.at_zero])]; rfl
    by_cases hl : i = (b.build floorIdx reals).size - 1
    · rw [hl] at hlog ⊢
      rw [w.calc_above (by rw [hlog, ← w.gsize, w.grid.at_last])]; rfl
    · have hlt : (b.build floorIdx reals).grid.front < (b.build floorIdx reals).grid.at i := by
        rw [← UGrid.WF.at_zero (g := (b.build floorIdx reals).grid)]
        exact w.grid.at_strictMono (by omega)
      have hgt : (b.build floorIdx reals).grid.at i < (b.build floorIdx reals).grid.back := by
        rw [← w.grid.at_last, w.gsize]; exact w.grid.at_strictMono (by omega)
      rw [w.calc_bin (by rw [hlog]; exact hlt) (by rw [hlog]; exact hgt), hlog,
        w.grid.find_at i (by rw [w.gsize]; omega), XsGrid.WF.xsBin_real, lerp_left]
      rfl
  rw [← hk, hval]
  congr 1
  unfold XsGrid.knot
  have hp : (b.build floorIdx reals).prime = j := h.primeIndex_eq
  rw [hp, build_y reals i hi, hxs i hi, hk]
  split
  · have := (Real.exp_pos ((UGrid.fromBounds b.logEmin b.logEmax b.xs.size).at i)).ne'
    field_simp
  · rfl

end XsBuilder.OnGrid

/-! ### calc_physics_step_limit -/

/-- the range calculator is defined and positive at every positive energy -/
theorem XsGrid.WF.range_pos {d : XsGrid ℝ} (w : d.WF) (hp : d.Pos) (hi : d.Incr) {e : ℝ}
    (he : 0 < e) : ∃ r, d.range floorIdx e = some r ∧ 0 < r := by
  by_cases hb : Real.log e ≤ d.grid.back
  · obtain ⟨r, hr, hpos, _⟩ := w.invRange_range hp hi he hb
    exact ⟨r, hr, hpos⟩
  · have hs := w.size_ge
    exact ⟨_, w.range_above (le_of_lt (not_le.mp hb)), hp _ (by omega)⟩

/-- ★ whatever limits the step (discrete interaction, range, fixed limiter), the range that
    `calc_physics_step_limit` leaves in the track state is the RangeCalculator value at the
    CURRENT energy, and the cached cross section is the current one — nothing of the previous
    state `st` survives in these two fields -/
theorem physicsStepLimit_stores (mxs rng : XsGrid ℝ) (rho alpha fixedLimit : ℝ)
    (st st' : PhysTrack ℝ) (E mfp : ℝ) (lim : StepLimit ℝ) (hE : E ≠ 0)
    (h : physicsStepLimit floorIdx mxs rng rho alpha fixedLimit st E mfp = some (lim, st')) :
    rng.range floorIdx E = some st'.dedxRange ∧ mxs.calc floorIdx E = some st'.macroXs := by
  unfold physicsStepLimit at h
  cases hc : mxs.calc floorIdx E with
  | none => rw [hc] at h; simp at h
  | some x =>
    rw [hc] at h
    simp only [] at h
    have hne : ¬ (Num.eq E (@OfNat.ofNat ℝ 0 (Num.instOfNat 0)) = true) := by calc_simp; exact hE
    rw [if_neg hne] at h
    cases hr : rng.range floorIdx E with
    | none => rw [hr] at h; simp at h
    | some r =>
      rw [hr] at h
      simp only [Option.some.injEq, Prod.mk.injEq] at h
      obtain ⟨_, hst⟩ := h
      subst hst
      refine ⟨rfl, ?_⟩
      show some x = some (@OfNat.ofNat ℝ 0 (Num.instOfNat 0) + x)
      calc_simp
      simp

/-- the limit is defined, positive and never exceeds the stored range -/
theorem physicsStepLimit_bounds (mxs rng : XsGrid ℝ) (wm : mxs.WF) (hpm : mxs.Pos) (wr : rng.WF)
    (hpr : rng.Pos) (hir : rng.Incr) (rho alpha fixedLimit : ℝ) (hrho : 0 < rho) (ha0 : 0 < alpha)
    (ha1 : alpha ≤ 1) (st : PhysTrack ℝ) (E mfp : ℝ) (hE : 0 < E) (hmfp : 0 < mfp) :
    ∃ lim st', physicsStepLimit floorIdx mxs rng rho alpha fixedLimit st E mfp = some (lim, st') ∧
      0 < lim.step ∧ lim.step ≤ st'.dedxRange := by
  obtain ⟨x, hx, hxpos⟩ := calc_pos mxs wm hpm E hE
  obtain ⟨r, hr, hrpos⟩ := wr.range_pos hpr hir hE
  have hne : ¬ (Num.eq E (@OfNat.ofNat ℝ 0 (Num.instOfNat 0)) = true) := by
    calc_simp; exact hE.ne'
  have hrs : rangeToStep rho alpha r
      = if r < rho * (1 + 1e-6) then r
        else alpha * r + rho * (1 - alpha) * (2 - rho / r) := rangeToStep_real rho alpha r
  -- range_to_step ∈ (0, range]
  have hstep : 0 < rangeToStep rho alpha r ∧ rangeToStep rho alpha r ≤ r := by
    rw [hrs]
    split
    · exact ⟨hrpos, le_refl _⟩
    · rename_i hge
      have hge' : rho * (1 + 1e-6) ≤ r := not_lt.mp hge
      have hrr : rho < r := by
        have : rho < rho * (1 + 1e-6) := by
          have : (0 : ℝ) < 1e-6 := by norm_num
          nlinarith
        linarith
      have hq : rho / r < 1 := by rw [div_lt_one hrpos]; exact hrr
      have hq0 : 0 < rho / r := div_pos hrho hrpos
      constructor
      · have : 0 ≤ rho * (1 - alpha) * (2 - rho / r) :=
          mul_nonneg (mul_nonneg (le_of_lt hrho) (by linarith)) (by linarith)
        have := mul_pos ha0 hrpos
        linarith
      · have key : r - (alpha * r + rho * (1 - alpha) * (2 - rho / r))
            = (1 - alpha) * ((r - rho) * (r - rho) / r) := by
          field_simp; ring
        have : 0 ≤ (1 - alpha) * ((r - rho) * (r - rho) / r) :=
          mul_nonneg (by linarith) (div_nonneg (mul_self_nonneg _) (le_of_lt hrpos))
        linarith
  unfold physicsStepLimit
  rw [hx]
  simp only []
  rw [if_neg hne, hr]
  simp only []
  have hs0 : 0 < mfp / x := div_pos hmfp hxpos
  refine ⟨_, _, rfl, ?_, ?_⟩
  all_goals calc_simp
  all_goals simp only [zero_add]
  all_goals by_cases h1 : rangeToStep rho alpha r ≤ mfp / x
  all_goals first
    | simp only [if_pos h1]
    | simp only [if_neg h1]
  · by_cases h2 : 0 < fixedLimit ∧ fixedLimit < rangeToStep rho alpha r
    · rw [if_pos h2]; exact h2.1
    · rw [if_neg h2]; exact hstep.1
  · by_cases h2 : 0 < fixedLimit ∧ fixedLimit < mfp / x
    · rw [if_pos h2]; exact h2.1
    · rw [if_neg h2]; exact hs0
  · by_cases h2 : 0 < fixedLimit ∧ fixedLimit < rangeToStep rho alpha r
    · rw [if_pos h2]; exact le_trans (le_of_lt h2.2) hstep.2
    · rw [if_neg h2]; exact hstep.2
  · have hlt : mfp / x ≤ r := le_trans (le_of_lt (not_le.mp h1)) hstep.2
    by_cases h2 : 0 < fixedLimit ∧ fixedLimit < mfp / x
    · rw [if_pos h2]; exact le_trans (le_of_lt h2.2) hlt
    · rw [if_neg h2]; exact hlt

end CelerVerif.Calc
