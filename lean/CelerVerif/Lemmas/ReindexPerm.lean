/- sort_tracks (as modelled: libstdc++ partition / insertion sort) only permutes the indirection
   array (Props/C06 `sortTracks_perm`). -/
import CelerVerif.Model.Reindex
import Mathlib.Data.List.Perm.Basic

namespace CelerVerif.Reindex

/-! ### std::sort model -/

theorem insertSorted_perm (key : Nat → Id) (x : Nat) (l : List Nat) :
    (insertSorted key x l).Perm (x :: l) := by
  induction l with
  | nil => exact List.Perm.refl _
  | cons y ys ih =>
    unfold insertSorted
    by_cases h : idLt (key x) (key y) = true
    · simp [h]
    · simp only [h]
      exact (List.Perm.cons y ih).trans (List.Perm.swap x y ys)

theorem sortByKey_perm (key : Nat → Id) (slots : List Nat) :
    (sortByKey key slots).Perm slots := by
  unfold sortByKey
  have : ∀ acc : List Nat,
      (slots.foldl (fun acc x => insertSorted key x acc) acc).Perm (slots ++ acc) := by
    induction slots with
    | nil => intro acc; exact List.Perm.refl _
    | cons x xs ih =>
      intro acc
      rw [List.foldl_cons]
      refine (ih _).trans ?_
      refine (List.Perm.append_left xs (insertSorted_perm key x acc)).trans ?_
      exact List.perm_middle
  simpa using this []

/-! ### std::partition model -/

theorem swap_perm (l : List Nat) (i j : Nat) (hi : i < l.length) (hj : j < l.length) :
    ((l.set i (l.getD j 0)).set j (l.getD i 0)).Perm l := by
  rw [List.perm_iff_count]
  intro b
  have hxi : l.getD i 0 = l[i] := by simp [List.getD_eq_getElem?_getD, List.getElem?_eq_getElem hi]
  have hxj : l.getD j 0 = l[j] := by simp [List.getD_eq_getElem?_getD, List.getElem?_eq_getElem hj]
  rw [hxi, hxj]
  have hj' : j < (l.set i l[j]).length := by simpa using hj
  rw [List.count_set hj', List.count_set hi]
  have hget : (l.set i l[j])[j] = l[j] := by
    rw [List.getElem_set]
    by_cases h : i = j
    · simp [h]
    · simp [h]
  rw [hget]
  have ci : (l[i] == b) = true → 0 < l.count b := fun h => by
    have : l[i] = b := by simpa using h
    rw [← this]; exact List.count_pos_iff.mpr (List.getElem_mem hi)
  have cj : (l[j] == b) = true → 0 < l.count b := fun h => by
    have : l[j] = b := by simpa using h
    rw [← this]; exact List.count_pos_iff.mpr (List.getElem_mem hj)
  by_cases h1 : (l[i] == b) = true <;> by_cases h2 : (l[j] == b) = true
  · have := ci h1; simp [h1, h2]; omega
  · have := ci h1; simp [h1, h2]; omega
  · have := cj h2; simp [h1, h2]
  · simp [h1, h2]

theorem pBwd_le (pred : Nat → Bool) (a : Array Nat) (lo n h : Nat) : pBwd pred a lo n h ≤ h := by
  induction n generalizing h with
  | zero => exact Nat.le_refl _
  | succ n ih =>
    unfold pBwd
    by_cases c : (lo < h && !pred (a.getD h 0)) = true
    · simp only [c, if_true]
      exact Nat.le_trans (ih (h - 1)) (Nat.sub_le _ _)
    · simp only [c]; exact Nat.le_refl _

theorem partitionLoop_perm (pred : Nat → Bool) (fuel : Nat) (a : Array Nat) (lo hi : Nat)
    (hhi : hi ≤ a.size) : (partitionLoop pred fuel a lo hi).toList.Perm a.toList := by
  induction fuel generalizing a lo hi with
  | zero => exact List.Perm.refl _
  | succ fuel ih =>
    unfold partitionLoop
    simp only []
    by_cases c1 : pFwd pred a hi a.size lo ≥ hi
    · simp [c1]
    · simp only [c1, if_false]
      by_cases c2 : pFwd pred a hi a.size lo ≥ pBwd pred a (pFwd pred a hi a.size lo) a.size (hi - 1)
      · simp [c2]
      · simp only [c2, if_false]
        have hb := pBwd_le pred a (pFwd pred a hi a.size lo) a.size (hi - 1)
        have h1 : pBwd pred a (pFwd pred a hi a.size lo) a.size (hi - 1) < a.size := by omega
        have h0 : pFwd pred a hi a.size lo < a.size := by omega
        refine (ih _ _ _ (by simp; omega)).trans ?_
        rw [Array.toList_setIfInBounds, Array.toList_setIfInBounds]
        have e1 : a.getD (pBwd pred a (pFwd pred a hi a.size lo) a.size (hi - 1)) 0 =
            a.toList.getD (pBwd pred a (pFwd pred a hi a.size lo) a.size (hi - 1)) 0 := by
          simp [Array.getD, List.getD_eq_getElem?_getD, h1]
        have e0 : a.getD (pFwd pred a hi a.size lo) 0 =
            a.toList.getD (pFwd pred a hi a.size lo) 0 := by
          simp [Array.getD, List.getD_eq_getElem?_getD, h0]
        rw [e1, e0]
        exact swap_perm a.toList _ _ (by simpa using h0) (by simpa using h1)

theorem partitionStd_perm (pred : Nat → Bool) (slots : List Nat) :
    (partitionStd pred slots).Perm slots := by
  unfold partitionStd
  have := partitionLoop_perm pred (slots.length + 1) slots.toArray 0 slots.length (by simp)
  simpa using this

end CelerVerif.Reindex
