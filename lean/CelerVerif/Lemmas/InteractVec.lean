/-
Vector helpers of the interaction model at ℝ: `make_unit_vector`, `from_spherical`, `rotate`,
`calc_exiting_direction`, `ExitingDirectionSampler`.
-/
import CelerVerif.Num.Real
import CelerVerif.Model.Interact
import Mathlib.Tactic.Ring
import Mathlib.Tactic.Linarith
import Mathlib.Tactic.FieldSimp
import Mathlib.Tactic.Positivity
import Mathlib.Tactic.NormNum.OfScientific
import Mathlib.Tactic.LinearCombination

namespace CelerVerif.Interact
open CelerVerif

/-- rewrite `Num ℝ` operations into ordinary real arithmetic -/
macro "inum" loc:(Lean.Parser.Tactic.location)? : tactic => `(tactic|
  simp only [NumR.gt_real, NumR.ge_real, NumR.sq_real, NumR.le_real, NumR.lt_real, NumR.eq_real,
    NumR.hsub_real, NumR.hneg_real, NumR.hadd_real, NumR.hmul_real, NumR.hdiv_real,
    NumR.sqrt_real, NumR.abs_real, NumR.exp_real, NumR.log_real, NumR.sin_real, NumR.cos_real,
    NumR.lit0, NumR.lit1, NumR.lit2, NumR.lit3, NumR.lit4,
    NumR.fma_real, Num.ne, NumR.eq_real_false, NumR.lt_real_false, NumR.le_real_false,
    NumR.ofNat_zero, NumR.ofNat_one,
    Bool.not_eq_true', decide_eq_true_eq, decide_eq_false_iff_not,
    Bool.and_eq_true, Bool.not_eq_true, Bool.not_eq_eq_eq_not, Bool.not_true, Bool.not_false]
    $[$loc]?)

/-- decimal literals of model code read at ℝ -/
theorem sci_real (m : ℕ) (s : Bool) (e : ℕ) :
    (@OfScientific.ofScientific ℝ Num.instOfScientific m s e)
      = (OfScientific.ofScientific m s e : ℝ) := rfl

theorem minAccurateSintheta_pos : (0 : ℝ) < (minAccurateSintheta : ℝ) := by
  unfold minAccurateSintheta; rw [sci_real]; norm_num
theorem knSecondaryCutoff_pos : (0 : ℝ) < (knSecondaryCutoff : ℝ) := by
  unfold knSecondaryCutoff; rw [sci_real]; norm_num
theorem half_real : (@OfScientific.ofScientific ℝ Num.instOfScientific 5 true 1) = (1 / 2 : ℝ) := by
  rw [sci_real]; norm_num
theorem quarter_real :
    (@OfScientific.ofScientific ℝ Num.instOfScientific 25 true 2) = (1 / 4 : ℝ) := by
  rw [sci_real]; norm_num
theorem onesix_real :
    (@OfScientific.ofScientific ℝ Num.instOfScientific 16 true 1) = (8 / 5 : ℝ) := by
  rw [sci_real]; norm_num

/-- squared Euclidean norm -/
def nsq (v : Vec3 ℝ) : ℝ := v.x * v.x + v.y * v.y + v.z * v.z
/-- ordinary dot product -/
def dotR (a b : Vec3 ℝ) : ℝ := a.x * b.x + a.y * b.y + a.z * b.z
/-- unit vector -/
def unitV (v : Vec3 ℝ) : Prop := nsq v = 1

theorem norm_real (v : Vec3 ℝ) : Vec3.norm v = Real.sqrt (nsq v) := by
  simp [Vec3.norm, nsq]

theorem nsq_nonneg (v : Vec3 ℝ) : 0 ≤ nsq v := by
  unfold nsq; nlinarith [mul_self_nonneg v.x, mul_self_nonneg v.y, mul_self_nonneg v.z]

/-- `make_unit_vector v = v / |v|` -/
theorem makeUnit_real (v : Vec3 ℝ) :
    makeUnit v = ⟨v.x / Real.sqrt (nsq v), v.y / Real.sqrt (nsq v), v.z / Real.sqrt (nsq v)⟩ := by
  unfold makeUnit
  rw [norm_real]
  inum
  simp only [div_eq_mul_inv, one_mul]

theorem makeUnit_unit (v : Vec3 ℝ) (h : 0 < nsq v) : unitV (makeUnit v) := by
  rw [makeUnit_real]
  have hs : 0 < Real.sqrt (nsq v) := Real.sqrt_pos.mpr h
  have hq : Real.sqrt (nsq v) * Real.sqrt (nsq v) = nsq v := Real.mul_self_sqrt (le_of_lt h)
  unfold unitV
  show v.x / Real.sqrt (nsq v) * (v.x / Real.sqrt (nsq v))
      + v.y / Real.sqrt (nsq v) * (v.y / Real.sqrt (nsq v))
      + v.z / Real.sqrt (nsq v) * (v.z / Real.sqrt (nsq v)) = 1
  have hne : Real.sqrt (nsq v) ≠ 0 := ne_of_gt hs
  field_simp
  rw [Real.sq_sqrt (le_of_lt h)]
  unfold nsq; ring

/-- `|v| · make_unit_vector v = v` -/
theorem makeUnit_scale (v : Vec3 ℝ) (h : 0 < nsq v) :
    Real.sqrt (nsq v) * (makeUnit v).x = v.x ∧ Real.sqrt (nsq v) * (makeUnit v).y = v.y
      ∧ Real.sqrt (nsq v) * (makeUnit v).z = v.z := by
  rw [makeUnit_real]
  have hne : Real.sqrt (nsq v) ≠ 0 := ne_of_gt (Real.sqrt_pos.mpr h)
  refine ⟨?_, ?_, ?_⟩ <;> · show Real.sqrt (nsq v) * (_ / Real.sqrt (nsq v)) = _; field_simp

theorem makeUnit_of_unit (v : Vec3 ℝ) (h : unitV v) : makeUnit v = v := by
  rw [makeUnit_real]
  unfold unitV at h
  rw [h, Real.sqrt_one]
  simp

/-- `from_spherical` gives a unit vector whose z component is cos θ -/
theorem fromSpherical_unit (c phi : ℝ) (h1 : -1 ≤ c) (h2 : c ≤ 1) : unitV (fromSpherical c phi) := by
  unfold fromSpherical unitV nsq
  inum
  have hq : 0 ≤ 1 - c * c := by nlinarith
  have hs := Real.mul_self_sqrt hq
  have ht := Real.sin_sq_add_cos_sq phi
  try dsimp only
  nlinarith [hs, ht, sq_nonneg (Real.sin phi), sq_nonneg (Real.cos phi)]

theorem fromSpherical_z (c phi : ℝ) : (fromSpherical c phi).z = c := rfl

/-- what the proof needs of the (sinθ, cosφ, sinφ) triple computed by `rotate` -/
structure RotOrtho (rot : Vec3 ℝ) (s c sn : ℝ) : Prop where
  hs : s * s + rot.z * rot.z = 1
  hc : c * c + sn * sn = 1

/-- the triple really is the spherical decomposition of `rot` -/
structure RotAligned (rot : Vec3 ℝ) (s c sn : ℝ) : Prop where
  hx : rot.x = s * c
  hy : rot.y = s * sn

/-- the azimuth of the rotation axis is reconstructed with the right sign: either the axis is
    at least `min_accurate_sintheta` away from ±z, or its y component is non-negative
    (in the near-axis branch the code takes `sinφ = sqrt(1 − cos²φ) ≥ 0`) -/
def rotOK (rot : Vec3 ℝ) : Prop :=
  (minAccurateSintheta : ℝ) ≤ Real.sqrt (1 - rot.z * rot.z) ∨ 0 ≤ rot.y

theorem aux_cs (x y s : ℝ) (hs : 0 < s) (h : x * x + y * y = s * s) :
    x * (1 / s) * (x * (1 / s)) + y * (1 / s) * (y * (1 / s)) = 1 := by
  have hne : s ≠ 0 := ne_of_gt hs
  field_simp
  nlinarith

theorem aux_mul (x s : ℝ) (hs : 0 < s) : x = s * (x * (1 / s)) := by
  have hne : s ≠ 0 := ne_of_gt hs
  field_simp

theorem aux_div (x s : ℝ) (hs : 0 < s) : x = s * (x / s) := by
  have hne : s ≠ 0 := ne_of_gt hs
  field_simp

theorem aux_c2 (x y s : ℝ) (hs : 0 < s) (h : x * x + y * y = s * s) : x / s * (x / s) ≤ 1 := by
  rw [div_mul_div_comm, div_le_one (by positivity)]
  nlinarith [mul_self_nonneg y]

theorem aux_sin (x y s : ℝ) (hs : 0 < s) (h : x * x + y * y = s * s) (hy : 0 ≤ y) :
    Real.sqrt (1 - x / s * (x / s)) = y / s := by
  have hne : s ≠ 0 := ne_of_gt hs
  have hsq : 1 - x / s * (x / s) = (y / s) * (y / s) := by
    field_simp
    nlinarith
  rw [hsq, Real.sqrt_mul_self (div_nonneg hy (le_of_lt hs))]

theorem rotAngles_ortho (rot : Vec3 ℝ) (hu : unitV rot) :
    RotOrtho rot (rotAngles rot).1 (rotAngles rot).2.1 (rotAngles rot).2.2 := by
  unfold unitV nsq at hu
  have hq : 0 ≤ 1 - rot.z * rot.z := by nlinarith [mul_self_nonneg rot.x, mul_self_nonneg rot.y]
  have hss := Real.mul_self_sqrt hq
  have hs0 := Real.sqrt_nonneg (1 - rot.z * rot.z)
  have hxy : rot.x * rot.x + rot.y * rot.y = 1 - rot.z * rot.z := by linarith
  unfold rotAngles
  inum
  rw [hxy]
  generalize Real.sqrt (1 - rot.z * rot.z) = s at *
  have hxys : rot.x * rot.x + rot.y * rot.y = s * s := by linarith
  split_ifs with h1 h2
  · have hpos : 0 < s := lt_of_lt_of_le minAccurateSintheta_pos h1
    exact ⟨by linarith, aux_cs _ _ _ hpos hxys⟩
  · refine ⟨by linarith, ?_⟩
    have := Real.mul_self_sqrt (sub_nonneg.mpr (aux_c2 _ _ _ h2 hxys))
    show rot.x / s * (rot.x / s) + Real.sqrt (1 - rot.x / s * (rot.x / s))
        * Real.sqrt (1 - rot.x / s * (rot.x / s)) = 1
    linarith
  · exact ⟨by linarith, by simp⟩

theorem rotAngles_aligned (rot : Vec3 ℝ) (hu : unitV rot) (hok : rotOK rot) :
    RotAligned rot (rotAngles rot).1 (rotAngles rot).2.1 (rotAngles rot).2.2 := by
  unfold unitV nsq at hu
  unfold rotOK at hok
  have hq : 0 ≤ 1 - rot.z * rot.z := by nlinarith [mul_self_nonneg rot.x, mul_self_nonneg rot.y]
  have hss := Real.mul_self_sqrt hq
  have hs0 := Real.sqrt_nonneg (1 - rot.z * rot.z)
  have hxy : rot.x * rot.x + rot.y * rot.y = 1 - rot.z * rot.z := by linarith
  unfold rotAngles
  inum
  rw [hxy]
  generalize Real.sqrt (1 - rot.z * rot.z) = s at *
  have hxys : rot.x * rot.x + rot.y * rot.y = s * s := by linarith
  split_ifs with h1 h2
  · have hpos : 0 < s := lt_of_lt_of_le minAccurateSintheta_pos h1
    exact ⟨aux_mul _ _ hpos, aux_mul _ _ hpos⟩
  · have hy : 0 ≤ rot.y := by
      rcases hok with h | h
      · exact absurd h h1
      · exact h
    refine ⟨aux_div _ _ h2, ?_⟩
    show rot.y = s * Real.sqrt (1 - rot.x / s * (rot.x / s))
    rw [aux_sin _ _ _ h2 hxys hy]
    exact aux_div _ _ h2
  · have hz : s = 0 := le_antisymm (not_lt.mp h2) hs0
    have hx0 : rot.x = 0 := by
      rw [hz] at hxys; nlinarith [mul_self_nonneg rot.x, mul_self_nonneg rot.y]
    have hy0 : rot.y = 0 := by
      rw [hz] at hxys; nlinarith [mul_self_nonneg rot.x, mul_self_nonneg rot.y]
    exact ⟨by simp [hx0, hz], by simp [hy0, hz]⟩

/-- the un-normalised rotation preserves the norm … -/
theorem rotateRaw_nsq (dir rot : Vec3 ℝ) (hu : unitV rot) : nsq (rotateRaw dir rot) = nsq dir := by
  have h := rotAngles_ortho rot hu
  unfold rotateRaw
  rcases hra : rotAngles rot with ⟨s, c, sn⟩
  rw [hra] at h
  obtain ⟨hs, hc⟩ := h
  try dsimp only at hs hc
  unfold nsq
  inum
  try dsimp only
  have e1 : (rot.z * dir.x + s * dir.z) * c - sn * dir.y = (rot.z * dir.x + s * dir.z) * c - sn * dir.y := rfl
  nlinarith [hs, hc, mul_self_nonneg (rot.z * dir.x + s * dir.z), mul_self_nonneg dir.y,
    congrArg (fun t => t * ((rot.z * dir.x + s * dir.z) * (rot.z * dir.x + s * dir.z))) hc,
    congrArg (fun t => t * (dir.y * dir.y)) hc,
    congrArg (fun t => t * (dir.x * dir.x)) hs, congrArg (fun t => t * (dir.z * dir.z)) hs]

/-- … and keeps the polar cosine with respect to the axis -/
theorem rotateRaw_dot (dir rot : Vec3 ℝ) (hu : unitV rot) (hok : rotOK rot) :
    dotR (rotateRaw dir rot) rot = dir.z := by
  have h := rotAngles_ortho rot hu
  have ha := rotAngles_aligned rot hu hok
  unfold rotateRaw
  rcases hra : rotAngles rot with ⟨s, c, sn⟩
  rw [hra] at h ha
  obtain ⟨hs, hc⟩ := h
  obtain ⟨hx, hy⟩ := ha
  try dsimp only at hs hc hx hy
  unfold dotR
  inum
  try dsimp only
  rw [hx, hy]
  have e : ((rot.z * dir.x + s * dir.z) * c - sn * dir.y) * (s * c)
      + ((rot.z * dir.x + s * dir.z) * sn + c * dir.y) * (s * sn)
      + (-s * dir.x + rot.z * dir.z) * rot.z
      = s * (rot.z * dir.x + s * dir.z) * (c * c + sn * sn) - s * dir.x * rot.z
        + rot.z * rot.z * dir.z := by ring
  rw [e, hc]
  have : s * (rot.z * dir.x + s * dir.z) * 1 - s * dir.x * rot.z + rot.z * rot.z * dir.z
      = (s * s + rot.z * rot.z) * dir.z := by ring
  rw [this, hs, one_mul]

theorem rotate_unit (dir rot : Vec3 ℝ) (hd : unitV dir) (hu : unitV rot) :
    unitV (rotate dir rot) := by
  unfold rotate
  apply makeUnit_unit
  rw [rotateRaw_nsq dir rot hu]
  unfold unitV at hd; rw [hd]; exact one_pos

theorem rotate_eq_raw (dir rot : Vec3 ℝ) (hd : unitV dir) (hu : unitV rot) :
    rotate dir rot = rotateRaw dir rot := by
  unfold rotate
  apply makeUnit_of_unit
  unfold unitV
  rw [rotateRaw_nsq dir rot hu]; exact hd

theorem rotate_dot (dir rot : Vec3 ℝ) (hd : unitV dir) (hu : unitV rot) (hok : rotOK rot) :
    dotR (rotate dir rot) rot = dir.z := by
  rw [rotate_eq_raw dir rot hd hu]; exact rotateRaw_dot dir rot hu hok

/-- ★ `ExitingDirectionSampler` returns a unit vector … -/
theorem exitingDirection_unit (c : ℝ) (dir : Vec3 ℝ) (u : ℝ) (h1 : -1 ≤ c) (h2 : c ≤ 1)
    (hu : unitV dir) : unitV (exitingDirection c dir u) := by
  unfold exitingDirection
  exact rotate_unit _ _ (fromSpherical_unit c _ h1 h2) hu

/-- … at polar cosine `c` from the incident direction -/
theorem exitingDirection_dot (c : ℝ) (dir : Vec3 ℝ) (u : ℝ) (h1 : -1 ≤ c) (h2 : c ≤ 1)
    (hu : unitV dir) (hok : rotOK dir) : dotR (exitingDirection c dir u) dir = c := by
  unfold exitingDirection
  rw [rotate_dot _ _ (fromSpherical_unit c _ h1 h2) hu hok]; rfl

/-- squared norm of `p d − q e` for unit `d`, `e` -/
theorem exitingRaw_nsq (p q : ℝ) (d e : Vec3 ℝ) (hd : unitV d) (he : unitV e) :
    nsq (exitingRaw p d q e) = p * p + q * q - 2 * p * q * dotR e d := by
  unfold unitV nsq at hd he
  unfold exitingRaw nsq dotR
  inum
  try dsimp only
  nlinarith [congrArg (fun t => t * (p * p)) hd, congrArg (fun t => t * (q * q)) he]

theorem calcExiting_unit (p q : ℝ) (d e : Vec3 ℝ) (h : 0 < nsq (exitingRaw p d q e)) :
    unitV (calcExitingDirection p d q e) := makeUnit_unit _ h

/-- momentum balance of `calc_exiting_direction`: with `r = |p d − q e|`,
    `p d = q e + r · calc_exiting_direction` component-wise -/
theorem calcExiting_balance (p q : ℝ) (d e : Vec3 ℝ) (h : 0 < nsq (exitingRaw p d q e)) :
    let r := Real.sqrt (nsq (exitingRaw p d q e))
    let f := calcExitingDirection p d q e
    p * d.x = q * e.x + r * f.x ∧ p * d.y = q * e.y + r * f.y ∧ p * d.z = q * e.z + r * f.z := by
  intro r f
  obtain ⟨hx, hy, hz⟩ := makeUnit_scale _ h
  have ex : (exitingRaw p d q e).x = d.x * p - e.x * q := by unfold exitingRaw; inum
  have ey : (exitingRaw p d q e).y = d.y * p - e.y * q := by unfold exitingRaw; inum
  have ez : (exitingRaw p d q e).z = d.z * p - e.z * q := by unfold exitingRaw; inum
  refine ⟨?_, ?_, ?_⟩
  · show p * d.x = q * e.x + Real.sqrt (nsq (exitingRaw p d q e)) * (makeUnit (exitingRaw p d q e)).x
    rw [hx, ex]; ring
  · show p * d.y = q * e.y + Real.sqrt (nsq (exitingRaw p d q e)) * (makeUnit (exitingRaw p d q e)).y
    rw [hy, ey]; ring
  · show p * d.z = q * e.z + Real.sqrt (nsq (exitingRaw p d q e)) * (makeUnit (exitingRaw p d q e)).z
    rw [hz, ez]; ring

end CelerVerif.Interact
