/-
C10 helper lemmas, part 8g (De Morgan on trees WITH alias chains).  `DeMorganSimplifier` reads the
tree through `dealias` everywhere except in `add_negation_for_operands` (`std::get<Joined>` on the
un-dealiased id).  Hence, whenever the transformation returns, it returns exactly what it returns
on the RESOLVED tree (every alias node replaced by the definition at the end of its alias chain),
which has no alias nodes: the alias-free soundness theorem transfers.
-/
import CelerVerif.Lemmas.CsgDeMorganD

namespace CelerVerif.Csg

/-! ### `dealias` on a sorted tree -/

theorem dealias_alias {t : Tree} {n a : Nat} (f : Nat) (h : t.get n = .aliased a) :
    dealias t (f + 1) n = dealias t f a := by
  rw [dealias]; simp only [h]

theorem dealias_nonalias {t : Tree} {n : Nat} (f : Nat) (h : ∀ a, t.get n ≠ .aliased a) :
    dealias t (f + 1) n = n := by
  rw [dealias]
  cases hg : t.get n with
  | aliased a => exact absurd hg (h a)
  | _ => rfl

theorem dealias_spec {t : Tree} (s : Struct t) (hso : Sorted t) :
    ∀ (f n : Nat), n < t.size → n < f →
    dealias t f n ≤ n ∧ (∀ a, t.get (dealias t f n) ≠ .aliased a) ∧
    ∀ σ, denote t σ (dealias t f n) = denote t σ n := by
  intro f
  induction f with
  | zero => intro n _ h; omega
  | succ f ih =>
    intro n hn hf
    by_cases hal : ∃ a, t.get n = .aliased a
    · rcases hal with ⟨a, hg⟩
      have ha : a < n := hso n hn a (by simp [hg, Node.children])
      rcases ih a (by omega) (by omega) with ⟨h1, h2, h3⟩
      rw [dealias_alias f hg]
      refine ⟨by omega, h2, fun σ => ?_⟩
      rw [h3 σ, denote_get hso σ hn, hg]; rfl
    · have hna : ∀ a, t.get n ≠ .aliased a := fun a h => hal ⟨a, h⟩
      rw [dealias_nonalias f hna]
      exact ⟨Nat.le_refl _, hna, fun _ => rfl⟩

theorem dealias_out_of_range (t : Tree) (f n : Nat) (hn : ¬ n < t.size) : dealias t f n = n := by
  have hg : t.get n = .tru := by
    unfold Tree.get
    rw [List.getD_eq_getElem?_getD, List.getElem?_eq_none (by simpa [Tree.size] using hn)]
    rfl
  cases f with
  | zero => rfl
  | succ f => exact dealias_nonalias f (fun a h => by rw [hg] at h; cases h)

/-- the node definition at the end of the alias chain is never an alias -/
theorem dealiased_not_alias {t : Tree} (s : Struct t) (hso : Sorted t) (n a : Nat) :
    dealiased t n ≠ .aliased a := by
  unfold dealiased
  by_cases hn : n < t.size
  · exact (dealias_spec s hso (t.size + 1) n hn (by omega)).2.1 a
  · rw [dealias_out_of_range t _ n hn]
    intro h
    have hg : t.get n = .tru := by
      unfold Tree.get
      rw [List.getD_eq_getElem?_getD, List.getElem?_eq_none (by simpa [Tree.size] using hn)]
      rfl
    rw [hg] at h; cases h

theorem denote_dealiased {t : Tree} (s : Struct t) (hso : Sorted t) (σ : Nat → Bool) {n : Nat}
    (hn : n < t.size) : denote t σ n = evalNode σ (denote t σ) (dealiased t n) := by
  rcases dealias_spec s hso (t.size + 1) n hn (by omega) with ⟨h1, _, h3⟩
  unfold dealiased
  rw [← h3 σ, denote_get hso σ (by omega)]

theorem dealiased_children_lt {t : Tree} (s : Struct t) (hso : Sorted t) {n : Nat}
    (hn : n < t.size) : ∀ c ∈ (dealiased t n).children, c < n := by
  rcases dealias_spec s hso (t.size + 1) n hn (by omega) with ⟨h1, _, _⟩
  intro c hc
  have := hso (dealias t (t.size + 1) n) (by omega) c hc
  omega

/-! ### the resolved tree -/

/-- every alias node replaced by the definition at the end of its alias chain (same ids) -/
def resolveTree (t : Tree) : Tree :=
  { nodes := (List.range t.size).map (dealiased t), ids := t.ids, volumes := t.volumes }

@[simp] theorem size_resolve (t : Tree) : (resolveTree t).size = t.size := by
  simp [resolveTree, Tree.size]

theorem get_resolve (t : Tree) (n : Nat) : (resolveTree t).get n = dealiased t n := by
  by_cases hn : n < t.size
  · unfold Tree.get resolveTree
    simp only [List.getD_eq_getElem?_getD]
    rw [List.getElem?_eq_getElem (by simpa using hn)]
    simp
  · have h1 : (resolveTree t).get n = .tru := by
      unfold Tree.get
      rw [List.getD_eq_getElem?_getD, List.getElem?_eq_none (by simpa [resolveTree] using hn)]
      rfl
    rw [h1]
    unfold dealiased
    rw [dealias_out_of_range t _ n hn]
    unfold Tree.get
    rw [List.getD_eq_getElem?_getD, List.getElem?_eq_none (by simpa [Tree.size] using hn)]
    rfl

theorem dealiased_resolve {t : Tree} (s : Struct t) (hso : Sorted t) (n : Nat) :
    dealiased (resolveTree t) n = dealiased t n := by
  have hna : ∀ a, (resolveTree t).get n ≠ .aliased a := by
    intro a; rw [get_resolve]; exact dealiased_not_alias s hso n a
  unfold dealiased
  rw [dealias_nonalias _ hna, get_resolve]
  rfl

theorem resolve_struct {t : Tree} (s : Struct t) (hso : Sorted t) : Struct (resolveTree t) where
  base0 := by
    rw [get_resolve]; unfold dealiased
    rw [dealias_nonalias _ (fun a h => by rw [s.base0] at h; cases h)]; exact s.base0
  base1 := by
    rw [get_resolve]; unfold dealiased
    rw [dealias_nonalias _ (fun a h => by rw [s.base1] at h; cases h)]; exact s.base1
  size2 := by rw [size_resolve]; exact s.size2
  small := by rw [size_resolve]; exact s.small
  closed := by
    intro i hi c hc
    rw [size_resolve] at hi ⊢
    rw [get_resolve] at hc
    exact Nat.lt_trans (dealiased_children_lt s hso hi c hc) hi
  idsRange := by intro e he; rw [size_resolve]; exact s.idsRange e he
  keysClosed := by intro e he c hc; rw [size_resolve]; exact s.keysClosed e he c hc

theorem resolve_sorted {t : Tree} (s : Struct t) (hso : Sorted t) : Sorted (resolveTree t) := by
  intro i hi c hc
  rw [size_resolve] at hi
  rw [get_resolve] at hc
  exact dealiased_children_lt s hso hi c hc

theorem denote_resolve {t : Tree} (s : Struct t) (hso : Sorted t) (σ : Nat → Bool) {i : Nat}
    (hi : i < t.size) : denote (resolveTree t) σ i = denote t σ i := by
  have hm : Models (resolveTree t) σ (denote t σ) := by
    intro j hj
    rw [size_resolve] at hj
    rw [get_resolve]
    exact denote_dealiased s hso σ hj
  exact (models_unique (resolve_sorted s hso) hm i (by simpa using hi)).symm

/-! ### the transformation only looks at the tree through `dealiased`, `size`, `volumes` -/

/-- two trees look the same to `DeMorganSimplifier` -/
structure SameView (t1 t2 : Tree) : Prop where
  deal : ∀ n, dealiased t1 n = dealiased t2 n
  size : t1.size = t2.size
  vols : t1.volumes = t2.volumes

theorem shouldInsertJoin_congr {t1 t2 : Tree} (h : SameView t1 t2) (fl : DMFlags) :
    ∀ f x, shouldInsertJoin t1 fl f x = shouldInsertJoin t2 fl f x := by
  intro f
  induction f with
  | zero => intro x; rfl
  | succ f ih =>
    intro x
    unfold shouldInsertJoin
    simp only [h.deal, ih]

theorem negOperand_congr {t1 t2 : Tree} (h : SameView t1 t2) (tr : TrMap) (n : Nat) :
    negOperand t1 tr n = negOperand t2 tr n := by
  unfold negOperand; rw [h.deal]

theorem negOperands_congr {t1 t2 : Tree} (h : SameView t1 t2) (tr : TrMap) :
    ∀ ns, negOperands t1 tr ns = negOperands t2 tr ns := by
  intro ns
  induction ns with
  | nil => rfl
  | cons n ns ih => unfold negOperands; rw [negOperand_congr h, ih]

theorem processNegatedJoined_congr {t1 t2 : Tree} (h : SameView t1 t2) (fl : DMFlags)
    (nodeId : Nat) (r : Tree) (tr : TrMap) :
    processNegatedJoined t1 fl nodeId r tr = processNegatedJoined t2 fl nodeId r tr := by
  unfold processNegatedJoined buildNegatedNode
  simp only [h.deal, negOperands_congr h, shouldInsertJoin_congr h]

theorem dmStep_congr {t1 t2 : Tree} (h : SameView t1 t2) (fl : DMFlags) :
    dmStep t1 fl = dmStep t2 fl := by
  funext st nodeId
  unfold dmStep
  simp only [processNegatedJoined_congr h, h.deal]

theorem buildSimplifiedTree_congr {t1 t2 : Tree} (h : SameView t1 t2) (fl : DMFlags) :
    buildSimplifiedTree t1 fl = buildSimplifiedTree t2 fl := by
  unfold buildSimplifiedTree
  rw [dmStep_congr h, h.size, h.vols]

/-- `foldE` is monotone in the step function w.r.t. "succeeds with" -/
theorem foldE_imp {α β ε : Type} (f g : α → β → Except ε α)
    (h : ∀ a b a', f a b = .ok a' → g a b = .ok a') :
    ∀ (l : List β) (a a' : α), foldE f l a = .ok a' → foldE g l a = .ok a' := by
  intro l
  induction l with
  | nil => intro a a' hf; exact hf
  | cons b bs ih =>
    intro a a' hf
    unfold foldE at hf ⊢
    cases h1 : f a b with
    | error e => rw [h1] at hf; cases hf
    | ok a1 =>
      rw [h1] at hf
      rw [h a b a1 h1]
      exact ih a1 a' hf

/-- the only un-dealiased read: if it succeeds on `t1` it reads the same join on `t2` -/
theorem addNegation_imp {t1 t2 : Tree} (h : SameView t1 t2)
    (hj : ∀ n op ns, t1.get n = .joined op ns → t2.get n = .joined op ns) :
    ∀ (fuel nodeId : Nat) (fl fl' : DMFlags),
    addNegationForOperands t1 fuel nodeId fl = .ok fl' →
    addNegationForOperands t2 fuel nodeId fl = .ok fl' := by
  intro fuel
  induction fuel with
  | zero => intro nodeId fl fl' hf; simp [addNegationForOperands] at hf
  | succ fuel ih =>
    intro nodeId fl fl' hf
    unfold addNegationForOperands at hf ⊢
    cases hg : t1.get nodeId with
    | joined op operands =>
      rw [hg] at hf
      rw [hj nodeId op operands hg]
      simp only at hf ⊢
      refine foldE_imp _ _ ?_ operands fl fl' hf
      intro a b a' hstep
      simp only [← h.deal] at hstep ⊢
      by_cases hjb : isJoined (dealiased t1 b) = true
      · rw [if_pos hjb] at hstep ⊢
        exact ih b _ a' hstep
      · rw [if_neg hjb] at hstep ⊢
        exact hstep
    | tru | fls | aliased _ | negated _ | surface _ => rw [hg] at hf; cases hf

theorem fjStep_imp {t1 t2 : Tree} (h : SameView t1 t2)
    (hj : ∀ n op ns, t1.get n = .joined op ns → t2.get n = .joined op ns)
    (fl fl' : DMFlags) (nodeId : Nat) (hf : fjStep t1 fl nodeId = .ok fl') :
    fjStep t2 fl nodeId = .ok fl' := by
  unfold fjStep at hf ⊢
  rw [← h.deal]
  cases hd : dealiased t1 nodeId with
  | negated c =>
    rw [hd] at hf
    simp only [← h.deal, ← h.size] at hf ⊢
    by_cases hjc : isJoined (dealiased t1 c) = true
    · rw [if_pos hjc] at hf ⊢
      exact addNegation_imp h hj _ _ _ fl' hf
    · rw [if_neg hjc] at hf ⊢
      exact hf
  | tru | fls | aliased _ | surface _ | joined _ _ => rw [hd] at hf; exact hf

theorem findJoinNegations_imp {t1 t2 : Tree} (h : SameView t1 t2)
    (hj : ∀ n op ns, t1.get n = .joined op ns → t2.get n = .joined op ns) {fl : DMFlags}
    (hf : findJoinNegations t1 = .ok fl) : findJoinNegations t2 = .ok fl := by
  unfold findJoinNegations at hf ⊢
  simp only [← h.size, ← h.vols] at hf ⊢
  cases h1 : foldE (fjStep t1) (List.range t1.size)
      { newNeg := fun _ => false, negJoin := fun _ => false,
        parents := Array.replicate (t1.size * t1.size) false, size := t1.size } with
  | error e => rw [h1] at hf; cases hf
  | ok fl1 =>
    rw [h1] at hf
    rw [foldE_imp (fjStep t1) (fjStep t2) (fun a b a' hs => fjStep_imp h hj a a' b hs) _ _ _ h1]
    exact hf

theorem transformNegatedJoins_imp {t1 t2 : Tree} (h : SameView t1 t2)
    (hj : ∀ n op ns, t1.get n = .joined op ns → t2.get n = .joined op ns) {t' : Tree}
    (hf : transformNegatedJoins t1 = .ok t') : transformNegatedJoins t2 = .ok t' := by
  unfold transformNegatedJoins at hf ⊢
  cases h1 : findJoinNegations t1 with
  | error e => rw [h1] at hf; cases hf
  | ok fl =>
    rw [h1] at hf
    rw [findJoinNegations_imp h hj h1]
    simp only at hf ⊢
    rw [← buildSimplifiedTree_congr h]
    exact hf

/-! ### soundness with alias chains -/

/-- precondition for trees that may contain alias nodes and alias chains of any depth: no `False`
    node, and no double negation even through aliases -/
structure DMPreA (t : Tree) : Prop where
  noFls : ∀ i, t.get i ≠ .fls
  noDoubleNeg : ∀ i c, i < t.size → dealiased t i = .negated c → isNegated (dealiased t c) = false

theorem resolve_sameView {t : Tree} (s : Struct t) (hso : Sorted t) :
    SameView t (resolveTree t) :=
  ⟨fun n => (dealiased_resolve s hso n).symm, (size_resolve t).symm, rfl⟩

theorem resolve_join {t : Tree} (s : Struct t) (hso : Sorted t) (n : Nat) (op : Op) (ns : List Nat)
    (hg : t.get n = .joined op ns) : (resolveTree t).get n = .joined op ns := by
  rw [get_resolve]
  unfold dealiased
  rw [dealias_nonalias _ (fun a h => by rw [hg] at h; cases h)]; exact hg

theorem resolve_dmPre {t : Tree} (s : Struct t) (hso : Sorted t) (pre : DMPreA t) :
    DMPre (resolveTree t) where
  noAlias := by intro i a; rw [get_resolve]; exact dealiased_not_alias s hso i a
  noFls := by
    intro i
    rw [get_resolve]
    unfold dealiased
    exact pre.noFls _
  noDoubleNeg := by
    intro i c hi hg
    rw [size_resolve] at hi
    rw [get_resolve] at hg ⊢
    exact pre.noDoubleNeg i c hi hg

/-- ★ soundness of `transform_negated_joins` on trees WITH alias nodes and alias chains of any
    depth: whenever it returns, the new tree satisfies the invariant, has the same number of
    volumes, every volume keeps its denotation, no negation of a join remains -/
theorem transformNegatedJoins_sound_alias {t t' : Tree} (s : Struct t) (hso : Sorted t)
    (pre : DMPreA t) (hsmall : 3 * t.size + 2 ≤ invalid)
    (h : transformNegatedJoins t = .ok t') (hvol : ∀ v ∈ t.volumes, v < t.size) :
    TreeInv t' ∧ t'.volumes.length = t.volumes.length ∧
    (∀ k (hk : k < t.volumes.length) (hk' : k < t'.volumes.length) σ,
      denote t' σ (t'.volumes[k]) = denote t σ (t.volumes[k])) ∧
    (∀ i u, i < t'.size → t'.get i = .negated u → IsLeaf (t'.get u)) := by
  have h' := transformNegatedJoins_imp (resolve_sameView s hso) (resolve_join s hso) h
  rcases transformNegatedJoins_sound' (resolve_dmPre s hso pre) (resolve_struct s hso)
    (resolve_sorted s hso) (by simpa using hsmall) h' with ⟨h1, h2, h3, h4, _⟩
  refine ⟨h1, h2, fun k hk hk' σ => ?_, h4⟩
  have := h3 k hk hk' σ
  rw [this]
  exact denote_resolve s hso σ (hvol _ (List.getElem_mem hk))

end CelerVerif.Csg
