/-
C10 helper lemmas, part 8g (De Morgan on trees WITH alias chains).  `DeMorganSimplifier` reads the
tree through `dealias` everywhere (since repo commit 9889e64 also in `add_negation_for_operands`).
Hence the transformation returns exactly what it returns on the RESOLVED tree (every alias node replaced by the definition at the end of its alias chain),
which has no alias nodes: the alias-free soundness theorem transfers.
-/
import CelerVerif.Lemmas.CsgDeMorganD
import CelerVerif.Lemmas.CsgDeMorganF

namespace CelerVerif.Csg

/-! ### `dealias` on a sorted tree -/

theorem dealias_alias {t : Tree} {n a : Nat} (f : Nat) (h : t.get n = .aliased a) :
    dealias t (f + 1) n = dealias t f a := by
  rw [dealias]; simp only [h]

theorem dealias_nonalias {t : Tree} {n : Nat} (f : Nat) (h : ∀ a, t.get n ≠ .aliased a) :
    dealias t (f + 1) n = n := by
  rw [dealias]
  cases hg : t.get n with
  | aliased a => exact absurd hg (h a)
  | _ => rfl

theorem dealias_spec {t : Tree} (s : Struct t) (hso : Sorted t) :
    ∀ (f n : Nat), n < t.size → n < f →
    dealias t f n ≤ n ∧ (∀ a, t.get (dealias t f n) ≠ .aliased a) ∧
    ∀ σ, denote t σ (dealias t f n) = denote t σ n := by
  intro f
  induction f with
  | zero => intro n _ h; omega
  | succ f ih =>
    intro n hn hf
    by_cases hal : ∃ a, t.get n = .aliased a
    · rcases hal with ⟨a, hg⟩
      have ha : a < n := hso n hn a (by simp [hg, Node.children])
      rcases ih a (by omega) (by omega) with ⟨h1, h2, h3⟩
      rw [dealias_alias f hg]
      refine ⟨by omega, h2, fun σ => ?_⟩
      rw [h3 σ, denote_get hso σ hn, hg]; rfl
    · have hna : ∀ a, t.get n ≠ .aliased a := fun a h => hal ⟨a, h⟩
      rw [dealias_nonalias f hna]
      exact ⟨Nat.le_refl _, hna, fun _ => rfl⟩

theorem dealias_out_of_range (t : Tree) (f n : Nat) (hn : ¬ n < t.size) : dealias t f n = n := by
  have hg : t.get n = .tru := by
    unfold Tree.get
    rw [List.getD_eq_getElem?_getD, List.getElem?_eq_none (by simpa [Tree.size] using hn)]
    rfl
  cases f with
  | zero => rfl
  | succ f => exact dealias_nonalias f (fun a h => by rw [hg] at h; cases h)

/-- the node definition at the end of the alias chain is never an alias -/
theorem dealiased_not_alias {t : Tree} (s : Struct t) (hso : Sorted t) (n a : Nat) :
    dealiased t n ≠ .aliased a := by
  unfold dealiased
  by_cases hn : n < t.size
  · exact (dealias_spec s hso (t.size + 1) n hn (by omega)).2.1 a
  · rw [dealias_out_of_range t _ n hn]
    intro h
    have hg : t.get n = .tru := by
      unfold Tree.get
      rw [List.getD_eq_getElem?_getD, List.getElem?_eq_none (by simpa [Tree.size] using hn)]
      rfl
    rw [hg] at h; cases h

theorem denote_dealiased {t : Tree} (s : Struct t) (hso : Sorted t) (σ : Nat → Bool) {n : Nat}
    (hn : n < t.size) : denote t σ n = evalNode σ (denote t σ) (dealiased t n) := by
  rcases dealias_spec s hso (t.size + 1) n hn (by omega) with ⟨h1, _, h3⟩
  unfold dealiased
  rw [← h3 σ, denote_get hso σ (by omega)]

theorem dealiased_children_lt {t : Tree} (s : Struct t) (hso : Sorted t) {n : Nat}
    (hn : n < t.size) : ∀ c ∈ (dealiased t n).children, c < n := by
  rcases dealias_spec s hso (t.size + 1) n hn (by omega) with ⟨h1, _, _⟩
  intro c hc
  have := hso (dealias t (t.size + 1) n) (by omega) c hc
  omega

/-! ### the resolved tree -/

/-- every alias node replaced by the definition at the end of its alias chain (same ids) -/
def resolveTree (t : Tree) : Tree :=
  { nodes := (List.range t.size).map (dealiased t), ids := t.ids, volumes := t.volumes }

@[simp] theorem size_resolve (t : Tree) : (resolveTree t).size = t.size := by
  simp [resolveTree, Tree.size]

theorem get_resolve (t : Tree) (n : Nat) : (resolveTree t).get n = dealiased t n := by
  by_cases hn : n < t.size
  · unfold Tree.get resolveTree
    simp only [List.getD_eq_getElem?_getD]
    rw [List.getElem?_eq_getElem (by simpa using hn)]
    simp
  · have h1 : (resolveTree t).get n = .tru := by
      unfold Tree.get
      rw [List.getD_eq_getElem?_getD, List.getElem?_eq_none (by simpa [resolveTree] using hn)]
      rfl
    rw [h1]
    unfold dealiased
    rw [dealias_out_of_range t _ n hn]
    unfold Tree.get
    rw [List.getD_eq_getElem?_getD, List.getElem?_eq_none (by simpa [Tree.size] using hn)]
    rfl

theorem dealiased_resolve {t : Tree} (s : Struct t) (hso : Sorted t) (n : Nat) :
    dealiased (resolveTree t) n = dealiased t n := by
  have hna : ∀ a, (resolveTree t).get n ≠ .aliased a := by
    intro a; rw [get_resolve]; exact dealiased_not_alias s hso n a
  unfold dealiased
  rw [dealias_nonalias _ hna, get_resolve]
  rfl

theorem resolve_struct {t : Tree} (s : Struct t) (hso : Sorted t) : Struct (resolveTree t) where
  base0 := by
    rw [get_resolve]; unfold dealiased
    rw [dealias_nonalias _ (fun a h => by rw [s.base0] at h; cases h)]; exact s.base0
  base1 := by
    rw [get_resolve]; unfold dealiased
    rw [dealias_nonalias _ (fun a h => by rw [s.base1] at h; cases h)]; exact s.base1
  size2 := by rw [size_resolve]; exact s.size2
  small := by rw [size_resolve]; exact s.small
  closed := by
    intro i hi c hc
    rw [size_resolve] at hi ⊢
    rw [get_resolve] at hc
    exact Nat.lt_trans (dealiased_children_lt s hso hi c hc) hi
  idsRange := by intro e he; rw [size_resolve]; exact s.idsRange e he
  keysClosed := by intro e he c hc; rw [size_resolve]; exact s.keysClosed e he c hc

theorem resolve_sorted {t : Tree} (s : Struct t) (hso : Sorted t) : Sorted (resolveTree t) := by
  intro i hi c hc
  rw [size_resolve] at hi
  rw [get_resolve] at hc
  exact dealiased_children_lt s hso hi c hc

theorem denote_resolve {t : Tree} (s : Struct t) (hso : Sorted t) (σ : Nat → Bool) {i : Nat}
    (hi : i < t.size) : denote (resolveTree t) σ i = denote t σ i := by
  have hm : Models (resolveTree t) σ (denote t σ) := by
    intro j hj
    rw [size_resolve] at hj
    rw [get_resolve]
    exact denote_dealiased s hso σ hj
  exact (models_unique (resolve_sorted s hso) hm i (by simpa using hi)).symm

/-! ### the transformation only looks at the tree through `dealiased`, `size`, `volumes` -/

/-- two trees look the same to `DeMorganSimplifier` -/
structure SameView (t1 t2 : Tree) : Prop where
  deal : ∀ n, dealiased t1 n = dealiased t2 n
  size : t1.size = t2.size
  vols : t1.volumes = t2.volumes

theorem shouldInsertJoin_congr {t1 t2 : Tree} (h : SameView t1 t2) (fl : DMFlags) :
    ∀ f x, shouldInsertJoin t1 fl f x = shouldInsertJoin t2 fl f x := by
  intro f
  induction f with
  | zero => intro x; rfl
  | succ f ih =>
    intro x
    unfold shouldInsertJoin
    simp only [h.deal, ih]

theorem negOperand_congr {t1 t2 : Tree} (h : SameView t1 t2) (tr : TrMap) (n : Nat) :
    negOperand t1 tr n = negOperand t2 tr n := by
  unfold negOperand; rw [h.deal]

theorem negOperands_congr {t1 t2 : Tree} (h : SameView t1 t2) (tr : TrMap) :
    ∀ ns, negOperands t1 tr ns = negOperands t2 tr ns := by
  intro ns
  induction ns with
  | nil => rfl
  | cons n ns ih => unfold negOperands; rw [negOperand_congr h, ih]

theorem processNegatedJoined_congr {t1 t2 : Tree} (h : SameView t1 t2) (fl : DMFlags)
    (nodeId : Nat) (r : Tree) (tr : TrMap) :
    processNegatedJoined t1 fl nodeId r tr = processNegatedJoined t2 fl nodeId r tr := by
  unfold processNegatedJoined buildNegatedNode
  simp only [h.deal, negOperands_congr h, shouldInsertJoin_congr h]

theorem dmStep_congr {t1 t2 : Tree} (h : SameView t1 t2) (fl : DMFlags) :
    dmStep t1 fl = dmStep t2 fl := by
  funext st nodeId
  unfold dmStep
  simp only [processNegatedJoined_congr h, h.deal]

theorem buildSimplifiedTree_congr {t1 t2 : Tree} (h : SameView t1 t2) (fl : DMFlags) :
    buildSimplifiedTree t1 fl = buildSimplifiedTree t2 fl := by
  unfold buildSimplifiedTree
  rw [dmStep_congr h, h.size, h.vols]

theorem addNegation_congr {t1 t2 : Tree} (h : SameView t1 t2) :
    ∀ (fuel nodeId : Nat) (fl : DMFlags),
    addNegationForOperands t1 fuel nodeId fl = addNegationForOperands t2 fuel nodeId fl := by
  intro fuel
  induction fuel with
  | zero => intro nodeId fl; rfl
  | succ fuel ih =>
    intro nodeId fl
    unfold addNegationForOperands
    simp only [h.deal, ih]

theorem fjStep_congr {t1 t2 : Tree} (h : SameView t1 t2) : fjStep t1 = fjStep t2 := by
  funext fl nodeId
  unfold fjStep
  simp only [h.deal, h.size, addNegation_congr h]

theorem findJoinNegations_congr {t1 t2 : Tree} (h : SameView t1 t2) :
    findJoinNegations t1 = findJoinNegations t2 := by
  unfold findJoinNegations
  simp only [fjStep_congr h, h.size, h.vols]

/-- since `add_negation_for_operands` de-aliases too (repo commit 9889e64), the whole
    transformation reads the tree only through `dealiased`, `size` and `volumes` -/
theorem transformNegatedJoins_congr {t1 t2 : Tree} (h : SameView t1 t2) :
    transformNegatedJoins t1 = transformNegatedJoins t2 := by
  unfold transformNegatedJoins
  simp only [findJoinNegations_congr h, buildSimplifiedTree_congr h]

/-! ### soundness with alias chains -/

/-- precondition for trees that may contain alias nodes and alias chains of any depth: no `False`
    node, and no double negation even through aliases -/
structure DMPreA (t : Tree) : Prop where
  noFls : ∀ i, t.get i ≠ .fls
  noDoubleNeg : ∀ i c, i < t.size → dealiased t i = .negated c → isNegated (dealiased t c) = false

theorem resolve_sameView {t : Tree} (s : Struct t) (hso : Sorted t) :
    SameView t (resolveTree t) :=
  ⟨fun n => (dealiased_resolve s hso n).symm, (size_resolve t).symm, rfl⟩

theorem resolve_dmPre {t : Tree} (s : Struct t) (hso : Sorted t) (pre : DMPreA t) :
    DMPre (resolveTree t) where
  noAlias := by intro i a; rw [get_resolve]; exact dealiased_not_alias s hso i a
  noFls := by
    intro i
    rw [get_resolve]
    unfold dealiased
    exact pre.noFls _
  noDoubleNeg := by
    intro i c hi hg
    rw [size_resolve] at hi
    rw [get_resolve] at hg ⊢
    exact pre.noDoubleNeg i c hi hg

/-- ★ soundness of `transform_negated_joins` on trees WITH alias nodes and alias chains of any
    depth: whenever it returns, the new tree satisfies the invariant, has the same number of
    volumes, every volume keeps its denotation, no negation of a join remains -/
theorem transformNegatedJoins_sound_alias {t t' : Tree} (s : Struct t) (hso : Sorted t)
    (pre : DMPreA t) (hsmall : 3 * t.size + 2 ≤ invalid)
    (h : transformNegatedJoins t = .ok t') (hvol : ∀ v ∈ t.volumes, v < t.size) :
    TreeInv t' ∧ t'.volumes.length = t.volumes.length ∧
    (∀ k (hk : k < t.volumes.length) (hk' : k < t'.volumes.length) σ,
      denote t' σ (t'.volumes[k]) = denote t σ (t.volumes[k])) ∧
    (∀ i u, i < t'.size → t'.get i = .negated u → IsLeaf (t'.get u)) := by
  have h' : transformNegatedJoins (resolveTree t) = .ok t' := by
    rw [← transformNegatedJoins_congr (resolve_sameView s hso)]; exact h
  rcases transformNegatedJoins_sound' (resolve_dmPre s hso pre) (resolve_struct s hso)
    (resolve_sorted s hso) (by simpa using hsmall) h' with ⟨h1, h2, h3, h4, _⟩
  refine ⟨h1, h2, fun k hk hk' σ => ?_, h4⟩
  have := h3 k hk hk' σ
  rw [this]
  exact denote_resolve s hso σ (hvol _ (List.getElem_mem hk))

theorem resolve_treeInv {t : Tree} (inv : TreeInv t) : TreeInv (resolveTree t) where
  struct := resolve_struct inv.struct inv.sorted
  sorted := resolve_sorted inv.struct inv.sorted
  map := by
    intro σ
    have hm : MapSound (resolveTree t) σ (denote t σ) := inv.map σ
    exact mapSound_congr (resolve_struct inv.struct inv.sorted)
      (fun i hi => (denote_resolve inv.struct inv.sorted σ (by simpa using hi)).symm) hm

/-- ★ definedness on trees with alias chains: under `DMPreA` the transformation always returns -/
theorem transformNegatedJoins_defined_alias {t : Tree} (inv : TreeInv t) (pre : DMPreA t)
    (hvol : ∀ v ∈ t.volumes, v < t.size) (hsmall : 3 * t.size + 2 ≤ invalid) :
    ∃ t', transformNegatedJoins t = .ok t' := by
  rw [transformNegatedJoins_congr (resolve_sameView inv.struct inv.sorted)]
  exact transformNegatedJoins_defined (resolve_dmPre inv.struct inv.sorted pre)
    (resolve_treeInv inv) (fun v hv => by rw [size_resolve]; exact hvol v hv)
    (by simpa using hsmall)

end CelerVerif.Csg
