/-
C14 helper lemmas (4): range / inverse range are monotone and mutually inverse (ℝ).
-/
import CelerVerif.Lemmas.CalcRange

namespace CelerVerif.Calc
open CelerVerif

theorem lerp_gt_left (xl yl xr yr x : ℝ) (h : xl < xr) (hy : yl < yr) (h1 : xl < x) :
    yl < lerp xl yl xr yr x := by
  rw [lerp_real]
  have hd : 0 < xr - xl := sub_pos.mpr h
  have hs : 0 < (yr - yl) / (xr - xl) := div_pos (sub_pos.mpr hy) hd
  have : 0 < (yr - yl) / (xr - xl) * (x - xl) := mul_pos hs (sub_pos.mpr h1)
  linarith

namespace XsGrid.WF
variable {d : XsGrid ℝ} (w : d.WF)
include w

omit w in
theorem en_zero : d.en 0 = Real.exp d.grid.front := by
  unfold XsGrid.en; rw [UGrid.WF.at_zero]

theorem en_last : d.en (d.size - 1) = Real.exp d.grid.back := by
  unfold XsGrid.en; rw [← w.gsize, w.grid.at_last]

/-- value of the range in the interior of the grid, with its bracket -/
theorem range_bin_bracket (hi : d.Incr) {e : ℝ} (he : 0 < e) (h1 : d.grid.front < Real.log e)
    (h2 : Real.log e < d.grid.back) :
    ∃ k, k = d.grid.find floorIdx (Real.log e) ∧ k + 1 < d.size ∧ d.en k ≤ e ∧ e < d.en (k + 1) ∧
      d.range floorIdx e = some (lerp (d.en k) (d.y k) (d.en (k + 1)) (d.y (k + 1)) e) ∧
      d.y k ≤ lerp (d.en k) (d.y k) (d.en (k + 1)) (d.y (k + 1)) e ∧
      lerp (d.en k) (d.y k) (d.en (k + 1)) (d.y (k + 1)) e < d.y (k + 1) := by
  obtain ⟨hb1, hb2, hk⟩ := w.grid.find_bracket (Real.log e) (le_of_lt h1) h2
  rw [w.gsize] at hk
  have hE1 : d.en (d.grid.find floorIdx (Real.log e)) ≤ e := ((log_bracket he _).1).mp hb1
  have hE2 : e < d.en (d.grid.find floorIdx (Real.log e) + 1) := ((log_bracket he _).2).mp hb2
  have hm := lerp_mem_Ico _ (d.y (d.grid.find floorIdx (Real.log e))) _
    (d.y (d.grid.find floorIdx (Real.log e) + 1)) e
    (w.en_strictMono (Nat.lt_succ_self _)) (hi _ hk) hE1 hE2
  exact ⟨_, rfl, hk, hE1, hE2, w.range_bin h1 h2, hm.1, hm.2⟩

omit w in
theorem exp_half_le_one {e : ℝ} (h : Real.log e ≤ d.grid.front) :
    Real.exp (1 / 2 * (Real.log e - d.grid.front)) ≤ 1 := by
  rw [Real.exp_le_one_iff]; linarith

/-- RangeCalculator is monotone in the energy -/
theorem range_mono (hp : d.Pos) (hi : d.Incr) {e1 e2 : ℝ} (h1 : 0 < e1) (h12 : e1 ≤ e2) :
    ∃ r1 r2, d.range floorIdx e1 = some r1 ∧ d.range floorIdx e2 = some r2 ∧ r1 ≤ r2 := by
  have hs := w.size_ge
  have h2 : 0 < e2 := lt_of_lt_of_le h1 h12
  have hl : Real.log e1 ≤ Real.log e2 := Real.log_le_log h1 h12
  have hy0 : 0 < d.y 0 := hp 0 (by omega)
  have hlast : d.y 0 ≤ d.y (d.size - 1) := hi.mono (by omega) (by omega)
  by_cases a1 : Real.log e1 ≤ d.grid.front
  · have hr1 : d.y 0 * Real.exp (1 / 2 * (Real.log e1 - d.grid.front)) ≤ d.y 0 := by
      have := mul_le_mul_of_nonneg_left (exp_half_le_one a1) (le_of_lt hy0)
      linarith
    by_cases a2 : Real.log e2 ≤ d.grid.front
    · refine ⟨_, _, w.range_below a1, w.range_below a2, ?_⟩
      apply mul_le_mul_of_nonneg_left _ (le_of_lt hy0)
      apply Real.exp_le_exp.mpr; linarith
    · by_cases b2 : d.grid.back ≤ Real.log e2
      · exact ⟨_, _, w.range_below a1, w.range_above b2, le_trans hr1 hlast⟩
      · obtain ⟨k, _, hk, _, _, hr, hlo, _⟩ :=
          w.range_bin_bracket hi h2 (not_le.mp a2) (not_le.mp b2)
        refine ⟨_, _, w.range_below a1, hr, le_trans hr1 (le_trans ?_ hlo)⟩
        exact hi.mono (by omega) (by omega)
  · by_cases b1 : d.grid.back ≤ Real.log e1
    · exact ⟨_, _, w.range_above b1, w.range_above (le_trans b1 hl), le_refl _⟩
    · obtain ⟨k1, hk1def, hk1, hE1a, hE1b, hr1, hlo1, hhi1⟩ :=
        w.range_bin_bracket hi h1 (not_le.mp a1) (not_le.mp b1)
      by_cases b2 : d.grid.back ≤ Real.log e2
      · refine ⟨_, _, hr1, w.range_above b2, le_of_lt (lt_of_lt_of_le hhi1 ?_)⟩
        exact hi.mono (by omega) (by omega)
      · have a2 : d.grid.front < Real.log e2 := lt_of_lt_of_le (not_le.mp a1) hl
        obtain ⟨k2, hk2def, hk2, hE2a, hE2b, hr2, hlo2, hhi2⟩ :=
          w.range_bin_bracket hi h2 a2 (not_le.mp b2)
        refine ⟨_, _, hr1, hr2, ?_⟩
        have hk12 : k1 ≤ k2 := by
          rw [hk1def, hk2def]; exact w.grid.find_mono _ _ hl
        rcases Nat.lt_or_eq_of_le hk12 with hlt | heq
        · have := hi.mono (show k1 + 1 ≤ k2 by omega) (by omega)
          linarith
        · subst heq
          exact lerp_mono _ _ _ _ _ _ (w.en_strictMono (Nat.lt_succ_self _))
            (le_of_lt (hi _ hk1)) h12

/-- ★ inverse-range ∘ range = id on and below the table -/
theorem invRange_range (hp : d.Pos) (hi : d.Incr) {e : ℝ} (he : 0 < e)
    (hb : Real.log e ≤ d.grid.back) :
    ∃ r, d.range floorIdx e = some r ∧ 0 < r ∧ d.invRange r = some e := by
  have hs := w.size_ge
  have hy0 : 0 < d.y 0 := hp 0 (by omega)
  rcases lt_trichotomy (Real.log e) d.grid.front with a | a | a
  · -- below the grid
    refine ⟨_, w.range_below (le_of_lt a), mul_pos hy0 (Real.exp_pos _), ?_⟩
    have hlt : Real.exp (1 / 2 * (Real.log e - d.grid.front)) < 1 := by
      rw [Real.exp_lt_one_iff]; linarith
    have hr : d.y 0 * Real.exp (1 / 2 * (Real.log e - d.grid.front)) < d.y 0 := by
      have := mul_lt_mul_of_pos_left hlt hy0
      linarith
    rw [w.invRange_below hr]
    congr 1
    have hq : d.y 0 * Real.exp (1 / 2 * (Real.log e - d.grid.front)) / d.y 0
        = Real.exp (1 / 2 * (Real.log e - d.grid.front)) := by field_simp
    rw [hq, ← Real.exp_add, ← Real.exp_add]
    have : d.grid.front + (1 / 2 * (Real.log e - d.grid.front)
        + 1 / 2 * (Real.log e - d.grid.front)) = Real.log e := by ring
    rw [this, Real.exp_log he]
  · -- exactly the first knot
    have hr : d.range floorIdx e = some (d.y 0) := by
      rw [w.range_below (le_of_eq a), a]; simp
    refine ⟨_, hr, hy0, ?_⟩
    have hlt : d.y 0 < d.y (d.size - 1) := hi.strict (by omega) (by omega)
    obtain ⟨k, hk, hk1, hk2, hinv⟩ := w.invRange_bin hi (le_refl _) hlt
    have hk0 : k = 0 :=
      hi.bin_unique hk (show 0 + 1 < d.size by omega) hk1 hk2 (le_refl _) (hi 0 (by omega))
    subst hk0
    rw [hinv, lerp_left, en_zero, ← a, Real.exp_log he]
  · rcases lt_or_eq_of_le hb with b | b
    · obtain ⟨k, _, hk, hE1, hE2, hr, hlo, hhi⟩ := w.range_bin_bracket hi he a b
      refine ⟨_, hr, lt_of_lt_of_le (hp k (by omega)) hlo, ?_⟩
      have h0 : d.y 0 ≤ lerp (d.en k) (d.y k) (d.en (k + 1)) (d.y (k + 1)) e :=
        le_trans (hi.mono (by omega) (by omega)) hlo
      have hl : lerp (d.en k) (d.y k) (d.en (k + 1)) (d.y (k + 1)) e < d.y (d.size - 1) :=
        lt_of_lt_of_le hhi (hi.mono (by omega) (by omega))
      obtain ⟨k', hk', hk1, hk2, hinv⟩ := w.invRange_bin hi h0 hl
      have : k' = k := hi.bin_unique hk' hk hk1 hk2 hlo hhi
      subst this
      rw [hinv, lerp_inverse _ _ _ _ _ (ne_of_lt (w.en_strictMono (Nat.lt_succ_self _)))
        (ne_of_lt (hi _ hk))]
    · refine ⟨_, w.range_above (le_of_eq b.symm), hp _ (by omega), ?_⟩
      rw [w.invRange_above hi (le_refl _), ← b, Real.exp_log he]

/-- value of the inverse range for `0 ≤ r`: non-negative, at most the last grid energy -/
theorem invRange_bounds (hp : d.Pos) (hi : d.Incr) {r : ℝ} (hr : 0 ≤ r) :
    ∃ e, d.invRange r = some e ∧ 0 ≤ e ∧ e ≤ Real.exp d.grid.back := by
  have hs := w.size_ge
  have hy0 : 0 < d.y 0 := hp 0 (by omega)
  by_cases a : r < d.y 0
  · refine ⟨_, w.invRange_below a, by positivity, ?_⟩
    have hq0 : 0 ≤ r / d.y 0 := div_nonneg hr (le_of_lt hy0)
    have hq1 : r / d.y 0 ≤ 1 := by rw [div_le_one hy0]; exact le_of_lt a
    have : r / d.y 0 * (r / d.y 0) ≤ 1 := by nlinarith
    have hf : Real.exp d.grid.front ≤ Real.exp d.grid.back :=
      Real.exp_le_exp.mpr (le_of_lt w.grid.lt)
    have := mul_le_mul_of_nonneg_left this (le_of_lt (Real.exp_pos d.grid.front))
    linarith
  · by_cases b : d.y (d.size - 1) ≤ r
    · exact ⟨_, w.invRange_above hi b, le_of_lt (Real.exp_pos _), le_refl _⟩
    · obtain ⟨k, hk, hk1, hk2, hinv⟩ := w.invRange_bin hi (not_lt.mp a) (not_le.mp b)
      have hm := lerp_mem_Ico (d.y k) (d.en k) (d.y (k + 1)) (d.en (k + 1)) r (hi _ hk)
        (w.en_strictMono (Nat.lt_succ_self _)) hk1 hk2
      refine ⟨_, hinv, le_trans (le_of_lt (en_pos k)) hm.1, ?_⟩
      rw [← w.en_last]
      exact le_trans (le_of_lt hm.2) (w.en_mono (by omega))

/-- InverseRangeCalculator is monotone -/
theorem invRange_mono (hp : d.Pos) (hi : d.Incr) {r1 r2 : ℝ} (h1 : 0 ≤ r1) (h12 : r1 ≤ r2) :
    ∃ e1 e2, d.invRange r1 = some e1 ∧ d.invRange r2 = some e2 ∧ e1 ≤ e2 := by
  have hs := w.size_ge
  have hy0 : 0 < d.y 0 := hp 0 (by omega)
  have h2 : 0 ≤ r2 := le_trans h1 h12
  have hfront : Real.exp d.grid.front ≤ Real.exp d.grid.back :=
    Real.exp_le_exp.mpr (le_of_lt w.grid.lt)
  by_cases a1 : r1 < d.y 0
  · have hq0 : 0 ≤ r1 / d.y 0 := div_nonneg h1 (le_of_lt hy0)
    have hq1 : r1 / d.y 0 ≤ 1 := by rw [div_le_one hy0]; exact le_of_lt a1
    have hsq : r1 / d.y 0 * (r1 / d.y 0) ≤ 1 := by nlinarith
    have he1 : Real.exp d.grid.front * (r1 / d.y 0 * (r1 / d.y 0)) ≤ Real.exp d.grid.front := by
      have := mul_le_mul_of_nonneg_left hsq (le_of_lt (Real.exp_pos d.grid.front))
      linarith
    by_cases a2 : r2 < d.y 0
    · refine ⟨_, _, w.invRange_below a1, w.invRange_below a2, ?_⟩
      apply mul_le_mul_of_nonneg_left _ (le_of_lt (Real.exp_pos _))
      have : r1 / d.y 0 ≤ r2 / d.y 0 := div_le_div_of_nonneg_right h12 (le_of_lt hy0)
      exact mul_le_mul this this hq0 (le_trans hq0 this)
    · by_cases b2 : d.y (d.size - 1) ≤ r2
      · exact ⟨_, _, w.invRange_below a1, w.invRange_above hi b2, le_trans he1 hfront⟩
      · obtain ⟨k, hk, hk1, hk2, hinv⟩ := w.invRange_bin hi (not_lt.mp a2) (not_le.mp b2)
        have hm := lerp_mem_Ico (d.y k) (d.en k) (d.y (k + 1)) (d.en (k + 1)) r2 (hi _ hk)
          (w.en_strictMono (Nat.lt_succ_self _)) hk1 hk2
        refine ⟨_, _, w.invRange_below a1, hinv, le_trans he1 (le_trans ?_ hm.1)⟩
        rw [← en_zero]; exact w.en_mono (Nat.zero_le _)
  · by_cases b1 : d.y (d.size - 1) ≤ r1
    · exact ⟨_, _, w.invRange_above hi b1, w.invRange_above hi (le_trans b1 h12), le_refl _⟩
    · obtain ⟨k1, hk1, hk1a, hk1b, hinv1⟩ := w.invRange_bin hi (not_lt.mp a1) (not_le.mp b1)
      have hm1 := lerp_mem_Ico (d.y k1) (d.en k1) (d.y (k1 + 1)) (d.en (k1 + 1)) r1 (hi _ hk1)
        (w.en_strictMono (Nat.lt_succ_self _)) hk1a hk1b
      by_cases b2 : d.y (d.size - 1) ≤ r2
      · refine ⟨_, _, hinv1, w.invRange_above hi b2, le_of_lt (lt_of_lt_of_le hm1.2 ?_)⟩
        rw [← w.en_last]; exact w.en_mono (by omega)
      · have a2 : d.y 0 ≤ r2 := le_trans (not_lt.mp a1) h12
        obtain ⟨k2, hk2, hk2a, hk2b, hinv2⟩ := w.invRange_bin hi a2 (not_le.mp b2)
        have hm2 := lerp_mem_Ico (d.y k2) (d.en k2) (d.y (k2 + 1)) (d.en (k2 + 1)) r2 (hi _ hk2)
          (w.en_strictMono (Nat.lt_succ_self _)) hk2a hk2b
        refine ⟨_, _, hinv1, hinv2, ?_⟩
        have hk12 : k1 ≤ k2 := by
          by_contra hh
          have := hi.mono (show k2 + 1 ≤ k1 by omega) (by omega)
          linarith
        rcases Nat.lt_or_eq_of_le hk12 with hlt | heq
        · have := w.en_mono (show k1 + 1 ≤ k2 by omega)
          linarith [hm1.2, hm2.1]
        · subst heq
          exact lerp_mono _ _ _ _ _ _ (hi _ hk1)
            (le_of_lt (w.en_strictMono (Nat.lt_succ_self _))) h12

/-- ★ range ∘ inverse-range = id for `0 < r ≤ r_max` -/
theorem range_invRange (hp : d.Pos) (hi : d.Incr) {r : ℝ} (hr : 0 < r)
    (hmax : r ≤ d.y (d.size - 1)) :
    ∃ e, d.invRange r = some e ∧ 0 < e ∧ d.range floorIdx e = some r := by
  have hs := w.size_ge
  have hy0 : 0 < d.y 0 := hp 0 (by omega)
  by_cases a : r < d.y 0
  · have hq0 : 0 < r / d.y 0 := div_pos hr hy0
    have hq1 : r / d.y 0 < 1 := by rw [div_lt_one hy0]; exact a
    have hqq : 0 < r / d.y 0 * (r / d.y 0) := mul_pos hq0 hq0
    have hepos : 0 < Real.exp d.grid.front * (r / d.y 0 * (r / d.y 0)) :=
      mul_pos (Real.exp_pos _) hqq
    refine ⟨_, w.invRange_below a, hepos, ?_⟩
    have hlog : Real.log (Real.exp d.grid.front * (r / d.y 0 * (r / d.y 0)))
        = d.grid.front + (Real.log (r / d.y 0) + Real.log (r / d.y 0)) := by
      rw [Real.log_mul (Real.exp_pos _).ne' hqq.ne', Real.log_exp,
        Real.log_mul hq0.ne' hq0.ne']
    have hneg : Real.log (r / d.y 0) < 0 := Real.log_neg hq0 hq1
    rw [w.range_below (by rw [hlog]; linarith), hlog]
    have : 1 / 2 * (d.grid.front + (Real.log (r / d.y 0) + Real.log (r / d.y 0)) - d.grid.front)
        = Real.log (r / d.y 0) := by ring
    rw [this, Real.exp_log hq0]
    congr 1
    field_simp
  · rcases lt_or_eq_of_le hmax with b | b
    · obtain ⟨k, hk, hk1, hk2, hinv⟩ := w.invRange_bin hi (not_lt.mp a) b
      have hen := w.en_strictMono (Nat.lt_succ_self k)
      have hm := lerp_mem_Ico (d.y k) (d.en k) (d.y (k + 1)) (d.en (k + 1)) r (hi _ hk) hen hk1 hk2
      set e := lerp (d.y k) (d.en k) (d.y (k + 1)) (d.en (k + 1)) r with hedef
      have hepos : 0 < e := lt_of_lt_of_le (en_pos k) hm.1
      refine ⟨e, hinv, hepos, ?_⟩
      have hb1 : d.grid.at k ≤ Real.log e := ((log_bracket hepos k).1).mpr hm.1
      have hb2 : Real.log e < d.grid.at (k + 1) := ((log_bracket hepos (k + 1)).2).mpr hm.2
      have hfind : d.grid.find floorIdx (Real.log e) = k := w.grid.find_unique _ k (by rw [w.gsize]; exact hk) hb1 hb2
      have hback : Real.log e < d.grid.back := by
        rw [← w.grid.at_last, w.gsize]
        exact lt_of_lt_of_le hb2 (w.grid.at_mono (by omega))
      have hinvl : lerp (d.en k) (d.y k) (d.en (k + 1)) (d.y (k + 1)) e = r := by
        rw [hedef]
        exact lerp_inverse _ _ _ _ _ (ne_of_lt (hi _ hk)) (ne_of_lt hen)
      by_cases hf : d.grid.front < Real.log e
      · rw [w.range_bin hf hback, hfind, hinvl]
      · -- only possible at the first knot
        have hfe : Real.log e ≤ d.grid.front := not_lt.mp hf
        have hk0 : k = 0 := by
          by_contra hne
          have := w.grid.at_strictMono (show 0 < k by omega)
          rw [UGrid.WF.at_zero] at this
          linarith
        subst hk0
        have hre : r = d.y 0 := by
          by_contra hne
          have hgt : d.y 0 < r := lt_of_le_of_ne hk1 (Ne.symm hne)
          have := lerp_gt_left (d.y 0) (d.en 0) (d.y 1) (d.en 1) r (hi 0 hk) hen hgt
          have hlt : d.en 0 < e := this
          have h3 : d.grid.at 0 < Real.log e := by
            rw [← log_en (d := d) 0]; exact Real.log_lt_log (en_pos 0) hlt
          rw [UGrid.WF.at_zero] at h3
          linarith
        have hlogfront : Real.log e = d.grid.front := by
          rw [UGrid.WF.at_zero] at hb1; exact le_antisymm hfe hb1
        rw [w.range_below hfe, hlogfront, hre]
        simp
    · refine ⟨_, w.invRange_above hi (le_of_eq b.symm), Real.exp_pos _, ?_⟩
      rw [w.range_above (by rw [Real.log_exp]), b]

end XsGrid.WF

end CelerVerif.Calc
