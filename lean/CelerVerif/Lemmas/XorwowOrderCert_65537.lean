/- kernel-checked inverse certificate: z^((2^160-1)/65537) + 1 is a unit modulo P -/
import CelerVerif.Lemmas.XorwowPeriod

namespace CelerVerif.Xorwow

theorem orderCert_65537 : orderCert 65537 = true := by decide +kernel

end CelerVerif.Xorwow
