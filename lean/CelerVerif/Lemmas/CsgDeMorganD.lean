/-
C10 helper lemmas, part 8d (De Morgan): the first pass only marks leaves, the loops, and the
main statement `transformNegatedJoins_sound`.
-/
import CelerVerif.Lemmas.CsgDeMorganC

namespace CelerVerif.Csg

theorem foldE_inv {α β ε : Type} (f : α → β → Except ε α) (P : α → Prop) (Q : β → Prop)
    (hstep : ∀ a b a', P a → Q b → f a b = .ok a' → P a') :
    ∀ (l : List β) (a a' : α), P a → (∀ b ∈ l, Q b) → foldE f l a = .ok a' → P a' := by
  intro l
  induction l with
  | nil => intro a a' hp _ h; simp [foldE] at h; subst h; exact hp
  | cons b bs ih =>
    intro a a' hp hq h
    unfold foldE at h
    cases hf : f a b with
    | error e => rw [hf] at h; cases h
    | ok a1 =>
      rw [hf] at h
      exact ih a1 a' (hstep a b a1 hp (hq b (by simp)) hf)
        (fun x hx => hq x (List.mem_cons_of_mem _ hx)) h

/-! ### first pass: `new_negated_nodes_` only marks leaves -/

theorem addNegation_flagsOk {t : Tree} (pre : DMPre t) : ∀ (fuel nodeId : Nat) (fl fl' : DMFlags),
    FlagsOk t fl → addNegationForOperands t fuel nodeId fl = .ok fl' → FlagsOk t fl' := by
  intro fuel
  induction fuel with
  | zero => intro nodeId fl fl' _ h; simp [addNegationForOperands] at h
  | succ fuel ih =>
    intro nodeId fl fl' hp h
    unfold addNegationForOperands at h
    rw [dealiased_eq pre] at h
    cases hg : t.get nodeId with
    | joined op operands =>
      rw [hg] at h
      simp only at h
      refine foldE_inv _ (FlagsOk t) (fun _ => True) ?_ operands fl fl' hp (fun _ _ => trivial) h
      intro a b a' hpa _ hstep
      simp only [dealiased_eq pre] at hstep
      by_cases hj : isJoined (t.get b) = true
      · rw [if_pos hj] at hstep
        exact ih b { a with negJoin := setFlag a.negJoin b } a' (fun i hi => hpa i hi) hstep
      · rw [if_neg hj] at hstep
        by_cases hn : (!isNegated (t.get b)) = true
        · rw [if_pos hn] at hstep
          cases hstep
          intro i hi
          simp only [setFlag, Bool.or_eq_true, decide_eq_true_eq] at hi
          rcases hi with rfl | hi
          · exact ⟨by simpa using hj, by simpa using hn⟩
          · exact hpa i hi
        · rw [if_neg hn] at hstep
          cases hstep
          exact hpa
    | tru | fls | aliased _ | negated _ | surface _ => rw [hg] at h; cases h

theorem foldl_setParent_newNeg (f : DMFlags → Nat → DMFlags)
    (hf : ∀ fl o, (f fl o).newNeg = fl.newNeg) :
    ∀ (ns : List Nat) (fl : DMFlags), (ns.foldl f fl).newNeg = fl.newNeg := by
  intro ns
  induction ns with
  | nil => intro fl; rfl
  | cons o os ih => intro fl; rw [List.foldl_cons, ih, hf]

theorem fjStep_flagsOk {t : Tree} (pre : DMPre t) (fl fl' : DMFlags) (nodeId : Nat)
    (hp : FlagsOk t fl) (h : fjStep t fl nodeId = .ok fl') : FlagsOk t fl' := by
  unfold fjStep at h
  rw [dealiased_eq pre] at h
  cases hg : t.get nodeId with
  | negated c =>
    rw [hg] at h
    simp only at h
    split at h
    · exact addNegation_flagsOk pre _ _
        { ((fl.setParent c nodeId).setParent c 1) with
          negJoin := setFlag ((fl.setParent c nodeId).setParent c 1).negJoin c } fl'
        (fun i hi => hp i hi) h
    · cases h; exact fun i hi => hp i hi
  | joined op ns =>
    rw [hg] at h
    cases h
    intro i hi
    rw [foldl_setParent_newNeg (fun fl o => (fl.setParent o nodeId).setParent o 1)
      (fun _ _ => rfl)] at hi
    exact hp i hi
  | tru | fls | aliased _ | surface _ => rw [hg] at h; cases h; exact hp

theorem findJoinNegations_flagsOk {t : Tree} (pre : DMPre t) {fl : DMFlags}
    (h : findJoinNegations t = .ok fl) : FlagsOk t fl := by
  unfold findJoinNegations at h
  simp only at h
  cases hf : foldE (fjStep t) (List.range t.size)
      { newNeg := fun _ => false, negJoin := fun _ => false,
        parents := Array.replicate (t.size * t.size) false, size := t.size } with
  | error e => rw [hf] at h; cases h
  | ok fl1 =>
    rw [hf] at h
    cases h
    have h1 : FlagsOk t fl1 :=
      foldE_inv _ (FlagsOk t) (fun _ => True)
        (fun a b a' hpa _ hs => fjStep_flagsOk pre a a' b hpa hs) _ _ _
        (fun i hi => by cases hi) (fun _ _ => trivial) hf
    intro i hi
    rw [foldl_setParent_newNeg (fun fl v => fl.setParent v 0) (fun _ _ => rfl)] at hi
    exact h1 i hi

/-! ### second pass -/

theorem dmLoop_inv {t : Tree} (pre : DMPre t) (hso : Sorted t) (s : Struct t) {fl : DMFlags}
    (hfl : FlagsOk t fl) : ∀ (l : List Nat) (st st' : DMState), DMInv t st.result st.tr →
    (∀ i ∈ l, i < t.size) → st.result.size + 3 * l.length ≤ invalid →
    foldE (dmStep t fl) l st = .ok st' → DMInv t st'.result st'.tr := by
  intro l
  induction l with
  | nil => intro st st' h _ _ hf; simp [foldE] at hf; subst hf; exact h
  | cons i is ih =>
    intro st st' h hl hsz hf
    unfold foldE at hf
    cases hs : dmStep t fl st i with
    | error e => rw [hs] at hf; cases hf
    | ok st1 =>
      rw [hs] at hf
      simp only [List.length_cons] at hsz
      have h1 := dmStep_inv pre hso s h hfl (hl i (by simp)) (by omega) hs
      exact ih st1 st' h1.1 (fun x hx => hl x (List.mem_cons_of_mem _ hx)) (by omega) hf

theorem empty_built : Built Tree.empty where
  inv := empty_inv
  exact := by
    intro e he
    simp [Tree.empty] at he
    rcases he with rfl | rfl | rfl | rfl
    · left; rfl
    · right; left; exact ⟨rfl, rfl⟩
    · left; rfl
    · right; right; exact ⟨rfl, rfl⟩
  negOk := by
    intro i u hi hg
    have : i = 0 ∨ i = 1 := by simp [Tree.empty, Tree.size] at hi; omega
    rcases this with rfl | rfl
    · simp [Tree.empty, Tree.get] at hg
    · simp [Tree.empty, Tree.get] at hg; subst hg; trivial
  hasFls := by decide
  novol := trivial

theorem dmVolumes_spec (tr : TrMap) : ∀ (vs : List Nat) (r r' : Tree),
    dmVolumes tr vs r = .ok r' →
    r'.nodes = r.nodes ∧ r'.ids = r.ids ∧
    r'.volumes = r.volumes ++ vs.map (fun v => (tr v).equivalent) ∧
    ∀ v ∈ vs, (tr v).equivalent ≠ invalid := by
  intro vs
  induction vs with
  | nil => intro r r' h; simp [dmVolumes] at h; subst h; simp
  | cons v vs ih =>
    intro r r' h
    unfold dmVolumes at h
    split at h
    · cases h
    · rename_i hv
      rcases ih _ r' h with ⟨h1, hi, h2, h3⟩
      refine ⟨h1, hi, ?_, ?_⟩
      · rw [h2]; simp [Tree.insertVolume]
      · intro x hx
        rcases List.mem_cons.1 hx with rfl | hx
        · exact hv
        · exact h3 x hx

/-- the invariant does not mention the volume list -/
theorem treeInv_of_nodes_ids {a b : Tree} (hn : a.nodes = b.nodes) (hi : a.ids = b.ids)
    (h : TreeInv b) : TreeInv a := by
  rcases a with ⟨an, ai, av⟩
  rcases b with ⟨bn, bi, bv⟩
  simp only at hn hi
  subst hn; subst hi
  exact ⟨⟨h.struct.base0, h.struct.base1, h.struct.size2, h.struct.small, h.struct.closed,
    h.struct.idsRange, h.struct.keysClosed⟩, h.sorted, h.map⟩

/-- denotation and node access only depend on the node vector -/
theorem denote_of_nodes {a b : Tree} (h : a.nodes = b.nodes) (σ : Nat → Bool) (n : Nat) :
    denote a σ n = denote b σ n := by unfold denote; rw [h]

theorem get_of_nodes {a b : Tree} (h : a.nodes = b.nodes) (n : Nat) : a.get n = b.get n := by
  unfold Tree.get; rw [h]

/-- ★ soundness of `transform_negated_joins`: whenever it returns (the model's `.ok`; `.error`
    stands for the release-build undefined behaviour after a compiled-out assertion), the new tree
    satisfies the tree invariant, has as many volumes as the original, volume `k` of the new tree
    denotes exactly what volume `k` of the original tree denotes under every sense assignment,
    and every negation in the new tree points at a surface or at `True`. -/
theorem transformNegatedJoins_sound' {t t' : Tree} (pre : DMPre t) (hstruct : Struct t)
    (hsorted : Sorted t) (hsmall : 3 * t.size + 2 ≤ invalid)
    (h : transformNegatedJoins t = .ok t') :
    TreeInv t' ∧ t'.volumes.length = t.volumes.length ∧
    (∀ k (hk : k < t.volumes.length) (hk' : k < t'.volumes.length) σ,
      denote t' σ (t'.volumes[k]) = denote t σ (t.volumes[k])) ∧
    (∀ i u, i < t'.size → t'.get i = .negated u → IsLeaf (t'.get u)) ∧
    (∀ x ∈ t'.volumes, x < t'.size) := by
  unfold transformNegatedJoins at h
  cases hfj : findJoinNegations t with
  | error e => rw [hfj] at h; cases h
  | ok fl =>
    rw [hfj] at h
    simp only at h
    unfold buildSimplifiedTree at h
    cases hl : foldE (dmStep t fl) (List.range t.size) ⟨Tree.empty, fun _ => {}⟩ with
    | error e => rw [hl] at h; cases h
    | ok st =>
      rw [hl] at h
      simp only at h
      have h0 : DMInv t Tree.empty (fun _ => ({} : Matching)) :=
        ⟨empty_built, fun i => trOk_default t Tree.empty i, rfl⟩
      have hinv := dmLoop_inv pre hsorted hstruct (findJoinNegations_flagsOk pre hfj)
        (List.range t.size) ⟨Tree.empty, fun _ => {}⟩ st h0
        (fun i hi => List.mem_range.1 hi)
        (by simp only [List.length_range]; show 2 + 3 * t.size ≤ invalid; omega) hl
      rcases dmVolumes_spec st.tr t.volumes st.result t' h with ⟨hn, hids, hv, hvalid⟩
      rw [hinv.vol, List.nil_append] at hv
      have hsz : t'.size = st.result.size := by unfold Tree.size; rw [hn]
      refine ⟨?_, by rw [hv, List.length_map], ?_, ?_, ?_⟩
      · exact treeInv_of_nodes_ids hn hids hinv.built.inv
      · intro k hk hk' σ
        have : t'.volumes[k] = (st.tr (t.volumes[k])).equivalent := by
          simp only [hv, List.getElem_map]
        rw [this, denote_of_nodes hn]
        have hmem : t.volumes[k] ∈ t.volumes := List.getElem_mem hk
        exact (equivalent_sound (hinv.tr _) (hvalid _ hmem)).2 σ
      · intro i u hi hg
        rw [get_of_nodes hn] at hg ⊢
        exact hinv.built.negOk i u (by rw [← hsz]; exact hi) hg
      · intro x hx
        rw [hv, List.mem_map] at hx
        rcases hx with ⟨v0, hv0, rfl⟩
        rw [hsz]
        exact (equivalent_sound (hinv.tr _) (hvalid _ hv0)).1

theorem transformNegatedJoins_sound {t t' : Tree} (pre : DMPre t) (inv : TreeInv t)
    (hsmall : 3 * t.size + 2 ≤ invalid)
    (h : transformNegatedJoins t = .ok t') :
    TreeInv t' ∧ t'.volumes.length = t.volumes.length ∧
    (∀ k (hk : k < t.volumes.length) (hk' : k < t'.volumes.length) σ,
      denote t' σ (t'.volumes[k]) = denote t σ (t.volumes[k])) ∧
    (∀ i u, i < t'.size → t'.get i = .negated u → IsLeaf (t'.get u)) :=
  have := transformNegatedJoins_sound' pre inv.struct inv.sorted hsmall h
  ⟨this.1, this.2.1, this.2.2.1, this.2.2.2.1⟩

/-- the executable precondition check of the drivers implies the propositional precondition -/
theorem dmPre_of_precondition {t : Tree} (h : demorganPrecondition t = true) : DMPre t := by
  unfold demorganPrecondition at h
  rw [List.all_eq_true] at h
  have key : ∀ i, i < t.size → (match t.get i with
      | .aliased _ => false | .fls => false | .negated c => !isNegated (t.get c) | _ => true) = true := by
    intro i hi
    have hm : t.get i ∈ t.nodes := by
      unfold Tree.get
      rw [List.getD_eq_getElem?_getD, List.getElem?_eq_getElem (by simpa [Tree.size] using hi)]
      exact List.getElem_mem _
    exact h _ hm
  have out : ∀ i, ¬ i < t.size → t.get i = .tru := by
    intro i hi
    unfold Tree.get
    rw [List.getD_eq_getElem?_getD, List.getElem?_eq_none (by simpa [Tree.size] using hi)]
    rfl
  refine ⟨fun i a hg => ?_, fun i hg => ?_, fun i c hi hg => ?_⟩
  · by_cases hi : i < t.size
    · have := key i hi; rw [hg] at this; cases this
    · rw [out i hi] at hg; cases hg
  · by_cases hi : i < t.size
    · have := key i hi; rw [hg] at this; cases this
    · rw [out i hi] at hg; cases hg
  · have := key i hi; rw [hg] at this; simpa using this

end CelerVerif.Csg
