/- Helper lemmas for C18: linear scans (min_element, predicates), integer helpers. -/
import CelerVerif.Lemmas.AlgoOrder

namespace CelerVerif.Algo
variable {α : Type} [Inhabited α]

/-! ### min_element -/

/-- invariant of the `min_element` loop: `result` is the first minimal index of `[0, it)` -/
theorem minElementLoop_spec (lt : α → α → Bool) (h : StrictWeakOrder lt) (a : Array α)
    (result it last : Nat) (hr : result < it) (hit : it ≤ last)
    (hmin : ∀ i, i < it → lt a[i]! a[result]! = false)
    (hfirst : ∀ i, i < result → lt a[result]! a[i]! = true) :
    minElementLoop lt a result it last < last ∧
    (∀ i, i < last → lt a[i]! a[minElementLoop lt a result it last]! = false) ∧
    (∀ i, i < minElementLoop lt a result it last →
      lt a[minElementLoop lt a result it last]! a[i]! = true) := by
  fun_induction minElementLoop lt a result it last with
  | case1 result it hlt ih =>
    by_cases hc : lt a[it]! a[result]! = true
    · simp only [hc, ↓reduceIte, ↓reduceDIte] at ih ⊢
      apply ih (by omega) (by omega)
      · intro i hi
        by_cases hie : i = it
        · subst hie; exact h.irrefl _
        · exact h.le_trans (h.le_of_lt hc) (hmin i (by omega))
      · intro i hi
        by_cases hir : i = result
        · subst hir; exact hc
        · by_cases hlt' : i < result
          · exact h.trans _ _ _ hc (hfirst i hlt')
          · exact h.lt_of_lt_of_le hc (hmin i (by omega))
    · have hc' : lt a[it]! a[result]! = false := by simpa using hc
      simp only [hc', Bool.false_eq_true, ↓reduceIte, ↓reduceDIte] at ih ⊢
      apply ih (by omega) (by omega)
      · intro i hi
        by_cases hie : i = it
        · subst hie; exact hc'
        · exact hmin i (by omega)
      · exact hfirst
  | case2 result it hge =>
    have : it = last := by omega
    subst this
    exact ⟨hr, hmin, hfirst⟩

/-! ### all_of / any_of / all_adjacent -/

theorem allOfLoop_spec (p : α → Bool) (a : Array α) (it last : Nat) :
    allOfLoop p a it last = true ↔ ∀ i, it ≤ i → i < last → p a[i]! = true := by
  fun_induction allOfLoop p a it last with
  | case1 it hlt hc =>
    simp only [Bool.false_eq_true, false_iff]
    intro hall
    have := hall it (Nat.le_refl _) hlt
    simp [this] at hc
  | case2 it hlt hc ih =>
    rw [ih]
    constructor
    · intro hall i h1 h2
      by_cases hie : i = it
      · subst hie; simpa using hc
      · exact hall i (by omega) h2
    · intro hall i h1 h2; exact hall i (by omega) h2
  | case3 it hge => simp; intro i h1 h2; omega

theorem anyOfLoop_spec (p : α → Bool) (a : Array α) (it last : Nat) :
    anyOfLoop p a it last = true ↔ ∃ i, it ≤ i ∧ i < last ∧ p a[i]! = true := by
  fun_induction anyOfLoop p a it last with
  | case1 it hlt hc => simp only [true_iff]; exact ⟨it, Nat.le_refl _, hlt, hc⟩
  | case2 it hlt hc ih =>
    rw [ih]
    constructor
    · rintro ⟨i, h1, h2, h3⟩; exact ⟨i, by omega, h2, h3⟩
    · rintro ⟨i, h1, h2, h3⟩
      by_cases hie : i = it
      · subst hie; simp [h3] at hc
      · exact ⟨i, by omega, h2, h3⟩
  | case3 it hge => simp; intro i h1 h2; omega

theorem allAdjacentLoop_spec (p : α → α → Bool) (a : Array α) (prev : α) (it last : Nat)
    (hit : 0 < it) (hprev : prev = a[it - 1]!) :
    allAdjacentLoop p a prev it last = true ↔
      ∀ i, it ≤ i → i < last → p a[i - 1]! a[i]! = true := by
  fun_induction allAdjacentLoop p a prev it last with
  | case1 prev it hlt hc =>
    simp only [Bool.false_eq_true, false_iff]
    intro hall
    have := hall it (Nat.le_refl _) hlt
    rw [← hprev] at this
    simp [this] at hc
  | case2 prev it hlt hc ih =>
    rw [ih (by omega) (by simp)]
    constructor
    · intro hall i h1 h2
      by_cases hie : i = it
      · subst hie; rw [← hprev]; simpa using hc
      · exact hall i (by omega) h2
    · intro hall i h1 h2; exact hall i (by omega) h2
  | case3 prev it hge => simp; intro i h1 h2; omega

/-! ### ceil_div, LocalWorkCalculator, ipow -/

theorem ceilDiv_mul_ge (t b : Nat) (hb : 0 < b) : t ≤ ceilDiv t b * b := by
  unfold ceilDiv
  have h1 := Nat.div_add_mod t b
  have h2 := Nat.mod_lt t hb
  split
  · rw [Nat.add_mul, Nat.one_mul, Nat.mul_comm]; omega
  · rename_i hz
    have : t % b = 0 := by simpa using hz
    rw [Nat.add_zero, Nat.mul_comm]; omega

theorem ceilDiv_minimal (t b q : Nat) (hq : t ≤ q * b) : ceilDiv t b ≤ q := by
  unfold ceilDiv
  rcases Nat.eq_zero_or_pos b with hb | hb
  · subst hb; simp at hq; subst hq; simp
  have h1 := Nat.div_add_mod t b
  have hdq : t / b ≤ q := by
    apply Nat.div_le_of_le_mul; rw [Nat.mul_comm]; exact hq
  split
  · rename_i hnz
    have hnz' : t % b ≠ 0 := by simpa using hnz
    rcases Nat.lt_or_ge (t / b) q with hlt | hge
    · omega
    · have : q = t / b := by omega
      subst this
      rw [Nat.mul_comm] at hq
      omega
  · omega

/-- sum of the local work over all workers -/
def localWorkSum (total workers : Nat) : Nat → Nat
  | 0 => 0
  | n + 1 => localWorkSum total workers n + localWork total workers n

theorem localWorkSum_eq (total workers n : Nat) (hn : n ≤ workers) :
    localWorkSum total workers n = n * (total / workers) + min n (total % workers) := by
  induction n with
  | zero => simp [localWorkSum]
  | succ n ih =>
    simp only [localWorkSum, localWork, ih (by omega)]
    rw [Nat.add_mul, Nat.one_mul]
    split <;> omega

theorem ipow_eq_pow_int (n : Nat) (v : Int) : ipow (· * ·) 1 n v = v ^ n := by
  induction n using Nat.strongRecOn with
  | _ n ih =>
    unfold ipow
    split
    · rename_i h0; subst h0; simp
    · rename_i h0
      split
      · rename_i hev
        rw [ih (n / 2) (by omega), ← Int.pow_add]
        congr 1; omega
      · rename_i hodd
        rw [ih ((n - 1) / 2) (by omega), Int.mul_assoc, ← Int.pow_add, ← Int.pow_succ']
        congr 1; omega

theorem ipow_mod (m : Nat) (n : Nat) (v : Nat) :
    ipow (fun x y => (x * y) % m) (1 % m) n (v % m) = (v ^ n) % m := by
  induction n using Nat.strongRecOn with
  | _ n ih =>
    unfold ipow
    split
    · rename_i h0; subst h0; simp
    · rename_i h0
      split
      · rename_i hev
        rw [ih (n / 2) (by omega), ← Nat.mul_mod, ← Nat.pow_add]
        congr 2; omega
      · rename_i hodd
        rw [ih ((n - 1) / 2) (by omega)]
        have e : v ^ n = v * v ^ ((n - 1) / 2) * v ^ ((n - 1) / 2) := by
          rw [Nat.mul_assoc, ← Nat.pow_add, ← Nat.pow_succ']; congr 1; omega
        rw [e, Nat.mul_mod (v * v ^ ((n - 1) / 2)) (v ^ ((n - 1) / 2)) m,
          Nat.mul_mod v (v ^ ((n - 1) / 2)) m]

end CelerVerif.Algo
