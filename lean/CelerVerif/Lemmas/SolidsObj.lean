/-
Leaves of the object tree (a region under the accumulated translation), the degenerate cone and
the regions whose emission soundness is proved, collected per `Region` constructor.
-/
import CelerVerif.Lemmas.SolidsBox

namespace CelerVerif.Solids
open CelerVerif CelerVerif.Surf

theorem map_applyTransform_none (l : List (Sense × Surface ℝ)) :
    l.map (fun q => (q.1, applyTransform (none : Option (Vec3 ℝ)) q.2)) = l := by
  have hf : (fun q : Sense × Surface ℝ => (q.1, applyTransform (none : Option (Vec3 ℝ)) q.2)) = id := by
    funext q; rfl
  rw [hf, List.map_id]

theorem map_applyTransform_some (t : Vec3 ℝ) (l : List (Sense × Surface ℝ)) :
    l.map (fun q => (q.1, applyTransform (some t) q.2)) = translateEmit t l := rfl

/-- a leaf: if the region's raw emission is sound at every point off its surfaces, then the
    emission under the accumulated translation evaluates to membership of the pulled-back point -/
theorem shape_sound (tol : Tol ℝ) (r : Region ℝ) (tra : Option (Vec3 ℝ)) (p : Vec3 ℝ)
    (hr : ∀ q, OffSurfaces (r.emit tol) q → (r.mem q = true ↔ Holds (r.emit tol) q))
    (hoff : OffSurfaces ((r.emit tol).map fun q => (q.1, applyTransform tra q.2)) p) :
    Sound tol tra (.shape r) p := by
  unfold Sound
  simp only [Obj.eval, Obj.mem]
  rw [Bool.eq_iff_iff]
  cases tra with
  | none =>
    rw [map_applyTransform_none] at hoff ⊢
    simp only [downBy]
    rw [evalEmit_iff _ _ hoff]
    exact (hr p hoff).symm
  | some t =>
    rw [map_applyTransform_some] at hoff ⊢
    simp only [downBy]
    have hp : p = translateUp t (translateDown t p) := (translate_up_down t p).symm
    rw [evalEmit_iff _ _ hoff]
    rw [hp] at hoff ⊢
    rw [holds_translate]
    rw [offSurfaces_translate] at hoff
    rw [translate_down_up]
    exact (hr _ hoff).symm

/-- equal radii: the documented cone is the cylinder, which is what the degenerate branch emits
    (the mean of two equal radii) -/
theorem cone_equal_radii (lo hh : ℝ) (hhh : 0 < hh) (p : Vec3 ℝ) :
    inCone lo lo hh p = inCyl ((Num.ofSci 5 true 1 : ℝ) * (lo + lo)) hh p := by
  have h5 : (Num.ofSci 5 true 1 : ℝ) = 1 / 2 := by
    show (OfScientific.ofScientific 5 true 1 : ℝ) = 1 / 2
    norm_num
  unfold inCone inCyl coneRadiusAt
  rw [h5]
  have h2 : (2 : ℝ) * hh ≠ 0 := by positivity
  have e1 : (1 / 2 : ℝ) * (lo + lo) = lo := by ring
  num_simp
  rw [e1]
  simp only [sub_self, zero_mul, zero_div, add_zero]

/-- the regions (with their documented preconditions) for which emission soundness is proved -/
def Region.Proved (tol : Tol ℝ) : Region ℝ → Prop
  | .box _ => True
  | .sphere _ => True
  | .cyl _ _ => True
  | .cone lo hi hh => 0 < hh ∧ lo ≠ hi ∧ coneDegenerate tol lo hi = false
  | .ellipsoid r => 0 < r.x ∧ 0 < r.y ∧ 0 < r.z
  | .prism _ _ _ _ => True
  | .ppiped h sa ca st ct sp cp =>
    0 < h.x ∧ 0 < h.y ∧ 0 < h.z ∧ sa = 0 ∧ ca = 1 ∧ st = 0 ∧ ct = 1 ∧ sp = 0 ∧ cp = 1
  | .wedge _ _ _ _ => True

theorem region_emit_sound (tol : Tol ℝ) (r : Region ℝ) (hp : r.Proved tol) (q : Vec3 ℝ)
    (hoff : OffSurfaces (r.emit tol) q) : r.mem q = true ↔ Holds (r.emit tol) q := by
  cases r with
  | box hw => exact emitBox_sound hw q hoff
  | sphere r => exact emitSphere_sound r q hoff
  | cyl r hh => exact emitCyl_sound r hh q hoff
  | cone lo hi hh =>
    obtain ⟨h1, h2, h3⟩ := hp
    have he : emitCone tol lo hi hh = emitConeProper lo hi hh := by
      unfold emitCone; rw [h3]; rfl
    simp only [Region.emit, Region.mem, he] at hoff ⊢
    exact emitConeProper_sound lo hi hh h1 h2 q hoff
  | ellipsoid r =>
    obtain ⟨h1, h2, h3⟩ := hp
    exact emitEllipsoid_sound r q h1 h2 h3 hoff
  | prism n a hh o => exact emitPrism_sound n a hh o q hoff
  | ppiped h sa ca st ct sp cp =>
    obtain ⟨h1, h2, h3, rfl, rfl, rfl, rfl, rfl, rfl⟩ := hp
    exact emitPpiped_box_sound h q h1 h2 h3 hoff
  | wedge ss cs se ce => exact emitWedge_sound ss cs se ce q hoff

end CelerVerif.Solids
