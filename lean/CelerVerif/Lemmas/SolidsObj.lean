/-
Leaves of the object tree (a region under the accumulated translation), the degenerate cone and
the regions whose emission soundness is proved, collected per `Region` constructor.
-/
import CelerVerif.Lemmas.SolidsBox

namespace CelerVerif.Solids
open CelerVerif CelerVerif.Surf

/-- a leaf: if the region's raw emission is sound at every point off its surfaces, then the
    emission under the accumulated transform, evaluated with the real `calc_sense` at the image of
    the local point q, is the membership of q -/
theorem shape_sound (tol : Tol ℝ) (r : Region ℝ) (acc : Xform ℝ) (hacc : acc.Ortho) (q : Vec3 ℝ)
    (hu : UnitNormals (r.emit tol))
    (hr : OffSurfaces (r.emit tol) q → (r.mem q = true ↔ Holds (r.emit tol) q))
    (hoff : OffSurfaces (r.emit tol) q) :
    Sound tol acc (.shape r) q := by
  unfold Sound
  simp only [Obj.eval, Obj.mem]
  rw [Bool.eq_iff_iff]
  have e : ((r.emit tol).map fun s => (s.1, applyTransform acc s.2)) = xformEmit acc (r.emit tol) := rfl
  rw [e, evalEmit_iff _ _ ((offSurfaces_xform acc hacc _ hu q).mpr hoff), holds_xform acc hacc _ hu q]
  exact (hr hoff).symm

/-- equal radii: the documented cone is the cylinder, which is what the degenerate branch emits
    (the mean of two equal radii) -/
theorem cone_equal_radii (lo hh : ℝ) (hhh : 0 < hh) (p : Vec3 ℝ) :
    inCone lo lo hh p = inCyl ((Num.ofSci 5 true 1 : ℝ) * (lo + lo)) hh p := by
  have h5 : (Num.ofSci 5 true 1 : ℝ) = 1 / 2 := by
    show (OfScientific.ofScientific 5 true 1 : ℝ) = 1 / 2
    norm_num
  unfold inCone inCyl coneRadiusAt
  rw [h5]
  have h2 : (2 : ℝ) * hh ≠ 0 := by positivity
  have e1 : (1 / 2 : ℝ) * (lo + lo) = lo := by ring
  num_simp
  rw [e1]
  simp only [sub_self, zero_mul, zero_div, add_zero]

/-- the regions (with their documented preconditions) for which emission soundness is proved -/
def Region.Proved (tol : Tol ℝ) : Region ℝ → Prop
  | .box _ => True
  | .sphere _ => True
  | .cyl _ _ => True
  | .cone lo hi hh => 0 < hh ∧ lo ≠ hi ∧ coneDegenerate tol lo hi = false
  | .ellipsoid r => 0 < r.x ∧ 0 < r.y ∧ 0 < r.z
  | .prism _ _ _ _ => True
  | .ppiped h sa ca st ct sp cp =>
    0 < h.x ∧ 0 < h.y ∧ 0 < h.z ∧ sa = 0 ∧ ca = 1 ∧ st = 0 ∧ ct = 1 ∧ sp = 0 ∧ cp = 1
  | .wedge ss cs se ce => ss * ss + cs * cs = 1 ∧ se * se + ce * ce = 1
  | .genprism .. => False

theorem region_emit_sound (tol : Tol ℝ) (r : Region ℝ) (hp : r.Proved tol) (q : Vec3 ℝ)
    (hoff : OffSurfaces (r.emit tol) q) : r.mem q = true ↔ Holds (r.emit tol) q := by
  cases r with
  | box hw => exact emitBox_sound hw q hoff
  | sphere r => exact emitSphere_sound r q hoff
  | cyl r hh => exact emitCyl_sound r hh q hoff
  | cone lo hi hh =>
    obtain ⟨h1, h2, h3⟩ := hp
    have he : emitCone tol lo hi hh = emitConeProper lo hi hh := by
      unfold emitCone; rw [h3]; rfl
    simp only [Region.emit, Region.mem, he] at hoff ⊢
    exact emitConeProper_sound lo hi hh h1 h2 q hoff
  | ellipsoid r =>
    obtain ⟨h1, h2, h3⟩ := hp
    exact emitEllipsoid_sound r q h1 h2 h3 hoff
  | prism n a hh o => exact emitPrism_sound n a hh o q hoff
  | ppiped h sa ca st ct sp cp =>
    obtain ⟨h1, h2, h3, rfl, rfl, rfl, rfl, rfl, rfl⟩ := hp
    exact emitPpiped_box_sound h q h1 h2 h3 hoff
  | wedge ss cs se ce => exact emitWedge_sound ss cs se ce q hoff
  | genprism hz lo hi dg => exact hp.elim

theorem makeUnit_unit (v : Vec3 ℝ) (hv : 0 < v.x * v.x + v.y * v.y + v.z * v.z) :
    (makeUnit v).x * (makeUnit v).x + (makeUnit v).y * (makeUnit v).y
      + (makeUnit v).z * (makeUnit v).z = 1 := by
  unfold makeUnit
  simp only [Vec3.norm]
  vec_simp
  num_simp
  have hD : v.z * v.z + (v.y * v.y + v.x * v.x) = v.x * v.x + v.y * v.y + v.z * v.z := by ring
  rw [hD]
  set D := v.x * v.x + v.y * v.y + v.z * v.z with hDdef
  have hS : Real.sqrt D * Real.sqrt D = D := Real.mul_self_sqrt hv.le
  have hSpos : 0 < Real.sqrt D := Real.sqrt_pos.mpr hv
  have hne : Real.sqrt D ≠ 0 := ne_of_gt hSpos
  field_simp
  nlinarith [hS]

/-- every plane emitted by a `Proved` region has a unit normal (precondition of transforming it) -/
theorem region_unitNormals (tol : Tol ℝ) (r : Region ℝ) (hp : r.Proved tol) :
    UnitNormals (r.emit tol) := by
  unfold UnitNormals
  cases r with
  | box hw => simp [Region.emit, emitBox, Surface.UnitNormal]
  | sphere r => simp [Region.emit, emitSphere, Surface.UnitNormal]
  | cyl r hh => simp [Region.emit, emitCyl, Surface.UnitNormal]
  | cone lo hi hh =>
    obtain ⟨_, _, h3⟩ := hp
    simp [Region.emit, emitCone, h3, emitConeProper, coneSurface, Surface.UnitNormal]
  | ellipsoid r => simp [Region.emit, emitEllipsoid, ellipsoidSurface, Surface.UnitNormal]
  | prism n a hh o =>
    intro q hq
    simp only [Region.emit, emitPrism, List.mem_append, List.mem_cons, List.not_mem_nil, or_false,
      List.mem_map] at hq
    rcases hq with (rfl | rfl) | ⟨k, _, rfl⟩
    · trivial
    · trivial
    · simp only [prismSide, Surface.UnitNormal]
      num_simp
      simp only [NumR.cos_real, NumR.sin_real, mul_zero, add_zero]
      have := Real.cos_sq_add_sin_sq (prismTheta n o k)
      nlinarith [this]
  | ppiped h sa ca st ct sp cp =>
    obtain ⟨h1, h2, h3, rfl, rfl, rfl, rfl, rfl, rfl⟩ := hp
    intro q hq
    simp only [Region.emit, emitPpiped, List.mem_cons, List.not_mem_nil, or_false] at hq
    rcases hq with rfl | rfl | rfl | rfl | rfl | rfl
    · trivial
    · trivial
    all_goals
      simp only [Surface.UnitNormal, ppipedFaces, ppipedBase]
      apply makeUnit_unit
      simp only [cross]
      num_simp
      simp only [mul_zero, zero_mul, sub_zero, add_zero, zero_add, mul_one, one_mul, zero_sub]
      positivity
  | wedge ss cs se ce =>
    obtain ⟨h1, h2⟩ := hp
    intro q hq
    simp only [Region.emit, emitWedge, List.mem_cons, List.not_mem_nil, or_false] at hq
    rcases hq with rfl | rfl
    · simp only [Surface.UnitNormal]; num_simp; nlinarith [h1]
    · simp only [Surface.UnitNormal]; num_simp; nlinarith [h2]
  | genprism hz lo hi dg => exact hp.elim

/-- `or_solid` for one segment: membership is that of the centred solid at the point shifted down
    by dz = (zhi + zlo)/2 — whatever the sign of dz, and also when dz = 0 -/
theorem polySingle_mem (zlo zhi : ℝ) (mk : ℝ → Region ℝ) (mkInner : Option (ℝ → Region ℝ))
    (angle : Option (Sense × Region ℝ)) (p : Vec3 ℝ) :
    (Obj.polySingle zlo zhi mk mkInner angle).mem p
      = (Obj.solid (mk ((zhi - zlo) / 2)) (mkInner.map fun f => f ((zhi - zlo) / 2)) angle).mem
          ⟨p.x, p.y, p.z - (zhi + zlo) / 2⟩ := by
  unfold Obj.polySingle
  num_simp
  by_cases h : (zhi + zlo) / 2 = 0
  · rw [if_neg (by simpa using h)]
    rw [h]
    simp only [sub_zero]
  · rw [if_pos h]
    simp only [Obj.mem, Xform.down, translateDown, Vec3.sub]
    num_simp
    simp only [sub_zero]

/-- a segment of a multi-segment polycone / polyprism occupies z ∈ [zlo, zhi]: its membership is
    the centred region's at the point shifted down by the segment's mid-height (zlo + zhi)/2 -/
theorem polySegment_mem (zlo zhi : ℝ) (mk : ℝ → Region ℝ) (p : Vec3 ℝ) :
    (Obj.polySegment zlo zhi mk none).mem p
      = (mk ((zhi - zlo) / 2)).mem ⟨p.x, p.y, p.z - (zlo + zhi) / 2⟩ := by
  unfold Obj.polySegment
  simp only [Obj.mem, Obj.memAll, Xform.down, translateDown, Vec3.sub, List.append_nil, Bool.and_true]
  num_simp
  have : p.z - (zlo + (zhi - zlo) / 2) = p.z - (zlo + zhi) / 2 := by ring
  simp only [sub_zero, this]

end CelerVerif.Solids
