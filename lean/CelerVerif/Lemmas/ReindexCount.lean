/- count_tracks_per_action + backfill AS WRITTEN: closed form of the offsets of a key-sorted
   thread array (for Props/C06 `action_ranges_exact`). -/
import CelerVerif.Lemmas.ReindexBasic

namespace CelerVerif.Reindex

/-! ### list helpers -/

theorem getD_set {β : Type} (l : List β) (i j : Nat) (v d : β) :
    (l.set i v).getD j d = if i = j ∧ i < l.length then v else l.getD j d := by
  simp only [List.getD_eq_getElem?_getD, List.getElem?_set]
  by_cases h : i = j
  · subst h
    by_cases h2 : i < l.length <;> simp [h2]
  · simp [h]

/-! ### the first loop: which entry is set, and to what -/

theorem keyAt_of_getElem? {keys : List Id} {i : Nat} {k : Id} (h : keys[i]? = some k) :
    keyAt keys i = k := by
  simp [keyAt, List.getD_eq_getElem?_getD, h]

theorem keyAt_getElem? {keys : List Id} {i : Nat} (hi : i < keys.length) :
    keys[i]? = some (keyAt keys i) := by
  simp [keyAt, List.getD_eq_getElem?_getD, List.getElem?_eq_getElem hi]

theorem keyAt_ge {keys : List Id} {i : Nat} (hi : keys.length ≤ i) : keyAt keys i = none := by
  simp [keyAt, List.getD_eq_getElem?_getD, List.getElem?_eq_none hi]

/-- the action whose offset is written at iteration `i` of the loop -/
def tgt (keys : List Id) (i : Nat) : Option Nat :=
  if i == 0 then none else
  match keyAt keys i with
  | none => none
  | some a => if keyAt keys i != keyAt keys (i - 1) then some a else none

def loopStep (keys : List Id) (offs : List (Option Nat)) (i : Nat) : List (Option Nat) :=
  match tgt keys i with
  | some a => offs.set a (some i)
  | none => offs

theorem countLoopBody_eq (keys : List Id) : countLoopBody keys = loopStep keys := by
  funext offs i
  unfold countLoopBody loopStep tgt
  by_cases h0 : (i == 0) = true
  · simp only [h0, if_true]
  · simp only [h0]
    cases hk : keyAt keys i with
    | none => rfl
    | some a =>
      by_cases hne : (some a != keyAt keys (i - 1)) = true
      · simp [hne]
      · simp [hne]

theorem tgt_spec (keys : List Id) (i a : Nat) :
    tgt keys i = some a ↔ i ≠ 0 ∧ keyAt keys i = some a ∧ keyAt keys (i - 1) ≠ some a := by
  unfold tgt
  by_cases h0 : i = 0
  · subst h0; simp
  · have e : (i == 0) = false := by simpa using h0
    simp only [e, Bool.false_eq_true, if_false]
    cases hk : keyAt keys i with
    | none => simp
    | some b =>
      by_cases hq : keyAt keys (i - 1) = some b
      · have : (some b != keyAt keys (i - 1)) = false := by rw [hq]; simp
        simp only [this, Bool.false_eq_true, if_false]
        constructor
        · intro h; cases h
        · rintro ⟨_, h1, h2⟩
          have : b = a := Option.some.inj h1
          subst this
          exact absurd hq h2
      · have : (some b != keyAt keys (i - 1)) = true := by
          simp only [bne_iff_ne, ne_eq]
          exact fun e => hq e.symm
        simp only [this, if_true, Option.some.injEq]
        constructor
        · intro h; subst h; exact ⟨h0, rfl, hq⟩
        · rintro ⟨_, h1, _⟩; exact h1

theorem countRaw_eq (keys : List Id) (A : Nat) :
    countRaw keys A =
      (match keyAt keys 0 with
       | some a => ((List.range keys.length).foldl (loopStep keys)
                      (List.replicate (A + 1) none)).set a (some 0)
       | none => (List.range keys.length).foldl (loopStep keys) (List.replicate (A + 1) none)) := by
  unfold countRaw
  rw [countLoopBody_eq]
  cases keyAt keys 0 <;> rfl

/-- a fold of `set`s: if every write to position `a` writes the value `w`, the result at `a` is
    `w` when some iteration targets `a`, the old value otherwise -/
theorem fold_loopStep_getD (keys : List Id) (a w : Nat) (L : List Nat)
    (hw : ∀ i ∈ L, tgt keys i = some a → i = w) (offs : List (Option Nat)) (ha : a < offs.length) :
    (L.foldl (loopStep keys) offs).getD a none =
      if L.any (fun i => tgt keys i == some a) then some w else offs.getD a none := by
  induction L generalizing offs with
  | nil => simp
  | cons i L ih =>
    rw [List.foldl_cons]
    have hw' : ∀ j ∈ L, tgt keys j = some a → j = w :=
      fun j hj => hw j (List.mem_cons_of_mem _ hj)
    have hlen : a < (loopStep keys offs i).length := by
      unfold loopStep; cases tgt keys i <;> simp [ha]
    rw [ih hw' _ hlen]
    by_cases hL : L.any (fun i => tgt keys i == some a) = true
    · simp [hL]
    · have hL' : L.any (fun i => tgt keys i == some a) = false := by simpa using hL
      simp only [hL', List.any_cons, Bool.or_false]
      unfold loopStep
      cases ht : tgt keys i with
      | none => simp
      | some b =>
        by_cases hb : b = a
        · subst hb
          have : i = w := hw i (by simp) ht
          simp [getD_set, ha, this]
        · have : ¬ (some b = some a) := fun e => hb (Option.some.inj e)
          simp [getD_set, hb, this]

theorem fold_loopStep_length (keys : List Id) (L : List Nat) (offs : List (Option Nat)) :
    (L.foldl (loopStep keys) offs).length = offs.length := by
  induction L generalizing offs with
  | nil => rfl
  | cons i L ih =>
    rw [List.foldl_cons, ih]
    unfold loopStep
    cases tgt keys i <;> simp

/-! ### sorted keys: every write for action `a` writes `offsetSpec keys a` -/

def present (keys : List Id) (a : Nat) : Bool := keys.any (· == some a)

/-- some thread carries a valid action ≥ a -/
def presentGe (keys : List Id) (a : Nat) : Bool :=
  keys.any (fun k => match k with | some b => decide (a ≤ b) | none => false)

theorem tgt_eq_offsetSpec (keys : List Id) (hs : keys.Pairwise (fun x y => idLe x y = true))
    (i a : Nat) (hi : i < keys.length) (h : tgt keys i = some a) : i = offsetSpec keys a := by
  obtain ⟨hi0, hk, hp⟩ := (tgt_spec keys i a).mp h
  have hi1 : i - 1 < keys.length := by omega
  have h1 := lt_offsetSpec_iff keys hs a i (some a) (by rw [keyAt_getElem? hi, hk])
  have h2 := lt_offsetSpec_iff keys hs a (i - 1) _ (keyAt_getElem? hi1)
  have hle : idLe (keyAt keys (i - 1)) (some a) = true := by
    have := List.pairwise_iff_getElem.mp hs (i - 1) i hi1 hi (by omega)
    have e1 : keys[i - 1] = keyAt keys (i - 1) := by
      have := keyAt_getElem? hi1
      rw [List.getElem?_eq_getElem hi1] at this
      exact Option.some.inj this
    have e2 : keys[i] = some a := by
      have := keyAt_getElem? hi
      rw [List.getElem?_eq_getElem hi, hk] at this
      exact Option.some.inj this
    rw [e1, e2] at this
    exact this
  have hlt : keyLt a (keyAt keys (i - 1)) = true := by
    cases hq : keyAt keys (i - 1) with
    | none => rw [hq] at hle; simp [idLe, idLt] at hle
    | some c =>
      rw [hq] at hle hp
      simp [idLe, idLt] at hle
      have : c ≠ a := fun e => hp (by rw [e])
      simp [keyLt]; omega
  have h1' : ¬ (i < offsetSpec keys a) := by
    rw [h1]; simp [keyLt]
  have h2' : i - 1 < offsetSpec keys a := h2.mpr hlt
  omega

theorem tgt_lt_length (keys : List Id) (i a : Nat) (h : tgt keys i = some a) : i < keys.length := by
  obtain ⟨_, hk, _⟩ := (tgt_spec keys i a).mp h
  by_cases hi : i < keys.length
  · exact hi
  · rw [keyAt_ge (by omega)] at hk; cases hk

/-- in a sorted array a present action `a` occupies exactly the threads
    `[offsetSpec a, offsetSpec (a+1))` (non-empty) -/
theorem key_iff_range (keys : List Id) (hs : keys.Pairwise (fun x y => idLe x y = true))
    (a t : Nat) (k : Id) (hk : keys[t]? = some k) :
    k = some a ↔ (offsetSpec keys a ≤ t ∧ t < offsetSpec keys (a + 1)) := by
  have h1 := lt_offsetSpec_iff keys hs a t k hk
  have h2 := lt_offsetSpec_iff keys hs (a + 1) t k hk
  cases k with
  | none =>
    simp [keyLt] at h1 h2
    constructor
    · intro h; cases h
    · rintro ⟨_, h⟩; omega
  | some b =>
    simp only [keyLt, decide_eq_true_eq] at h1 h2
    constructor
    · intro h
      have : b = a := Option.some.inj h
      omega
    · rintro ⟨h3, h4⟩
      have : b = a := by omega
      rw [this]

theorem offsetSpec_le_length (keys : List Id) (a : Nat) : offsetSpec keys a ≤ keys.length := by
  unfold offsetSpec; exact List.countP_le_length

theorem present_iff (keys : List Id) (a : Nat) :
    present keys a = true ↔ ∃ t : Nat, keys[t]? = some (some a) := by
  unfold present
  rw [List.any_eq_true]
  constructor
  · rintro ⟨k, hk, he⟩
    have : k = some a := by simpa using he
    subst this
    obtain ⟨t, ht, hget⟩ := List.mem_iff_getElem.mp hk
    exact ⟨t, by rw [List.getElem?_eq_getElem ht, hget]⟩
  · rintro ⟨t, ht⟩
    exact ⟨some a, List.mem_of_getElem? ht, by simp⟩

/-- the first thread of a present action is thread `offsetSpec a` -/
theorem first_of_present (keys : List Id) (hs : keys.Pairwise (fun x y => idLe x y = true))
    (a : Nat) (hp : present keys a = true) :
    keys[offsetSpec keys a]? = some (some a) ∧ offsetSpec keys a < keys.length := by
  obtain ⟨t, ht⟩ := (present_iff keys a).mp hp
  have hr := (key_iff_range keys hs a t (some a) ht).mp rfl
  have hlt : offsetSpec keys a < keys.length := by
    have := offsetSpec_le_length keys (a + 1); omega
  refine ⟨?_, hlt⟩
  have hk : keys[offsetSpec keys a]? = some (keys[offsetSpec keys a]) :=
    List.getElem?_eq_getElem hlt
  have := (key_iff_range keys hs a (offsetSpec keys a) _ hk).mpr ⟨Nat.le_refl _, by omega⟩
  rw [hk, this]

/-! ### the raw offsets (before backfill) of a sorted array -/

theorem hit_iff (keys : List Id) (hs : keys.Pairwise (fun x y => idLe x y = true)) (a : Nat) :
    (List.range keys.length).any (fun i => tgt keys i == some a) = true ↔
      (present keys a = true ∧ keyAt keys 0 ≠ some a) := by
  rw [List.any_eq_true]
  constructor
  · rintro ⟨i, hi, he⟩
    have ht : tgt keys i = some a := by simpa using he
    have hil : i < keys.length := List.mem_range.mp hi
    obtain ⟨hi0, hk, hp⟩ := (tgt_spec keys i a).mp ht
    refine ⟨(present_iff keys a).mpr ⟨i, by rw [keyAt_getElem? hil, hk]⟩, ?_⟩
    intro h0
    -- thread 0 already carries `a`, so `a` starts at 0, but the write happens at i = offsetSpec a ≠ 0
    have e := tgt_eq_offsetSpec keys hs i a hil ht
    have h00 : (0 : Nat) < keys.length := by omega
    have := lt_offsetSpec_iff keys hs a 0 (some a) (by rw [keyAt_getElem? h00, h0])
    simp [keyLt] at this
    omega
  · rintro ⟨hp, h0⟩
    obtain ⟨hf, hfl⟩ := first_of_present keys hs a hp
    have hk : keyAt keys (offsetSpec keys a) = some a := keyAt_of_getElem? hf
    have hne0 : offsetSpec keys a ≠ 0 := by
      intro e; rw [e] at hk; exact h0 hk
    refine ⟨offsetSpec keys a, List.mem_range.mpr hfl, ?_⟩
    have hprev : keyAt keys (offsetSpec keys a - 1) ≠ some a := by
      have hl : offsetSpec keys a - 1 < keys.length := by omega
      have := lt_offsetSpec_iff keys hs a (offsetSpec keys a - 1) _ (keyAt_getElem? hl)
      have hlt : keyLt a (keyAt keys (offsetSpec keys a - 1)) = true := this.mp (by omega)
      intro e; rw [e] at hlt; simp [keyLt] at hlt
    have := (tgt_spec keys (offsetSpec keys a) a).mpr ⟨hne0, hk, hprev⟩
    simp [this]

theorem countRaw_length (keys : List Id) (A : Nat) : (countRaw keys A).length = A + 1 := by
  rw [countRaw_eq]
  cases keyAt keys 0 <;> simp [fold_loopStep_length]

/-- as written, before the backfill: the entry of a present action is its first thread, the
    entry of an absent action stays null -/
theorem countRaw_getD (keys : List Id) (hs : keys.Pairwise (fun x y => idLe x y = true))
    (A a : Nat) (ha : a ≤ A) :
    (countRaw keys A).getD a none =
      if present keys a then some (offsetSpec keys a) else none := by
  have hlen : a < (List.replicate (A + 1) (none : Option Nat)).length := by simp; omega
  have hF := fold_loopStep_getD keys a (offsetSpec keys a) (List.range keys.length)
    (fun i hi ht => tgt_eq_offsetSpec keys hs i a (List.mem_range.mp hi) ht) _ hlen
  have hrep : (List.replicate (A + 1) (none : Option Nat)).getD a none = none := by
    have : a < A + 1 := by omega
    simp [List.getD_eq_getElem?_getD, List.getElem?_replicate, this]
  rw [hrep] at hF
  have hh := hit_iff keys hs a
  rw [countRaw_eq]
  cases h0 : keyAt keys 0 with
  | none =>
    simp only []
    rw [hF]
    have : keyAt keys 0 ≠ some a := by rw [h0]; exact fun e => by cases e
    by_cases hp : present keys a = true
    · have := hh.mpr ⟨hp, this⟩
      simp [hp, this]
    · have hn := Bool.eq_false_iff.mpr
        (fun h : (List.range keys.length).any (fun i => tgt keys i == some a) = true =>
          hp (hh.mp h).1)
      have hp' := Bool.eq_false_iff.mpr hp
      simp [hn, hp']
  | some b =>
    simp only []
    rw [getD_set, fold_loopStep_length]
    by_cases hb : b = a
    · subst hb
      have hl : b < (List.replicate (A + 1) (none : Option Nat)).length := hlen
      have h00 : (0 : Nat) < keys.length := by
        by_cases h : 0 < keys.length
        · exact h
        · rw [keyAt_ge (by omega)] at h0; cases h0
      have hp : present keys b = true :=
        (present_iff keys b).mpr ⟨0, by rw [keyAt_getElem? h00, h0]⟩
      have := lt_offsetSpec_iff keys hs b 0 (some b) (by rw [keyAt_getElem? h00, h0])
      simp [keyLt] at this
      rw [if_pos ⟨rfl, hl⟩, hp, this]
      rfl
    · have hne : ¬ (b = a ∧ b < (List.replicate (A + 1) (none : Option Nat)).length) :=
        fun h => hb h.1
      simp only [hne, if_false]
      rw [hF]
      have h0' : keyAt keys 0 ≠ some a := by
        rw [h0]; exact fun e => hb (Option.some.inj e)
      by_cases hp : present keys a = true
      · have := hh.mpr ⟨hp, h0'⟩
        simp [hp, this]
      · have hn := Bool.eq_false_iff.mpr
          (fun h : (List.range keys.length).any (fun i => tgt keys i == some a) = true =>
            hp (hh.mp h).1)
        have hp' := Bool.eq_false_iff.mpr hp
        simp [hn, hp']

/-! ### the backfill loop as written -/

def bfLoop (m : Nat) (o : List (Option Nat)) : List (Option Nat) :=
  (List.range m).reverse.foldl backfillBody o

theorem backfillBody_length (o : List (Option Nat)) (k : Nat) :
    (backfillBody o k).length = o.length := by
  unfold backfillBody
  cases o.getD k none <;> simp

theorem backfillBody_getD (o : List (Option Nat)) (k j : Nat) (hk : k < o.length) :
    (backfillBody o k).getD j none =
      if j = k then (match o.getD k none with
        | some v => some v
        | none => o.getD (k + 1) none) else o.getD j none := by
  unfold backfillBody
  cases h : o.getD k none with
  | none =>
    simp only []
    rw [getD_set]
    by_cases hj : j = k
    · subst hj; simp [hk]
    · have : ¬ (k = j ∧ k < o.length) := fun e => hj e.1.symm
      simp [this, hj]
  | some v =>
    by_cases hj : j = k
    · subst hj; rw [if_pos rfl]; exact h
    · rw [if_neg hj]

theorem bfLoop_succ (m : Nat) (o : List (Option Nat)) :
    bfLoop (m + 1) o = bfLoop m (backfillBody o m) := by
  unfold bfLoop
  rw [List.range_succ, List.reverse_append]
  rfl

/-- loop invariant of the right-to-left fill: entries at or above `m` are untouched; below `m`
    an entry keeps its value if set and otherwise takes the (final) value of its right
    neighbour -/
theorem bfLoop_spec (m : Nat) (o : List (Option Nat)) (hm : m < o.length) :
    (bfLoop m o).length = o.length ∧
    (∀ j, m ≤ j → (bfLoop m o).getD j none = o.getD j none) ∧
    (∀ j, j < m → (bfLoop m o).getD j none =
      match o.getD j none with
      | some v => some v
      | none => (bfLoop m o).getD (j + 1) none) := by
  induction m generalizing o with
  | zero => exact ⟨rfl, fun _ _ => rfl, fun j hj => absurd hj (Nat.not_lt_zero j)⟩
  | succ m ih =>
    rw [bfLoop_succ]
    have hl : m < (backfillBody o m).length := by rw [backfillBody_length]; omega
    obtain ⟨h1, h2, h3⟩ := ih (backfillBody o m) hl
    have hmo : m < o.length := by omega
    refine ⟨by rw [h1, backfillBody_length], ?_, ?_⟩
    · intro j hj
      rw [h2 j (by omega), backfillBody_getD o m j hmo]
      have : j ≠ m := by omega
      simp [this]
    · intro j hj
      by_cases hjm : j = m
      · subst hjm
        rw [h2 j (Nat.le_refl _), h2 (j + 1) (by omega), backfillBody_getD o j j hmo,
          backfillBody_getD o j (j + 1) hmo]
        simp
      · have hj' : j < m := by omega
        rw [h3 j hj', backfillBody_getD o m j hmo]
        simp [hjm]

/-! ### closed form of count_tracks_per_action as written -/

/-- offsets as the code computes them: the first thread of the next present action, or the
    array size when no action at or above `a` is present -/
def closedOffset (keys : List Id) (a : Nat) : Nat :=
  if presentGe keys a then offsetSpec keys a else keys.length

theorem presentGe_of_present (keys : List Id) (a : Nat) (h : present keys a = true) :
    presentGe keys a = true := by
  unfold present at h
  unfold presentGe
  rw [List.any_eq_true] at h ⊢
  obtain ⟨k, hk, he⟩ := h
  have : k = some a := by simpa using he
  subst this
  exact ⟨some a, hk, by simp⟩

theorem absent_ne (keys : List Id) (a b : Nat) (h : present keys a = false)
    (hb : some b ∈ keys) : b ≠ a := by
  intro e; subst e
  have : present keys b = true := List.any_eq_true.mpr ⟨some b, hb, by simp⟩
  rw [h] at this; cases this

theorem presentGe_succ_of_absent (keys : List Id) (a : Nat) (h : present keys a = false) :
    presentGe keys (a + 1) = presentGe keys a := by
  unfold presentGe
  rw [Bool.eq_iff_iff, List.any_eq_true, List.any_eq_true]
  constructor
  · rintro ⟨k, hk, he⟩
    refine ⟨k, hk, ?_⟩
    cases k with
    | none => simp at he
    | some b => simp only [decide_eq_true_eq] at he ⊢; omega
  · rintro ⟨k, hk, he⟩
    refine ⟨k, hk, ?_⟩
    cases k with
    | none => simp at he
    | some b =>
      have := absent_ne keys a b h hk
      simp only [decide_eq_true_eq] at he ⊢; omega

theorem offsetSpec_succ_of_absent (keys : List Id) (a : Nat) (h : present keys a = false) :
    offsetSpec keys (a + 1) = offsetSpec keys a := by
  unfold offsetSpec
  apply List.countP_congr
  intro k hk
  cases k with
  | none => simp
  | some b =>
    have := absent_ne keys a b h hk
    simp only [decide_eq_true_eq]
    omega

theorem presentGe_bound (keys : List Id) (A : Nat)
    (hA : ∀ b, some b ∈ keys → b < A) : presentGe keys A = false := by
  unfold presentGe
  rw [List.any_eq_false]
  intro k hk
  cases k with
  | none => simp
  | some b => have := hA b hk; simp; omega

theorem count_closed_form (keys : List Id) (hs : keys.Pairwise (fun x y => idLe x y = true))
    (A : Nat) (hA : ∀ b, some b ∈ keys → b < A) (a : Nat) (ha : a ≤ A) :
    (countTracksPerAction keys A).getD a none = some (closedOffset keys a) := by
  unfold countTracksPerAction backfill
  rw [countRaw_length]
  simp only [Nat.add_sub_cancel]
  have hfold : ∀ o : List (Option Nat),
      (List.range A).reverse.foldl backfillBody o = bfLoop A o := fun _ => rfl
  rw [hfold]
  have hl1 : ((countRaw keys A).set A (some keys.length)).length = A + 1 := by
    simp [countRaw_length]
  obtain ⟨_, h2, h3⟩ := bfLoop_spec A ((countRaw keys A).set A (some keys.length)) (by omega)
  -- downward induction on a
  have key : ∀ d, d ≤ A →
      (bfLoop A ((countRaw keys A).set A (some keys.length))).getD (A - d) none =
        some (closedOffset keys (A - d)) := by
    intro d
    induction d with
    | zero =>
      intro _
      rw [Nat.sub_zero, h2 A (Nat.le_refl _), getD_set]
      have : A < (countRaw keys A).length := by rw [countRaw_length]; omega
      simp [this, closedOffset, presentGe_bound keys A hA]
    | succ d ih =>
      intro hd
      have hlt : A - (d + 1) < A := by omega
      have hnext : A - (d + 1) + 1 = A - d := by omega
      rw [h3 _ hlt, getD_set]
      have hne : ¬ (A = A - (d + 1) ∧ A < (countRaw keys A).length) := fun e => by omega
      simp only [hne, if_false]
      rw [countRaw_getD keys hs A _ (by omega)]
      by_cases hp : present keys (A - (d + 1)) = true
      · simp [hp, closedOffset, presentGe_of_present keys _ hp]
      · have hp' : present keys (A - (d + 1)) = false := by simpa using hp
        simp only [hp', Bool.false_eq_true, if_false]
        rw [hnext, ih (by omega), ← hnext]
        unfold closedOffset
        rw [presentGe_succ_of_absent keys _ hp', offsetSpec_succ_of_absent keys _ hp']
  have := key (A - a) (by omega)
  rwa [show A - (A - a) = a by omega] at this

end CelerVerif.Reindex
