/- Completeness of `calc_intersections`: no positive root of the ray polynomial is omitted. -/
import CelerVerif.Lemmas.SurfIsectCases

namespace CelerVerif.Surf
open CelerVerif

def Surface.isPlane : Surface ℝ → Bool
  | .planeAligned .. => true
  | .plane .. => true
  | _ => false

theorem cmp_planeAligned (ax : Axis) (p : ℝ) (pos dir : Vec3 ℝ) (t : ℝ)
    (hB : ((Surface.planeAligned ax p).rayCoeffs pos dir).2.1 ≠ 0) (ht : 0 < t)
    (hr : (Surface.planeAligned ax p).rayPoly pos dir t = 0) :
    Isect2.mem t ((Surface.planeAligned ax p).calcIntersections pos dir false) := by
  simp only [Surface.calcIntersections]
  apply planeIsect_complete _ _ _ _ ht
  · cases ax <;> simp only [Surface.rayPoly, Surface.rayCoeffs, Surface.quadric] at hr <;>
      vec_simp at hr ⊢ <;> num_simp at hr ⊢ <;> linear_combination hr
  · cases ax <;> simp only [Surface.rayCoeffs] at hB <;> vec_simp at hB ⊢ <;>
      (intro h0; apply hB; rw [h0]; simp)

theorem cmp_plane (n : Vec3 ℝ) (d : ℝ) (pos dir : Vec3 ℝ) (t : ℝ)
    (hB : ((Surface.plane n d).rayCoeffs pos dir).2.1 ≠ 0) (ht : 0 < t)
    (hr : (Surface.plane n d).rayPoly pos dir t = 0) :
    Isect2.mem t ((Surface.plane n d).calcIntersections pos dir false) := by
  simp only [Surface.calcIntersections]
  apply planeIsect_complete _ _ _ _ ht
  · simp only [Surface.rayPoly, Surface.rayCoeffs, Surface.quadric] at hr
    vec_simp at hr ⊢; num_simp at hr ⊢; linear_combination hr
  · simp only [Surface.rayCoeffs] at hB
    vec_simp; num_simp
    intro h0; apply hB
    have : n.x * dir.x + n.y * dir.y + n.z * dir.z = 0 := by linear_combination h0
    rw [this]; simp

theorem cmp_cylCentered (ax : Axis) (r2 : ℝ) (pos dir : Vec3 ℝ) (hu : unitDir dir)
    (hA : minA ≤ |((Surface.cylCentered ax r2).rayCoeffs pos dir).1|) (t : ℝ) (ht : 0 < t)
    (hr : (Surface.cylCentered ax r2).rayPoly pos dir t = 0) :
    Isect2.mem t ((Surface.cylCentered ax r2).calcIntersections pos dir false) := by
  unfold unitDir at hu
  simp only [Surface.calcIntersections, Bool.false_eq_true, if_false]
  rw [sqTol_real]
  rw [minA_real] at hA
  have hAA : (1 : ℝ) - dir.ax ax * dir.ax ax = ((Surface.cylCentered ax r2).rayCoeffs pos dir).1 := by
    cases ax <;> simp only [Surface.rayCoeffs] <;> vec_simp <;> linear_combination (-1 : ℝ) * hu
  have hnn : 0 ≤ ((Surface.cylCentered ax r2).rayCoeffs pos dir).1 := by
    cases ax <;> simp only [Surface.rayCoeffs] <;> vec_simp <;>
      exact add_nonneg (mul_self_nonneg _) (mul_self_nonneg _)
  rw [abs_of_nonneg hnn] at hA
  split_ifs with hh
  · exfalso; num_simp at hh; rw [hAA] at hh; exact absurd hh (not_lt.mpr hA)
  num_simp
  have ha : (1 : ℝ) - dir.ax ax * dir.ax ax ≠ 0 := by rw [hAA]; intro hz; rw [hz] at hA; norm_num at hA
  apply solver_complete_scaled _ _ _ t ha ht
  cases ax <;> simp only [Surface.rayPoly, Surface.rayCoeffs, Surface.quadric] at hr <;>
    vec_simp at hr ⊢ <;> num_simp at hr <;> linear_combination hr - t * t * hu

theorem cmp_cylAligned (ax : Axis) (ou ov r2 : ℝ) (pos dir : Vec3 ℝ) (hu : unitDir dir)
    (hA : minA ≤ |((Surface.cylAligned ax ou ov r2).rayCoeffs pos dir).1|) (t : ℝ) (ht : 0 < t)
    (hr : (Surface.cylAligned ax ou ov r2).rayPoly pos dir t = 0) :
    Isect2.mem t ((Surface.cylAligned ax ou ov r2).calcIntersections pos dir false) := by
  unfold unitDir at hu
  simp only [Surface.calcIntersections, Bool.false_eq_true, if_false]
  rw [sqTol_real]
  rw [minA_real] at hA
  have hAA : (1 : ℝ) - dir.ax ax * dir.ax ax
      = ((Surface.cylAligned ax ou ov r2).rayCoeffs pos dir).1 := by
    cases ax <;> simp only [Surface.rayCoeffs] <;> vec_simp <;> linear_combination (-1 : ℝ) * hu
  have hnn : 0 ≤ ((Surface.cylAligned ax ou ov r2).rayCoeffs pos dir).1 := by
    cases ax <;> simp only [Surface.rayCoeffs] <;> vec_simp <;>
      exact add_nonneg (mul_self_nonneg _) (mul_self_nonneg _)
  rw [abs_of_nonneg hnn] at hA
  split_ifs with hh
  · exfalso; num_simp at hh; rw [hAA] at hh; exact absurd hh (not_lt.mpr hA)
  num_simp
  have ha : (1 : ℝ) - dir.ax ax * dir.ax ax ≠ 0 := by rw [hAA]; intro hz; rw [hz] at hA; norm_num at hA
  apply solver_complete_scaled _ _ _ t ha ht
  cases ax <;> simp only [Surface.rayPoly, Surface.rayCoeffs, Surface.quadric] at hr <;>
    vec_simp at hr ⊢ <;> num_simp at hr <;> linear_combination hr - t * t * hu

theorem cmp_sphereCentered (r2 : ℝ) (pos dir : Vec3 ℝ) (hu : unitDir dir) (t : ℝ) (ht : 0 < t)
    (hr : (Surface.sphereCentered r2).rayPoly pos dir t = 0) :
    Isect2.mem t ((Surface.sphereCentered r2).calcIntersections pos dir false) := by
  unfold unitDir at hu
  simp only [Surface.calcIntersections, Bool.not_false, if_true]
  num_simp
  apply solver_complete_scaled _ _ _ t one_ne_zero ht
  simp only [Surface.rayPoly, Surface.rayCoeffs, Surface.quadric] at hr
  vec_simp at hr ⊢; num_simp at hr ⊢; linear_combination hr - t * t * hu

theorem cmp_sphere (o : Vec3 ℝ) (r2 : ℝ) (pos dir : Vec3 ℝ) (hu : unitDir dir) (t : ℝ)
    (ht : 0 < t) (hr : (Surface.sphere o r2).rayPoly pos dir t = 0) :
    Isect2.mem t ((Surface.sphere o r2).calcIntersections pos dir false) := by
  unfold unitDir at hu
  simp only [Surface.calcIntersections, Bool.not_false, if_true]
  num_simp
  apply solver_complete_scaled _ _ _ t one_ne_zero ht
  simp only [Surface.rayPoly, Surface.rayCoeffs, Surface.quadric] at hr
  vec_simp at hr ⊢; num_simp at hr ⊢; linear_combination hr - t * t * hu

theorem cmp_coneAligned (ax : Axis) (o : Vec3 ℝ) (tsq : ℝ) (pos dir : Vec3 ℝ)
    (hA : minA ≤ |((Surface.coneAligned ax o tsq).rayCoeffs pos dir).1|) (t : ℝ) (ht : 0 < t)
    (hr : (Surface.coneAligned ax o tsq).rayPoly pos dir t = 0) :
    Isect2.mem t ((Surface.coneAligned ax o tsq).calcIntersections pos dir false) := by
  simp only [Surface.calcIntersections]
  cases ax <;> simp only [Surface.rayPoly, Surface.rayCoeffs, Surface.quadric] at hA hr <;>
    vec_simp at hA hr ⊢ <;> num_simp at hA hr ⊢ <;>
    exact solveGeneral_complete _ _ _ t hA ht (by linear_combination hr)

theorem cmp_simpleQuadric (a b c d e f g : ℝ) (pos dir : Vec3 ℝ)
    (hA : minA ≤ |((Surface.simpleQuadric a b c d e f g).rayCoeffs pos dir).1|) (t : ℝ)
    (ht : 0 < t) (hr : (Surface.simpleQuadric a b c d e f g).rayPoly pos dir t = 0) :
    Isect2.mem t ((Surface.simpleQuadric a b c d e f g).calcIntersections pos dir false) := by
  simp only [Surface.calcIntersections]
  simp only [Surface.rayPoly, Surface.rayCoeffs, Surface.quadric] at hA hr
  num_simp at hA hr ⊢
  exact solveGeneral_complete _ _ _ t hA ht (by linear_combination hr)

theorem cmp_generalQuadric (a b c d e f g h' i j : ℝ) (pos dir : Vec3 ℝ)
    (hA : minA ≤ |((Surface.generalQuadric a b c d e f g h' i j).rayCoeffs pos dir).1|) (t : ℝ)
    (ht : 0 < t) (hr : (Surface.generalQuadric a b c d e f g h' i j).rayPoly pos dir t = 0) :
    Isect2.mem t ((Surface.generalQuadric a b c d e f g h' i j).calcIntersections pos dir false) := by
  simp only [Surface.calcIntersections]
  simp only [Surface.rayPoly, Surface.rayCoeffs, Surface.quadric] at hA hr
  num_simp at hA hr ⊢
  exact solveGeneral_complete _ _ _ t hA ht (by linear_combination hr)

end CelerVerif.Surf
