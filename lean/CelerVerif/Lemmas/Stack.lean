/- Helper lemmas for the sequential StackAllocator model. -/
import CelerVerif.Model.Stack

namespace CelerVerif.Stack

theorem initRange_length (l : List Nat) (a n : Nat) : (initRange l a n).length = l.length := by
  unfold initRange
  induction n generalizing l with
  | zero => simp
  | succ k ih =>
    rw [List.range_succ, List.foldl_append]
    simp [ih]

theorem initRange_getElem? (l : List Nat) (a n i : Nat) :
    (initRange l a n)[i]? = if a ≤ i ∧ i < a + n ∧ i < l.length then some dflt else l[i]? := by
  unfold initRange
  induction n with
  | zero => simp; intro h1 h2; omega
  | succ k ih =>
    rw [List.range_succ, List.foldl_append]
    simp only [List.foldl_cons, List.foldl_nil]
    rw [List.getElem?_set]
    have hl := initRange_length l a k
    unfold initRange at hl
    by_cases h : a + k = i
    · subst h
      simp [hl]
      by_cases h2 : a + k < l.length <;> simp [h2]
    · simp only [h, if_false, ih]
      by_cases h1 : a ≤ i ∧ i < a + k ∧ i < l.length
      · have : a ≤ i ∧ i < a + (k + 1) ∧ i < l.length := by omega
        simp [h1, this]
      · have : ¬ (a ≤ i ∧ i < a + (k + 1) ∧ i < l.length) := by omega
        simp [h1, this]

/-- the placement-new loop does not touch anything below `start` -/
theorem initRange_take (l : List Nat) (a n : Nat) : (initRange l a n).take a = l.take a := by
  apply List.ext_getElem?
  intro i
  simp only [List.getElem?_take]
  by_cases h : i < a
  · simp only [h, if_true, initRange_getElem?]
    have : ¬ (a ≤ i ∧ i < a + n ∧ i < l.length) := by omega
    simp [this]
  · simp [h]

/-- a run of allocation requests; returns per request `(result, n)` -/
def runAllocs : List Nat → Stack → List (Option Nat × Nat) × Stack
  | [], s => ([], s)
  | n :: ns, s =>
    let r := alloc n s
    let rest := runAllocs ns r.2
    ((r.1, n) :: rest.1, rest.2)

/-- total number of elements handed out -/
def granted : List (Option Nat × Nat) → Nat
  | [] => 0
  | (some _, n) :: r => n + granted r
  | (none, _) :: r => granted r

end CelerVerif.Stack
