/-
GenericCalculator / NonuniformGrid::find at ℝ: the binary search brackets the value on a strictly
increasing grid, hence linear interpolation between positive knots is positive.
-/
import CelerVerif.Lemmas.OpticalGen

namespace CelerVerif.Optical
open CelerVerif

/-- strictly increasing x grid -/
def Grid.Sorted (g : Grid ℝ) : Prop := ∀ i j, i < j → j < g.size → g.x i < g.x j

theorem Grid.sorted_le (g : Grid ℝ) (h : g.Sorted) (i j : Nat) (hij : i ≤ j) (hj : j < g.size) :
    g.x i ≤ g.x j := by
  rcases Nat.lt_or_eq_of_le hij with h1 | h1
  · exact le_of_lt (h i j h1 hj)
  · subst h1; exact le_refl _

theorem lowerBound_spec (g : Grid ℝ) (hs : g.Sorted) (v : ℝ) :
    ∀ (fuel first len : Nat), len < fuel → first + len ≤ g.size →
      (∀ j, j < first → g.x j < v) → (∀ j, first + len ≤ j → j < g.size → v ≤ g.x j) →
      (∀ j, j < g.lowerBound v fuel first len → g.x j < v) ∧
      (∀ j, g.lowerBound v fuel first len ≤ j → j < g.size → v ≤ g.x j) := by
  intro fuel
  induction fuel with
  | zero => intro first len h; omega
  | succ n ih =>
    intro first len hlt hsz hP hQ
    simp only [Grid.lowerBound]
    by_cases hl : len = 0
    · subst hl; simp only [if_true]
      exact ⟨hP, fun j hj hjn => hQ j (by omega) hjn⟩
    · rw [if_neg hl]
      have hhalf : len / 2 < len := Nat.div_lt_self (Nat.pos_of_ne_zero hl) (by norm_num)
      have hm : first + len / 2 < g.size := by omega
      by_cases hc : g.x (first + len / 2) < v
      · have hc' : Num.lt (g.x (first + len / 2)) v = true := by opt_simp; exact hc
        rw [if_pos hc']
        apply ih (first + len / 2 + 1) (len - (len / 2 + 1)) (by omega) (by omega)
        · intro j hj
          exact lt_of_le_of_lt (Grid.sorted_le g hs j _ (by omega) hm) hc
        · intro j hj hjn; exact hQ j (by omega) hjn
      · have hc' : ¬ (Num.lt (g.x (first + len / 2)) v = true) := by opt_simp; exact hc
        rw [if_neg hc']
        apply ih first (len / 2) (by omega) (by omega) hP
        intro j hj hjn
        exact le_trans (not_lt.mp hc) (Grid.sorted_le g hs _ j hj hjn)

/-- linear interpolation between positive knots is positive -/
theorem interp_pos (xl yl xr yr x : ℝ) (hx : xl < xr) (h1 : xl ≤ x) (h2 : x ≤ xr)
    (hyl : 0 < yl) (hyr : 0 < yr) : 0 < Grid.interp xl yl xr yr x := by
  simp only [Grid.interp]; opt_simp
  have hd : 0 < -xl + xr := by linarith
  have : (-yl + yr) / (-xl + xr) * (-xl + x) + yl
      = (yl * (xr - x) + yr * (x - xl)) / (-xl + xr) := by
    field_simp; ring
  rw [this]
  apply div_pos _ hd
  rcases eq_or_lt_of_le h1 with h | h
  · subst h; nlinarith
  · have := mul_pos hyr (sub_pos.mpr h)
    have := mul_nonneg (le_of_lt hyl) (sub_nonneg.mpr h2)
    linarith

/-- the calculator returns positive values on a strictly increasing grid with positive entries -/
theorem Grid.eval_pos (g : Grid ℝ) (hs : g.Sorted) (hn : 2 ≤ g.size)
    (hy : ∀ i, i < g.size → 0 < g.y i) (v : ℝ) : 0 < g.eval v := by
  simp only [Grid.eval]; opt_simp
  split_ifs with h1 h2
  · exact hy 0 (by omega)
  · exact hy _ (by omega)
  · have hf : g.front < v := not_le.mp h1
    have hb : v < g.back := not_le.mp h2
    obtain ⟨hP, hQ⟩ := lowerBound_spec g hs v (g.size + 1) 0 g.size (by omega) (by omega)
      (fun j hj => by omega) (fun j hj hjn => by omega)
    set it := g.lowerBound v (g.size + 1) 0 g.size with hit
    have hit_lt : it < g.size := by
      by_contra hge
      have := hP (g.size - 1) (by omega)
      simp only [Grid.back] at hb; linarith
    have hit_pos : 0 < it := by
      by_contra h0
      have := hQ 0 (by omega) (by omega)
      simp only [Grid.front] at hf; linarith
    have hfind : g.find v = if v ≠ g.x it then it - 1 else it := by
      simp only [Grid.find]; opt_simp; rfl
    rw [hfind]
    by_cases he : v = g.x it
    · rw [if_neg (not_not.mpr he)]
      have hlast : it < g.size - 1 := by
        by_contra hge
        have : it = g.size - 1 := by omega
        rw [this] at he; simp only [Grid.back] at hb; linarith
      apply interp_pos _ _ _ _ _ (hs it (it + 1) (by omega) (by omega)) (le_of_eq he.symm)
        (by rw [he]; exact le_of_lt (hs it (it + 1) (by omega) (by omega)))
        (hy it hit_lt) (hy (it + 1) (by omega))
    · rw [if_pos he]
      have hxl := hP (it - 1) (by omega)
      have hxr := hQ it (le_refl _) hit_lt
      have h1' : it - 1 + 1 = it := by omega
      rw [h1']
      apply interp_pos _ _ _ _ _ (hs (it - 1) it (by omega) hit_lt) (le_of_lt hxl) hxr
        (hy (it - 1) (by omega)) (hy it hit_lt)

end CelerVerif.Optical
