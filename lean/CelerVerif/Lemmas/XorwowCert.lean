/-
Certificates in F2[z]/(P): Cayley–Hamilton for the xorwow transition, certified modular
squaring / multiplication / powering, all executed by the kernel (`decide +kernel`) on
natural-number encoded polynomials and lifted to all states by linearity.
-/
import CelerVerif.Lemmas.XorwowJump

namespace CelerVerif.Xorwow
open CelerVerif.Generated.Xorwow

local infixl:65 " ⊞ " => XS.xor

/-- characteristic polynomial of `next` (degree 160), computed at design time;
    *checked* here by `cayley_hamilton`. -/
def P : Nat := 0x100000f0e0f3c0035000621210861003000060001

/-- fuel version of `ev` for kernel evaluation -/
def evF : Nat → Nat → XS → XS
  | 0, _, _ => XS.zero
  | f + 1, g, x => sel (g % 2 == 1) x ⊞ evF f (g / 2) x.next

theorem evF_eq (f g : Nat) (h : g < 2 ^ f) (x : XS) : evF f g x = ev g x := by
  induction f generalizing g x with
  | zero =>
    have : g = 0 := by simpa using h
    subst this; simp [evF, ev_zero]
  | succ f ih =>
    have h2 : g / 2 < 2 ^ f := by rw [Nat.pow_succ] at h; omega
    rw [evF, ih _ h2, ← ev_unfold]

/-- state from a 160-bit number (word k = bits 32k … 32k+31) -/
def XS.ofNat (w : Nat) : XS :=
  ⟨BitVec.ofNat 32 w, BitVec.ofNat 32 (w >>> 32), BitVec.ofNat 32 (w >>> 64),
   BitVec.ofNat 32 (w >>> 96), BitVec.ofNat 32 (w >>> 128)⟩

def XS.toNat (x : XS) : Nat :=
  2 ^ 32 * (2 ^ 32 * (2 ^ 32 * (2 ^ 32 * x.s4.toNat + x.s3.toNat) + x.s2.toNat) + x.s1.toNat)
    + x.s0.toNat

theorem XS.toNat_lt (x : XS) : x.toNat < 2 ^ 160 := by
  have h0 := x.s0.isLt; have h1 := x.s1.isLt; have h2 := x.s2.isLt
  have h3 := x.s3.isLt; have h4 := x.s4.isLt
  unfold XS.toNat; omega

theorem XS.ofNat_toNat (x : XS) : XS.ofNat x.toNat = x := by
  have h0 := x.s0.isLt; have h1 := x.s1.isLt; have h2 := x.s2.isLt
  have h3 := x.s3.isLt; have h4 := x.s4.isLt
  cases x with | mk s0 s1 s2 s3 s4 =>
  simp only [XS.ofNat, XS.toNat, XS.mk.injEq, Nat.shiftRight_eq_div_pow] at *
  refine ⟨?_, ?_, ?_, ?_, ?_⟩ <;> apply BitVec.eq_of_toNat_eq <;>
    simp only [BitVec.toNat_ofNat] <;> omega

theorem XS.ofNat_xor (a b : Nat) : XS.ofNat (a ^^^ b) = XS.ofNat a ⊞ XS.ofNat b := by
  simp [XS.ofNat, XS.xor, Nat.shiftRight_xor_distrib, BitVec.ofNat_xor]

theorem XS.ofNat_zero : XS.ofNat 0 = XS.zero := by
  simp [XS.ofNat, XS.zero]

theorem lift_bits (f : Nat → XS)
    (hadd : ∀ a b, f (a ^^^ b) = f a ⊞ f b)
    (n : Nat) (hb : ∀ i, i < n → f (2 ^ i) = XS.zero) (h0 : f 0 = XS.zero) :
    ∀ w, w < 2 ^ n → f w = XS.zero := by
  induction n with
  | zero =>
    intro w hw
    have : w = 0 := by simpa using hw
    subst this; exact h0
  | succ n ih =>
    intro w hw
    have ih' := ih (fun i hi => hb i (Nat.lt_succ_of_lt hi))
    by_cases hlt : w < 2 ^ n
    · exact ih' w hlt
    · have hge : 2 ^ n ≤ w := Nat.le_of_not_lt hlt
      have hr : w - 2 ^ n < 2 ^ n := by
        have : 2 ^ (n + 1) = 2 ^ n + 2 ^ n := by rw [Nat.pow_succ]; omega
        omega
      have : w = 2 ^ n ^^^ (w - 2 ^ n) := by rw [← two_pow_add_eq_xor hr]; omega
      rw [this, hadd, hb n (Nat.lt_succ_self n), ih' _ hr]; simp

/-- the finite check: `P(next)` kills every unit vector -/
theorem ch_units :
    (List.range 160).all (fun i => evF 161 P (XS.ofNat (2 ^ i)) == XS.zero) = true := by
  decide +kernel

/-- **Cayley–Hamilton for the code's `next()`**: `P(next) = 0` on every state. -/
theorem cayley_hamilton (x : XS) : ev P x = XS.zero := by
  have hP : P < 2 ^ 161 := by decide
  have key : ∀ w, w < 2 ^ 160 → ev P (XS.ofNat w) = XS.zero := by
    apply lift_bits (fun w => ev P (XS.ofNat w))
    · intro a b; simp only [XS.ofNat_xor, ev_state_xor]
    · intro i hi
      have := ch_units
      rw [List.all_eq_true] at this
      have h := this i (List.mem_range.mpr hi)
      rw [evF_eq _ _ hP] at h
      exact eq_of_beq h
    · simp [XS.ofNat_zero, ev_state_zero]
  have := key x.toNat x.toNat_lt
  rwa [XS.ofNat_toNat] at this

/-! ### certified arithmetic modulo P -/

/-- remainder of a polynomial of degree < 160+k modulo P (degree 160), reducing bit
    160+k-1 … 160 in turn; only used to *produce* certificates, nothing is proved about it.
    (The `if` is kept at the head so that the kernel evaluates eagerly.) -/
def pmodP : Nat → Nat → Nat
  | 0, a => a
  | k + 1, a => if (a >>> (160 + k)) % 2 = 1 then pmodP k (a ^^^ (P <<< k)) else pmodP k a

/-- the matching quotient -/
def pquoP : Nat → Nat → Nat → Nat
  | 0, _, q => q
  | k + 1, a, q =>
    if (a >>> (160 + k)) % 2 = 1 then pquoP k (a ^^^ (P <<< k)) (q ^^^ (1 <<< k))
    else pquoP k a q

/-- `mulCert a b = some r` certifies `a·b = r + q·P` with everything below 2^160 -/
def mulCert (a b : Nat) : Option Nat :=
  let ab := clmul 160 a b
  let r := pmodP 160 ab
  let q := pquoP 160 ab 0
  if ab == (r ^^^ clmul 160 q P) && decide (a < 2 ^ 160) && decide (q < 2 ^ 160)
      && decide (r < 2 ^ 160)
  then some r else none

theorem mulCert_sound {a b r : Nat} (h : mulCert a b = some r) :
    r < 2 ^ 160 ∧ ∀ x, ev r x = ev a (ev b x) := by
  unfold mulCert at h
  simp only [Bool.and_eq_true, beq_iff_eq, decide_eq_true_eq, Option.ite_none_right_eq_some,
    Option.some.injEq] at h
  obtain ⟨⟨⟨⟨h1, ha⟩, hq⟩, hr⟩, rfl⟩ := h
  refine ⟨hr, fun x => ?_⟩
  have e1 := ev_clmul 160 a b ha x
  rw [h1, ev_poly_xor, ev_clmul 160 _ P hq, cayley_hamilton, ev_state_zero, XS.xor_zero] at e1
  exact e1

/-- n certified squarings -/
def sqN : Nat → Nat → Option Nat
  | 0, a => some a
  | n + 1, a => (mulCert a a).bind (sqN n)

theorem sqN_sound {n a r m : Nat} (h : sqN n a = some r) (ha : ∀ x, ev a x = iter m x) :
    ∀ x, ev r x = iter (m * 2 ^ n) x := by
  induction n generalizing a m with
  | zero =>
    simp only [sqN, Option.some.injEq] at h; subst h; simpa using ha
  | succ n ih =>
    simp only [sqN, Option.bind_eq_some_iff] at h
    obtain ⟨s, hs, hr⟩ := h
    have hs' := (mulCert_sound hs).2
    have : ∀ x, ev s x = iter (m * 2) x := by
      intro x; rw [hs', ha, ha, Nat.mul_two, iter_add]
    have := ih hr this
    intro x; rw [this x, Nat.pow_succ]; congr 1; ac_rfl

/-- certified `z^e mod P` by the binary method (fuel ≥ bit length of e) -/
def powZ : Nat → Nat → Option Nat
  | 0, _ => none
  | f + 1, e =>
    if e = 0 then some 1
    else (powZ f (e / 2)).bind fun h => (mulCert h h).bind fun s =>
      if e % 2 = 1 then mulCert s 2 else some s

theorem powZ_sound {f e r : Nat} (h : powZ f e = some r) : ∀ x, ev r x = iter e x := by
  induction f generalizing e r with
  | zero => simp [powZ] at h
  | succ f ih =>
    rw [powZ] at h
    split at h
    · next he => subst he; simp only [Option.some.injEq] at h; subst h; intro x; simp [ev_one, iter]
    · simp only [Option.bind_eq_some_iff] at h
      obtain ⟨hh, hhe, s, hs, hr⟩ := h
      have ihh := ih hhe
      have hs' := (mulCert_sound hs).2
      have hsx : ∀ x, ev s x = iter (e / 2 + e / 2) x := by
        intro x; rw [hs', ihh, ihh, iter_add]
      split at hr
      · next ho =>
        have hr' := (mulCert_sound hr).2
        intro x
        have h2 : ev 2 x = iter 1 x := by
          have := ev_pow_two 1 x; simpa using this
        rw [hr', h2, hsx, ← iter_add]; congr 1; omega
      · next ho =>
        simp only [Option.some.injEq] at hr; subst hr
        intro x; rw [hsx]; congr 1; omega

end CelerVerif.Xorwow
