/-
Bounding boxes promised by the builds at ℝ (sound ones proved, unsound ones refuted by a witness),
and the parallelepiped's y-extent.
-/
import CelerVerif.Lemmas.SolidsPrim

namespace CelerVerif.Solids
open CelerVerif CelerVerif.Surf

theorem ext_le_fin (a b : ℝ) : Ext.le (Ext.fin a) (Ext.fin b) = true ↔ a ≤ b := by
  simp only [Ext.le]; num_simp

theorem contains_ofPoints (lo hi p : Vec3 ℝ) :
    (BBox.ofPoints lo hi).contains p = true ↔
      (lo.x ≤ p.x ∧ p.x ≤ hi.x) ∧ (lo.y ≤ p.y ∧ p.y ≤ hi.y) ∧ (lo.z ≤ p.z ∧ p.z ≤ hi.z) := by
  simp only [BBox.contains, BBox.ofPoints, Bool.and_eq_true, ext_le_fin]
  tauto

/-- the code's √3 literal is not below √3, the √2 literal not above √2 -/
theorem sqrtThree_sq : (3 : ℝ) ≤ (sqrtThree : ℝ) * sqrtThree := by
  unfold sqrtThree
  show (3 : ℝ) ≤ (OfScientific.ofScientific 173205080756887729353 true 20 : ℝ)
      * (OfScientific.ofScientific 173205080756887729353 true 20 : ℝ)
  norm_num

theorem sqrtThree_pos : (0 : ℝ) < (sqrtThree : ℝ) := by
  unfold sqrtThree
  show (0 : ℝ) < (OfScientific.ofScientific 173205080756887729353 true 20 : ℝ)
  norm_num

/-! ### ellipsoid: both promised boxes are sound -/
theorem ellipsoidBoxes_sound (r p : Vec3 ℝ) (hx : 0 < r.x) (hy : 0 < r.y) (hz : 0 < r.z) :
    ((ellipsoidBoxes r).2.contains p = true → inEllipsoid r p = true) ∧
    (inEllipsoid r p = true → (ellipsoidBoxes r).1.contains p = true) := by
  unfold ellipsoidBoxes inEllipsoid ellipsoidForm
  simp only [contains_ofPoints]
  num_simp
  have h3 := sqrtThree_sq
  have h3p := sqrtThree_pos
  set k : ℝ := 1 / (sqrtThree : ℝ) with hk
  have hkpos : 0 < k := by rw [hk]; positivity
  have hk3 : 3 * (k * k) ≤ 1 := by
    rw [hk]; field_simp
    first | (rw [pow_two]; exact h3) | nlinarith
  constructor
  · rintro ⟨⟨a1, a2⟩, ⟨b1, b2⟩, ⟨c1, c2⟩⟩
    -- |x/rx| ≤ k etc.
    have ex : (p.x / r.x) * (p.x / r.x) ≤ k * k := by
      have h1 : -k ≤ p.x / r.x := by rw [le_div_iff₀ hx]; linarith
      have h2 : p.x / r.x ≤ k := by rw [div_le_iff₀ hx]; linarith
      nlinarith
    have ey : (p.y / r.y) * (p.y / r.y) ≤ k * k := by
      have h1 : -k ≤ p.y / r.y := by rw [le_div_iff₀ hy]; linarith
      have h2 : p.y / r.y ≤ k := by rw [div_le_iff₀ hy]; linarith
      nlinarith
    have ez : (p.z / r.z) * (p.z / r.z) ≤ k * k := by
      have h1 : -k ≤ p.z / r.z := by rw [le_div_iff₀ hz]; linarith
      have h2 : p.z / r.z ≤ k := by rw [div_le_iff₀ hz]; linarith
      nlinarith
    linarith
  · intro h
    have sx : (p.x / r.x) * (p.x / r.x) ≤ 1 := by nlinarith [mul_self_nonneg (p.y / r.y), mul_self_nonneg (p.z / r.z)]
    have sy : (p.y / r.y) * (p.y / r.y) ≤ 1 := by nlinarith [mul_self_nonneg (p.x / r.x), mul_self_nonneg (p.z / r.z)]
    have sz : (p.z / r.z) * (p.z / r.z) ≤ 1 := by nlinarith [mul_self_nonneg (p.y / r.y), mul_self_nonneg (p.x / r.x)]
    have bx := abs_le_of_sq_le_sq' (by nlinarith : (p.x / r.x) ^ 2 ≤ 1 ^ 2) (by norm_num)
    have by' := abs_le_of_sq_le_sq' (by nlinarith : (p.y / r.y) ^ 2 ≤ 1 ^ 2) (by norm_num)
    have bz := abs_le_of_sq_le_sq' (by nlinarith : (p.z / r.z) ^ 2 ≤ 1 ^ 2) (by norm_num)
    rw [le_div_iff₀ hx, div_le_iff₀ hx] at bx
    rw [le_div_iff₀ hy, div_le_iff₀ hy] at by'
    rw [le_div_iff₀ hz, div_le_iff₀ hz] at bz
    exact ⟨⟨by linarith [bx.1], by linarith [bx.2]⟩, ⟨by linarith [by'.1], by linarith [by'.2]⟩,
      ⟨by linarith [bz.1], by linarith [bz.2]⟩⟩

/-! ### sphere: `SurfaceClipper` uses √3/2 where the inscribed cube needs 1/√3 -/

/-- the interior box `SurfaceClipper` derives from the unit sphere: corners at ±(√3/2) -/
noncomputable def unitSphereInterior : BBox ℝ :=
  (clipInside (Zone.infinite : Zone ℝ) (Surface.sphereCentered (1 : ℝ))).interior

theorem unitSphereInterior_eq :
    unitSphereInterior
      = BBox.ofPoints ⟨0 - (sqrtThree : ℝ) / 2 * 1, 0 - (sqrtThree : ℝ) / 2 * 1, 0 - (sqrtThree : ℝ) / 2 * 1⟩
          ⟨0 + (sqrtThree : ℝ) / 2 * 1, 0 + (sqrtThree : ℝ) / 2 * 1, 0 + (sqrtThree : ℝ) / 2 * 1⟩ := by
  unfold unitSphereInterior clipInside
  simp only [Zone.infinite, BBox.infinite, BBox.shrinkLo, BBox.shrinkHi, Vec3.set, Vec3.get,
    Axis.toNat, Ext.fmax, Ext.fmin, Ext.max, Ext.min, Ext.lt, Vec3.ax, BBox.ofPoints, if_true]
  num_simp
  simp only [Real.sqrt_one]

/-- ★(negative) the interior box reported for a sphere is NOT inside the sphere -/
theorem sphere_interior_bbox_unsound :
    ∃ p : Vec3 ℝ, unitSphereInterior.contains p = true ∧ inSphere 1 p = false := by
  refine ⟨⟨4 / 5, 4 / 5, 4 / 5⟩, ?_, ?_⟩
  · rw [unitSphereInterior_eq, contains_ofPoints]
    have h3 := sqrtThree_sq
    have h3p := sqrtThree_pos
    have : (8 : ℝ) / 5 ≤ (sqrtThree : ℝ) := by nlinarith
    simp only
    refine ⟨⟨by linarith, by linarith⟩, ⟨by linarith, by linarith⟩, ⟨by linarith, by linarith⟩⟩
  · unfold inSphere
    num_simp
    norm_num

/-! ### parallelepiped -/

/-- ★(negative) the exterior box promised by `Parallelepiped::build` (±(a + b + c)) does not
    contain the emitted region: α = −atan(3/4), θ = 0, unit half-lengths; the point (9/10, 0, 0)
    satisfies every emitted literal but lies outside the box, whose x half-width is 2/5 -/
theorem ppiped_exterior_bbox_unsound :
    ∃ p : Vec3 ℝ, Holds (emitPpiped ⟨1, 1, 1⟩ (-3 / 5) (4 / 5) 0 1 0 1) p
      ∧ (ppipedBox ⟨1, 1, 1⟩ (-3 / 5 : ℝ) (4 / 5) 0 1 0 1).contains p = false := by
  refine ⟨⟨9 / 10, 0, 0⟩, ?_, ?_⟩
  · unfold Holds
    simp only [emitPpiped, ppipedFaces, ppipedBase, cross, makeUnit, List.forall_mem_cons,
      List.not_mem_nil, false_imp_iff, implies_true, and_true, Surface.quadric, reduceCtorEq,
      iff_false, iff_true]
    vec_simp
    num_simp
    norm_num
  · unfold ppipedBox
    simp only [ppipedBase]
    num_simp
    norm_num
    rw [Bool.eq_false_iff]
    intro hc
    rw [contains_ofPoints] at hc
    norm_num at hc

/-- ★(negative) against the DOCUMENTED parallelepiped (half-lengths are the projections of the
    edges, = G4Para): with α ≠ 0 the emitted y-faces sit at ±hy·cos α instead of ±hy.  Witness:
    α = atan(3/4), θ = 0, unit half-lengths, p = (0, 9/10, 0) is in the documented solid but the
    emitted literal `inside Plane{(0,1,0), 4/5}` fails there -/
theorem ppiped_documented_extent_violated :
    ∃ p : Vec3 ℝ, inPpiped ⟨1, 1, 1⟩ (3 / 5) (4 / 5) 0 1 0 1 p = true
      ∧ OffSurfaces (emitPpiped ⟨1, 1, 1⟩ (3 / 5 : ℝ) (4 / 5) 0 1 0 1) p
      ∧ ¬ Holds (emitPpiped ⟨1, 1, 1⟩ (3 / 5 : ℝ) (4 / 5) 0 1 0 1) p := by
  refine ⟨⟨0, 9 / 10, 0⟩, ?_, ?_, ?_⟩
  · unfold inPpiped
    simp only [ppipedEdges]
    num_simp
    norm_num [abs_le]
  · unfold OffSurfaces
    simp only [emitPpiped, ppipedFaces, ppipedBase, cross, makeUnit, List.forall_mem_cons,
      List.not_mem_nil, false_imp_iff, implies_true, and_true, Surface.quadric]
    vec_simp
    num_simp
    norm_num
  · unfold Holds
    simp only [emitPpiped, ppipedFaces, ppipedBase, cross, makeUnit, List.forall_mem_cons,
      List.not_mem_nil, false_imp_iff, implies_true, and_true, Surface.quadric, reduceCtorEq,
      iff_false, iff_true]
    vec_simp
    num_simp
    norm_num

/-- for α = 0 and θ = 0 the parallelepiped is the box and the emission is sound -/
theorem emitPpiped_box_sound (h p : Vec3 ℝ) (hx : 0 < h.x) (hy : 0 < h.y) (hz : 0 < h.z)
    (hoff : OffSurfaces (emitPpiped h 0 1 0 1 0 1) p) :
    inPpiped h 0 1 0 1 0 1 p = true ↔ Holds (emitPpiped h 0 1 0 1 0 1) p := by
  have nx : Real.sqrt (h.y * h.z * (h.y * h.z)) = h.y * h.z :=
    Real.sqrt_mul_self (by positivity)
  have ny : Real.sqrt (h.z * h.x * (h.z * h.x)) = h.z * h.x :=
    Real.sqrt_mul_self (by positivity)
  unfold inPpiped
  unfold OffSurfaces at hoff
  unfold Holds
  simp only [emitPpiped, ppipedFaces, ppipedBase, ppipedEdges, cross, makeUnit, List.forall_mem_cons,
    List.not_mem_nil, false_imp_iff, implies_true, and_true, Surface.quadric, reduceCtorEq,
    iff_false, iff_true] at hoff ⊢
  vec_simp at hoff ⊢
  num_simp at hoff ⊢
  simp only [mul_zero, zero_mul, sub_zero, add_zero, zero_add, mul_one, one_mul, div_one] at hoff ⊢
  have e1 : Real.sqrt (h.y * h.z * (h.y * h.z)) = h.y * h.z := nx
  have e2 : Real.sqrt (h.z * h.x * (h.z * h.x)) = h.z * h.x := ny
  simp only [e1, e2] at hoff ⊢
  have hyz : h.y * h.z ≠ 0 := by positivity
  have hzx : h.z * h.x ≠ 0 := by positivity
  have i1 : h.y * h.z * (1 / (h.y * h.z)) = 1 := by field_simp
  have i2 : h.z * h.x * (1 / (h.z * h.x)) = 1 := by field_simp
  simp only [i1, i2, mul_one, one_mul] at hoff ⊢
  simp only [abs_le, not_lt, div_le_iff₀ hx, div_le_iff₀ hy, div_le_iff₀ hz, le_div_iff₀ hx,
    le_div_iff₀ hy, le_div_iff₀ hz]
  obtain ⟨h1, h2, h3, h4, h5, h6⟩ := hoff
  constructor
  · rintro ⟨⟨⟨a1, a2⟩, ⟨b1, b2⟩⟩, ⟨c1, c2⟩⟩
    exact ⟨by linarith, lt_of_le_of_ne (by linarith) h2, by linarith,
      lt_of_le_of_ne (by linarith) h4, by linarith, lt_of_le_of_ne (by linarith) h6⟩
  · rintro ⟨a1, a2, b1, b2, c1, c2⟩
    exact ⟨⟨⟨by linarith, by linarith⟩, ⟨by linarith, by linarith⟩⟩, ⟨by linarith, by linarith⟩⟩

end CelerVerif.Solids
