/- Conditional liveness: iterating draining steps (C02). -/
import CelerVerif.Lemmas.TrackInitDrain

namespace CelerVerif.TrackInit

/-- consecutive successful Stepper calls without new primaries -/
inductive RunsTo : State → List (List Outcome) → State → Prop where
  | nil {s : State} : RunsTo s [] s
  | cons {s s1 s' : State} {o : List Outcome} {os : List (List Outcome)} :
      stepAny [] o s = .ok s1 → RunsTo s1 os s' → RunsTo s (o :: os) s'

/-- one draining Stepper call from a reachable state -/
theorem drain_call {cfg : Cfg} {s : State} (h : Reachable cfg s) (o : List Outcome)
    (hd : DrainOracle cfg o) :
    ∃ s', stepAny [] o s = .ok s' ∧ Reachable cfg s' ∧ liveL s'.slots = [] ∧
      s'.c.numVacancies = cfg.slots ∧ s'.c.numAlive = 0 ∧
      s'.c.numInitializers = s.c.numInitializers - min s.c.numVacancies s.c.numInitializers := by
  have hI := inv_of_reachable (itSpec_all cfg) h
  have hpre := pre_of_inv hI [] (by intro p hp; cases hp) (by simp; exact hI.cap)
  obtain ⟨s', hs', hk⟩ := stepBody_drain (itSpec_all cfg) hpre o hd
  have hgoal : stepAny [] o s = step o s := rfl
  have hstep : stepAny [] o s = .ok s' := by
    rw [hgoal, step_nil_eq o s hI.pending]; exact hs'
  refine ⟨s', hstep, Reachable.step [] o h (by intro p hp; cases hp) hd.ok hstep, hk.empty,
    hk.nvac, hk.alive, ?_⟩
  have := hk.queued
  simpa using this

/-- from a state with all slots empty, `m` draining steps remove `m * slots` queued tracks -/
theorem drain_run {cfg : Cfg} (_hslots : 0 < cfg.slots) (os : List (List Outcome))
    (hos : ∀ o ∈ os, DrainOracle cfg o) :
    ∀ (m : Nat) (s : State), Reachable cfg s → s.c.numVacancies = cfg.slots →
      s.c.numAlive = 0 → s.c.numInitializers ≤ m * cfg.slots → m ≤ os.length →
      ∃ s', RunsTo s os s' ∧ Reachable cfg s' ∧ s'.c.numInitializers = 0 ∧ s'.c.numAlive = 0 := by
  induction os with
  | nil =>
    intro m s h _ ha hq hm
    have : m = 0 := by simpa using hm
    subst this
    exact ⟨s, RunsTo.nil, h, by omega, ha⟩
  | cons o os ih =>
    intro m s h hv ha hq hm
    obtain ⟨s1, hs1, hr1, _, hv1, ha1, hq1⟩ := drain_call h o (hos o (by simp))
    have hq1' : s1.c.numInitializers ≤ (m - 1) * cfg.slots := by
      rw [hq1, hv]
      cases m with
      | zero => simp at hq; rw [hq]; simp
      | succ k =>
        simp only [Nat.add_sub_cancel]
        rw [Nat.succ_mul] at hq
        by_cases hc : cfg.slots ≤ s.c.numInitializers
        · rw [Nat.min_eq_left hc]; omega
        · rw [Nat.min_eq_right (by omega)]; omega
    obtain ⟨s', hrun, hr', hq', ha'⟩ := ih (fun o' ho' => hos o' (by simp [ho'])) (m - 1) s1 hr1
      hv1 ha1 hq1' (by simp at hm; omega)
    exact ⟨s', RunsTo.cons hs1 hrun, hr', hq', ha'⟩

/-- conditional liveness -/
theorem liveness_drain {cfg : Cfg} (hslots : 0 < cfg.slots) {s : State} (h : Reachable cfg s)
    (os : List (List Outcome)) (hos : ∀ o ∈ os, DrainOracle cfg o)
    (hlen : s.c.numInitializers / cfg.slots + 2 ≤ os.length) :
    ∃ s', RunsTo s os s' ∧ Reachable cfg s' ∧ s'.c.numInitializers = 0 ∧ s'.c.numAlive = 0 := by
  cases os with
  | nil => simp at hlen
  | cons o os =>
    obtain ⟨s1, hs1, hr1, _, hv1, ha1, hq1⟩ := drain_call h o (hos o (by simp))
    have hle : s1.c.numInitializers ≤ s.c.numInitializers := by rw [hq1]; omega
    have hm : s1.c.numInitializers ≤ (s.c.numInitializers / cfg.slots + 1) * cfg.slots := by
      have := Nat.lt_succ_iff.mp (Nat.lt_succ_of_le (Nat.le_refl (s.c.numInitializers / cfg.slots)))
      have h2 : s.c.numInitializers < (s.c.numInitializers / cfg.slots + 1) * cfg.slots := by
        rw [Nat.mul_comm]; exact Nat.lt_mul_div_succ _ hslots
      omega
    obtain ⟨s', hrun, hr', hq', ha'⟩ := drain_run hslots os
      (fun o' ho' => hos o' (by simp [ho'])) _ s1 hr1 hv1 ha1 hm (by simp at hlen; omega)
    exact ⟨s', RunsTo.cons hs1 hrun, hr', hq', ha'⟩

end CelerVerif.TrackInit
