/- Secondary stack smaller than one interaction's request: the stepping loop never completes
   (C16 finding), and the side condition under which an interaction is always carried out. -/
import CelerVerif.Lemmas.TrackInitKeep
import CelerVerif.Lemmas.TrackInitStarved
import CelerVerif.Lemmas.TrackInitITC3

namespace CelerVerif.TrackInit

theorem stepReq_eq (reqs : List Request) (s : State) (stk : Stack.Stack) :
    stepReq reqs s stk =
      (stepBody (effectiveOutcomes (preStep (initializeTracks (extendFromPrimaries
          { s with c := { s.c with numGenerated := 0 } }))).slots reqs (Stack.clear stk)).1
        { s with c := { s.c with numGenerated := 0 } },
       (effectiveOutcomes (preStep (initializeTracks (extendFromPrimaries
          { s with c := { s.c with numGenerated := 0 } }))).slots reqs (Stack.clear stk)).2.2) :=
  rfl

theorem pre_of_inv' {cfg : Cfg} {s : State} (hI : Inv cfg s) :
    Pre cfg { s with c := { s.c with numGenerated := 0 } } :=
  ⟨⟨hI.lens.cfg_eq, hI.lens.slots, hI.lens.inits, hI.lens.parents, hI.lens.secCounts,
      hI.lens.counters⟩,
   ⟨hI.core.ni_le, hI.core.below, hI.core.nodup, hI.core.once, hI.core.slots, hI.core.parent,
      hI.core.hasId⟩,
   (by intro p hp
       have h : p ∈ s.pending := hp
       rw [hI.pending] at h; cases h),
   (by show s.c.numInitializers + s.pending.length ≤ cfg.capacity
       rw [hI.pending]; simpa using hI.cap),
   hI.vac, hI.nvac, hI.status, hI.occupied⟩

/-- one Stepper call in the starved configuration: nothing queued, every request larger than
    the stack ⇒ the call succeeds, every interaction fails, the number of living tracks, the
    (empty) queue and the allocator are unchanged -/
theorem starved_step {cfg : Cfg} {s : State} {stk : Stack.Stack} (hI : Inv cfg s)
    (hq : s.c.numInitializers = 0) (reqs : List Request) (hst : Starved stk.cap reqs) :
    ∃ s', stepReq reqs s stk = (.ok s', Stack.clear stk) ∧ Inv cfg s' ∧
      s'.c.numInitializers = 0 ∧ (liveL s'.slots).length = (liveL s.slots).length ∧
      (result s').alive = (liveL s.slots).length ∧ (result s').queued = 0 := by
  rw [stepReq_eq]
  have hg := effGo_starved 0 (preStep (initializeTracks (extendFromPrimaries
      { s with c := { s.c with numGenerated := 0 } }))).slots reqs (Stack.clear stk)
    (by simp [Stack.clear]) (by simpa [Stack.clear] using hst)
  have hko : KeepOracle (effectiveOutcomes (preStep (initializeTracks (extendFromPrimaries
      { s with c := { s.c with numGenerated := 0 } }))).slots reqs (Stack.clear stk)).1 := hg.1
  have hstk : (effectiveOutcomes (preStep (initializeTracks (extendFromPrimaries
      { s with c := { s.c with numGenerated := 0 } }))).slots reqs (Stack.clear stk)).2.2
      = Stack.clear stk := hg.2
  obtain ⟨s', hs', hk⟩ := stepBody_keep (itSpec_all cfg) (pre_of_inv' hI) hI.pending hq _ hko
  refine ⟨s', ?_, hk.inv, hk.queued, hk.same, hk.alive, hk.queued⟩
  rw [hs', hstk]

/-- consecutive successful Stepper calls driven by interaction requests -/
inductive ReqRuns : State → Stack.Stack → List (List Request) → State → Prop where
  | nil {s : State} {stk : Stack.Stack} : ReqRuns s stk [] s
  | cons {s s1 s' : State} {stk stk1 : Stack.Stack} {rs : List Request}
      {rss : List (List Request)} :
      stepReq rs s stk = (.ok s1, stk1) → ReqRuns s1 stk1 rss s' → ReqRuns s stk (rs :: rss) s'

/-- the livelock: in the starved configuration every run, of any length, ends with the same
    number of living tracks and an empty queue; and such runs exist for every length (the loop
    does not stop with an error either) -/
theorem starved_runs {cfg : Cfg} (rss : List (List Request)) :
    ∀ (s : State) (stk : Stack.Stack), Inv cfg s → s.c.numInitializers = 0 →
      (∀ rs ∈ rss, Starved stk.cap rs) →
      (∃ s', ReqRuns s stk rss s') ∧
      (∀ s', ReqRuns s stk rss s' →
        (liveL s'.slots).length = (liveL s.slots).length ∧ s'.c.numInitializers = 0) := by
  induction rss with
  | nil =>
    intro s stk _ hq _
    exact ⟨⟨s, ReqRuns.nil⟩, fun s' h => by cases h; exact ⟨rfl, hq⟩⟩
  | cons rs rss ih =>
    intro s stk hI hq hst
    obtain ⟨s1, hs1, hI1, hq1, hsame, _, _⟩ := starved_step hI hq rs (hst rs (by simp))
    have hcap : (Stack.clear stk).cap = stk.cap := rfl
    obtain ⟨⟨s', hrun⟩, hall⟩ := ih s1 (Stack.clear stk) hI1 hq1
      (fun rs' hrs' => by rw [hcap]; exact hst rs' (by simp [hrs']))
    refine ⟨⟨s', ReqRuns.cons hs1 hrun⟩, ?_⟩
    intro s'' h
    cases h with
    | cons hstep hrest =>
      rw [hs1] at hstep
      injection hstep with h1 h2
      injection h1 with h1
      subst h1 h2
      have := hall s'' hrest
      exact ⟨this.1.trans hsame, this.2⟩

end CelerVerif.TrackInit
