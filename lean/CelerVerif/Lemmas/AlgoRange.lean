/- Helper lemmas for C18: Range / Count stepping. -/
import CelerVerif.Model.Algo

namespace CelerVerif.Algo

theorem range_succ_map {γ : Type} (f : Nat → γ) (n : Nat) :
    (List.range (n + 1)).map f = f 0 :: (List.range n).map (fun k => f (k + 1)) := by
  rw [List.range_succ_eq_map]
  simp [List.map_map, Function.comp_def]

/-- forward stepping (`step ≥ 0`): values `v, v+s, …` while `< stop` -/
theorem stepIter_nonneg (stop s : Int) (hs : 0 ≤ s) (n fuel : Nat) (v : Int) (hf : n ≤ fuel)
    (hin : ∀ k : Nat, k < n → v + k * s < stop) (hout : ¬ (v + n * s < stop)) :
    stepIter stop s fuel v = (List.range n).map (fun k : Nat => v + k * s) := by
  induction n generalizing fuel v with
  | zero =>
    simp at hout
    cases fuel with
    | zero => rfl
    | succ f => simp [stepIter, hs]; omega
  | succ n ih =>
    cases fuel with
    | zero => omega
    | succ f =>
      have h0 := hin 0 (by omega)
      simp at h0
      rw [range_succ_map]
      simp only [stepIter, hs, ↓reduceIte, h0, decide_true, Bool.not_true,
        Bool.false_eq_true]
      have := ih f (v + s) (by omega)
        (fun k hk => by have := hin (k + 1) (by omega); push_cast at this; rw [Int.add_mul] at this; omega)
        (by push_cast at hout; rw [Int.add_mul] at hout; omega)
      rw [this]
      simp only [Int.natCast_zero, Int.zero_mul, Int.add_zero, List.cons.injEq, true_and]
      apply List.map_congr_left
      intro k _
      push_cast; rw [Int.add_mul]; omega

/-- backward stepping (`step < 0`): values `v, v+s, …` while `≥ stop` -/
theorem stepIter_neg (stop s : Int) (hs : s < 0) (n fuel : Nat) (v : Int) (hf : n ≤ fuel)
    (hin : ∀ k : Nat, k < n → stop ≤ v + k * s) (hout : v + n * s < stop) :
    stepIter stop s fuel v = (List.range n).map (fun k : Nat => v + k * s) := by
  have hs' : ¬ (0 ≤ s) := by omega
  induction n generalizing fuel v with
  | zero =>
    simp at hout
    cases fuel with
    | zero => rfl
    | succ f => simp [stepIter, hs']; omega
  | succ n ih =>
    cases fuel with
    | zero => omega
    | succ f =>
      have h0 := hin 0 (by omega)
      simp at h0
      have h0' : ¬ (v < stop) := by omega
      rw [range_succ_map]
      simp only [stepIter, hs', ↓reduceIte, h0', decide_false, Bool.false_eq_true]
      have := ih f (v + s) (by omega)
        (fun k hk => by have := hin (k + 1) (by omega); push_cast at this; rw [Int.add_mul] at this; omega)
        (by push_cast at hout; rw [Int.add_mul] at hout; omega)
      rw [this]
      simp only [Int.natCast_zero, Int.zero_mul, Int.add_zero, List.cons.injEq, true_and]
      apply List.map_congr_left
      intro k _
      push_cast; rw [Int.add_mul]; omega

theorem countStep_eq (b s : Int) (n : Nat) :
    countStep b s n = (List.range n).map (fun k : Nat => b + k * s) := by
  induction n generalizing b with
  | zero => rfl
  | succ n ih =>
    rw [range_succ_map, countStep, ih]
    simp only [Int.natCast_zero, Int.zero_mul, Int.add_zero, List.cons.injEq, true_and]
    apply List.map_congr_left
    intro k _
    push_cast; rw [Int.add_mul]; omega

theorem unitIter_eq (stop : Int) (n fuel : Nat) (v : Int) (hf : n ≤ fuel) (hv : v + n = stop) :
    unitIter stop fuel v = (List.range n).map (fun k : Nat => v + k) := by
  induction n generalizing fuel v with
  | zero =>
    simp at hv
    cases fuel with
    | zero => rfl
    | succ f => simp [unitIter, hv]
  | succ n ih =>
    cases fuel with
    | zero => omega
    | succ f =>
      have hne : (v == stop) = false := by simp; omega
      rw [range_succ_map]
      simp only [unitIter, hne, Bool.false_eq_true, ↓reduceIte]
      rw [ih f (v + 1) (by omega) (by push_cast at hv; omega)]
      simp only [Int.natCast_zero, Int.add_zero, List.cons.injEq, true_and]
      apply List.map_congr_left
      intro k _
      push_cast; omega

end CelerVerif.Algo
