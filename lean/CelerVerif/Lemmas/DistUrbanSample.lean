/-
Sampling part of the Urban model at ℝ: bookkeeping of the Gaussian fast path of the excitation
loss, the split of the ionisation loss into a Gaussian part and single collisions (means add up
to Σ₃·⟨E⟩₃), and non-negativity of every contribution.
-/
import CelerVerif.Lemmas.DistUrban

namespace CelerVerif.Dist
open CelerVerif

/-- every uniform of the script is canonical -/
def CanonAll (s : List ℝ) : Prop := ∀ v ∈ s, Canon v

theorem CanonAll.suffix {r s : List ℝ} (h : CanonAll s) (hs : r <:+ s) : CanonAll r :=
  fun v hv => h v (hs.subset hv)

/-! ### suffix bookkeeping of the primitive samplers -/
theorem uniform_sample_inv (a b : ℝ) (s r : List ℝ) (x : ℝ)
    (h : (UniformReal.mk' a b).sample s = some (x, r)) : ∃ v, s = v :: r ∧ x = (b - a) * v + a := by
  cases s with
  | nil => simp [UniformReal.sample] at h
  | cons v t =>
    rw [uniform_eval] at h
    simp only [Option.some.injEq, Prod.mk.injEq] at h
    exact ⟨v, by rw [h.2], h.1.symm⟩

theorem normal_sample_suffix (n n' : Normal ℝ) (s r : List ℝ) (x : ℝ)
    (h : n.sample s = some (x, n', r)) : r <:+ s := by
  cases hsp : n.spare with
  | some sp =>
    rw [normal_eval_spare n sp hsp] at h
    simp only [Option.some.injEq, Prod.mk.injEq] at h
    rw [← h.2.2]
  | none =>
    match s with
    | [] => rw [normal_fresh_short n hsp [] (by simp)] at h; simp at h
    | [_] => rw [normal_fresh_short n hsp [_] (by simp)] at h; simp at h
    | u1 :: u2 :: t =>
      rw [normal_eval_fresh n hsp] at h
      simp only [Option.some.injEq, Prod.mk.injEq] at h
      rw [← h.2.2]
      exact ⟨[u1, u2], rfl⟩

theorem elossGaussLoop_suffix (maxLoss : ℝ) : ∀ (fuel : ℕ) (n : Normal ℝ) (s r : List ℝ) (x : ℝ),
    elossGaussLoop maxLoss fuel n s = some (x, r) → r <:+ s := by
  intro fuel
  induction fuel with
  | zero => intro n s r x h; simp [elossGaussLoop] at h
  | succ fuel ih =>
    intro n s r x h
    simp only [elossGaussLoop] at h
    split at h
    · simp at h
    · next x0 n0 s0 heq =>
      have h0 := normal_sample_suffix _ _ _ _ _ heq
      split_ifs at h
      · exact (ih _ _ _ _ h).trans h0
      · simp only [Option.some.injEq, Prod.mk.injEq] at h
        rw [← h.2]; exact h0

theorem poisson_sample_suffix (d d' : Poisson ℝ) (s r : List ℝ) (k : ℕ)
    (h : d.sample s = some (k, d', r)) : r <:+ s := by
  unfold Poisson.sample at h
  split_ifs at h
  · split at h
    · simp at h
    · next k0 s' heq =>
      simp only [Option.some.injEq, Prod.mk.injEq] at h
      obtain ⟨pre, hs, _⟩ := direct_spec s 0 _ _ _ heq
      rw [← h.2.2, hs]
      exact ⟨pre, rfl⟩
  · split at h
    · simp at h
    · next x n' s' heq =>
      simp only [Option.some.injEq, Prod.mk.injEq] at h
      rw [← h.2.2]
      exact normal_sample_suffix _ _ _ _ _ heq

/-! ### sample_fast_urban: symmetric about `mean`, inside [0, 2·mean] -/
theorem sampleFastUrban_spec (mean sd : ℝ) (fuel : ℕ) (s r : List ℝ) (x : ℝ) (hm : 0 ≤ mean)
    (hs : CanonAll s) (h : sampleFastUrban mean sd fuel s = some (x, r)) :
    0 ≤ x ∧ x ≤ 2 * mean ∧ r <:+ s := by
  unfold sampleFastUrban at h
  dist_simp at h
  split_ifs at h
  · have hsup := elossGauss_loop_bounds mean sd fuel s r x h
    exact ⟨le_of_lt hsup.1, hsup.2.1, hsup.2.2⟩
  · obtain ⟨v, hsv, hx⟩ := uniform_sample_inv _ _ _ _ _ h
    have hv : Canon v := hs v (by rw [hsv]; simp)
    obtain ⟨h0, h1, _⟩ := affine_mem (a := 0) (b := 2 * mean) (by linarith) hv
    rw [hx]
    exact ⟨h0, h1, by rw [hsv]; exact List.suffix_cons v r⟩
where
  elossGauss_loop_bounds (mean sd : ℝ) (fuel : ℕ) (s r : List ℝ) (x : ℝ)
      (h : elossGauss mean sd fuel s = some (x, r)) : 0 < x ∧ x ≤ 2 * mean ∧ r <:+ s := by
    unfold elossGauss at h
    have h1 := elossGaussLoop_spec _ _ _ _ _ _ h
    have h2 := elossGaussLoop_suffix _ _ _ _ _ _ h
    dist_simp at h1
    exact ⟨h1.1, h1.2, h2⟩

/-! ### excitation loss -/
/-- one level: the Gaussian parameters accumulate Σ·E and Σ·E² exactly for the levels with more
    than 8 expected excitations, independently of the script; the loss only grows -/
theorem excLevel_spec (xs be res mn vr : ℝ) (s : List ℝ) (res' mn' vr' : ℝ) (r : List ℝ)
    (hbe : 0 ≤ be) (hs : CanonAll s)
    (h : excLevel xs be (res, mn, vr) s = some ((res', mn', vr'), r)) :
    mn' = mn + (if 8 < xs then xs * be else 0) ∧
    vr' = vr + (if 8 < xs then xs * (be * be) else 0) ∧ res ≤ res' ∧ r <:+ s := by
  unfold excLevel at h
  eloss_simp at h
  split_ifs at h with h8 h0
  · simp only [Option.some.injEq, Prod.mk.injEq] at h
    obtain ⟨⟨h1, h2, h3⟩, h4⟩ := h
    rw [if_pos h8, if_pos h8, ← h1, ← h2, ← h3, ← h4]
    exact ⟨rfl, rfl, le_refl _, List.suffix_refl _⟩
  · rw [if_neg h8, if_neg h8]
    split at h
    · simp at h
    · next n d' s' heq =>
      have hsuf := poisson_sample_suffix _ _ _ _ _ heq
      split_ifs at h with hn
      · split at h
        · simp at h
        · next x s'' hequ =>
          simp only [Option.some.injEq, Prod.mk.injEq] at h
          obtain ⟨⟨h1, h2, h3⟩, h4⟩ := h
          obtain ⟨v, hsv, hx⟩ := uniform_sample_inv _ _ _ _ _ hequ
          have hv : Canon v := (hs.suffix hsuf) v (by rw [hsv]; simp)
          have hn1 : (1 : ℝ) ≤ (n : ℝ) := by exact_mod_cast hn
          have hxpos : 0 ≤ x := by
            rw [hx]
            simp only [NumR.ofNat_real]
            have e1 : ((n - 1 : ℕ) : ℝ) = (n : ℝ) - 1 := by
              rw [Nat.cast_sub (by omega)]; simp
            rw [e1]; push_cast
            nlinarith [hv.1, hv.2]
          rw [← h1, ← h2, ← h3, ← h4]
          refine ⟨by ring, by ring, by nlinarith, ?_⟩
          rw [hsv] at hsuf
          exact (List.suffix_cons v s'').trans hsuf
      · simp only [Option.some.injEq, Prod.mk.injEq] at h
        obtain ⟨⟨h1, h2, h3⟩, h4⟩ := h
        rw [← h1, ← h2, ← h3, ← h4]
        exact ⟨by ring, by ring, le_refl _, hsuf⟩
  · rw [if_neg h8, if_neg h8]
    simp only [Option.some.injEq, Prod.mk.injEq] at h
    obtain ⟨⟨h1, h2, h3⟩, h4⟩ := h
    rw [← h1, ← h2, ← h3, ← h4]
    exact ⟨by ring, by ring, le_refl _, List.suffix_refl _⟩

/-- ★ `sample_excitation_loss`: the Gaussian of the fast path has mean Σ_{Σᵢ>8} Σᵢ·Eᵢ (BOTH levels
    contribute when both are above the threshold) and variance Σ_{Σᵢ>8} Σᵢ·Eᵢ²; the result is
    non-negative -/
theorem sampleExcitationLoss_spec (u : Urban ℝ) (fuel : ℕ) (s r : List ℝ) (x : ℝ)
    (hb1 : 0 ≤ u.be1) (hb2 : 0 ≤ u.be2) (hs : CanonAll s)
    (h : sampleExcitationLoss u fuel s = some (x, r)) :
    0 ≤ x ∧ r <:+ s ∧
    ∃ res mn vr s2, 0 ≤ res ∧
      mn = (if 8 < u.xs1 then u.xs1 * u.be1 else 0) + (if 8 < u.xs2 then u.xs2 * u.be2 else 0) ∧
      vr = (if 8 < u.xs1 then u.xs1 * (u.be1 * u.be1) else 0)
            + (if 8 < u.xs2 then u.xs2 * (u.be2 * u.be2) else 0) ∧
      ((0 < vr ∧ ∃ g, sampleFastUrban mn (Real.sqrt vr) fuel s2 = some (g, r) ∧ x = res + g) ∨
       (vr ≤ 0 ∧ x = res)) := by
  unfold sampleExcitationLoss at h
  split at h
  · simp at h
  · next st1 s1 heq1 =>
    obtain ⟨res1, mn1, vr1⟩ := st1
    obtain ⟨hm1, hv1, hr1, hsuf1⟩ := excLevel_spec _ _ _ _ _ _ _ _ _ _ hb1 hs heq1
    split at h
    · simp at h
    · next res2 mn2 vr2 s2 heq2 =>
      obtain ⟨hm2, hv2, hr2, hsuf2⟩ := excLevel_spec _ _ _ _ _ _ _ _ _ _ hb2 (hs.suffix hsuf1) heq2
      dist_simp at hr1 hm1 hv1
      have hmn : mn2 = (if 8 < u.xs1 then u.xs1 * u.be1 else 0)
          + (if 8 < u.xs2 then u.xs2 * u.be2 else 0) := by rw [hm2, hm1]; ring
      have hvr : vr2 = (if 8 < u.xs1 then u.xs1 * (u.be1 * u.be1) else 0)
          + (if 8 < u.xs2 then u.xs2 * (u.be2 * u.be2) else 0) := by rw [hv2, hv1]; ring
      have hres : 0 ≤ res2 := by linarith
      have hmn0 : 0 ≤ mn2 := by
        rw [hmn]; split_ifs <;> positivity
      dist_simp at h
      split_ifs at h with hv
      · split at h
        · simp at h
        · next g s3 heq3 =>
          simp only [Option.some.injEq, Prod.mk.injEq] at h
          obtain ⟨hg0, _, hsuf3⟩ := sampleFastUrban_spec _ _ _ _ _ _ hmn0
            (hs.suffix (hsuf2.trans hsuf1)) heq3
          rw [← h.1, ← h.2]
          refine ⟨by linarith, hsuf3.trans (hsuf2.trans hsuf1), res2, mn2, vr2, s2, hres, hmn, hvr,
            Or.inl ⟨hv, g, heq3, rfl⟩⟩
      · simp only [Option.some.injEq, Prod.mk.injEq] at h
        rw [← h.1, ← h.2]
        exact ⟨hres, hsuf2.trans hsuf1, res2, mn2, vr2, s2, hres, hmn, hvr,
          Or.inr ⟨not_lt.mp hv, rfl⟩⟩

/-! ### ionisation loss -/
theorem ioniLoop_spec (ae0 a : ℝ) (hae : 0 ≤ ae0) (ha : 0 < a) (ha1 : a ≤ 1) :
    ∀ (n : ℕ) (res : ℝ) (s r : List ℝ) (x : ℝ), CanonAll s →
      ioniLoop ae0 (UniformReal.mk' a 1) n res s = some (x, r) →
      res ≤ x ∧ x ≤ res + n * (ae0 / a) ∧ r <:+ s := by
  intro n
  induction n with
  | zero =>
    intro res s r x _ h
    simp only [ioniLoop, Option.some.injEq, Prod.mk.injEq] at h
    rw [← h.1, ← h.2]; simp
  | succ n ih =>
    intro res s r x hs h
    simp only [ioniLoop] at h
    split at h
    · simp at h
    · next y s' heq =>
      obtain ⟨v, hsv, hy⟩ := uniform_sample_inv _ _ _ _ _ heq
      have hv : Canon v := hs v (by rw [hsv]; simp)
      obtain ⟨hy0, hy1, _⟩ := affine_mem ha1 hv
      rw [← hy] at hy0 hy1
      have hypos : 0 < y := by linarith
      have hsuf : s' <:+ s := by rw [hsv]; exact List.suffix_cons v s'
      dist_simp at h
      obtain ⟨h1, h2, h3⟩ := ih _ _ _ _ (hs.suffix hsuf) h
      have hq0 : 0 ≤ ae0 / y := div_nonneg hae (le_of_lt hypos)
      have hq1 : ae0 / y ≤ ae0 / a := div_le_div_of_nonneg_left hae ha hy0
      refine ⟨by linarith, ?_, h3.trans hsuf⟩
      push_cast
      linarith

/-- abstract form of the split of the ionisation mean -/
theorem ion_split_abs (xs w a e0 La Lw : ℝ) (h1 : a - 1 ≠ 0) (h2 : w - 1 ≠ 0) (h3 : a ≠ 0)
    (h4 : w - a ≠ 0) (h5 : w ≠ 0) :
    xs * w * (a - 1) / ((w - 1) * a) * (a * La / (a - 1)) * e0
      + (xs - xs * w * (a - 1) / ((w - 1) * a)) * (a * e0 * ((Lw - La) / (1 - a / w)))
      = xs * (e0 * w * Lw / (w - 1)) := by
  have h6 : 1 - a / w ≠ 0 := by
    intro h; apply h4; field_simp at h; linarith
  field_simp
  ring

/-- ★ fast simulation of the ionisation loss (Σ₃ > 8, E_max/E₀ = w > 1): 1 < α < w, the
    Poisson mean Σ₃ − n_A is positive, and the mean of the Gaussian part plus the mean of the
    individually sampled collisions — (Σ₃ − n_A) collisions of mean α·E₀·E[1/U], U uniform on
    [α/w, 1), E[1/U] = ln(w/α)/(1 − α/w) — equals Σ₃ times the mean collision energy
    E₀·w·ln w/(w − 1) -/
theorem ioniFast_mean_split (xs w : ℝ) (hxs : 8 < xs) (hw : 1 < w) :
    1 < (ioniFast xs w).1 ∧ (ioniFast xs w).1 < w ∧
    0 < (ioniFast xs w).2.1 ∧ (ioniFast xs w).2.1 < xs ∧ 0 ≤ (ioniFast xs w).2.2.1 ∧
    (ioniFast xs w).2.2.1 + (xs - (ioniFast xs w).2.1)
        * ((ioniFast xs w).1 * (1 / 100000)
            * (Real.log (w / (ioniFast xs w).1) / (1 - (ioniFast xs w).1 / w)))
      = xs * ((1 / 100000) * w * Real.log w / (w - 1)) := by
  simp only [ioniFast]
  eloss_simp
  have hden : 0 < 8 * w + xs := by linarith
  set a := (xs + 8) * w / (8 * w + xs) with ha
  have ha1 : 1 < a := by rw [ha, lt_div_iff₀ hden]; nlinarith
  have haw : a < w := by rw [ha, div_lt_iff₀ hden]; nlinarith
  have ha0 : 0 < a := by linarith
  have hw0 : 0 < w := by linarith
  have hLa : 0 < Real.log a := Real.log_pos ha1
  have hnA : xs * w * (a - 1) / ((w - 1) * a) < xs := by
    rw [div_lt_iff₀ (by nlinarith)]
    nlinarith
  have hnA0 : 0 < xs * w * (a - 1) / ((w - 1) * a) := by
    have h1 : 0 < a - 1 := by linarith
    have h2 : 0 < w - 1 := by linarith
    have h3 : 0 < xs := by linarith
    positivity
  refine ⟨ha1, haw, hnA0, hnA, ?_, ?_⟩
  · have : 0 < a * Real.log a / (a - 1) := by
      apply div_pos (by positivity) (by linarith)
    positivity
  · rw [Real.log_div (ne_of_gt hw0) (ne_of_gt ha0)]
    exact ion_split_abs xs w a (1 / 100000) (Real.log a) (Real.log w) (by linarith) (by linarith)
      (ne_of_gt ha0) (by linarith) (ne_of_gt hw0)

/-- `sample_ionization_loss` is non-negative -/
theorem sampleIonizationLoss_nonneg (u : Urban ℝ) (fuel : ℕ) (s r : List ℝ) (x : ℝ)
    (hE : 1 / 100000 < u.maxEnergy) (hs : CanonAll s)
    (h : sampleIonizationLoss u fuel s = some (x, r)) : 0 ≤ x ∧ r <:+ s := by
  have hw : 1 < u.maxEnergy / (1 / 100000) := by rw [lt_div_iff₀ (by norm_num)]; linarith
  unfold sampleIonizationLoss at h
  eloss_simp at h
  by_cases h8 : 8 < u.xsIon
  · simp only [h8, if_true] at h
    obtain ⟨ha1, haw, hn0, hn1, hmean, _⟩ := ioniFast_mean_split u.xsIon _ h8 hw
    split at h
    · simp at h
    · next res s1 heq1 =>
      obtain ⟨hr0, _, hsuf1⟩ := sampleFastUrban_spec _ _ _ _ _ _ hmean hs heq1
      have ha0 : 0 < (ioniFast u.xsIon (u.maxEnergy / (1 / 100000))).1 := by linarith
      split_ifs at h with hc
      · split at h
        · simp at h
        · next n d' s2 heq2 =>
          have hsuf2 := poisson_sample_suffix _ _ _ _ _ heq2
          have hq : 0 < (ioniFast u.xsIon (u.maxEnergy / (1 / 100000))).1
              / (u.maxEnergy / (1 / 100000)) := by positivity
          have hq1 : (ioniFast u.xsIon (u.maxEnergy / (1 / 100000))).1
              / (u.maxEnergy / (1 / 100000)) ≤ 1 := by
            rw [div_le_one (by linarith)]; linarith
          obtain ⟨hl, _, hsuf3⟩ := ioniLoop_spec _ _ (by positivity) hq hq1 _ _ _ _ _
            (hs.suffix (hsuf2.trans hsuf1)) h
          exact ⟨by linarith, hsuf3.trans (hsuf2.trans hsuf1)⟩
      · simp only [Option.some.injEq, Prod.mk.injEq] at h
        rw [← h.1, ← h.2]; exact ⟨hr0, hsuf1⟩
  · simp only [h8, if_false] at h
    split_ifs at h with hc
    · split at h
      · simp at h
      · next n d' s2 heq2 =>
        have hsuf2 := poisson_sample_suffix _ _ _ _ _ heq2
        have hq : 0 < 1 / (u.maxEnergy / (1 / 100000)) := by positivity
        have hq1 : 1 / (u.maxEnergy / (1 / 100000)) ≤ 1 := by
          rw [div_le_one (by linarith)]; linarith
        obtain ⟨hl, _, hsuf3⟩ := ioniLoop_spec _ _ (by norm_num) hq hq1 _ _ _ _ _
          (hs.suffix hsuf2) h
        exact ⟨hl, hsuf3.trans hsuf2⟩
    · simp only [Option.some.injEq, Prod.mk.injEq] at h
      rw [← h.1, ← h.2]; exact ⟨le_refl _, List.suffix_refl _⟩

end CelerVerif.Dist
