/-
C14 helper lemmas (2b): between-ness and positivity of XsCalculator (proofs; restated in Props).
-/
import CelerVerif.Lemmas.CalcXs

namespace CelerVerif.Calc
open CelerVerif

/-- inside a bin the value lies between the two neighbouring (unscaled) knot values — also in
    the bins at and next to the prime index -/
theorem calc_between (d : XsGrid ℝ) (w : d.WF) (e : ℝ) (he : 0 < e)
    (h1 : d.grid.front < Real.log e) (h2 : Real.log e < d.grid.back) :
    ∃ k v, k + 1 < d.size ∧ d.en k ≤ e ∧ e < d.en (k + 1) ∧ d.calc floorIdx e = some v ∧
      min (d.knot k) (d.knot (k + 1)) ≤ v ∧ v ≤ max (d.knot k) (d.knot (k + 1)) := by
  obtain ⟨hb1, hb2, hk⟩ := w.grid.find_bracket (Real.log e) (le_of_lt h1) h2
  rw [w.gsize] at hk
  set k := d.grid.find floorIdx (Real.log e) with hkdef
  have hE1 : d.en k ≤ e := ((XsGrid.WF.log_bracket he k).1).mp hb1
  have hE2 : e < d.en (k + 1) := ((XsGrid.WF.log_bracket he (k + 1)).2).mp hb2
  refine ⟨k, _, hk, hE1, hE2, w.calc_bin h1 h2, ?_⟩
  rw [← hkdef, XsGrid.WF.xsBin_knots]
  have hlt : d.en k < d.en (k + 1) := w.en_strictMono (Nat.lt_succ_self k)
  split
  · exact scaled_lerp_between _ _ _ _ _ (XsGrid.WF.en_pos k) hlt hE1 (le_of_lt hE2)
  · exact lerp_between _ _ _ _ _ hlt hE1 (le_of_lt hE2)

/-- … in particular finite and positive for a positive table -/
theorem calc_pos (d : XsGrid ℝ) (w : d.WF) (hp : d.Pos) (e : ℝ) (he : 0 < e) :
    ∃ v, d.calc floorIdx e = some v ∧ 0 < v := by
  have hsz := w.size_ge
  by_cases h1 : Real.log e ≤ d.grid.front
  · refine ⟨_, w.calc_below h1, ?_⟩
    have := hp 0 (by omega)
    split
    · exact div_pos this he
    · exact this
  by_cases h2 : d.grid.back ≤ Real.log e
  · refine ⟨_, w.calc_above h2, ?_⟩
    have := hp (d.size - 1) (by omega)
    split
    · exact div_pos this he
    · exact this
  · obtain ⟨k, v, hk, _, _, hc, hlo, _⟩ :=
      calc_between d w e he (not_le.mp h1) (not_le.mp h2)
    refine ⟨v, hc, lt_of_lt_of_le ?_ hlo⟩
    exact lt_min (XsGrid.WF.knot_pos hp (by omega)) (XsGrid.WF.knot_pos hp hk)

end CelerVerif.Calc
