/-
Exact period of the xorshift part: for every non-zero state x,
`next^[d] x = x ↔ (2^160 − 1) ∣ d`.  Uses Mathlib only for primality of the factors of
2^160 − 1 (Lucas/Pratt certificates) and elementary divisibility.
-/
import Mathlib.NumberTheory.LucasPrimality
import Mathlib.Tactic.NormNum.Prime
import Mathlib.Tactic.ReduceModChar
import Mathlib.Algebra.BigOperators.Associated
import CelerVerif.Lemmas.XorwowOrderCert_3
import CelerVerif.Lemmas.XorwowOrderCert_5
import CelerVerif.Lemmas.XorwowOrderCert_11
import CelerVerif.Lemmas.XorwowOrderCert_17
import CelerVerif.Lemmas.XorwowOrderCert_31
import CelerVerif.Lemmas.XorwowOrderCert_41
import CelerVerif.Lemmas.XorwowOrderCert_257
import CelerVerif.Lemmas.XorwowOrderCert_61681
import CelerVerif.Lemmas.XorwowOrderCert_65537
import CelerVerif.Lemmas.XorwowOrderCert_414721
import CelerVerif.Lemmas.XorwowOrderCert_4278255361
import CelerVerif.Lemmas.XorwowOrderCert_44479210368001

namespace CelerVerif.Xorwow

theorem prime_dvd_list_prod {q : ℕ} (hq : q.Prime) {L : List ℕ} (hL : ∀ p ∈ L, p.Prime)
    (h : q ∣ L.prod) : q ∈ L := by
  obtain ⟨a, ha, hqa⟩ := (Prime.dvd_prod_iff hq.prime).1 h
  have := (Nat.prime_dvd_prime_iff_eq hq (hL a ha)).1 hqa
  rwa [this]

theorem prime_61681 : Nat.Prime 61681 := by norm_num
theorem prime_65537 : Nat.Prime 65537 := by norm_num
theorem prime_414721 : Nat.Prime 414721 := by norm_num
theorem prime_6096383 : Nat.Prime 6096383 := by norm_num

theorem prime_4278255361 : Nat.Prime 4278255361 := by
  refine lucas_primality _ (23 : ZMod 4278255361) ?_ ?_
  · reduce_mod_char
  · intro q hq hd
    have hL : ∀ p ∈ [2,2,2,2,2,2,2,2,3,5,17,65537], Nat.Prime p := by
      intro p hp
      simp only [List.mem_cons, List.not_mem_nil, or_false] at hp
      rcases hp with rfl|rfl|rfl|rfl|rfl|rfl|rfl|rfl|rfl|rfl|rfl|rfl <;>
        first | exact prime_65537 | norm_num
    have hm := prime_dvd_list_prod hq hL (by simpa using hd)
    simp only [List.mem_cons, List.not_mem_nil, or_false] at hm
    rcases hm with rfl|rfl|rfl|rfl|rfl|rfl|rfl|rfl|rfl|rfl|rfl|rfl <;> reduce_mod_char <;> decide

theorem prime_44479210368001 : Nat.Prime 44479210368001 := by
  refine lucas_primality _ (13 : ZMod 44479210368001) ?_ ?_
  · reduce_mod_char
  · intro q hq hd
    have hL : ∀ p ∈ [2,2,2,2,2,2,2,2,2,2,3,5,5,5,19,6096383], Nat.Prime p := by
      intro p hp
      simp only [List.mem_cons, List.not_mem_nil, or_false] at hp
      rcases hp with rfl|rfl|rfl|rfl|rfl|rfl|rfl|rfl|rfl|rfl|rfl|rfl|rfl|rfl|rfl|rfl <;>
        first | exact prime_6096383 | norm_num
    have hm := prime_dvd_list_prod hq hL (by simpa using hd)
    simp only [List.mem_cons, List.not_mem_nil, or_false] at hm
    rcases hm with rfl|rfl|rfl|rfl|rfl|rfl|rfl|rfl|rfl|rfl|rfl|rfl|rfl|rfl|rfl|rfl <;>
      reduce_mod_char <;> decide

/-- the full prime factorisation of 2^160 − 1 (with multiplicity) -/
def factorsN : List ℕ :=
  [3, 5, 5, 11, 17, 31, 41, 257, 61681, 65537, 414721, 4278255361, 44479210368001]

theorem factorsN_prod : factorsN.prod = Nper := by decide

theorem factorsN_prime : ∀ p ∈ factorsN, Nat.Prime p := by
  intro p hp
  simp only [factorsN, List.mem_cons, List.not_mem_nil, or_false] at hp
  rcases hp with rfl|rfl|rfl|rfl|rfl|rfl|rfl|rfl|rfl|rfl|rfl|rfl|rfl
  all_goals first
    | exact prime_61681 | exact prime_65537 | exact prime_414721
    | exact prime_4278255361 | exact prime_44479210368001 | norm_num

theorem orderCert_of_mem {q : ℕ} (h : q ∈ factorsN) : orderCert q = true := by
  simp only [factorsN, List.mem_cons, List.not_mem_nil, or_false] at h
  rcases h with rfl|rfl|rfl|rfl|rfl|rfl|rfl|rfl|rfl|rfl|rfl|rfl|rfl
  · exact orderCert_3
  · exact orderCert_5
  · exact orderCert_5
  · exact orderCert_11
  · exact orderCert_17
  · exact orderCert_31
  · exact orderCert_41
  · exact orderCert_257
  · exact orderCert_61681
  · exact orderCert_65537
  · exact orderCert_414721
  · exact orderCert_4278255361
  · exact orderCert_44479210368001

/-- the set of return times of x is closed under `%` -/
theorem iter_mul_fix {a : ℕ} {x : XS} (h : iter a x = x) (k : ℕ) : iter (a * k) x = x := by
  induction k with
  | zero => simp [iter]
  | succ k ih => rw [Nat.mul_succ, iter_add, ih, h]

theorem iter_mod_fix {a b : ℕ} {x : XS} (ha : iter a x = x) (hb : iter b x = x) :
    iter (b % a) x = x := by
  have e : b = a * (b / a) + b % a := (Nat.div_add_mod b a).symm
  have h1 : iter (a * (b / a) + b % a) x = x := by rw [← e]; exact hb
  rw [iter_add, iter_mul_fix ha] at h1
  exact h1

theorem iter_gcd_fix {a b : ℕ} {x : XS} (ha : iter a x = x) (hb : iter b x = x) :
    iter (Nat.gcd a b) x = x := by
  induction a, b using Nat.gcd.induction with
  | H0 b => simpa using hb
  | H1 a b _ ih =>
    rw [Nat.gcd_rec]
    exact ih (iter_mod_fix ha hb) ha

/-- **Exact period**: a non-zero state returns to itself after d steps iff (2^160−1) ∣ d. -/
theorem period_exact (x : XS) (hx : x ≠ XS.zero) (d : ℕ) :
    iter d x = x ↔ Nper ∣ d := by
  constructor
  · intro hd
    have hg := iter_gcd_fix hd (iter_N x)
    have hgN : Nat.gcd d Nper ∣ Nper := Nat.gcd_dvd_right _ _
    by_cases hEq : Nat.gcd d Nper = Nper
    · rw [← hEq]; exact Nat.gcd_dvd_left _ _
    · exfalso
      obtain ⟨c, hc⟩ := hgN
      have hNpos : 0 < Nper := by decide
      have hgpos : 0 < Nat.gcd d Nper := Nat.gcd_pos_of_pos_right _ hNpos
      generalize Nat.gcd d Nper = g at *
      have hc1 : c ≠ 1 := by
        rintro rfl; apply hEq; rw [Nat.mul_one] at hc; exact hc.symm
      obtain ⟨q, hq, hqc⟩ := Nat.exists_prime_and_dvd hc1
      have hqN : q ∣ Nper := hc ▸ Dvd.dvd.mul_left hqc _
      have hmem : q ∈ factorsN :=
        prime_dvd_list_prod hq factorsN_prime (factorsN_prod ▸ hqN)
      -- gcd ∣ N / q
      obtain ⟨c', rfl⟩ := hqc
      have hdiv : Nper / q = g * c' := by
        rw [hc, show g * (q * c') = q * (g * c') by ring,
          Nat.mul_div_cancel_left _ hq.pos]
      have hfix : iter (Nper / q) x = x := by rw [hdiv]; exact iter_mul_fix hg c'
      exact hx (orderCert_sound (orderCert_of_mem hmem) x hfix)
  · rintro ⟨k, rfl⟩
    exact iter_mul_fix (iter_N x) k

/-- distinct positions closer than one period give distinct states -/
theorem iter_ne_of_lt (x : XS) (hx : x ≠ XS.zero) {m m' : ℕ} (hlt : m < m')
    (hclose : m' - m < Nper) : iter m x ≠ iter m' x := by
  intro h
  have e : m' = m + (m' - m) := by omega
  rw [e, iter_add] at h
  have hy : iter m x ≠ XS.zero := fun h0 => hx (iter_eq_zero m h0)
  have := (period_exact (iter m x) hy (m' - m)).1 h.symm
  have := Nat.le_of_dvd (by omega) this
  omega

end CelerVerif.Xorwow
