/-
Solid emission at ℝ: definitions shared by the C09b theorems and the general facts
(literal evaluation = sign conditions, translation commutes with emission, boolean algebra).
-/
import CelerVerif.Model.Solids
import CelerVerif.Props.C12
import Mathlib.Tactic.NormNum
import Mathlib.Tactic.Positivity

namespace CelerVerif.Solids
open CelerVerif CelerVerif.Surf

/-- every emitted literal holds at p: the point is on the stated side of each surface -/
def Holds (l : List (Sense × Surface ℝ)) (p : Vec3 ℝ) : Prop :=
  ∀ q ∈ l, (q.2.quadric p < 0 ↔ q.1 = Sense.inside)

/-- p lies on none of the surfaces -/
def OffSurfaces (l : List (Sense × Surface ℝ)) (p : Vec3 ℝ) : Prop :=
  ∀ q ∈ l, q.2.quadric p ≠ 0

/-- translate every emitted surface -/
noncomputable def translateEmit (t : Vec3 ℝ) (l : List (Sense × Surface ℝ)) : List (Sense × Surface ℝ) :=
  l.map fun q => (q.1, q.2.translate t)

theorem literalHolds_iff (sense : Sense) (s : Surface ℝ) (p : Vec3 ℝ) (hoff : s.quadric p ≠ 0) :
    literalHolds sense s p = true ↔ (s.quadric p < 0 ↔ sense = Sense.inside) := by
  obtain ⟨h1, h2, h3⟩ := sense_eq_sign s p
  unfold literalHolds
  cases hcs : s.calcSense p <;> cases sense <;>
    simp only [reduceCtorEq, iff_true, iff_false, not_lt, Bool.false_eq_true, false_iff, true_iff,
      not_le]
  · exact h1.mp hcs
  · exact h1.mp hcs
  · exact absurd (h2.mp hcs) hoff
  · exact absurd (h2.mp hcs) hoff
  · exact le_of_lt (h3.mp hcs)
  · exact le_of_lt (h3.mp hcs)

/-- the executable evaluation of the emitted literals (through every surface's real
    `calc_sense`) is the sign condition `Holds`, for points on no surface -/
theorem evalEmit_iff (l : List (Sense × Surface ℝ)) (p : Vec3 ℝ) (hoff : OffSurfaces l p) :
    evalEmit l p = true ↔ Holds l p := by
  unfold evalEmit Holds
  rw [List.all_eq_true]
  constructor
  · intro h q hq; exact (literalHolds_iff q.1 q.2 p (hoff q hq)).mp (h q hq)
  · intro h q hq; exact (literalHolds_iff q.1 q.2 p (hoff q hq)).mpr (h q hq)

theorem holds_translate (l : List (Sense × Surface ℝ)) (t p : Vec3 ℝ) :
    Holds (translateEmit t l) (translateUp t p) ↔ Holds l p := by
  unfold Holds translateEmit
  constructor
  · intro h q hq
    have := h (q.1, q.2.translate t) (List.mem_map.mpr ⟨q, hq, rfl⟩)
    simpa only [translate_quadric] using this
  · intro h q hq
    obtain ⟨q', hq', rfl⟩ := List.mem_map.mp hq
    simpa only [translate_quadric] using h q' hq'

theorem offSurfaces_translate (l : List (Sense × Surface ℝ)) (t p : Vec3 ℝ) :
    OffSurfaces (translateEmit t l) (translateUp t p) ↔ OffSurfaces l p := by
  unfold OffSurfaces translateEmit
  constructor
  · intro h q hq
    have := h (q.1, q.2.translate t) (List.mem_map.mpr ⟨q, hq, rfl⟩)
    simpa only [translate_quadric] using this
  · intro h q hq
    obtain ⟨q', hq', rfl⟩ := List.mem_map.mp hq
    simpa only [translate_quadric] using h q' hq'

/-- `fmod4` subtracts a whole number of 4s -/
theorem fmod4_spec (fuel : ℕ) (x : ℝ) : ∃ m : ℕ, fmod4 fuel x = x - 4 * (m : ℝ) := by
  induction fuel generalizing x with
  | zero => exact ⟨0, by simp [fmod4]⟩
  | succ k ih =>
    unfold fmod4
    by_cases h : (4 : ℝ) ≤ x
    · have h' : Num.le (@OfNat.ofNat ℝ 4 (Num.instOfNat 4)) x = true := by num_simp; exact h
      rw [if_pos h']
      obtain ⟨m, hm⟩ := ih (x - @OfNat.ofNat ℝ 4 (Num.instOfNat 4))
      refine ⟨m + 1, ?_⟩
      rw [hm]; num_simp; push_cast; ring
    · have h' : ¬ (Num.le (@OfNat.ofNat ℝ 4 (Num.instOfNat 4)) x = true) := by num_simp; exact h
      rw [if_neg h']
      exact ⟨0, by simp⟩

/-- … and with enough fuel the result is below 4 -/
theorem fmod4_lt (fuel : ℕ) (x : ℝ) (hx : x < 4 * ((fuel : ℝ) + 1)) : fmod4 fuel x < 4 := by
  induction fuel generalizing x with
  | zero => simpa [fmod4] using hx
  | succ k ih =>
    unfold fmod4
    by_cases h : (4 : ℝ) ≤ x
    · have h' : Num.le (@OfNat.ofNat ℝ 4 (Num.instOfNat 4)) x = true := by num_simp; exact h
      rw [if_pos h']
      apply ih
      num_simp
      push_cast at hx
      linarith
    · have h' : ¬ (Num.le (@OfNat.ofNat ℝ 4 (Num.instOfNat 4)) x = true) := by num_simp; exact h
      rw [if_neg h']
      exact not_le.mp h

/-! ### boolean objects -/

/-- the inverse of the accumulated daughter-to-parent translation -/
noncomputable def downBy (tra : Option (Vec3 ℝ)) (p : Vec3 ℝ) : Vec3 ℝ :=
  match tra with
  | none => p
  | some t => translateDown t p

/-- an object is built soundly at p under the accumulated translation `tra`: evaluating the
    emitted CSG tree at p gives the membership of the pulled-back point -/
def Sound (tol : Tol ℝ) (tra : Option (Vec3 ℝ)) (o : Obj ℝ) (p : Vec3 ℝ) : Prop :=
  Obj.eval tol tra o p = Obj.mem o (downBy tra p)

theorem translateDown_add (t u p : Vec3 ℝ) :
    translateDown (Vec3.add t u) p = translateDown t (translateDown u p) := by
  apply vec3_ext <;> xf_simp <;> num_simp <;> ring

theorem sound_neg (tol : Tol ℝ) (tra : Option (Vec3 ℝ)) (o : Obj ℝ) (p : Vec3 ℝ)
    (h : Sound tol tra o p) : Sound tol tra (.neg o) p := by
  unfold Sound at *
  simp only [Obj.eval, Obj.mem, h]

theorem sound_translated (tol : Tol ℝ) (tra : Option (Vec3 ℝ)) (t : Vec3 ℝ) (o : Obj ℝ) (p : Vec3 ℝ)
    (h : Sound tol (some (match tra with | none => t | some u => Vec3.add t u)) o p) :
    Sound tol tra (.translated t o) p := by
  cases tra with
  | none =>
    simp only [Sound, Obj.eval, Obj.mem, downBy] at h ⊢
    exact h
  | some u =>
    simp only [Sound, Obj.eval, Obj.mem, downBy] at h ⊢
    rw [h, translateDown_add]

theorem evalAll_eq (tol : Tol ℝ) (tra : Option (Vec3 ℝ)) (os : List (Obj ℝ)) (p : Vec3 ℝ)
    (h : ∀ o ∈ os, Sound tol tra o p) :
    Obj.evalAll tol tra os p = Obj.memAll os (downBy tra p) := by
  induction os with
  | nil => simp [Obj.evalAll, Obj.memAll]
  | cons o os ih =>
    simp only [Obj.evalAll, Obj.memAll]
    rw [ih (fun o' ho' => h o' (List.mem_cons_of_mem _ ho'))]
    have := h o (List.mem_cons_self ..)
    unfold Sound at this
    rw [this]

theorem evalAny_eq (tol : Tol ℝ) (tra : Option (Vec3 ℝ)) (os : List (Obj ℝ)) (p : Vec3 ℝ)
    (h : ∀ o ∈ os, Sound tol tra o p) :
    Obj.evalAny tol tra os p = Obj.memAny os (downBy tra p) := by
  induction os with
  | nil => simp [Obj.evalAny, Obj.memAny]
  | cons o os ih =>
    simp only [Obj.evalAny, Obj.memAny]
    rw [ih (fun o' ho' => h o' (List.mem_cons_of_mem _ ho'))]
    have := h o (List.mem_cons_self ..)
    unfold Sound at this
    rw [this]

theorem memAll_iff (os : List (Obj ℝ)) (p : Vec3 ℝ) :
    Obj.memAll os p = true ↔ ∀ o ∈ os, o.mem p = true := by
  induction os with
  | nil => simp [Obj.memAll]
  | cons o os ih => simp [Obj.memAll, ih]

theorem memAny_iff (os : List (Obj ℝ)) (p : Vec3 ℝ) :
    Obj.memAny os p = true ↔ ∃ o ∈ os, o.mem p = true := by
  induction os with
  | nil => simp [Obj.memAny]
  | cons o os ih => simp [Obj.memAny, ih]

end CelerVerif.Solids
