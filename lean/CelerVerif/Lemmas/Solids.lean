/-
Solid emission at ℝ: definitions shared by the C09b theorems and the general facts
(literal evaluation = sign conditions, translation commutes with emission, boolean algebra).
-/
import CelerVerif.Model.Solids
import CelerVerif.Props.C12
import CelerVerif.Lemmas.SolidsXform
import Mathlib.Tactic.NormNum
import Mathlib.Tactic.Positivity

namespace CelerVerif.Solids
open CelerVerif CelerVerif.Surf

/-- every emitted literal holds at p: the point is on the stated side of each surface -/
def Holds (l : List (Sense × Surface ℝ)) (p : Vec3 ℝ) : Prop :=
  ∀ q ∈ l, (q.2.quadric p < 0 ↔ q.1 = Sense.inside)

/-- p lies on none of the surfaces -/
def OffSurfaces (l : List (Sense × Surface ℝ)) (p : Vec3 ℝ) : Prop :=
  ∀ q ∈ l, q.2.quadric p ≠ 0

/-- translate every emitted surface -/
noncomputable def translateEmit (t : Vec3 ℝ) (l : List (Sense × Surface ℝ)) : List (Sense × Surface ℝ) :=
  l.map fun q => (q.1, q.2.translate t)

theorem literalHolds_iff (sense : Sense) (s : Surface ℝ) (p : Vec3 ℝ) (hoff : s.quadric p ≠ 0) :
    literalHolds sense s p = true ↔ (s.quadric p < 0 ↔ sense = Sense.inside) := by
  obtain ⟨h1, h2, h3⟩ := sense_eq_sign s p
  unfold literalHolds
  cases hcs : s.calcSense p <;> cases sense <;>
    simp only [reduceCtorEq, iff_true, iff_false, not_lt, Bool.false_eq_true, false_iff, true_iff,
      not_le]
  · exact h1.mp hcs
  · exact h1.mp hcs
  · exact absurd (h2.mp hcs) hoff
  · exact absurd (h2.mp hcs) hoff
  · exact le_of_lt (h3.mp hcs)
  · exact le_of_lt (h3.mp hcs)

/-- the executable evaluation of the emitted literals (through every surface's real
    `calc_sense`) is the sign condition `Holds`, for points on no surface -/
theorem evalEmit_iff (l : List (Sense × Surface ℝ)) (p : Vec3 ℝ) (hoff : OffSurfaces l p) :
    evalEmit l p = true ↔ Holds l p := by
  unfold evalEmit Holds
  rw [List.all_eq_true]
  constructor
  · intro h q hq; exact (literalHolds_iff q.1 q.2 p (hoff q hq)).mp (h q hq)
  · intro h q hq; exact (literalHolds_iff q.1 q.2 p (hoff q hq)).mpr (h q hq)

theorem holds_translate (l : List (Sense × Surface ℝ)) (t p : Vec3 ℝ) :
    Holds (translateEmit t l) (translateUp t p) ↔ Holds l p := by
  unfold Holds translateEmit
  constructor
  · intro h q hq
    have := h (q.1, q.2.translate t) (List.mem_map.mpr ⟨q, hq, rfl⟩)
    simpa only [translate_quadric] using this
  · intro h q hq
    obtain ⟨q', hq', rfl⟩ := List.mem_map.mp hq
    simpa only [translate_quadric] using h q' hq'

theorem offSurfaces_translate (l : List (Sense × Surface ℝ)) (t p : Vec3 ℝ) :
    OffSurfaces (translateEmit t l) (translateUp t p) ↔ OffSurfaces l p := by
  unfold OffSurfaces translateEmit
  constructor
  · intro h q hq
    have := h (q.1, q.2.translate t) (List.mem_map.mpr ⟨q, hq, rfl⟩)
    simpa only [translate_quadric] using this
  · intro h q hq
    obtain ⟨q', hq', rfl⟩ := List.mem_map.mp hq
    simpa only [translate_quadric] using h q' hq'

/-- `fmod4` subtracts a whole number of 4s -/
theorem fmod4_spec (fuel : ℕ) (x : ℝ) : ∃ m : ℕ, fmod4 fuel x = x - 4 * (m : ℝ) := by
  induction fuel generalizing x with
  | zero => exact ⟨0, by simp [fmod4]⟩
  | succ k ih =>
    unfold fmod4
    by_cases h : (4 : ℝ) ≤ x
    · have h' : Num.le (@OfNat.ofNat ℝ 4 (Num.instOfNat 4)) x = true := by num_simp; exact h
      rw [if_pos h']
      obtain ⟨m, hm⟩ := ih (x - @OfNat.ofNat ℝ 4 (Num.instOfNat 4))
      refine ⟨m + 1, ?_⟩
      rw [hm]; num_simp; push_cast; ring
    · have h' : ¬ (Num.le (@OfNat.ofNat ℝ 4 (Num.instOfNat 4)) x = true) := by num_simp; exact h
      rw [if_neg h']
      exact ⟨0, by simp⟩

/-- … and with enough fuel the result is below 4 -/
theorem fmod4_lt (fuel : ℕ) (x : ℝ) (hx : x < 4 * ((fuel : ℝ) + 1)) : fmod4 fuel x < 4 := by
  induction fuel generalizing x with
  | zero => simpa [fmod4] using hx
  | succ k ih =>
    unfold fmod4
    by_cases h : (4 : ℝ) ≤ x
    · have h' : Num.le (@OfNat.ofNat ℝ 4 (Num.instOfNat 4)) x = true := by num_simp; exact h
      rw [if_pos h']
      apply ih
      num_simp
      push_cast at hx
      linarith
    · have h' : ¬ (Num.le (@OfNat.ofNat ℝ 4 (Num.instOfNat 4)) x = true) := by num_simp; exact h
      rw [if_neg h']
      exact not_le.mp h

/-! ### general transformations -/

/-- orthonormal matrix (rotation or reflection) for a full transformation -/
def _root_.CelerVerif.Surf.Xform.Ortho : Xform ℝ → Prop
  | .full t => t.rot.orthoCols ∧ t.rot.orthoRows
  | _ => True

/-- apply the transform to every emitted surface (`IntersectSurfaceBuilder` does this for each
    inserted surface) -/
noncomputable def xformEmit (x : Xform ℝ) (l : List (Sense × Surface ℝ)) : List (Sense × Surface ℝ) :=
  l.map fun q => (q.1, x.applySurf q.2)

/-- every emitted plane has a unit normal -/
def UnitNormals (l : List (Sense × Surface ℝ)) : Prop := ∀ q ∈ l, q.2.UnitNormal

theorem applySurf_quadric (x : Xform ℝ) (hx : x.Ortho) (s : Surface ℝ) (hs : s.UnitNormal)
    (p : Vec3 ℝ) : (x.applySurf s).quadric (x.up p) = s.quadric p := by
  cases x with
  | none => rfl
  | tra t => exact translate_quadric s t p
  | full t => exact transform_quadric t hx.1 s hs p

theorem holds_xform (x : Xform ℝ) (hx : x.Ortho) (l : List (Sense × Surface ℝ))
    (hl : UnitNormals l) (p : Vec3 ℝ) : Holds (xformEmit x l) (x.up p) ↔ Holds l p := by
  unfold Holds xformEmit
  constructor
  · intro h q hq
    have := h (q.1, x.applySurf q.2) (List.mem_map.mpr ⟨q, hq, rfl⟩)
    simpa only [applySurf_quadric x hx q.2 (hl q hq) p] using this
  · intro h q hq
    obtain ⟨q', hq', rfl⟩ := List.mem_map.mp hq
    simpa only [applySurf_quadric x hx q'.2 (hl q' hq') p] using h q' hq'

theorem offSurfaces_xform (x : Xform ℝ) (hx : x.Ortho) (l : List (Sense × Surface ℝ))
    (hl : UnitNormals l) (p : Vec3 ℝ) :
    OffSurfaces (xformEmit x l) (x.up p) ↔ OffSurfaces l p := by
  unfold OffSurfaces xformEmit
  constructor
  · intro h q hq
    have := h (q.1, x.applySurf q.2) (List.mem_map.mpr ⟨q, hq, rfl⟩)
    simpa only [applySurf_quadric x hx q.2 (hl q hq) p] using this
  · intro h q hq
    obtain ⟨q', hq', rfl⟩ := List.mem_map.mp hq
    simpa only [applySurf_quadric x hx q'.2 (hl q' hq') p] using h q' hq'

theorem xform_up_down (x : Xform ℝ) (hx : x.Ortho) (q : Vec3 ℝ) : x.up (x.down q) = q := by
  cases x with
  | none => rfl
  | tra t => exact translate_up_down t q
  | full t => exact transform_up_down t hx.2 q

/-! ### boolean objects -/

/-- an object is built soundly at the local point q under the accumulated daughter-to-parent
    transform `acc`: evaluating the emitted CSG tree at the parent-frame image of q gives the
    membership of q -/
def Sound (tol : Tol ℝ) (acc : Xform ℝ) (o : Obj ℝ) (q : Vec3 ℝ) : Prop :=
  Obj.eval tol acc o (acc.up q) = Obj.mem o q

theorem sound_neg (tol : Tol ℝ) (acc : Xform ℝ) (o : Obj ℝ) (q : Vec3 ℝ)
    (h : Sound tol acc o q) : Sound tol acc (.neg o) q := by
  unfold Sound at *
  simp only [Obj.eval, Obj.mem, h]

/-- `Transformed`: the daughter is built under the composed transform and contains q iff the
    original contains `x.down q` -/
theorem sound_xformed (tol : Tol ℝ) (acc x : Xform ℝ) (hx : x.Ortho) (o : Obj ℝ) (q : Vec3 ℝ)
    (h : Sound tol (acc.compose x) o (x.down q)) : Sound tol acc (.xformed x o) q := by
  unfold Sound at *
  simp only [Obj.eval, Obj.mem]
  rw [compose_up, xform_up_down x hx] at h
  exact h

theorem evalAll_eq (tol : Tol ℝ) (acc : Xform ℝ) (os : List (Obj ℝ)) (q : Vec3 ℝ)
    (h : ∀ o ∈ os, Sound tol acc o q) :
    Obj.evalAll tol acc os (acc.up q) = Obj.memAll os q := by
  induction os with
  | nil => simp [Obj.evalAll, Obj.memAll]
  | cons o os ih =>
    simp only [Obj.evalAll, Obj.memAll]
    rw [ih (fun o' ho' => h o' (List.mem_cons_of_mem _ ho'))]
    have := h o (List.mem_cons_self ..)
    unfold Sound at this
    rw [this]

theorem evalAny_eq (tol : Tol ℝ) (acc : Xform ℝ) (os : List (Obj ℝ)) (q : Vec3 ℝ)
    (h : ∀ o ∈ os, Sound tol acc o q) :
    Obj.evalAny tol acc os (acc.up q) = Obj.memAny os q := by
  induction os with
  | nil => simp [Obj.evalAny, Obj.memAny]
  | cons o os ih =>
    simp only [Obj.evalAny, Obj.memAny]
    rw [ih (fun o' ho' => h o' (List.mem_cons_of_mem _ ho'))]
    have := h o (List.mem_cons_self ..)
    unfold Sound at this
    rw [this]

theorem memAll_iff (os : List (Obj ℝ)) (p : Vec3 ℝ) :
    Obj.memAll os p = true ↔ ∀ o ∈ os, o.mem p = true := by
  induction os with
  | nil => simp [Obj.memAll]
  | cons o os ih => simp [Obj.memAll, ih]

theorem memAny_iff (os : List (Obj ℝ)) (p : Vec3 ℝ) :
    Obj.memAny os p = true ↔ ∃ o ∈ os, o.mem p = true := by
  induction os with
  | nil => simp [Obj.memAny]
  | cons o os ih => simp [Obj.memAny, ih]

end CelerVerif.Solids
