/- InitializeTracks under TrackOrder::init_charge: the loop over threads (C02). -/
import CelerVerif.Lemmas.TrackInitITC

namespace CelerVerif.TrackInit

/-- the stencil of `partition_initializers`: neutrality of the `i`-th of the last `n`
    initializers -/
def stencilOf (s1 : State) (n : Nat) (i : Nat) : Bool :=
  isNeutral (s1.initializers.getD (s1.c.numInitializers - n + i) default).particle

/-- partitioned index at position `p` -/
def piOf (s1 : State) (n p : Nat) : Nat := (partList (stencilOf s1 n) n).getD p 0

/-- vacancy index used by the thread at position `p` (`index_partitioned`) -/
def vIdxOf (s1 : State) (n p : Nat) : Nat :=
  if p < partK (stencilOf s1 n) n then p else s1.c.numVacancies - n + p

/-- identity started by the thread at position `p` -/
def fOfPos (s1 : State) (n p : Nat) : Rec :=
  (s1.initializers.getD (piOf s1 n p + s1.c.numInitializers - n) default).ident

theorem piOf_spec (s1 : State) (n p : Nat) (hp : p < n) :
    piOf s1 n p < n ∧
    stencilOf s1 n (piOf s1 n p) = decide (p < partK (stencilOf s1 n) n) := by
  have hl : p < (partList (stencilOf s1 n) n).length := by rw [partList_length]; exact hp
  unfold piOf
  rw [getD_getElem _ _ _ hl]
  exact partList_getElem (stencilOf s1 n) n p hl

theorem vIdxOf_lt (s1 : State) (n p : Nat) (hp : p < n) (hn : n ≤ s1.c.numVacancies) :
    vIdxOf s1 n p < s1.c.numVacancies := by
  unfold vIdxOf
  split <;> omega

theorem vIdxOf_inj (s1 : State) (n p p' : Nat) (_hp : p < n) (_hp' : p' < n)
    (_hn : n ≤ s1.c.numVacancies) (h : vIdxOf s1 n p = vIdxOf s1 n p') : p = p' := by
  have hk := partK_le (stencilOf s1 n) n
  unfold vIdxOf at h
  split at h <;> split at h <;> omega

structure ITInvC (cfg : Cfg) (s1 : State) (n t : Nat) (s : State) : Prop where
  lens : Lens cfg s
  core : CoreP s (pendL s1.initializers (s1.c.numInitializers - n) ++
    (List.range (n - t)).map (fOfPos s1 n))
  live : (liveL s.slots).length = (liveL s1.slots).length + t
  vacs : ∀ p, p < n - t →
    (s.slots.getD (s1.vacancies.getD (vIdxOf s1 n p) 0) Slot.empty).active = false
  same : s.vacancies = s1.vacancies ∧ s.initializers = s1.initializers ∧ s.c = s1.c ∧
    s.pending = s1.pending ∧ s.parents = s1.parents ∧ s.trackCounters = s1.trackCounters ∧
    s.created = s1.created ∧ s.finished = s1.finished ∧ s.secCounts = s1.secCounts ∧
    s.indices = s1.indices
  status : ∀ x ∈ s.slots, x.stepOk ∨ x.status = .errored

theorem it_loop_charge {cfg : Cfg} {s1 : State} (hord : cfg.order = .initCharge) {n : Nat}
    (hn1 : n ≤ s1.c.numVacancies) (hn2 : n ≤ s1.c.numInitializers)
    (hvlen : s1.c.numVacancies ≤ s1.vacancies.length)
    (hvnd : s1.vacancies.Nodup) (hvlt : ∀ v ∈ s1.vacancies, v < cfg.slots)
    (hidx : ∀ p, p < n → s1.indices.getD p 0 = piOf s1 n p)
    (t : Nat) (ht : t ≤ n) {s : State} (h0 : ITInvC cfg s1 n 0 s) :
    ITInvC cfg s1 n t ((List.range t).foldl (initTrack s1.c n) s) := by
  induction t with
  | zero => simpa using h0
  | succ t ih =>
    have hI := ih (by omega)
    rw [foldl_range_succ]
    generalize (List.range t).foldl (initTrack s1.c n) s = sk at hI
    obtain ⟨e1, e2, e3, e4, e5, e6, e7, e8, e9, e10⟩ := hI.same
    have hso : sk.cfg.order = .initCharge := by rw [hI.lens.cfg_eq]; exact hord
    have hp : n - t - 1 < n := by omega
    obtain ⟨hpi1, hpi2⟩ := piOf_spec s1 n (n - t - 1) hp
    obtain ⟨y, hy1, hy2, hy3, hy4, hyeq⟩ := initTrack_charge_unfold s1.c n sk t hso
    -- neutrality of the initializer = position in front of the partition point
    have hneu : isNeutral (s1.initializers.getD
        (piOf s1 n (n - t - 1) + s1.c.numInitializers - n) default).particle
        = decide (n - t - 1 < partK (stencilOf s1 n) n) := by
      rw [← hpi2]
      unfold stencilOf
      have : piOf s1 n (n - t - 1) + s1.c.numInitializers - n
          = s1.c.numInitializers - n + piOf s1 n (n - t - 1) := by omega
      rw [this]
    have hini : sk.initializers.getD (sk.indices.getD (n - t - 1) 0 + s1.c.numInitializers - n)
        default = s1.initializers.getD (piOf s1 n (n - t - 1) + s1.c.numInitializers - n)
        default := by rw [e10, hidx _ hp, e2]
    have hvi : (if isNeutral (s1.initializers.getD
          (piOf s1 n (n - t - 1) + s1.c.numInitializers - n) default).particle = true
        then n - t - 1 else s1.c.numVacancies - t - 1) = vIdxOf s1 n (n - t - 1) := by
      rw [hneu]
      unfold vIdxOf
      by_cases h : n - t - 1 < partK (stencilOf s1 n) n
      · simp [h]
      · simp [h]; omega
    have hvlt' := vIdxOf_lt s1 n (n - t - 1) hp hn1
    have hvi' : vIdxOf s1 n (n - t - 1) < s1.vacancies.length := by omega
    have hslot : s1.vacancies.getD (vIdxOf s1 n (n - t - 1)) 0
        = s1.vacancies[vIdxOf s1 n (n - t - 1)] := getD_getElem _ _ _ hvi'
    have hslotk : sk.vacancies.getD
        (if isNeutral (sk.initializers.getD (sk.indices.getD (n - t - 1) 0
            + s1.c.numInitializers - n) default).particle = true
         then n - t - 1 else s1.c.numVacancies - t - 1) 0
        = s1.vacancies[vIdxOf s1 n (n - t - 1)] := by
      rw [hini, hvi, e1, hslot]
    have hidk : (sk.initializers.getD (sk.indices.getD (n - t - 1) 0 + s1.c.numInitializers - n)
        default).ident = fOfPos s1 n (n - t - 1) := by
      rw [hini]; rfl
    rw [hslotk, hidk] at hyeq
    rw [hidk] at hy2
    have hv : s1.vacancies[vIdxOf s1 n (n - t - 1)] < sk.slots.length := by
      rw [hI.lens.slots]; exact hvlt _ (List.getElem_mem hvi')
    have hinact := hI.vacs (n - t - 1) (by omega)
    rw [hslot, getD_getElem _ _ _ hv] at hinact
    -- accounting
    have hrange : n - t = (n - t - 1) + 1 := by omega
    have hcoreIn : CoreP sk ((pendL s1.initializers (s1.c.numInitializers - n) ++
        (List.range (n - t - 1)).map (fOfPos s1 n)) ++ [fOfPos s1 n (n - t - 1)]) := by
      have := hI.core
      rw [hrange, List.range_succ, List.map_append, ← List.append_assoc] at this
      exact this
    have hcore := coreP_start (s := sk) (s' := { sk with
        slots := sk.slots.set (s1.vacancies[vIdxOf s1 n (n - t - 1)]) y,
        started := sk.started ++ [fOfPos s1 n (n - t - 1)] })
      hcoreIn hv hinact hy1 hy2 hy3 rfl rfl rfl rfl rfl
    rw [hyeq]
    refine ⟨⟨hI.lens.cfg_eq, by simp; exact hI.lens.slots, hI.lens.inits, hI.lens.parents,
      hI.lens.secCounts, hI.lens.counters⟩, ?_, ?_, ?_,
      ⟨e1, e2, e3, e4, e5, e6, e7, e8, e9, e10⟩, ?_⟩
    · have he : n - (t + 1) = n - t - 1 := by omega
      rw [he]; exact hcore
    · have := liveL_set_length sk.slots _ hv y
      simp only [liveL_single, hinact, hy1] at this
      simp at this
      simp only
      rw [this, hI.live]; omega
    · intro p hpl
      simp only
      have hpn : p < n := by omega
      have hj := vIdxOf_lt s1 n p hpn hn1
      have hj' : vIdxOf s1 n p < s1.vacancies.length := by omega
      rw [getD_getElem _ _ _ hj', getD_set_eq]
      have hne : s1.vacancies[vIdxOf s1 n (n - t - 1)] ≠ s1.vacancies[vIdxOf s1 n p] := by
        intro heq
        have h1 := (List.getElem_inj hvnd).mp heq
        have := vIdxOf_inj s1 n _ _ hp hpn hn1 h1
        omega
      simp only [hne, false_and, if_false]
      have := hI.vacs p (by omega)
      rw [getD_getElem _ _ _ hj'] at this
      exact this
    · intro x hx
      simp only at hx
      rcases List.mem_or_eq_of_mem_set hx with h | h
      · exact hI.status x h
      · subst h; exact hy4

end CelerVerif.TrackInit
