/- InitializeTracks under TrackOrder::init_charge: the executor as a slot write, the pending
   multiset split (C02). -/
import CelerVerif.Lemmas.TrackInitIT
import CelerVerif.Lemmas.TrackInitCoreP
import CelerVerif.Lemmas.TrackInitPartition

namespace CelerVerif.TrackInit

/-- `InitTracksExecutor` under init_charge is one slot write + one ghost record, whatever the
    geometry path (parent copy / from position / failed) -/
theorem initTrack_charge_unfold (c : Counters) (n : Nat) (s : State) (tid : Nat)
    (ho : s.cfg.order = .initCharge) :
    ∃ y : Slot, y.active = true ∧
      y.ident = (s.initializers.getD
        (s.indices.getD (n - tid - 1) 0 + c.numInitializers - n) default).ident ∧
      y.tid.isSome = true ∧ (y.stepOk ∨ y.status = .errored) ∧
      initTrack c n s tid =
        { s with
          slots := s.slots.set (s.vacancies.getD
            (if isNeutral (s.initializers.getD
                (s.indices.getD (n - tid - 1) 0 + c.numInitializers - n) default).particle = true
             then n - tid - 1 else c.numVacancies - tid - 1) 0) y,
          started := s.started ++ [(s.initializers.getD
            (s.indices.getD (n - tid - 1) 0 + c.numInitializers - n) default).ident] } := by
  have hgi : initGetIdx s n tid c.numInitializers
      = s.indices.getD (n - tid - 1) 0 + c.numInitializers - n := by
    simp [initGetIdx, ho, indexBefore]
  have hvx : ∀ ini, initVacIdx s c n tid ini
      = if isNeutral ini.particle = true then n - tid - 1 else c.numVacancies - tid - 1 := by
    intro ini; simp [initVacIdx, ho, indexBefore, indexPartitioned]
  unfold initTrack
  simp only [hgi, hvx]
  obtain ⟨q1, q2, q3, q4⟩ := newTrackSlot_props
    (s.initializers.getD (s.indices.getD (n - tid - 1) 0 + c.numInitializers - n) default)
    (s.slots.getD (s.vacancies.getD
      (if isNeutral (s.initializers.getD
          (s.indices.getD (n - tid - 1) 0 + c.numInitializers - n) default).particle = true
       then n - tid - 1 else c.numVacancies - tid - 1) 0) Slot.empty)
    (Option.map (fun p => (s.slots.getD p Slot.empty).pos)
      (if ¬ tid < c.numSecondaries then none
       else s.parents.getD (initGetIdx s n tid s.parents.length) none))
  exact ⟨_, q1, q2, q3, q4, rfl⟩

/-- the last `d` of the first `m + d` initializers, as identities -/
theorem pendL_split (l : List Init) (m d : Nat) (h : m + d ≤ l.length) :
    pendL l (m + d) = pendL l m ++ (List.range d).map (fun i => (l.getD (i + m) default).ident) := by
  induction d with
  | zero => simp
  | succ k ih =>
    have hk : m + k < l.length := by omega
    rw [List.range_succ, List.map_append, ← List.append_assoc, ← ih (by omega)]
    have : m + (k + 1) = (m + k) + 1 := by omega
    rw [this]
    simp only [pendL, List.take_succ_eq_append_getElem hk, List.map_append, List.map_cons,
      List.map_nil]
    rw [getD_getElem l (k + m) default (by omega)]
    have : l[k + m]'(by omega) = l[m + k]'hk := by congr 1; omega
    rw [this]

end CelerVerif.TrackInit
