/-
C14 helper lemmas (6): continuity of XsCalculator at every knot (ℝ), including the knot at the
prime index from both sides and the two ends of the grid.
-/
import CelerVerif.Lemmas.CalcXsThm
import Mathlib.Topology.Order.LeftRight
import Mathlib.Topology.Algebra.GroupWithZero
import Mathlib.Topology.Instances.Real.Lemmas

namespace CelerVerif.Calc
open CelerVerif Set Filter Topology

/-- the looked-up value as a total function -/
noncomputable def XsGrid.value (d : XsGrid ℝ) (e : ℝ) : ℝ := (d.calc floorIdx e).getD 0

/-- closed form in bin `k` -/
noncomputable def XsGrid.binFn (d : XsGrid ℝ) (k : ℕ) (e : ℝ) : ℝ :=
  xsBin d.grid d.prime k (d.y k) (d.y (k + 1)) e

theorem lerp_continuous (xl yl xr yr : ℝ) : Continuous fun x => lerp xl yl xr yr x := by
  have : (fun x => lerp xl yl xr yr x) = fun x => yl + (yr - yl) / (xr - xl) * (x - xl) := by
    funext x; exact lerp_real _ _ _ _ _
  rw [this]
  fun_prop

namespace XsGrid.WF
variable {d : XsGrid ℝ} (w : d.WF)

theorem binFn_continuousAt (k : ℕ) {e0 : ℝ} (h : e0 ≠ 0) : ContinuousAt (d.binFn k) e0 := by
  have : d.binFn k = fun e =>
      (if k ≥ d.prime then
          lerp (d.en k) (d.y k) (d.en (k + 1))
            (if k + 1 = d.prime then d.y (k + 1) / d.en (k + 1) else d.y (k + 1)) e / e
         else lerp (d.en k) (d.y k) (d.en (k + 1))
            (if k + 1 = d.prime then d.y (k + 1) / d.en (k + 1) else d.y (k + 1)) e) := by
    funext e; exact xsBin_real k _ _ e
  rw [this]
  by_cases hp : k ≥ d.prime
  · simp only [if_pos hp]
    exact ((lerp_continuous _ _ _ _).continuousAt).div continuousAt_id h
  · simp only [if_neg hp]
    exact (lerp_continuous _ _ _ _).continuousAt

include w

/-- on `[E_k, E_{k+1})` the calculator is the closed form of bin `k` -/
theorem value_eq_binFn {k : ℕ} (hk : k + 1 < d.size) {e : ℝ} (h1 : d.en k ≤ e)
    (h2 : e < d.en (k + 1)) : d.value e = d.binFn k e := by
  have he : 0 < e := lt_of_lt_of_le (en_pos k) h1
  unfold XsGrid.value XsGrid.binFn
  rcases eq_or_lt_of_le h1 with heq | hlt
  · -- exactly the knot
    subst heq
    have hlog : Real.log (d.en k) = d.grid.at k := log_en k
    by_cases h0 : k = 0
    · subst h0
      rw [w.calc_below (by rw [hlog, UGrid.WF.at_zero]), xsBin_real, lerp_left]
      rfl
    · have hlt' : d.grid.front < d.grid.at k := by
        rw [← UGrid.WF.at_zero (g := d.grid)]; exact w.grid.at_strictMono (by omega)
      have hgt : d.grid.at k < d.grid.back := by
        rw [← w.grid.at_last, w.gsize]; exact w.grid.at_strictMono (by omega)
      rw [w.calc_bin (by rw [hlog]; exact hlt') (by rw [hlog]; exact hgt), hlog,
        w.grid.find_at k (by rw [w.gsize]; omega)]
      rfl
  · have hb1 : d.grid.at k < Real.log e := by
      rw [← log_en (d := d) k]; exact Real.log_lt_log (en_pos k) hlt
    have hb2 : Real.log e < d.grid.at (k + 1) := ((log_bracket he (k + 1)).2).mpr h2
    have hfront : d.grid.front < Real.log e := by
      have := w.grid.at_mono (Nat.zero_le k)
      rw [UGrid.WF.at_zero] at this
      linarith
    have hback : Real.log e < d.grid.back := by
      rw [← w.grid.at_last, w.gsize]
      exact lt_of_lt_of_le hb2 (w.grid.at_mono (by omega))
    rw [w.calc_bin hfront hback,
      w.grid.find_unique _ k (by rw [w.gsize]; exact hk) (le_of_lt hb1) hb2]
    rfl

/-- the closed form of bin `k` reaches the knot value at its right end -/
theorem binFn_right {k : ℕ} : d.binFn k (d.en (k + 1)) = d.knot (k + 1) := by
  unfold XsGrid.binFn
  rw [xsBin_real, lerp_right _ _ _ _ (ne_of_lt (w.en_strictMono (Nat.lt_succ_self k)))]
  unfold XsGrid.knot
  by_cases hp : k ≥ d.prime
  · have hp1 : k + 1 ≥ d.prime := by omega
    have hne : ¬ k + 1 = d.prime := by omega
    simp only [if_pos hp, if_pos hp1, if_neg hne]
  · by_cases he : k + 1 = d.prime
    · have hp1 : k + 1 ≥ d.prime := by omega
      simp only [if_neg hp, if_pos he, if_pos hp1]
    · have hp1 : ¬ k + 1 ≥ d.prime := by omega
      simp only [if_neg hp, if_neg he, if_neg hp1]

theorem value_knot {i : ℕ} (hi : i < d.size) : d.value (d.en i) = d.knot i := by
  unfold XsGrid.value
  have hlog : Real.log (d.en i) = d.grid.at i := log_en i
  have hsz := w.size_ge
  by_cases h0 : i = 0
  · subst h0
    rw [w.calc_below (by rw [hlog, UGrid.WF.at_zero])]; rfl
  by_cases hl : i = d.size - 1
  · subst hl
    rw [w.calc_above (by rw [hlog, ← w.gsize, w.grid.at_last])]; rfl
  · have := w.value_eq_binFn (k := i) (by omega) (le_refl _) (w.en_strictMono (Nat.lt_succ_self i))
    unfold XsGrid.value at this
    rw [this]
    unfold XsGrid.binFn
    rw [xsBin_real, lerp_left]
    rfl

/-- continuity from the left at knot `i` -/
theorem value_continuous_left {i : ℕ} (hi : i < d.size) :
    ContinuousWithinAt d.value (Iic (d.en i)) (d.en i) := by
  have hsz := w.size_ge
  have hpos : 0 < d.en i := en_pos i
  by_cases h0 : i = 0
  · -- below the grid: first value (divided by E when the prime index is 0)
    subst h0
    set g : ℝ → ℝ := fun e => if 0 ≥ d.prime then d.y 0 / e else d.y 0 with hg
    have hgc : ContinuousAt g (d.en 0) := by
      rw [hg]
      by_cases hp : 0 ≥ d.prime
      · simp only [if_pos hp]
        exact continuousAt_const.div continuousAt_id hpos.ne'
      · simp only [if_neg hp]
        exact continuousAt_const
    refine hgc.continuousWithinAt.congr_of_eventuallyEq ?_ ?_
    · have hmem : Ioc (d.en 0 / 2) (d.en 0) ∈ 𝓝[≤] (d.en 0) := Ioc_mem_nhdsLE (by linarith)
      refine eventually_of_mem hmem ?_
      intro e he
      have hepos : 0 < e := by have := he.1; linarith
      have hle : Real.log e ≤ d.grid.front := by
        have := Real.log_le_log hepos he.2
        rw [log_en, UGrid.WF.at_zero] at this
        exact this
      show d.value e = g e
      unfold XsGrid.value
      rw [w.calc_below hle]; rfl
    · show d.value (d.en 0) = g (d.en 0)
      unfold XsGrid.value
      rw [w.calc_below (by rw [log_en, UGrid.WF.at_zero])]; rfl
  · obtain ⟨k, rfl⟩ : ∃ k, i = k + 1 := ⟨i - 1, by omega⟩
    have hgc : ContinuousAt (d.binFn k) (d.en (k + 1)) := binFn_continuousAt k hpos.ne'
    refine hgc.continuousWithinAt.congr_of_eventuallyEq ?_ ?_
    · have hmem : Ioc (d.en k) (d.en (k + 1)) ∈ 𝓝[≤] (d.en (k + 1)) :=
        Ioc_mem_nhdsLE (w.en_strictMono (Nat.lt_succ_self k))
      refine eventually_of_mem hmem ?_
      intro e he
      rcases eq_or_lt_of_le he.2 with heq | hlt
      · rw [heq, w.value_knot hi, w.binFn_right]
      · exact w.value_eq_binFn hi (le_of_lt he.1) hlt
    · rw [w.value_knot hi, w.binFn_right]

/-- continuity from the right at knot `i` -/
theorem value_continuous_right {i : ℕ} (hi : i < d.size) :
    ContinuousWithinAt d.value (Ici (d.en i)) (d.en i) := by
  have hsz := w.size_ge
  have hpos : 0 < d.en i := en_pos i
  by_cases hl : i = d.size - 1
  · -- above the grid: last value (divided by E at/above the prime index)
    set g : ℝ → ℝ := fun e =>
      if d.size - 1 ≥ d.prime then d.y (d.size - 1) / e else d.y (d.size - 1) with hg
    have hgc : ContinuousAt g (d.en i) := by
      rw [hg]
      by_cases hp : d.size - 1 ≥ d.prime
      · simp only [if_pos hp]
        exact continuousAt_const.div continuousAt_id hpos.ne'
      · simp only [if_neg hp]
        exact continuousAt_const
    have habove : ∀ e, d.en i ≤ e → d.value e = g e := by
      intro e he
      have hepos : 0 < e := lt_of_lt_of_le hpos he
      have hle : d.grid.back ≤ Real.log e := by
        have := Real.log_le_log hpos he
        rw [log_en, hl, ← w.gsize, w.grid.at_last] at this
        exact this
      unfold XsGrid.value
      rw [w.calc_above hle]; rfl
    refine hgc.continuousWithinAt.congr_of_eventuallyEq ?_ (habove _ (le_refl _))
    exact eventually_of_mem self_mem_nhdsWithin fun e he => habove e he
  · have hk : i + 1 < d.size := by omega
    have hgc : ContinuousAt (d.binFn i) (d.en i) := binFn_continuousAt i hpos.ne'
    refine hgc.continuousWithinAt.congr_of_eventuallyEq ?_ ?_
    · have hmem : Ico (d.en i) (d.en (i + 1)) ∈ 𝓝[≥] (d.en i) :=
        Ico_mem_nhdsGE (w.en_strictMono (Nat.lt_succ_self i))
      exact eventually_of_mem hmem fun e he => w.value_eq_binFn hk he.1 he.2
    · exact w.value_eq_binFn hk (le_refl _) (w.en_strictMono (Nat.lt_succ_self i))

end XsGrid.WF

end CelerVerif.Calc
