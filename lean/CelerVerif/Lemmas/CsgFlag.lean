/-
C10 helper lemmas, part 6: a node that `InternalSurfaceFlagger` reports as free of internal
surfaces is a constant times a conjunction of surface literals — provided no negation points at
an alias node (the flagger inspects `tree_[n.node]` without de-aliasing).
-/
import CelerVerif.Lemmas.CsgDenote
import CelerVerif.Model.CsgLogic

namespace CelerVerif.Csg

/-- a surface literal: (surface id, required sense) -/
abbrev Lit := Nat × Bool

def litsHold (σ : Nat → Bool) (L : List Lit) : Bool := L.all fun p => σ p.1 == p.2

/-- the value of node `n` is `c ∧ ⋀ L` in every model of the tree -/
def IsConj (t : Tree) (n : Nat) : Prop :=
  ∃ (c : Bool) (L : List Lit), ∀ σ v, Models t σ v → v n = (c && litsHold σ L)

/-- no negation points at an alias node -/
def NoNegAlias (t : Tree) : Prop :=
  ∀ i a b, i < t.size → t.get i = .negated a → t.get a ≠ .aliased b

theorem foldl_flagStep_true (g : Nat → Option Bool) (ns : List Nat) :
    ns.foldl (fun acc d => flagStep acc (fun _ => g d)) (some true) = some true := by
  induction ns with
  | nil => rfl
  | cons d ds ih => simpa [List.foldl_cons, flagStep] using ih

theorem foldl_flagStep_none (g : Nat → Option Bool) (ns : List Nat) :
    ns.foldl (fun acc d => flagStep acc (fun _ => g d)) none = none := by
  induction ns with
  | nil => rfl
  | cons d ds ih => simpa [List.foldl_cons, flagStep] using ih

theorem foldl_flagStep_simple (g : Nat → Option Bool) :
    ∀ ns : List Nat, ns.foldl (fun acc d => flagStep acc (fun _ => g d)) (some false) = some false →
    ∀ d ∈ ns, g d = some false := by
  intro ns
  induction ns with
  | nil => intro _ d hd; simp at hd
  | cons x xs ih =>
    intro h d hd
    simp only [List.foldl_cons] at h
    have hx : flagStep (some false) (fun _ => g x) = g x := rfl
    rw [hx] at h
    cases hgx : g x with
    | none => rw [hgx, foldl_flagStep_none] at h; cases h
    | some b =>
      cases b with
      | true => rw [hgx, foldl_flagStep_true] at h; cases h
      | false =>
        rw [hgx] at h
        rcases List.mem_cons.1 hd with rfl | hd
        · exact hgx
        · exact ih h d hd

theorem litsHold_append (σ : Nat → Bool) (L1 L2 : List Lit) :
    litsHold σ (L1 ++ L2) = (litsHold σ L1 && litsHold σ L2) := by
  simp [litsHold, List.all_append]

/-- a conjunction of conjunctions of literals is one -/
theorem isConj_all {t : Tree} : ∀ ns : List Nat, (∀ d ∈ ns, IsConj t d) →
    ∃ (c : Bool) (L : List Lit), ∀ σ v, Models t σ v → ns.all v = (c && litsHold σ L) := by
  intro ns
  induction ns with
  | nil => intro _; exact ⟨true, [], fun σ v _ => by simp [litsHold]⟩
  | cons d ds ih =>
    intro h
    rcases h d (by simp) with ⟨c1, L1, h1⟩
    rcases ih (fun x hx => h x (List.mem_cons_of_mem _ hx)) with ⟨c2, L2, h2⟩
    refine ⟨c1 && c2, L1 ++ L2, fun σ v hm => ?_⟩
    rw [List.all_cons, h1 σ v hm, h2 σ v hm, litsHold_append]
    cases c1 <;> cases c2 <;> simp

theorem flagInternal_simple {t : Tree} (s : Struct t) (hna : NoNegAlias t) :
    ∀ (f f0 : Nat), f0 ≤ f → ∀ n, n < t.size → flagInternal t f0 n = some false → IsConj t n := by
  intro f
  induction f with
  | zero =>
    intro f0 hf0 n _ h
    have : f0 = 0 := by omega
    subst this; simp [flagInternal] at h
  | succ f0 ih0 =>
    intro f1 hf1 n hn h
    cases f1 with
    | zero => simp [flagInternal] at h
    | succ f =>
    have hff : f ≤ f0 := by omega
    have ih := fun n hn h => ih0 f hff n hn h
    have hcl := s.closed n hn
    unfold flagInternal at h
    cases hg : t.get n with
    | tru =>
      refine ⟨true, [], fun σ v hm => ?_⟩
      have := hm n hn; rw [hg] at this; simp [this, evalNode, litsHold]
    | fls => rw [hg] at h; simp at h
    | surface k =>
      refine ⟨true, [(k, true)], fun σ v hm => ?_⟩
      have := hm n hn; rw [hg] at this; simp [this, evalNode, litsHold]
    | aliased a =>
      rw [hg] at h hcl
      rcases ih a (hcl a (by simp [Node.children])) h with ⟨c, L, hc⟩
      refine ⟨c, L, fun σ v hm => ?_⟩
      have := hm n hn; rw [hg] at this; rw [this]; exact hc σ v hm
    | negated a =>
      rw [hg] at h hcl
      have ha : a < t.size := hcl a (by simp [Node.children])
      have hcla := s.closed a ha
      simp only at h
      cases hga : t.get a with
      | joined op ns => rw [hga] at h; simp at h
      | aliased b => exact absurd hga (hna n a b hn hg)
      | tru =>
        refine ⟨false, [], fun σ v hm => ?_⟩
        have h1 := hm n hn; rw [hg] at h1
        have h2 := hm a ha; rw [hga] at h2
        simp [h1, evalNode, h2]
      | fls =>
        rw [hga] at h; simp only at h
        cases f with
        | zero => simp [flagInternal] at h
        | succ f' => unfold flagInternal at h; rw [hga] at h; simp at h
      | surface k =>
        refine ⟨true, [(k, false)], fun σ v hm => ?_⟩
        have h1 := hm n hn; rw [hg] at h1
        have h2 := hm a ha; rw [hga] at h2
        simp [h1, evalNode, h2, litsHold]
      | negated b =>
        rw [hga] at h hcla; simp only at h
        have hb : b < t.size := hcla b (by simp [Node.children])
        cases f with
        | zero => simp [flagInternal] at h
        | succ f' =>
          unfold flagInternal at h
          rw [hga] at h
          simp only at h
          cases hgb : t.get b with
          | joined op ns => rw [hgb] at h; simp at h
          | tru | fls | surface _ | aliased _ | negated _ =>
            rw [hgb] at h; simp only at h
            rcases ih0 f' (by omega) b hb h with ⟨c, L, hc⟩
            refine ⟨c, L, fun σ v hm => ?_⟩
            have h1 := hm n hn; rw [hg] at h1
            have h2 := hm a ha; rw [hga] at h2
            rw [h1]; simp only [evalNode]; rw [h2]; simp only [evalNode, Bool.not_not]
            exact hc σ v hm
    | joined op ns =>
      rw [hg] at h hcl
      cases op with
      | or => simp at h
      | and =>
        simp only at h
        have hall := foldl_flagStep_simple (fun d => flagInternal t f d) ns h
        have hconj : ∀ d ∈ ns, IsConj t d :=
          fun d hd => ih d (hcl d (by simpa [Node.children] using hd)) (hall d hd)
        rcases isConj_all ns hconj with ⟨c, L, hc⟩
        refine ⟨c, L, fun σ v hm => ?_⟩
        have := hm n hn; rw [hg] at this; rw [this]; exact hc σ v hm

/-! ### weaker hypothesis: negations may point at aliases whose chain does not end in a join -/

/-- `x` is the first non-alias node reached from `a` by following `Aliased` links -/
inductive AliasEnd (t : Tree) : Nat → Nat → Prop
  | here {a : Nat} : (∀ b, t.get a ≠ .aliased b) → AliasEnd t a a
  | step {a b x : Nat} : t.get a = .aliased b → AliasEnd t b x → AliasEnd t a x

/-- the negation of node `n` is `c ∧ ⋀ L` in every model -/
def IsNegConj (t : Tree) (n : Nat) : Prop :=
  ∃ (c : Bool) (L : List Lit), ∀ σ v, Models t σ v → (!v n) = (c && litsHold σ L)

/-- chain condition at one node: following aliases from `n` never ends in a join -/
def ChainNoJoin (t : Tree) (n : Nat) : Prop := ∀ x, AliasEnd t n x → ∀ op ns, t.get x ≠ .joined op ns

/-- no negation points, through one or more alias nodes, at a join.  Weaker than `NoNegAlias`:
    e.g. the constant alias chains left by `replace_and_simplify` (`~6` with `6:>1`) satisfy it. -/
def NoNegAliasJoin (t : Tree) : Prop :=
  ∀ i a b, i < t.size → t.get i = .negated a → t.get a = .aliased b → ChainNoJoin t a

theorem flagInternal_simple_chain {t : Tree} (s : Struct t) (hch : NoNegAliasJoin t) :
    ∀ (f f0 : Nat), f0 ≤ f → ∀ n, n < t.size → flagInternal t f0 n = some false →
    IsConj t n ∧ (ChainNoJoin t n → IsNegConj t n) := by
  intro f
  induction f with
  | zero =>
    intro f0 hf0 n _ h
    have : f0 = 0 := by omega
    subst this; simp [flagInternal] at h
  | succ f0 ih0 =>
    intro f1 hf1 n hn h
    cases f1 with
    | zero => simp [flagInternal] at h
    | succ f =>
    have hff : f ≤ f0 := by omega
    have ih := fun n hn h => ih0 f hff n hn h
    have hcl := s.closed n hn
    unfold flagInternal at h
    cases hg : t.get n with
    | tru =>
      refine ⟨⟨true, [], fun σ v hm => ?_⟩, fun _ => ⟨false, [], fun σ v hm => ?_⟩⟩
      · have := hm n hn; rw [hg] at this; simp [this, evalNode, litsHold]
      · have := hm n hn; rw [hg] at this; simp [this, evalNode]
    | fls => rw [hg] at h; simp at h
    | surface k =>
      refine ⟨⟨true, [(k, true)], fun σ v hm => ?_⟩, fun _ => ⟨true, [(k, false)], fun σ v hm => ?_⟩⟩
      · have := hm n hn; rw [hg] at this; simp [this, evalNode, litsHold]
      · have := hm n hn; rw [hg] at this; simp [this, evalNode, litsHold]
    | aliased a =>
      rw [hg] at h hcl
      have ha : a < t.size := hcl a (by simp [Node.children])
      have iha := ih a ha h
      have hv : ∀ σ v, Models t σ v → v n = v a := fun σ v hm => by
        have := hm n hn; rw [hg] at this; exact this
      refine ⟨?_, fun hc => ?_⟩
      · rcases iha.1 with ⟨c, L, hc⟩
        exact ⟨c, L, fun σ v hm => by rw [hv σ v hm]; exact hc σ v hm⟩
      · have hca : ChainNoJoin t a := fun x hx => hc x (AliasEnd.step hg hx)
        rcases iha.2 hca with ⟨c, L, hc'⟩
        exact ⟨c, L, fun σ v hm => by rw [hv σ v hm]; exact hc' σ v hm⟩
    | negated a =>
      rw [hg] at h hcl
      have ha : a < t.size := hcl a (by simp [Node.children])
      simp only at h
      have hfa : flagInternal t f a = some false := by
        cases hga : t.get a with
        | joined op ns => rw [hga] at h; simp at h
        | tru | fls | surface _ | aliased _ | negated _ => rw [hga] at h; exact h
      have iha := ih a ha hfa
      have hv : ∀ σ v, Models t σ v → v n = !v a := fun σ v hm => by
        have := hm n hn; rw [hg] at this; exact this
      have hchain : ChainNoJoin t a := by
        intro x hx op ns hgx
        cases hx with
        | here _ => rw [hgx] at h; simp at h
        | step hab hbx => exact hch n a _ hn hg hab x (AliasEnd.step hab hbx) op ns hgx
      refine ⟨?_, fun _ => ?_⟩
      · rcases iha.2 hchain with ⟨c, L, hc⟩
        exact ⟨c, L, fun σ v hm => by rw [hv σ v hm]; exact hc σ v hm⟩
      · rcases iha.1 with ⟨c, L, hc⟩
        exact ⟨c, L, fun σ v hm => by rw [hv σ v hm, Bool.not_not]; exact hc σ v hm⟩
    | joined op ns =>
      rw [hg] at h hcl
      cases op with
      | or => simp at h
      | and =>
        simp only at h
        have hall := foldl_flagStep_simple (fun d => flagInternal t f d) ns h
        have hconj : ∀ d ∈ ns, IsConj t d :=
          fun d hd => (ih d (hcl d (by simpa [Node.children] using hd)) (hall d hd)).1
        rcases isConj_all ns hconj with ⟨c, L, hc⟩
        refine ⟨⟨c, L, fun σ v hm => ?_⟩, fun hcn => ?_⟩
        · have := hm n hn; rw [hg] at this; rw [this]; exact hc σ v hm
        · exact absurd hg (hcn n (AliasEnd.here (fun b hb => by rw [hg] at hb; cases hb)) _ _)

/-- `NoNegAlias` implies the weaker chain condition -/
theorem noNegAliasJoin_of_noNegAlias {t : Tree} (hna : NoNegAlias t) : NoNegAliasJoin t :=
  fun i a b hi hg hab => absurd hab (hna i a b hi hg)

end CelerVerif.Csg
