/-
C01 helper lemmas, part 2: one whole step, a track's step list, an event history (all at ℝ).
-/
import CelerVerif.Lemmas.Ledger

namespace CelerVerif.Ledger
open CelerVerif

/-- hypotheses on the inputs of one step: non-negative pre-step energy, the C14 contract of the
    mean loss (`0 ≤ mean ≤ E`), a non-negative sampled loss, and the C04 contract of the
    interaction result relative to the energy the track has after the along-step -/
def StepOK (P : Particles ℝ) (pid : Nat) (e : ℝ) (inp : StepIn ℝ) : Prop :=
  0 ≤ e ∧
  (match inp.eloss with
   | .none => True
   | .mean m => 0 ≤ m ∧ m ≤ e
   | .fluct m s => 0 ≤ m ∧ m ≤ e ∧ 0 ≤ s) ∧
  (match inp.post with
   | .interact r => InteractorOK P pid (alongStep e inp).e r
   | _ => True)

theorem calcOf_bounds (e : ℝ) (inp : StepIn ℝ) (he : 0 ≤ e)
    (h : match inp.eloss with
      | .none => True
      | .mean m => 0 ≤ m ∧ m ≤ e
      | .fluct m s => 0 ≤ m ∧ m ≤ e ∧ 0 ≤ s) :
    ∀ c, 0 ≤ calcOf e inp c ∧ calcOf e inp c ≤ e := by
  intro c
  unfold calcOf
  cases hk : inp.eloss with
  | none =>
    show 0 ≤ (@OfNat.ofNat ℝ 0 (Num.instOfNat 0)) ∧ (@OfNat.ofNat ℝ 0 (Num.instOfNat 0)) ≤ e
    rw [NumR.lit0]; exact ⟨le_refl _, he⟩
  | mean m => rw [hk] at h; exact meanELoss_bounds e inp.low m c h.1 h.2
  | fluct m s => rw [hk] at h; exact fluctELoss_bounds e inp.low m s c h.1 h.2.1 h.2.2

theorem alongStep_sum (e : ℝ) (inp : StepIn ℝ) (he : 0 ≤ e)
    (h : match inp.eloss with
      | .none => True
      | .mean m => 0 ≤ m ∧ m ≤ e
      | .fluct m s => 0 ≤ m ∧ m ≤ e ∧ 0 ≤ s) :
    (alongStep e inp).e + (alongStep e inp).dep = e ∧ 0 ≤ (alongStep e inp).e
      ∧ (alongStep e inp).e ≤ e ∧ 0 ≤ (alongStep e inp).dep := by
  have := elossApplier_sum (elossOn inp) inp.psaBoundary inp.hasAtRest e 0 (calcOf e inp)
    (calcOf_bounds e inp he h) he
  unfold alongStep
  rw [NumR.lit0]
  refine ⟨by linarith [this.1], this.2.1, this.2.2.1, this.2.2.2⟩

/-- 2mc² term of a step record -/
noncomputable def relT (P : Particles ℝ) (pid : Nat) (r : StepRec ℝ) : ℝ :=
  if r.released then rest2 P pid else 0

/-- flags of a step record are consistent with its fate -/
theorem postAct_flags (P : Particles ℝ) (pid : Nat) (inp : StepIn ℝ) (a : ElossOut ℝ) :
    ((postAct P pid inp a).fate = .alive →
        (postAct P pid inp a).released = false ∧ (postAct P pid inp a).rangeKilled = false)
    ∧ ((postAct P pid inp a).fate = .escaped →
        (postAct P pid inp a).released = false ∧ (postAct P pid inp a).rangeKilled = false)
    ∧ ((postAct P pid inp a).fate = .killed →
        (postAct P pid inp a).rangeKilled = false ∧ (postAct P pid inp a).released = true) := by
  unfold postAct
  cases inp.post with
  | none => simp
  | boundary ex => cases ex <;> simp
  | trackingCut => simp
  | interact r =>
    simp only []
    generalize (applyInteraction P inp.postCut a.e a.dep r).killed = k
    cases k <;> simp

theorem postStep_flags (P : Particles ℝ) (pid : Nat) (inp : StepIn ℝ) (a : ElossOut ℝ) :
    ((postStep P pid inp a).fate = .alive →
        (postStep P pid inp a).released = false ∧ (postStep P pid inp a).rangeKilled = false)
    ∧ ((postStep P pid inp a).fate = .escaped →
        (postStep P pid inp a).released = false ∧ (postStep P pid inp a).rangeKilled = false)
    ∧ ((postStep P pid inp a).fate = .killed →
        ((postStep P pid inp a).rangeKilled = true ∧ (postStep P pid inp a).released = false)
        ∨ ((postStep P pid inp a).rangeKilled = false ∧ (postStep P pid inp a).released = true)) := by
  have h := postAct_flags P pid inp a
  unfold postStep
  cases a.stop <;> simp only []
  · exact ⟨h.1, h.2.1, fun hk => Or.inr (h.2.2 hk)⟩
  · simp
  · exact ⟨h.1, h.2.1, fun hk => Or.inr (h.2.2 hk)⟩

theorem postAct_balance (P : Particles ℝ) (pid : Nat) (inp : StepIn ℝ) (a : ElossOut ℝ)
    (ha : 0 ≤ a.e)
    (hp : match inp.post with
      | .interact r => InteractorOK P pid a.e r
      | _ => True) :
    a.e + a.dep + relT P pid (postAct P pid inp a)
        = (postAct P pid inp a).e1 + (postAct P pid inp a).dep
          + sumT P (postAct P pid inp a).secs
      ∧ 0 ≤ (postAct P pid inp a).e1
      ∧ ((postAct P pid inp a).fate = .killed → (postAct P pid inp a).e1 = 0) := by
  unfold relT postAct
  cases hpost : inp.post with
  | none => simp; exact ha
  | boundary ex => cases ex <;> simp <;> exact ha
  | trackingCut =>
    have ht := trackingCut_sum P pid a.e a.dep
    simp only [if_true, sumT_nil]
    refine ⟨by linarith [ht.1, ht.2], by rw [ht.1], fun _ => ht.1⟩
  | interact r =>
    rw [hpost] at hp
    simp only [] at hp
    have hi := applyInteraction_balance P inp.postCut pid a.e a.dep r hp
    simp only []
    refine ⟨?_, ?_, ?_⟩
    · unfold sumTo at hi
      linarith
    · unfold applyInteraction InteractorOK at *
      cases hact : r.action <;> simp only [hact] at hp ⊢
      · exact hp.2
      · rw [hp.2]
      · exact ha
      · exact ha
    · intro hk
      unfold applyInteraction InteractorOK at *
      cases hact : r.action <;> simp only [hact] at hp hk ⊢
      · simp at hk
      · exact hp.2
      · simp at hk
      · simp at hk

/-- the post action on the state left by the along-step -/
theorem postStep_balance (P : Particles ℝ) (pid : Nat) (inp : StepIn ℝ) (a : ElossOut ℝ)
    (ha : 0 ≤ a.e) (hs : a.stop = .killedRange → a.e = 0)
    (hp : match inp.post with
      | .interact r => InteractorOK P pid a.e r
      | _ => True) :
    a.e + a.dep + relT P pid (postStep P pid inp a)
        = (postStep P pid inp a).e1 + (postStep P pid inp a).dep
          + sumT P (postStep P pid inp a).secs
      ∧ 0 ≤ (postStep P pid inp a).e1
      ∧ ((postStep P pid inp a).fate = .killed → (postStep P pid inp a).e1 = 0) := by
  have key := postAct_balance P pid inp a ha hp
  unfold postStep
  cases hstop : a.stop with
  | killedRange =>
    simp only [relT]
    have := hs hstop
    refine ⟨by simp, ha, fun _ => this⟩
  | none => exact key
  | forcedDiscrete => exact key

/-- ★ one step: kinetic energy before (+ the track's own 2mc² when the step accounts for it)
    = kinetic energy after + deposition + total energy of the emitted secondaries -/
theorem stepLedger_balance (P : Particles ℝ) (pid : Nat) (e : ℝ) (inp : StepIn ℝ)
    (h : StepOK P pid e inp) :
    e + relT P pid (stepLedger P pid e inp)
        = (stepLedger P pid e inp).e1 + (stepLedger P pid e inp).dep
          + sumT P (stepLedger P pid e inp).secs
      ∧ 0 ≤ (stepLedger P pid e inp).e1
      ∧ ((stepLedger P pid e inp).fate = .killed → (stepLedger P pid e inp).e1 = 0) := by
  obtain ⟨he, hl, hp⟩ := h
  have ha := alongStep_sum e inp he hl
  have hs : (alongStep e inp).stop = .killedRange → (alongStep e inp).e = 0 := by
    unfold alongStep
    exact elossApplier_stop _ _ _ _ _ _
  have := postStep_balance P pid inp (alongStep e inp) ha.2.1 hs hp
  unfold stepLedger
  refine ⟨by linarith [this.1, ha.1], this.2.1, this.2.2⟩

/-! ### a track -/

/-- energy of the track after its last recorded step -/
noncomputable def finalE : ℝ → List (StepRec ℝ) → ℝ
  | e, [] => e
  | _, r :: rest => finalE r.e1 rest

/-- the step hypotheses hold along the track's own energy history -/
def TrackOK (P : Particles ℝ) (pid : Nat) : ℝ → List (StepIn ℝ) → Prop
  | _, [] => True
  | e, inp :: rest =>
    StepOK P pid e inp ∧
      ((stepLedger P pid e inp).fate = .alive → TrackOK P pid (stepLedger P pid e inp).e1 rest)

noncomputable def sumDep (l : List (StepRec ℝ)) : ℝ := (l.map (·.dep)).sum
noncomputable def sumSecT (P : Particles ℝ) (l : List (StepRec ℝ)) : ℝ :=
  (l.map fun r => sumT P r.secs).sum
noncomputable def sumRel (P : Particles ℝ) (pid : Nat) (l : List (StepRec ℝ)) : ℝ :=
  (l.map (relT P pid)).sum

theorem runTrack_balance (P : Particles ℝ) (pid : Nat) (steps : List (StepIn ℝ)) (e0 : ℝ)
    (h : TrackOK P pid e0 steps) :
    e0 - finalE e0 (runTrack P pid e0 steps) + sumRel P pid (runTrack P pid e0 steps)
      = sumDep (runTrack P pid e0 steps) + sumSecT P (runTrack P pid e0 steps) := by
  induction steps generalizing e0 with
  | nil => simp [runTrack, finalE, sumRel, sumDep, sumSecT]
  | cons inp rest ih =>
    obtain ⟨hs, hr⟩ := h
    have hb := (stepLedger_balance P pid e0 inp hs).1
    simp only [runTrack]
    cases hf : (stepLedger P pid e0 inp).fate with
    | alive =>
      simp only []
      have := ih (stepLedger P pid e0 inp).e1 (hr hf)
      simp only [finalE, sumRel, sumDep, sumSecT, List.map_cons, List.sum_cons] at this ⊢
      linarith
    | escaped =>
      simp only [finalE, sumRel, sumDep, sumSecT, List.map_cons, List.sum_cons, List.map_nil,
        List.sum_nil]
      linarith
    | killed =>
      simp only [finalE, sumRel, sumDep, sumSecT, List.map_cons, List.sum_cons, List.map_nil,
        List.sum_nil]
      linarith

/-! ### an event -/

noncomputable def Totals.sum (t : Totals ℝ) : ℝ := t.dep + t.esc + t.escRest + t.lostRest

theorem sumT_eraseIdx (P : Particles ℝ) (live : List (Tk ℝ)) (i : Nat) (t : Tk ℝ)
    (h : live[i]? = some t) : sumT P (live.eraseIdx i) + secT P t = sumT P live := by
  induction live generalizing i with
  | nil => simp at h
  | cons a rest ih =>
    cases i with
    | zero =>
      simp at h
      subst h
      simp [List.eraseIdx, sumT_cons]
      ring
    | succ j =>
      simp at h
      have := ih j h
      simp only [List.eraseIdx, sumT_cons]
      linarith

/-- the step hypotheses hold for every step of the history, for the track it is applied to -/
def EventOK (P : Particles ℝ) : List (Tk ℝ) → Totals ℝ → List (Nat × StepIn ℝ) → Prop
  | _, _, [] => True
  | live, tot, (i, inp) :: rest =>
    (∀ t, live[i]? = some t → StepOK P t.pid t.e inp) ∧
      EventOK P (eventStep P live tot i inp).1 (eventStep P live tot i inp).2 rest

/-- one step record preserves (total energy of live tracks) + (ledger totals) -/
theorem eventStep_invariant (P : Particles ℝ) (live : List (Tk ℝ)) (tot : Totals ℝ) (i : Nat)
    (inp : StepIn ℝ) (h : ∀ t, live[i]? = some t → StepOK P t.pid t.e inp) :
    sumT P (eventStep P live tot i inp).1 + (eventStep P live tot i inp).2.sum
      = sumT P live + tot.sum := by
  unfold eventStep
  cases hl : live[i]? with
  | none => simp only []
  | some t =>
    simp only []
    have hok := h t hl
    obtain ⟨hb, _, hk⟩ := stepLedger_balance P t.pid t.e inp hok
    have he := sumT_eraseIdx P live i t hl
    unfold relT at hb
    cases hf : (stepLedger P t.pid t.e inp).fate with
    | alive =>
      simp only [sumT_cons, sumT_append, secT, Totals.sum]
      -- an alive track never has its 2mc² released (tracking cut / absorption kill it)
      have hrel : (stepLedger P t.pid t.e inp).released = false :=
        ((postStep_flags P t.pid inp (alongStep t.e inp)).1 hf).1
      rw [hrel] at hb
      simp only [Bool.false_eq_true, if_false] at hb
      simp only [NumR.hadd_real]
      unfold secT at he
      linarith
    | escaped =>
      have hrel : (stepLedger P t.pid t.e inp).released = false :=
        ((postStep_flags P t.pid inp (alongStep t.e inp)).2.1 hf).1
      rw [hrel] at hb
      simp only [Bool.false_eq_true, if_false] at hb
      simp only [sumT_append, Totals.sum, NumR.hadd_real]
      unfold secT at he
      linarith
    | killed =>
      have hz := hk hf
      simp only [sumT_append]
      -- killed: either by range-out (2mc² goes to lostRest) or with its 2mc² released
      have hcase : ((stepLedger P t.pid t.e inp).rangeKilled = true
            ∧ (stepLedger P t.pid t.e inp).released = false)
          ∨ ((stepLedger P t.pid t.e inp).rangeKilled = false
            ∧ (stepLedger P t.pid t.e inp).released = true) :=
        (postStep_flags P t.pid inp (alongStep t.e inp)).2.2 hf
      unfold secT at he
      rcases hcase with ⟨h1, h2⟩ | ⟨h1, h2⟩
      · rw [h2] at hb
        simp only [Bool.false_eq_true, if_false] at hb
        simp only [h1, if_true, Totals.sum, NumR.hadd_real]
        linarith
      · rw [h2] at hb
        simp only [if_true] at hb
        simp only [h1, Bool.false_eq_true, if_false, Totals.sum, NumR.hadd_real]
        linarith

theorem runEvent_invariant (P : Particles ℝ) (hist : List (Nat × StepIn ℝ)) (live : List (Tk ℝ))
    (tot : Totals ℝ) (h : EventOK P live tot hist) :
    sumT P (runEvent P live tot hist).1 + (runEvent P live tot hist).2.sum
      = sumT P live + tot.sum := by
  induction hist generalizing live tot with
  | nil => simp [runEvent]
  | cons s rest ih =>
    obtain ⟨i, inp⟩ := s
    obtain ⟨h1, h2⟩ := h
    simp only [runEvent]
    rw [ih _ _ h2]
    exact eventStep_invariant P live tot i inp h1

end CelerVerif.Ledger
